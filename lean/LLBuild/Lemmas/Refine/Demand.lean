/-
IM2 — refinement: `DslTask::issue`, `demandRule`.
* `endIssue : Todo_endIssue` — PROVED (dropping the `issuing` mark).
* `issue_run` / `issue_sim_fixed` — `Todo_issue` with ONE MORE hypothesis `a ∉ s.readyTaskInfos` (STRENGTHENED: `Rel`
  allows the issuing task to sit in `readyTaskInfos` with `waitCount = 0`, then `readyOk` breaks after the first
  `addTaskInputRequest`).  One step = `issueStep_eq` (the function: `issueUpd … (getRuleInfoForKey q.key s)`),
  `Rel.getRuleReg` (registration; the monitor only moves by `RegStep`), `Rel.issueUpd` (the relation, clause by clause;
  `TaskOk.issueSelf` for the issuing task).  `issue_run` also tells the callers what they need about the final state
  (rule of `a`, its `TaskInfo`'s `waitCount`, `readyTaskInfos`, `InHand`, `RegStep` of the monitor).
* `demandRule_sim_fixed` — `Todo_demandRule` with ONE MORE hypothesis `∀ r ∈ h.dec, r.taskInfo ≠ some k` (STRENGTHENED:
  `Rel` does not constrain `Hand.dec` for keys without a task); `demandRule_sim_of_dec` = the case `h.dec = []` of all
  callers.  Branches: complete / in progress (nothing), `demand_upToDate` (`S k 1`, `Rel.upToDate`), `demand_run`
  (`T k ; ST k fresh` = `Rel.create`, `issue_run`, `PP k v` = `Rel.setPrior`, `endIssue`, `Rel.pushReady`).
-/
import LLBuild.Lemmas.Refine.Scan
import LLBuild.Lemmas.Refine.Halt

namespace LLBuild.Refine
open LLBuild.Engine LLBuild.Engine.DSL LLBuild.EngineImpl

/-! ## 1. `endIssue`: dropping the `issuing` mark -/

theorem TaskOk.endIssue {rules : List RuleSpec} {s : State} {m : Engine.St} {h : Hand} {a b : Key} {t : TaskInfo}
    (hi : h.issuing = none) (hb : TaskOk rules s m { h with issuing := some (a, []) } b t)
    (hp : b = a → (s.rule a).state = .inProgressWaiting → (m.task a).priorSeen = priorDue m a) :
    TaskOk rules s m h b t := by
  obtain ⟨scan, inp, fin, dec, issuing⟩ := h
  simp only at hi; subst hi
  refine { forRule := hb.forRule, started := hb.started, issued := ?_, issuedSeq := hb.issuedSeq, recv := hb.recv,
           deliveredIssued := hb.deliveredIssued, completed := hb.completed, waitCount := hb.waitCount,
           outIssued := hb.outIssued, issuedOut := hb.issuedOut, outNodup := hb.outNodup, depsPerm := hb.depsPerm,
           waiting := ?_, computing := hb.computing }
  · have := hb.issued
    simp only [Hand.toIssue] at this ⊢
    rw [this]; split <;> rfl
  · intro hw
    obtain ⟨h1, h2⟩ := hb.waiting hw
    refine ⟨Or.inl ?_, h2⟩
    rcases h1 with h1 | h1
    · exact h1
    · simp only [Hand.issuingFor, Option.map_some, Option.some.injEq] at h1
      subst h1
      exact hp rfl hw

theorem endIssue : Todo_endIssue := by
  intro rules s ms h a hi hr hp
  exact { hr with
    taskOk := fun b t hl => (hr.taskOk b t hl).endIssue hi (fun e hw => by subst e; exact hp t hl hw) }

/-! ## 2. `DslTask::issue` -/

/-- the monitor only registered keys / noted a cancellation (tokens `L`, `G`, `X`) -/
def RegStep (m m' : Engine.St) : Prop := ∃ rg sg c, m' = { m with registered := rg, sigAt := sg, cancelled := c }

theorem RegStep.refl (m : Engine.St) : RegStep m m := ⟨m.registered, m.sigAt, m.cancelled, rfl⟩
theorem RegStep.trans {m1 m2 m3 : Engine.St} (a : RegStep m1 m2) (b : RegStep m2 m3) : RegStep m1 m3 := by
  obtain ⟨r1, s1, c1, e1⟩ := a
  obtain ⟨r2, s2, c2, e2⟩ := b
  exact ⟨r2, s2, c2, by rw [e2, e1]⟩

def Tok.isLGXd : Tok → Bool
  | .L _ => true
  | .G _ _ => true
  | .X => true
  | _ => false

theorem tstep_regStep {P : Program} {ms ms' : MSt} {t : Tok} (ht : Tok.isLGXd t = true) (h : tstep P ms t = some ms') :
    RegStep ms.m ms'.m ∧ ms'.pend = ms.pend := by
  obtain ⟨m, pend⟩ := ms
  cases t <;> simp only [Tok.isLGXd, Bool.false_eq_true] at ht
  case L k =>
    have : ∀ m1, step P m (.lookup k) = some m1 → RegStep m m1 := by
      intro m1 h1
      simp only [step] at h1
      split at h1
      · cases h1; exact ⟨_, _, m.cancelled, rfl⟩
      · cases h1
    cases pend <;> simp [tstep, Tok.isS2, Tok.toEvent?, Tok.isReg] at h <;>
      obtain ⟨m1, h1, h2⟩ := h <;> subst h2 <;> exact ⟨this m1 h1, rfl⟩
  case G k f =>
    have : ∀ m1, step P m (.dbGet k f) = some m1 → RegStep m m1 := by
      intro m1 h1
      simp only [step] at h1
      split at h1
      · cases h1; exact RegStep.refl _
      · cases h1
    cases pend <;> simp [tstep, Tok.isS2, Tok.toEvent?, Tok.isReg] at h <;>
      obtain ⟨m1, h1, h2⟩ := h <;> subst h2 <;> exact ⟨this m1 h1, rfl⟩
  case X =>
    rw [tstep_X] at h
    cases h
    exact ⟨⟨m.registered, m.sigAt, true, rfl⟩, rfl⟩

theorem trun_regStep {P : Program} : ∀ (toks : List Tok) (ms ms' : MSt), (∀ t ∈ toks, Tok.isLGXd t = true) →
    trun P ms toks = some ms' → RegStep ms.m ms'.m ∧ ms'.pend = ms.pend
  | [], ms, ms', _, h => by simp [trun] at h; subst h; exact ⟨RegStep.refl _, rfl⟩
  | t :: rest, ms, ms', ht, h => by
    simp only [trun] at h
    cases hts : tstep P ms t with
    | none => rw [hts] at h; simp at h
    | some ms1 =>
      rw [hts] at h; simp only [Option.bind_some] at h
      obtain ⟨a1, a2⟩ := tstep_regStep (ht t (by simp)) hts
      obtain ⟨b1, b2⟩ := trun_regStep rest ms1 ms' (fun t h' => ht t (by simp [h'])) h
      exact ⟨a1.trans b1, b2.trans a2⟩

theorem Emits.unique_d {s s' : State} {t1 t2 : List Tok} (h1 : Emits s t1 s') (h2 : Emits s t2 s') : t1 = t2 := by
  unfold Emits at h1 h2
  rw [h1] at h2
  exact List.reverse_inj.1 (List.append_cancel_right h2)

/-- `Rel.getRule` + the monitor only registered + registrations grow -/
theorem Rel.getRuleReg {rules : List RuleSpec} {s : State} {ms : MSt} {h : Hand}
    (hr : Rel rules s ms h) (hh : s.halted = false) (k : Key) :
    ∃ toks ms', Emits s toks (EngineImpl.getRuleInfoForKey k s) ∧ trun (program rules) ms toks = some ms' ∧
      Rel rules (EngineImpl.getRuleInfoForKey k s) ms' h ∧ ms'.pend = ms.pend ∧
      Registered (EngineImpl.getRuleInfoForKey k s) k ∧ (EngineImpl.getRuleInfoForKey k s).halted = false ∧
      RegStep ms.m ms'.m ∧ RegMono s (EngineImpl.getRuleInfoForKey k s) := by
  obtain ⟨toks, ms', h1, h2, h3, h4, h5, h6⟩ := hr.getRule hh k
  refine ⟨toks, ms', h1, h2, h3, h4, h5, h6, ?_, ?_⟩
  · have hlgx : ∀ t ∈ toks, Tok.isLGXd t = true := by
      rcases getRuleInfoForKey_emits k s hr.hasDB hh with ⟨_, e⟩ | ⟨_, x1, x2, hx1, hx2, e⟩
      · rw [e] at h1
        have := Emits.unique_d h1 (Emits.refl s)
        subst this; intro t ht; cases ht
      · have := Emits.unique_d h1 e
        subst this
        intro t ht
        rcases hx1 with rfl | rfl <;> rcases hx2 with rfl | rfl <;> simp at ht <;>
          rcases ht with rfl | ht <;> try rfl
        all_goals (first | (rcases ht with rfl | rfl <;> rfl) | (rcases ht with rfl | rfl | rfl <;> rfl) | (subst ht; rfl))
    exact (trun_regStep toks ms ms' hlgx h2).1
  · intro k' hk'
    unfold Registered at *
    rw [getRuleInfoForKey_lookup k s hr.hasDB]
    split
    · rfl
    · exact hk'

/-! ### the function: one step of `issue` in batched form -/

theorem emit_setTask (t : Tok) (s : State) (ti : TaskInfo) : emit t (s.setTask ti) = (emit t s).setTask ti := by
  unfold emit State.setTask
  by_cases hh : s.halted = true
  · simp [hh]
  · simp only [hh, Bool.false_eq_true, if_false]
    split <;> simp [doCancel] <;> split <;> rfl

@[simp] theorem setTask_ruleInfos (s : State) (t : TaskInfo) : (s.setTask t).ruleInfos = s.ruleInfos := rfl
@[simp] theorem setTask_rule (s : State) (t : TaskInfo) (k : Key) : (s.setTask t).rule k = s.rule k := rfl

@[simp] theorem setTask_hasDB (s : State) (t : TaskInfo) : (s.setTask t).hasDB = s.hasDB := rfl
@[simp] theorem setTask_store (s : State) (t : TaskInfo) : (s.setTask t).store = s.store := rfl
@[simp] theorem setTask_rules (s : State) (t : TaskInfo) : (s.setTask t).rules = s.rules := rfl
@[simp] theorem setTask_env (s : State) (t : TaskInfo) : (s.setTask t).env = s.env := rfl

theorem getRuleInfoForKey_setTask (k : Key) (s : State) (ti : TaskInfo) :
    getRuleInfoForKey k (s.setTask ti) = (getRuleInfoForKey k s).setTask ti := by
  unfold getRuleInfoForKey
  cases hl : s.ruleInfos.lookup k with
  | some ri => simp [hl]
  | none =>
    simp only [setTask_ruleInfos, hl, emit_setTask, emit_hasDB, emit_store, emit_rules, emit_env, setTask_hasDB,
      setTask_store, setTask_rules, setTask_env]
    cases s.hasDB
    · rfl
    · simp only [if_true]
      cases s.store.rows.lookup k <;> rfl

/-- the task after one more request was issued -/
def issuedTask (t : TaskInfo) (q : Req) : TaskInfo :=
  { t with issuedReqs := t.issuedReqs ++ [q], waitCount := t.waitCount + 1 }

/-- the engine update of one step of `issue` (after the registration of the input) -/
def issueUpd (a : Key) (q : Req) (t : TaskInfo) (s : State) : State := pushInput (reqOf a q) (s.setTask (issuedTask t q))

/-- one iteration of `DslTask::issue` -/
def issueStep (a : Key) (q : Req) (s : State) : State :=
  let s := s.modTask a (fun t => { t with issuedReqs := t.issuedReqs ++ [q] })
  if q.kind == 0 then taskNeedsInput a q.key q.id s
  else if q.kind == 1 then taskNeedsSingleUseInput a q.key q.id s
  else taskMustFollow a q.key s

theorem issue_cons (a : Key) (q : Req) (rest : List Req) (s : State) :
    issue a (q :: rest) s = issue a rest (issueStep a q s) := rfl

theorem addTaskInputRequest_eq (a : Key) (q : Req) (id : Nat) (oo su : Bool) (s : State)
    (hw : (s.rule a).state = .inProgressWaiting) (ht : (s.task a).forRuleInfo = a) :
    addTaskInputRequest a q.key id oo su (s.modTask a (fun t => { t with issuedReqs := t.issuedReqs ++ [q] })) =
      pushInput { taskInfo := some a, inputID := id, inputRuleInfo := q.key, orderOnly := oo, forcePriorValue := false, singleUse := su }
        ((getRuleInfoForKey q.key s).setTask (issuedTask (s.task a) q)) := by
  unfold addTaskInputRequest
  have h1 : ((s.modTask a (fun t => { t with issuedReqs := t.issuedReqs ++ [q] })).rule a).isInProgressWaiting = true := by
    show (s.rule a).isInProgressWaiting = true
    simp [RuleInfo.isInProgressWaiting, hw]
  simp only [h1, Bool.not_true, Bool.false_eq_true, if_false]
  unfold State.modTask
  rw [getRuleInfoForKey_setTask]
  have htk : (getRuleInfoForKey q.key s).taskInfos = s.taskInfos := (getRuleInfoForKey_same q.key s).taskInfos
  generalize getRuleInfoForKey q.key s = G at htk ⊢
  simp only [State.setTask, State.task, pushInput, issuedTask, htk, lookup_alSet]
  have ht' : ((s.taskInfos.lookup a).getD { forRuleInfo := a }).forRuleInfo = a := ht
  simp [ht', alSet_alSet]

theorem issueStep_eq (a : Key) (q : Req) (s : State) (hk : q.kind ≤ 2) (hid : q.id ≤ kMaximumInputID)
    (hw : (s.rule a).state = .inProgressWaiting) (ht : (s.task a).forRuleInfo = a) :
    issueStep a q s = issueUpd a q (s.task a) (getRuleInfoForKey q.key s) := by
  have hid' : ¬ q.id > kMaximumInputID := by omega
  have hcases : q.kind = 0 ∨ q.kind = 1 ∨ q.kind = 2 := by omega
  unfold issueStep issueUpd reqOf
  rcases hcases with e | e | e
  · simp only [e, taskNeedsInput, hid', if_false]
    rw [addTaskInputRequest_eq a q q.id false false s hw ht]; simp
  · simp only [e, taskNeedsSingleUseInput, hid', if_false]
    rw [addTaskInputRequest_eq a q q.id false true s hw ht]; simp
  · simp only [e, taskMustFollow]
    rw [addTaskInputRequest_eq a q kMustFollowInputID true false s hw ht]; simp

/-! ### how the abstraction functions move under `issueUpd` -/

theorem mem_alSet_d {α : Type} : ∀ (l : List (Key × α)) (k : Key) (x : α) (p : Key × α), p ∈ alSet l k x → p = (k, x) ∨ p ∈ l
  | [], k, x, p, h => by simp [alSet] at h; exact Or.inl h
  | (k0, y) :: rest, k, x, p, h => by
    simp only [alSet] at h
    split at h
    · rcases List.mem_cons.1 h with h | h
      · exact Or.inl h
      · exact Or.inr (List.mem_cons_of_mem _ h)
    · rcases List.mem_cons.1 h with h | h
      · exact Or.inr (by rw [h]; exact List.mem_cons_self)
      · rcases mem_alSet_d rest k x p h with h | h
        · exact Or.inl h
        · exact Or.inr (List.mem_cons_of_mem _ h)

theorem setTask_flatMap_d {β : Type} {s : State} {a : Key} {t t' : TaskInfo} (f : TaskInfo → List β)
    (hl : s.taskInfos.lookup a = some t) (hk : t'.forRuleInfo = a) (hf : f t' = f t) :
    (s.setTask t').taskInfos.flatMap (fun p => f p.2) = s.taskInfos.flatMap (fun p => f p.2) := by
  obtain ⟨l1, l2, h1, h2, _⟩ := alSet_split s.taskInfos a t t' hl
  simp only [State.setTask, hk]
  rw [h2, h1]
  simp [List.flatMap_append, hf]

theorem inj_of_nodup_map {α β : Type} (f : α → β) : ∀ (l : List α), (l.map f).Nodup →
    ∀ x ∈ l, ∀ y ∈ l, f x = f y → x = y
  | [], _, x, hx, _, _, _ => by cases hx
  | z :: rest, hn, x, hx, y, hy, e => by
    simp only [List.map_cons, List.nodup_cons, List.mem_map, not_exists, not_and] at hn
    rcases List.mem_cons.1 hx with hx1 | hx1
    · rcases List.mem_cons.1 hy with hy1 | hy1
      · rw [hx1, hy1]
      · rw [hx1] at e; exact absurd e.symm (hn.1 y hy1)
    · rcases List.mem_cons.1 hy with hy1 | hy1
      · rw [hy1] at e; exact absurd e (hn.1 x hx1)
      · exact inj_of_nodup_map f rest hn.2 x hx1 y hy1 e

theorem pushInput_unprocessed_perm {s : State} {d : TaskInputRequest} (h : Hand) :
    List.Perm (unprocessed (pushInput d s) h) (d :: unprocessed s h) := by
  refine List.perm_iff_count.2 (fun x => ?_)
  simp only [unprocessed, pushInput, pausedAll, liveRecords, List.count_append, List.count_cons, List.count_nil]
  omega

theorem pushInput_outstanding_perm {s : State} {d : TaskInputRequest} (h : Hand) :
    List.Perm (outstanding (pushInput d s) h) (d :: outstanding s h) := by
  unfold outstanding
  rw [pushInput_processed]
  exact (List.Perm.append_right _ (pushInput_unprocessed_perm h)).trans (by simp)

section issueUpd
variable {s : State} {a : Key} {q : Req} {t : TaskInfo}

theorem issueUpd_lookup (hfa : t.forRuleInfo = a) (b : Key) :
    (issueUpd a q t s).taskInfos.lookup b = if b = a then some (issuedTask t q) else s.taskInfos.lookup b := by
  show (s.setTask (issuedTask t q)).taskInfos.lookup b = _
  rw [setTask_lookup]; simp [issuedTask, hfa]

theorem issueUpd_processed (hl : s.taskInfos.lookup a = some t) (hfa : t.forRuleInfo = a) (h : Hand) :
    processed (issueUpd a q t s) h = processed s h := by
  show h.fin ++ (s.setTask (issuedTask t q)).taskInfos.flatMap (fun p => p.2.requestedBy) ++ s.finishedInputRequests = _
  rw [setTask_flatMap_d (t' := issuedTask t q) (fun t => t.requestedBy) hl (by simpa [issuedTask] using hfa) rfl]; rfl

theorem issueUpd_scanReqs (hl : s.taskInfos.lookup a = some t) (hfa : t.forRuleInfo = a) (h : Hand) :
    scanReqs (issueUpd a q t s) h = scanReqs s h := by
  show h.scan ++ s.ruleInfosToScan ++ ((liveRecords s).flatMap (fun p => p.2.deferredScanRequests) ++
    (s.setTask (issuedTask t q)).taskInfos.flatMap (fun p => p.2.deferredScanRequests)) = _
  rw [setTask_flatMap_d (t' := issuedTask t q) (fun t => t.deferredScanRequests) hl (by simpa [issuedTask] using hfa) rfl]; rfl

theorem issueUpd_unprocessed_mem (h : Hand) (r : TaskInputRequest) :
    r ∈ unprocessed (issueUpd a q t s) h ↔ r = reqOf a q ∨ r ∈ unprocessed s h :=
  pushInput_unprocessed_mem (s := s.setTask (issuedTask t q)) (d := reqOf a q) h r

theorem issueUpd_unprocessed_perm (h : Hand) :
    List.Perm (unprocessed (issueUpd a q t s) h) (reqOf a q :: unprocessed s h) :=
  pushInput_unprocessed_perm (s := s.setTask (issuedTask t q)) (d := reqOf a q) h

theorem issueUpd_outstanding_perm (hl : s.taskInfos.lookup a = some t) (hfa : t.forRuleInfo = a) (h : Hand) :
    List.Perm (outstanding (issueUpd a q t s) h) (reqOf a q :: outstanding s h) := by
  unfold outstanding
  rw [issueUpd_processed hl hfa]
  exact (List.Perm.append_right _ (issueUpd_unprocessed_perm h)).trans (by simp)

theorem issueUpd_outstanding_mem (hl : s.taskInfos.lookup a = some t) (hfa : t.forRuleInfo = a) (h : Hand) (r : TaskInputRequest) :
    r ∈ outstanding (issueUpd a q t s) h ↔ r = reqOf a q ∨ r ∈ outstanding s h := by
  rw [(issueUpd_outstanding_perm hl hfa h).mem_iff]; simp

theorem issueUpd_ofTask_ne {l l' : List TaskInputRequest} (hp : List.Perm l' (reqOf a q :: l)) {b : Key} (hne : b ≠ a) :
    List.Perm (ofTask b l') (ofTask b l) := by
  have := List.Perm.filter (fun r => r.taskInfo == some b) hp
  have hd : ((reqOf a q).taskInfo == some b) = false := by simp [reqOf]; exact fun e => hne e.symm
  simpa [ofTask, List.filter_cons, hd] using this

theorem issueUpd_ofTask_self {l l' : List TaskInputRequest} (hp : List.Perm l' (reqOf a q :: l)) :
    List.Perm (ofTask a l') (reqOf a q :: ofTask a l) := by
  have := List.Perm.filter (fun r => r.taskInfo == some a) hp
  simpa [ofTask, List.filter_cons, reqOf] using this

end issueUpd

/-! ### the relation after one step of `issue` -/

/-- a task whose own requests, rule and monitor task are untouched while OTHER requests are added -/
theorem TaskOk.frame2 {rules : List RuleSpec} {s s' : State} {m : Engine.St} {h h' : Hand} {b : Key} {t : TaskInfo}
    (hb : TaskOk rules s m h b t)
    (hrule : s'.rule b = s.rule b)
    (hoa : List.Perm (ofTask b (outstanding s' h')) (ofTask b (outstanding s h)))
    (hua : List.Perm (ofTask b (unprocessed s' h')) (ofTask b (unprocessed s h)))
    (hmem : ∀ r, r ∈ outstanding s h → r ∈ outstanding s' h')
    (hissue : h'.toIssue b = h.toIssue b) (hmark : h'.issuingFor = h.issuingFor) (hdec : h'.dec = h.dec) :
    TaskOk rules s' m h' b t := by
  refine { forRule := hb.forRule, started := hb.started, issued := by rw [hissue]; exact hb.issued,
           issuedSeq := hb.issuedSeq, recv := hb.recv, deliveredIssued := hb.deliveredIssued, completed := hb.completed,
           waitCount := by rw [hb.waitCount, hdec, hoa.length_eq],
           outIssued := ?_, issuedOut := ?_, outNodup := ?_, depsPerm := ?_, waiting := ?_, computing := ?_ }
  · intro r hr
    exact hb.outIssued r (hoa.mem_iff.1 hr)
  · intro q hq
    obtain ⟨h1, h2⟩ := hb.issuedOut q hq
    refine ⟨fun x y => hmem _ (h1 x y), fun x => ?_⟩
    rcases h2 x with h3 | h3
    · exact Or.inl h3
    · exact Or.inr (hmem _ h3)
  · exact (List.Perm.nodup_iff (List.Perm.filter _ hoa)).2 hb.outNodup
  · rw [hrule]
    exact hb.depsPerm.trans (List.Perm.append_left _ (List.Perm.map _ hua.symm))
  · rw [hrule, hmark]; exact hb.waiting
  · rw [hrule]
    intro hne
    obtain ⟨h1, h2⟩ := hb.computing hne
    exact ⟨h1, List.Perm.eq_nil (h2 ▸ hoa)⟩

theorem reqOf_inj {rules : List RuleSpec} (hok : RulesOk rules) {a : Key} {q q' : Req}
    (hq : q ∈ allReqs (specOf rules a)) (hq' : q' ∈ allReqs (specOf rules a)) (hk : q.kind ≠ 2)
    (e : reqOf a q = reqOf a q') : q = q' := by
  have hk1 := hok.kinds a q hq
  have hk2 := hok.kinds a q' hq'
  simp only [reqOf, TaskInputRequest.mk.injEq, true_and] at e
  obtain ⟨e1, _, e3, _⟩ := e
  have hk' : q'.kind ≠ 2 := by
    intro h2; rw [h2] at e3; simp at e3; exact hk e3
  have hk2' : (q.kind == 2) = false := by simpa using hk
  have hk2'' : (q'.kind == 2) = false := by simpa using hk'
  simp only [hk2', hk2'', Bool.false_eq_true, if_false] at e1
  exact inj_of_nodup_map (fun q => q.id) _ (hok.nodup a) q hq q' hq' e1

/-- the issuing task itself, after one more request -/
theorem TaskOk.issueSelf {rules : List RuleSpec} (hok : RulesOk rules) {s : State} {m : Engine.St} {h : Hand} {a : Key}
    {q : Req} {rest : List Req} {t : TaskInfo}
    (hb : TaskOk rules s m { h with issuing := some (a, q :: rest) } a t)
    (hl : s.taskInfos.lookup a = some t) (hw : (s.rule a).state = .inProgressWaiting)
    (hq : q ∉ t.issuedReqs) (hqa : q ∈ allReqs (specOf rules a))
    (hta : ∀ q' ∈ t.issuedReqs, q' ∈ allReqs (specOf rules a)) :
    TaskOk rules (issueUpd a q t s) m { h with issuing := some (a, rest) } a (issuedTask t q) := by
  have hfa := hb.forRule
  have hop := issueUpd_ofTask_self (issueUpd_outstanding_perm (q := q) hl hfa { h with issuing := some (a, rest) })
  have hup := issueUpd_ofTask_self (issueUpd_unprocessed_perm (s := s) (a := a) (q := q) (t := t) { h with issuing := some (a, rest) })
  have hund : (q.kind ≠ 2 → delivered (m.task a).seq q = false) := by
    intro _
    cases hd : delivered (m.task a).seq q with
    | false => rfl
    | true => exact absurd (hb.deliveredIssued q hd) hq
  refine { forRule := hfa, started := hb.started, issued := ?_, issuedSeq := hb.issuedSeq, recv := hb.recv,
           deliveredIssued := ?_, completed := hb.completed, waitCount := ?_, outIssued := ?_, issuedOut := ?_,
           outNodup := ?_, depsPerm := ?_, waiting := ?_, computing := ?_ }
  · have := hb.issued
    simp only [Hand.toIssue, if_true] at this ⊢
    rw [this]; simp [issuedTask]
  · intro q' hq'
    exact List.mem_append_left _ (hb.deliveredIssued q' hq')
  · rw [hop.length_eq]
    have : t.waitCount = (ofTask a (outstanding s { h with issuing := some (a, rest) })).length + (ofTask a h.dec).length :=
      hb.waitCount
    show t.waitCount + 1 = (ofTask a (outstanding s { h with issuing := some (a, rest) })).length + 1 + (ofTask a h.dec).length
    omega
  · intro r hr
    rcases List.mem_cons.1 (hop.mem_iff.1 hr) with e | e
    · exact ⟨q, by simp [issuedTask], e, hund⟩
    · obtain ⟨q', h1, h2⟩ := hb.outIssued r e
      exact ⟨q', List.mem_append_left _ h1, h2⟩
  · intro q' hq'
    have hmem : ∀ r, r ∈ outstanding s { h with issuing := some (a, q :: rest) } →
        r ∈ outstanding (issueUpd a q t s) { h with issuing := some (a, rest) } :=
      fun r hr => (issueUpd_outstanding_mem hl hfa _ r).2 (Or.inr hr)
    have hnew : reqOf a q ∈ outstanding (issueUpd a q t s) { h with issuing := some (a, rest) } :=
      (issueUpd_outstanding_mem hl hfa _ _).2 (Or.inl rfl)
    rcases List.mem_append.1 hq' with h1 | h1
    · obtain ⟨h2, h3⟩ := hb.issuedOut q' h1
      refine ⟨fun x y => hmem _ (h2 x y), fun x => ?_⟩
      rcases h3 x with h4 | h4
      · exact Or.inl h4
      · exact Or.inr (hmem _ h4)
    · simp only [List.mem_singleton] at h1; subst h1
      exact ⟨fun _ _ => hnew, fun _ => Or.inr hnew⟩
  · refine (List.Perm.nodup_iff (List.Perm.filter _ hop)).2 ?_
    rw [List.filter_cons]
    split
    · rename_i hoo
      refine List.nodup_cons.2 ⟨?_, hb.outNodup⟩
      intro hm
      have hm' := (List.mem_filter.1 hm).1
      obtain ⟨q', h1, h2, _⟩ := hb.outIssued _ hm'
      have hk : q.kind ≠ 2 := by
        intro e; simp [reqOf, e] at hoo
      have := reqOf_inj hok hqa (hta q' h1) hk h2
      subst this
      exact hq h1
    · exact hb.outNodup
  · have h0 := hb.depsPerm
    show List.Perm ((t.issuedReqs ++ [q]).map Req.toDep) _
    refine List.Perm.trans ?_ (List.Perm.append_left _ (List.Perm.map _ hup.symm))
    rw [List.map_append, List.map_cons, List.map_cons, List.map_nil]
    have hd : depOf (reqOf a q) = q.toDep := rfl
    rw [hd]
    refine (List.perm_append_comm).trans ?_
    refine List.Perm.trans ?_ (List.perm_middle).symm
    exact List.Perm.cons _ h0
  · intro _
    obtain ⟨_, h2⟩ := hb.waiting hw
    exact ⟨Or.inr rfl, h2⟩
  · intro hne; exact absurd hw hne

theorem ScanReqOk.issueUpd {s : State} {m : Engine.St} {r : RuleScanRequest} {a : Key} {q : Req} {t : TaskInfo}
    (hb : ScanReqOk s m r) : ScanReqOk (issueUpd a q t s) m r := { hb with }

/-- **one step of `issue`** (after the input was registered): the request `q` moves from the hand to the task, its
`TaskInputRequest` is queued.  `hnr`: the task is not queued as ready (its wait count becomes positive). -/
theorem Rel.issueUpd {rules : List RuleSpec} (hok : RulesOk rules) {s : State} {ms : MSt} {h : Hand} {a : Key} {q : Req}
    {rest : List Req} {t : TaskInfo}
    (hr : Rel rules s ms { h with issuing := some (a, q :: rest) }) (hp : ms.pend = none)
    (hl : s.taskInfos.lookup a = some t) (hw : (s.rule a).state = .inProgressWaiting)
    (hreg : Registered s q.key) (hq : q ∉ t.issuedReqs) (hqa : q ∈ allReqs (specOf rules a))
    (hta : ∀ q' ∈ t.issuedReqs, q' ∈ allReqs (specOf rules a)) (hnr : a ∉ s.readyTaskInfos) :
    Rel rules (Refine.issueUpd a q t s) ms { h with issuing := some (a, rest) } := by
  have hta0 := hr.taskOk a t hl
  have hfa : t.forRuleInfo = a := hta0.forRule
  have hlk := issueUpd_lookup (s := s) (q := q) hfa
  have hsr := issueUpd_scanReqs (q := q) hl hfa { h with issuing := some (a, rest) }
  have hproc := issueUpd_processed (q := q) hl hfa { h with issuing := some (a, rest) }
  have humem := issueUpd_unprocessed_mem (s := s) (a := a) (q := q) (t := t) { h with issuing := some (a, rest) }
  have homem := issueUpd_outstanding_mem (q := q) hl hfa { h with issuing := some (a, rest) }
  have hoperm := issueUpd_outstanding_perm (q := q) hl hfa { h with issuing := some (a, rest) }
  have huperm := issueUpd_unprocessed_perm (s := s) (a := a) (q := q) (t := t) { h with issuing := some (a, rest) }
  have hsome : ∀ b, (s.taskInfos.lookup b).isSome = true → ((Refine.issueUpd a q t s).taskInfos.lookup b).isSome = true := by
    intro b hb; rw [hlk]; split
    · rfl
    · exact hb
  have hsomeEq : ∀ b, ((Refine.issueUpd a q t s).taskInfos.lookup b).isSome = (s.taskInfos.lookup b).isSome := by
    intro b; rw [hlk]; split
    · rename_i e; subst e; rw [hl]; rfl
    · rfl
  have hmemT : ∀ p ∈ (Refine.issueUpd a q t s).taskInfos, p = (a, issuedTask t q) ∨ p ∈ s.taskInfos := by
    intro p hp'
    have : p ∈ alSet s.taskInfos (issuedTask t q).forRuleInfo (issuedTask t q) := hp'
    have e : (issuedTask t q).forRuleInfo = a := hfa
    rw [e] at this
    exact mem_alSet_d _ _ _ _ this
  have hat : (a, t) ∈ s.taskInfos := lookup_mem _ _ _ hl
  refine
    { toBase := { hr.toBase with }, active := hr.active, started := hr.started, notReturned := hr.notReturned,
      epochPos := hr.epochPos, cancelled := hr.cancelled, errCancelled := hr.errCancelled, noCycle := hr.noCycle,
      targetReg := hr.targetReg, status := hr.status,
      pendOk := hr.pendOk, validIdle := hr.validIdle, scanningOk := hr.scanningOk, dntrFresh := hr.dntrFresh,
      inScanned := hr.inScanned, inRan := hr.inRan, ranOk := hr.ranOk, scanOne := ?scanOne,
      scanOk := ?scanOk,
      deferredAtRecord := hr.deferredAtRecord, deferredAtTask := ?deferredAtTask, recordLive := hr.recordLive,
      scanCount := hr.scanCount,
      recordWaited := ?recordWaited,
      midScan := ?midScan,
      taskKeys := ?taskKeys, taskNodup := ?taskNodup,
      taskOk := ?taskOk,
      reqReg := ?reqReg,
      reqTask := ?reqTask,
      dummyOk := ?dummyOk,
      dummyUnproc := ?dummyUnproc, pausedAt := hr.pausedAt, requestedAt := ?requestedAt, finDone := hr.finDone,
      pendingOk := ?pendingOk,
      readyOk := ?readyOk, readyNodup := hr.readyNodup, finTaskOk := ?finTaskOk, finTaskNodup := hr.finTaskNodup,
      deferredOk := ?deferredOk, deferredNodup := hr.deferredNodup, computingWhere := ?computingWhere,
      outstandingCount := hr.outstandingCount }
  case scanOne =>
    intro k ri h1 h2; rw [hsr]; exact hr.scanOne k ri h1 h2
  case scanOk =>
    intro r hm; rw [hsr] at hm; exact (hr.scanOk r hm).issueUpd
  case deferredAtTask =>
    intro p hp' r hr'
    rcases hmemT p hp' with e | e
    · subst e; exact hr.deferredAtTask (a, t) hat r hr'
    · exact hr.deferredAtTask p e r hr'
  case requestedAt =>
    intro p hp' r hr'
    rcases hmemT p hp' with e | e
    · subst e; exact hr.requestedAt (a, t) hat r hr'
    · exact hr.requestedAt p e r hr'
  case recordWaited =>
    intro p hp'
    rcases hr.recordWaited p hp' with h1 | h1 | h1 | ⟨r, h1, h2⟩
    · exact Or.inl h1
    · exact Or.inr (Or.inl h1)
    · exact Or.inr (Or.inr (Or.inl h1))
    · refine Or.inr (Or.inr (Or.inr ⟨r, ?_, h2⟩))
      show r ∈ h.inp ++ (s.inputRequests ++ [reqOf a q])
      rcases List.mem_append.1 h1 with h1 | h1
      · exact List.mem_append_left _ h1
      · exact List.mem_append_right _ (List.mem_append_left _ h1)
  case midScan =>
    intro k ri hl' hs
    rcases hr.midScan k ri hl' hs with h1 | ⟨r, h1, h2⟩
    · exact Or.inl h1
    · refine Or.inr ⟨r, ?_, h2⟩
      show r ∈ h.inp ++ (s.inputRequests ++ [reqOf a q])
      rcases List.mem_append.1 h1 with h1 | h1
      · exact List.mem_append_left _ h1
      · exact List.mem_append_right _ (List.mem_append_left _ h1)
  case taskKeys =>
    intro k; rw [hsomeEq]; exact hr.taskKeys k
  case taskNodup => exact alSet_keys_nodup _ _ _ hr.taskNodup
  case taskOk =>
    intro b tb hb
    rw [hlk] at hb
    by_cases e : b = a
    · subst e
      simp only [if_true, Option.some.injEq] at hb
      subst hb
      exact hta0.issueSelf hok hl hw hq hqa hta
    · simp only [e, if_false] at hb
      refine (hr.taskOk b tb hb).frame2 rfl (issueUpd_ofTask_ne hoperm e) (issueUpd_ofTask_ne huperm e)
        (fun r hr' => (homem r).2 (Or.inr hr')) ?_ rfl rfl
      simp [Hand.toIssue, e]
  case reqReg =>
    intro r hm
    rcases (homem r).1 hm with e | e
    · subst e; exact ⟨hreg, rfl⟩
    · exact hr.reqReg r e
  case reqTask =>
    intro r hm b hb
    rcases (homem r).1 hm with e | e
    · subst e
      simp only [reqOf, Option.some.injEq] at hb
      subst hb
      exact ⟨hsome _ (by rw [hl]; rfl), hw⟩
    · obtain ⟨h1, h2⟩ := hr.reqTask r e b hb
      exact ⟨hsome _ h1, h2⟩
  case dummyOk =>
    intro r hm hn
    rcases (humem r).1 hm with e | e
    · subst e; simp [reqOf] at hn
    · rcases hr.dummyOk r e hn with h1 | h1 | h1 | ⟨k, _, h1, _⟩
      · exact Or.inl h1
      · exact Or.inr (Or.inl h1)
      · exact Or.inr (Or.inr (Or.inl h1))
      · rw [hp] at h1; cases h1
  case dummyUnproc => rw [hproc]; exact hr.dummyUnproc
  case pendingOk =>
    intro p hp'
    rcases hr.pendingOk p hp' with ⟨r, h1, h2⟩ | h1
    · exact Or.inl ⟨r, (humem r).2 (Or.inr h1), h2⟩
    · exact Or.inr (hsome _ h1)
  case readyOk =>
    intro b hb
    obtain ⟨tb, h1, h2, h3⟩ := hr.readyOk b hb
    have e : b ≠ a := fun e => hnr (e ▸ hb)
    exact ⟨tb, by rw [hlk]; simpa [e] using h1, h2, h3⟩
  case finTaskOk =>
    intro b hb
    obtain ⟨tb, h1, h2, h3⟩ := hr.finTaskOk b hb
    have e : b ≠ a := by intro e; subst e; rw [hw] at h2; cases h2
    exact ⟨tb, by rw [hlk]; simpa [e] using h1, h2, h3⟩
  case deferredOk =>
    intro b hb
    obtain ⟨tb, h1, h2, h3⟩ := hr.deferredOk b hb
    have e : b ≠ a := by intro e; subst e; rw [hw] at h2; cases h2
    exact ⟨tb, by rw [hlk]; simpa [e] using h1, h2, h3⟩
  case computingWhere =>
    intro b tb h1 h2
    have e : b ≠ a := by
      intro e; subst e
      have : (s.rule b).state = .inProgressComputing := h2
      rw [hw] at this; cases this
    rw [hlk] at h1
    simp only [e, if_false] at h1
    exact hr.computingWhere b tb h1 h2

/-! ### `issue` refines the monitor -/

theorem RegStep.target {m m' : Engine.St} (h : RegStep m m') : m'.target = m.target := by
  obtain ⟨_, _, _, e⟩ := h; rw [e]

theorem InHand_issueUpd {h' : Hand} {s : State} {a : Key} {q : Req} {t : TaskInfo} {k' : Key} (hi : InHand h' s k') :
    InHand h' (issueUpd a q t s) k' := by
  unfold InHand at *
  rcases hi with ⟨r, h1, h2⟩ | ⟨r, h1, h2⟩
  · exact Or.inl ⟨r, h1, h2⟩
  · refine Or.inr ⟨r, ?_, h2⟩
    show r ∈ h'.inp ++ (s.inputRequests ++ [reqOf a q])
    rcases List.mem_append.1 h1 with h1 | h1
    · exact List.mem_append_left _ h1
    · exact List.mem_append_right _ (List.mem_append_left _ h1)

theorem issueStep_run {rules : List RuleSpec} (hok : RulesOk rules) {s : State} {ms : MSt} {h : Hand} {a : Key} {q : Req}
    {rest : List Req} {t : TaskInfo}
    (hr : Rel rules s ms { h with issuing := some (a, q :: rest) }) (hp : ms.pend = none) (hh : s.halted = false)
    (hw : (s.rule a).state = .inProgressWaiting) (hl : s.taskInfos.lookup a = some t)
    (hq : q ∉ t.issuedReqs) (hqa : q ∈ allReqs (specOf rules a))
    (hta : ∀ q' ∈ t.issuedReqs, q' ∈ allReqs (specOf rules a)) (hnr : a ∉ s.readyTaskInfos) :
    ∃ toks ms', Emits s toks (issueStep a q s) ∧ trun (program rules) ms toks = some ms' ∧
      Rel rules (issueStep a q s) ms' { h with issuing := some (a, rest) } ∧ ms'.pend = none ∧
      RegMono s (issueStep a q s) ∧ RegStep ms.m ms'.m ∧ (issueStep a q s).halted = false ∧
      (issueStep a q s).rule a = s.rule a ∧ (issueStep a q s).taskInfos.lookup a = some (issuedTask t q) ∧
      (issueStep a q s).readyTaskInfos = s.readyTaskInfos ∧
      (∀ (h' : Hand) k', InHand h' s k' → InHand h' (issueStep a q s) k') := by
  have hfa : t.forRuleInfo = a := (hr.taskOk a t hl).forRule
  have htask : s.task a = t := task_of_lookup hl
  rw [issueStep_eq a q s (hok.kinds a q hqa) (hok.ids a q hqa) hw (by rw [htask]; exact hfa), htask]
  obtain ⟨toks, ms', e1, e2, e3, e4, e5, e6, e7, e8⟩ := hr.getRuleReg hh q.key
  have hGsame := getRuleInfoForKey_same q.key s
  have hareg : Registered s a := hr.task_registered (by rw [hl]; rfl)
  have hGrule : (getRuleInfoForKey q.key s).rule a = s.rule a := by
    unfold State.rule
    rw [getRuleInfoForKey_lookup q.key s hr.hasDB]
    split
    · rename_i hc
      obtain ⟨hc1, hc2⟩ := hc
      rw [← hc1] at hc2
      simp [Registered, hc2] at hareg
    · rfl
  generalize getRuleInfoForKey q.key s = G at *
  have hGl : G.taskInfos.lookup a = some t := by rw [hGsame.taskInfos]; exact hl
  have hrel := e3.issueUpd hok (e4.trans hp) hGl (by rw [hGrule]; exact hw) e5 hq hqa hta
    (by rw [hGsame.readyTaskInfos]; exact hnr)
  refine ⟨toks, ms', e1, e2, hrel, e4.trans hp, fun k hk => e8 k hk, e7, e6, hGrule, ?_, hGsame.readyTaskInfos, ?_⟩
  · rw [issueUpd_lookup hfa]; simp
  · intro h' k' hi
    apply InHand_issueUpd
    unfold InHand at *
    rw [hGsame.ruleInfosToScan, hGsame.inputRequests]; exact hi

/-- **`DslTask::issue`**, with what its callers need to know about the final state -/
theorem issue_run {rules : List RuleSpec} (hok : RulesOk rules) : ∀ (l : List Req) (s : State) (ms : MSt) (h : Hand)
    (a : Key) (t : TaskInfo),
    Rel rules s ms { h with issuing := some (a, l) } → ms.pend = none → s.halted = false →
    (s.rule a).state = .inProgressWaiting → s.taskInfos.lookup a = some t →
    (∀ q ∈ l, q ∉ t.issuedReqs) → (∀ q ∈ t.issuedReqs, q ∈ allReqs (specOf rules a)) → l.Nodup →
    (∀ q ∈ l, q ∈ allReqs (specOf rules a)) → a ∉ s.readyTaskInfos →
    ∃ toks ms' t', Emits s toks (issue a l s) ∧ trun (program rules) ms toks = some ms' ∧
      Rel rules (issue a l s) ms' { h with issuing := some (a, []) } ∧ ms'.pend = none ∧ RegMono s (issue a l s) ∧
      RegStep ms.m ms'.m ∧ (issue a l s).halted = false ∧ (issue a l s).rule a = s.rule a ∧
      (issue a l s).taskInfos.lookup a = some t' ∧ t'.waitCount = t.waitCount + l.length ∧
      (issue a l s).readyTaskInfos = s.readyTaskInfos ∧
      (∀ (h' : Hand) k', InHand h' s k' → InHand h' (issue a l s) k')
  | [], s, ms, h, a, t, hr, hp, hh, _, hl, _, _, _, _, _ =>
    ⟨[], ms, t, Emits.refl s, rfl, hr, hp, fun _ x => x, RegStep.refl _, hh, rfl, hl, rfl, rfl, fun _ _ x => x⟩
  | q :: rest, s, ms, h, a, t, hr, hp, hh, hw, hl, hnew, hta, hnd, hall, hnr => by
    rw [issue_cons]
    obtain ⟨toks1, ms1, a1, a2, a3, a4, a5, a6, a7, a8, a9, a10, a11⟩ :=
      issueStep_run hok hr hp hh hw hl (hnew q (by simp)) (hall q (by simp)) hta hnr
    generalize issueStep a q s = s1 at *
    have hnd' := List.nodup_cons.1 hnd
    obtain ⟨toks2, ms2, t2, b1, b2, b3, b4, b5, b6, b7, b8, b9, b10, b11, b12⟩ :=
      issue_run hok rest s1 ms1 h a (issuedTask t q) a3 a4 a7 (by rw [a8]; exact hw) a9
        (by
          intro q' hq' hm
          rcases List.mem_append.1 hm with hm | hm
          · exact hnew q' (by simp [hq']) hm
          · simp only [List.mem_singleton] at hm; subst hm; exact hnd'.1 hq')
        (by
          intro q' hm
          rcases List.mem_append.1 hm with hm | hm
          · exact hta q' hm
          · simp only [List.mem_singleton] at hm; subst hm; exact hall q' (by simp))
        hnd'.2 (fun q' hq' => hall q' (by simp [hq'])) (by rw [a10]; exact hnr)
    refine ⟨toks1 ++ toks2, ms2, t2, a1.trans b1, trun_append_some a2 b2, b3, b4, fun k hk => b5 k (a5 k hk),
      a6.trans b6, b7, b8.trans a8, b9, ?_, b11.trans a10, fun h' k' hi => b12 h' k' (a11 h' k' hi)⟩
    rw [b10]; simp [issuedTask]; omega

/-- **`issue` refines the monitor.**  `Todo_issue` with one more hypothesis:
STRENGTHENED: `a ∉ s.readyTaskInfos` — the issuing task is not queued as ready.  `Todo_issue` as stated is not provable:
`Rel` allows a state in which `a` is in `readyTaskInfos` with `waitCount = 0` while the hand still holds requests to
issue; after one `addTaskInputRequest` the wait count is 1 and `Rel.readyOk` fails.  Both callers have the fact: in
`demandRule` the task was just created (`readyOk`: every ready task has a `TaskInfo`), in `taskProvideValue` the
request being delivered is still counted in `waitCount` (`readyOk`: ready tasks have `waitCount = 0`). -/
theorem issue_sim_fixed : ∀ rules, RulesOk rules → ∀ (s : State) (ms : MSt) (h : Hand) (a : Key) (l : List Req),
    h.issuing = none → Rel rules s ms { h with issuing := some (a, l) } → ms.pend = none → s.halted = false →
    (s.rule a).state = .inProgressWaiting →
    (∃ t, s.taskInfos.lookup a = some t ∧ (∀ q ∈ l, q ∉ t.issuedReqs) ∧ (∀ q ∈ t.issuedReqs, q ∈ allReqs (specOf rules a))) →
    l.Nodup → (∀ q ∈ l, q ∈ allReqs (specOf rules a)) →
    a ∉ s.readyTaskInfos →   -- STRENGTHENED
    Sim rules s ms (issue a l s) { h with issuing := some (a, []) } (fun _ => True) := by
  intro rules hok s ms h a l _ hr hp hh hw ⟨t, hl, hnew, hta⟩ hnd hall hnr _
  obtain ⟨toks, ms', t', b1, b2, b3, b4, b5, b6, _⟩ := issue_run hok l s ms h a t hr hp hh hw hl hnew hta hnd hall hnr
  exact ⟨toks, ms', b1, b2, b3, b4, b5, b6.target, trivial⟩

/-! ## 3. `demandRule` -/

/-! ### `DoesNotNeedToRun` ↦ `Complete` (`S k 1` = `upToDate`) -/

/-- replacing a non-scanning rule by a non-scanning rule: the request lists are the same -/
theorem setRule_abs_nn {s : State} {k : Key} {old new : RuleInfo} (hl : s.ruleInfos.lookup k = some old)
    (hk : new.key = k) (ho : old.isScanning = false) (hn : new.isScanning = false) (h : Hand) :
    unprocessed (s.setRule new) h = unprocessed s h ∧ processed (s.setRule new) h = processed s h ∧
    outstanding (s.setRule new) h = outstanding s h ∧ scanReqs (s.setRule new) h = scanReqs s h := by
  unfold outstanding unprocessed scanReqs deferredAll pausedAll
  rw [setRule_liveRecords_nn hl hk ho hn]
  exact ⟨rfl, rfl, rfl, rfl⟩

/-- the monitor after `upToDate k` -/
def upToDateM (m : Engine.St) (k : Key) : Engine.St :=
  { m with status := upd m.status k .done, mem := m.mem.setRes k { m.mem.res k with builtAt := m.epoch },
           pending := m.pending.filter (fun p => p.1 != k) }

theorem Rel.upToDate {rules : List RuleSpec} {s : State} {m : Engine.St} {h : Hand} {k : Key} {ri : RuleInfo}
    (hr : Rel rules s ⟨m, none⟩ h) (hl : s.ruleInfos.lookup k = some ri) (hst : ri.state = .doesNotNeedToRun) :
    Rel rules (s.setRule (setComplete s ri)) ⟨upToDateM m k, none⟩ h := by
  have hk : (setComplete s ri).key = k := hr.keyOk k ri hl
  have ho : ri.isScanning = false := by simp [RuleInfo.isScanning, hst]
  have hn : (setComplete s ri).isScanning = false := by simp [RuleInfo.isScanning, setComplete]
  obtain ⟨hunp, hproc, hout, hsr⟩ := setRule_abs_nn hl hk ho hn h
  have hlr := setRule_liveRecords_nn hl hk ho hn
  have hlk : ∀ k', (s.setRule (setComplete s ri)).ruleInfos.lookup k' =
      if k' = k then some (setComplete s ri) else s.ruleInfos.lookup k' := by
    intro k'; rw [setRule_lookup, hk]
  have hrule_ne : ∀ k', k' ≠ k → (s.setRule (setComplete s ri)).rule k' = s.rule k' := by
    intro k' hne; rw [setRule_rule, hk]; simp [hne]
  have hold : ∀ k' ri', (s.setRule (setComplete s ri)).ruleInfos.lookup k' = some ri' → k' ≠ k → s.ruleInfos.lookup k' = some ri' := by
    intro k' ri' h1 h2; rw [hlk] at h1; simpa [h2] using h1
  obtain ⟨hvs, hb0, hsig⟩ := hr.scanningOk k ri hl (Or.inr hst)
  have hstat0 : m.status k = .scanning := by
    have := hr.status k; simp only at this; rw [this]; simp [statusOf, hl, hst]
  have hstatus' : ∀ k', (upToDateM m k).status k' = if k' = k then .done else m.status k' := by
    intro k'; simp [upToDateM, upd]
  have hdone' : ∀ x, x ≠ k → isDone (upToDateM m k) x = isDone m x := by
    intro x hx; unfold isDone; rw [hstatus']; simp [hx]
  have hdone : ∀ x, isDone m x = true → isDone (upToDateM m k) x = true := by
    intro x hx
    by_cases e : x = k
    · subst e; unfold isDone; rw [hstatus']; simp
    · rw [hdone' x e]; exact hx
  have hnd : ∀ x, isDone m x = true → x ≠ k := by
    intro x hx e; subst e; unfold isDone at hx; rw [hstat0] at hx; simp at hx
  have hmem' : ∀ k', k' ≠ k → (upToDateM m k).mem.res k' = m.mem.res k' := by
    intro k' hne; simp [upToDateM, Store.setRes, upd, hne]
  have hfreshdep : ∀ (r : Res) d, depFresh m r d = true → depFresh (upToDateM m k) r d = true := by
    intro r d hd
    unfold depFresh at hd ⊢
    simp only [Bool.and_eq_true] at hd ⊢
    have hdk : d.key ≠ k := hnd _ hd.1
    rw [hdone' _ hdk, hmem' _ hdk]; exact hd
  have hstatusOf : ∀ k', statusOf (s.setRule (setComplete s ri)) none k' = if k' = k then .done else statusOf s none k' := by
    intro k'
    unfold statusOf
    rw [hlk]
    by_cases e : k' = k
    · subst e
      simp [setComplete]
      rfl
    · simp only [e, if_false]; rfl
  have htaskNone : s.taskInfos.lookup k = none := by
    have := hr.taskKeys k
    have e : statusOf s none k = .scanning := by rw [← hstat0]; exact (hr.status k).symm
    simp only at this
    rw [e] at this
    cases h1 : s.taskInfos.lookup k with
    | none => rfl
    | some _ => rw [h1] at this; simp at this
  have htask_ne : ∀ a t, s.taskInfos.lookup a = some t → a ≠ k := by
    intro a t h1 e; subst e; rw [htaskNone] at h1; cases h1
  have hreg : ∀ k', Registered s k' → Registered (s.setRule (setComplete s ri)) k' := by
    intro k' h1; unfold Registered at *; rw [hlk]; by_cases e : k' = k <;> simp [e, h1]
  have hres0 := hr.res k ri hl
  have hinp0 : StateKind.inProgress ri.state = false := by simp [StateKind.inProgress, hst]
  rw [hinp0] at hres0
  refine
    { rules_eq := hr.rules_eq, env := hr.env, hasDB := hr.hasDB, noResolve := hr.noResolve, noFail := hr.noFail,
      epoch := hr.epoch, reg := ?reg, keyOk := ?keyOk, rulesNodup := setRule_rulesNodup _ hr.rulesNodup, sig := ?sig, res := ?res,
      resUnreg := ?resUnreg, db := hr.db, dbBuilt := hr.dbBuilt, dbBuiltLe := hr.dbBuiltLe, dbIter := hr.dbIter,
      builtLe := ?builtLe,
      active := hr.active, started := hr.started, notReturned := hr.notReturned, epochPos := hr.epochPos,
      cancelled := hr.cancelled, errCancelled := hr.errCancelled, noCycle := hr.noCycle, targetReg := hr.targetReg,
      status := ?status, pendOk := ?pendOk,
      validIdle := ?validIdle, scanningOk := ?scanningOk, dntrFresh := ?dntrFresh, inScanned := ?inScanned,
      inRan := ?inRan, ranOk := ?ranOk, scanOne := ?scanOne, scanOk := ?scanOk,
      deferredAtRecord := ?deferredAtRecord, deferredAtTask := hr.deferredAtTask, recordLive := ?recordLive,
      scanCount := ?scanCount, recordWaited := ?recordWaited, midScan := ?midScan, taskKeys := ?taskKeys,
      taskNodup := hr.taskNodup,
      taskOk := ?taskOk, reqReg := ?reqReg, reqTask := ?reqTask, dummyOk := ?dummyOk, dummyUnproc := ?dummyUnproc,
      pausedAt := ?pausedAt, requestedAt := hr.requestedAt, finDone := ?finDone, pendingOk := ?pendingOk,
      readyOk := ?readyOk, readyNodup := hr.readyNodup, finTaskOk := ?finTaskOk, finTaskNodup := hr.finTaskNodup,
      deferredOk := ?deferredOk, deferredNodup := hr.deferredNodup, computingWhere := ?computingWhere,
      outstandingCount := hr.outstandingCount }
  case reg =>
    intro k'
    show m.registered k' = _
    rw [hlk, hr.reg k']
    by_cases e : k' = k
    · subst e; simp [hl]
    · simp [e]
  case keyOk =>
    intro k' ri' h1
    rw [hlk] at h1
    by_cases e : k' = k
    · subst e; simp at h1; subst h1; exact hk
    · simp [e] at h1; exact hr.keyOk k' ri' h1
  case sig =>
    intro k' ri' h1
    rw [hlk] at h1
    show m.sigAt k' = _
    by_cases e : k' = k
    · subst e; simp at h1; subst h1; exact hr.sig k' ri hl
    · simp [e] at h1; exact hr.sig k' ri' h1
  case res =>
    intro k' ri' h1
    rw [hlk] at h1
    by_cases e : k' = k
    · subst e; simp at h1; subst h1
      obtain ⟨a1, a2, a3, a4, a5⟩ := hres0
      have hinp' : StateKind.inProgress (setComplete s ri).state = false := by simp [StateKind.inProgress, setComplete]
      rw [hinp']
      simp only [upToDateM, Store.setRes, upd_same, setComplete, resRel]
      refine ⟨a1, a2, a3, fun _ => hr.epoch, fun _ _ _ => ?_⟩
      exact a5 rfl rfl hb0
    · simp [e] at h1
      rw [hmem' _ e]; exact hr.res k' ri' h1
  case resUnreg =>
    intro k' h1
    rw [hlk] at h1
    by_cases e : k' = k
    · subst e; simp at h1
    · simp only [e, if_false] at h1
      rw [hmem' _ e]; exact hr.resUnreg k' h1
  case builtLe =>
    intro k' ri' h1
    rw [hlk] at h1
    by_cases e : k' = k
    · subst e; simp at h1; subst h1; exact Nat.le_refl _
    · simp [e] at h1; exact hr.builtLe k' ri' h1
  case status =>
    intro k'
    rw [hstatusOf, hstatus']
    by_cases e : k' = k
    · simp [e]
    · simp only [e, if_false]; exact hr.status k'
  case pendOk => intro k' hp; cases hp
  case validIdle =>
    intro k' hi
    rw [hstatus'] at hi
    by_cases e : k' = k
    · subst e; simp at hi
    · simp only [e, if_false] at hi
      exact hr.validIdle k' hi
  case scanningOk =>
    intro k' ri' h1 h2
    rw [hlk] at h1
    by_cases e : k' = k
    · subst e; simp at h1; subst h1; simp [setComplete] at h2
    · simp [e] at h1
      exact hr.scanningOk k' ri' h1 h2
  case dntrFresh =>
    intro k' ri' h1 h2
    rw [hlk] at h1
    by_cases e : k' = k
    · subst e; simp at h1; subst h1; simp [setComplete] at h2
    · simp [e] at h1
      rw [hmem' _ e]
      intro d hd
      exact hfreshdep _ d (hr.dntrFresh k' ri' h1 h2 d hd)
  case inScanned =>
    intro k' hi
    rw [hstatus'] at hi
    by_cases e : k' = k
    · subst e; simp at hi
    · simp only [e, if_false] at hi
      exact hr.inScanned k' hi
  case inRan =>
    intro k' hi
    rw [hstatus'] at hi
    by_cases e : k' = k
    · subst e; simp at hi
    · simp only [e, if_false] at hi
      exact hr.inRan k' hi
  case ranOk =>
    intro k' hk'
    rw [hstatus']
    have h0 := hr.ranOk k' hk'
    by_cases e : k' = k
    · simp [e]
    · simp only [e, if_false]; exact h0
  case scanOne =>
    intro k' ri' h1 h2
    rw [hsr]
    by_cases e : k' = k
    · subst e; rw [hlk] at h1; simp at h1; subst h1; simp [setComplete] at h2
    · exact hr.scanOne k' ri' (hold k' ri' h1 e) h2
  case scanOk =>
    intro r hm
    rw [hsr] at hm
    have h0 := hr.scanOk r hm
    have hne : r.ruleInfo ≠ k := by
      intro e
      have hsc := h0.scanning
      rw [e, rule_of_lookup hl, hst] at hsc
      cases hsc
    exact h0.frame hreg (hrule_ne _ hne) (hmem' _ hne) (hfreshdep _)
  case deferredAtRecord => rw [hlr]; exact hr.deferredAtRecord
  case recordLive =>
    intro k' ri' h1 h2
    by_cases e : k' = k
    · subst e; rw [hlk] at h1; simp at h1; subst h1; simp [setComplete] at h2
    · exact hr.recordLive k' ri' (hold k' ri' h1 e) h2
  case scanCount =>
    rw [setRule_scanCount_nn hl hk ho hn]; exact hr.scanCount
  case recordWaited => rw [hlr]; exact hr.recordWaited
  case midScan =>
    intro k' ri' h1 h2
    by_cases e : k' = k
    · subst e; rw [hlk] at h1; simp at h1; subst h1; simp [setComplete] at h2
    · exact hr.midScan k' ri' (hold k' ri' h1 e) h2
  case taskKeys =>
    intro k'
    rw [hstatusOf]
    by_cases e : k' = k
    · subst e
      show (s.taskInfos.lookup k').isSome = _
      rw [htaskNone]; simp
    · simp only [e, if_false]; exact hr.taskKeys k'
  case taskOk =>
    intro a t h1
    have hne := htask_ne a t h1
    refine (hr.taskOk a t h1).frame (hrule_ne a hne) rfl (by rw [hout]) (by rw [hunp]) rfl rfl rfl hdone ?_
    unfold priorDue
    rw [hmem' _ hne]; rfl
  case reqReg =>
    intro r hm; rw [hout] at hm
    exact ⟨hreg _ (hr.reqReg r hm).1, (hr.reqReg r hm).2⟩
  case reqTask =>
    intro r hm a ha; rw [hout] at hm
    obtain ⟨h1, h2⟩ := hr.reqTask r hm a ha
    obtain ⟨t, ht⟩ := Option.isSome_iff_exists.1 h1
    exact ⟨h1, by rw [hrule_ne a (htask_ne a t ht)]; exact h2⟩
  case dummyOk =>
    intro r hm hn; rw [hunp] at hm
    rw [hstatus']
    by_cases e : r.inputRuleInfo = k
    · left; simp [e]
    · rcases hr.dummyOk r hm hn with h1 | h1 | ⟨p, h1, h2⟩ | ⟨k2, t, h1, _⟩
      · left; simp only [e, if_false]; exact h1
      · exact Or.inr (Or.inl h1)
      · refine Or.inr (Or.inr (Or.inl ⟨p, ?_, h2⟩))
        show p ∈ m.pending.filter (fun p => p.1 != k)
        refine List.mem_filter.2 ⟨h1, ?_⟩
        rw [h2]; simpa using e
      · cases h1
  case dummyUnproc => rw [hproc]; exact hr.dummyUnproc
  case pausedAt => rw [hlr]; exact hr.pausedAt
  case finDone =>
    intro r hm
    exact hdone _ (hr.finDone r hm)
  case pendingOk =>
    intro p hp
    have hp' : p ∈ m.pending := (List.mem_filter.1 hp).1
    rw [hunp]
    exact hr.pendingOk p hp'
  case readyOk =>
    intro a ha
    obtain ⟨t, h1, h2, h3⟩ := hr.readyOk a ha
    exact ⟨t, h1, by rw [hrule_ne a (htask_ne a t h1)]; exact h2, h3⟩
  case finTaskOk =>
    intro a ha
    obtain ⟨t, h1, h2, h3⟩ := hr.finTaskOk a ha
    exact ⟨t, h1, by rw [hrule_ne a (htask_ne a t h1)]; exact h2, h3⟩
  case deferredOk =>
    intro a ha
    obtain ⟨t, h1, h2, h3⟩ := hr.deferredOk a ha
    exact ⟨t, h1, by rw [hrule_ne a (htask_ne a t h1)]; exact h2, h3⟩
  case computingWhere =>
    intro a t h1 h2
    rw [hrule_ne a (htask_ne a t h1)] at h2
    exact hr.computingWhere a t h1 h2

/-- what `Todo_demandRule` promises besides `Rel` -/
def DemandPost (h : Hand) (k : Key) (s : State) (r : Bool × State) (ms' : MSt) : Prop :=
  (r.1 = true → isDone ms'.m k = true) ∧ (r.1 = false → (r.2.taskInfos.lookup k).isSome = true) ∧
  (∀ k', InHand h s k' → InHand h r.2 k')

theorem step_upToDate {P : Program} {m : Engine.St} {k : Key} (h1 : m.status k = .scanning)
    (h2 : m.validSeen k = some true) (h3 : ∀ d ∈ (m.mem.res k).deps, depFresh m (m.mem.res k) d = true) :
    step P m (.upToDate k) = some (upToDateM m k) := by
  have h3' : (m.mem.res k).deps.all (depFresh m (m.mem.res k)) = true := List.all_eq_true.2 h3
  simp [step, h1, h2, h3', upToDateM]

/-- the `DoesNotNeedToRun` branch of `demandRule`: `S k 1` -/
theorem demand_upToDate {rules : List RuleSpec} {s : State} {m : Engine.St} {h : Hand} {k : Key} {ri : RuleInfo}
    (hr : Rel rules s ⟨m, none⟩ h) (hh : s.halted = false) (hl : s.ruleInfos.lookup k = some ri)
    (hst : ri.state = .doesNotNeedToRun) :
    Sim rules s ⟨m, none⟩ (emit (.S k 1) (s.setRule (setComplete s ri))) h
      (DemandPost h k s (true, emit (.S k 1) (s.setRule (setComplete s ri)))) := by
  intro _
  have hk : (setComplete s ri).key = k := hr.keyOk k ri hl
  obtain ⟨hvs, _, _⟩ := hr.scanningOk k ri hl (Or.inr hst)
  have hstat0 : m.status k = .scanning := by
    have := hr.status k; simp only at this; rw [this]; simp [statusOf, hl, hst]
  have hstep := step_upToDate (P := program rules) hstat0 hvs (hr.dntrFresh k ri hl hst)
  have hts : tstep (program rules) ⟨m, none⟩ (.S k 1) = some ⟨upToDateM m k, none⟩ := tstep_ev (by rfl) (by rfl) hstep
  have hrel := hr.upToDate hl hst
  obtain ⟨toks', ms'', he, hrun', hrel', hms⟩ := Rel.emit_list [.S k 1] (s.setRule (setComplete s ri)) ⟨m, none⟩ _ hh
    (by intro t ht; simp at ht; subst ht; rfl) (by simp [trun, hts]) hrel
  have hdone : isDone ms''.m k = true := by
    rcases hms with e | e <;> rw [e] <;> simp [isDone, cancelMs, cancelM, upToDateM]
  refine ⟨toks', ms'', he, hrun', hrel', ?_, ?_, ?_, fun _ => hdone, fun x => (by cases x), ?_⟩
  · rcases hms with e | e <;> rw [e] <;> rfl
  · intro k' hk'
    unfold Registered at *
    show ((emit (.S k 1) (s.setRule (setComplete s ri))).ruleInfos.lookup k').isSome = true
    rw [emit_ruleInfos, setRule_lookup]
    split
    · rfl
    · exact hk'
  · rcases hms with e | e <;> rw [e] <;> rfl
  · intro k' hi
    exact InHand_same (emit_same _ _) hi

/-! ### `NeedsToRun`: `T k ; ST k fresh` (`create`, `start`) -/

/-- the general frame for a task that is not the one being worked on -/
theorem TaskOk.frame3 {rules : List RuleSpec} {s s' : State} {m m' : Engine.St} {h h' : Hand} {a : Key} {t : TaskInfo}
    (hb : TaskOk rules s m h a t)
    (hrule : s'.rule a = s.rule a) (htask : m'.task a = m.task a)
    (hoa : List.Perm (ofTask a (outstanding s' h')) (ofTask a (outstanding s h)))
    (hua : List.Perm (ofTask a (unprocessed s' h')) (ofTask a (unprocessed s h)))
    (hmem : ∀ r, r ∈ outstanding s h → r ∈ outstanding s' h')
    (hissue : h'.toIssue a = h.toIssue a) (hmark : h.issuingFor = some a → h'.issuingFor = some a)
    (hdec : ofTask a h'.dec = ofTask a h.dec)
    (hdone : ∀ x, isDone m x = true → isDone m' x = true)
    (hprior : priorDue m' a = priorDue m a) :
    TaskOk rules s' m' h' a t := by
  refine { forRule := hb.forRule, started := by rw [htask]; exact hb.started,
           issued := by rw [htask, hissue]; exact hb.issued,
           issuedSeq := by rw [htask]; exact hb.issuedSeq, recv := by rw [htask]; exact hb.recv,
           deliveredIssued := by rw [htask]; exact hb.deliveredIssued,
           completed := by rw [htask]; exact hb.completed,
           waitCount := by rw [hb.waitCount, hdec, hoa.length_eq],
           outIssued := ?_, issuedOut := ?_, outNodup := ?_, depsPerm := ?_, waiting := ?_, computing := ?_ }
  · intro r hr
    rw [htask]
    exact hb.outIssued r (hoa.mem_iff.1 hr)
  · intro q hq
    obtain ⟨h1, h2⟩ := hb.issuedOut q hq
    rw [htask]
    refine ⟨fun x y => hmem _ (h1 x y), fun x => ?_⟩
    rcases h2 x with h3 | h3
    · exact Or.inl (hdone _ h3)
    · exact Or.inr (hmem _ h3)
  · exact (List.Perm.nodup_iff (List.Perm.filter _ hoa)).2 hb.outNodup
  · rw [hrule]
    exact hb.depsPerm.trans (List.Perm.append_left _ (List.Perm.map _ hua.symm))
  · rw [hrule, htask, hprior]
    intro hw
    obtain ⟨h1, h2⟩ := hb.waiting hw
    refine ⟨?_, h2⟩
    rcases h1 with h1 | h1
    · exact Or.inl h1
    · exact Or.inr (hmark h1)
  · rw [hrule, htask]
    intro hne
    obtain ⟨h1, h2⟩ := hb.computing hne
    exact ⟨h1, List.Perm.eq_nil (h2 ▸ hoa)⟩

/-- the rule of a task that was just created (`InProgressWaiting`, dependencies reset) -/
def startedRule (ri : RuleInfo) : RuleInfo :=
  { ri with state := .inProgressWaiting, inProgressInfo := .pendingTaskInfo, result := { ri.result with deps := [] } }

/-- the engine update of `demandRule` on `NeedsToRun`: new `TaskInfo`, rule in progress -/
def createUpd (k : Key) (ri : RuleInfo) (s : State) : State := (s.setTask { forRuleInfo := k }).setRule (startedRule ri)

/-- the monitor after `create k ; start k reqs` -/
def createM (m : Engine.St) (k : Key) (reqs : List Req) : Engine.St :=
  { m with status := upd m.status k .running, task := upd m.task k { started := true, issued := reqs },
           mem := m.mem.setRes k { m.mem.res k with deps := [] }, ran := k :: m.ran }

section createUpd
variable {s : State} {k : Key} {ri : RuleInfo}

theorem createUpd_taskInfos (hn : s.taskInfos.lookup k = none) :
    (createUpd k ri s).taskInfos = s.taskInfos ++ [(k, { forRuleInfo := k })] := by
  show alSet s.taskInfos k { forRuleInfo := k } = _
  exact alSet_fresh _ _ _ hn

theorem createUpd_abs (hl : s.ruleInfos.lookup k = some ri) (hk : ri.key = k) (ho : ri.isScanning = false)
    (hn : s.taskInfos.lookup k = none) (h : Hand) :
    liveRecords (createUpd k ri s) = liveRecords s ∧
    unprocessed (createUpd k ri s) h = unprocessed s h ∧ processed (createUpd k ri s) h = processed s h ∧
    outstanding (createUpd k ri s) h = outstanding s h ∧ scanReqs (createUpd k ri s) h = scanReqs s h := by
  have hl' : (s.setTask { forRuleInfo := k }).ruleInfos.lookup k = some ri := hl
  have hns : (startedRule ri).isScanning = false := by simp [RuleInfo.isScanning, startedRule]
  have hk' : (startedRule ri).key = k := hk
  obtain ⟨a1, a2, a3, a4⟩ := setRule_abs_nn hl' hk' ho hns h
  have hlr := setRule_liveRecords_nn hl' hk' ho hns
  have hti := createUpd_taskInfos (ri := ri) hn
  have hproc : processed (s.setTask { forRuleInfo := k }) h = processed s h := by
    unfold processed requestedByAll
    have : (s.setTask { forRuleInfo := k }).taskInfos = s.taskInfos ++ [(k, { forRuleInfo := k })] := hti
    rw [this]; simp; rfl
  have hsr : scanReqs (s.setTask { forRuleInfo := k }) h = scanReqs s h := by
    unfold scanReqs deferredAll
    have : (s.setTask { forRuleInfo := k }).taskInfos = s.taskInfos ++ [(k, { forRuleInfo := k })] := hti
    rw [this]; simp; rfl
  refine ⟨hlr, a1, ?_, ?_, ?_⟩
  · show processed ((s.setTask { forRuleInfo := k }).setRule (startedRule ri)) h = _
    rw [a2, hproc]
  · show outstanding ((s.setTask { forRuleInfo := k }).setRule (startedRule ri)) h = _
    rw [a3]; unfold outstanding; rw [hproc]; rfl
  · show scanReqs ((s.setTask { forRuleInfo := k }).setRule (startedRule ri)) h = _
    rw [a4, hsr]

theorem createUpd_lookup (hk : ri.key = k) (k' : Key) :
    (createUpd k ri s).ruleInfos.lookup k' = if k' = k then some (startedRule ri) else s.ruleInfos.lookup k' := by
  show ((s.setTask { forRuleInfo := k }).setRule (startedRule ri)).ruleInfos.lookup k' = _
  rw [setRule_lookup]
  have : (startedRule ri).key = k := hk
  rw [this]; rfl

theorem createUpd_task_lookup (k' : Key) :
    (createUpd k ri s).taskInfos.lookup k' = if k' = k then some { forRuleInfo := k } else s.taskInfos.lookup k' := by
  show (s.setTask { forRuleInfo := k }).taskInfos.lookup k' = _
  rw [setTask_lookup]

end createUpd

/-- **`create k ; start k fresh`**: the relation for the engine with the new task against the monitor, the hand
marked `issuing` with the whole list `fresh` (nothing issued yet).  `hdec`: no request of a task of `k` is waiting for
its `decrementTaskWaitCount` (there is no such task). -/
theorem Rel.create {rules : List RuleSpec} {s : State} {m : Engine.St} {h : Hand} {k : Key} {ri : RuleInfo} {fresh : List Req}
    (hr : Rel rules s ⟨m, none⟩ h) (hi : h.issuing = none) (hdec : ∀ r ∈ h.dec, r.taskInfo ≠ some k)
    (hl : s.ruleInfos.lookup k = some ri) (hst : ri.state = .needsToRun)
    (hfresh : fresh = issuedAfter (program rules) k []) :
    Rel rules (createUpd k ri s) ⟨createM m k fresh, none⟩ { h with issuing := some (k, fresh) } := by
  have hk : ri.key = k := hr.keyOk k ri hl
  have ho : ri.isScanning = false := by simp [RuleInfo.isScanning, hst]
  have hstat0 : m.status k = .needsRun := by
    have := hr.status k; simp only at this; rw [this]; simp [statusOf, hl, hst]
  have hstatOf0 : statusOf s none k = .needsRun := by rw [← hstat0]; exact (hr.status k).symm
  have htaskNone : s.taskInfos.lookup k = none := by
    have := hr.taskKeys k
    simp only at this
    rw [hstatOf0] at this
    cases h1 : s.taskInfos.lookup k with
    | none => rfl
    | some _ => rw [h1] at this; simp at this
  have htask_ne : ∀ a t, s.taskInfos.lookup a = some t → a ≠ k := by
    intro a t h1 e; subst e; rw [htaskNone] at h1; cases h1
  obtain ⟨hlr, hunp, hproc, hout, hsr⟩ := createUpd_abs hl hk ho htaskNone { h with issuing := some (k, fresh) }
  have hlk := createUpd_lookup (s := s) hk
  have htl := createUpd_task_lookup (s := s) (k := k) (ri := ri)
  have hrule_ne : ∀ k', k' ≠ k → (createUpd k ri s).rule k' = s.rule k' := by
    intro k' hne; unfold State.rule; rw [hlk]; simp [hne]
  have hrule_self : (createUpd k ri s).rule k = startedRule ri := by
    unfold State.rule; rw [hlk]; simp
  have hold : ∀ k' ri', (createUpd k ri s).ruleInfos.lookup k' = some ri' → k' ≠ k → s.ruleInfos.lookup k' = some ri' := by
    intro k' ri' h1 h2; rw [hlk] at h1; simpa [h2] using h1
  have hstatus' : ∀ k', (createM m k fresh).status k' = if k' = k then .running else m.status k' := by
    intro k'; simp [createM, upd]
  have hdone' : ∀ x, isDone (createM m k fresh) x = isDone m x := by
    intro x; unfold isDone; rw [hstatus']
    by_cases e : x = k
    · subst e; rw [hstat0]; simp; rfl
    · simp [e]
  have hmem' : ∀ k', k' ≠ k → (createM m k fresh).mem.res k' = m.mem.res k' := by
    intro k' hne; simp [createM, Store.setRes, upd, hne]
  have htask' : ∀ a, a ≠ k → (createM m k fresh).task a = m.task a := by
    intro a hne; simp [createM, upd, hne]
  have htask_self : (createM m k fresh).task k = { started := true, issued := fresh } := by simp [createM]
  have hfreshdep : ∀ (r : Res) d, depFresh m r d = true → depFresh (createM m k fresh) r d = true := by
    intro r d hd
    unfold depFresh at hd ⊢
    simp only [Bool.and_eq_true] at hd ⊢
    have hdk : d.key ≠ k := by
      intro e; have := hd.1; rw [e] at this; unfold isDone at this; rw [hstat0] at this; simp at this
    rw [hdone', hmem' _ hdk]; exact hd
  have hstatusOf : ∀ k', statusOf (createUpd k ri s) none k' = if k' = k then .running else statusOf s none k' := by
    intro k'
    unfold statusOf
    rw [hlk]
    by_cases e : k' = k
    · subst e; simp [startedRule]
    · simp only [e, if_false]; rfl
  have hreg : ∀ k', Registered s k' → Registered (createUpd k ri s) k' := by
    intro k' h1; unfold Registered at *; rw [hlk]; by_cases e : k' = k <;> simp [e, h1]
  have hsome : ∀ b, (s.taskInfos.lookup b).isSome = true → ((createUpd k ri s).taskInfos.lookup b).isSome = true := by
    intro b hb; rw [htl]; split
    · rfl
    · exact hb
  have hmemT : ∀ p ∈ (createUpd k ri s).taskInfos, p = (k, { forRuleInfo := k }) ∨ p ∈ s.taskInfos := by
    intro p hp'
    rw [createUpd_taskInfos htaskNone] at hp'
    rcases List.mem_append.1 hp' with h1 | h1
    · exact Or.inr h1
    · exact Or.inl (by simpa using h1)
  have hres0 := hr.res k ri hl
  have hinp0 : StateKind.inProgress ri.state = false := by simp [StateKind.inProgress, hst]
  rw [hinp0] at hres0
  -- no request of a task of `k` anywhere
  have hnoReq : ∀ r ∈ outstanding s h, r.taskInfo ≠ some k := by
    intro r hm e
    have := (hr.reqTask r hm k e).1
    rw [htaskNone] at this; cases this
  have hofTask_out : ofTask k (outstanding s h) = [] := by
    apply List.filter_eq_nil_iff.2
    intro r hm; simpa using hnoReq r hm
  have hofTask_unp : ofTask k (unprocessed s h) = [] := by
    apply List.filter_eq_nil_iff.2
    intro r hm; simpa using hnoReq r (List.mem_append_left _ hm)
  have hofTask_dec : ofTask k h.dec = [] := by
    apply List.filter_eq_nil_iff.2
    intro r hm; simpa using hdec r hm
  refine
    { rules_eq := hr.rules_eq, env := hr.env, hasDB := hr.hasDB, noResolve := hr.noResolve, noFail := hr.noFail,
      epoch := hr.epoch, reg := ?reg, keyOk := ?keyOk, rulesNodup := setRule_rulesNodup _ hr.rulesNodup, sig := ?sig, res := ?res,
      resUnreg := ?resUnreg, db := hr.db, dbBuilt := hr.dbBuilt, dbBuiltLe := hr.dbBuiltLe, dbIter := hr.dbIter,
      builtLe := ?builtLe,
      active := hr.active, started := hr.started, notReturned := hr.notReturned, epochPos := hr.epochPos,
      cancelled := hr.cancelled, errCancelled := hr.errCancelled, noCycle := hr.noCycle, targetReg := hr.targetReg,
      status := ?status, pendOk := ?pendOk,
      validIdle := ?validIdle, scanningOk := ?scanningOk, dntrFresh := ?dntrFresh, inScanned := ?inScanned,
      inRan := ?inRan, ranOk := ?ranOk, scanOne := ?scanOne, scanOk := ?scanOk,
      deferredAtRecord := ?deferredAtRecord, deferredAtTask := ?deferredAtTask, recordLive := ?recordLive,
      scanCount := ?scanCount, recordWaited := ?recordWaited, midScan := ?midScan, taskKeys := ?taskKeys,
      taskNodup := ?taskNodup,
      taskOk := ?taskOk, reqReg := ?reqReg, reqTask := ?reqTask, dummyOk := ?dummyOk, dummyUnproc := ?dummyUnproc,
      pausedAt := ?pausedAt, requestedAt := ?requestedAt, finDone := ?finDone, pendingOk := ?pendingOk,
      readyOk := ?readyOk, readyNodup := hr.readyNodup, finTaskOk := ?finTaskOk, finTaskNodup := hr.finTaskNodup,
      deferredOk := ?deferredOk, deferredNodup := hr.deferredNodup, computingWhere := ?computingWhere,
      outstandingCount := hr.outstandingCount }
  case reg =>
    intro k'
    show m.registered k' = _
    rw [hlk, hr.reg k']
    by_cases e : k' = k
    · subst e; simp [hl]
    · simp [e]
  case keyOk =>
    intro k' ri' h1
    rw [hlk] at h1
    by_cases e : k' = k
    · subst e; simp at h1; subst h1; exact hk
    · simp [e] at h1; exact hr.keyOk k' ri' h1
  case sig =>
    intro k' ri' h1
    rw [hlk] at h1
    show m.sigAt k' = _
    by_cases e : k' = k
    · subst e; simp at h1; subst h1; exact hr.sig k' ri hl
    · simp [e] at h1; exact hr.sig k' ri' h1
  case res =>
    intro k' ri' h1
    rw [hlk] at h1
    by_cases e : k' = k
    · subst e; simp at h1; subst h1
      obtain ⟨a1, a2, a3, a4, _⟩ := hres0
      have hinp' : StateKind.inProgress (startedRule ri).state = true := by simp [StateKind.inProgress, startedRule]
      rw [hinp']
      simp only [createM, Store.setRes, upd_same, startedRule, resRel]
      exact ⟨a1, a2, a3, a4, fun _ hf => (by cases hf)⟩
    · simp [e] at h1
      rw [hmem' _ e]; exact hr.res k' ri' h1
  case resUnreg =>
    intro k' h1
    rw [hlk] at h1
    by_cases e : k' = k
    · subst e; simp at h1
    · simp only [e, if_false] at h1
      rw [hmem' _ e]; exact hr.resUnreg k' h1
  case builtLe =>
    intro k' ri' h1
    rw [hlk] at h1
    by_cases e : k' = k
    · subst e; simp at h1; subst h1; exact hr.builtLe k' ri hl
    · simp [e] at h1; exact hr.builtLe k' ri' h1
  case status =>
    intro k'
    rw [hstatusOf, hstatus']
    by_cases e : k' = k
    · simp [e]
    · simp only [e, if_false]; exact hr.status k'
  case pendOk => intro k' hp; cases hp
  case validIdle =>
    intro k' hi
    rw [hstatus'] at hi
    by_cases e : k' = k
    · subst e; simp at hi
    · simp only [e, if_false] at hi
      exact hr.validIdle k' hi
  case scanningOk =>
    intro k' ri' h1 h2
    rw [hlk] at h1
    by_cases e : k' = k
    · subst e; simp at h1; subst h1; simp [startedRule] at h2
    · simp [e] at h1
      exact hr.scanningOk k' ri' h1 h2
  case dntrFresh =>
    intro k' ri' h1 h2
    rw [hlk] at h1
    by_cases e : k' = k
    · subst e; simp at h1; subst h1; simp [startedRule] at h2
    · simp [e] at h1
      rw [hmem' _ e]
      intro d hd
      exact hfreshdep _ d (hr.dntrFresh k' ri' h1 h2 d hd)
  case inScanned =>
    intro k' hi
    rw [hstatus'] at hi
    by_cases e : k' = k
    · subst e; simp at hi
    · simp only [e, if_false] at hi
      exact hr.inScanned k' hi
  case inRan =>
    intro k' hi
    rw [hstatus'] at hi
    show k' ∈ k :: m.ran
    by_cases e : k' = k
    · simp [e]
    · simp only [e, if_false] at hi
      exact List.mem_cons_of_mem _ (hr.inRan k' hi)
  case ranOk =>
    intro k' hk'
    rw [hstatus']
    by_cases e : k' = k
    · simp [e]
    · simp only [e, if_false]
      have : k' ∈ k :: m.ran := hk'
      rcases List.mem_cons.1 this with h1 | h1
      · exact absurd h1 e
      · exact hr.ranOk k' h1
  case scanOne =>
    intro k' ri' h1 h2
    rw [hsr]
    by_cases e : k' = k
    · subst e; rw [hlk] at h1; simp at h1; subst h1; simp [startedRule] at h2
    · exact hr.scanOne k' ri' (hold k' ri' h1 e) h2
  case scanOk =>
    intro r hm
    rw [hsr] at hm
    have h0 := hr.scanOk r hm
    have hne : r.ruleInfo ≠ k := by
      intro e
      have hsc := h0.scanning
      rw [e, rule_of_lookup hl, hst] at hsc
      cases hsc
    exact h0.frame hreg (hrule_ne _ hne) (hmem' _ hne) (hfreshdep _)
  case deferredAtRecord => rw [hlr]; exact hr.deferredAtRecord
  case deferredAtTask =>
    intro p hp' r hr'
    rcases hmemT p hp' with e | e
    · subst e; cases hr'
    · exact hr.deferredAtTask p e r hr'
  case requestedAt =>
    intro p hp' r hr'
    rcases hmemT p hp' with e | e
    · subst e; cases hr'
    · exact hr.requestedAt p e r hr'
  case recordLive =>
    intro k' ri' h1 h2
    by_cases e : k' = k
    · subst e; rw [hlk] at h1; simp at h1; subst h1; simp [startedRule] at h2
    · exact hr.recordLive k' ri' (hold k' ri' h1 e) h2
  case scanCount =>
    have hl' : (s.setTask { forRuleInfo := k }).ruleInfos.lookup k = some ri := hl
    have := setRule_scanCount_nn (new := startedRule ri) hl' hk ho (by simp [RuleInfo.isScanning, startedRule])
    exact hr.scanCount.trans this.symm
  case recordWaited => rw [hlr]; exact hr.recordWaited
  case midScan =>
    intro k' ri' h1 h2
    by_cases e : k' = k
    · subst e; rw [hlk] at h1; simp at h1; subst h1; simp [startedRule] at h2
    · exact hr.midScan k' ri' (hold k' ri' h1 e) h2
  case taskKeys =>
    intro k'
    rw [hstatusOf, htl]
    by_cases e : k' = k
    · simp [e]
    · simp only [e, if_false]; exact hr.taskKeys k'
  case taskNodup => exact alSet_keys_nodup _ _ _ hr.taskNodup
  case taskOk =>
    intro a t h1
    rw [htl] at h1
    by_cases e : a = k
    · subst e
      simp only [if_true, Option.some.injEq] at h1
      subst h1
      have hoa : ofTask a (outstanding (createUpd a ri s) { h with issuing := some (a, fresh) }) = [] := by
        rw [hout]; exact hofTask_out
      have hua : ofTask a (unprocessed (createUpd a ri s) { h with issuing := some (a, fresh) }) = [] := by
        rw [hunp]; exact hofTask_unp
      refine { forRule := rfl, started := by rw [htask_self], issued := ?_, issuedSeq := ?_, recv := ?_,
               deliveredIssued := ?_, completed := by rw [htask_self], waitCount := ?_, outIssued := ?_, issuedOut := ?_,
               outNodup := ?_, depsPerm := ?_, waiting := ?_, computing := ?_ }
      · rw [htask_self]; simp [Hand.toIssue]
      · rw [htask_self]; exact hfresh
      · rw [htask_self]; rfl
      · rw [htask_self]; intro q hq; simp [delivered] at hq
      · rw [hoa]
        show 0 = 0 + (ofTask a h.dec).length
        rw [hofTask_dec]; rfl
      · rw [hoa]; intro r hr'; cases hr'
      · intro q hq; cases hq
      · rw [hoa]; exact List.nodup_nil
      · rw [hua, hrule_self]; simp [startedRule]
      · intro _; exact ⟨Or.inr rfl, rfl, rfl⟩
      · rw [hrule_self]; intro hne; simp [startedRule] at hne
    · simp only [e, if_false] at h1
      refine (hr.taskOk a t h1).frame3 (hrule_ne a e) (htask' a e) (by rw [hout]; exact List.Perm.refl _)
        (by rw [hunp]; exact List.Perm.refl _) (fun r hr' => by rw [hout]; exact hr') ?_ ?_ rfl
        (fun x hx => by rw [hdone']; exact hx) ?_
      · simp [Hand.toIssue, hi, e]
      · intro hm; simp [Hand.issuingFor, hi] at hm
      · unfold priorDue
        rw [hmem' _ e]; rfl
  case reqReg =>
    intro r hm; rw [hout] at hm
    exact ⟨hreg _ (hr.reqReg r hm).1, (hr.reqReg r hm).2⟩
  case reqTask =>
    intro r hm a ha; rw [hout] at hm
    obtain ⟨h1, h2⟩ := hr.reqTask r hm a ha
    obtain ⟨t, ht⟩ := Option.isSome_iff_exists.1 h1
    exact ⟨hsome _ h1, by rw [hrule_ne a (htask_ne a t ht)]; exact h2⟩
  case dummyOk =>
    intro r hm hn; rw [hunp] at hm
    rw [hstatus']
    by_cases e : r.inputRuleInfo = k
    · left; simp [e]
    · rcases hr.dummyOk r hm hn with h1 | h1 | h1 | ⟨k2, t, h1, _⟩
      · left; simp only [e, if_false]; exact h1
      · exact Or.inr (Or.inl h1)
      · exact Or.inr (Or.inr (Or.inl h1))
      · cases h1
  case dummyUnproc => rw [hproc]; exact hr.dummyUnproc
  case pausedAt => rw [hlr]; exact hr.pausedAt
  case finDone =>
    intro r hm
    rw [hdone']; exact hr.finDone r hm
  case pendingOk =>
    intro p hp
    rw [hunp]
    rcases hr.pendingOk p hp with h1 | h1
    · exact Or.inl h1
    · exact Or.inr (hsome _ h1)
  case readyOk =>
    intro a ha
    obtain ⟨t, h1, h2, h3⟩ := hr.readyOk a ha
    have e := htask_ne a t h1
    exact ⟨t, by rw [htl]; simpa [e] using h1, by rw [hrule_ne a e]; exact h2, h3⟩
  case finTaskOk =>
    intro a ha
    obtain ⟨t, h1, h2, h3⟩ := hr.finTaskOk a ha
    have e := htask_ne a t h1
    exact ⟨t, by rw [htl]; simpa [e] using h1, by rw [hrule_ne a e]; exact h2, h3⟩
  case deferredOk =>
    intro a ha
    obtain ⟨t, h1, h2, h3⟩ := hr.deferredOk a ha
    have e := htask_ne a t h1
    exact ⟨t, by rw [htl]; simpa [e] using h1, by rw [hrule_ne a e]; exact h2, h3⟩
  case computingWhere =>
    intro a t h1 h2
    rw [htl] at h1
    by_cases e : a = k
    · subst e; rw [hrule_self] at h2; simp [startedRule] at h2
    · simp only [e, if_false] at h1
      rw [hrule_ne a e] at h2
      exact hr.computingWhere a t h1 h2

/-! ### `PP k v` (`prior`), the ready queue, and the function in batched form -/

/-- the monitor after `prior k v` -/
def priorM (m : Engine.St) (k : Key) : Engine.St := { m with task := upd m.task k { m.task k with priorSeen := true } }

theorem Rel.setPrior {rules : List RuleSpec} {s : State} {m : Engine.St} {h : Hand} {k : Key}
    (hr : Rel rules s ⟨m, none⟩ h) (hm : h.issuingFor = some k) : Rel rules s ⟨priorM m k, none⟩ h := by
  have ht : (priorM m k).task k = { m.task k with priorSeen := true } := by simp [priorM]
  exact
    { hr with
      toBase := { hr.toBase with }
      pendOk := fun k' hp => by cases hp
      scanOk := fun r hm' => { hr.scanOk r hm' with }
      taskOk := fun a t hl => by
        have hb := hr.taskOk a t hl
        by_cases e : a = k
        · subst e
          exact { forRule := hb.forRule, started := by rw [ht]; exact hb.started, issued := by rw [ht]; exact hb.issued,
                  issuedSeq := by rw [ht]; exact hb.issuedSeq, recv := by rw [ht]; exact hb.recv,
                  deliveredIssued := by rw [ht]; exact hb.deliveredIssued, completed := by rw [ht]; exact hb.completed,
                  waitCount := hb.waitCount, outIssued := by rw [ht]; exact hb.outIssued,
                  issuedOut := by rw [ht]; exact hb.issuedOut, outNodup := hb.outNodup, depsPerm := hb.depsPerm,
                  waiting := fun hw => ⟨Or.inr hm, (hb.waiting hw).2⟩,
                  computing := by rw [ht]; exact hb.computing }
        · exact hb.frame3 rfl (by simp [priorM, upd, e]) (List.Perm.refl _) (List.Perm.refl _) (fun _ x => x) rfl
            (fun x => x) rfl (fun _ x => x) rfl }

theorem Rel.pushReady {rules : List RuleSpec} {s : State} {ms : MSt} {h : Hand} {k : Key} {t : TaskInfo}
    (hr : Rel rules s ms h) (hl : s.taskInfos.lookup k = some t) (hw : (s.rule k).state = .inProgressWaiting)
    (h0 : t.waitCount = 0) (hn : k ∉ s.readyTaskInfos) :
    Rel rules { s with readyTaskInfos := s.readyTaskInfos ++ [k] } ms h :=
  { hr with
    toBase := { hr.toBase with }
    scanOk := fun r hm => { hr.scanOk r hm with }
    taskOk := fun a t hl => { hr.taskOk a t hl with }
    readyOk := fun a ha => by
      rcases List.mem_append.1 ha with h1 | h1
      · exact hr.readyOk a h1
      · simp only [List.mem_singleton] at h1; subst h1; exact ⟨t, hl, hw, h0⟩
    readyNodup := by
      refine List.nodup_append.2 ⟨hr.readyNodup, by simp, ?_⟩
      intro a ha b hb e
      simp only [List.mem_singleton] at hb
      subst hb; subst e; exact hn ha }

theorem step_create_start {P : Program} {m : Engine.St} {k : Key} {reqs : List Req} (h1 : m.status k = .needsRun)
    (h2 : k ∉ m.ran) (h3 : reqs = issuedAfter P k []) :
    ∃ m1, step P m (.create k) = some m1 ∧ step P m1 (.start k reqs) = some (createM m k reqs) := by
  refine ⟨{ m with status := upd m.status k .running, task := upd m.task k {},
                   mem := m.mem.setRes k { m.mem.res k with deps := [] }, ran := k :: m.ran }, by simp [step, h1, h2], ?_⟩
  simp [step, h3, createM, upd_upd]

theorem step_prior {P : Program} {m : Engine.St} {k : Key} {v : Val} (h1 : m.status k = .running)
    (h2 : (m.task k).started = true) (h3 : (m.task k).priorSeen = false) (h4 : (m.task k).seq = [])
    (h5 : priorDue m k = true) (h6 : v = (m.mem.res k).value) :
    step P m (.prior k v) = some (priorM m k) := by
  simp [step, h1, h2, h3, h4, h5, h6, priorM]

/-- the requests a new task of `k` issues from `start` -/
def demandFresh (s : State) (k : Key) : List Req := newReqs (specOf s.rules k) { forRuleInfo := k }

/-- the end of `demandRule` after `taskStart` -/
def demandTail (k : Key) (s : State) : State :=
  let ri := s.rule k
  let s := if ri.result.builtAt != 0 && ri.signature == ri.result.sig then emit (.PP k ri.result.value) s else s
  if (s.task k).waitCount == 0 then { s with readyTaskInfos := s.readyTaskInfos ++ [k] } else s

theorem demandRule_run_eq (k : Key) (s : State) (h1 : isComplete s (s.rule k) = false)
    (h2 : (s.rule k).isInProgress = false) (h3 : ((s.rule k).state == .doesNotNeedToRun) = false) :
    demandRule k s =
      (false, demandTail k (issue k (demandFresh s k) (emitAll [.T k, .ST k (demandFresh s k)] (createUpd k (s.rule k) s)))) := by
  have e3 : ((emit (.T k) s).setTask { forRuleInfo := k }).modRule k (fun ri =>
      { ri with state := .inProgressWaiting, inProgressInfo := .pendingTaskInfo, result := { ri.result with deps := [] } }) =
      emit (.T k) (createUpd k (s.rule k) s) := by
    unfold State.modRule createUpd
    rw [emit_setRule, emit_setTask]
    simp only [setTask_rule, emit_rule]
    rfl
  have e4 : (emit (.T k) (createUpd k (s.rule k) s)).task k = { forRuleInfo := k } := by
    rw [emit_task]
    unfold State.task
    rw [createUpd_task_lookup]; simp
  have e5 : (emit (.T k) (createUpd k (s.rule k) s)).rules = s.rules := by rw [emit_rules]; rfl
  unfold demandRule
  simp only [h1, h2, h3, Bool.false_eq_true, if_false]
  rw [e3]
  unfold taskStart
  simp only [e4, e5]
  rfl

/-! ### `demandRule` on `NeedsToRun`: the assembly -/

private theorem nodup_eraseDups_aux_d {α : Type} [BEq α] [LawfulBEq α] : ∀ (n : Nat) (l : List α), l.length ≤ n → l.eraseDups.Nodup
  | 0, [], _ => by simp
  | 0, _ :: _, h => by simp at h
  | _ + 1, [], _ => by simp
  | n + 1, a :: as, h => by
    rw [List.eraseDups_cons, List.nodup_cons]
    refine ⟨?_, nodup_eraseDups_aux_d n _ ?_⟩
    · intro hm
      have := (List.mem_filter.1 (List.mem_eraseDups.1 hm)).2
      simp at this
    · have := List.length_filter_le (fun b => !b == a) as
      simp only [List.length_cons] at h; omega

private theorem nextReqs_subset_allReqs_d {spec : RuleSpec} {recv : Recv} {q : Req} (h : q ∈ nextReqs spec recv) :
    q ∈ allReqs spec := by
  unfold nextReqs at h
  unfold allReqs
  rcases List.mem_append.1 h with h | h
  · exact List.mem_append_left _ h
  · apply List.mem_append_right
    obtain ⟨w, hw, hq⟩ := List.mem_flatMap.1 h
    exact List.mem_flatMap.2 ⟨w, (List.mem_filter.1 hw).1, hq⟩

theorem demandFresh_nodup (s : State) (k : Key) : (demandFresh s k).Nodup :=
  nodup_eraseDups_aux_d _ _ (Nat.le_refl _)

theorem demandFresh_subset (s : State) (k : Key) : ∀ q ∈ demandFresh s k, q ∈ allReqs (specOf s.rules k) :=
  fun _ h => nextReqs_subset_allReqs_d (List.mem_filter.1 (List.mem_eraseDups.1 h)).1

theorem demandFresh_eq {rules : List RuleSpec} (s : State) (k : Key) (hrules : s.rules = rules) :
    demandFresh s k = issuedAfter (program rules) k [] := by
  have hf : ∀ l : List Req, l.filter (fun _ => true) = l := by
    intro l; induction l with
    | nil => rfl
    | cons a l ih => simp [ih]
  unfold demandFresh newReqs issuedAfter program
  rw [hrules]
  simp [hf]

theorem cancelMs_regStep (ms : MSt) : RegStep ms.m (cancelMs ms).m := ⟨ms.m.registered, ms.m.sigAt, true, rfl⟩

/-- **the `NeedsToRun` branch of `demandRule`**: `T k ; ST k fresh ; L/G… ; [PP k v]`.
`hdec`: no request of a (non-existent) task of `k` is waiting for its `decrementTaskWaitCount`. -/
theorem demand_run {rules : List RuleSpec} (hok : RulesOk rules) {s : State} {m : Engine.St} {h : Hand} {k : Key} {ri : RuleInfo}
    (hr : Rel rules s ⟨m, none⟩ h) (hh : s.halted = false) (hi : h.issuing = none)
    (hdec : ∀ r ∈ h.dec, r.taskInfo ≠ some k) (hl : s.ruleInfos.lookup k = some ri) (hst : ri.state = .needsToRun) :
    Sim rules s ⟨m, none⟩
      (demandTail k (issue k (demandFresh s k) (emitAll [.T k, .ST k (demandFresh s k)] (createUpd k ri s)))) h
      (DemandPost h k s
        (false, demandTail k (issue k (demandFresh s k) (emitAll [.T k, .ST k (demandFresh s k)] (createUpd k ri s))))) := by
  intro _
  have hfresh := demandFresh_eq s k hr.rules_eq
  have hnd := demandFresh_nodup s k
  have hsub : ∀ q ∈ demandFresh s k, q ∈ allReqs (specOf rules k) := by
    have := demandFresh_subset s k; rw [hr.rules_eq] at this; exact this
  generalize demandFresh s k = fresh at *
  have hk : ri.key = k := hr.keyOk k ri hl
  have hstat0 : m.status k = .needsRun := by
    have := hr.status k; simp only at this; rw [this]; simp [statusOf, hl, hst]
  have hnran : k ∉ m.ran := by
    intro hm
    rcases hr.ranOk k hm with e | e | e <;> rw [hstat0] at e <;> cases e
  have htaskNone : s.taskInfos.lookup k = none := by
    have := hr.taskKeys k
    have e : statusOf s none k = .needsRun := by rw [← hstat0]; exact (hr.status k).symm
    simp only at this
    rw [e] at this
    cases h1 : s.taskInfos.lookup k with
    | none => rfl
    | some _ => rw [h1] at this; simp at this
  have hnready : k ∉ s.readyTaskInfos := by
    intro hm
    obtain ⟨t, h1, _⟩ := hr.readyOk k hm
    rw [htaskNone] at h1; cases h1
  -- `T k ; ST k fresh`
  obtain ⟨m1, c1, c2⟩ := step_create_start (P := program rules) hstat0 hnran hfresh
  have htrun : trun (program rules) ⟨m, none⟩ [.T k, .ST k fresh] = some ⟨createM m k fresh, none⟩ := by
    have t1 : tstep (program rules) ⟨m, none⟩ (.T k) = some ⟨m1, none⟩ := tstep_ev (by rfl) (by rfl) c1
    have t2 : tstep (program rules) ⟨m1, none⟩ (.ST k fresh) = some ⟨createM m k fresh, none⟩ := tstep_ev (by rfl) (by rfl) c2
    simp [trun, t1, t2]
  have hrel0 := hr.create hi hdec hl hst hfresh
  obtain ⟨toks1, ms1, e1, r1, rel1, hms1⟩ := Rel.emit_list [.T k, .ST k fresh] (createUpd k ri s) ⟨m, none⟩ _ hh
    (by intro t ht; simp at ht; rcases ht with e | e <;> subst e <;> rfl) htrun hrel0
  have hsame1 := emitAll_same [.T k, .ST k fresh] (createUpd k ri s)
  have hhalt1 : (emitAll [.T k, .ST k fresh] (createUpd k ri s)).halted = false := by rw [emitAll_halted]; exact hh
  generalize emitAll [.T k, .ST k fresh] (createUpd k ri s) = s1 at *
  have hrule1 : s1.rule k = startedRule ri := by
    rw [rule_same hsame1]; unfold State.rule; rw [createUpd_lookup hk]; simp
  have hl1 : s1.taskInfos.lookup k = some { forRuleInfo := k } := by
    rw [hsame1.taskInfos, createUpd_task_lookup]; simp
  have hnready1 : k ∉ s1.readyTaskInfos := by rw [hsame1.readyTaskInfos]; exact hnready
  have hpend1 : ms1.pend = none := by rcases hms1 with e | e <;> rw [e] <;> rfl
  have hreg1 : RegStep (createM m k fresh) ms1.m := by
    rcases hms1 with e | e <;> rw [e]
    · exact RegStep.refl _
    · exact cancelMs_regStep _
  -- `issue`
  obtain ⟨toks2, ms2, t2, b1, b2, b3, b4, b5, b6, b7, b8, b9, b10, b11, b12⟩ :=
    issue_run hok fresh s1 ms1 h k { forRuleInfo := k } rel1 hpend1 hhalt1 (by rw [hrule1]; rfl) hl1
      (fun q _ hm => by cases hm) (fun q hm => by cases hm) hnd hsub hnready1
  generalize issue k fresh s1 = s2 at *
  have hreg2 : RegStep (createM m k fresh) ms2.m := hreg1.trans b6
  obtain ⟨rg, sg, cc, hms2⟩ := hreg2
  have hrule2 : s2.rule k = startedRule ri := b8.trans hrule1
  have hw2 : (s2.rule k).state = .inProgressWaiting := by rw [hrule2]; rfl
  have hl2r : s2.ruleInfos.lookup k = some (startedRule ri) := by
    have hreg : Registered s2 k := b3.task_registered (by rw [b9]; rfl)
    obtain ⟨x, hx⟩ := Option.isSome_iff_exists.1 hreg
    have := rule_of_lookup hx
    rw [hrule2] at this; rw [hx, this]
  have htask2 : ms2.m.task k = { started := true, issued := fresh } := by rw [hms2]; simp [createM]
  have hstat2 : ms2.m.status k = .running := by rw [hms2]; simp [createM]
  -- the prior value
  have hres2 := b3.res k _ hl2r
  have hsig2 := b3.sig k _ hl2r
  rw [b4] at hres2
  obtain ⟨v1, v2, _, v4, _⟩ := hres2
  have v4' := v4 rfl
  have hprior : priorDue ms2.m k = ((s2.rule k).result.builtAt != 0 && (s2.rule k).signature == (s2.rule k).result.sig) := by
    unfold priorDue
    rw [hrule2, v4', v2, hsig2]
    have hc : ∀ a b : Nat, (a == b) = (b == a) := by
      intro a b
      by_cases h1 : a = b
      · subst h1; rfl
      · have h2 : b ≠ a := fun e => h1 e.symm
        rw [beq_eq_false_iff_ne.2 h1, beq_eq_false_iff_ne.2 h2]
    rw [hc]
  have hms2' : ms2 = ⟨ms2.m, none⟩ := by cases ms2; simp at b4; simp [b4]
  have hregAll : RegMono s s2 := by
    intro k' hk'
    apply b5
    unfold Registered at *
    rw [hsame1.ruleInfos, createUpd_lookup hk]
    split
    · rfl
    · exact hk'
  have hin2 : ∀ k', InHand h s k' → InHand h s2 k' := by
    intro k' hi'
    exact b12 h k' (InHand_same hsame1 hi')
  have hem2 : Emits s (toks1 ++ toks2) s2 := Emits.trans (s1 := s) e1 b1
  have hrun2 := trun_append_some r1 b2
  have htarget2 : ms2.m.target = m.target := by rw [hms2]; rfl
  -- after the optional `PP`
  have hP : ∃ toks3 ms3 s3, s3 = (if (s2.rule k).result.builtAt != 0 && (s2.rule k).signature == (s2.rule k).result.sig
        then emit (.PP k (s2.rule k).result.value) s2 else s2) ∧
      Emits s2 toks3 s3 ∧ trun (program rules) ms2 toks3 = some ms3 ∧ Rel rules s3 ms3 h ∧ ms3.pend = none ∧
      ms3.m.target = ms2.m.target ∧ SameEngine s2 s3 := by
    by_cases hc : ((s2.rule k).result.builtAt != 0 && (s2.rule k).signature == (s2.rule k).result.sig) = true
    · simp only [hc, if_true]
      have hstep := step_prior (P := program rules) (v := (s2.rule k).result.value) hstat2 (by rw [htask2]) (by rw [htask2])
        (by rw [htask2]) (hprior.trans hc) (by rw [hrule2]; exact v1.symm)
      have hts : tstep (program rules) ms2 (.PP k (s2.rule k).result.value) = some ⟨priorM ms2.m k, none⟩ := by
        rw [hms2']; exact tstep_ev (by rfl) (by rfl) hstep
      have hrelP : Rel rules s2 ⟨priorM ms2.m k, none⟩ { h with issuing := some (k, []) } := by
        rw [hms2'] at b3; exact b3.setPrior rfl
      obtain ⟨toks3, ms3, f1, f2, f3, f4⟩ := Rel.emit_list [.PP k (s2.rule k).result.value] s2 ms2 _ b7
        (by intro t ht; simp at ht; subst ht; rfl) (by simp [trun, hts]) hrelP
      have hpd : priorDue ms3.m k = true := by
        rcases f4 with e | e <;> rw [e] <;> exact hprior.trans hc
      have hps : (ms3.m.task k).priorSeen = true := by
        rcases f4 with e | e <;> rw [e] <;> simp [priorM, cancelMs, cancelM]
      refine ⟨toks3, ms3, _, rfl, f1, f2, ?_, ?_, ?_, emit_same _ _⟩
      · exact endIssue rules _ ms3 h k hi f3 (fun _ _ _ => by rw [hps, hpd])
      · rcases f4 with e | e <;> rw [e] <;> rfl
      · rcases f4 with e | e <;> rw [e] <;> rfl
    · simp only [hc]
      have hc' : ((s2.rule k).result.builtAt != 0 && (s2.rule k).signature == (s2.rule k).result.sig) = false := by
        simpa using hc
      refine ⟨[], ms2, s2, rfl, Emits.refl _, rfl, ?_, b4, rfl, SameEngine.rfl' _⟩
      exact endIssue rules _ ms2 h k hi b3 (fun _ _ _ => by rw [htask2, hprior, hc'])
  obtain ⟨toks3, ms3, s3, hs3, g1, g2, g3, g4, g5, g6⟩ := hP
  have hl3 : s3.taskInfos.lookup k = some t2 := by rw [g6.taskInfos]; exact b9
  have hw3 : (s3.rule k).state = .inProgressWaiting := by rw [rule_same g6]; exact hw2
  have hnready3 : k ∉ s3.readyTaskInfos := by rw [g6.readyTaskInfos, b11]; exact hnready1
  have hreg3 : RegMono s s3 := by
    intro k' hk'; unfold Registered; rw [g6.ruleInfos]; exact hregAll k' hk'
  have hin3 : ∀ k', InHand h s k' → InHand h s3 k' := fun k' hi' => InHand_same g6 (hin2 k' hi')
  have hem3 : Emits s (toks1 ++ toks2 ++ toks3) s3 := hem2.trans g1
  have hrun3 := trun_append_some hrun2 g2
  -- the ready queue
  show ∃ toks ms', Emits s toks (demandTail k s2) ∧ _
  have htail : demandTail k s2 = if (s3.task k).waitCount == 0 then { s3 with readyTaskInfos := s3.readyTaskInfos ++ [k] } else s3 := by
    unfold demandTail; rw [hs3]
  rw [htail, task_of_lookup hl3]
  by_cases hz : t2.waitCount = 0
  · simp only [hz, beq_self_eq_true, if_true]
    refine ⟨_, ms3, hem3, hrun3, g3.pushReady hl3 hw3 hz hnready3, g4, hreg3, g5.trans htarget2, ?_, ?_, ?_⟩
    · intro x; cases x
    · intro _; show (s3.taskInfos.lookup k).isSome = true; rw [hl3]; rfl
    · exact hin3
  · have hz' : (t2.waitCount == 0) = false := by simpa using hz
    simp only [hz', Bool.false_eq_true, if_false]
    refine ⟨_, ms3, hem3, hrun3, g3, g4, hreg3, g5.trans htarget2, ?_, ?_, hin3⟩
    · intro x; cases x
    · intro _; show (s3.taskInfos.lookup k).isSome = true; rw [hl3]; rfl

/-- **`demandRule` refines the monitor.**  `Todo_demandRule` with one more hypothesis:
STRENGTHENED: `∀ r ∈ h.dec, r.taskInfo ≠ some k` — the hand holds no delivered-but-not-yet-counted request (`Hand.dec`) of a
task of `k`.  `Rel` says nothing about `h.dec` for keys WITHOUT a task, so `Todo_demandRule` as stated is not provable:
with such a request in `h.dec` the new task of `k` would violate `TaskOk.waitCount` (`0 ≠ 0 + 1`).  Both callers
(`processInputRequest`: hand `{ inp := [r] }`, `scanLoop`: hand `{ scan := [r] }`) have `h.dec = []`. -/
theorem demandRule_sim_fixed : ∀ rules, RulesOk rules → ∀ (s : State) (ms : MSt) (h : Hand) (k : Key),
    Rel rules s ms h → ms.pend = none → s.halted = false → h.issuing = none → Registered s k →
    isScanned s (s.rule k) = true →
    (∀ r ∈ h.dec, r.taskInfo ≠ some k) →   -- STRENGTHENED
    Sim rules s ms (demandRule k s).2 h (fun ms' =>
      ((demandRule k s).1 = true → isDone ms'.m k = true) ∧
      ((demandRule k s).1 = false → ((demandRule k s).2.taskInfos.lookup k).isSome = true) ∧
      (∀ k', InHand h s k' → InHand h (demandRule k s).2 k')) := by
  intro rules hok s ms h k hr hp hh hi hreg hsc hdec
  show Sim rules s ms (demandRule k s).2 h (DemandPost h k s (demandRule k s))
  obtain ⟨m, pend⟩ := ms
  simp only at hp; subst hp
  obtain ⟨ri, hl⟩ := Option.isSome_iff_exists.1 hreg
  have hrule : s.rule k = ri := rule_of_lookup hl
  rw [hrule] at hsc
  have hstatus := hr.status k
  simp only [statusOf, hl] at hstatus
  by_cases h1 : isComplete s ri = true
  · have e : demandRule k s = (true, s) := by unfold demandRule; simp [hrule, h1]
    rw [e]
    intro _
    refine ⟨[], ⟨m, none⟩, Emits.refl s, rfl, hr, rfl, fun _ x => x, rfl, fun _ => ?_, fun x => (by cases x), fun _ x => x⟩
    unfold isComplete at h1
    simp only [Bool.and_eq_true, beq_iff_eq] at h1
    unfold isDone
    rw [hstatus]; simp [h1.1, h1.2]
  have h1' : isComplete s ri = false := by simpa using h1
  by_cases h2 : ri.isInProgress = true
  · have e : demandRule k s = (false, s) := by unfold demandRule; simp [hrule, h1', h2]
    rw [e]
    intro _
    refine ⟨[], ⟨m, none⟩, Emits.refl s, rfl, hr, rfl, fun _ x => x, rfl, fun x => (by cases x), fun _ => ?_, fun _ x => x⟩
    have := hr.taskKeys k
    simp only [statusOf, hl] at this
    show (s.taskInfos.lookup k).isSome = true
    rw [this]
    unfold RuleInfo.isInProgress RuleInfo.isInProgressWaiting RuleInfo.isInProgressComputing at h2
    simp only [Bool.or_eq_true, beq_iff_eq] at h2
    rcases h2 with h2 | h2 <;> simp [h2]
  have h2' : ri.isInProgress = false := by simpa using h2
  by_cases h3 : ri.state = .doesNotNeedToRun
  · have e : demandRule k s = (true, emit (.S k 1) (s.setRule (setComplete s ri))) := by
      unfold demandRule; simp [hrule, h1', h2', h3]
    rw [e]
    exact demand_upToDate hr hh hl h3
  · have h3' : (ri.state == .doesNotNeedToRun) = false := by simpa using h3
    have hst : ri.state = .needsToRun := by
      unfold isScanned at hsc
      unfold RuleInfo.isInProgress RuleInfo.isInProgressWaiting RuleInfo.isInProgressComputing at h2'
      cases hs : ri.state <;> simp_all [StateKind.toNat]
    rw [demandRule_run_eq k s (by rw [hrule]; exact h1') (by rw [hrule]; exact h2') (by rw [hrule]; exact h3'), hrule]
    exact demand_run hok hr hh hi hdec hl hst

/-- `Todo_demandRule` for the hands the engine actually calls `demandRule` with (nothing waiting for its
`decrementTaskWaitCount`) -/
theorem demandRule_sim_of_dec : ∀ rules, RulesOk rules → ∀ (s : State) (ms : MSt) (h : Hand) (k : Key),
    h.dec = [] →
    Rel rules s ms h → ms.pend = none → s.halted = false → h.issuing = none → Registered s k →
    isScanned s (s.rule k) = true →
    Sim rules s ms (demandRule k s).2 h (fun ms' =>
      ((demandRule k s).1 = true → isDone ms'.m k = true) ∧
      ((demandRule k s).1 = false → ((demandRule k s).2.taskInfos.lookup k).isSome = true) ∧
      (∀ k', InHand h s k' → InHand h (demandRule k s).2 k')) :=
  fun rules hok s ms h k hd hr hp hh hi hreg hsc =>
    demandRule_sim_fixed rules hok s ms h k hr hp hh hi hreg hsc (by rw [hd]; intro r hr'; cases hr')

/-- the statements of `Todo.lean` (which now carry the two side conditions found here) -/
theorem issue_sim : Todo_issue := issue_sim_fixed
theorem demandRule_sim : Todo_demandRule := demandRule_sim_of_dec

/-! ## 4. The loop-level facts `Aux` (`readyZero`, `rootSeen`) across `issue`, `endIssue`, `demandRule` -/

/-- `Aux` only reads the engine proper -/
theorem Aux.sameEngine {key : Key} {s s' : State} {h : Hand} (hs : SameEngine s s') (ha : Aux key s h) : Aux key s' h := by
  refine ⟨?_, ?_⟩
  · intro a t h1 h2 h3
    rw [hs.taskInfos] at h1; rw [rule_same hs] at h2; rw [hs.readyTaskInfos]
    exact ha.readyZero a t h1 h2 h3
  · have e : statusOf s' none key = statusOf s none key := by unfold statusOf; rw [hs.ruleInfos, hs.currentEpoch]
    rw [e, hs.inputRequests]; exact ha.rootSeen

/-- what `issue a l` leaves alone -/
structure IssueFrame (a : Key) (s s' : State) : Prop where
  tasks : ∀ b, b ≠ a → s'.taskInfos.lookup b = s.taskInfos.lookup b
  rules : ∀ k', Registered s k' → s'.ruleInfos.lookup k' = s.ruleInfos.lookup k'
  epoch : s'.currentEpoch = s.currentEpoch
  inputs : ∀ r ∈ s.inputRequests, r ∈ s'.inputRequests

theorem IssueFrame.refl (a : Key) (s : State) : IssueFrame a s s := ⟨fun _ _ => rfl, fun _ _ => rfl, rfl, fun _ x => x⟩

theorem IssueFrame.reg {a : Key} {s s' : State} (f : IssueFrame a s s') : RegMono s s' := by
  intro k hk; unfold Registered at *; rw [f.rules k hk]; exact hk

theorem IssueFrame.trans {a : Key} {s1 s2 s3 : State} (f : IssueFrame a s1 s2) (g : IssueFrame a s2 s3) : IssueFrame a s1 s3 :=
  ⟨fun b hb => (g.tasks b hb).trans (f.tasks b hb),
   fun k hk => (g.rules k (f.reg k hk)).trans (f.rules k hk),
   g.epoch.trans f.epoch, fun r hr => g.inputs r (f.inputs r hr)⟩

theorem IssueFrame.statusOf_eq {a : Key} {s s' : State} (f : IssueFrame a s s') {k : Key} (hk : Registered s k) :
    Refine.statusOf s' none k = Refine.statusOf s none k := by
  unfold Refine.statusOf; rw [f.rules k hk, f.epoch]

theorem IssueFrame.rule_eq {a : Key} {s s' : State} (f : IssueFrame a s s') {k : Key} (hk : Registered s k) :
    s'.rule k = s.rule k := by
  unfold State.rule; rw [f.rules k hk]

theorem issueStep_frame {rules : List RuleSpec} (hok : RulesOk rules) {s : State} {ms : MSt} {h : Hand} {a : Key} {q : Req}
    {rest : List Req} {t : TaskInfo}
    (hr : Rel rules s ms { h with issuing := some (a, q :: rest) })
    (hw : (s.rule a).state = .inProgressWaiting) (hl : s.taskInfos.lookup a = some t)
    (hqa : q ∈ allReqs (specOf rules a)) : IssueFrame a s (issueStep a q s) := by
  have hfa : t.forRuleInfo = a := (hr.taskOk a t hl).forRule
  have htask : s.task a = t := task_of_lookup hl
  rw [issueStep_eq a q s (hok.kinds a q hqa) (hok.ids a q hqa) hw (by rw [htask]; exact hfa), htask]
  have hGsame := getRuleInfoForKey_same q.key s
  have hGl := getRuleInfoForKey_lookup q.key s hr.hasDB
  generalize getRuleInfoForKey q.key s = G at *
  refine ⟨?_, ?_, hGsame.currentEpoch, ?_⟩
  · intro b hb
    rw [issueUpd_lookup hfa]; simp only [hb, if_false]; rw [hGsame.taskInfos]
  · intro k' hk'
    show G.ruleInfos.lookup k' = _
    rw [hGl]
    split
    · rename_i hc
      obtain ⟨hc1, hc2⟩ := hc
      rw [← hc1] at hc2
      simp [Registered, hc2] at hk'
    · rfl
  · intro r hr'
    show r ∈ G.inputRequests ++ [reqOf a q]
    rw [hGsame.inputRequests]; exact List.mem_append_left _ hr'

theorem issue_frame {rules : List RuleSpec} (hok : RulesOk rules) : ∀ (l : List Req) (s : State) (ms : MSt) (h : Hand)
    (a : Key) (t : TaskInfo),
    Rel rules s ms { h with issuing := some (a, l) } → ms.pend = none → s.halted = false →
    (s.rule a).state = .inProgressWaiting → s.taskInfos.lookup a = some t →
    (∀ q ∈ l, q ∉ t.issuedReqs) → (∀ q ∈ t.issuedReqs, q ∈ allReqs (specOf rules a)) → l.Nodup →
    (∀ q ∈ l, q ∈ allReqs (specOf rules a)) → a ∉ s.readyTaskInfos →
    IssueFrame a s (issue a l s)
  | [], s, _, _, a, _, _, _, _, _, _, _, _, _, _, _ => IssueFrame.refl a s
  | q :: rest, s, ms, h, a, t, hr, hp, hh, hw, hl, hnew, hta, hnd, hall, hnr => by
    rw [issue_cons]
    have f1 := issueStep_frame hok hr hw hl (hall q (by simp))
    obtain ⟨toks1, ms1, a1, a2, a3, a4, a5, a6, a7, a8, a9, a10, a11⟩ :=
      issueStep_run hok hr hp hh hw hl (hnew q (by simp)) (hall q (by simp)) hta hnr
    generalize issueStep a q s = s1 at *
    have hnd' := List.nodup_cons.1 hnd
    refine f1.trans (issue_frame hok rest s1 ms1 h a (issuedTask t q) a3 a4 a7 (by rw [a8]; exact hw) a9
        (by
          intro q' hq' hm
          rcases List.mem_append.1 hm with hm | hm
          · exact hnew q' (by simp [hq']) hm
          · simp only [List.mem_singleton] at hm; subst hm; exact hnd'.1 hq')
        (by
          intro q' hm
          rcases List.mem_append.1 hm with hm | hm
          · exact hta q' hm
          · simp only [List.mem_singleton] at hm; subst hm; exact hall q' (by simp))
        hnd'.2 (fun q' hq' => hall q' (by simp [hq'])) (by rw [a10]; exact hnr))

/-- `Aux` across `issue`, from its frame -/
theorem Aux.of_issueFrame {rules : List RuleSpec} {s s' : State} {ms : MSt} {h : Hand} {a : Key} {l : List Req} {key : Key}
    (hr : Rel rules s ms { h with issuing := some (a, l) }) (f : IssueFrame a s s')
    (hready : s'.readyTaskInfos = s.readyTaskInfos)
    (ha : Aux key s { h with issuing := some (a, l) }) : Aux key s' { h with issuing := some (a, []) } := by
  refine ⟨?_, ?_⟩
  · intro b t h1 h2 h3
    by_cases e : b = a
    · right; rw [e]; rfl
    · rw [f.tasks b e] at h1
      have hreg : Registered s b := hr.task_registered (by rw [h1]; rfl)
      rw [f.rule_eq hreg] at h2
      rcases ha.readyZero b t h1 h2 h3 with h4 | h4
      · left; rw [hready]; exact h4
      · simp only [Hand.issuingFor, Option.map_some, Option.some.injEq] at h4
        exact absurd h4.symm e
  · rcases ha.rootSeen with h1 | ⟨r, h1, h2⟩
    · left
      have hreg : Registered s key := by
        unfold Registered
        cases hl : s.ruleInfos.lookup key with
        | none => simp [statusOf, hl] at h1
        | some _ => rfl
      rw [f.statusOf_eq hreg]; exact h1
    · right
      refine ⟨r, ?_, h2⟩
      rcases List.mem_append.1 h1 with h1 | h1
      · exact List.mem_append_left _ h1
      · exact List.mem_append_right _ (f.inputs r h1)

/-- **`Aux` across `DslTask::issue`** (under the hypotheses of `Todo_issue`) -/
theorem issue_aux : ∀ rules, RulesOk rules → ∀ (s : State) (ms : MSt) (h : Hand) (a : Key) (l : List Req),
    h.issuing = none → Rel rules s ms { h with issuing := some (a, l) } → ms.pend = none → s.halted = false →
    (s.rule a).state = .inProgressWaiting →
    (∃ t, s.taskInfos.lookup a = some t ∧ (∀ q ∈ l, q ∉ t.issuedReqs) ∧ (∀ q ∈ t.issuedReqs, q ∈ allReqs (specOf rules a))) →
    l.Nodup → (∀ q ∈ l, q ∈ allReqs (specOf rules a)) →
    a ∉ s.readyTaskInfos →
    ∀ key, Aux key s { h with issuing := some (a, l) } → Aux key (issue a l s) { h with issuing := some (a, []) } := by
  intro rules hok s ms h a l _ hr hp hh hw ⟨t, hl, hnew, hta⟩ hnd hall hnr key ha
  obtain ⟨_, _, _, _, _, _, _, _, _, _, _, _, _, b11, _⟩ := issue_run hok l s ms h a t hr hp hh hw hl hnew hta hnd hall hnr
  exact Aux.of_issueFrame hr (issue_frame hok l s ms h a t hr hp hh hw hl hnew hta hnd hall hnr) b11 ha

/-- **`Aux` when the `issuing` mark is dropped**: the marked task, if it waits for nothing, must have been queued as ready -/
theorem endIssue_aux : ∀ (key : Key) (s : State) (h : Hand) (a : Key),
    h.issuing = none → Aux key s { h with issuing := some (a, []) } →
    (∀ t, s.taskInfos.lookup a = some t → (s.rule a).state = .inProgressWaiting → t.waitCount = 0 → a ∈ s.readyTaskInfos) →
    Aux key s h := by
  intro key s h a _ ha hz
  refine ⟨?_, ha.rootSeen⟩
  intro b t h1 h2 h3
  rcases ha.readyZero b t h1 h2 h3 with h4 | h4
  · exact Or.inl h4
  · simp only [Hand.issuingFor, Option.map_some, Option.some.injEq] at h4
    subst h4
    exact Or.inl (hz t h1 h2 h3)

/-! ### `Aux` across `demandRule` -/

theorem Aux.upToDate {key : Key} {s : State} {h : Hand} {k : Key} {ri : RuleInfo} (hk : ri.key = k) (ha : Aux key s h) :
    Aux key (emit (.S k 1) (s.setRule (setComplete s ri))) h := by
  refine Aux.sameEngine (emit_same _ _) ⟨?_, ?_⟩
  · intro a t h1 h2 h3
    have hk' : (setComplete s ri).key = k := hk
    rw [setRule_rule, hk'] at h2
    by_cases e : a = k
    · simp [e, setComplete] at h2
    · simp only [e, if_false] at h2
      exact ha.readyZero a t h1 h2 h3
  · by_cases e : key = k
    · left
      have hk' : (setComplete s ri).key = k := hk
      unfold statusOf
      rw [setRule_lookup, hk']
      simp only [e, if_true, setComplete]
      show (if s.currentEpoch = s.currentEpoch then (if (none : Option Key) = some k then Status.computing else Status.done) else Status.idle) ≠ Status.idle
      simp
    · have hs : statusOf (s.setRule (setComplete s ri)) none key = statusOf s none key := by
        have hk' : (setComplete s ri).key = k := hk
        unfold statusOf
        rw [setRule_lookup, hk']; simp only [e, if_false]; rfl
      rw [hs]; exact ha.rootSeen

/-- the state after `T k ; ST k fresh` is related again (first half of `demand_run`) -/
theorem demand_start {rules : List RuleSpec} {s : State} {m : Engine.St} {h : Hand} {k : Key} {ri : RuleInfo}
    (hr : Rel rules s ⟨m, none⟩ h) (hh : s.halted = false) (hi : h.issuing = none)
    (hdec : ∀ r ∈ h.dec, r.taskInfo ≠ some k) (hl : s.ruleInfos.lookup k = some ri) (hst : ri.state = .needsToRun) :
    ∃ ms1, Rel rules (emitAll [.T k, .ST k (demandFresh s k)] (createUpd k ri s)) ms1
        { h with issuing := some (k, demandFresh s k) } ∧ ms1.pend = none := by
  have hfresh := demandFresh_eq s k hr.rules_eq
  generalize demandFresh s k = fresh at *
  have hstat0 : m.status k = .needsRun := by
    have := hr.status k; simp only at this; rw [this]; simp [statusOf, hl, hst]
  have hnran : k ∉ m.ran := by
    intro hm
    rcases hr.ranOk k hm with e | e | e <;> rw [hstat0] at e <;> cases e
  obtain ⟨m1, c1, c2⟩ := step_create_start (P := program rules) hstat0 hnran hfresh
  have htrun : trun (program rules) ⟨m, none⟩ [.T k, .ST k fresh] = some ⟨createM m k fresh, none⟩ := by
    have t1 : tstep (program rules) ⟨m, none⟩ (.T k) = some ⟨m1, none⟩ := tstep_ev (by rfl) (by rfl) c1
    have t2 : tstep (program rules) ⟨m1, none⟩ (.ST k fresh) = some ⟨createM m k fresh, none⟩ := tstep_ev (by rfl) (by rfl) c2
    simp [trun, t1, t2]
  have hrel0 := hr.create hi hdec hl hst hfresh
  obtain ⟨toks1, ms1, e1, r1, rel1, hms1⟩ := Rel.emit_list [.T k, .ST k fresh] (createUpd k ri s) ⟨m, none⟩ _ hh
    (by intro t ht; simp at ht; rcases ht with e | e <;> subst e <;> rfl) htrun hrel0
  exact ⟨ms1, rel1, by rcases hms1 with e | e <;> rw [e] <;> rfl⟩

/-- `Aux` at the end of `demandRule`: the new task is queued as ready iff it waits for nothing -/
theorem demandTail_aux {key k : Key} {s2 : State} {h : Hand} {t2 : TaskInfo} (hi : h.issuing = none)
    (hl2 : s2.taskInfos.lookup k = some t2) (ha : Aux key s2 { h with issuing := some (k, []) }) :
    Aux key (demandTail k s2) h := by
  obtain ⟨s3, hs3, hsame⟩ : ∃ s3, s3 = (if (s2.rule k).result.builtAt != 0 && (s2.rule k).signature == (s2.rule k).result.sig
        then emit (.PP k (s2.rule k).result.value) s2 else s2) ∧ SameEngine s2 s3 := by
    refine ⟨_, rfl, ?_⟩
    split
    · exact emit_same _ _
    · exact SameEngine.rfl' _
  have htail : demandTail k s2 = if (s3.task k).waitCount == 0 then { s3 with readyTaskInfos := s3.readyTaskInfos ++ [k] } else s3 := by
    unfold demandTail; rw [hs3]
  have ha3 := Aux.sameEngine hsame ha
  have hl3 : s3.taskInfos.lookup k = some t2 := by rw [hsame.taskInfos]; exact hl2
  rw [htail, task_of_lookup hl3]
  by_cases hz : t2.waitCount = 0
  · simp only [hz, beq_self_eq_true, if_true]
    refine ⟨?_, ha3.rootSeen⟩
    intro b t h1 h2 h3
    left
    show b ∈ s3.readyTaskInfos ++ [k]
    rcases ha3.readyZero b t h1 h2 h3 with h4 | h4
    · exact List.mem_append_left _ h4
    · simp only [Hand.issuingFor, Option.map_some, Option.some.injEq] at h4
      rw [h4]; exact List.mem_append_right _ (by simp)
  · have hz' : (t2.waitCount == 0) = false := by simpa using hz
    simp only [hz', Bool.false_eq_true, if_false]
    refine endIssue_aux key s3 h k hi ha3 ?_
    intro t h1 _ h3
    rw [hl3] at h1; cases h1; exact absurd h3 hz

/-- **`Aux` across `demandRule`** -/
theorem demandRule_aux : ∀ rules, RulesOk rules → ∀ (s : State) (ms : MSt) (h : Hand) (k : Key),
    h.dec = [] → Rel rules s ms h → ms.pend = none → s.halted = false → h.issuing = none → Registered s k →
    isScanned s (s.rule k) = true → (demandRule k s).2.halted = false →
    ∀ key, Aux key s h → Aux key (demandRule k s).2 h := by
  intro rules hok s ms h k hd hr hp hh hi hreg hsc _ key ha
  obtain ⟨m, pend⟩ := ms
  simp only at hp; subst hp
  obtain ⟨ri, hl⟩ := Option.isSome_iff_exists.1 hreg
  have hrule : s.rule k = ri := rule_of_lookup hl
  have hk : ri.key = k := hr.keyOk k ri hl
  rw [hrule] at hsc
  by_cases h1 : isComplete s ri = true
  · have e : demandRule k s = (true, s) := by unfold demandRule; simp [hrule, h1]
    rw [e]; exact ha
  have h1' : isComplete s ri = false := by simpa using h1
  by_cases h2 : ri.isInProgress = true
  · have e : demandRule k s = (false, s) := by unfold demandRule; simp [hrule, h1', h2]
    rw [e]; exact ha
  have h2' : ri.isInProgress = false := by simpa using h2
  by_cases h3 : ri.state = .doesNotNeedToRun
  · have e : demandRule k s = (true, emit (.S k 1) (s.setRule (setComplete s ri))) := by
      unfold demandRule; simp [hrule, h1', h2', h3]
    rw [e]
    exact ha.upToDate hk
  · have h3' : (ri.state == .doesNotNeedToRun) = false := by simpa using h3
    have hst : ri.state = .needsToRun := by
      unfold isScanned at hsc
      unfold RuleInfo.isInProgress RuleInfo.isInProgressWaiting RuleInfo.isInProgressComputing at h2'
      cases hs : ri.state <;> simp_all [StateKind.toNat]
    rw [demandRule_run_eq k s (by rw [hrule]; exact h1') (by rw [hrule]; exact h2') (by rw [hrule]; exact h3'), hrule]
    show Aux key (demandTail k (issue k (demandFresh s k) (emitAll [.T k, .ST k (demandFresh s k)] (createUpd k ri s)))) h
    have hdec : ∀ r ∈ h.dec, r.taskInfo ≠ some k := by rw [hd]; intro r hr'; cases hr'
    obtain ⟨ms1, rel1, hpend1⟩ := demand_start hr hh hi hdec hl hst
    have hnd := demandFresh_nodup s k
    have hsub : ∀ q ∈ demandFresh s k, q ∈ allReqs (specOf rules k) := by
      have := demandFresh_subset s k; rw [hr.rules_eq] at this; exact this
    generalize demandFresh s k = fresh at *
    have hstatOf0 : statusOf s none k = .needsRun := by simp [statusOf, hl, hst]
    have htaskNone : s.taskInfos.lookup k = none := by
      have := hr.taskKeys k
      simp only at this
      rw [hstatOf0] at this
      cases h1 : s.taskInfos.lookup k with
      | none => rfl
      | some _ => rw [h1] at this; simp at this
    have hnready : k ∉ s.readyTaskInfos := by
      intro hm
      obtain ⟨t, h1, _⟩ := hr.readyOk k hm
      rw [htaskNone] at h1; cases h1
    -- `Aux` after the engine update
    have ha0 : Aux key (createUpd k ri s) { h with issuing := some (k, fresh) } := by
      refine ⟨?_, ?_⟩
      · intro b t h1 h2 h3
        rw [createUpd_task_lookup] at h1
        by_cases e : b = k
        · right; rw [e]; rfl
        · simp only [e, if_false] at h1
          have hrb : (createUpd k ri s).rule b = s.rule b := by
            unfold State.rule; rw [createUpd_lookup hk]; simp [e]
          rw [hrb] at h2
          rcases ha.readyZero b t h1 h2 h3 with h4 | h4
          · exact Or.inl h4
          · simp [Hand.issuingFor, hi] at h4
      · by_cases e : key = k
        · left
          unfold statusOf
          rw [createUpd_lookup hk]
          simp [e, startedRule]
        · have hs : statusOf (createUpd k ri s) none key = statusOf s none key := by
            unfold statusOf
            rw [createUpd_lookup hk]; simp only [e, if_false]; rfl
          rw [hs]; exact ha.rootSeen
    have hsame1 := emitAll_same [.T k, .ST k fresh] (createUpd k ri s)
    have hhalt1 : (emitAll [.T k, .ST k fresh] (createUpd k ri s)).halted = false := by rw [emitAll_halted]; exact hh
    have ha1 := Aux.sameEngine hsame1 ha0
    generalize emitAll [.T k, .ST k fresh] (createUpd k ri s) = s1 at *
    have hrule1 : s1.rule k = startedRule ri := by
      rw [rule_same hsame1]; unfold State.rule; rw [createUpd_lookup hk]; simp
    have hl1 : s1.taskInfos.lookup k = some { forRuleInfo := k } := by
      rw [hsame1.taskInfos, createUpd_task_lookup]; simp
    have hnready1 : k ∉ s1.readyTaskInfos := by rw [hsame1.readyTaskInfos]; exact hnready
    have hw1 : (s1.rule k).state = .inProgressWaiting := by rw [hrule1]; rfl
    have ha2 := issue_aux rules hok s1 ms1 h k fresh hi rel1 hpend1 hhalt1 hw1
      ⟨_, hl1, fun q _ hm => (by cases hm), fun q hm => (by cases hm)⟩ hnd hsub hnready1 key ha1
    obtain ⟨_, _, t2, _, _, _, _, _, _, _, _, b9, _⟩ :=
      issue_run hok fresh s1 ms1 h k { forRuleInfo := k } rel1 hpend1 hhalt1 hw1 hl1
        (fun q _ hm => by cases hm) (fun q hm => by cases hm) hnd hsub hnready1
    exact demandTail_aux hi b9 ha2

end LLBuild.Refine
