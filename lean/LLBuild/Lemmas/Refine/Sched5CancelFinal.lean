/-
C05 "a cancellation followed by ANY further engine work ends in a failed result" — part 3: THE BUILD.
`runBuildA_cancel_then_work`: in the printed trace of a build (any hook schedule, any `cancelAtEvent`, any asynchronous
schedule of completions / `cancelBuild()` at item boundaries) that did not halt, if ANY token other than `X`, `DI e`, `DE`,
`R v`, `Z n 0` follows an `X` — in particular any callback of the engine, and also a completion `C k v f` of a task — then the
build printed `R 0`: the trace ends `R 0 ; Z n 0`.  This is the STRONG form (`C` counts as work).
Proof: `build` returns a non-zero value only if the work loop returned `true`; then (`workLoopA_cancel`, part 2) no `X` had
been recorded at the last loop-top test and only `X` was recorded in the last, idle iteration; after the loop only `DI e`
(`buildTail`; `getRuleInfoForKey key` of the registered key records nothing), `DE`, `R v`, `Z n 0` and possibly `X` follow.
-/
import LLBuild.Lemmas.Refine.Sched5CancelLoop

namespace LLBuild.Refine
open LLBuild.Engine LLBuild.Engine.DSL LLBuild.EngineImpl

/-- the tokens that can follow a cancellation in a build that nevertheless returns its value -/
def Tok.isLate : Tok → Bool
  | .X => true | .DI _ => true | .DE => true | .R _ => true | .Z _ _ => true | _ => false

/-- since a state without `X` in its trace, only late tokens have been recorded -/
def CLate (s : State) : Prop := ∃ s0 tail, Tok.X ∉ s0.trace ∧ Emits s0 tail s ∧ ∀ t ∈ tail, Tok.isLate t = true

theorem CTail.late {s : State} (h : CTail s) : CLate s := by
  obtain ⟨s0, idle, h0, he, hx⟩ := h
  exact ⟨s0, idle, h0, he, fun t ht => by rw [hx t ht]; rfl⟩

theorem CLate.of_trace {s s' : State} (h : CLate s) (e : s'.trace = s.trace) : CLate s' := by
  obtain ⟨s0, tail, h0, he, hx⟩ := h
  exact ⟨s0, tail, h0, by unfold Emits at he ⊢; rw [e, he], hx⟩

theorem CLate.emit {s : State} (h : CLate s) (t : Tok) (ht : Tok.isLate t = true) (hh : s.halted = false) :
    CLate (emit t s) := by
  obtain ⟨s0, tail, h0, he, hx⟩ := h
  rcases emit_emits t s hh with e | e
  · refine ⟨s0, tail ++ [t], h0, he.trans e, ?_⟩
    intro t' ht'
    rcases List.mem_append.1 ht' with h1 | h1
    · exact hx t' h1
    · simp only [List.mem_singleton] at h1; subst h1; exact ht
  · refine ⟨s0, tail ++ [t, .X], h0, he.trans e, ?_⟩
    intro t' ht'
    rcases List.mem_append.1 ht' with h1 | h1
    · exact hx t' h1
    · simp only [List.mem_cons, List.not_mem_nil, or_false] at h1
      rcases h1 with h1 | h1
      · subst h1; exact ht
      · subst h1; rfl

/-! ## the bracket of the work loop -/

/-- `executeTasksA` from the prologue relation: when it returns `true`, only `X` since the last loop-top test, and the
requested key is registered -/
theorem executeTasksA_cancel {rules : List RuleSpec} (hok : RulesOk rules) {key : Key} (a : Async) {s : State}
    {m : Engine.St} (hr : RelPre rules key true s m) (hfin : s.finishedInputRequests = []) (hh : s.halted = false)
    (hg : CGood s) (hnh : (executeTasksA key a s).2.2.halted = false) (hres : (executeTasksA key a s).1 = true) :
    CTail (executeTasksA key a s).2.2 ∧ Registered (executeTasksA key a s).2.2 key := by
  have hs0 : ({ s with finishedInputRequests := [] } : State) = s := by
    cases s; simp at hfin; simp [hfin]
  unfold executeTasksA at hnh hres ⊢
  simp only [hs0] at hnh hres ⊢
  obtain ⟨toks1, m1, he1, hrun1, hr1, hreg1, hh1⟩ := hr.getRule hh key
  have hrel := Rel.entry hr1
  have hrel2 := hrel.pushDummy { taskInfo := none, inputID := 0, inputRuleInfo := key } rfl hreg1 rfl
    (Or.inr (Or.inl hr1.target))
  have hnm : NoMid (pushInput { taskInfo := none, inputID := 0, inputRuleInfo := key } (getRuleInfoForKey key s)) := by
    intro k ri hl
    rcases hr1.states k ri hl with e | e <;> rw [e] <;> exact ⟨by decide, by decide⟩
  have haux : Aux key (pushInput { taskInfo := none, inputID := 0, inputRuleInfo := key } (getRuleInfoForKey key s)) {} :=
    { readyZero := fun a t hl => (by
        have : (getRuleInfoForKey key s).taskInfos.lookup a = some t := hl
        rw [hr1.noTasks] at this; cases this),
      rootSeen := Or.inr ⟨{ taskInfo := none, inputID := 0, inputRuleInfo := key }, by simp [pushInput], rfl⟩ }
  have hg2 : CGood (pushInput { taskInfo := none, inputID := 0, inputRuleInfo := key } (getRuleInfoForKey key s)) :=
    rc_getRuleInfoForKey closedC_cancelInv key s hg
  have hpf : ∀ p ∈ m1.pending, isDone m1 p.1 = false := fun p hp => by rw [hr1.noPending] at hp; cases hp
  have hmf : ∀ a q, delivered (m1.task a).seq q = true → q.kind ≠ 2 :=
    fun a q hd => by rw [hr1.noSeq a] at hd; simp [delivered] at hd
  have hC := workLoopA_cancel rules hok key loopFuel a _ _ hrel2 hnm rfl hr1.target hreg1 hh1 hpf hmf haux hg2 hnh hres
  obtain ⟨toks2, m2, he2, hrun2, hpost, hst⟩ :=
    workLoopA_final rules hok key loopFuel a _ _ hrel2 hnm rfl hr1.target hreg1 hh1 hpf hmf haux hnh
  exact ⟨hC, (hpost.ok hres).1⟩

/-- `build` from `QC` on: a non-zero value is returned only with a late tail -/
theorem buildWorkA_cancel {rules : List RuleSpec} (hok : RulesOk rules) {key : Key} (a : Async) {s : State}
    {m : Engine.St} (hr : RelPre rules key false s m) (hh : s.halted = false) (hg : CGood s)
    (hnh : (buildWorkA key a s).2.halted = false) (hv : (buildWorkA key a s).1 ≠ 0) :
    CLate (buildWorkA key a s).2 := by
  rw [buildWorkA_halted] at hnh
  obtain ⟨m2, hstep2, hr2⟩ := prologue_QC hr hh
  have hsQ : ({ emit .QC s with currentEpoch := (emit .QC s).currentEpoch + 1 } : State) =
      { emit .QC s with currentEpoch := (emit .QC s).currentEpoch + 1, finishedInputRequests := [] } := by
    have : (emit .QC s).finishedInputRequests = [] := by simp [hr.noFinQ]
    rw [← this]
  unfold buildWorkA at hv ⊢
  rw [hsQ] at hnh hv ⊢
  have hhQ : ({ emit .QC s with currentEpoch := (emit .QC s).currentEpoch + 1, finishedInputRequests := [] } : State).halted = false := by
    show (emit .QC s).halted = false
    simp [hh]
  have hgQ : CGood { emit .QC s with currentEpoch := (emit .QC s).currentEpoch + 1, finishedInputRequests := [] } :=
    closedC_cancelInv.emit .QC s rfl hg
  generalize hE : executeTasksA key a
    { emit .QC s with currentEpoch := (emit .QC s).currentEpoch + 1, finishedInputRequests := [] } = r at hnh hv ⊢
  have hX := fun h1 h2 => executeTasksA_cancel hok a hr2 rfl hhQ hgQ h1 h2
  rw [hE] at hX
  obtain ⟨ok, a', s1⟩ := r
  simp only [] at hnh hv hX ⊢
  unfold buildTail at hv ⊢
  cases ok with
  | false => simp at hv
  | true =>
    obtain ⟨htail, hreg⟩ := hX hnh rfl
    simp only [Bool.not_true, Bool.false_eq_true, if_false]
    have hlate := htail.late
    show CLate (freeScanRecords _)
    refine CLate.of_trace (s := getRuleInfoForKey key
      (if s1.hasDB = true then { emit (.DI s1.currentEpoch) s1 with
        store := { s1.store with iteration := s1.currentEpoch } } else s1)) ?_ rfl
    split
    · have hreg' : (({ emit (.DI s1.currentEpoch) s1 with
          store := { s1.store with iteration := s1.currentEpoch } } : State).ruleInfos.lookup key).isSome = true := by
        show ((emit (.DI s1.currentEpoch) s1).ruleInfos.lookup key).isSome = true
        rw [emit_ruleInfos]; exact hreg
      rw [getRuleInfoForKey_old key _ hreg']
      exact CLate.of_trace (hlate.emit (.DI s1.currentEpoch) rfl hnh) rfl
    · rw [getRuleInfoForKey_old key _ hreg]
      exact hlate

/-- `build` up to (excluding) the deferred `buildComplete` -/
theorem buildPreA_cancel {rules : List RuleSpec} (hok : RulesOk rules) {key : Key} (a : Async) {s : State}
    {m : Engine.St} (hr : RelPre rules key false s m) (hh : s.halted = false) (hg : CGood s)
    (hnh : (buildPreA key a s).2.halted = false) (hv : (buildPreA key a s).1 ≠ 0) :
    CLate (buildPreA key a s).2 := by
  unfold buildPreA at hnh hv ⊢
  simp only [hr.hasDB, if_true] at hnh hv ⊢
  obtain ⟨toks1, m1, he1, hrun1, hr1, hh1⟩ := prologue_DB hr hh
  have hg1 : CGood (emit .DB s) := closedC_cancelInv.emit .DB s rfl hg
  by_cases hc : (emit .DB s).buildCancelled = true
  · simp only [hc, if_true] at hv
    exact absurd rfl hv
  · simp only [hc, Bool.false_eq_true, if_false] at hnh hv ⊢
    exact buildWorkA_cancel hok a hr1 hh1 hg1 hnh hv

/-! ## the end of the trace, with the returned value -/

/-- `runBuildA_trace_end` (Crash1.lean) naming the value: the trace ends `… ; DE [; X] ; R v ; Z n 0` with `v` the value
`build` returned -/
theorem runBuildA_trace_endV (key cancelAt : Nat) (sched : List SchedItem) (a : Async) (s : State)
    (hnh : (runBuildA key cancelAt sched a s).halted = false)
    (hdb : (buildPreA key a (emit (.B key) (buildInit cancelAt sched s))).2.hasDB = true) :
    ∃ n x, (runBuildA key cancelAt sched a s).trace.reverse =
        (buildPreA key a (emit (.B key) (buildInit cancelAt sched s))).2.trace.reverse ++ [.DE] ++ x ++
          [.R (buildPreA key a (emit (.B key) (buildInit cancelAt sched s))).1, .Z n 0] ∧
      (x = [] ∨ x = [.X]) := by
  have hnhP : (buildPreA key a (emit (.B key) (buildInit cancelAt sched s))).2.halted = false := by
    rw [← runBuildA_pre_halted]; exact hnh
  rw [runBuildA_eq key cancelAt sched a s hdb]
  generalize buildPreA key a (emit (.B key) (buildInit cancelAt sched s)) = p at hnhP ⊢
  obtain ⟨v, sp⟩ := p
  simp only at hnhP ⊢
  unfold closeBuild
  have hh1 : (emit .DE sp).halted = false := by rw [emit_halted_eq]; exact hnhP
  rw [close_trace v (emit .DE sp) hh1]
  rcases emit_spec .DE sp hnhP with e | ⟨_, e⟩
  · exact ⟨(emit .DE sp).taskInfos.length, [], by rw [e]; simp, Or.inl rfl⟩
  · exact ⟨(emit .DE sp).taskInfos.length, [.X], by rw [e]; simp, Or.inr rfl⟩

/-- in `A ++ L` with no `X` in `A` and only late tokens in `L`, everything after an `X` is late -/
theorem late_after_X : ∀ (A L pre post : List Tok), Tok.X ∉ A → (∀ t ∈ L, Tok.isLate t = true) →
    A ++ L = pre ++ Tok.X :: post → ∀ t ∈ post, Tok.isLate t = true
  | [], L, pre, post, _, hL, e, t, ht => by
    apply hL
    rw [List.nil_append] at e
    rw [e]
    exact List.mem_append_right _ (List.mem_cons_of_mem _ ht)
  | x :: A, L, [], post, hA, _, e, _, _ => by
    simp only [List.cons_append, List.nil_append, List.cons.injEq] at e
    exact absurd (e.1 ▸ List.mem_cons_self) hA
  | x :: A, L, p :: pre, post, hA, hL, e, t, ht => by
    simp only [List.cons_append, List.cons.injEq] at e
    exact late_after_X A L pre post (fun h => hA (List.mem_cons_of_mem _ h)) hL e.2 t ht

/-! ## the theorem -/

/-- **C05, cancellation then work ⇒ failure.**  For every DSL program (`RulesOk`), every engine state between builds, every
hook schedule, `cancelAtEvent` and asynchronous schedule: if the printed trace of a build that did not halt contains, after
an `X` (`cancelBuild()`), any token other than `X`, `DI e`, `DE`, `R v`, `Z n 0` — any engine callback, a completion
`C k v f` included — then the build printed `R 0`. -/
theorem runBuildA_cancel_then_work {rules : List RuleSpec} (hok : RulesOk rules) {s : State} {m : Engine.St}
    (hr : RelIdle rules s m) (key cancelAt : Nat) (sched : List SchedItem) (a : Async)
    (hnh : (runBuildA key cancelAt sched a s).halted = false)
    {pre post : List Tok} (htr : (runBuildA key cancelAt sched a s).trace.reverse = pre ++ Tok.X :: post)
    {t : Tok} (ht : t ∈ post) (hw : Tok.isLate t = false) :
    ∃ q n, (runBuildA key cancelAt sched a s).trace.reverse = q ++ [Tok.R 0, Tok.Z n 0] := by
  have hloop := workLoopA_final rules hok
  have hdb := runBuildA_hasDB hloop hr key cancelAt sched a hnh
  obtain ⟨n, x, hend, hx⟩ := runBuildA_trace_endV key cancelAt sched a s hnh hdb
  by_cases hv : (buildPreA key a (emit (.B key) (buildInit cancelAt sched s))).1 = 0
  · rw [hv] at hend
    exact ⟨_, n, hend⟩
  · exfalso
    obtain ⟨toks1, m1, he1, hrun1, hr1, hh1⟩ := prologue_B hr key cancelAt sched
    have hnhP : (buildPreA key a (emit (.B key) (buildInit cancelAt sched s))).2.halted = false := by
      rw [← runBuildA_pre_halted]; exact hnh
    have hg0 : CGood (buildInit cancelAt sched s) := fun h => by cases h
    have hg1 : CGood (emit (.B key) (buildInit cancelAt sched s)) := closedC_cancelInv.emit (.B key) _ rfl hg0
    obtain ⟨s0, tail, h0, he, hl⟩ := buildPreA_cancel hok a hr1 hh1 hg1 hnhP hv
    unfold Emits at he
    rw [he, List.reverse_append, List.reverse_reverse, htr] at hend
    have hlate : ∀ t' ∈ tail ++ [.DE] ++ x ++
        [.R (buildPreA key a (emit (.B key) (buildInit cancelAt sched s))).1, .Z n 0], Tok.isLate t' = true := by
      intro t' ht'
      simp only [List.mem_append, List.mem_cons, List.not_mem_nil, or_false] at ht'
      rcases ht' with ((h1 | h1) | h1) | h1 | h1
      · exact hl t' h1
      · subst h1; rfl
      · rcases hx with e | e <;> rw [e] at h1 <;> simp at h1
        subst h1; rfl
      · subst h1; rfl
      · subst h1; rfl
    have := late_after_X s0.trace.reverse _ pre post (fun h => h0 (List.mem_reverse.1 h)) hlate
      (by rw [hend]; simp) t ht
    rw [hw] at this
    cases this

/-! ## a decidable reading of the hypothesis and of the conclusion -/

/-- some `X` is followed (anywhere later) by a token that is not late -/
def workAfterCancel : List Tok → Bool
  | [] => false
  | t :: ts => (Tok.isCancelTok t && ts.any (fun t' => !Tok.isLate t')) || workAfterCancel ts

/-- the trace ends `R 0 ; Z n 0` -/
def endsFailed : List Tok → Bool
  | [.R 0, .Z _ 0] => true
  | _ :: ts => endsFailed ts
  | [] => false

theorem workAfterCancel_spec : ∀ (toks : List Tok), workAfterCancel toks = true →
    ∃ pre post t, toks = pre ++ Tok.X :: post ∧ t ∈ post ∧ Tok.isLate t = false
  | [], h => by cases h
  | t :: ts, h => by
    rw [workAfterCancel, Bool.or_eq_true, Bool.and_eq_true] at h
    rcases h with ⟨h1, h2⟩ | h
    · have e : t = Tok.X := by cases t <;> first | rfl | cases h1
      obtain ⟨t', ht', hl⟩ := List.any_eq_true.1 h2
      exact ⟨[], ts, t', by rw [e]; rfl, ht', by simpa using hl⟩
    · obtain ⟨pre, post, t', e, ht', hl⟩ := workAfterCancel_spec ts h
      exact ⟨t :: pre, post, t', by rw [e]; rfl, ht', hl⟩

theorem endsFailed_of_append : ∀ (q : List Tok) (n : Nat), endsFailed (q ++ [Tok.R 0, Tok.Z n 0]) = true
  | [], _ => rfl
  | [t], n => by
    cases t <;> first | rfl | (rename_i v; cases v <;> rfl)
  | t :: t' :: q, n => by
    have ih := endsFailed_of_append (t' :: q) n
    have : endsFailed (t :: (t' :: q ++ [Tok.R 0, Tok.Z n 0])) = endsFailed (t' :: q ++ [Tok.R 0, Tok.Z n 0]) := by
      cases q with
      | nil => simp [endsFailed]
      | cons x q => simp [endsFailed]
    exact this.trans ih

/-- **the theorem on the printed trace, both sides decidable** -/
theorem runBuildA_cancel_then_work_dec {rules : List RuleSpec} (hok : RulesOk rules) {s : State} {m : Engine.St}
    (hr : RelIdle rules s m) (key cancelAt : Nat) (sched : List SchedItem) (a : Async)
    (hnh : (runBuildA key cancelAt sched a s).halted = false)
    (hw : workAfterCancel (runBuildA key cancelAt sched a s).trace.reverse = true) :
    endsFailed (runBuildA key cancelAt sched a s).trace.reverse = true := by
  obtain ⟨pre, post, t, e, ht, hl⟩ := workAfterCancel_spec _ hw
  obtain ⟨q, n, hq⟩ := runBuildA_cancel_then_work hok hr key cancelAt sched a hnh e ht hl
  rw [hq]
  exact endsFailed_of_append q n

/-! ## non-vacuity (rules, schedules and history of Final3.lean §5) -/

/-- the state after: set input 1, build 3 (task 1 completed by another thread), change input 1 -/
def exCancelStart : State := runOpsA [.mutate 1 55, .build 3 0 [] exAsyncComplete, .mutate 1 56] (opProgram exRulesD {})

theorem exCancelStart_rel : ∃ m, RelIdle exRulesD exCancelStart m := by
  obtain ⟨_, m', _, _, h⟩ := refinement_final_async exRulesD_ok
    [.mutate 1 55, .build 3 0 [] exAsyncComplete, .mutate 1 56]
    (by simp only [histSizedA, runOpA, and_true, true_and]; decide)
  exact ⟨m', h⟩

/-- `cancelBuild()` from another thread at the 12th item boundary, in the middle of the work loop: the engine still calls
`inputsAvailable` of task 1 and the task completes (`… PP 1 55 ; X ; IA 1 0 ; C 1 56 0 ; DI 2 ; DE ; R 0 ; Z 0 0`): work
after the cancellation, and the theorem applies — the build printed `R 0` -/
example : workAfterCancel (runBuildA 3 0 [] exAsyncCancel exCancelStart).trace.reverse = true ∧
    (runBuildA 3 0 [] exAsyncCancel exCancelStart).halted = false := by decide

example : endsFailed (runBuildA 3 0 [] exAsyncCancel exCancelStart).trace.reverse = true := by
  obtain ⟨m, hr⟩ := exCancelStart_rel
  exact runBuildA_cancel_then_work_dec exRulesD_ok hr 3 0 [] exAsyncCancel (by decide) (by decide)

/-- the set `Tok.isLate` is sharp: `cancelBuild()` arriving during the last, idle iteration (47th item boundary) is followed
by `DI 2 ; DE ; R v ; Z 0 0` and the build returns its NON-zero value (`… DS 3 … ; X ; DI 2 ; DE ; R 16510003297691566136 ; Z 0 0`) -/
example : (runBuildA 3 0 [] (List.replicate 46 ({} : SchedItem) ++ [{ cancel := true }]) exCancelStart).trace.reverse.any
      Tok.isCancelTok = true ∧
    workAfterCancel (runBuildA 3 0 [] (List.replicate 46 ({} : SchedItem) ++ [{ cancel := true }])
      exCancelStart).trace.reverse = false ∧
    endsFailed (runBuildA 3 0 [] (List.replicate 46 ({} : SchedItem) ++ [{ cancel := true }])
      exCancelStart).trace.reverse = false := by decide

/-
#print axioms runBuildA_cancel_then_work      -- [propext, Classical.choice, Quot.sound]
#print axioms runBuildA_cancel_then_work_dec  -- [propext, Classical.choice, Quot.sound]
-/
end LLBuild.Refine
