/-
IM2 — refinement over histories in which the PROGRAM CHANGES.

`Main.lean` / `Final.lean` prove the refinement for a FIXED DSL program: op `P` only at the very start.
The harness op `P rules'` in the middle of a history installs a new rule list and restarts the engine on
the same database (`EngineImpl.opProgram`).  `Ops.lean: RelIdle.program` shows that the monitor follows
with its `restart` event and is then related to the engine UNDER THE NEW PROGRAM — which is exactly
`stepG`'s `reprogram` of `Lemmas/Engine/Generations.lean`.  Here the two are put together:

* `GOp` = an `Op` of `Main.lean` or `program rules'`; `runGOps`, `ghistOk` (no build halts);
* the generation-indexed client of a history: generation 0 is the rule list the harness starts with,
  generation `i` the `i`-th rule list a `program` op installs (`installed rs0 gops = rs0 :: programsOf gops`,
  `PPof rs g = DSL.program (genRules rs g)`, `genRules rs g = rs.getD g (rs.headD [])` — a generation beyond the
  list, which no history reaches, is given the FIRST rule list so that every `PPof rs g` is an installed program);
* `ghistEvents g gops s` = the `GEvent`s of the history (`ev e` for the monitor events of an `Op`,
  `reprogram (g+1)` for a `program` op);
* **`refinement_history_gen`**: from the fresh harness, every such history in which no build halts and
  every installed program satisfies `RulesOk` is accepted by `runG (PPof …) ({}, 0)`, ends in the last
  generation, and engine and monitor are related again (`RelIdle` for the CURRENT rules).
-/
import LLBuild.Lemmas.Refine.Final
import LLBuild.Lemmas.Engine.Generations

namespace LLBuild.Refine
open LLBuild.Engine LLBuild.Engine.DSL LLBuild.EngineImpl

/-! ## Histories with program changes -/

/-- the ops of the harness the refinement covers, now including `P` in the middle of a history -/
inductive GOp
  | op (o : Op)
  /-- harness op `P`: a new rule list, and a new engine on the same database -/
  | program (rules : List RuleSpec)

def runGOp : GOp → State → State
  | .op o, s => runOp o s
  | .program rules, s => opProgram rules s

def gopOk : GOp → State → Prop
  | .op o, s => opOk o s
  | .program _, _ => True

def runGOps : List GOp → State → State
  | [], s => s
  | o :: os, s => runGOps os (runGOp o s)

/-- no build of the history runs into `FUEL` / `BAD …` -/
def ghistOk : List GOp → State → Prop
  | [], _ => True
  | o :: os, s => gopOk o s ∧ ghistOk os (runGOp o s)

/-- the rule lists the history installs, in order -/
def programsOf : List GOp → List (List RuleSpec)
  | [] => []
  | .op _ :: t => programsOf t
  | .program rules :: t => rules :: programsOf t

/-- all rule lists of a history that starts (op `P rs0` on a fresh harness) with `rs0`:
generation 0 is `rs0`, generation `i` the `i`-th list installed afterwards -/
def installed (rs0 : List RuleSpec) (gops : List GOp) : List (List RuleSpec) := rs0 :: programsOf gops

/-- the rule list of generation `g` (a generation beyond the list — never reached by a history — gets the first
rule list, so that every generation is one of the listed programs) -/
def genRules (rs : List (List RuleSpec)) (g : Nat) : List RuleSpec := rs.getD g (rs.headD [])

/-- the generation-indexed client -/
def PPof (rs : List (List RuleSpec)) (g : Nat) : Program := program (genRules rs g)

theorem genRules_mem {rs : List (List RuleSpec)} (hne : rs ≠ []) (g : Nat) : genRules rs g ∈ rs := by
  unfold genRules
  rw [List.getD_eq_getElem?_getD]
  cases hg : rs[g]? with
  | some r => exact List.mem_of_getElem? hg
  | none =>
    cases rs with
    | nil => exact absurd rfl hne
    | cons a t => simp

theorem genRules_of_getElem? {rs : List (List RuleSpec)} {g : Nat} {r : List RuleSpec} (h : rs[g]? = some r) :
    genRules rs g = r := by
  unfold genRules
  rw [List.getD_eq_getElem?_getD, h]; rfl

/-- the generation after an op -/
def nextGen (g : Nat) : GOp → Nat
  | .op _ => g
  | .program _ => g + 1

def lastGen : Nat → List GOp → Nat
  | g, [] => g
  | g, o :: os => lastGen (nextGen g o) os

/-- the monitor events of an op performed in generation `g` -/
def gopEvents (g : Nat) : GOp → State → Option (List GEvent)
  | .op o, s => (opEvents o s).map (fun evs => evs.map GEvent.ev)
  | .program _, _ => some [.reprogram (g + 1)]

/-- the monitor events of a history that starts in generation `g` -/
def ghistEvents : Nat → List GOp → State → Option (List GEvent)
  | _, [], _ => some []
  | g, o :: os, s => do
    let a ← gopEvents g o s
    let b ← ghistEvents (nextGen g o) os (runGOp o s)
    some (a ++ b)

/-- the history, started in generation `g`, installs the rule lists that `rs` lists after position `g` -/
def Installs (rs : List (List RuleSpec)) : Nat → List GOp → Prop
  | _, [] => True
  | g, .op _ :: t => Installs rs g t
  | g, .program rules :: t => rs[g + 1]? = some rules ∧ Installs rs (g + 1) t

theorem lastGen_eq : ∀ (gops : List GOp) (g : Nat), lastGen g gops = g + (programsOf gops).length
  | [], g => rfl
  | .op _ :: t, g => by simp only [lastGen, nextGen, programsOf]; exact lastGen_eq t g
  | .program _ :: t, g => by
    simp only [lastGen, nextGen, programsOf, List.length_cons]; rw [lastGen_eq t (g + 1)]; omega

theorem installs_installed : ∀ (gops : List GOp) (pre : List (List RuleSpec)) (r : List RuleSpec),
    Installs (pre ++ r :: programsOf gops) pre.length gops
  | [], _, _ => trivial
  | .op _ :: t, pre, r => by simp only [Installs, programsOf]; exact installs_installed t pre r
  | .program rules :: t, pre, r => by
    simp only [Installs, programsOf]
    refine ⟨by simp, ?_⟩
    have h := installs_installed t (pre ++ [r]) rules
    simpa using h

/-- a history installs its own list of programs -/
theorem Installs.self (rs0 : List RuleSpec) (gops : List GOp) : Installs (installed rs0 gops) 0 gops :=
  installs_installed gops [] rs0

theorem RulesOk.nil : RulesOk [] := by
  have h : ∀ k, allReqs (specOf [] k) = [] := fun k => rfl
  refine ⟨?_, ?_, ?_⟩
  · intro k q hq; rw [h k] at hq; cases hq
  · intro k q hq; rw [h k] at hq; cases hq
  · intro k; rw [h k]; exact List.nodup_nil

theorem RulesOk.genRules {rs : List (List RuleSpec)} (h : ∀ r ∈ rs, RulesOk r) (g : Nat) : RulesOk (genRules rs g) := by
  by_cases hne : rs = []
  · subst hne; exact RulesOk.nil
  · exact h _ (genRules_mem hne g)

/-- DECIDABLE check of `RulesOk` -/
def rulesOkB (rules : List RuleSpec) : Bool :=
  rules.all fun s =>
    (allReqs s).all (fun q => decide (q.kind ≤ 2) && decide (q.id ≤ kMaximumInputID)) &&
    decide (((allReqs s).map (fun q => q.id)).Nodup)

theorem RulesOk.of_check {rules : List RuleSpec} (h : rulesOkB rules = true) : RulesOk rules := by
  have key : ∀ k, ((allReqs (specOf rules k)).all (fun q => decide (q.kind ≤ 2) && decide (q.id ≤ kMaximumInputID)) &&
      decide (((allReqs (specOf rules k)).map (fun q => q.id)).Nodup)) = true := by
    intro k
    unfold specOf
    cases hf : rules.find? (fun s => s.key == k) with
    | none => rfl
    | some sp =>
      simp only [rulesOkB, List.all_eq_true] at h
      exact h sp (List.mem_of_find?_eq_some hf)
  refine ⟨?_, ?_, ?_⟩
  · intro k q hq
    have := key k
    simp only [Bool.and_eq_true, List.all_eq_true, decide_eq_true_eq] at this
    exact (this.1 q hq).1
  · intro k q hq
    have := key k
    simp only [Bool.and_eq_true, List.all_eq_true, decide_eq_true_eq] at this
    exact (this.1 q hq).2
  · intro k
    have := key k
    simp only [Bool.and_eq_true, List.all_eq_true, decide_eq_true_eq] at this
    exact this.2

theorem runG_append (PP : Nat → Program) : ∀ (a b : List GEvent) (sg : St × Nat),
    runG PP sg (a ++ b) = (runG PP sg a).bind (fun sg' => runG PP sg' b)
  | [], b, sg => rfl
  | e :: a, b, sg => by
    simp only [List.cons_append, runG]
    cases stepG PP sg e with
    | none => rfl
    | some sg1 => simp only [Option.bind]; exact runG_append PP a b sg1

/-- **refinement_gop**: one op of a history with program changes, from related states in generation `g` -/
theorem refinement_gop {rs : List (List RuleSpec)} (hok : ∀ r ∈ rs, RulesOk r) {g : Nat} {s : State} {m : Engine.St}
    (hr : RelIdle (genRules rs g) s m) (o : GOp) (hi : Installs rs g [o]) (ho : gopOk o s) :
    ∃ gevs m', gopEvents g o s = some gevs ∧ runG (PPof rs) (m, g) gevs = some (m', nextGen g o) ∧
      RelIdle (genRules rs (nextGen g o)) (runGOp o s) m' := by
  cases o with
  | op o =>
    obtain ⟨evs, m', h1, h2, h3⟩ := refinement_op (workLoop_final _ (RulesOk.genRules hok g)) hr o ho
    refine ⟨evs.map .ev, m', by simp [gopEvents, h1], ?_, h3⟩
    rw [runG_ev]
    show (run (program (genRules rs g)) m evs).map _ = _
    rw [h2]; rfl
  | program rules =>
    obtain ⟨m', h1, h2⟩ := hr.program rules (PPof rs g)
    have hg : genRules rs (g + 1) = rules := genRules_of_getElem? hi.1
    refine ⟨[.reprogram (g + 1)], m', rfl, ?_, ?_⟩
    · simp only [runG, stepG, h1, Option.map, Option.bind, nextGen]
    · show RelIdle (genRules rs (g + 1)) (opProgram rules s) m'
      rw [hg]; exact h2

/-- **refinement_history_gen** (general form): from related states in generation `g`, a history that installs
the rule lists of `rs` (all `RulesOk`) and in which no build halts is accepted by the generation monitor -/
theorem refinement_ghistory {rs : List (List RuleSpec)} (hok : ∀ r ∈ rs, RulesOk r) :
    ∀ (gops : List GOp) (g : Nat) (s : State) (m : Engine.St), RelIdle (genRules rs g) s m → Installs rs g gops →
      ghistOk gops s →
      ∃ gevs m', ghistEvents g gops s = some gevs ∧ runG (PPof rs) (m, g) gevs = some (m', lastGen g gops) ∧
        RelIdle (genRules rs (lastGen g gops)) (runGOps gops s) m'
  | [], g, s, m, hr, _, _ => ⟨[], m, rfl, rfl, hr⟩
  | o :: os, g, s, m, hr, hi, ho => by
    have hi1 : Installs rs g [o] ∧ Installs rs (nextGen g o) os := by
      cases o with
      | op o => exact ⟨trivial, hi⟩
      | program rules => exact ⟨⟨hi.1, trivial⟩, hi.2⟩
    obtain ⟨a, m1, h1, h2, h3⟩ := refinement_gop hok hr o hi1.1 ho.1
    obtain ⟨b, m2, h4, h5, h6⟩ := refinement_ghistory hok os (nextGen g o) (runGOp o s) m1 h3 hi1.2 ho.2
    refine ⟨a ++ b, m2, ?_, ?_, h6⟩
    · simp [ghistEvents, h1, h4]
    · rw [runG_append, h2]; exact h5

/-- the rule list in force after the history -/
def currentRules (rs0 : List RuleSpec) (gops : List GOp) : List RuleSpec :=
  genRules (installed rs0 gops) (lastGen 0 gops)

theorem currentRules_eq (rs0 : List RuleSpec) (gops : List GOp) :
    currentRules rs0 gops = ((installed rs0 gops).getLast?).getD [] := by
  unfold currentRules installed genRules
  rw [lastGen_eq, List.getD_eq_getElem?_getD, List.getLast?_eq_getElem?]
  simp

/-- **IM2 over program generations.**  From a fresh harness with rule list `rs0`, any history of ops —
including `P` ops that install new rule lists — in which no build halts and every installed rule list
satisfies `RulesOk` produces `GEvent`s that the generation monitor accepts from its initial state in
generation 0, ending in the last generation; the engine, whose rule list is the last one installed, and the
monitor are related again. -/
theorem refinement_history_gen (rs0 : List RuleSpec) (gops : List GOp)
    (hok : ∀ r ∈ installed rs0 gops, RulesOk r) (hh : ghistOk gops (opProgram rs0 {})) :
    ∃ gevs m', ghistEvents 0 gops (opProgram rs0 {}) = some gevs ∧
      runG (PPof (installed rs0 gops)) ({}, 0) gevs = some (m', lastGen 0 gops) ∧
      RelIdle (currentRules rs0 gops) (runGOps gops (opProgram rs0 {})) m' :=
  refinement_ghistory hok gops 0 _ _ (RelIdle.init rs0) (Installs.self rs0 gops) hh

/-- the engine's rule list after the history is the last one installed -/
theorem runGOps_rules (rs0 : List RuleSpec) (gops : List GOp)
    (hok : ∀ r ∈ installed rs0 gops, RulesOk r) (hh : ghistOk gops (opProgram rs0 {})) :
    (runGOps gops (opProgram rs0 {})).rules = currentRules rs0 gops := by
  obtain ⟨_, _, _, _, h⟩ := refinement_history_gen rs0 gops hok hh
  exact h.rules_eq

/-! ### non-vacuity: a concrete history with a description edit satisfies the hypotheses -/

/-- rule 3 (requests input rule 1) changes its result function and its signature base -/
def exRulesG1 : List RuleSpec :=
  [{ key := 1 }, { key := 3, kind := 1, sigBase := 20, vmod := 5, statics := [⟨1, 7, 0⟩] }]

def exGOps : List GOp :=
  [.op (.mutate 1 55), .op (.build 3 0 []), .program exRulesG1, .op (.build 3 0 []), .op .restart, .op (.build 3 0 [])]

example : ∃ gevs m', ghistEvents 0 exGOps (opProgram exRules {}) = some gevs ∧
    runG (PPof (installed exRules exGOps)) ({}, 0) gevs = some (m', 1) ∧
    RelIdle exRulesG1 (runGOps exGOps (opProgram exRules {})) m' := by
  refine refinement_history_gen exRules exGOps ?_ ?_
  · intro r hr
    simp only [installed, exGOps, programsOf, List.mem_cons, List.not_mem_nil, or_false] at hr
    rcases hr with rfl | rfl <;> exact RulesOk.of_check (by decide)
  · simp only [exGOps, ghistOk, gopOk, opOk, runGOp, runOp, and_true, true_and]
    refine ⟨by decide, by decide, by decide⟩

theorem ghistOk_append : ∀ (a b : List GOp) (s : State), ghistOk (a ++ b) s ↔ ghistOk a s ∧ ghistOk b (runGOps a s)
  | [], b, s => by simp [ghistOk, runGOps]
  | o :: a, b, s => by
    simp only [List.cons_append, ghistOk, runGOps, ghistOk_append a b (runGOp o s), and_assoc]

end LLBuild.Refine

/-! ## Signatures only matter at the external states that occur

`SigCovers PP` quantifies over ALL external states.  A history only visits some of them; if a clamp `c : Env → Env`
fixes every external state the history visits, the history is equally a history of the programs whose signature
functions look at the clamped state (`clampPP c PP`), and `SigCovers` is then only needed for those. -/
namespace LLBuild.Engine

def Program.withSig (P : Program) (f : Env → Key → Nat) : Program := { P with sig := f }

theorem step_withSig {P : Program} {f : Env → Key → Nat} {s : St} (h : ∀ k, f s.env k = P.sig s.env k) (e : Event) :
    step (P.withSig f) s e = step P s e := by
  cases e
  case lookup k => simp only [step, Program.withSig, h]
  case provide k id key v reqs =>
    have hn : (P.withSig f).next k = P.next k := rfl
    simp only [step, issuedAfter_congr hn]
  all_goals rfl

theorem Clean.withSig {P : Program} {f : Env → Key → Nat} {env : Env} {k : Key} {v : Val}
    (h : Clean (P.withSig f) env k v) : Clean P env k v := by
  induction h with
  | mk k seq hv hc _ ih =>
    have hn : (P.withSig f).next k = P.next k := rfl
    exact Clean.mk k seq (by rw [← validSeq_congr hn]; exact hv) (by rw [← completeSeq_congr hn]; exact hc) ih

theorem Program.WF.withSig {P : Program} (h : P.WF) (f : Env → Key → Nat) : (P.withSig f).WF :=
  ⟨h.out_local, h.self_valid, h.self_noreq, h.self_nodisc, h.disc_self, h.self_inj⟩

theorem step_env_cases {P : Program} {s s' : St} {e : Event} (h : step P s e = some s') :
    s'.env = s.env ∨ (∃ a b, e = .mutate a b ∧ s'.env = upd s.env a b) ∨ s'.env = (fun _ => 0) := by
  cases e <;> simp only [step] at h
  case mutate a b =>
    split at h
    · cases h; right; left; exact ⟨a, b, rfl, rfl⟩
    · cases h
  case wipe =>
    split at h
    · cases h; right; right; rfl
    · cases h
  case ret v =>
    split at h
    · cases h
    · split at h
      · cases h
      · split at h
        · cases h; left; rfl
        · split at h
          · cases h; left; rfl
          · cases h
  case provide k id key v reqs =>
    split at h
    · split at h
      · cases h
      · split at h
        · cases h; left; rfl
        · cases h
    · cases h
  case cycle ks =>
    split at h
    · split at h
      · cases h; left; rfl
      · cases h
    · cases h
  all_goals first
    | (cases h; left; rfl)
    | (split at h
       · cases h; left; rfl
       · cases h)

end LLBuild.Engine

namespace LLBuild.Engine

/-- every generation judged with signatures computed from the clamped external state -/
def clampPP (c : Env → Env) (PP : Nat → Program) (g : Nat) : Program :=
  (PP g).withSig (fun env k => (PP g).sig (c env) k)

/-- a `mutate` event keeps the external state inside the fixed points of the clamp -/
def MutOk (c : Env → Env) : GEvent → Prop
  | .ev (.mutate a b) => ∀ env, c env = env → c (upd env a b) = upd env a b
  | _ => True

theorem step_clampPP {c : Env → Env} {PP : Nat → Program} {g : Nat} {s : St} (hc : c s.env = s.env) (e : Event) :
    step (clampPP c PP g) s e = step (PP g) s e :=
  step_withSig (P := PP g) (f := fun env k => (PP g).sig (c env) k) (by intro k; simp only [hc]) e

theorem stepG_clamp {c : Env → Env} (h0 : c (fun _ => 0) = fun _ => 0) {PP : Nat → Program} {sg sg' : St × Nat}
    {e : GEvent} (h : stepG PP sg e = some sg') (hc : c sg.1.env = sg.1.env) (hm : MutOk c e) :
    stepG (clampPP c PP) sg e = some sg' ∧ c sg'.1.env = sg'.1.env := by
  cases e with
  | ev e =>
    simp only [stepG] at h ⊢
    cases hs : step (PP sg.2) sg.1 e with
    | none => rw [hs] at h; cases h
    | some s1 =>
      rw [hs] at h; cases h
      refine ⟨by simp only [step_clampPP hc, hs, Option.map], ?_⟩
      rcases step_env_cases hs with he | ⟨a, b, rfl, he⟩ | he
      · show c s1.env = s1.env
        rw [he]; exact hc
      · show c s1.env = s1.env
        rw [he]; exact hm _ hc
      · show c s1.env = s1.env
        rw [he]; exact h0
  | reprogram g' =>
    simp only [stepG] at h ⊢
    cases hs : step (PP sg.2) sg.1 .restart with
    | none => rw [hs] at h; cases h
    | some s1 =>
      rw [hs] at h; cases h
      refine ⟨by simp only [step_clampPP hc, hs, Option.map], ?_⟩
      rcases step_env_cases hs with he | ⟨a, b, hab, he⟩ | he
      · show c s1.env = s1.env
        rw [he]; exact hc
      · cases hab
      · show c s1.env = s1.env
        rw [he]; exact h0

theorem runG_clamp {c : Env → Env} (h0 : c (fun _ => 0) = fun _ => 0) {PP : Nat → Program} :
    ∀ (gevs : List GEvent) (sg sg' : St × Nat), runG PP sg gevs = some sg' → c sg.1.env = sg.1.env →
      (∀ e ∈ gevs, MutOk c e) → runG (clampPP c PP) sg gevs = some sg' ∧ c sg'.1.env = sg'.1.env
  | [], sg, sg', h, hc, _ => by cases h; exact ⟨rfl, hc⟩
  | e :: es, sg, sg', h, hc, hm => by
    simp only [runG] at h ⊢
    cases hs : stepG PP sg e with
    | none => rw [hs] at h; cases h
    | some sg1 =>
      rw [hs] at h
      obtain ⟨h1, h2⟩ := stepG_clamp h0 hs hc (hm e (List.mem_cons_self))
      rw [h1]
      exact runG_clamp h0 es sg1 sg' h h2 (fun x hx => hm x (List.mem_cons_of_mem _ hx))

end LLBuild.Engine

namespace LLBuild.Refine
open LLBuild.Engine LLBuild.Engine.DSL LLBuild.EngineImpl

def isMutate : Event → Bool
  | .mutate _ _ => true
  | _ => false

theorem toEvent?_noMutate {t : Tok} {e : Event} (h : t.toEvent? = some e) : isMutate e = false := by
  unfold Tok.toEvent? at h
  split at h <;> first | (cases h; rfl) | cases h

theorem mapM_toEvent?_noMutate : ∀ (regs : List Tok) (a : List Event), regs.mapM Tok.toEvent? = some a →
    ∀ e ∈ a, isMutate e = false
  | [], a, h, e, he => by
    simp at h; subst h; cases he
  | t :: r, a, h, e, he => by
    rw [List.mapM_cons] at h
    cases h1 : t.toEvent? with
    | none => rw [h1] at h; cases h
    | some x =>
      cases h2 : r.mapM Tok.toEvent? with
      | none => rw [h1, h2] at h; cases h
      | some xs =>
        rw [h1, h2] at h
        cases h
        rcases List.mem_cons.1 he with rfl | he'
        · exact toEvent?_noMutate h1
        · exact mapM_toEvent?_noMutate r xs h2 e he'

theorem toEventsAux_noMutate : ∀ (fuel : Nat) (toks : List Tok) (evs : List Event), toEventsAux fuel toks = some evs →
    ∀ e ∈ evs, isMutate e = false
  | 0, [], evs, h, e, he => by simp [toEventsAux] at h; subst h; cases he
  | 0, _ :: _, evs, h, e, he => by simp [toEventsAux] at h
  | _ + 1, [], evs, h, e, he => by simp [toEventsAux] at h; subst h; cases he
  | fuel + 1, t :: rest, evs, h, e, he => by
    unfold toEventsAux at h
    split at h
    · split at h
      · rename_i regs row rest' _
        cases h1 : regs.mapM Tok.toEvent? with
        | none => rw [h1] at h; cases h
        | some a =>
          cases h2 : toEventsAux fuel rest' with
          | none => rw [h1, h2] at h; cases h
          | some b =>
            rw [h1, h2] at h
            cases h
            rcases List.mem_append.1 he with he' | he'
            · exact mapM_toEvent?_noMutate regs a h1 e he'
            · rcases List.mem_cons.1 he' with rfl | he''
              · rfl
              · exact toEventsAux_noMutate fuel rest' b h2 e he''
      · cases h
    · cases h1 : t.toEvent? with
      | none => rw [h1] at h; cases h
      | some x =>
        cases h2 : toEventsAux fuel rest with
        | none => rw [h1, h2] at h; cases h
        | some b =>
          rw [h1, h2] at h
          cases h
          rcases List.mem_cons.1 he with rfl | he'
          · exact toEvent?_noMutate h1
          · exact toEventsAux_noMutate fuel rest b h2 e he'

theorem toEvents_noMutate {toks : List Tok} {evs : List Event} (h : toEvents toks = some evs) :
    ∀ e ∈ evs, isMutate e = false := toEventsAux_noMutate _ _ _ h

end LLBuild.Refine

namespace LLBuild.Refine
open LLBuild.Engine LLBuild.Engine.DSL LLBuild.EngineImpl

theorem MutOk.of_noMutate (c : Env → Env) {e : Event} (h : isMutate e = false) : MutOk c (.ev e) := by
  cases e <;> first | trivial | cases h

/-- an `M slot val` op keeps the external state inside the fixed points of the clamp -/
def GOp.mutOk (c : Env → Env) : GOp → Prop
  | .op (.mutate a b) => ∀ env, c env = env → c (upd env a b) = upd env a b
  | _ => True

theorem gopEvents_mutOk {c : Env → Env} {g : Nat} {o : GOp} {s : State} {gevs : List GEvent}
    (h : gopEvents g o s = some gevs) (hm : o.mutOk c) : ∀ e ∈ gevs, MutOk c e := by
  cases o with
  | program rules => cases h; intro e he; simp at he; subst he; trivial
  | op o =>
    simp only [gopEvents] at h
    cases h1 : opEvents o s with
    | none => rw [h1] at h; cases h
    | some evs =>
      rw [h1] at h; cases h
      intro e he
      obtain ⟨x, hx, rfl⟩ := List.mem_map.1 he
      cases o with
      | wipe => cases h1; simp at hx; subst hx; trivial
      | restart => cases h1; simp at hx; subst hx; trivial
      | mutate a b => cases h1; simp at hx; subst hx; exact hm
      | build key cancelAt sched => exact MutOk.of_noMutate c (toEvents_noMutate h1 x hx)

theorem ghistEvents_mutOk {c : Env → Env} : ∀ (gops : List GOp) (g : Nat) (s : State) (gevs : List GEvent),
    ghistEvents g gops s = some gevs → (∀ o ∈ gops, o.mutOk c) → ∀ e ∈ gevs, MutOk c e
  | [], g, s, gevs, h, _ => by cases h; intro e he; cases he
  | o :: os, g, s, gevs, h, hm => by
    simp only [ghistEvents] at h
    cases h1 : gopEvents g o s with
    | none => rw [h1] at h; cases h
    | some a =>
      cases h2 : ghistEvents (nextGen g o) os (runGOp o s) with
      | none => rw [h1, h2] at h; cases h
      | some b =>
        rw [h1, h2] at h; cases h
        intro e he
        rcases List.mem_append.1 he with he' | he'
        · exact gopEvents_mutOk h1 (hm o List.mem_cons_self) e he'
        · exact ghistEvents_mutOk os _ _ b h2 (fun x hx => hm x (List.mem_cons_of_mem _ hx)) e he'

end LLBuild.Refine
