/-
IM7-D — the failure exit of `finishedTasksLoopA` (an injected database write failure): INFRASTRUCTURE.

* `ov a F dm X`: the state `X` with the rule of `a` overwritten by `F (X.rule a)` and `dm` appended to `inputRequests`.
  The drain of `cancelRemainingTasksA` (asynchronous points, hook point 2, the clearing of `finishedTaskInfos`) never
  looks at the rule of a key that is not parked in `pendingDeferred`, nor at `inputRequests`: it COMMUTES with `ov`
  (`drainLoopA_ov`), as long as `a` is not parked, is registered and has a task (`OvOk`).
* the drain does not touch the store (`drainLoopA_store`, `cancelFinish_store`).
* the monitor: the tokens of the drain (`C`, `X`, `ER`) commute with setting `errSeen` (`trun_drainSafeE`).
Core Lean only.
-/
import LLBuild.Lemmas.Refine.Fail0

namespace LLBuild.Refine
open LLBuild.Engine LLBuild.Engine.DSL LLBuild.EngineImpl

/-! ## The override -/

/-- `X` with the rule of `a` replaced by `F` of itself and `dm` appended to the input requests -/
def ov (a : Key) (F : RuleInfo → RuleInfo) (dm : List TaskInputRequest) (X : State) : State :=
  { X with ruleInfos := alSet X.ruleInfos a (F (X.rule a)), inputRequests := X.inputRequests ++ dm }

/-- what the commutation needs: `a` is not parked (so no completion touches its rule), it is registered (so that the
position of its entry in `ruleInfos` is fixed), it has a task (`cancelTasks` will reset its rule) -/
structure OvOk (a : Key) (X : State) : Prop where
  notDeferred : a ∉ X.pendingDeferred
  reg : (X.ruleInfos.lookup a).isSome = true
  task : (X.taskInfos.lookup a).isSome = true
  keyOk : ∀ k ri, X.ruleInfos.lookup k = some ri → ri.key = k

theorem OvOk.congr {a : Key} {X X' : State} (h : OvOk a X) (h1 : X'.pendingDeferred = X.pendingDeferred)
    (h2 : X'.ruleInfos = X.ruleInfos) (h3 : X'.taskInfos = X.taskInfos) : OvOk a X' :=
  { notDeferred := by rw [h1]; exact h.notDeferred, reg := by rw [h2]; exact h.reg,
    task := by rw [h3]; exact h.task, keyOk := by rw [h2]; exact h.keyOk }

theorem OvOk.emit {a : Key} {X : State} (h : OvOk a X) (t : Tok) : OvOk a (emit t X) :=
  h.congr (emit_pendingDeferred t X) (emit_ruleInfos t X) (emit_taskInfos t X)

theorem OvOk.doCancel {a : Key} {X : State} (h : OvOk a X) : OvOk a (doCancel X) :=
  h.congr (doCancel_same X).pendingDeferred (doCancel_same X).ruleInfos (doCancel_same X).taskInfos

theorem OvOk.halt {a : Key} {X : State} (h : OvOk a X) (t : Tok) : OvOk a (halt t X) :=
  h.congr (halt_same t X).pendingDeferred (halt_same t X).ruleInfos (halt_same t X).taskInfos

theorem OvOk.modTask {a : Key} {X : State} (h : OvOk a X) (b : Key) (g : TaskInfo → TaskInfo) : OvOk a (X.modTask b g) :=
  { notDeferred := h.notDeferred, reg := h.reg, keyOk := h.keyOk,
    task := by
      show ((X.setTask (g (X.task b))).taskInfos.lookup a).isSome = true
      rw [setTask_lookup]
      split
      · rfl
      · exact h.task }

theorem rule_key_of_keyOk {X : State} (hk : ∀ k ri, X.ruleInfos.lookup k = some ri → ri.key = k) (b : Key) :
    (X.rule b).key = b := by
  unfold State.rule
  cases hl : X.ruleInfos.lookup b with
  | none => rfl
  | some ri => exact hk b ri hl

section Ov
variable {a : Key} {F : RuleInfo → RuleInfo} {dm : List TaskInputRequest}

theorem ov_emit (t : Tok) (X : State) : emit t (ov a F dm X) = ov a F dm (emit t X) := by
  unfold emit ov
  by_cases hh : X.halted = true
  · simp [hh]
  · simp only [hh, Bool.false_eq_true, if_false]
    split
    · simp only [EngineImpl.doCancel]
      split <;> first | rfl | (split <;> rfl)
    · rfl

theorem ov_doCancel (X : State) : doCancel (ov a F dm X) = ov a F dm (doCancel X) := by
  unfold doCancel ov
  by_cases hc : X.cancelIssued = true
  · simp [hc]
  · by_cases hh : X.halted = true <;> simp [hc, hh] <;> rfl

theorem ov_halt (t : Tok) (X : State) : halt t (ov a F dm X) = ov a F dm (halt t X) := by
  unfold halt ov
  by_cases hh : X.halted = true
  · simp [hh]
  · simp [hh]; rfl

theorem ov_modTask (X : State) (b : Key) (g : TaskInfo → TaskInfo) :
    (ov a F dm X).modTask b g = ov a F dm (X.modTask b g) := rfl

theorem ov_rule_ne (X : State) {b : Key} (hne : b ≠ a) : (ov a F dm X).rule b = X.rule b := by
  unfold State.rule ov
  simp only [lookup_alSet, hne, if_false]

theorem ov_setRule_ne {X : State} (hok : OvOk a X) (r : RuleInfo) (hne : r.key ≠ a) :
    (ov a F dm X).setRule r = ov a F dm (X.setRule r) := by
  have e1 : (X.setRule r).rule a = X.rule a := by
    rw [setRule_rule]
    simp [Ne.symm hne]
  show ({ X with ruleInfos := alSet (alSet X.ruleInfos a (F (X.rule a))) r.key r,
                 inputRequests := X.inputRequests ++ dm } : State) =
    { X with ruleInfos := alSet (alSet X.ruleInfos r.key r) a (F ((X.setRule r).rule a)),
             inputRequests := X.inputRequests ++ dm }
  rw [e1, alSet_comm _ _ _ _ _ (Ne.symm hne) hok.reg]

theorem OvOk.setRule {X : State} (hok : OvOk a X) (r : RuleInfo) : OvOk a (X.setRule r) :=
  { notDeferred := hok.notDeferred, task := hok.task,
    reg := by
      rw [setRule_lookup]
      split
      · rfl
      · exact hok.reg,
    keyOk := by
      intro k ri h
      rw [setRule_lookup] at h
      split at h
      · rename_i e; cases h; exact e.symm
      · exact hok.keyOk k ri h }

/-- the rule `taskIsComplete` writes -/
def tcRule (ri : RuleInfo) (ep : Nat) (v : Val) (fc : Bool) : RuleInfo :=
  { ri with result :=
      if !fc && v == ri.result.value then { ri.result with sig := ri.signature }
      else { ri.result with sig := ri.signature, value := v, computedAt := ep } }

theorem taskIsComplete_computing (b : Key) (v : Val) (fc : Bool) (X : State)
    (hc : (X.rule b).isInProgressComputing = true) :
    taskIsComplete b v fc X =
      { X.setRule (tcRule (X.rule b) X.currentEpoch v fc) with finishedTaskInfos := X.finishedTaskInfos ++ [b] } := by
  unfold taskIsComplete
  simp only [hc, Bool.not_true, Bool.false_eq_true, if_false]
  rfl

theorem taskIsComplete_notComputing (b : Key) (v : Val) (fc : Bool) (X : State)
    (hc : ¬ (X.rule b).isInProgressComputing = true) :
    taskIsComplete b v fc X = { emit (.ER 4) X with buildCancelled := true } := by
  unfold taskIsComplete
  simp only [hc, Bool.not_false, if_true]

theorem ov_taskIsComplete {X : State} (hok : OvOk a X) (b : Key) (hne : b ≠ a) (v : Val) (fc : Bool) :
    taskIsComplete b v fc (ov a F dm X) = ov a F dm (taskIsComplete b v fc X) ∧ OvOk a (taskIsComplete b v fc X) := by
  have h1 : (ov a F dm X).rule b = X.rule b := ov_rule_ne X hne
  have hkey : (tcRule (X.rule b) X.currentEpoch v fc).key ≠ a := by
    show (X.rule b).key ≠ a
    rw [rule_key_of_keyOk hok.keyOk b]; exact hne
  by_cases hc : (X.rule b).isInProgressComputing = true
  · rw [taskIsComplete_computing b v fc X hc, taskIsComplete_computing b v fc _ (by rw [h1]; exact hc), h1]
    constructor
    · show ({ (ov a F dm X).setRule (tcRule (X.rule b) X.currentEpoch v fc) with
          finishedTaskInfos := X.finishedTaskInfos ++ [b] } : State) = _
      rw [ov_setRule_ne hok _ hkey]
      rfl
    · exact (hok.setRule _).congr rfl rfl rfl
  · rw [taskIsComplete_notComputing b v fc X hc, taskIsComplete_notComputing b v fc _ (by rw [h1]; exact hc), ov_emit]
    constructor
    · rfl
    · exact (hok.emit _).congr rfl rfl rfl

theorem ov_taskComplete {X : State} (hok : OvOk a X) (b : Key) (hne : b ≠ a) :
    taskComplete b (ov a F dm X) = ov a F dm (taskComplete b X) ∧ OvOk a (taskComplete b X) := by
  unfold taskComplete
  simp only []
  have h1 : (ov a F dm X).rules = X.rules := rfl
  have h2 : (ov a F dm X).env = X.env := rfl
  have h3 : (ov a F dm X).task b = X.task b := rfl
  rw [h1, h2, h3, ov_emit, ov_modTask]
  exact ov_taskIsComplete ((hok.emit _).modTask b _) b hne _ _

theorem ov_completeKey {X : State} (hok : OvOk a X) (k : Key) :
    completeKey k (ov a F dm X) = ((completeKey k X).1, ov a F dm (completeKey k X).2) ∧
      OvOk a (completeKey k X).2 := by
  have hpd : (ov a F dm X).pendingDeferred = X.pendingDeferred := rfl
  unfold completeKey
  rw [hpd]
  by_cases hc : X.pendingDeferred.contains k = true
  · have hne : k ≠ a := by
      intro e
      apply hok.notDeferred
      rw [← e]
      simpa using hc
    rw [if_pos hc, if_pos hc]
    have hok' : OvOk a { X with pendingDeferred := X.pendingDeferred.filter (· != k) } :=
      { notDeferred := fun h => hok.notDeferred (List.mem_filter.1 h).1, reg := hok.reg, task := hok.task,
        keyOk := hok.keyOk }
    have e0 : ({ ov a F dm X with pendingDeferred := X.pendingDeferred.filter (· != k) } : State) =
        ov a F dm { X with pendingDeferred := X.pendingDeferred.filter (· != k) } := rfl
    obtain ⟨e, o⟩ := ov_taskComplete (F := F) (dm := dm) hok' k hne
    rw [e0, e]
    exact ⟨rfl, o⟩
  · rw [if_neg hc, if_neg hc]
    exact ⟨rfl, hok⟩

theorem ov_completeKeys : ∀ (ks : List Key) (any : Bool) (X : State), OvOk a X →
    completeKeys ks any (ov a F dm X) = ((completeKeys ks any X).1, ov a F dm (completeKeys ks any X).2) ∧
      OvOk a (completeKeys ks any X).2
  | [], any, X, hok => ⟨rfl, hok⟩
  | k :: ks, any, X, hok => by
    rw [completeKeys_cons, completeKeys_cons]
    obtain ⟨e, o⟩ := ov_completeKey (F := F) (dm := dm) hok k
    rw [e]
    exact ov_completeKeys ks _ _ o

theorem ov_asyncStep {X : State} (hok : OvOk a X) (it : SchedItem) :
    asyncStep it (ov a F dm X) = ov a F dm (asyncStep it X) ∧ OvOk a (asyncStep it X) := by
  unfold asyncStep
  simp only []
  obtain ⟨e, o⟩ := ov_completeKeys (F := F) (dm := dm) it.keys false X hok
  rw [e]
  by_cases hc : it.cancel = true
  · rw [if_pos hc, if_pos hc, ov_doCancel]
    exact ⟨rfl, o.doCancel⟩
  · rw [if_neg hc, if_neg hc]
    exact ⟨rfl, o⟩

theorem ov_asyncPoint {X : State} (hok : OvOk a X) (α : Async) :
    asyncPoint α (ov a F dm X) = ((asyncPoint α X).1, ov a F dm (asyncPoint α X).2) ∧ OvOk a (asyncPoint α X).2 := by
  cases α with
  | nil => exact ⟨rfl, hok⟩
  | cons it rest =>
    obtain ⟨e, o⟩ := ov_asyncStep (F := F) (dm := dm) hok it
    exact ⟨by show (rest, asyncStep it (ov a F dm X)) = _; rw [e]; rfl, o⟩

theorem hook2_eq' (s : State) :
    hook 2 s = match s.pendingDeferred with
      | [] => s
      | k :: _ => (completeKey k s).2 := by
  rw [hook2_eq]
  unfold completeSmallest
  cases s.pendingDeferred <;> rfl

theorem ov_hook2 {X : State} (hok : OvOk a X) :
    hook 2 (ov a F dm X) = ov a F dm (hook 2 X) ∧ OvOk a (hook 2 X) := by
  have hpd : (ov a F dm X).pendingDeferred = X.pendingDeferred := rfl
  rw [hook2_eq', hook2_eq', hpd]
  cases X.pendingDeferred with
  | nil => exact ⟨rfl, hok⟩
  | cons k rest =>
    obtain ⟨e, o⟩ := ov_completeKey (F := F) (dm := dm) hok k
    show (completeKey k (ov a F dm X)).2 = ov a F dm (completeKey k X).2 ∧ OvOk a (completeKey k X).2
    rw [e]
    exact ⟨rfl, o⟩

/-- **the drain commutes with the override** -/
theorem drainLoopA_ov : ∀ (fuel : Nat) (α : Async) (X : State), OvOk a X →
    drainLoopA fuel α (ov a F dm X) = ((drainLoopA fuel α X).1, ov a F dm (drainLoopA fuel α X).2) ∧
      OvOk a (drainLoopA fuel α X).2
  | 0, α, X, hok => by
    rw [drainLoopA, drainLoopA]
    exact ⟨by rw [ov_halt], hok.halt _⟩
  | fuel + 1, α, X, hok => by
    rw [drainLoopA_succ, drainLoopA_succ]
    have hn : (ov a F dm X).numOutstandingUnfinishedTasks = X.numOutstandingUnfinishedTasks := rfl
    obtain ⟨e1, o1⟩ := ov_asyncPoint (F := F) (dm := dm) hok α
    obtain ⟨e2, o2⟩ := ov_hook2 (F := F) (dm := dm) o1
    rw [hn, e1]
    simp only []
    rw [e2]
    by_cases h0 : (X.numOutstandingUnfinishedTasks == 0) = true
    · rw [if_pos h0, if_pos h0]
      exact ⟨rfl, hok⟩
    · rw [if_neg h0, if_neg h0]
      have hf : (ov a F dm (hook 2 (asyncPoint α X).2)).finishedTaskInfos = (hook 2 (asyncPoint α X).2).finishedTaskInfos := rfl
      rw [hf]
      by_cases h1 : (hook 2 (asyncPoint α X).2).finishedTaskInfos.isEmpty = true
      · rw [if_pos h1, if_pos h1, ov_halt]
        exact ⟨rfl, o2.halt _⟩
      · rw [if_neg h1, if_neg h1]
        exact drainLoopA_ov fuel (asyncPoint α X).1
          { hook 2 (asyncPoint α X).2 with
            numOutstandingUnfinishedTasks := (hook 2 (asyncPoint α X).2).numOutstandingUnfinishedTasks -
              (hook 2 (asyncPoint α X).2).finishedTaskInfos.length,
            finishedTaskInfos := [] } (o2.congr rfl rfl rfl)

end Ov

/-! ## The drain does not touch the store -/

theorem taskIsComplete_store (b : Key) (v : Val) (fc : Bool) (X : State) : (taskIsComplete b v fc X).store = X.store := by
  unfold taskIsComplete
  simp only []
  split
  · show (emit _ X).store = _
    rw [emit_store]
  · rfl

theorem taskComplete_store (b : Key) (X : State) : (taskComplete b X).store = X.store := by
  unfold taskComplete
  simp only []
  rw [taskIsComplete_store]
  show (emit _ X).store = _
  rw [emit_store]

theorem completeKey_store (k : Key) (X : State) : (completeKey k X).2.store = X.store := by
  unfold completeKey
  split
  · show (taskComplete k _).store = _
    rw [taskComplete_store]
  · rfl

theorem completeKeys_store : ∀ (ks : List Key) (any : Bool) (X : State), (completeKeys ks any X).2.store = X.store
  | [], _, _ => rfl
  | k :: ks, any, X => by
    rw [completeKeys_cons, completeKeys_store ks, completeKey_store]

theorem doCancel_store (X : State) : (doCancel X).store = X.store := (doCancel_same X).store

theorem asyncStep_store (it : SchedItem) (X : State) : (asyncStep it X).store = X.store := by
  unfold asyncStep
  simp only []
  split
  · rw [doCancel_store, completeKeys_store]
  · rw [completeKeys_store]

theorem asyncPoint_store (α : Async) (X : State) : (asyncPoint α X).2.store = X.store := by
  cases α with
  | nil => rfl
  | cons it rest => exact asyncStep_store it X

theorem hook2_store (X : State) : (hook 2 X).store = X.store := by
  rcases hook2_cases' X with ⟨_, h⟩ | ⟨k, _, h⟩
  · rw [h]
  · rw [h, completeKey_store]

theorem halt_store (t : Tok) (X : State) : (halt t X).store = X.store := (halt_same t X).store

theorem drainLoopA_store : ∀ (fuel : Nat) (α : Async) (X : State), (drainLoopA fuel α X).2.store = X.store
  | 0, α, X => by rw [drainLoopA]; exact halt_store _ _
  | fuel + 1, α, X => by
    rw [drainLoopA_succ]
    split
    · rfl
    · split
      · show (halt _ _).store = _
        rw [halt_store, hook2_store, asyncPoint_store]
      · rw [drainLoopA_store fuel]
        show (hook 2 (asyncPoint α X).2).store = _
        rw [hook2_store, asyncPoint_store]

theorem cancelFinish_store (X : State) : (cancelFinish X).store = X.store := by rw [cancelFinish_eq]

theorem cancelRemainingTasksA_store (α : Async) (X : State) : (cancelRemainingTasksA α X).2.store = X.store := by
  have e : (cancelRemainingTasksA α X).2 = cancelFinish (drainLoopA loopFuel α X).2 := rfl
  rw [e, cancelFinish_store, drainLoopA_store]

/-! ## The monitor: the tokens of the drain commute with `errSeen := true` -/

/-- the monitor after an `error` event -/
def setE (m : Engine.St) : Engine.St := { m with errSeen := true }

theorem step_complete_setE (P : Program) (m : Engine.St) (a : Key) (v : Val) (f : Bool) :
    step P (setE m) (.complete a v f) = (step P m (.complete a v f)).map setE := by
  simp only [step, setE]
  simp only [apply_ite (Option.map setE), Option.map_some, Option.map_none]
  rfl

theorem tstep_drainSafeE (P : Program) (m : Engine.St) (pend : Option Key) (t : Tok) (ht : Tok.drainSafe t = true)
    (ms' : MSt) (h : tstep P ⟨m, pend⟩ t = some ms') :
    tstep P ⟨setE m, pend⟩ t = some ⟨setE ms'.m, ms'.pend⟩ := by
  cases t <;> simp only [Tok.drainSafe, Bool.false_eq_true] at ht
  case X =>
    rw [tstep_X] at h
    cases h
    exact tstep_X P _
  case C a v f =>
    cases hst : step P m (.complete a v (f != 0)) with
    | none =>
      cases pend <;> simp [tstep, Tok.isS2, Tok.isReg, Tok.toEvent?, hst] at h
    | some m1 =>
      rw [tstep_reg_any (t := .C a v f) pend (by rfl) (by rfl) hst] at h
      cases h
      apply tstep_reg_any (t := .C a v f) pend (by rfl) (by rfl)
      rw [step_complete_setE, hst]; rfl
  case ER code =>
    cases pend with
    | some k => simp [tstep, Tok.isReg] at h
    | none =>
      rw [tstep_ev (t := .ER code) (m' := { m with errSeen := true }) (by rfl) (by rfl) (by rfl)] at h
      cases h
      exact tstep_ev (t := .ER code) (by rfl) (by rfl) (by rfl)

theorem trun_drainSafeE (P : Program) : ∀ (toks : List Tok) (m : Engine.St) (pend : Option Key) (ms' : MSt),
    (∀ t ∈ toks, Tok.drainSafe t = true) → trun P ⟨m, pend⟩ toks = some ms' →
    trun P ⟨setE m, pend⟩ toks = some ⟨setE ms'.m, ms'.pend⟩
  | [], m, pend, ms', _, h => by
    simp only [trun, Option.some.injEq] at h
    subst h
    rfl
  | t :: rest, m, pend, ms', hs, h => by
    simp only [trun] at h
    cases hts : tstep P ⟨m, pend⟩ t with
    | none => rw [hts] at h; simp at h
    | some ms1 =>
      rw [hts] at h; simp only [Option.bind_some] at h
      have a4 := tstep_drainSafeE P m pend t (hs t (by simp)) ms1 hts
      obtain ⟨m1, p1⟩ := ms1
      have b4 := trun_drainSafeE P rest m1 p1 ms' (fun t ht => hs t (by simp [ht])) h
      simp only [trun, a4, Option.bind_some]
      exact b4

theorem drainSafe_notS2 {t : Tok} (h : Tok.drainSafe t = true) : Tok.isS2b t = false := by
  cases t <;> simp [Tok.drainSafe] at h <;> rfl

end LLBuild.Refine
