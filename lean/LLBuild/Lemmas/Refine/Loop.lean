/-
IM2 — refinement, section G of `Todo.lean`: the ASSEMBLY of the work loop (`executeLoop`) from the per-function
theorems (sections A–F, H of `Todo.lean`, proved in `Demand`, `ScanLoop`, `Input`, `FinInput`, `Ready`, `FinTask`,
`Exit`, `Cycle`, `Halt`), by induction on the fuel: `workLoop_final`.
-/
import LLBuild.Lemmas.Refine.Demand
import LLBuild.Lemmas.Refine.ScanLoop
import LLBuild.Lemmas.Refine.Input
import LLBuild.Lemmas.Refine.FinInput
import LLBuild.Lemmas.Refine.Ready
import LLBuild.Lemmas.Refine.FinTask
import LLBuild.Lemmas.Refine.Exit
import LLBuild.Lemmas.Refine.Cycle
import LLBuild.Lemmas.Refine.Halt

namespace LLBuild.Refine
open LLBuild.Engine LLBuild.Engine.DSL LLBuild.EngineImpl

/-! ## 1. the `didWork` flags of the five queue loops -/

theorem scanRequestsLoop_true : ∀ (fuel : Nat) (s : State), (scanRequestsLoop fuel true s).1 = true
  | 0, _ => rfl
  | fuel + 1, s => by
    rw [scanRequestsLoop]
    split
    · rfl
    · exact scanRequestsLoop_true fuel _

theorem inputRequestsLoop_true : ∀ (fuel : Nat) (s : State), (inputRequestsLoop fuel true s).1 = true
  | 0, _ => rfl
  | fuel + 1, s => by
    rw [inputRequestsLoop]
    split
    · rfl
    · exact inputRequestsLoop_true fuel _

theorem finishedInputsLoop_true : ∀ (fuel : Nat) (s : State), (finishedInputsLoop fuel true s).1 = true
  | 0, _ => rfl
  | fuel + 1, s => by
    rw [finishedInputsLoop_succ]
    split
    · rfl
    · split
      · rfl
      · exact finishedInputsLoop_true fuel _

theorem readyTasksLoop_true : ∀ (fuel : Nat) (s : State), (readyTasksLoop fuel true s).1 = true
  | 0, _ => rfl
  | fuel + 1, s => by
    rw [readyTasksLoop_succ]
    split
    · rfl
    · exact readyTasksLoop_true fuel _

theorem finishedTasksLoop_true : ∀ (fuel : Nat) (s : State), (finishedTasksLoop fuel true s).2.1 = true
  | 0, _ => rfl
  | fuel + 1, s => by
    rw [finishedTasksLoop_succ]
    split
    · rfl
    · simp only []
      split
      · rfl
      · exact finishedTasksLoop_true fuel _

/-- a loop that reports "no work" was started with "no work so far", found its queue empty and did nothing -/
theorem scanRequestsLoop_nowork (fuel : Nat) (w : Bool) (s : State)
    (hw : (scanRequestsLoop fuel w s).1 = false) (hh : (scanRequestsLoop fuel w s).2.halted = false) :
    w = false ∧ (scanRequestsLoop fuel w s).2 = s ∧ s.ruleInfosToScan = [] := by
  cases w with
  | true => rw [scanRequestsLoop_true] at hw; cases hw
  | false =>
    refine ⟨rfl, ?_⟩
    cases fuel with
    | zero => rw [scanRequestsLoop, halt_halted] at hh; cases hh
    | succ fuel =>
      rw [scanRequestsLoop] at hw ⊢
      cases hq : s.ruleInfosToScan.getLast? with
      | none => exact ⟨rfl, List.getLast?_eq_none_iff.mp hq⟩
      | some r => rw [hq] at hw; simp only [scanRequestsLoop_true] at hw; cases hw

theorem inputRequestsLoop_nowork (fuel : Nat) (w : Bool) (s : State)
    (hw : (inputRequestsLoop fuel w s).1 = false) (hh : (inputRequestsLoop fuel w s).2.halted = false) :
    w = false ∧ (inputRequestsLoop fuel w s).2 = s ∧ s.inputRequests = [] := by
  cases w with
  | true => rw [inputRequestsLoop_true] at hw; cases hw
  | false =>
    refine ⟨rfl, ?_⟩
    cases fuel with
    | zero => rw [inputRequestsLoop, halt_halted] at hh; cases hh
    | succ fuel =>
      rw [inputRequestsLoop] at hw ⊢
      cases hq : s.inputRequests with
      | nil => exact ⟨rfl, rfl⟩
      | cons r rest => rw [hq] at hw; simp only [inputRequestsLoop_true] at hw; cases hw

theorem finishedInputsLoop_nowork (fuel : Nat) (w : Bool) (s : State)
    (hw : (finishedInputsLoop fuel w s).1 = false) (hh : (finishedInputsLoop fuel w s).2.halted = false) :
    w = false ∧ (finishedInputsLoop fuel w s).2 = s ∧ s.finishedInputRequests = [] := by
  cases w with
  | true => rw [finishedInputsLoop_true] at hw; cases hw
  | false =>
    refine ⟨rfl, ?_⟩
    cases fuel with
    | zero => rw [finishedInputsLoop, halt_halted] at hh; cases hh
    | succ fuel =>
      rw [finishedInputsLoop_succ] at hw ⊢
      cases hq : s.finishedInputRequests.getLast? with
      | none => exact ⟨rfl, List.getLast?_eq_none_iff.mp hq⟩
      | some r =>
        rw [hq] at hw
        cases ht : r.taskInfo with
        | none => simp only [ht] at hw; cases hw
        | some task => simp only [ht, finishedInputsLoop_true] at hw; cases hw

theorem readyTasksLoop_nowork (fuel : Nat) (w : Bool) (s : State)
    (hw : (readyTasksLoop fuel w s).1 = false) (hh : (readyTasksLoop fuel w s).2.halted = false) :
    w = false ∧ (readyTasksLoop fuel w s).2 = s ∧ s.readyTaskInfos = [] := by
  cases w with
  | true => rw [readyTasksLoop_true] at hw; cases hw
  | false =>
    refine ⟨rfl, ?_⟩
    cases fuel with
    | zero => rw [readyTasksLoop, halt_halted] at hh; cases hh
    | succ fuel =>
      rw [readyTasksLoop_succ] at hw ⊢
      cases hq : s.readyTaskInfos with
      | nil => exact ⟨rfl, rfl⟩
      | cons r rest => rw [hq] at hw; simp only [readyTasksLoop_true] at hw; cases hw

theorem finishedTasksLoop_nowork (fuel : Nat) (w : Bool) (s : State)
    (hw : (finishedTasksLoop fuel w s).2.1 = false) (hh : (finishedTasksLoop fuel w s).2.2.halted = false) :
    w = false ∧ (finishedTasksLoop fuel w s).2.2 = s ∧ s.finishedTaskInfos = [] := by
  cases w with
  | true => rw [finishedTasksLoop_true] at hw; cases hw
  | false =>
    refine ⟨rfl, ?_⟩
    cases fuel with
    | zero => rw [finishedTasksLoop, halt_halted] at hh; cases hh
    | succ fuel =>
      rw [finishedTasksLoop_succ] at hw ⊢
      cases hq : s.finishedTaskInfos.getLast? with
      | none => exact ⟨rfl, List.getLast?_eq_none_iff.mp hq⟩
      | some task =>
        rw [hq] at hw
        simp only [] at hw
        split at hw
        · cases hw
        · rw [finishedTasksLoop_true] at hw; cases hw

/-! ## 2. once halted, always halted: `resolveCycle`, `waitStep` -/

theorem setRule_halted (s : State) (ri : RuleInfo) : (s.setRule ri).halted = s.halted := rfl
theorem modRule_halted (s : State) (k : Key) (f : RuleInfo → RuleInfo) : (s.modRule k f).halted = s.halted := rfl
theorem modTask_halted (s : State) (k : Key) (f : TaskInfo → TaskInfo) : (s.modTask k f).halted = s.halted := rfl

theorem breakCycleLoop_haltMono (hfs : ∀ k st, HaltMono (finishScanRequest k st)) :
    ∀ (l : List Key) (s : State), s.halted = true → (breakCycleLoop l s).2.halted = true
  | [], s, h => h
  | k :: rest, s, h => by
    rw [breakCycleLoop.eq_def]
    simp only []
    split
    · split
      · exact h
      · rw [modRule_halted, emit_halted_eq]
        exact hfs _ _ _ h
    · split
      · cases rest with
        | nil => exact breakCycleLoop_haltMono hfs [] s h
        | cons next more =>
          simp only
          split
          · exact breakCycleLoop_haltMono hfs _ s h
          · split
            · exact h
            · rw [modTask_halted]; exact h
      · exact breakCycleLoop_haltMono hfs rest s h

theorem resolveCycle_haltMono (hfs : ∀ k st, HaltMono (finishScanRequest k st)) (key : Key) :
    HaltMono (fun s => (resolveCycle key s).2) := by
  intro s h
  show (resolveCycle key s).2.halted = true
  unfold resolveCycle
  cases findCycle key s with
  | none => exact halt_halted _ _
  | some l =>
    simp only []
    have hb := breakCycleLoop_haltMono hfs l.reverse s h
    unfold breakCycle
    split
    · exact hb
    · rw [emit_halted_eq]; exact hb

theorem waitStep_haltMono (hhook : ∀ p, HaltMono (hook p)) : HaltMono waitStep := by
  intro s h
  unfold waitStep
  simp only []
  split
  · exact halt_halted _ _
  · exact hhook 1 s h

/-- a `waitStep` that did not halt is `hook 1` -/
theorem waitStep_eq {s : State} (h : (waitStep s).halted = false) : waitStep s = hook 1 s := by
  unfold waitStep at h ⊢
  simp only [] at h ⊢
  split
  · rename_i he; rw [if_pos he, halt_halted] at h; cases h
  · rfl

/-! ## 3. one iteration of `executeLoop`, stage by stage -/

/-- the state/flag after the scan-request loop, …, after the finished-tasks loop (from the state after `hook 0`) -/
def st1 (s : State) : Bool × State := scanRequestsLoop loopFuel false s
def st2 (s : State) : Bool × State := inputRequestsLoop loopFuel (st1 s).1 (st1 s).2
def st3 (s : State) : Bool × State := finishedInputsLoop loopFuel (st2 s).1 (st2 s).2
def st4 (s : State) : Bool × State := readyTasksLoop loopFuel (st3 s).1 (st3 s).2
def st5 (s : State) : Bool × Bool × State := finishedTasksLoop loopFuel (st4 s).1 (st4 s).2

/-- the end of an iteration, from the flag and state after the wait branch -/
def afterWait (key : Key) (fuel : Nat) (w : Bool) (s : State) : Bool × State :=
  if w then executeLoop key fuel s else
  if !s.taskInfos.isEmpty || s.numRulesBeingScanned != 0 || !isComplete s (s.rule key) then
    if (resolveCycle key s).1 then executeLoop key fuel (resolveCycle key s).2
    else (false, cancelRemainingTasks (resolveCycle key s).2)
  else (true, s)

/-- the end of an iteration, from the result of `finishedTasksLoop` -/
def afterTasks (key : Key) (fuel : Nat) (r : Bool × Bool × State) : Bool × State :=
  if r.1 then (false, r.2.2) else
  if !r.2.1 && r.2.2.numOutstandingUnfinishedTasks != 0 then afterWait key fuel true (waitStep r.2.2)
  else afterWait key fuel r.2.1 r.2.2

theorem executeLoop_succ (key : Key) (fuel : Nat) (s : State) :
    executeLoop key (fuel + 1) s =
      if s.halted then (false, s) else
      if (hook 0 s).buildCancelled then (false, cancelRemainingTasks (hook 0 s)) else
      afterTasks key fuel (st5 (hook 0 s)) := by
  show (if s.halted then (false, s) else _) = _
  by_cases hh : s.halted = true
  · simp only [hh, if_true]
  · simp only [hh, Bool.false_eq_true, if_false]
    by_cases hc : (hook 0 s).buildCancelled = true
    · simp only [hc, if_true]
    · simp only [hc, Bool.false_eq_true, if_false]
      unfold afterTasks st5 st4 st3 st2 st1
      generalize finishedTasksLoop loopFuel _ _ = r5
      obtain ⟨f5, w5, s5⟩ := r5
      simp only []
      by_cases hf : f5 = true
      · simp only [hf, if_true]
      · simp only [hf, Bool.false_eq_true, if_false]
        by_cases hw : (!w5 && s5.numOutstandingUnfinishedTasks != 0) = true
        · simp only [hw, if_true, afterWait, waitStep]
        · simp only [hw, Bool.false_eq_true, if_false, afterWait]
theorem executeLoop_zero (key : Key) (s : State) : executeLoop key 0 s = (false, halt .FUEL s) := rfl

theorem afterWait_of_result (hexec : ∀ key fuel, HaltMono (fun s => (executeLoop key fuel s).2))
    (hfs : ∀ k st, HaltMono (finishScanRequest k st)) (hcm : HaltMono cancelRemainingTasks)
    {key : Key} {fuel : Nat} {w : Bool} {s : State} (h : (afterWait key fuel w s).2.halted = false) :
    s.halted = false := by
  cases hs : s.halted with
  | false => rfl
  | true =>
    exfalso
    have : (afterWait key fuel w s).2.halted = true := by
      unfold afterWait
      split
      · exact hexec key fuel s hs
      · split
        · split
          · exact hexec key fuel _ (resolveCycle_haltMono hfs key s hs)
          · exact hcm _ (resolveCycle_haltMono hfs key s hs)
        · exact hs
    rw [this] at h; cases h

theorem afterTasks_of_result (hexec : ∀ key fuel, HaltMono (fun s => (executeLoop key fuel s).2))
    (hfs : ∀ k st, HaltMono (finishScanRequest k st)) (hcm : HaltMono cancelRemainingTasks)
    (hhook : ∀ p, HaltMono (hook p))
    {key : Key} {fuel : Nat} {r : Bool × Bool × State} (h : (afterTasks key fuel r).2.halted = false) :
    r.2.2.halted = false := by
  unfold afterTasks at h
  split at h
  · exact h
  · split at h
    · exact (waitStep_haltMono hhook).of_result (afterWait_of_result hexec hfs hcm h)
    · exact afterWait_of_result hexec hfs hcm h

/-- an iteration that did no work left the state alone and found every queue empty -/
theorem nowork_all (s : State) (hw : (st5 s).2.1 = false)
    (h1 : (st1 s).2.halted = false) (h2 : (st2 s).2.halted = false) (h3 : (st3 s).2.halted = false)
    (h4 : (st4 s).2.halted = false) (h5 : (st5 s).2.2.halted = false) :
    (st5 s).2.2 = s ∧ s.ruleInfosToScan = [] ∧ s.inputRequests = [] ∧ s.finishedInputRequests = [] ∧
      s.readyTaskInfos = [] ∧ s.finishedTaskInfos = [] := by
  obtain ⟨w4, e5, q5⟩ := finishedTasksLoop_nowork loopFuel (st4 s).1 (st4 s).2 hw h5
  obtain ⟨w3, e4, q4⟩ := readyTasksLoop_nowork loopFuel (st3 s).1 (st3 s).2 w4 h4
  obtain ⟨w2, e3, q3⟩ := finishedInputsLoop_nowork loopFuel (st2 s).1 (st2 s).2 w3 h3
  obtain ⟨w1, e2, q2⟩ := inputRequestsLoop_nowork loopFuel (st1 s).1 (st1 s).2 w2 h2
  obtain ⟨-, e1, q1⟩ := scanRequestsLoop_nowork loopFuel false s w1 h1
  have e1' : (st1 s).2 = s := e1
  have e2' : (st2 s).2 = s := (show (st2 s).2 = (st1 s).2 from e2).trans e1'
  have e3' : (st3 s).2 = s := (show (st3 s).2 = (st2 s).2 from e3).trans e2'
  have e4' : (st4 s).2 = s := (show (st4 s).2 = (st3 s).2 from e4).trans e3'
  have e5' : (st5 s).2.2 = s := (show (st5 s).2.2 = (st4 s).2 from e5).trans e4'
  rw [e4'] at q5; rw [e3'] at q4; rw [e2'] at q3; rw [e1'] at q2
  exact ⟨e5', q1, q2, q3, q4, q5⟩

/-! ## 4. the loop invariant -/

/-- the part of the loop invariant that every call keeps through `Sim` alone: the relation, no pending completion,
the monitor's target, the registration of the requested key, and the two monitor invariants `PendFresh`
(`Input.lean`) and `NoMFDelivered` (`Cycle.lean`).  `NoMid` (lost by the scan loop, restored by the input loop) and
`Aux` (kept by every call, by the `…_aux` lemmas) are carried next to it. -/
structure Inv (rules : List RuleSpec) (key : Key) (s : State) (ms : MSt) : Prop where
  rel : Rel rules s ms {}
  pend : ms.pend = none
  target : ms.m.target = some key
  reg : Registered s key
  pendFresh : PendFresh ms.m
  noMF : Cyc.NoMFDelivered ms.m

theorem Inv.step {rules : List RuleSpec} {key : Key} {s : State} {ms : MSt} {s' : State} {Post : MSt → Prop}
    (hi : Inv rules key s ms) (hs : Sim rules s ms s' {} Post) (hh : s'.halted = false) :
    ∃ toks ms', Emits s toks s' ∧ trun (program rules) ms toks = some ms' ∧ Inv rules key s' ms' ∧ Post ms' := by
  obtain ⟨toks, ms', he, hr, hrel, hp, hreg, ht, hpost⟩ := hs hh
  exact ⟨toks, ms', he, hr,
    ⟨hrel, hp, ht.trans hi.target, hreg key hi.reg, trun_pendFresh toks hr hi.pendFresh,
      Cyc.trun_noMF toks ms ms' hr hi.noMF⟩, hpost⟩

/-- the conclusion of `WorkLoopSpec` for a result `res` -/
def LoopPost (rules : List RuleSpec) (key : Key) (s : State) (ms : MSt) (res : Bool × State) : Prop :=
  ∃ toks m', Emits s toks res.2 ∧ trun (program rules) ms toks = some ⟨m', none⟩ ∧
    RelPost rules key res.2 m' res.1 ∧ m'.started = true

theorem LoopPost.prepend {rules : List RuleSpec} {key : Key} {s0 s : State} {ms0 ms : MSt} {toks0 : List Tok}
    {res : Bool × State} (he : Emits s0 toks0 s) (hr : trun (program rules) ms0 toks0 = some ms)
    (h : LoopPost rules key s ms res) : LoopPost rules key s0 ms0 res := by
  obtain ⟨toks, m', he', hr', hp, hst⟩ := h
  exact ⟨toks0 ++ toks, m', he.trans he', trun_append_some hr hr', hp, hst⟩

/-- `Aux` with nothing in hand gives the two side conditions of `findCycle_fixed` once the input queue is empty -/
theorem Aux.readyWhenZero {key : Key} {s : State} (ha : Aux key s {}) : Cyc.ReadyWhenZero s := by
  intro a t hl hw hz
  rcases ha.readyZero a t hl hw hz with h | h
  · exact h
  · cases h

theorem Aux.rootNotIdle {rules : List RuleSpec} {key : Key} {s : State} {ms : MSt} (ha : Aux key s {})
    (hr : Rel rules s ms {}) (hp : ms.pend = none) (hq : s.inputRequests = []) : ms.m.status key ≠ .idle := by
  rw [hr.status key, hp]
  rcases ha.rootSeen with h | ⟨r, hr', -⟩
  · exact h
  · rw [hq] at hr'; cases hr'

/-- the side statements of the provers' `…_aux` lemmas, from `Demand.lean` / `ScanLoop.lean` -/
theorem scanRuleAux : ScanRuleAux :=
  fun _ _ s _ h k _ _ _ _ _ key haux => scanRule_aux key k s h haux

theorem issueAux : IssueAux :=
  fun rules hok s ms h a l h1 h2 h3 h4 h5 h6 h7 h8 h9 _ key haux =>
    issue_aux rules hok s ms h a l h1 h2 h3 h4 h5 h6 h7 h8 h9 key haux

/-! ## 5. the end of an iteration -/

/-- the end of an iteration: next iteration, success, or a reported cycle -/
theorem afterWait_spec {rules : List RuleSpec} (hok : RulesOk rules)
    (hcm : HaltMono cancelRemainingTasks)
    {key : Key} {fuel : Nat}
    (ih : ∀ s ms, Inv rules key s ms → NoMid s → Aux key s {} → s.halted = false →
      (executeLoop key fuel s).2.halted = false → LoopPost rules key s ms (executeLoop key fuel s))
    (w : Bool) (s : State) (ms : MSt) (hi : Inv rules key s ms) (hnm : NoMid s) (haux : Aux key s {})
    (hh : s.halted = false)
    (hq : w = false → s.buildCancelled = false ∧ s.ruleInfosToScan = [] ∧ s.inputRequests = [] ∧
      s.finishedInputRequests = [] ∧ s.readyTaskInfos = [] ∧ s.finishedTaskInfos = [] ∧
      s.numOutstandingUnfinishedTasks = 0)
    (hnh : (afterWait key fuel w s).2.halted = false) : LoopPost rules key s ms (afterWait key fuel w s) := by
  unfold afterWait at hnh ⊢
  cases w with
  | true =>
    simp only [if_true] at hnh ⊢
    exact ih s ms hi hnm haux hh hnh
  | false =>
    simp only [Bool.false_eq_true, if_false] at hnh ⊢
    obtain ⟨hbc, q1, q2, q3, q4, q5, hnum⟩ := hq rfl
    have hrc := resolveCycle_noResolve key s hi.rel.noResolve
    by_cases hc : (!s.taskInfos.isEmpty || s.numRulesBeingScanned != 0 || !isComplete s (s.rule key)) = true
    · rw [if_pos hc] at hnh ⊢
      cases hfc : findCycle key s with
      | none =>
        rw [hfc] at hrc; simp only [] at hrc
        rw [hrc] at hnh; simp only [Bool.false_eq_true, if_false] at hnh
        rw [hcm _ (halt_halted _ _)] at hnh; cases hnh
      | some ks =>
        rw [hfc] at hrc; simp only [] at hrc
        rw [hrc] at hnh ⊢; simp only [Bool.false_eq_true, if_false] at hnh ⊢
        have hl := findCycle_fixed rules s ms key ks hi.rel hi.pend hi.target hnm q1 q2 q3 q4 q5 hnum hfc
          (cycleSearchOk_of_findCycle hfc) hi.noMF haux.readyWhenZero (haux.rootNotIdle hi.rel hi.pend q2)
        exact cycleExit_sim taskComplete_sim rules hok s ms key ks hi.rel hi.pend hh hi.target hnm hl hnh
    · rw [if_neg hc] at hnh ⊢
      simp only [Bool.or_eq_true, Bool.not_eq_eq_eq_not, Bool.not_true, List.isEmpty_eq_false_iff, ne_eq,
        bne_iff_ne, not_or, Decidable.not_not, Bool.not_eq_false] at hc
      obtain ⟨⟨ht, hns⟩, hcomp⟩ := hc
      refine ⟨[], ms.m, Emits.refl s, ?_,
        successExit rules s ms key hi.rel hi.pend hi.target hi.reg hbc ht hns hcomp q1 q2 q3 q4 q5 hnum hnm,
        hi.rel.started⟩
      rw [← hi.pend]
      rfl

/-! ## 6. the assembly -/

/-- **The work loop** (section G of `Todo.lean`, the hypothesis of `Main.lean`), by induction on the fuel of
`executeLoop` with the invariant `Inv rules key s ms ∧ NoMid s ∧ Aux key s {} ∧ s.halted = false` at the top of each
iteration.  The only assumption left besides `RulesOk` is that the depth-first search of `findCycle` never runs out
of fuel (`CycleSearchOk`, which since model patch M1 follows from `findCycle … = some ks`: `cycleSearchOk_of_findCycle`).  (`waitStep_ok`, no stall, is not needed: `WorkLoopSpec` assumes that the result is not
halted, and a stall halts.) -/
theorem workLoop_final : ∀ rules, RulesOk rules → WorkLoopSpec rules := by
  intro rules hok key fuel
  obtain ⟨-, -, hFS, -, -, -, -, -, -, -, hHook, -, hCM, hScanL, hInpL, hFinL, hReadyL, hFTL, hExec⟩ := haltMono_all
  have hcancel : Todo_cancelRemainingTasks := cancelRemainingTasks_sim taskComplete_sim
  have hfin : Todo_finishedInputsLoop := finishedInputsLoop_sim (finishedInputStep_sim issue_sim endIssue)
  suffices H : ∀ s ms, Inv rules key s ms → NoMid s → Aux key s {} → s.halted = false →
      (executeLoop key fuel s).2.halted = false → LoopPost rules key s ms (executeLoop key fuel s) from
    fun s ms hr hnm hp ht hreg hh hpf hmf haux hnh => H s ms ⟨hr, hp, ht, hreg, hpf, hmf⟩ hnm haux hh hnh
  induction fuel with
  | zero =>
    intro s ms _ _ _ _ hnh
    rw [executeLoop_zero, halt_halted] at hnh; cases hnh
  | succ fuel ih =>
    intro s ms hi hnm haux hh hnh
    rw [executeLoop_succ] at hnh ⊢
    simp only [hh, Bool.false_eq_true, if_false] at hnh ⊢
    -- `hook 0`
    have hh0 : (hook 0 s).halted = false := by
      by_cases hc : (hook 0 s).buildCancelled = true
      · rw [if_pos hc] at hnh; exact hCM.of_result hnh
      · rw [if_neg hc] at hnh
        have h5 := afterTasks_of_result hExec hFS hCM hHook hnh
        have h4 : (st4 (hook 0 s)).2.halted = false := (hFTL loopFuel (st4 (hook 0 s)).1).of_result h5
        have h3 : (st3 (hook 0 s)).2.halted = false := (hReadyL loopFuel (st3 (hook 0 s)).1).of_result h4
        have h2 : (st2 (hook 0 s)).2.halted = false := (hFinL loopFuel (st2 (hook 0 s)).1).of_result h3
        have h1 : (st1 (hook 0 s)).2.halted = false := (hInpL loopFuel (st1 (hook 0 s)).1).of_result h2
        exact (hScanL loopFuel false).of_result h1
    have haux0 : Aux key (hook 0 s) {} := hook_aux key 0 hi.rel hi.pend hh haux
    obtain ⟨toks0, ms0, he0, hr0, hi0, hnm0'⟩ := hi.step (hook_sim rules hok 0 s ms hi.rel hi.pend hh) hh0
    have hnm0 := hnm0' hnm
    refine LoopPost.prepend he0 hr0 ?_
    generalize hook 0 s = s0 at hnh hh0 hi0 hnm0 haux0 ⊢
    clear he0 hr0 hnm0' hi hnm hh haux s ms
    by_cases hc : s0.buildCancelled = true
    · -- cancelled
      rw [if_pos hc] at hnh ⊢
      exact hcancel rules hok s0 ms0 key hi0.rel hi0.pend hh0 hi0.target hnm0 (Or.inr (Or.inr (Or.inr hc))) hnh
    · rw [if_neg hc] at hnh ⊢
      have hc' : s0.buildCancelled = false := by simpa using hc
      -- the intermediate states are not halted
      have h5 := afterTasks_of_result hExec hFS hCM hHook hnh
      have h4 : (st4 s0).2.halted = false := (hFTL loopFuel (st4 s0).1).of_result h5
      have h3 : (st3 s0).2.halted = false := (hReadyL loopFuel (st3 s0).1).of_result h4
      have h2 : (st2 s0).2.halted = false := (hFinL loopFuel (st2 s0).1).of_result h3
      have h1 : (st1 s0).2.halted = false := (hInpL loopFuel (st1 s0).1).of_result h2
      -- scan requests
      have S1 : Sim rules s0 ms0 (st1 s0).2 {} (fun _ => (st1 s0).2.ruleInfosToScan = []) :=
        scanRequestsLoop_sim demandRule_sim rules hok loopFuel false s0 ms0 hi0.rel hi0.pend hh0
      have haux1 : Aux key (st1 s0).2 {} :=
        scanRequestsLoop_aux demandRule_sim hok key loopFuel false s0 ms0 hi0.rel hi0.pend hh0 h1 demandRule_aux haux0
      obtain ⟨toks1, ms1, he1, hr1, hi1, hq1⟩ := hi0.step S1 h1
      have hfresh1 : FreshScanQ (st1 s0).2 := by
        intro r hr; rw [hq1] at hr; cases hr
      -- input requests
      have S2 : Sim rules (st1 s0).2 ms1 (st2 s0).2 {} (fun _ =>
          (st2 s0).2.inputRequests = [] ∧ NoMid (st2 s0).2 ∧ FreshScanQ (st2 s0).2) :=
        inputRequestsLoop_of_pendFresh demandRule_sim rules hok loopFuel (st1 s0).1 (st1 s0).2 ms1 hi1.rel hi1.pend h1
          hfresh1 hi1.pendFresh
      have haux2 : Aux key (st2 s0).2 {} :=
        inputRequestsLoop_aux demandRule_sim rules hok loopFuel (st1 s0).1 (st1 s0).2 ms1 key hi1.rel hi1.pend h1
          hfresh1 hi1.pendFresh h2 scanRuleAux demandRule_aux haux1
      obtain ⟨toks2, ms2, he2, hr2, hi2, -, hnm2, -⟩ := hi1.step S2 h2
      -- finished inputs
      have S3 : Sim rules (st2 s0).2 ms2 (st3 s0).2 {} (fun _ =>
          (st3 s0).2.finishedInputRequests = [] ∧ NoMid (st3 s0).2) :=
        hfin rules hok loopFuel (st2 s0).1 (st2 s0).2 ms2 hi2.rel hi2.pend h2 hnm2
      have haux3 : Aux key (st3 s0).2 {} :=
        finishedInputsLoop_aux hok (fuel := loopFuel) (w := (st2 s0).1) hi2.rel hi2.pend h2 hnm2 h3 issueAux haux2
      obtain ⟨toks3, ms3, he3, hr3, hi3, -, hnm3⟩ := hi2.step S3 h3
      -- ready tasks
      have S4 : Sim rules (st3 s0).2 ms3 (st4 s0).2 {} (fun _ =>
          (st4 s0).2.readyTaskInfos = [] ∧ NoMid (st4 s0).2) :=
        readyTasksLoop_sim rules hok loopFuel (st3 s0).1 (st3 s0).2 ms3 hi3.rel hi3.pend h3 hnm3
      have haux4 : Aux key (st4 s0).2 {} :=
        readyTasksLoop_aux key loopFuel (st3 s0).1 (st3 s0).2 ms3 hi3.rel hi3.pend h3 hnm3 h4 haux3
      obtain ⟨toks4, ms4, he4, hr4, hi4, -, hnm4⟩ := hi3.step S4 h4
      -- finished tasks
      have S5 : (st5 s0).1 = false ∧ Sim rules (st4 s0).2 ms4 (st5 s0).2.2 {} (fun _ =>
          (st5 s0).2.2.finishedTaskInfos = [] ∧ NoMid (st5 s0).2.2) :=
        finishedTasksLoop_sim rules hok loopFuel (st4 s0).1 (st4 s0).2 ms4 hi4.rel hi4.pend h4 hnm4
      have haux5 : Aux key (st5 s0).2.2 {} :=
        finishedTasksLoop_aux hok loopFuel (st4 s0).1 (st4 s0).2 ms4 hi4.rel hi4.pend h4 hnm4 haux4
      obtain ⟨hfail, S5⟩ := S5
      obtain ⟨toks5, ms5, he5, hr5, hi5, -, hnm5⟩ := hi4.step S5 h5
      refine LoopPost.prepend (he1.trans (he2.trans (he3.trans (he4.trans he5))))
        (trun_append_some hr1 (trun_append_some hr2 (trun_append_some hr3 (trun_append_some hr4 hr5)))) ?_
      -- the wait branch
      unfold afterTasks at hnh ⊢
      simp only [hfail, Bool.false_eq_true, if_false] at hnh ⊢
      have IH : ∀ s ms, Inv rules key s ms → NoMid s → Aux key s {} → s.halted = false →
          (executeLoop key fuel s).2.halted = false → LoopPost rules key s ms (executeLoop key fuel s) := ih
      by_cases hw : (!(st5 s0).2.1 && (st5 s0).2.2.numOutstandingUnfinishedTasks != 0) = true
      · rw [if_pos hw] at hnh ⊢
        have h6 := afterWait_of_result hExec hFS hCM hnh
        have e6 := waitStep_eq h6
        rw [e6] at hnh h6 ⊢
        have haux6 : Aux key (hook 1 (st5 s0).2.2) {} := hook_aux key 1 hi5.rel hi5.pend h5 haux5
        obtain ⟨toks6, ms6, he6, hr6, hi6, hnm6⟩ :=
          hi5.step (hook_sim rules hok 1 (st5 s0).2.2 ms5 hi5.rel hi5.pend h5) h6
        refine LoopPost.prepend he6 hr6 ?_
        exact afterWait_spec hok hCM IH true _ ms6 hi6 (hnm6 hnm5) haux6 h6 (fun h => by cases h) hnh
      · rw [if_neg hw] at hnh ⊢
        refine afterWait_spec hok hCM IH _ _ ms5 hi5 hnm5 haux5 h5 ?_ hnh
        intro hw5
        obtain ⟨e, q1, q2, q3, q4, q5⟩ := nowork_all s0 hw5 h1 h2 h3 h4 h5
        have hnum : (st5 s0).2.2.numOutstandingUnfinishedTasks = 0 := by
          rw [hw5] at hw
          simpa using hw
        rw [e] at hnum ⊢
        exact ⟨hc', q1, q2, q3, q4, q5, hnum⟩

end LLBuild.Refine
