/-
IM5 — process death in the middle of a build (C04): THE TOKENS THAT CLOSE A BUILD (`DE`, `R v`, `Z a b`) ARE NOT EMITTED
BEFORE `build()` IS DONE.  Needed because the monitor accepts `crash` only inside a build (`target.isSome`): a cut prefix of
the trace must contain no `Z`.  This is a fact about the concrete engine, not about the monitor (which would accept
`B … R Z B …`), and the recorder framework of `Halt.lean` (`Closed R`: closure under `emit t` for EVERY non-`BAD` token)
cannot express it.  So the framework is re-stated with the closure under `emit` restricted to tokens that are not
closing ones (`ClosedT`), and the `rs_…` / `rsA_…` lemmas are re-proved for it (`rt_…` / `rtA_…`: the same proofs, the
side condition `Tok.isClose t = false` is `rfl` at every `emit` of the engine).  Result:
`buildPreA_noClose : (∀ t ∈ s.trace, isClose t = false) → ∀ t ∈ (buildPreA key a s).2.trace, isClose t = false`.
-/
import LLBuild.Lemmas.Refine.Crash1

namespace LLBuild.Refine
open LLBuild.Engine LLBuild.Engine.DSL LLBuild.EngineImpl

/-- the tokens that close a build -/
def Tok.isClose : Tok → Bool
  | .DE => true
  | .R _ => true
  | .Z _ _ => true
  | _ => false

/-- a predicate on `(halted, trace)` closed under the recorder operations as the engine uses them BEFORE the end of
`build()`: `emit t` only for a token that does not close the build -/
structure ClosedT (R : Bool → List Tok → Prop) : Prop where
  emit : ∀ (t : Tok) (s : State), Tok.isClose t = false → R s.halted s.trace → R (emit t s).halted (emit t s).trace
  halt : ∀ (t : Tok) (s : State), Tok.isBad t = true → R s.halted s.trace → R (halt t s).halted (halt t s).trace
  doCancel : ∀ (s : State), R s.halted s.trace → R (doCancel s).halted (doCancel s).trace

section PreserveT
variable {R : Bool → List Tok → Prop} (hR : ClosedT R)
include hR

local notation "⟪" s "⟫" => R (State.halted s) (State.trace s)

theorem rt_modScanRecord (k : Key) (f : RuleScanRecord → RuleScanRecord) (s : State) (h : ⟪s⟫) :
    ⟪modScanRecord k f s⟫ := by
  unfold modScanRecord
  split
  · exact h
  · exact hR.halt _ _ rfl h

theorem rt_getRuleInfoForKey (k : Key) (s : State) (h : ⟪s⟫) : ⟪getRuleInfoForKey k s⟫ := by
  unfold getRuleInfoForKey
  split
  · exact h
  · dsimp only
    split
    · split
      · exact hR.emit _ _ rfl (hR.emit _ _ rfl h)
      · exact hR.emit _ _ rfl (hR.emit _ _ rfl h)
    · exact hR.emit _ _ rfl h

theorem rt_addTaskInputRequest (task key inputID : Nat) (oo su : Bool) (s : State) (h : ⟪s⟫) :
    ⟪addTaskInputRequest task key inputID oo su s⟫ := by
  unfold addTaskInputRequest
  split
  · exact hR.halt _ _ rfl h
  · exact rt_getRuleInfoForKey hR _ _ h

theorem rt_taskNeedsInput (task key inputID : Nat) (s : State) (h : ⟪s⟫) : ⟪taskNeedsInput task key inputID s⟫ := by
  unfold taskNeedsInput
  split
  · exact hR.emit _ _ rfl h
  · exact rt_addTaskInputRequest hR _ _ _ _ _ _ h

theorem rt_taskNeedsSingleUseInput (task key inputID : Nat) (s : State) (h : ⟪s⟫) :
    ⟪taskNeedsSingleUseInput task key inputID s⟫ := by
  unfold taskNeedsSingleUseInput
  split
  · exact hR.emit _ _ rfl h
  · exact rt_addTaskInputRequest hR _ _ _ _ _ _ h

theorem rt_taskMustFollow (task key : Nat) (s : State) (h : ⟪s⟫) : ⟪taskMustFollow task key s⟫ :=
  rt_addTaskInputRequest hR _ _ _ _ _ _ h

theorem rt_taskDiscoveredDependency (task key : Nat) (s : State) (h : ⟪s⟫) : ⟪taskDiscoveredDependency task key s⟫ := by
  unfold taskDiscoveredDependency
  split
  · exact hR.emit _ _ rfl h
  · exact h

theorem rt_taskIsComplete (task : Key) (v : Val) (fc : Bool) (s : State) (h : ⟪s⟫) : ⟪taskIsComplete task v fc s⟫ := by
  unfold taskIsComplete
  dsimp only
  split
  · exact hR.emit _ _ rfl h
  · exact h

theorem rt_issue (task : Key) : ∀ (l : List Req) (s : State), ⟪s⟫ → ⟪issue task l s⟫
  | [], s, h => h
  | q :: rest, s, h => by
    rw [issue]
    apply rt_issue task rest
    split
    · exact rt_taskNeedsInput hR _ _ _ _ h
    · split
      · exact rt_taskNeedsSingleUseInput hR _ _ _ _ h
      · exact rt_taskMustFollow hR _ _ _ h

theorem rt_taskStart (task : Key) (s : State) (h : ⟪s⟫) : ⟪taskStart task s⟫ :=
  rt_issue hR _ _ _ (hR.emit _ _ rfl h)

theorem rt_taskProvideValue (task : Key) (id : Nat) (key : Key) (v : Val) (s : State) (h : ⟪s⟫) :
    ⟪taskProvideValue task id key v s⟫ :=
  rt_issue hR _ _ _ (hR.emit _ _ rfl h)

theorem rt_taskComplete (task : Key) (s : State) (h : ⟪s⟫) : ⟪taskComplete task s⟫ :=
  rt_taskIsComplete hR _ _ _ _ (hR.emit _ _ rfl h)

theorem rt_reportDiscovered (task : Key) : ∀ (l : List Key) (s : State), ⟪s⟫ → ⟪reportDiscovered task l s⟫
  | [], s, h => h
  | d :: ds, s, h => by
    rw [reportDiscovered]
    exact rt_reportDiscovered task ds _ (rt_taskDiscoveredDependency hR _ _ _ h)

theorem rt_taskInputsAvailable (task : Key) (s : State) (h : ⟪s⟫) : ⟪taskInputsAvailable task s⟫ := by
  unfold taskInputsAvailable
  dsimp only
  have h1 := rt_reportDiscovered hR task (discKeys (specOf s.rules task) (s.task task).recv) _
    (hR.emit (.IA task (discKeys (specOf s.rules task) (s.task task).recv)) s rfl h)
  split
  · exact rt_taskComplete hR _ _ h1
  · exact h1

theorem rt_completeKey (k : Key) (s : State) (h : ⟪s⟫) : ⟪(completeKey k s).2⟫ := by
  unfold completeKey
  split
  · exact rt_taskComplete hR _ _ h
  · exact h

theorem rt_completeSmallest (s : State) (h : ⟪s⟫) : ⟪(completeSmallest s).2⟫ := by
  unfold completeSmallest
  split
  · exact h
  · exact rt_completeKey hR _ _ h

theorem rt_completeKeys : ∀ (l : List Key) (any : Bool) (s : State), ⟪s⟫ → ⟪(completeKeys l any s).2⟫
  | [], any, s, h => h
  | k :: ks, any, s, h => by
    rw [completeKeys]
    exact rt_completeKeys ks _ _ (rt_completeKey hR k s h)

theorem rt_hook (point : Nat) (s : State) (h : ⟪s⟫) : ⟪hook point s⟫ := by
  unfold hook
  split
  · exact rt_completeSmallest hR _ h
  · split
    next any s1 heq =>
      have h1 : ⟪s1⟫ := by
        refine of_eq_pair heq ?_
        split
        · exact h
        · split
          next any2 s2 heq2 =>
            have h2 : ⟪s2⟫ := of_eq_pair heq2 (rt_completeKeys hR _ _ _ h)
            dsimp only
            split
            · exact hR.doCancel _ h2
            · exact h2
      split
      · exact rt_completeSmallest hR _ h1
      · exact h1

/-! ### scanning and demanding -/

theorem rt_scanRule (k : Key) (s : State) (h : ⟪s⟫) : ⟪(scanRule k s).2⟫ := by
  unfold scanRule
  dsimp only
  repeat' split
  all_goals first
    | exact h
    | exact hR.emit _ _ rfl h
    | exact hR.emit _ _ rfl (hR.emit _ _ rfl h)
    | exact hR.emit _ _ rfl (hR.emit _ _ rfl (hR.emit _ _ rfl h))

theorem rt_demandRule (k : Key) (s : State) (h : ⟪s⟫) : ⟪(demandRule k s).2⟫ := by
  unfold demandRule
  dsimp only
  split
  · exact h
  · split
    · exact h
    · split
      · exact hR.emit _ _ rfl h
      · have h1 := rt_taskStart hR k _ (rs_modRule ((emit (.T k) s).setTask { forRuleInfo := k }) k
          (fun ri => { ri with state := .inProgressWaiting, inProgressInfo := .pendingTaskInfo,
                               result := { ri.result with deps := [] } }) (hR.emit (.T k) s rfl h))
        split <;> split <;> first | exact h1 | exact hR.emit _ _ rfl h1

theorem rt_finishScanRequest (k : Key) (st : StateKind) (s : State) (h : ⟪s⟫) : ⟪finishScanRequest k st s⟫ := by
  unfold finishScanRequest
  split
  · exact hR.halt _ _ rfl h
  · exact h

theorem rt_scanLoop : ∀ (fuel : Nat) (r : RuleScanRequest) (s : State), ⟪s⟫ → ⟪scanLoop fuel r s⟫
  | 0, r, s, h => by rw [scanLoop]; exact hR.halt _ _ rfl h
  | fuel + 1, r, s, h => by
    rw [scanLoop]
    dsimp only
    split
    · exact hR.halt _ _ rfl h
    · next request input s1 heq =>
      have h1 : ⟪s1⟫ := by
        split at heq
        · cases heq; exact h
        · split at heq
          · cases heq
          · cases heq; exact rt_getRuleInfoForKey hR _ _ h
      have h2 := rt_scanRule hR input s1 h1
      split
      · exact rt_modScanRecord hR _ _ _ h2
      · have h3 := rt_demandRule hR input _ h2
        split
        · exact h3
        · split
          · exact hR.emit _ _ rfl (rt_finishScanRequest hR _ _ _ h3)
          · split
            · exact rt_scanLoop fuel _ _ h3
            · exact rt_finishScanRequest hR _ _ _ h3

theorem rt_processRuleScanRequest (r : RuleScanRequest) (s : State) (h : ⟪s⟫) : ⟪processRuleScanRequest r s⟫ := by
  unfold processRuleScanRequest
  split
  · exact h
  · exact rt_scanLoop hR _ _ _ h

theorem rt_decrementTaskWaitCount (task : Key) (s : State) (h : ⟪s⟫) : ⟪decrementTaskWaitCount task s⟫ := by
  unfold decrementTaskWaitCount
  split
  · exact hR.halt _ _ rfl h
  · dsimp only
    split <;> exact h

theorem rt_processInputRequest (r : TaskInputRequest) (s : State) (h : ⟪s⟫) : ⟪processInputRequest r s⟫ := by
  unfold processInputRequest
  dsimp only
  have h2 := rt_scanRule hR r.inputRuleInfo s h
  split
  · exact rt_modScanRecord hR _ _ _ h2
  · have h3 := rt_demandRule hR r.inputRuleInfo _ h2
    split
    · exact h3
    · split <;> exact h3

theorem rt_finishedInputStep (task : Key) (r : TaskInputRequest) (s : State) (h : ⟪s⟫) : ⟪finishedInputStep task r s⟫ := by
  unfold finishedInputStep
  apply rt_decrementTaskWaitCount hR
  split
  · exact h
  · exact rt_taskProvideValue hR _ _ _ _ _ h

theorem rt_readyStep (task : Key) (s : State) (h : ⟪s⟫) : ⟪readyStep task s⟫ := by
  unfold readyStep
  exact rt_taskInputsAvailable hR task _ (rs_modRule s _ _ h)

theorem rt_pushDiscovered : ∀ (l : List Dep) (s : State), ⟪s⟫ → ⟪pushDiscovered l s⟫
  | [], s, h => h
  | d :: ds, s, h => by
    rw [pushDiscovered]
    exact rt_pushDiscovered ds _ (rt_getRuleInfoForKey hR d.key s h)

theorem rt_setRuleResult (k : Key) (res : Res) (s : State) (h : ⟪s⟫) : ⟪(setRuleResult k res s).2⟫ := by
  unfold setRuleResult
  dsimp only
  split <;> exact hR.emit _ _ rfl h

theorem rt_finishedTaskWrite (task : Key) (s : State) (h : ⟪s⟫) : ⟪(finishedTaskWrite task s).2⟫ := by
  unfold finishedTaskWrite
  dsimp only
  have h1 : ⟪emit (.S (s.task task).forRuleInfo 2)
      (s.modRule (s.task task).forRuleInfo (fun ri => setComplete s { ri with inProgressInfo := .null }))⟫ :=
    hR.emit _ _ rfl h
  have h2 := rt_pushDiscovered hR (s.task task).discoveredDependencies _
    (rs_modRule _ (s.task task).forRuleInfo
      (fun ri => { ri with result := { ri.result with deps := ri.result.deps ++ (s.task task).discoveredDependencies } }) h1)
  split
  · exact rt_setRuleResult hR _ _ _ h2
  · exact h2

theorem rt_breakCycleLoop : ∀ (l : List Key) (s : State), ⟪s⟫ → ⟪(breakCycleLoop l s).2⟫
  | [], s, h => h
  | k :: rest, s, h => by
    rw [breakCycleLoop.eq_def]
    dsimp only
    split
    · split
      · exact h
      · exact hR.emit _ _ rfl (rt_finishScanRequest hR _ _ _ h)
    · split
      · split
        · exact rt_breakCycleLoop _ s h
        · split
          · exact rt_breakCycleLoop _ s h
          · split <;> exact h
      · exact rt_breakCycleLoop rest s h

theorem rt_resolveCycle (key : Key) (s : State) (h : ⟪s⟫) : ⟪(resolveCycle key s).2⟫ := by
  unfold resolveCycle
  split
  · exact hR.halt _ _ rfl h
  · next cycleList _ =>
    have h1 : ⟪(breakCycle cycleList s).2⟫ := rt_breakCycleLoop hR _ s h
    dsimp only
    split
    · exact h1
    · exact hR.emit _ _ rfl h1

theorem rtA_asyncStep (it : SchedItem) (s : State) (h : ⟪s⟫) : ⟪asyncStep it s⟫ := by
  unfold asyncStep
  dsimp only
  have h1 := rt_completeKeys hR it.keys false s h
  split
  · exact hR.doCancel _ h1
  · exact h1

theorem rtA_asyncPoint (a : Async) (s : State) (h : ⟪s⟫) : ⟪(asyncPoint a s).2⟫ := by
  cases a with
  | nil => exact h
  | cons it rest => exact rtA_asyncStep hR it s h

theorem rtA_scanRequestsLoopA : ∀ (fuel : Nat) (w : Bool) (a : Async) (s : State), ⟪s⟫ → ⟪(scanRequestsLoopA fuel w a s).2.2⟫
  | 0, w, a, s, h => by rw [scanRequestsLoopA]; exact hR.halt _ _ rfl h
  | fuel + 1, w, a, s, h => by
    rw [scanRequestsLoopA]
    dsimp only
    have h1 := rtA_asyncPoint hR a s h
    split
    · exact h1
    · exact rtA_scanRequestsLoopA fuel _ _ _ (rt_processRuleScanRequest hR _ _ h1)

theorem rtA_inputRequestsLoopA : ∀ (fuel : Nat) (w : Bool) (a : Async) (s : State), ⟪s⟫ → ⟪(inputRequestsLoopA fuel w a s).2.2⟫
  | 0, w, a, s, h => by rw [inputRequestsLoopA]; exact hR.halt _ _ rfl h
  | fuel + 1, w, a, s, h => by
    rw [inputRequestsLoopA]
    dsimp only
    have h1 := rtA_asyncPoint hR a s h
    split
    · exact h1
    · exact rtA_inputRequestsLoopA fuel _ _ _ (rt_processInputRequest hR _ _ h1)

theorem rtA_finishedInputsLoopA : ∀ (fuel : Nat) (w : Bool) (a : Async) (s : State), ⟪s⟫ → ⟪(finishedInputsLoopA fuel w a s).2.2⟫
  | 0, w, a, s, h => by rw [finishedInputsLoopA]; exact hR.halt _ _ rfl h
  | fuel + 1, w, a, s, h => by
    rw [finishedInputsLoopA]
    dsimp only
    have h1 := rtA_asyncPoint hR a s h
    split
    · exact h1
    · split
      · exact hR.halt _ _ rfl h1
      · exact rtA_finishedInputsLoopA fuel _ _ _ (rt_finishedInputStep hR _ _ _ h1)

theorem rtA_readyTasksLoopA : ∀ (fuel : Nat) (w : Bool) (a : Async) (s : State), ⟪s⟫ → ⟪(readyTasksLoopA fuel w a s).2.2⟫
  | 0, w, a, s, h => by rw [readyTasksLoopA]; exact hR.halt _ _ rfl h
  | fuel + 1, w, a, s, h => by
    rw [readyTasksLoopA]
    dsimp only
    have h1 := rtA_asyncPoint hR a s h
    split
    · exact h1
    · exact rtA_readyTasksLoopA fuel _ _ _ (rt_readyStep hR _ _ h1)

theorem rtA_drainLoopA : ∀ (fuel : Nat) (a : Async) (s : State), ⟪s⟫ → ⟪(drainLoopA fuel a s).2⟫
  | 0, a, s, h => by rw [drainLoopA]; exact hR.halt _ _ rfl h
  | fuel + 1, a, s, h => by
    rw [drainLoopA]
    dsimp only
    have h1 := rt_hook hR 2 _ (rtA_asyncPoint hR a s h)
    split
    · exact h
    · split
      · exact hR.halt _ _ rfl h1
      · exact rtA_drainLoopA fuel _ _ h1

theorem rtA_cancelRemainingTasksA (a : Async) (s : State) (h : ⟪s⟫) : ⟪(cancelRemainingTasksA a s).2⟫ := by
  unfold cancelRemainingTasksA
  exact rsA_cancelTail _ (rtA_drainLoopA hR _ _ _ h)

theorem rtA_finishedTasksLoopA : ∀ (fuel : Nat) (w : Bool) (a : Async) (s : State), ⟪s⟫ →
    ⟪(finishedTasksLoopA fuel w a s).2.2.2⟫
  | 0, w, a, s, h => by rw [finishedTasksLoopA]; exact hR.halt _ _ rfl h
  | fuel + 1, w, a, s, h => by
    rw [finishedTasksLoopA]
    dsimp only
    have h0 := rtA_asyncPoint hR a s h
    split
    · exact h0
    · next task _ =>
      have h1 := rt_finishedTaskWrite hR task
        { (asyncPoint a s).2 with finishedTaskInfos := (asyncPoint a s).2.finishedTaskInfos.dropLast } h0
      split
      · exact rtA_cancelRemainingTasksA hR _ _ (hR.emit _ _ rfl h1)
      · exact rtA_finishedTasksLoopA fuel _ _ _ h1

theorem rtA_waitStep (s : State) (h : ⟪s⟫) : ⟪waitStep s⟫ := by
  unfold waitStep
  dsimp only
  split
  · exact hR.halt _ _ rfl (rt_hook hR 1 s h)
  · exact rt_hook hR 1 s h

theorem rtA_executeLoopA (key : Key) : ∀ (fuel : Nat) (a : Async) (s : State), ⟪s⟫ → ⟪(executeLoopA key fuel a s).2.2⟫
  | 0, a, s, h => hR.halt .FUEL s rfl h
  | fuel + 1, a, s, h => by
    rw [executeLoopA_succ]
    split
    · exact h
    · have h0 := rt_hook hR 0 _ (rtA_asyncPoint hR a s h)
      split
      · exact rtA_cancelRemainingTasksA hR _ _ h0
      · have h5 : ⟪(stA5 (asyncPoint a s).1 (hook 0 (asyncPoint a s).2)).2.2.2⟫ :=
          rtA_finishedTasksLoopA hR _ _ _ _ (rtA_readyTasksLoopA hR _ _ _ _ (rtA_finishedInputsLoopA hR _ _ _ _
            (rtA_inputRequestsLoopA hR _ _ _ _ (rtA_scanRequestsLoopA hR _ _ _ _ h0))))
        have hW : ∀ (w : Bool) (a' : Async) (x : State), ⟪x⟫ → ⟪(afterWaitA key fuel w a' x).2.2⟫ := by
          intro w a' x hx
          unfold afterWaitA
          split
          · exact rtA_executeLoopA key fuel _ _ hx
          · split
            · split
              · exact rtA_executeLoopA key fuel _ _ (rt_resolveCycle hR key x hx)
              · exact rtA_cancelRemainingTasksA hR _ _ (rt_resolveCycle hR key x hx)
            · exact hx
        unfold afterTasksA
        split
        · exact h5
        · have h6 := rtA_asyncPoint hR (stA5 (asyncPoint a s).1 (hook 0 (asyncPoint a s).2)).2.2.1 _ h5
          split
          · exact hW _ _ _ (rtA_waitStep hR _ h6)
          · exact hW _ _ _ h6

theorem rtA_executeTasksA (key : Key) (a : Async) (s : State) (h : ⟪s⟫) : ⟪(executeTasksA key a s).2.2⟫ := by
  unfold executeTasksA
  exact rtA_executeLoopA hR key _ _ _
    (rt_getRuleInfoForKey hR key { s with finishedInputRequests := [] } h)

theorem rtA_buildTail (key : Key) (r : Bool × State) (h : ⟪r.2⟫) : ⟪(buildTail key r).2⟫ := by
  unfold buildTail
  obtain ⟨ok, s1⟩ := r
  dsimp only at h ⊢
  generalize hs2 : (if s1.hasDB = true then _ else s1) = s2
  have h2 : ⟪s2⟫ := by
    rw [← hs2]
    split
    · exact hR.emit _ _ rfl h
    · exact h
  split
  · exact h2
  · exact rt_getRuleInfoForKey hR key s2 h2

theorem rtA_buildPreA (key : Key) (a : Async) (s : State) (h : ⟪s⟫) : ⟪(buildPreA key a s).2⟫ := by
  unfold buildPreA
  have h0 : ⟪(if s.hasDB = true then emit .DB s else s)⟫ := by
    split
    · exact hR.emit _ _ rfl h
    · exact h
  generalize (if s.hasDB = true then emit .DB s else s) = s0 at h0 ⊢
  dsimp only
  split
  · exact h0
  · unfold buildWorkA
    exact rtA_buildTail hR key _ (rtA_executeTasksA hR key a _ (hR.emit .QC s0 rfl h0))

end PreserveT

/-- no closing token in the trace -/
def NoClose (_ : Bool) (tr : List Tok) : Prop := ∀ t ∈ tr, Tok.isClose t = false

theorem closedT_noClose : ClosedT NoClose where
  emit := fun t s ht h => by
    by_cases hh : s.halted = true
    · rw [emit_halted t s hh]; exact h
    · have hh' : s.halted = false := by simpa using hh
      unfold NoClose at h ⊢
      rcases emit_spec t s hh' with e | ⟨_, e⟩ <;> rw [e] <;> intro x hx <;> simp only [List.mem_cons] at hx
      · rcases hx with hx | hx
        · subst hx; exact ht
        · exact h x hx
      · rcases hx with hx | hx | hx
        · subst hx; rfl
        · subst hx; exact ht
        · exact h x hx
  halt := fun t s ht h => by
    by_cases hh : s.halted = true
    · have : halt t s = s := by simp [EngineImpl.halt, hh]
      rw [this]; exact h
    · have hh' : s.halted = false := by simpa using hh
      rw [halt_spec t s hh']
      intro x hx
      simp only [List.mem_cons] at hx
      rcases hx with hx | hx
      · subst hx; cases x <;> first | rfl | cases ht
      · exact h x hx
  doCancel := fun s h => by
    by_cases hh : s.halted = true
    · have e : (doCancel s).trace = s.trace := by
        unfold EngineImpl.doCancel; by_cases hc : s.cancelIssued = true <;> simp [hc, hh]
      unfold NoClose; rw [e]; exact h
    · have hh' : s.halted = false := by simpa using hh
      rcases doCancel_spec s hh' with e | ⟨_, e⟩ <;> rw [e]
      · exact h
      · intro x hx
        simp only [List.mem_cons] at hx
        rcases hx with hx | hx
        · subst hx; rfl
        · exact h x hx

/-- **`build()` before its deferred `buildComplete` records no `DE`, `R`, `Z`** (for every asynchronous schedule) -/
theorem buildPreA_noClose (key : Key) (a : Async) (s : State) (h : ∀ t ∈ s.trace, Tok.isClose t = false) :
    ∀ t ∈ (buildPreA key a s).2.trace, Tok.isClose t = false :=
  rtA_buildPreA closedT_noClose key a s h

/-- the trace only grows -/
theorem closed_suffix (tr0 : List Tok) : Closed (fun _ tr => ∃ pre, tr = pre ++ tr0) where
  emit := fun t s _ h => by
    by_cases hh : s.halted = true
    · rw [emit_halted t s hh]; exact h
    · have hh' : s.halted = false := by simpa using hh
      obtain ⟨pre, hp⟩ := h
      rcases emit_spec t s hh' with e | ⟨_, e⟩ <;> rw [e]
      · exact ⟨t :: pre, by simp [hp]⟩
      · exact ⟨.X :: t :: pre, by simp [hp]⟩
  halt := fun t s _ h => by
    by_cases hh : s.halted = true
    · have : halt t s = s := by simp [EngineImpl.halt, hh]
      rw [this]; exact h
    · have hh' : s.halted = false := by simpa using hh
      obtain ⟨pre, hp⟩ := h
      rw [halt_spec t s hh']
      exact ⟨t :: pre, by simp [hp]⟩
  doCancel := fun s h => by
    by_cases hh : s.halted = true
    · have e : (doCancel s).trace = s.trace := by
        unfold EngineImpl.doCancel; by_cases hc : s.cancelIssued = true <;> simp [hc, hh]
      rw [e]; exact h
    · have hh' : s.halted = false := by simpa using hh
      obtain ⟨pre, hp⟩ := h
      rcases doCancel_spec s hh' with e | ⟨_, e⟩ <;> rw [e]
      · exact ⟨pre, hp⟩
      · exact ⟨.X :: pre, by simp [hp]⟩

/-- the trace of a build up to (excluding) `DE`: it starts with `B key` and contains no closing token -/
theorem buildPreA_trace (key cancelAt : Nat) (sched : List SchedItem) (a : Async) (s : State) :
    (∃ rest, (buildPreA key a (emit (.B key) (buildInit cancelAt sched s))).2.trace.reverse = .B key :: rest) ∧
    ∀ t ∈ (buildPreA key a (emit (.B key) (buildInit cancelAt sched s))).2.trace, Tok.isClose t = false := by
  have h0 : (emit (.B key) (buildInit cancelAt sched s)).trace = [.B key] ∨
      (emit (.B key) (buildInit cancelAt sched s)).trace = [.X, .B key] := by
    rcases emit_spec (.B key) (buildInit cancelAt sched s) rfl with e | ⟨_, e⟩ <;> rw [e]
    · left; rfl
    · right; rfl
  constructor
  · have hs : ∃ pre, (emit (.B key) (buildInit cancelAt sched s)).trace = pre ++ [.B key] := by
      rcases h0 with e | e <;> rw [e]
      · exact ⟨[], rfl⟩
      · exact ⟨[.X], rfl⟩
    obtain ⟨pre, hp⟩ := rsA_buildPreA (closed_suffix [.B key]) key a _ hs
    exact ⟨pre.reverse, by rw [hp]; simp⟩
  · apply buildPreA_noClose
    intro t ht
    rcases h0 with e | e <;> rw [e] at ht <;> simp at ht
    · subst ht; rfl
    · rcases ht with ht | ht <;> subst ht <;> rfl

end LLBuild.Refine
