/-
C06 "the same set of executed rules" ON THE PRINTED TRACE of the concrete engine.

`runBuildA_simX` (SchedXFinal.lean): every trace of the concrete engine passes the in-order guards.  So along the tokens
`B key :: rest` of a build the monitor state satisfies `XInv` (Lemmas/Engine/Exec2–3) for the snapshot taken when the build
started, and `ran` is the list of `T k` tokens; a build without `X`/`CY`/`ER` ends `DE ; R v ; Z`, where the success-shaped
`ret` certifies that the work loop ran dry; `XInv.executed_iff_mustRun` (Exec4) then says
`T k ∈ trace ↔ MustRun (program rules) (snapOf … m) key k` — the right-hand side does not mention the schedule.
-/
import LLBuild.Lemmas.Engine.Exec4
import LLBuild.Lemmas.Engine.DSLDet
import LLBuild.Lemmas.Refine.SchedXFinal

namespace LLBuild.Refine
open LLBuild.Engine LLBuild.Engine.DSL LLBuild.EngineImpl

/-- the key of a `T` (`Rule::createTask`) token -/
def Tok.tKey : Tok → Option Key
  | .T k => some k
  | _ => none

theorem mem_tKeys {toks : List Tok} {k : Key} : k ∈ toks.filterMap Tok.tKey ↔ Tok.T k ∈ toks := by
  rw [List.mem_filterMap]
  constructor
  · rintro ⟨t, ht, hk⟩
    cases t <;> simp only [Tok.tKey, Option.some.injEq] at hk <;> first | (subst hk; exact ht) | cases hk
  · intro h; exact ⟨_, h, rfl⟩

/-- the event of a token that does not close a build is an event of the middle of a build, or `buildStart` -/
theorem toEvent_midX {t : Tok} {e : Event} (h : t.toEvent? = some e) (hc : Tok.isClose t = false) :
    Event.isMidX e = true ∨ ∃ k, e = .buildStart k := by
  cases t with
  | S k n =>
    rcases n with _ | _ | n
    · simp only [Tok.toEvent?, Option.some.injEq] at h; subst h; left; rfl
    · simp only [Tok.toEvent?, Option.some.injEq] at h; subst h; left; rfl
    · simp [Tok.toEvent?] at h
  | B k => simp only [Tok.toEvent?, Option.some.injEq] at h; subst h; right; exact ⟨k, rfl⟩
  | DE => cases hc
  | R v => cases hc
  | Z a b => cases hc
  | _ => first
    | (simp only [Tok.toEvent?, Option.some.injEq] at h; subst h; left; rfl)
    | (simp [Tok.toEvent?] at h)

theorem toEvent_create {t : Tok} {e : Event} (h : t.toEvent? = some e) : Event.cKey e = Tok.tKey t := by
  cases t with
  | S k n =>
    rcases n with _ | _ | n
    · simp only [Tok.toEvent?, Option.some.injEq] at h; subst h; rfl
    · simp only [Tok.toEvent?, Option.some.injEq] at h; subst h; rfl
    · simp [Tok.toEvent?] at h
  | _ => first
    | (simp only [Tok.toEvent?, Option.some.injEq] at h; subst h; rfl)
    | (simp [Tok.toEvent?] at h)

/-- **one token of the middle of a build**: the invariants and the executed list -/
theorem tstepX_xinv {P : Program} {σ : Snap} {root : Key} {ms ms' : MSt} {t : Tok} (h : tstepX P ms t = some ms')
    (hc : Tok.isClose t = false) (hx : XInv P σ root ms.m) (h2 : Inv2 ms.m) :
    XInv P σ root ms'.m ∧ Inv2 ms'.m ∧ ms'.m.ran = (Tok.tKey t).toList ++ ms.m.ran := by
  obtain ⟨hts, hok⟩ := tstepX_tstep h
  rcases tstep_event hts with ⟨⟨k, e⟩, hm⟩ | ⟨e, he | ⟨k, row, ht, he⟩, hst⟩
  · subst e; rw [hm]; exact ⟨hx, h2, rfl⟩
  · have hokE : evOkX ms.m e = true := by
      unfold tokOkX at hok; rw [he] at hok; exact hok
    rcases toEvent_midX he hc with hmid | ⟨k, hk⟩
    · refine ⟨step_xinv hx h2 hst hokE hmid, h2.preserved hst, ?_⟩
      rw [step_ranX hst hmid, toEvent_create he]
    · subst hk
      simp [step, hx.target] at hst
  · subst ht; subst he
    exact ⟨step_xinv hx h2 hst rfl rfl, h2.preserved hst, step_ranX hst rfl⟩

theorem trunX_xinv {P : Program} {σ : Snap} {root : Key} : ∀ (toks : List Tok) (ms ms' : MSt), trunX P ms toks = some ms' →
    (∀ t ∈ toks, Tok.isClose t = false) → XInv P σ root ms.m → Inv2 ms.m →
    XInv P σ root ms'.m ∧ Inv2 ms'.m ∧ ms'.m.ran = (toks.filterMap Tok.tKey).reverse ++ ms.m.ran
  | [], ms, ms', h, _, hx, h2 => by
    simp only [trunX, Option.some.injEq] at h; subst h; exact ⟨hx, h2, rfl⟩
  | t :: ts, ms, ms', h, hc, hx, h2 => by
    simp only [trunX] at h
    cases hs : tstepX P ms t with
    | none => rw [hs] at h; simp at h
    | some ms1 =>
      rw [hs] at h; simp only [Option.bind_some] at h
      obtain ⟨a1, a2, a3⟩ := tstepX_xinv hs (hc t List.mem_cons_self) hx h2
      obtain ⟨b1, b2, b3⟩ := trunX_xinv ts ms1 ms' h (fun t' ht' => hc t' (List.mem_cons_of_mem _ ht')) a1 a2
      refine ⟨b1, b2, ?_⟩
      rw [b3, a3]
      cases hk : Tok.tKey t with
      | none => simp [hk]
      | some x => simp [hk]

/-- the first token: `B key` -/
theorem tstepX_B_xinv {P : Program} {m : Engine.St} {key : Key} {ms1 : MSt} (h : tstepX P ⟨m, none⟩ (.B key) = some ms1)
    (h2 : Inv2 m) : XInv P (snapOf P m) key ms1.m ∧ Inv2 ms1.m ∧ ms1.m.ran = [] := by
  have hst := tstep_ev_inv (tstepX_tstep h).1 (e := .buildStart key) rfl
  refine ⟨XInv.start hst, h2.preserved hst, ?_⟩
  have hst' : step P m (.buildStart key) = some ms1.m := hst
  simp only [step] at hst'
  split at hst'
  · cases ms1; simp only [Option.some.injEq] at hst'; subst hst'; rfl
  · cases hst'

/-- `ret` with the flags down certifies that the work loop ran dry -/
theorem step_ret_dry {P : Program} {m m' : Engine.St} {v : Val} (h : step P m (.ret v) = some m') (hf : NoFlags m) :
    ∃ root, m.target = some root ∧ m.status root = .done ∧ m.pending = [] ∧ ∀ k ∈ m.ran, inflight m k = false := by
  obtain ⟨h1, h2, h3⟩ := hf
  simp only [step] at h
  split at h
  · cases h
  · rename_i root htgt
    split at h
    · cases h
    · split at h
      · rename_i hc
        simp only [Bool.and_eq_true, List.all_eq_true, Bool.not_eq_eq_eq_not, Bool.not_true] at hc
        refine ⟨root, htgt, by simpa [isDone] using hc.1.2.1.1.1, List.isEmpty_iff.1 hc.1.2.1.2, hc.1.2.2⟩
      · split at h
        · rename_i hc
          simp [h1, h2, h3] at hc
        · cases h

/-- **The executed set of a successful build is the schedule-free reference set.**  From related states (`RelIdle`) with
the monitor in a reachable state (`Inv2`), a build of `key` — any hook schedule, any asynchronous schedule, any
cancellation point — whose trace contains no `X`/`CY`/`ER`: the rules for which `T k` (`Rule::createTask`) is printed
are exactly `MustRun (program rules) (snapOf (program rules) m) key`. -/
theorem build_executed_iff {rules : List RuleSpec} (hok : RulesOk rules) (hdet : DSL.det rules = true)
    {s : State} {m : Engine.St} (hr : RelIdle rules s m) (h2 : Inv2 m)
    (key cancelAt : Nat) (sched : List SchedItem) (a : Async) (hsize : workBound rules s key + 2 < scanFuel)
    (hnf : NoFail (runBuildA key cancelAt sched a s).trace.reverse) (k : Key) :
    Tok.T k ∈ (runBuildA key cancelAt sched a s).trace.reverse ↔
      MustRun (program rules) (snapOf (program rules) m) key k := by
  have hD : (program rules).Det := DSL.program_Det hdet
  have hloop := workLoopA_final rules hok
  have hnh := build_terminates_async hok hr key cancelAt sched a hsize
  obtain ⟨m', hrunX, _⟩ := runBuildA_simX hok hr key cancelAt sched a hnh
  obtain ⟨rest, v, n, htr, hnc, hnfr⟩ := runBuildA_trace_nofail hloop hr key cancelAt sched a hnh hnf
  rw [htr] at hrunX ⊢
  obtain ⟨msA, hA, hclose⟩ := trunX_prefix hrunX
  -- the middle of the build
  have hA' := hA
  simp only [trunX] at hA'
  cases hB : tstepX (program rules) ⟨m, none⟩ (.B key) with
  | none => rw [hB] at hA'; simp at hA'
  | some ms1 =>
    rw [hB] at hA'; simp only [Option.bind_some] at hA'
    obtain ⟨x1, i1, r1⟩ := tstepX_B_xinv hB h2
    obtain ⟨xA, iA, rA⟩ := trunX_xinv rest ms1 msA hA' hnc x1 i1
    rw [r1, List.append_nil] at rA
    -- the flags are down, `DE ; R v ; Z` follow
    have hfA := (trun_B_mid (trunX_trun _ _ _ hA) hnc).2.2.2 hnfr
    obtain ⟨msB, msC, hDE, hret, hfB, _, _, _, _⟩ := trun_close_noFlags (trunX_trun _ _ _ hclose) hfA
    have hDE' : tstep (program rules) msA .DE = some msB := by
      simp only [trun] at hDE
      cases hts : tstep (program rules) msA .DE with
      | none => rw [hts] at hDE; simp at hDE
      | some x => rw [hts] at hDE; simpa using hDE
    have hstDE := tstep_ev_inv hDE' (e := .dbEnd) rfl
    have xB := xinv_dbEnd xA hstDE
    have rB : msB.m.ran = msA.m.ran := step_ranX hstDE rfl
    obtain ⟨root, htgt, hroot, hpend, hquiet⟩ := step_ret_dry hret hfB
    rw [xB.target] at htgt
    cases htgt
    have hiff := xB.executed_iff_mustRun hD hroot hpend hquiet k
    rw [← hiff, rB, rA, List.mem_reverse, mem_tKeys]
    simp only [List.cons_append, List.mem_cons, List.mem_append, List.not_mem_nil, or_false]
    constructor
    · rintro (e | e | e | e | e)
      · cases e
      · exact e
      · cases e
      · cases e
      · cases e
    · intro e; exact Or.inr (Or.inl e)

end LLBuild.Refine
