/-
IM4 — free-running completion threads at item granularity: the ASSEMBLY for the asynchronous work loop
(`executeLoopA`, definitions in `Async0.lean`, design in notes/REFINE.md §9).
* §1 the recorder framework of `Halt.lean` (`Closed R`) for the `…A` functions: `rsA_…`; hence `HaltMono` for them and
  `BadInv` for `runBuildA`;
* §2 `…_nil`: with the empty schedule `executeLoopA`, `executeTasksA`, `buildPreA`, `runBuildA` are the model's functions;
* §3 one iteration of `executeLoopA`, stage by stage (`executeLoopA_succ`); the no-work facts;
* §4 an asynchronous step reports no error (`asyncPoint_inv`: `errSeen` unchanged), `successExit'`;
* §5 `workLoopA_final`: the statement of `WorkLoopSpec` for `executeLoopA`, for every schedule;
* §6 `executeLoopA_nohalt`: termination / no-stall, for every schedule.
-/
import LLBuild.Lemmas.Refine.AsyncStep
import LLBuild.Lemmas.Refine.AsyncReady
import LLBuild.Lemmas.Refine.AsyncScan
import LLBuild.Lemmas.Refine.AsyncInput
import LLBuild.Lemmas.Refine.AsyncFinInput
import LLBuild.Lemmas.Refine.AsyncFinTask
import LLBuild.Lemmas.Refine.AsyncExit

namespace LLBuild.Refine
open LLBuild.Engine LLBuild.Engine.DSL LLBuild.EngineImpl

/-! ## 1. the recorder under the asynchronous functions -/

section PreserveA
variable {R : Bool → List Tok → Prop} (hR : Closed R)
include hR

local notation "⟪" s "⟫" => R (State.halted s) (State.trace s)

theorem rsA_asyncStep (it : SchedItem) (s : State) (h : ⟪s⟫) : ⟪asyncStep it s⟫ := by
  unfold asyncStep
  dsimp only
  have h1 := rs_completeKeys hR it.keys false s h
  split
  · exact hR.doCancel _ h1
  · exact h1

theorem rsA_asyncPoint (a : Async) (s : State) (h : ⟪s⟫) : ⟪(asyncPoint a s).2⟫ := by
  cases a with
  | nil => exact h
  | cons it rest => exact rsA_asyncStep hR it s h

theorem rsA_scanRequestsLoopA : ∀ (fuel : Nat) (w : Bool) (a : Async) (s : State), ⟪s⟫ → ⟪(scanRequestsLoopA fuel w a s).2.2⟫
  | 0, w, a, s, h => by rw [scanRequestsLoopA]; exact hR.halt _ _ rfl h
  | fuel + 1, w, a, s, h => by
    rw [scanRequestsLoopA]
    dsimp only
    have h1 := rsA_asyncPoint hR a s h
    split
    · exact h1
    · exact rsA_scanRequestsLoopA fuel _ _ _ (rs_processRuleScanRequest hR _ _ h1)

theorem rsA_inputRequestsLoopA : ∀ (fuel : Nat) (w : Bool) (a : Async) (s : State), ⟪s⟫ → ⟪(inputRequestsLoopA fuel w a s).2.2⟫
  | 0, w, a, s, h => by rw [inputRequestsLoopA]; exact hR.halt _ _ rfl h
  | fuel + 1, w, a, s, h => by
    rw [inputRequestsLoopA]
    dsimp only
    have h1 := rsA_asyncPoint hR a s h
    split
    · exact h1
    · exact rsA_inputRequestsLoopA fuel _ _ _ (rs_processInputRequest hR _ _ h1)

theorem rsA_finishedInputsLoopA : ∀ (fuel : Nat) (w : Bool) (a : Async) (s : State), ⟪s⟫ → ⟪(finishedInputsLoopA fuel w a s).2.2⟫
  | 0, w, a, s, h => by rw [finishedInputsLoopA]; exact hR.halt _ _ rfl h
  | fuel + 1, w, a, s, h => by
    rw [finishedInputsLoopA]
    dsimp only
    have h1 := rsA_asyncPoint hR a s h
    split
    · exact h1
    · split
      · exact hR.halt _ _ rfl h1
      · exact rsA_finishedInputsLoopA fuel _ _ _ (rs_finishedInputStep hR _ _ _ h1)

theorem rsA_readyTasksLoopA : ∀ (fuel : Nat) (w : Bool) (a : Async) (s : State), ⟪s⟫ → ⟪(readyTasksLoopA fuel w a s).2.2⟫
  | 0, w, a, s, h => by rw [readyTasksLoopA]; exact hR.halt _ _ rfl h
  | fuel + 1, w, a, s, h => by
    rw [readyTasksLoopA]
    dsimp only
    have h1 := rsA_asyncPoint hR a s h
    split
    · exact h1
    · exact rsA_readyTasksLoopA fuel _ _ _ (rs_readyStep hR _ _ h1)

theorem rsA_drainLoopA : ∀ (fuel : Nat) (a : Async) (s : State), ⟪s⟫ → ⟪(drainLoopA fuel a s).2⟫
  | 0, a, s, h => by rw [drainLoopA]; exact hR.halt _ _ rfl h
  | fuel + 1, a, s, h => by
    rw [drainLoopA]
    dsimp only
    have h1 := rs_hook hR 2 _ (rsA_asyncPoint hR a s h)
    split
    · exact h
    · split
      · exact hR.halt _ _ rfl h1
      · exact rsA_drainLoopA fuel _ _ h1

omit hR in
theorem rsA_cancelTail (s : State) (h : ⟪s⟫) : ⟪cancelTail s⟫ := by
  unfold cancelTail
  dsimp only
  apply rs_destroyTasks
  exact rs_cancelTasks _ _ h

theorem rsA_cancelRemainingTasksA (a : Async) (s : State) (h : ⟪s⟫) : ⟪(cancelRemainingTasksA a s).2⟫ := by
  unfold cancelRemainingTasksA
  exact rsA_cancelTail _ (rsA_drainLoopA hR _ _ _ h)

theorem rsA_finishedTasksLoopA : ∀ (fuel : Nat) (w : Bool) (a : Async) (s : State), ⟪s⟫ →
    ⟪(finishedTasksLoopA fuel w a s).2.2.2⟫
  | 0, w, a, s, h => by rw [finishedTasksLoopA]; exact hR.halt _ _ rfl h
  | fuel + 1, w, a, s, h => by
    rw [finishedTasksLoopA]
    dsimp only
    have h0 := rsA_asyncPoint hR a s h
    split
    · exact h0
    · next task _ =>
      have h1 := rs_finishedTaskWrite hR task
        { (asyncPoint a s).2 with finishedTaskInfos := (asyncPoint a s).2.finishedTaskInfos.dropLast } h0
      split
      · exact rsA_cancelRemainingTasksA hR _ _ (hR.emit _ _ rfl h1)
      · exact rsA_finishedTasksLoopA fuel _ _ _ h1

end PreserveA

theorem haltMono_asyncPointA (a : Async) : HaltMono (fun s => (asyncPoint a s).2) :=
  haltMono_of (fun hR => rsA_asyncPoint hR a)
theorem haltMono_scanA (fuel : Nat) (w : Bool) (a : Async) : HaltMono (fun s => (scanRequestsLoopA fuel w a s).2.2) :=
  haltMono_of (fun hR => rsA_scanRequestsLoopA hR fuel w a)
theorem haltMono_inputA (fuel : Nat) (w : Bool) (a : Async) : HaltMono (fun s => (inputRequestsLoopA fuel w a s).2.2) :=
  haltMono_of (fun hR => rsA_inputRequestsLoopA hR fuel w a)
theorem haltMono_finInputA (fuel : Nat) (w : Bool) (a : Async) : HaltMono (fun s => (finishedInputsLoopA fuel w a s).2.2) :=
  haltMono_of (fun hR => rsA_finishedInputsLoopA hR fuel w a)
theorem haltMono_readyA (fuel : Nat) (w : Bool) (a : Async) : HaltMono (fun s => (readyTasksLoopA fuel w a s).2.2) :=
  haltMono_of (fun hR => rsA_readyTasksLoopA hR fuel w a)
theorem haltMono_finTasksA (fuel : Nat) (w : Bool) (a : Async) : HaltMono (fun s => (finishedTasksLoopA fuel w a s).2.2.2) :=
  haltMono_of (fun hR => rsA_finishedTasksLoopA hR fuel w a)
theorem haltMono_cancelA (a : Async) : HaltMono (fun s => (cancelRemainingTasksA a s).2) :=
  haltMono_of (fun hR => rsA_cancelRemainingTasksA hR a)

/-! ## 3a. one iteration of `executeLoopA`, stage by stage -/

def stA1 (a : Async) (s : State) : Bool × Async × State := scanRequestsLoopA loopFuel false a s
def stA2 (a : Async) (s : State) : Bool × Async × State :=
  inputRequestsLoopA loopFuel (stA1 a s).1 (stA1 a s).2.1 (stA1 a s).2.2
def stA3 (a : Async) (s : State) : Bool × Async × State :=
  finishedInputsLoopA loopFuel (stA2 a s).1 (stA2 a s).2.1 (stA2 a s).2.2
def stA4 (a : Async) (s : State) : Bool × Async × State :=
  readyTasksLoopA loopFuel (stA3 a s).1 (stA3 a s).2.1 (stA3 a s).2.2
def stA5 (a : Async) (s : State) : Bool × Bool × Async × State :=
  finishedTasksLoopA loopFuel (stA4 a s).1 (stA4 a s).2.1 (stA4 a s).2.2

/-- the end of an iteration, from the flag, the schedule and the state after the wait branch -/
def afterWaitA (key : Key) (fuel : Nat) (w : Bool) (a : Async) (s : State) : Bool × Async × State :=
  if w then executeLoopA key fuel a s else
  if !s.taskInfos.isEmpty || s.numRulesBeingScanned != 0 || !isComplete s (s.rule key) then
    if (resolveCycle key s).1 then executeLoopA key fuel a (resolveCycle key s).2
    else (false, (cancelRemainingTasksA a (resolveCycle key s).2).1, (cancelRemainingTasksA a (resolveCycle key s).2).2)
  else (true, a, s)

/-- the end of an iteration, from the result of `finishedTasksLoopA`: the item boundary before the wait check -/
def afterTasksA (key : Key) (fuel : Nat) (r : Bool × Bool × Async × State) : Bool × Async × State :=
  if r.1 then (false, r.2.2.1, r.2.2.2) else
  if !r.2.1 && (asyncPoint r.2.2.1 r.2.2.2).2.numOutstandingUnfinishedTasks != 0 then
    afterWaitA key fuel true (asyncPoint r.2.2.1 r.2.2.2).1 (waitStep (asyncPoint r.2.2.1 r.2.2.2).2)
  else afterWaitA key fuel r.2.1 (asyncPoint r.2.2.1 r.2.2.2).1 (asyncPoint r.2.2.1 r.2.2.2).2

theorem executeLoopA_zero (key : Key) (a : Async) (s : State) : executeLoopA key 0 a s = (false, a, halt .FUEL s) := rfl

theorem executeLoopA_succ (key : Key) (fuel : Nat) (a : Async) (s : State) :
    executeLoopA key (fuel + 1) a s =
      if s.halted then (false, a, s) else
      if (hook 0 (asyncPoint a s).2).buildCancelled then
        (false, (cancelRemainingTasksA (asyncPoint a s).1 (hook 0 (asyncPoint a s).2)).1,
          (cancelRemainingTasksA (asyncPoint a s).1 (hook 0 (asyncPoint a s).2)).2)
      else afterTasksA key fuel (stA5 (asyncPoint a s).1 (hook 0 (asyncPoint a s).2)) := by
  show (if s.halted then (false, a, s) else _) = _
  by_cases hh : s.halted = true
  · simp only [hh, if_true]
  · simp only [hh, Bool.false_eq_true, if_false]
    by_cases hc : (hook 0 (asyncPoint a s).2).buildCancelled = true
    · simp only [hc, if_true]
    · simp only [hc, Bool.false_eq_true, if_false]
      unfold afterTasksA stA5 stA4 stA3 stA2 stA1
      generalize finishedTasksLoopA loopFuel _ _ _ = r5
      obtain ⟨f5, w5, a5, s5⟩ := r5
      simp only []
      by_cases hf : f5 = true
      · simp only [hf, if_true]
      · simp only [hf, Bool.false_eq_true, if_false]
        by_cases hw : (!w5 && (asyncPoint a5 s5).2.numOutstandingUnfinishedTasks != 0) = true
        · simp only [hw, if_true, afterWaitA, waitStep]
        · simp only [hw, Bool.false_eq_true, if_false, afterWaitA]

section PreserveA2
variable {R : Bool → List Tok → Prop} (hR : Closed R)
include hR

local notation "⟪" s "⟫" => R (State.halted s) (State.trace s)

theorem rsA_waitStep (s : State) (h : ⟪s⟫) : ⟪waitStep s⟫ := by
  unfold waitStep
  dsimp only
  split
  · exact hR.halt _ _ rfl (rs_hook hR 1 s h)
  · exact rs_hook hR 1 s h

theorem rsA_executeLoopA (key : Key) : ∀ (fuel : Nat) (a : Async) (s : State), ⟪s⟫ → ⟪(executeLoopA key fuel a s).2.2⟫
  | 0, a, s, h => hR.halt .FUEL s rfl h
  | fuel + 1, a, s, h => by
    rw [executeLoopA_succ]
    split
    · exact h
    · have h0 := rs_hook hR 0 _ (rsA_asyncPoint hR a s h)
      split
      · exact rsA_cancelRemainingTasksA hR _ _ h0
      · have h5 : ⟪(stA5 (asyncPoint a s).1 (hook 0 (asyncPoint a s).2)).2.2.2⟫ :=
          rsA_finishedTasksLoopA hR _ _ _ _ (rsA_readyTasksLoopA hR _ _ _ _ (rsA_finishedInputsLoopA hR _ _ _ _
            (rsA_inputRequestsLoopA hR _ _ _ _ (rsA_scanRequestsLoopA hR _ _ _ _ h0))))
        have hW : ∀ (w : Bool) (a' : Async) (x : State), ⟪x⟫ → ⟪(afterWaitA key fuel w a' x).2.2⟫ := by
          intro w a' x hx
          unfold afterWaitA
          split
          · exact rsA_executeLoopA key fuel _ _ hx
          · split
            · split
              · exact rsA_executeLoopA key fuel _ _ (rs_resolveCycle hR key x hx)
              · exact rsA_cancelRemainingTasksA hR _ _ (rs_resolveCycle hR key x hx)
            · exact hx
        unfold afterTasksA
        split
        · exact h5
        · have h6 := rsA_asyncPoint hR (stA5 (asyncPoint a s).1 (hook 0 (asyncPoint a s).2)).2.2.1 _ h5
          split
          · exact hW _ _ _ (rsA_waitStep hR _ h6)
          · exact hW _ _ _ h6

theorem rsA_executeTasksA (key : Key) (a : Async) (s : State) (h : ⟪s⟫) : ⟪(executeTasksA key a s).2.2⟫ := by
  unfold executeTasksA
  exact rsA_executeLoopA hR key _ _ _
    (rs_getRuleInfoForKey hR key { s with finishedInputRequests := [] } h)

theorem rsA_buildTail (key : Key) (r : Bool × State) (h : ⟪r.2⟫) : ⟪(buildTail key r).2⟫ := by
  unfold buildTail
  obtain ⟨ok, s1⟩ := r
  dsimp only at h ⊢
  generalize hs2 : (if s1.hasDB = true then _ else s1) = s2
  have h2 : ⟪s2⟫ := by
    rw [← hs2]
    split
    · exact hR.emit _ _ rfl h
    · exact h
  split
  · exact h2
  · exact rs_getRuleInfoForKey hR key s2 h2

theorem rsA_buildPreA (key : Key) (a : Async) (s : State) (h : ⟪s⟫) : ⟪(buildPreA key a s).2⟫ := by
  unfold buildPreA
  have h0 : ⟪(if s.hasDB = true then emit .DB s else s)⟫ := by
    split
    · exact hR.emit _ _ rfl h
    · exact h
  generalize (if s.hasDB = true then emit .DB s else s) = s0 at h0 ⊢
  dsimp only
  split
  · exact h0
  · unfold buildWorkA
    exact rsA_buildTail hR key _ (rsA_executeTasksA hR key a _ (hR.emit .QC s0 rfl h0))

/-- `runBuildA` from a state whose recorder has been reset -/
theorem rsA_runBuildA (key cancelAt : Nat) (sched : List SchedItem) (a : Async) (s : State) (h : R false []) :
    ⟪runBuildA key cancelAt sched a s⟫ := by
  unfold runBuildA closeOf finishDB
  dsimp only
  apply hR.emit _ _ rfl
  apply hR.emit _ _ rfl
  have hp := rsA_buildPreA hR key a (emit (.B key) (buildInit cancelAt sched s)) (hR.emit _ _ rfl h)
  split
  · exact hR.emit _ _ rfl hp
  · exact hp

end PreserveA2

theorem haltMono_executeLoopA (key : Key) (fuel : Nat) (a : Async) : HaltMono (fun s => (executeLoopA key fuel a s).2.2) :=
  haltMono_of (fun hR => rsA_executeLoopA hR key fuel a)

/-- `halted` ⇔ the trace of the asynchronous build contains `FUEL` / `BAD _` -/
theorem runBuildA_badInv (key cancelAt : Nat) (sched : List SchedItem) (a : Async) (s : State) :
    BadInv (runBuildA key cancelAt sched a s).halted (runBuildA key cancelAt sched a s).trace :=
  rsA_runBuildA closed_inv key cancelAt sched a s (by simp [BadInv])

theorem halted_iff_bad_async (key cancelAt : Nat) (sched : List SchedItem) (a : Async) (s : State) :
    (runBuildA key cancelAt sched a s).halted = false ↔ NoBad (runBuildA key cancelAt sched a s).trace := by
  have h := runBuildA_badInv key cancelAt sched a s
  unfold BadInv at h
  unfold NoBad
  constructor
  · intro hh t ht
    cases hb : Tok.isBad t with
    | false => rfl
    | true => rw [h.2 ⟨t, ht, hb⟩] at hh; cases hh
  · intro hn
    cases hh : (runBuildA key cancelAt sched a s).halted with
    | false => rfl
    | true =>
      obtain ⟨t, ht, hb⟩ := h.1 hh
      rw [hn t ht] at hb; cases hb

/-! ## 2. the empty schedule -/

theorem executeLoopA_nil (key : Key) : ∀ (fuel : Nat) (s : State),
    executeLoopA key fuel [] s = ((executeLoop key fuel s).1, [], (executeLoop key fuel s).2)
  | 0, s => rfl
  | fuel + 1, s => by
    rw [executeLoopA_succ, executeLoop_succ]
    have hp : ∀ x : State, asyncPoint [] x = ([], x) := fun _ => rfl
    by_cases hh : s.halted = true
    · simp only [hh, if_true]
    · simp only [hh, Bool.false_eq_true, if_false, hp]
      by_cases hc : (hook 0 s).buildCancelled = true
      · simp only [hc, if_true, cancelRemainingTasksA_nil]
      · simp only [hc, Bool.false_eq_true, if_false]
        have e1 : stA1 [] (hook 0 s) = ((st1 (hook 0 s)).1, [], (st1 (hook 0 s)).2) := by
          unfold stA1 st1; exact scanRequestsLoopA_nil _ _ _
        have e2 : stA2 [] (hook 0 s) = ((st2 (hook 0 s)).1, [], (st2 (hook 0 s)).2) := by
          unfold stA2 st2; rw [e1]; exact inputRequestsLoopA_nil _ _ _
        have e3 : stA3 [] (hook 0 s) = ((st3 (hook 0 s)).1, [], (st3 (hook 0 s)).2) := by
          unfold stA3 st3; rw [e2]; exact finishedInputsLoopA_nil _ _ _
        have e4 : stA4 [] (hook 0 s) = ((st4 (hook 0 s)).1, [], (st4 (hook 0 s)).2) := by
          unfold stA4 st4; rw [e3]; exact readyTasksLoopA_nil _ _ _
        have e5 : stA5 [] (hook 0 s) =
            ((st5 (hook 0 s)).1, (st5 (hook 0 s)).2.1, [], (st5 (hook 0 s)).2.2) := by
          unfold stA5 st5; rw [e4]; exact finishedTasksLoopA_nil _ _ _
        rw [e5]
        have hW : ∀ (w : Bool) (x : State), afterWaitA key fuel w [] x =
            ((afterWait key fuel w x).1, [], (afterWait key fuel w x).2) := by
          intro w x
          unfold afterWaitA afterWait
          split
          · exact executeLoopA_nil key fuel x
          · split
            · split
              · exact executeLoopA_nil key fuel _
              · rw [cancelRemainingTasksA_nil]
            · rfl
        unfold afterTasksA afterTasks
        simp only [hp]
        split
        · rfl
        · split
          · exact hW _ _
          · exact hW _ _

theorem executeTasksA_nil (key : Key) (s : State) :
    executeTasksA key [] s = ((executeTasks key s).1, [], (executeTasks key s).2) := by
  unfold executeTasksA executeTasks
  exact executeLoopA_nil key _ _

theorem buildPreA_nil (key : Key) (s : State) : buildPreA key [] s = buildPre key s := by
  unfold buildPreA buildPre buildWorkA buildWork
  simp only [executeTasksA_nil]

theorem runBuildA_nil (key cancelAt : Nat) (sched : List SchedItem) (s : State) :
    runBuildA key cancelAt sched [] s = runBuild key cancelAt sched s := by
  unfold runBuildA
  rw [buildPreA_nil, runBuild_eq0, build_eq]

/-! ## 3b. the `didWork` flags of the asynchronous loops -/

theorem scanA_true : ∀ (fuel : Nat) (a : Async) (s : State), (scanRequestsLoopA fuel true a s).1 = true
  | 0, _, _ => rfl
  | fuel + 1, a, s => by
    rw [scanRequestsLoopA]
    dsimp only
    split
    · rfl
    · exact scanA_true fuel _ _

theorem inputA_true : ∀ (fuel : Nat) (a : Async) (s : State), (inputRequestsLoopA fuel true a s).1 = true
  | 0, _, _ => rfl
  | fuel + 1, a, s => by
    rw [inputRequestsLoopA]
    dsimp only
    split
    · rfl
    · exact inputA_true fuel _ _

theorem finInputA_true : ∀ (fuel : Nat) (a : Async) (s : State), (finishedInputsLoopA fuel true a s).1 = true
  | 0, _, _ => rfl
  | fuel + 1, a, s => by
    rw [finishedInputsLoopA]
    dsimp only
    split
    · rfl
    · split
      · rfl
      · exact finInputA_true fuel _ _

theorem readyA_true : ∀ (fuel : Nat) (a : Async) (s : State), (readyTasksLoopA fuel true a s).1 = true
  | 0, _, _ => rfl
  | fuel + 1, a, s => by
    rw [readyTasksLoopA]
    dsimp only
    split
    · rfl
    · exact readyA_true fuel _ _

theorem finTasksA_true : ∀ (fuel : Nat) (a : Async) (s : State), (finishedTasksLoopA fuel true a s).2.1 = true
  | 0, _, _ => rfl
  | fuel + 1, a, s => by
    rw [finishedTasksLoopA]
    dsimp only
    split
    · rfl
    · split
      · rfl
      · exact finTasksA_true fuel _ _

/-- an asynchronous loop that reports "no work" was started with "no work so far", and did nothing but its first item
boundary, after which its queue was empty -/
theorem scanA_nowork (fuel : Nat) (w : Bool) (a : Async) (s : State)
    (hw : (scanRequestsLoopA fuel w a s).1 = false) (hh : (scanRequestsLoopA fuel w a s).2.2.halted = false) :
    w = false ∧ (scanRequestsLoopA fuel w a s).2 = asyncPoint a s ∧ (asyncPoint a s).2.ruleInfosToScan = [] := by
  cases w with
  | true => rw [scanA_true] at hw; cases hw
  | false =>
    refine ⟨rfl, ?_⟩
    cases fuel with
    | zero => rw [scanRequestsLoopA, halt_halted] at hh; cases hh
    | succ fuel =>
      rw [scanRequestsLoopA] at hw ⊢
      dsimp only at hw ⊢
      cases hq : (asyncPoint a s).2.ruleInfosToScan.getLast? with
      | none => exact ⟨rfl, List.getLast?_eq_none_iff.mp hq⟩
      | some r => rw [hq] at hw; simp only [scanA_true] at hw; cases hw

theorem inputA_nowork (fuel : Nat) (w : Bool) (a : Async) (s : State)
    (hw : (inputRequestsLoopA fuel w a s).1 = false) (hh : (inputRequestsLoopA fuel w a s).2.2.halted = false) :
    w = false ∧ (inputRequestsLoopA fuel w a s).2 = asyncPoint a s ∧ (asyncPoint a s).2.inputRequests = [] := by
  cases w with
  | true => rw [inputA_true] at hw; cases hw
  | false =>
    refine ⟨rfl, ?_⟩
    cases fuel with
    | zero => rw [inputRequestsLoopA, halt_halted] at hh; cases hh
    | succ fuel =>
      rw [inputRequestsLoopA] at hw ⊢
      dsimp only at hw ⊢
      cases hq : (asyncPoint a s).2.inputRequests with
      | nil => exact ⟨rfl, rfl⟩
      | cons r rest => rw [hq] at hw; simp only [inputA_true] at hw; cases hw

theorem finInputA_nowork (fuel : Nat) (w : Bool) (a : Async) (s : State)
    (hw : (finishedInputsLoopA fuel w a s).1 = false) (hh : (finishedInputsLoopA fuel w a s).2.2.halted = false) :
    w = false ∧ (finishedInputsLoopA fuel w a s).2 = asyncPoint a s ∧
      (asyncPoint a s).2.finishedInputRequests = [] := by
  cases w with
  | true => rw [finInputA_true] at hw; cases hw
  | false =>
    refine ⟨rfl, ?_⟩
    cases fuel with
    | zero => rw [finishedInputsLoopA, halt_halted] at hh; cases hh
    | succ fuel =>
      rw [finishedInputsLoopA] at hw ⊢
      dsimp only at hw ⊢
      cases hq : (asyncPoint a s).2.finishedInputRequests.getLast? with
      | none => exact ⟨rfl, List.getLast?_eq_none_iff.mp hq⟩
      | some r =>
        rw [hq] at hw
        cases ht : r.taskInfo with
        | none => simp only [ht] at hw; cases hw
        | some task => simp only [ht, finInputA_true] at hw; cases hw

theorem readyA_nowork (fuel : Nat) (w : Bool) (a : Async) (s : State)
    (hw : (readyTasksLoopA fuel w a s).1 = false) (hh : (readyTasksLoopA fuel w a s).2.2.halted = false) :
    w = false ∧ (readyTasksLoopA fuel w a s).2 = asyncPoint a s ∧ (asyncPoint a s).2.readyTaskInfos = [] := by
  cases w with
  | true => rw [readyA_true] at hw; cases hw
  | false =>
    refine ⟨rfl, ?_⟩
    cases fuel with
    | zero => rw [readyTasksLoopA, halt_halted] at hh; cases hh
    | succ fuel =>
      rw [readyTasksLoopA] at hw ⊢
      dsimp only at hw ⊢
      cases hq : (asyncPoint a s).2.readyTaskInfos with
      | nil => exact ⟨rfl, rfl⟩
      | cons r rest => rw [hq] at hw; simp only [readyA_true] at hw; cases hw

theorem finTasksA_nowork (fuel : Nat) (w : Bool) (a : Async) (s : State)
    (hw : (finishedTasksLoopA fuel w a s).2.1 = false) (hh : (finishedTasksLoopA fuel w a s).2.2.2.halted = false) :
    w = false ∧ (finishedTasksLoopA fuel w a s).2.2 = asyncPoint a s ∧
      (asyncPoint a s).2.finishedTaskInfos = [] ∧ (finishedTasksLoopA fuel w a s).1 = false := by
  cases w with
  | true => rw [finTasksA_true] at hw; cases hw
  | false =>
    refine ⟨rfl, ?_⟩
    cases fuel with
    | zero => rw [finishedTasksLoopA, halt_halted] at hh; cases hh
    | succ fuel =>
      rw [finishedTasksLoopA] at hw ⊢
      dsimp only at hw ⊢
      cases hq : (asyncPoint a s).2.finishedTaskInfos.getLast? with
      | none => exact ⟨rfl, List.getLast?_eq_none_iff.mp hq, rfl⟩
      | some task =>
        rw [hq] at hw
        dsimp only at hw
        split at hw
        · cases hw
        · rw [finTasksA_true] at hw; cases hw

/-- `n` item boundaries in a row -/
def apN : Nat → Async → State → Async × State
  | 0, a, s => (a, s)
  | n + 1, a, s => asyncPoint (apN n a s).1 (apN n a s).2

/-- what an item boundary leaves alone (from `asyncStepFrame`) -/
theorem asyncPoint_frame (a : Async) (s : State) :
    (asyncPoint a s).2.ruleInfosToScan = s.ruleInfosToScan ∧ (asyncPoint a s).2.inputRequests = s.inputRequests ∧
    (asyncPoint a s).2.finishedInputRequests = s.finishedInputRequests ∧
    (asyncPoint a s).2.readyTaskInfos = s.readyTaskInfos ∧
    (asyncPoint a s).2.numOutstandingUnfinishedTasks = s.numOutstandingUnfinishedTasks := by
  cases a with
  | nil => exact ⟨rfl, rfl, rfl, rfl, rfl⟩
  | cons it rest =>
    obtain ⟨h1, h2, h3, h4, h5, _⟩ := asyncStepFrame it s
    exact ⟨h1, h2, h3, h4, h5⟩

theorem apN_frame : ∀ (n : Nat) (a : Async) (s : State),
    (apN n a s).2.ruleInfosToScan = s.ruleInfosToScan ∧ (apN n a s).2.inputRequests = s.inputRequests ∧
    (apN n a s).2.finishedInputRequests = s.finishedInputRequests ∧
    (apN n a s).2.readyTaskInfos = s.readyTaskInfos ∧
    (apN n a s).2.numOutstandingUnfinishedTasks = s.numOutstandingUnfinishedTasks
  | 0, _, _ => ⟨rfl, rfl, rfl, rfl, rfl⟩
  | n + 1, a, s => by
    obtain ⟨h1, h2, h3, h4, h5⟩ := apN_frame n a s
    obtain ⟨g1, g2, g3, g4, g5⟩ := asyncPoint_frame (apN n a s).1 (apN n a s).2
    exact ⟨g1.trans h1, g2.trans h2, g3.trans h3, g4.trans h4, g5.trans h5⟩

theorem apN_add : ∀ (n m : Nat) (a : Async) (s : State), apN (m + n) a s = apN n (apN m a s).1 (apN m a s).2
  | 0, _, _, _ => rfl
  | n + 1, m, a, s => by
    show asyncPoint (apN (m + n) a s).1 (apN (m + n) a s).2 = _
    rw [apN_add n m a s]
    rfl

/-- an iteration that did no work consisted of five item boundaries, after which the first four queues are empty and
so is the queue of finished tasks -/
theorem noworkA_all (a : Async) (s : State) (hw : (stA5 a s).2.1 = false)
    (h1 : (stA1 a s).2.2.halted = false) (h2 : (stA2 a s).2.2.halted = false) (h3 : (stA3 a s).2.2.halted = false)
    (h4 : (stA4 a s).2.2.halted = false) (h5 : (stA5 a s).2.2.2.halted = false) :
    (stA5 a s).2.2 = apN 5 a s ∧ (apN 5 a s).2.ruleInfosToScan = [] ∧ (apN 5 a s).2.inputRequests = [] ∧
      (apN 5 a s).2.finishedInputRequests = [] ∧ (apN 5 a s).2.readyTaskInfos = [] ∧
      (apN 5 a s).2.finishedTaskInfos = [] ∧ (stA5 a s).1 = false := by
  obtain ⟨w4, e5, q5, hfl⟩ := finTasksA_nowork loopFuel (stA4 a s).1 (stA4 a s).2.1 (stA4 a s).2.2 hw h5
  obtain ⟨w3, e4, q4⟩ := readyA_nowork loopFuel (stA3 a s).1 (stA3 a s).2.1 (stA3 a s).2.2 w4 h4
  obtain ⟨w2, e3, q3⟩ := finInputA_nowork loopFuel (stA2 a s).1 (stA2 a s).2.1 (stA2 a s).2.2 w3 h3
  obtain ⟨w1, e2, q2⟩ := inputA_nowork loopFuel (stA1 a s).1 (stA1 a s).2.1 (stA1 a s).2.2 w2 h2
  obtain ⟨-, e1, q1⟩ := scanA_nowork loopFuel false a s w1 h1
  have e1' : (stA1 a s).2 = apN 1 a s := e1
  have e2' : (stA2 a s).2 = apN 2 a s := by
    have : (stA2 a s).2 = asyncPoint (stA1 a s).2.1 (stA1 a s).2.2 := e2
    rw [this, e1']; rfl
  have e3' : (stA3 a s).2 = apN 3 a s := by
    have : (stA3 a s).2 = asyncPoint (stA2 a s).2.1 (stA2 a s).2.2 := e3
    rw [this, e2']; rfl
  have e4' : (stA4 a s).2 = apN 4 a s := by
    have : (stA4 a s).2 = asyncPoint (stA3 a s).2.1 (stA3 a s).2.2 := e4
    rw [this, e3']; rfl
  have e5' : (stA5 a s).2.2 = apN 5 a s := by
    have : (stA5 a s).2.2 = asyncPoint (stA4 a s).2.1 (stA4 a s).2.2 := e5
    rw [this, e4']; rfl
  have q1' : (apN 1 a s).2.ruleInfosToScan = [] := q1
  have q2' : (apN 2 a s).2.inputRequests = [] := by
    have : (asyncPoint (stA1 a s).2.1 (stA1 a s).2.2).2.inputRequests = [] := q2
    rw [e1'] at this; exact this
  have q3' : (apN 3 a s).2.finishedInputRequests = [] := by
    have : (asyncPoint (stA2 a s).2.1 (stA2 a s).2.2).2.finishedInputRequests = [] := q3
    rw [e2'] at this; exact this
  have q4' : (apN 4 a s).2.readyTaskInfos = [] := by
    have : (asyncPoint (stA3 a s).2.1 (stA3 a s).2.2).2.readyTaskInfos = [] := q4
    rw [e3'] at this; exact this
  have q5' : (apN 5 a s).2.finishedTaskInfos = [] := by
    have : (asyncPoint (stA4 a s).2.1 (stA4 a s).2.2).2.finishedTaskInfos = [] := q5
    rw [e4'] at this; exact this
  refine ⟨e5', ?_, ?_, ?_, ?_, q5', hfl⟩
  · rw [show (5 : Nat) = 1 + 4 from rfl, apN_add 4 1 a s, (apN_frame 4 _ _).1]; exact q1'
  · rw [show (5 : Nat) = 2 + 3 from rfl, apN_add 3 2 a s, (apN_frame 3 _ _).2.1]; exact q2'
  · rw [show (5 : Nat) = 3 + 2 from rfl, apN_add 2 3 a s, (apN_frame 2 _ _).2.2.1]; exact q3'
  · rw [show (5 : Nat) = 4 + 1 from rfl, apN_add 1 4 a s, (apN_frame 1 _ _).2.2.2.1]; exact q4'

/-! ## 4. an asynchronous step reports no error -/

/-- the tokens of an asynchronous step: completions and the cancellation -/
def Tok.isCX : Tok → Bool
  | .C _ _ _ => true
  | .X => true
  | _ => false

theorem tstep_CX (P : Program) (ms ms' : MSt) (t : Tok) (ht : Tok.isCX t = true) (h : tstep P ms t = some ms') :
    ms'.m.errSeen = ms.m.errSeen := by
  obtain ⟨m, pend⟩ := ms
  cases t <;> simp only [Tok.isCX, Bool.false_eq_true] at ht
  case X =>
    rw [tstep_X] at h
    cases h
    rfl
  case C a v f =>
    cases hst : step P m (.complete a v (f != 0)) with
    | none =>
      cases pend <;> simp [tstep, Tok.isS2, Tok.isReg, Tok.toEvent?, hst] at h
    | some m1 =>
      rw [tstep_reg_any (t := .C a v f) pend (by rfl) (by rfl) hst] at h
      cases h
      exact (step_complete_flags hst).2.2

theorem trun_CX (P : Program) : ∀ (toks : List Tok) (ms ms' : MSt), (∀ t ∈ toks, Tok.isCX t = true) →
    trun P ms toks = some ms' → ms'.m.errSeen = ms.m.errSeen
  | [], ms, ms', _, h => by
    simp only [trun, Option.some.injEq] at h
    subst h; rfl
  | t :: rest, ms, ms', hs, h => by
    simp only [trun] at h
    cases hts : tstep P ms t with
    | none => rw [hts] at h; simp at h
    | some ms1 =>
      rw [hts] at h; simp only [Option.bind_some] at h
      rw [trun_CX P rest ms1 ms' (fun t ht => hs t (by simp [ht])) h]
      exact tstep_CX P ms ms1 t (hs t (by simp)) hts

theorem emit_CX_of (t : Tok) (ht : Tok.isCX t = true) (s X : State) (hXt : X.trace = s.trace)
    (hXh : X.halted = false) : ∃ toks, Emits s toks (emit t X) ∧ ∀ t' ∈ toks, Tok.isCX t' = true := by
  rcases emit_emits t X hXh with e | e
  · refine ⟨[t], ?_, ?_⟩
    · unfold Emits at e ⊢; rw [← hXt]; exact e
    · intro t' ht'; simp only [List.mem_singleton] at ht'; subst ht'; exact ht
  · refine ⟨[t, .X], ?_, ?_⟩
    · unfold Emits at e ⊢; rw [← hXt]; exact e
    · intro t' ht'
      simp only [List.mem_cons, List.not_mem_nil, or_false] at ht'
      rcases ht' with h | h
      · subst h; exact ht
      · subst h; rfl

theorem completeKey_CX {rules : List RuleSpec} {s : State} {ms : MSt} (k : Key) (hr : Rel rules s ms {})
    (hh : s.halted = false) : ∃ toks, Emits s toks (completeKey k s).2 ∧ ∀ t ∈ toks, Tok.isCX t = true := by
  unfold completeKey
  by_cases hc : s.pendingDeferred.contains k = true
  · simp only [hc, if_true]
    have hk : k ∈ s.pendingDeferred := by simpa using hc
    obtain ⟨t0, _, hst, _⟩ := hr.deferredOk k hk
    have hcomp : (({ s with pendingDeferred := s.pendingDeferred.filter (· != k) } : State).rule k).isInProgressComputing
        = true := by
      show (s.rule k).isInProgressComputing = true
      simp [RuleInfo.isInProgressComputing, hst]
    rw [taskComplete_eq k _ hcomp]
    generalize hX : completeUpd k _ _ _ = X
    have hXt : X.trace = s.trace := by rw [← hX]; rfl
    have hXh : X.halted = false := by rw [← hX]; exact hh
    exact emit_CX_of _ rfl s X hXt hXh
  · simp only [hc, Bool.false_eq_true, if_false]
    exact ⟨[], Emits.refl s, fun t ht => by cases ht⟩

theorem completeKeys_CX {rules : List RuleSpec} : ∀ (ks : List Key) (any : Bool) (s : State) (ms : MSt),
    Rel rules s ms {} → s.halted = false →
    ∃ toks, Emits s toks (completeKeys ks any s).2 ∧ ∀ t ∈ toks, Tok.isCX t = true
  | [], any, s, ms, hr, hh => ⟨[], Emits.refl s, fun t ht => by cases ht⟩
  | k :: ks, any, s, ms, hr, hh => by
    rw [completeKeys]
    obtain ⟨toks1, e1, c1⟩ := completeKey_CX k hr hh
    obtain ⟨_, ms1, _, _, hr1, _, _, _, _, hh1, _⟩ := (completeKey_step k hr hh).1
    generalize completeKey k s = r at e1 hr1 hh1 ⊢
    obtain ⟨b, s1⟩ := r
    simp only at e1 hr1 hh1 ⊢
    obtain ⟨toks2, e2, c2⟩ := completeKeys_CX ks (any || b) s1 ms1 hr1 hh1
    refine ⟨toks1 ++ toks2, e1.trans e2, ?_⟩
    intro t ht
    rcases List.mem_append.1 ht with h | h
    · exact c1 t h
    · exact c2 t h

theorem asyncStep_CX {rules : List RuleSpec} {s : State} {ms : MSt} (it : SchedItem) (hr : Rel rules s ms {})
    (hh : s.halted = false) : ∃ toks, Emits s toks (asyncStep it s) ∧ ∀ t ∈ toks, Tok.isCX t = true := by
  unfold asyncStep
  dsimp only
  obtain ⟨toks1, e1, c1⟩ := completeKeys_CX it.keys false s ms hr hh
  obtain ⟨_, _, _, _, _, _, _, _, _, hh1, _⟩ := (completeKeys_step it.keys false s ms hr hh).1
  split
  · rcases doCancel_emits _ hh1 with e | e
    · exact ⟨toks1 ++ [], e1.trans e, by simpa using c1⟩
    · refine ⟨toks1 ++ [.X], e1.trans e, ?_⟩
      intro t ht
      rcases List.mem_append.1 ht with h | h
      · exact c1 t h
      · simp only [List.mem_singleton] at h; subst h; rfl
  · exact ⟨toks1, e1, c1⟩

theorem asyncPoint_CX {rules : List RuleSpec} {s : State} {ms : MSt} (a : Async) (hr : Rel rules s ms {})
    (hh : s.halted = false) : ∃ toks, Emits s toks (asyncPoint a s).2 ∧ ∀ t ∈ toks, Tok.isCX t = true := by
  cases a with
  | nil => exact ⟨[], Emits.refl s, fun t ht => by cases ht⟩
  | cons it rest => exact asyncStep_CX it hr hh

/-- **an item boundary keeps the loop invariant**, never halts, and reports no error -/
theorem asyncPoint_inv {rules : List RuleSpec} {key : Key} (a : Async) {s : State} {ms : MSt}
    (hi : Inv rules key s ms) (hh : s.halted = false) :
    ∃ toks ms', Emits s toks (asyncPoint a s).2 ∧ trun (program rules) ms toks = some ms' ∧
      Inv rules key (asyncPoint a s).2 ms' ∧ ms'.m.errSeen = ms.m.errSeen ∧ (asyncPoint a s).2.halted = false ∧
      (NoMid s → NoMid (asyncPoint a s).2) ∧ (Aux key s {} → Aux key (asyncPoint a s).2 {}) ∧
      (DiscM (program rules) ms.m → DiscM (program rules) ms'.m) := by
  obtain ⟨toks, ms', he, hr, hrel, hp, hreg, ht, hnm, hh', _, _, haux⟩ := asyncPoint_step a hi.rel hh
  obtain ⟨toks', he', hcx⟩ := asyncPoint_CX a hi.rel hh
  have : toks = toks' := Emits.unique he he'
  subst this
  exact ⟨toks, ms', he, hr,
    ⟨hrel, hp.trans hi.pend, ht.trans hi.target, hreg key hi.reg, trun_pendFresh toks hr hi.pendFresh,
      Cyc.trun_noMF toks ms ms' hr hi.noMF⟩,
    trun_CX _ toks ms ms' hcx hr, hh', hnm, haux key, fun hd => trun_discM hr hd⟩

theorem apN_inv {rules : List RuleSpec} {key : Key} : ∀ (n : Nat) (a : Async) {s : State} {ms : MSt},
    Inv rules key s ms → s.halted = false →
    ∃ toks ms', Emits s toks (apN n a s).2 ∧ trun (program rules) ms toks = some ms' ∧
      Inv rules key (apN n a s).2 ms' ∧ ms'.m.errSeen = ms.m.errSeen ∧ (apN n a s).2.halted = false ∧
      (NoMid s → NoMid (apN n a s).2) ∧ (Aux key s {} → Aux key (apN n a s).2 {}) ∧
      (DiscM (program rules) ms.m → DiscM (program rules) ms'.m)
  | 0, a, s, ms, hi, hh => ⟨[], ms, Emits.refl s, rfl, hi, rfl, hh, id, id, id⟩
  | n + 1, a, s, ms, hi, hh => by
    obtain ⟨toks1, ms1, he1, hr1, hi1, her1, hh1, hnm1, haux1, hd1⟩ := apN_inv n a hi hh
    obtain ⟨toks2, ms2, he2, hr2, hi2, her2, hh2, hnm2, haux2, hd2⟩ :=
      asyncPoint_inv (apN n a s).1 hi1 hh1
    exact ⟨toks1 ++ toks2, ms2, he1.trans he2, trun_append_some hr1 hr2, hi2, her2.trans her1, hh2,
      fun h => hnm2 (hnm1 h), fun h => haux2 (haux1 h), fun h => hd2 (hd1 h)⟩

/-- `successExit` (Exit.lean) with `errSeen = false` instead of `buildCancelled = false`: a cancellation that arrived
during the last, idle, iteration does not spoil the successful return (`close_steps` accepts `ret v` of a cancelled
build) -/
theorem successExit' (rules : List RuleSpec) (s : State) (ms : MSt) (key : Key)
    (hr : Rel rules s ms {}) (hp : ms.pend = none) (ht : ms.m.target = some key) (hreg : Registered s key)
    (herr : ms.m.errSeen = false) (hnt : s.taskInfos = []) (hns : s.numRulesBeingScanned = 0)
    (hcomp : isComplete s (s.rule key) = true)
    (q1 : s.ruleInfosToScan = []) (q2 : s.inputRequests = []) (q3 : s.finishedInputRequests = [])
    (q4 : s.readyTaskInfos = []) (q5 : s.finishedTaskInfos = []) (hnum : s.numOutstandingUnfinishedTasks = 0)
    (hnm : NoMid s) : RelPost rules key s ms.m true := by
  have hr' := hr.recorder s.trace s.halted s.cancelAtEvent s.cancelIssued s.sched false (fun h => by cases h)
    (fun h => by rw [herr] at h; cases h)
  have hpost := successExit rules _ ms key hr' hp ht hreg rfl hnt hns hcomp q1 q2 q3 q4 q5 hnum hnm
  exact
    { toQuiet := { hpost.toQuiet with },
      base := hpost.base.recorder s.trace s.halted s.cancelAtEvent s.cancelIssued s.sched s.buildCancelled,
      active := hpost.active, target := hpost.target, notReturned := hpost.notReturned, epochPos := hpost.epochPos,
      ok := hpost.ok, failed := hpost.failed }

/-! ## 5. the asynchronous work loop refines the monitor -/

/-- forget the rest of the schedule -/
def pr (r : Bool × Async × State) : Bool × State := (r.1, r.2.2)

theorem haltMono_resolveCycle (key : Key) : HaltMono (fun s => (resolveCycle key s).2) :=
  haltMono_of (fun hR => rs_resolveCycle hR key)

theorem afterWaitA_of_result {key : Key} {fuel : Nat} {w : Bool} {a : Async} {s : State}
    (h : (afterWaitA key fuel w a s).2.2.halted = false) : s.halted = false := by
  cases hs : s.halted with
  | false => rfl
  | true =>
    exfalso
    have : (afterWaitA key fuel w a s).2.2.halted = true := by
      unfold afterWaitA
      split
      · exact haltMono_executeLoopA key fuel a s hs
      · split
        · split
          · exact haltMono_executeLoopA key fuel a _ (haltMono_resolveCycle key s hs)
          · exact haltMono_cancelA a _ (haltMono_resolveCycle key s hs)
        · exact hs
    rw [this] at h; cases h

theorem afterTasksA_of_result {key : Key} {fuel : Nat} {r : Bool × Bool × Async × State}
    (h : (afterTasksA key fuel r).2.2.halted = false) : r.2.2.2.halted = false := by
  unfold afterTasksA at h
  split at h
  · exact h
  · split at h
    · exact (haltMono_asyncPointA _).of_result
        ((waitStep_haltMono haltMono_all.2.2.2.2.2.2.2.2.2.2.1).of_result (afterWaitA_of_result h))
    · exact (haltMono_asyncPointA _).of_result (afterWaitA_of_result h)

/-- the end of an iteration: next iteration, success, or a reported cycle -/
theorem afterWaitA_spec {rules : List RuleSpec} (hok : RulesOk rules) {key : Key} {fuel : Nat}
    (ih : ∀ a s ms, Inv rules key s ms → NoMid s → Aux key s {} → s.halted = false →
      (executeLoopA key fuel a s).2.2.halted = false → LoopPost rules key s ms (pr (executeLoopA key fuel a s)))
    (w : Bool) (a : Async) (s : State) (ms : MSt) (hi : Inv rules key s ms) (hnm : NoMid s) (haux : Aux key s {})
    (hh : s.halted = false)
    (hq : w = false → ms.m.errSeen = false ∧ s.ruleInfosToScan = [] ∧ s.inputRequests = [] ∧
      s.finishedInputRequests = [] ∧ s.readyTaskInfos = [] ∧ s.finishedTaskInfos = [] ∧
      s.numOutstandingUnfinishedTasks = 0)
    (hnh : (afterWaitA key fuel w a s).2.2.halted = false) :
    LoopPost rules key s ms (pr (afterWaitA key fuel w a s)) := by
  unfold afterWaitA at hnh ⊢
  cases w with
  | true =>
    simp only [if_true] at hnh ⊢
    exact ih a s ms hi hnm haux hh hnh
  | false =>
    simp only [Bool.false_eq_true, if_false] at hnh ⊢
    obtain ⟨herr, q1, q2, q3, q4, q5, hnum⟩ := hq rfl
    have hrc := resolveCycle_noResolve key s hi.rel.noResolve
    by_cases hc : (!s.taskInfos.isEmpty || s.numRulesBeingScanned != 0 || !isComplete s (s.rule key)) = true
    · rw [if_pos hc] at hnh ⊢
      cases hfc : findCycle key s with
      | none =>
        rw [hfc] at hrc; simp only [] at hrc
        rw [hrc] at hnh; simp only [Bool.false_eq_true, if_false] at hnh
        rw [haltMono_cancelA a _ (halt_halted _ _)] at hnh; cases hnh
      | some ks =>
        rw [hfc] at hrc; simp only [] at hrc
        rw [hrc] at hnh ⊢; simp only [Bool.false_eq_true, if_false] at hnh ⊢
        have hl := findCycle_fixed rules s ms key ks hi.rel hi.pend hi.target hnm q1 q2 q3 q4 q5 hnum hfc
          (cycleSearchOk_of_findCycle hfc) hi.noMF haux.readyWhenZero (haux.rootNotIdle hi.rel hi.pend q2)
        exact cycleExitA_sim rules hok a s ms key ks hi.rel hi.pend hh hi.target hnm hl hnh
    · rw [if_neg hc] at hnh ⊢
      simp only [Bool.or_eq_true, Bool.not_eq_eq_eq_not, Bool.not_true, List.isEmpty_eq_false_iff, ne_eq,
        bne_iff_ne, not_or, Decidable.not_not, Bool.not_eq_false] at hc
      obtain ⟨⟨ht, hns⟩, hcomp⟩ := hc
      refine ⟨[], ms.m, Emits.refl s, ?_,
        successExit' rules s ms key hi.rel hi.pend hi.target hi.reg herr ht hns hcomp q1 q2 q3 q4 q5 hnum hnm,
        hi.rel.started⟩
      rw [← hi.pend]
      rfl

/-- the end of an iteration from the result of `finishedTasksLoopA`: the item boundary before the wait check, the
wait, and the exits -/
theorem afterTasksA_spec {rules : List RuleSpec} (hok : RulesOk rules) {key : Key} {fuel : Nat}
    (ih : ∀ a s ms, Inv rules key s ms → NoMid s → Aux key s {} → s.halted = false →
      (executeLoopA key fuel a s).2.2.halted = false → LoopPost rules key s ms (pr (executeLoopA key fuel a s)))
    (r : Bool × Bool × Async × State) (hr1 : r.1 = false) (ms : MSt) (hi : Inv rules key r.2.2.2 ms)
    (hnm : NoMid r.2.2.2) (haux : Aux key r.2.2.2 {}) (hh : r.2.2.2.halted = false)
    (hq : r.2.1 = false → ms.m.errSeen = false ∧ r.2.2.2.ruleInfosToScan = [] ∧ r.2.2.2.inputRequests = [] ∧
      r.2.2.2.finishedInputRequests = [] ∧ r.2.2.2.readyTaskInfos = [])
    (hnh : (afterTasksA key fuel r).2.2.halted = false) :
    LoopPost rules key r.2.2.2 ms (pr (afterTasksA key fuel r)) := by
  unfold afterTasksA at hnh ⊢
  simp only [hr1, Bool.false_eq_true, if_false] at hnh ⊢
  obtain ⟨toks6, ms6, he6, hr6, hi6, her6, hh6, hnm6, haux6, -⟩ := asyncPoint_inv r.2.2.1 hi hh
  refine LoopPost.prepend he6 hr6 ?_
  obtain ⟨f1, f2, f3, f4, f5⟩ := asyncPoint_frame r.2.2.1 r.2.2.2
  by_cases hw : (!r.2.1 && (asyncPoint r.2.2.1 r.2.2.2).2.numOutstandingUnfinishedTasks != 0) = true
  · rw [if_pos hw] at hnh ⊢
    have h7 := afterWaitA_of_result hnh
    have e7 := waitStep_eq h7
    rw [e7] at hnh h7 ⊢
    obtain ⟨toks7, ms7, he7, hr7, hi7, hnm7⟩ :=
      hi6.step (hook_sim rules hok 1 _ ms6 hi6.rel hi6.pend hh6) h7
    refine LoopPost.prepend he7 hr7 ?_
    exact afterWaitA_spec hok ih true _ _ ms7 hi7 (hnm7 (hnm6 hnm)) (hook_aux key 1 hi6.rel hi6.pend hh6 (haux6 haux)) h7
      (fun h => by cases h) hnh
  · rw [if_neg hw] at hnh ⊢
    refine afterWaitA_spec hok ih _ _ _ ms6 hi6 (hnm6 hnm) (haux6 haux) hh6 ?_ hnh
    intro hw5
    obtain ⟨herr, q1, q2, q3, q4⟩ := hq hw5
    have hnum : (asyncPoint r.2.2.1 r.2.2.2).2.numOutstandingUnfinishedTasks = 0 := by
      rw [hw5] at hw
      simpa using hw
    have q5 : (asyncPoint r.2.2.1 r.2.2.2).2.finishedTaskInfos = [] := by
      have hc := hi6.rel.outstandingCount
      rw [hnum] at hc
      apply List.eq_nil_of_length_eq_zero
      omega
    exact ⟨her6.trans herr, f1.trans q1, f2.trans q2, f3.trans q3, f4.trans q4, q5, hnum⟩

/-- the statement of `WorkLoopSpec` (Main.lean) for the asynchronous work loop -/
def WorkLoopSpecA (rules : List RuleSpec) : Prop :=
  ∀ (key : Key) (fuel : Nat) (a : Async) (s : State) (ms : MSt),
    Rel rules s ms {} → NoMid s → ms.pend = none → ms.m.target = some key → Registered s key → s.halted = false →
    (∀ p ∈ ms.m.pending, isDone ms.m p.1 = false) →
    (∀ a q, delivered (ms.m.task a).seq q = true → q.kind ≠ 2) →
    Aux key s {} →
    (executeLoopA key fuel a s).2.2.halted = false →
    ∃ toks m', Emits s toks (executeLoopA key fuel a s).2.2 ∧ trun (program rules) ms toks = some ⟨m', none⟩ ∧
      RelPost rules key (executeLoopA key fuel a s).2.2 m' (executeLoopA key fuel a s).1 ∧ m'.started = true

/-- **IM4: the asynchronous work loop refines the monitor, for every schedule** of completions and cancellations at
item boundaries.  Same induction as `workLoop_final` (Loop.lean), with the item boundaries `asyncPoint` at the top of
the loop and before the wait check, and the `…A` loop lemmas.  An iteration that did no work consisted of item
boundaries only (`noworkA_all`), which report no error (`asyncPoint_inv`). -/
theorem workLoopA_final : ∀ rules, RulesOk rules → WorkLoopSpecA rules := by
  intro rules hok key fuel
  suffices H : ∀ a s ms, Inv rules key s ms → NoMid s → Aux key s {} → s.halted = false →
      (executeLoopA key fuel a s).2.2.halted = false → LoopPost rules key s ms (pr (executeLoopA key fuel a s)) from
    fun a s ms hr hnm hp ht hreg hh hpf hmf haux hnh => H a s ms ⟨hr, hp, ht, hreg, hpf, hmf⟩ hnm haux hh hnh
  have hS := asyncStepSim
  have hF := asyncStepFrame
  have hA := asyncStepAux
  have hT := asyncStepTerm
  induction fuel with
  | zero =>
    intro a s ms _ _ _ _ hnh
    rw [executeLoopA_zero, halt_halted] at hnh; cases hnh
  | succ fuel ih =>
    intro a s ms hi hnm haux hh hnh
    rw [executeLoopA_succ] at hnh ⊢
    simp only [hh, Bool.false_eq_true, if_false] at hnh ⊢
    -- the item boundary at the top of the loop
    obtain ⟨toksP, msP, heP, hrP, hiP, -, hhP, hnmP', hauxP', -⟩ := asyncPoint_inv a hi hh
    refine LoopPost.prepend heP hrP ?_
    have hnmP := hnmP' hnm
    have hauxP := hauxP' haux
    generalize asyncPoint a s = p0 at hnh hiP hhP hnmP hauxP ⊢
    obtain ⟨a0, sP⟩ := p0
    simp only [] at hnh hiP hhP hnmP hauxP ⊢
    clear heP hrP hnmP' hauxP' hi hnm haux hh s ms a
    -- `hook 0`
    have hh0 : (hook 0 sP).halted = false := by
      by_cases hc : (hook 0 sP).buildCancelled = true
      · rw [if_pos hc] at hnh; exact (haltMono_cancelA a0).of_result hnh
      · rw [if_neg hc] at hnh
        have h5 := afterTasksA_of_result hnh
        have h4 : (stA4 a0 (hook 0 sP)).2.2.halted = false := (haltMono_finTasksA _ _ _).of_result h5
        have h3 : (stA3 a0 (hook 0 sP)).2.2.halted = false := (haltMono_readyA _ _ _).of_result h4
        have h2 : (stA2 a0 (hook 0 sP)).2.2.halted = false := (haltMono_finInputA _ _ _).of_result h3
        have h1 : (stA1 a0 (hook 0 sP)).2.2.halted = false := (haltMono_inputA _ _ _).of_result h2
        exact (haltMono_scanA _ _ _).of_result h1
    obtain ⟨toks0, ms0, he0, hr0, hi0, hnm0'⟩ := hiP.step (hook_sim rules hok 0 sP msP hiP.rel hiP.pend hhP) hh0
    have hnm0 := hnm0' hnmP
    have haux0 : Aux key (hook 0 sP) {} := hook_aux key 0 hiP.rel hiP.pend hhP hauxP
    refine LoopPost.prepend he0 hr0 ?_
    generalize hook 0 sP = s0 at hnh hh0 hi0 hnm0 haux0 ⊢
    clear he0 hr0 hnm0' hiP hnmP hauxP hhP sP msP
    by_cases hc : s0.buildCancelled = true
    · rw [if_pos hc] at hnh ⊢
      exact cancelRemainingTasksA_sim rules hok a0 s0 ms0 key hi0.rel hi0.pend hh0 hi0.target hnm0
        (Or.inr (Or.inr (Or.inr hc))) hnh
    · rw [if_neg hc] at hnh ⊢
      have hc' : s0.buildCancelled = false := by simpa using hc
      have herr0 : ms0.m.errSeen = false := by
        cases he : ms0.m.errSeen with
        | false => rfl
        | true => have := hi0.rel.errCancelled he; rw [hc'] at this; cases this
      have h5 := afterTasksA_of_result hnh
      have h4 : (stA4 a0 s0).2.2.halted = false := (haltMono_finTasksA _ _ _).of_result h5
      have h3 : (stA3 a0 s0).2.2.halted = false := (haltMono_readyA _ _ _).of_result h4
      have h2 : (stA2 a0 s0).2.2.halted = false := (haltMono_finInputA _ _ _).of_result h3
      have h1 : (stA1 a0 s0).2.2.halted = false := (haltMono_inputA _ _ _).of_result h2
      have IH : ∀ a s ms, Inv rules key s ms → NoMid s → Aux key s {} → s.halted = false →
          (executeLoopA key fuel a s).2.2.halted = false → LoopPost rules key s ms (pr (executeLoopA key fuel a s)) := ih
      by_cases hw5 : (stA5 a0 s0).2.1 = true
      · -- some loop did work: stage by stage
        have S1 : Sim rules s0 ms0 (stA1 a0 s0).2.2 {} (fun _ => (stA1 a0 s0).2.2.ruleInfosToScan = []) :=
          scanRequestsLoopA_sim hS hF hA hT rules hok loopFuel false a0 s0 ms0 hi0.rel hi0.pend hh0
        have haux1 : Aux key (stA1 a0 s0).2.2 {} :=
          scanRequestsLoopA_aux hS hF hA hT hok key loopFuel false a0 s0 ms0 hi0.rel hi0.pend hh0 h1 haux0
        obtain ⟨toks1, ms1, he1, hr1, hi1, hq1⟩ := hi0.step S1 h1
        have hfresh1 : FreshScanQ (stA1 a0 s0).2.2 := by
          intro r hr; rw [hq1] at hr; cases hr
        have S2 : Sim rules (stA1 a0 s0).2.2 ms1 (stA2 a0 s0).2.2 {} (fun ms' =>
            ((stA2 a0 s0).2.2.inputRequests = [] ∧ NoMid (stA2 a0 s0).2.2 ∧ FreshScanQ (stA2 a0 s0).2.2) ∧
              PendFresh ms'.m) :=
          inputRequestsLoopA_sim hS hF rules hok loopFuel (stA1 a0 s0).1 (stA1 a0 s0).2.1 (stA1 a0 s0).2.2 ms1
            hi1.rel hi1.pend h1 hfresh1 hi1.pendFresh
        have haux2 : Aux key (stA2 a0 s0).2.2 {} :=
          inputRequestsLoopA_aux hS hF hA rules hok loopFuel (stA1 a0 s0).1 (stA1 a0 s0).2.1 (stA1 a0 s0).2.2 ms1 key
            hi1.rel hi1.pend h1 hfresh1 hi1.pendFresh h2 scanRuleAux demandRule_aux haux1
        obtain ⟨toks2, ms2, he2, hr2, hi2, ⟨-, hnm2, -⟩, -⟩ := hi1.step S2 h2
        have S3 : Sim rules (stA2 a0 s0).2.2 ms2 (stA3 a0 s0).2.2 {} (fun _ =>
            (stA3 a0 s0).2.2.finishedInputRequests = [] ∧ NoMid (stA3 a0 s0).2.2) :=
          finishedInputsLoopA_sim hS hF hA hT rules hok loopFuel (stA2 a0 s0).1 (stA2 a0 s0).2.1 (stA2 a0 s0).2.2 ms2
            hi2.rel hi2.pend h2 hnm2
        have haux3 : Aux key (stA3 a0 s0).2.2 {} :=
          finishedInputsLoopA_aux hS hF hA hT hok loopFuel (stA2 a0 s0).1 (stA2 a0 s0).2.1 (stA2 a0 s0).2.2 ms2
            hi2.rel hi2.pend h2 hnm2 h3 haux2
        obtain ⟨toks3, ms3, he3, hr3, hi3, -, hnm3⟩ := hi2.step S3 h3
        have S4 : Sim rules (stA3 a0 s0).2.2 ms3 (stA4 a0 s0).2.2 {} (fun _ =>
            (stA4 a0 s0).2.2.readyTaskInfos = [] ∧ NoMid (stA4 a0 s0).2.2) :=
          readyTasksLoopA_sim rules hok loopFuel (stA3 a0 s0).1 (stA3 a0 s0).2.1 (stA3 a0 s0).2.2 ms3
            hi3.rel hi3.pend h3 hnm3
        have haux4 : Aux key (stA4 a0 s0).2.2 {} :=
          readyTasksLoopA_aux key loopFuel (stA3 a0 s0).1 (stA3 a0 s0).2.1 (stA3 a0 s0).2.2 ms3
            hi3.rel hi3.pend h3 hnm3 h4 haux3
        obtain ⟨toks4, ms4, he4, hr4, hi4, -, hnm4⟩ := hi3.step S4 h4
        have S5 : (stA5 a0 s0).1 = false ∧ Sim rules (stA4 a0 s0).2.2 ms4 (stA5 a0 s0).2.2.2 {} (fun _ =>
            (stA5 a0 s0).2.2.2.finishedTaskInfos = [] ∧ NoMid (stA5 a0 s0).2.2.2) :=
          finishedTasksLoopA_sim hS hF rules hok loopFuel (stA4 a0 s0).1 (stA4 a0 s0).2.1 (stA4 a0 s0).2.2 ms4
            hi4.rel hi4.pend h4 hnm4
        have haux5 : Aux key (stA5 a0 s0).2.2.2 {} :=
          finishedTasksLoopA_aux hS hF hA hok loopFuel (stA4 a0 s0).1 (stA4 a0 s0).2.1 (stA4 a0 s0).2.2 ms4
            hi4.rel hi4.pend h4 hnm4 haux4
        obtain ⟨hfail, S5⟩ := S5
        obtain ⟨toks5, ms5, he5, hr5, hi5, -, hnm5⟩ := hi4.step S5 h5
        refine LoopPost.prepend (he1.trans (he2.trans (he3.trans (he4.trans he5))))
          (trun_append_some hr1 (trun_append_some hr2 (trun_append_some hr3 (trun_append_some hr4 hr5)))) ?_
        exact afterTasksA_spec hok IH (stA5 a0 s0) hfail ms5 hi5 hnm5 haux5 h5
          (fun h => by rw [hw5] at h; cases h) hnh
      · -- no work: five item boundaries
        have hw5' : (stA5 a0 s0).2.1 = false := by simpa using hw5
        obtain ⟨e, q1, q2, q3, q4, -, hfail⟩ := noworkA_all a0 s0 hw5' h1 h2 h3 h4 h5
        obtain ⟨toks5, ms5, he5, hr5, hi5, her5, hh5, hnm5, haux5, -⟩ := apN_inv 5 a0 hi0 hh0
        have hnm5' := hnm5 hnm0
        have haux5' := haux5 haux0
        rw [← e] at he5 hi5 hh5 hnm5' haux5' q1 q2 q3 q4
        refine LoopPost.prepend he5 hr5 ?_
        exact afterTasksA_spec hok IH (stA5 a0 s0) hfail ms5 hi5 hnm5' haux5' hh5
          (fun _ => ⟨her5.trans herr0, q1, q2, q3, q4⟩) hnh

/-! ## 6. the asynchronous work loop does not halt -/

/-- an item boundary never raises the potential, and lowers it by one per completion that arrives -/
theorem asyncPoint_termG {rules : List RuleSpec} {U : List Key} (a : Async) {s : State} {ms : MSt}
    (hr : Rel rules s ms {}) (hp : ms.pend = none) (hh : s.halted = false) (hU : ClosedU rules U s) :
    TermStep rules U s {} (asyncPoint a s).2 {}
      ((asyncPoint a s).2.finishedTaskInfos.length - s.finishedTaskInfos.length) := by
  cases a with
  | nil =>
    show TermStep rules U s {} s {} (s.finishedTaskInfos.length - s.finishedTaskInfos.length)
    rw [Nat.sub_self]
    exact TermStep.refl hU
  | cons it rest => exact asyncStepTerm rules U it s ms hr hp hh hU

/-- if the last flag of an iteration is `true`, some loop switched it on -/
theorem flags_drop : ∀ (w1 w2 w3 w4 w5 : Bool), w5 = true →
    1 ≤ (if false = false ∧ w1 = true then 1 else 0) + (if w1 = false ∧ w2 = true then 1 else 0) +
      (if w2 = false ∧ w3 = true then 1 else 0) + (if w3 = false ∧ w4 = true then 1 else 0) +
      (if w4 = false ∧ w5 = true then 1 else 0) := by
  decide

theorem afterWaitA_nohalt {rules : List RuleSpec} (hok : RulesOk rules) {U : List Key} (hUlen : U.length + 2 ≤ loopFuel)
    {key : Key} {fuel : Nat}
    (ih : ∀ a s ms, Inv rules key s ms → NoMid s → Aux key s {} → DiscM (program rules) ms.m → ClosedU rules U s →
      s.halted = false → Phi rules U s {} + 1 < fuel → Phi rules U s {} < loopFuel → Phi rules U s {} < scanFuel →
      (executeLoopA key fuel a s).2.2.halted = false)
    (w : Bool) (a : Async) (s : State) (ms : MSt) (hi : Inv rules key s ms) (hnm : NoMid s) (haux : Aux key s {})
    (hd : DiscM (program rules) ms.m) (hU : ClosedU rules U s) (hh : s.halted = false)
    (hL : Phi rules U s {} < loopFuel) (hS : Phi rules U s {} < scanFuel)
    (hw : w = true → Phi rules U s {} + 1 < fuel)
    (hq : w = false → s.ruleInfosToScan = [] ∧ s.inputRequests = [] ∧
      s.finishedInputRequests = [] ∧ s.readyTaskInfos = [] ∧ s.finishedTaskInfos = [] ∧
      s.numOutstandingUnfinishedTasks = 0) :
    (afterWaitA key fuel w a s).2.2.halted = false := by
  unfold afterWaitA
  cases w with
  | true =>
    simp only [if_true]
    exact ih a s ms hi hnm haux hd hU hh (hw rfl) hL hS
  | false =>
    simp only [Bool.false_eq_true, if_false]
    obtain ⟨q1, q2, q3, q4, q5, hnum⟩ := hq rfl
    by_cases hc : (!s.taskInfos.isEmpty || s.numRulesBeingScanned != 0 || !isComplete s (s.rule key)) = true
    · rw [if_pos hc]
      have hst : Cyc.Stuck rules s ms := ⟨hi.rel, hi.pend, hnm, q1, q2, q3, q4, q5, hnum⟩
      obtain ⟨-, ks, -, hrc⟩ := resolveCycle_nohalt hst hi.noMF haux.readyWhenZero hU.registered
        (Nat.lt_of_le_of_lt (gatherBound_le_Phi hst hU.registered {}) hL) hUlen key hh
      rw [hrc]
      simp only [Bool.false_eq_true, if_false]
      exact cancelRemainingTasksA_cycle_nohalt_of_Phi hok a ks hi.rel hi.pend hU hh hL
    · rw [if_neg hc]
      exact hh

theorem afterTasksA_nohalt {rules : List RuleSpec} (hok : RulesOk rules) {U : List Key} (hUlen : U.length + 2 ≤ loopFuel)
    {key : Key} {fuel : Nat}
    (ih : ∀ a s ms, Inv rules key s ms → NoMid s → Aux key s {} → DiscM (program rules) ms.m → ClosedU rules U s →
      s.halted = false → Phi rules U s {} + 1 < fuel → Phi rules U s {} < loopFuel → Phi rules U s {} < scanFuel →
      (executeLoopA key fuel a s).2.2.halted = false)
    (r : Bool × Bool × Async × State) (hr1 : r.1 = false) (ms : MSt) (hi : Inv rules key r.2.2.2 ms)
    (hnm : NoMid r.2.2.2) (haux : Aux key r.2.2.2 {}) (hd : DiscM (program rules) ms.m)
    (hU : ClosedU rules U r.2.2.2) (hh : r.2.2.2.halted = false)
    (hL : Phi rules U r.2.2.2 {} < loopFuel) (hS : Phi rules U r.2.2.2 {} < scanFuel)
    (hF : Phi rules U r.2.2.2 {} < fuel) (hfin : r.2.2.2.finishedTaskInfos = [])
    (hw : r.2.1 = true → Phi rules U r.2.2.2 {} + 1 < fuel)
    (hq : r.2.1 = false → r.2.2.2.ruleInfosToScan = [] ∧ r.2.2.2.inputRequests = [] ∧
      r.2.2.2.finishedInputRequests = [] ∧ r.2.2.2.readyTaskInfos = []) :
    (afterTasksA key fuel r).2.2.halted = false := by
  unfold afterTasksA
  simp only [hr1, Bool.false_eq_true, if_false]
  obtain ⟨toks6, ms6, he6, hr6, hi6, -, hh6, hnm6, haux6, hd6⟩ := asyncPoint_inv r.2.2.1 hi hh
  have T6 := asyncPoint_termG (U := U) r.2.2.1 hi.rel hi.pend hh hU
  have hT6 := T6.2
  obtain ⟨f1, f2, f3, f4, f5⟩ := asyncPoint_frame r.2.2.1 r.2.2.2
  by_cases hwt : (!r.2.1 && (asyncPoint r.2.2.1 r.2.2.2).2.numOutstandingUnfinishedTasks != 0) = true
  · rw [if_pos hwt]
    have hnum : (asyncPoint r.2.2.1 r.2.2.2).2.numOutstandingUnfinishedTasks ≠ 0 := by
      simp only [Bool.and_eq_true, bne_iff_ne, ne_eq] at hwt
      exact hwt.2
    have hne := (hook_step 1 hi6.rel hh6).2 rfl hi6.pend hnum
    have h7 := hook_nohalt 1 hi6.rel hh6
    have T7 : TermStep rules U r.2.2.2 {} (hook 1 (asyncPoint r.2.2.1 r.2.2.2).2) {} 1 := by
      by_cases hfe : (asyncPoint r.2.2.1 r.2.2.2).2.finishedTaskInfos = []
      · have := (hook_wait_term hi6.rel hi6.pend hh6 T6.1 hnum hfe).2
        exact ⟨this.1, by have := this.2; omega⟩
      · have hlen : 1 ≤ (asyncPoint r.2.2.1 r.2.2.2).2.finishedTaskInfos.length := by
          cases hl : (asyncPoint r.2.2.1 r.2.2.2).2.finishedTaskInfos with
          | nil => exact absurd hl hfe
          | cons x l => simp
        have := hook_term (U := U) 1 hi6.rel hi6.pend hh6 T6.1
        refine ⟨this.1, ?_⟩
        have h2 := this.2
        rw [hfin] at hT6
        simp only [List.length_nil, Nat.sub_zero] at hT6
        omega
    obtain ⟨toks7, ms7, he7, hr7, hi7, hnm7⟩ :=
      hi6.step (hook_sim rules hok 1 _ ms6 hi6.rel hi6.pend hh6) h7
    rw [waitStep_of_ne hne]
    have hT7 := T7.2
    exact afterWaitA_nohalt hok hUlen ih true _ _ ms7 hi7 (hnm7 (hnm6 hnm))
      (hook_aux key 1 hi6.rel hi6.pend hh6 (haux6 haux)) (trun_discM hr7 (hd6 hd)) T7.1 h7 (by omega) (by omega)
      (fun _ => by omega) (fun h => by cases h)
  · rw [if_neg hwt]
    refine afterWaitA_nohalt hok hUlen ih _ _ _ ms6 hi6 (hnm6 hnm) (haux6 haux) (hd6 hd) T6.1 hh6 (by omega) (by omega)
      (fun h => by have := hw h; omega) ?_
    intro hw5
    obtain ⟨q1, q2, q3, q4⟩ := hq hw5
    have hnum : (asyncPoint r.2.2.1 r.2.2.2).2.numOutstandingUnfinishedTasks = 0 := by
      rw [hw5] at hwt
      simpa using hwt
    have q5 : (asyncPoint r.2.2.1 r.2.2.2).2.finishedTaskInfos = [] := by
      have hc := hi6.rel.outstandingCount
      rw [hnum] at hc
      apply List.eq_nil_of_length_eq_zero
      omega
    exact ⟨f1.trans q1, f2.trans q2, f3.trans q3, f4.trans q4, q5, hnum⟩

/-- **IM4: the asynchronous work loop does not halt, for every schedule**, under the bounds of `executeLoop_nohalt` -/
theorem executeLoopA_nohalt {rules : List RuleSpec} (hok : RulesOk rules) {U : List Key} {key : Key}
    (hUlen : U.length + 2 ≤ loopFuel) :
    ∀ (fuel : Nat) (a : Async) (s : State) (ms : MSt), Inv rules key s ms → NoMid s → Aux key s {} →
      DiscM (program rules) ms.m → ClosedU rules U s → s.halted = false →
      Phi rules U s {} + 1 < fuel → Phi rules U s {} < loopFuel → Phi rules U s {} < scanFuel →
      (executeLoopA key fuel a s).2.2.halted = false := by
  intro fuel
  have hS := asyncStepSim
  have hF := asyncStepFrame
  have hA := asyncStepAux
  have hT := asyncStepTerm
  induction fuel with
  | zero => intro a s ms _ _ _ _ _ _ hFu; omega
  | succ fuel ih =>
    intro a s ms hi hnm haux hd hU hh hFu hL hSc
    rw [executeLoopA_succ]
    simp only [hh, Bool.false_eq_true, if_false]
    -- the item boundary at the top of the loop
    obtain ⟨toksP, msP, -, hrP, hiP, -, hhP, hnmP', hauxP', hdP'⟩ := asyncPoint_inv a hi hh
    have TP := asyncPoint_term (U := U) a hi.rel hi.pend hh hU
    have hnmP := hnmP' hnm
    have hauxP := hauxP' haux
    have hdP := hdP' hd
    have hUP := TP.1
    have hPP : Phi rules U (asyncPoint a s).2 {} < fuel ∧ Phi rules U (asyncPoint a s).2 {} < loopFuel ∧
        Phi rules U (asyncPoint a s).2 {} < scanFuel := by
      have := TP.2; omega
    generalize asyncPoint a s = p0 at hiP hhP hnmP hauxP hUP hPP ⊢
    obtain ⟨a0, sP⟩ := p0
    simp only [] at hiP hhP hnmP hauxP hUP hPP ⊢
    clear hrP hnmP' hauxP' hdP' TP hi hnm haux hd hU hh hFu hL hSc s ms a
    -- `hook 0`
    have hh0 := hook_nohalt 0 hiP.rel hhP
    have T0 := hook_term (U := U) 0 hiP.rel hiP.pend hhP hUP
    have haux0 := hook_aux key 0 hiP.rel hiP.pend hhP hauxP
    obtain ⟨ms0, hi0, hd0, hnm0'⟩ := hiP.stepD hdP (hook_sim rules hok 0 sP msP hiP.rel hiP.pend hhP) hh0
    have hnm0 := hnm0' hnmP
    have hU0 := T0.1
    have hP0 : Phi rules U (hook 0 sP) {} < fuel ∧ Phi rules U (hook 0 sP) {} < loopFuel ∧
        Phi rules U (hook 0 sP) {} < scanFuel := by
      have := T0.2; omega
    generalize hook 0 sP = s0 at hh0 haux0 hi0 hnm0 hU0 hP0 ⊢
    clear T0 hnm0' hiP hnmP hauxP hdP hUP hhP hPP sP msP
    obtain ⟨hF0, hL0, hS0⟩ := hP0
    by_cases hc : s0.buildCancelled = true
    · rw [if_pos hc]
      exact cancelRemainingTasksA_nohalt_of_Phi hok a0 hi0.rel hi0.pend hU0 hh0 hL0
    · rw [if_neg hc]
      -- scan requests
      have h1 : (stA1 a0 s0).2.2.halted = false :=
        scanRequestsLoopA_nohalt hS hF hA hT hok hi0.rel hi0.pend hh0 hU0 hL0 hS0
      have T1 : TermStep rules U s0 {} (stA1 a0 s0).2.2 {} (if false = false ∧ (stA1 a0 s0).1 = true then 1 else 0) :=
        scanRequestsLoopA_term hS hF hA hT hok hi0.rel hi0.pend hh0 hU0 hL0 hS0
      have S1 : Sim rules s0 ms0 (stA1 a0 s0).2.2 {} (fun _ => (stA1 a0 s0).2.2.ruleInfosToScan = []) :=
        scanRequestsLoopA_sim hS hF hA hT rules hok loopFuel false a0 s0 ms0 hi0.rel hi0.pend hh0
      have haux1 : Aux key (stA1 a0 s0).2.2 {} :=
        scanRequestsLoopA_aux hS hF hA hT hok key loopFuel false a0 s0 ms0 hi0.rel hi0.pend hh0 h1 haux0
      obtain ⟨ms1, hi1, hd1, hq1⟩ := hi0.stepD hd0 S1 h1
      have hfresh1 : FreshScanQ (stA1 a0 s0).2.2 := by
        intro r hr; rw [hq1] at hr; cases hr
      have hT1 := T1.2
      -- input requests
      have h2 : (stA2 a0 s0).2.2.halted = false :=
        inputRequestsLoopA_nohalt hS hF hT scanRuleTerm demandRule_nohalt_U demandRule_term rules hok U loopFuel
          (stA1 a0 s0).1 (stA1 a0 s0).2.1 (stA1 a0 s0).2.2 ms1 hi1.rel hi1.pend h1 hfresh1 hi1.pendFresh T1.1 (by omega)
      have T2 : TermStep rules U (stA1 a0 s0).2.2 {} (stA2 a0 s0).2.2 {}
          (if (stA1 a0 s0).1 = false ∧ (stA2 a0 s0).1 = true then 1 else 0) :=
        inputRequestsLoopA_term hS hF hT scanRuleTerm demandRule_nohalt_U demandRule_term rules hok U loopFuel
          (stA1 a0 s0).1 (stA1 a0 s0).2.1 (stA1 a0 s0).2.2 ms1 hi1.rel hi1.pend h1 hfresh1 hi1.pendFresh T1.1 (by omega)
      have S2 : Sim rules (stA1 a0 s0).2.2 ms1 (stA2 a0 s0).2.2 {} (fun ms' =>
          ((stA2 a0 s0).2.2.inputRequests = [] ∧ NoMid (stA2 a0 s0).2.2 ∧ FreshScanQ (stA2 a0 s0).2.2) ∧
            PendFresh ms'.m) :=
        inputRequestsLoopA_sim hS hF rules hok loopFuel (stA1 a0 s0).1 (stA1 a0 s0).2.1 (stA1 a0 s0).2.2 ms1
          hi1.rel hi1.pend h1 hfresh1 hi1.pendFresh
      have haux2 : Aux key (stA2 a0 s0).2.2 {} :=
        inputRequestsLoopA_aux hS hF hA rules hok loopFuel (stA1 a0 s0).1 (stA1 a0 s0).2.1 (stA1 a0 s0).2.2 ms1 key
          hi1.rel hi1.pend h1 hfresh1 hi1.pendFresh h2 scanRuleAux demandRule_aux haux1
      obtain ⟨ms2, hi2, hd2, ⟨-, hnm2, -⟩, -⟩ := hi1.stepD hd1 S2 h2
      have hT2 := T2.2
      -- finished inputs
      have h3 : (stA3 a0 s0).2.2.halted = false :=
        finishedInputsLoopA_nohalt hS hF hA hT hok (fuel := loopFuel) (w := (stA2 a0 s0).1) (a := (stA2 a0 s0).2.1)
          hi2.rel hi2.pend h2 hnm2 T2.1 (by omega)
      have T3 : TermStep rules U (stA2 a0 s0).2.2 {} (stA3 a0 s0).2.2 {}
          (if (stA2 a0 s0).1 = false ∧ (stA3 a0 s0).1 = true then 1 else 0) :=
        finishedInputsLoopA_term hS hF hA hT hok (fuel := loopFuel) (w := (stA2 a0 s0).1) (a := (stA2 a0 s0).2.1)
          hi2.rel hi2.pend h2 hnm2 T2.1 (by omega)
      have S3 : Sim rules (stA2 a0 s0).2.2 ms2 (stA3 a0 s0).2.2 {} (fun _ =>
          (stA3 a0 s0).2.2.finishedInputRequests = [] ∧ NoMid (stA3 a0 s0).2.2) :=
        finishedInputsLoopA_sim hS hF hA hT rules hok loopFuel (stA2 a0 s0).1 (stA2 a0 s0).2.1 (stA2 a0 s0).2.2 ms2
          hi2.rel hi2.pend h2 hnm2
      have haux3 : Aux key (stA3 a0 s0).2.2 {} :=
        finishedInputsLoopA_aux hS hF hA hT hok loopFuel (stA2 a0 s0).1 (stA2 a0 s0).2.1 (stA2 a0 s0).2.2 ms2
          hi2.rel hi2.pend h2 hnm2 h3 haux2
      obtain ⟨ms3, hi3, hd3, -, hnm3⟩ := hi2.stepD hd2 S3 h3
      have hT3 := T3.2
      -- ready tasks
      have h4 : (stA4 a0 s0).2.2.halted = false :=
        readyTasksLoopA_nohalt loopFuel (stA3 a0 s0).1 (stA3 a0 s0).2.1 hi3.rel hi3.pend h3 hnm3 T3.1 (by omega)
      have T4 : TermStep rules U (stA3 a0 s0).2.2 {} (stA4 a0 s0).2.2 {}
          (if (stA3 a0 s0).1 = false ∧ (stA4 a0 s0).1 = true then 1 else 0) :=
        readyTasksLoopA_term loopFuel (stA3 a0 s0).1 (stA3 a0 s0).2.1 hi3.rel hi3.pend h3 hnm3 T3.1 (by omega)
      have S4 : Sim rules (stA3 a0 s0).2.2 ms3 (stA4 a0 s0).2.2 {} (fun _ =>
          (stA4 a0 s0).2.2.readyTaskInfos = [] ∧ NoMid (stA4 a0 s0).2.2) :=
        readyTasksLoopA_sim rules hok loopFuel (stA3 a0 s0).1 (stA3 a0 s0).2.1 (stA3 a0 s0).2.2 ms3
          hi3.rel hi3.pend h3 hnm3
      have haux4 : Aux key (stA4 a0 s0).2.2 {} :=
        readyTasksLoopA_aux key loopFuel (stA3 a0 s0).1 (stA3 a0 s0).2.1 (stA3 a0 s0).2.2 ms3
          hi3.rel hi3.pend h3 hnm3 h4 haux3
      obtain ⟨ms4, hi4, hd4, -, hnm4⟩ := hi3.stepD hd3 S4 h4
      have hT4 := T4.2
      -- finished tasks
      have R5 : (stA5 a0 s0).2.2.2.halted = false ∧ (stA5 a0 s0).1 = false ∧
          TermStep rules U (stA4 a0 s0).2.2 {} (stA5 a0 s0).2.2.2 {}
            (if (stA4 a0 s0).1 = false ∧ (stA5 a0 s0).2.1 = true then 1 else 0) :=
        finishedTasksLoopA_term hS hF hT hok loopFuel (stA4 a0 s0).1 (stA4 a0 s0).2.1 (stA4 a0 s0).2.2 ms4
          hi4.rel hi4.pend h4 hnm4 T4.1 hd4 (by omega)
      obtain ⟨h5, hfail, T5⟩ := R5
      have S5 : (stA5 a0 s0).1 = false ∧ Sim rules (stA4 a0 s0).2.2 ms4 (stA5 a0 s0).2.2.2 {} (fun _ =>
          (stA5 a0 s0).2.2.2.finishedTaskInfos = [] ∧ NoMid (stA5 a0 s0).2.2.2) :=
        finishedTasksLoopA_sim hS hF rules hok loopFuel (stA4 a0 s0).1 (stA4 a0 s0).2.1 (stA4 a0 s0).2.2 ms4
          hi4.rel hi4.pend h4 hnm4
      have haux5 : Aux key (stA5 a0 s0).2.2.2 {} :=
        finishedTasksLoopA_aux hS hF hA hok loopFuel (stA4 a0 s0).1 (stA4 a0 s0).2.1 (stA4 a0 s0).2.2 ms4
          hi4.rel hi4.pend h4 hnm4 haux4
      obtain ⟨ms5, hi5, hd5, hq5, hnm5⟩ := hi4.stepD hd4 S5.2 h5
      have hT5 := T5.2
      have IH : ∀ a s ms, Inv rules key s ms → NoMid s → Aux key s {} → DiscM (program rules) ms.m → ClosedU rules U s →
          s.halted = false → Phi rules U s {} + 1 < fuel → Phi rules U s {} < loopFuel → Phi rules U s {} < scanFuel →
          (executeLoopA key fuel a s).2.2.halted = false := ih
      refine afterTasksA_nohalt hok hUlen IH (stA5 a0 s0) hfail ms5 hi5 hnm5 haux5 hd5 T5.1 h5 (by omega) (by omega)
        (by omega) hq5 ?_ ?_
      · intro hw5
        have := flags_drop (stA1 a0 s0).1 (stA2 a0 s0).1 (stA3 a0 s0).1 (stA4 a0 s0).1 (stA5 a0 s0).2.1 hw5
        omega
      · intro hw5
        obtain ⟨e, q1, q2, q3, q4, -, -⟩ := noworkA_all a0 s0 hw5 h1 h2 h3 h4 h5
        rw [← e] at q1 q2 q3 q4
        exact ⟨q1, q2, q3, q4⟩

end LLBuild.Refine
