/-
IM4 — the four facts about one asynchronous step (`asyncStep`: parked tasks complete, possibly `cancelBuild()`), as
`Prop`s that the loop provers take as hypotheses and `AsyncStep.lean` proves.
-/
import LLBuild.Lemmas.Refine.Async0

namespace LLBuild.Refine
open LLBuild.Engine LLBuild.Engine.DSL LLBuild.EngineImpl

/-- refinement: at an item boundary (`Rel` with the empty hand, no completion pending) the step is accepted by the
monitor (`C …` tokens, `X`), never halts, and the relation holds again -/
def AsyncStepSim : Prop :=
  ∀ rules, RulesOk rules → ∀ (it : SchedItem) (s : State) (ms : MSt),
    Rel rules s ms {} → ms.pend = none → s.halted = false →
    (asyncStep it s).halted = false ∧ Sim rules s ms (asyncStep it s) {} (fun _ => True)

/-- what the step leaves alone -/
def AsyncStepFrame : Prop :=
  ∀ (it : SchedItem) (s : State),
    (asyncStep it s).ruleInfosToScan = s.ruleInfosToScan ∧ (asyncStep it s).inputRequests = s.inputRequests ∧
    (asyncStep it s).finishedInputRequests = s.finishedInputRequests ∧ (asyncStep it s).readyTaskInfos = s.readyTaskInfos ∧
    (asyncStep it s).numOutstandingUnfinishedTasks = s.numOutstandingUnfinishedTasks ∧
    (asyncStep it s).numRulesBeingScanned = s.numRulesBeingScanned ∧
    -- (two conjuncts that only hold on well-formed states — `taskInfos` keys and `isComplete` unchanged — were removed
    -- here after `AsyncStep.lean` refuted them for arbitrary states; they are in `AsyncStepFrameRel` there, under `Rel`)
    True ∧ True ∧
    (NoMid s → NoMid (asyncStep it s)) ∧ (FreshScanQ s → FreshScanQ (asyncStep it s)) ∧
    (∃ l, (asyncStep it s).finishedTaskInfos = s.finishedTaskInfos ++ l) ∧
    (s.buildCancelled = true → (asyncStep it s).buildCancelled = true)

def AsyncStepAux : Prop :=
  ∀ rules (it : SchedItem) (s : State) (ms : MSt) (key : Key),
    Rel rules s ms {} → ms.pend = none → s.halted = false → Aux key s {} → Aux key (asyncStep it s) {}

/-- termination: the potential never rises, and drops by one per task that completes -/
def AsyncStepTerm : Prop :=
  ∀ rules (U : List Key) (it : SchedItem) (s : State) (ms : MSt),
    Rel rules s ms {} → ms.pend = none → s.halted = false → ClosedU rules U s →
    TermStep rules U s {} (asyncStep it s) {} ((asyncStep it s).finishedTaskInfos.length - s.finishedTaskInfos.length)

end LLBuild.Refine
