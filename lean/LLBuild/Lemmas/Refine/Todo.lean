/-
IM2 — refinement: the per-function OBLIGATIONS, one `def Todo_<name> : Prop` per function of `Model/EngineImpl.lean`
(statements only; nothing here is assumed anywhere).  STATUS: ALL PROVED —
  A  `Todo_scanRule` (Scan.lean: `scanRule_sim`); `Todo_issue`, `Todo_endIssue`, `Todo_demandRule` (Demand.lean);
     `Todo_scanLookup/Advance/Defer`, `Todo_finishScan_needs/fresh`, `Todo_scanLoop`, `Todo_scanRequestsLoop` (ScanLoop.lean)
  B  `Todo_processInputRequest`, `Todo_inputRequestsLoop` (Input.lean; with the extra monitor invariant `PendFresh`)
  C  `Todo_finishedInputStep`, `Todo_finishedInputsLoop` (FinInput.lean)
  D  `Todo_taskComplete`, `Todo_readyStep`, `Todo_readyTasksLoop`, `Todo_hook`, `Todo_waitStep` (Ready.lean)
  E  `Todo_finishedTaskStep`, `Todo_finishedTasksLoop` (FinTask.lean)
  F  `Todo_successExit`, `Todo_cancelRemainingTasks`, `Todo_cycleExit` (Exit.lean); `Todo_findCycle` in the corrected form
     `findCycle_fixed` (Cycle.lean; three side conditions, see notes/REFINE.md §5.6)
  G  the loop: `workLoop_final : ∀ rules, RulesOk rules → WorkLoopSpec rules` (Loop.lean) — NOTE `Todo_workLoop` below is
     stated with the current `WorkLoopSpec` of Main.lean, which has the extra entry facts `NoMid`, `PendFresh`,
     `NoMFDelivered`, `Aux`
  H  `Todo_haltMono`, `Todo_halted_iff_bad`, `Todo_isPerm` (Halt.lean)
and the end result is `refinement_final` (Final.lean).  The statements below are kept as the specification of each
function (two of them were corrected after the provers found them unprovable: `Todo_issue` got `a ∉ readyTaskInfos`,
`Todo_demandRule` got `h.dec = []`).

Conventions (`Spec.lean`): `Sim rules s ms s' h' Post` = "if `s'` is not halted, the tokens recorded between `s` and `s'`
are accepted by the token monitor from `ms`, `Rel rules s' ms' h'` holds again, `ms'.pend = none`, registrations only
grew, the monitor is in the same build, and `Post ms'`".  Hands: `{ scan := [r] }` = the scan request popped by
`scanRequestsLoop`, `{ inp := [r] }` = the input request popped by `inputRequestsLoop`, `{ fin := [r] }` = the finished
request popped by `finishedInputsLoop`, `dec` = delivered but not yet decremented, `issuing := some (a, l)` = inside
`DslTask::issue`.
-/
import LLBuild.Lemmas.Refine.Spec

namespace LLBuild.Refine
open LLBuild.Engine LLBuild.Engine.DSL LLBuild.EngineImpl

/-! ## A. Scanning (`scanRule`, `demandRule`, `finishScanRequest`, `scanLoop`, `scanRequestsLoop`) -/

/-- `scanRule k`.  Tokens: nothing, or `S k 0` then `N k 0|1`, or `S k 0 ; V k v b` then `N k 2` / nothing.
Delicate clauses: `status` (`Incomplete`/stale `Complete` → `IsScanning`/`NeedsToRun`/`DoesNotNeedToRun`), the
monitor's guard `demanded` (hypothesis `hdem`, which the CALLER derives from the request it holds: `dummyOk`,
`TaskOk.outIssued`, `ScanReqOk.cached`), `validIdle` (for `valid`), `res` (single-use dependencies are dropped on
both sides at `S k 0`), `scanOne`/`scanOk`/`recordLive`/`scanCount`/`recordWaited` for the new scan request
(`inputIndex = 0 <` number of dependencies because the `deps.isEmpty` case went to `DoesNotNeedToRun`),
`dntrFresh` (vacuous: no dependencies), `midScan` (from `hin`).  `liveRecords` gains `(k, {})`, which leaves
`pausedAll`/`deferredAll` unchanged. -/
def Todo_scanRule : Prop :=
  ∀ rules, RulesOk rules → ∀ (s : State) (ms : MSt) (h : Hand) (k : Key),
    Rel rules s ms h → ms.pend = none → s.halted = false → Registered s k → InHand h s k →
    (ms.m.status k = .idle → demanded ms.m k = true) →
    Sim rules s ms (scanRule k s).2 h (fun _ =>
      InHand h (scanRule k s).2 k ∧
      ((scanRule k s).1 = true → isScanned (scanRule k s).2 ((scanRule k s).2.rule k) = true) ∧
      ((scanRule k s).1 = false → ((scanRule k s).2.rule k).state = .isScanning))

/-- `DslTask::issue(ti, l)` for the task of rule `a` (all of `taskNeedsInput`, `taskNeedsSingleUseInput`,
`taskMustFollow`, `addTaskInputRequest`).  Tokens: `L`/`G` of newly registered inputs.  `ER 2` is unreachable
(`RulesOk.ids`), `BAD abort` is unreachable (the rule is `InProgressWaiting`).  The task is NOT ready (`a ∉ readyTaskInfos`:
else `readyOk`'s `waitCount = 0` breaks at the first request; both callers know it: a just created task /
a delivered request still counted in `dec`).  Delicate: `TaskOk.issued`
(`issuedReqs ++ toIssue` is constant: one request moves from `toIssue` to `issuedReqs` per step), `waitCount`,
`outIssued` (the new request `reqOf a q`, undelivered by `TaskOk.deliveredIssued` and `q ∉ issuedReqs`),
The `issuing` mark stays (with nothing left to issue): the caller drops it with `Todo_endIssue`.
`outNodup` (`RulesOk.nodup`: distinct ids give distinct value requests; all issued requests are in
`allReqs`), `depsPerm` (the new request is unprocessed), `reqReg`, `reqTask`. -/
def Todo_issue : Prop :=
  ∀ rules, RulesOk rules → ∀ (s : State) (ms : MSt) (h : Hand) (a : Key) (l : List Req),
    h.issuing = none → Rel rules s ms { h with issuing := some (a, l) } → ms.pend = none → s.halted = false →
    (s.rule a).state = .inProgressWaiting →
    (∃ t, s.taskInfos.lookup a = some t ∧ (∀ q ∈ l, q ∉ t.issuedReqs) ∧ (∀ q ∈ t.issuedReqs, q ∈ allReqs (specOf rules a))) →
    l.Nodup → (∀ q ∈ l, q ∈ allReqs (specOf rules a)) →
    a ∉ s.readyTaskInfos →
    Sim rules s ms (issue a l s) { h with issuing := some (a, []) } (fun _ => True)

/-- the client callback that issued requests returns: the `issuing` mark is dropped (pure relational step; needs the
prior value to have been offered if it is due: in `demandRule` this is after `PP`, in `taskProvideValue` it holds
throughout) -/
def Todo_endIssue : Prop :=
  ∀ rules (s : State) (ms : MSt) (h : Hand) (a : Key),
    h.issuing = none → Rel rules s ms { h with issuing := some (a, []) } →
    (∀ t, s.taskInfos.lookup a = some t → (s.rule a).state = .inProgressWaiting → (ms.m.task a).priorSeen = priorDue ms.m a) →
    Rel rules s ms h

/-- `demandRule k` on a scanned rule.  Tokens: nothing (complete / in progress), `S k 1` (`upToDate`: guard from
`scanningOk` + `dntrFresh`), or `T k ; ST k reqs ; L/G… ; [PP k v]` (`create`, `start`, `prior`).  Delicate:
`pendingOk`/`dummyOk` when `k` becomes done (the monitor filters `k` out of `pending`), the new `TaskOk`
(`issuedSeq` with the empty sequence: `newReqs spec {}` = `issuedAfter P k []`; `priorSeen = priorDue`;
`depsPerm` with `deps := []`), `taskKeys`, `inRan`/`ranOk` (`create` needs `k ∉ ran`: from `ranOk` and the status
`needsRun`), `readyOk` when nothing was requested, `res` (in-flight: dependencies no longer compared).
Nothing is waiting for its `decrementTaskWaitCount` (`h.dec = []`: `Rel` does not constrain `dec` for a key without a
task, and the new task's `waitCount` must count it). -/
def Todo_demandRule : Prop :=
  ∀ rules, RulesOk rules → ∀ (s : State) (ms : MSt) (h : Hand) (k : Key),
    h.dec = [] →
    Rel rules s ms h → ms.pend = none → s.halted = false → h.issuing = none → Registered s k →
    isScanned s (s.rule k) = true →
    Sim rules s ms (demandRule k s).2 h (fun ms' =>
      ((demandRule k s).1 = true → isDone ms'.m k = true) ∧
      ((demandRule k s).1 = false → ((demandRule k s).2.taskInfos.lookup k).isSome = true) ∧
      (∀ k', InHand h s k' → InHand h (demandRule k s).2 k'))

/-- the scan request in hand may point at its input (`request.inputRuleInfo = &getRuleInfoForKey(dep)` after the
lookup; pure relational step, the engine state is the one AFTER `getRuleInfoForKey d.key`). -/
def Todo_scanLookup : Prop :=
  ∀ rules (s : State) (ms : MSt) (r : RuleScanRequest) (d : Dep),
    Rel rules s ms { scan := [r] } → r.inputRuleInfo = none →
    (s.rule r.ruleInfo).result.deps[r.inputIndex]? = some d → Registered s d.key →
    Rel rules s ms { scan := [{ r with inputRuleInfo := some d.key, orderOnly := d.orderOnly, singleUse := d.singleUse }] }

/-- the scan moves on to the next dependency (pure relational step): the current one was found complete and not
newer.  Delicate: `ScanReqOk.prefixFresh` (`take (i+1) = take i ++ [deps[i]]`, monitor and engine dependency
lists agree for a scanning rule by `res` + `scanningOk`), `inBounds`. -/
def Todo_scanAdvance : Prop :=
  ∀ rules (s : State) (ms : MSt) (r : RuleScanRequest) (i : Key),
    Rel rules s ms { scan := [r] } → r.inputRuleInfo = some i → isDone ms.m i = true →
    (r.orderOnly = true ∨ ¬ (s.rule r.ruleInfo).result.builtAt < (s.rule i).result.computedAt) →
    r.inputIndex + 1 ≠ (s.rule r.ruleInfo).result.deps.length →
    Rel rules s ms { scan := [{ r with inputIndex := r.inputIndex + 1, inputRuleInfo := none, orderOnly := false, singleUse := false }] }

/-- `finishScanRequest k NeedsToRun ; N k 3 input` (an input was rebuilt).  Token `N k 3 (some i)`: guard `needsOk`
(`validSeen = some true` from `scanningOk`, the dependency from `ScanReqOk.cached`, `isDone`, and
`builtAt < computedAt` through `res` of both rules).  `BAD use-of-freed-scan-record` unreachable (`recordLive`).
Delicate: the woken requests (`deferredScanRequests` → `ruleInfosToScan`, `pausedInputRequests` →
`inputRequests`) keep `scanReqs`/`unprocessed` the same up to permutation (`scanOne`, `TaskOk.waitCount`…),
`midScan` for `k` needs one of them (`recordWaited`), `scanCount` (−1), `liveRecords` loses `(k, _)`. -/
def Todo_finishScan_needs : Prop :=
  ∀ rules, RulesOk rules → ∀ (s : State) (ms : MSt) (r : RuleScanRequest) (i : Key),
    Rel rules s ms { scan := [r] } → ms.pend = none → s.halted = false →
    r.inputRuleInfo = some i → r.orderOnly = false → isDone ms.m i = true →
    (s.rule r.ruleInfo).result.builtAt < (s.rule i).result.computedAt →
    Sim rules s ms (emit (.N r.ruleInfo 3 (some i)) (finishScanRequest r.ruleInfo .needsToRun s)) {} (fun _ => True)

/-- `finishScanRequest k DoesNotNeedToRun` (the last dependency was found fresh).  No token.  Delicate:
`dntrFresh` (all dependencies: `prefixFresh` + the last one), otherwise as `Todo_finishScan_needs`. -/
def Todo_finishScan_fresh : Prop :=
  ∀ rules, RulesOk rules → ∀ (s : State) (ms : MSt) (r : RuleScanRequest) (i : Key),
    Rel rules s ms { scan := [r] } → ms.pend = none → s.halted = false →
    r.inputRuleInfo = some i → isDone ms.m i = true →
    (r.orderOnly = true ∨ ¬ (s.rule r.ruleInfo).result.builtAt < (s.rule i).result.computedAt) →
    r.inputIndex + 1 = (s.rule r.ruleInfo).result.deps.length →
    Sim rules s ms (finishScanRequest r.ruleInfo .doesNotNeedToRun s) {} (fun _ => True)

/-- parking the scan request at the scan record of its (still scanning) input / at the task of its (in progress)
input: the request leaves the hand (pure bookkeeping; `deferredAtRecord` / `deferredAtTask`, `recordWaited`). -/
def Todo_scanDefer : Prop :=
  ∀ rules (s : State) (ms : MSt) (r : RuleScanRequest) (i : Key),
    Rel rules s ms { scan := [r] } → r.inputRuleInfo = some i →
    (((s.rule i).state = .isScanning →
        Rel rules (modScanRecord i (fun rec => { rec with deferredScanRequests := rec.deferredScanRequests ++ [r] }) s) ms {} ∧
        (modScanRecord i (fun rec => { rec with deferredScanRequests := rec.deferredScanRequests ++ [r] }) s).halted = s.halted)) ∧
    ((s.taskInfos.lookup i).isSome = true →
        Rel rules (s.modTask i (fun t => { t with deferredScanRequests := t.deferredScanRequests ++ [r] })) ms {})

/-- `scanLoop` = the do-while of `processRuleScanRequest` (assembly of the seven lemmas above and `Rel.getRule`;
induction on the fuel; `BAD dependency-index-out-of-bounds` unreachable by `ScanReqOk.inBounds`). -/
def Todo_scanLoop : Prop :=
  ∀ rules, RulesOk rules → ∀ (fuel : Nat) (s : State) (ms : MSt) (r : RuleScanRequest),
    Rel rules s ms { scan := [r] } → ms.pend = none → s.halted = false →
    Sim rules s ms (scanLoop fuel r s) {} (fun _ => True)

/-- `while (!ruleInfosToScan.empty())` (LIFO).  Pop = move the last request into the hand (`scanReqs` is the same
list up to permutation).  `processRuleScanRequest`'s early return is unreachable (`ScanReqOk.scanning`). -/
def Todo_scanRequestsLoop : Prop :=
  ∀ rules, RulesOk rules → ∀ (fuel : Nat) (w : Bool) (s : State) (ms : MSt),
    Rel rules s ms {} → ms.pend = none → s.halted = false →
    Sim rules s ms (scanRequestsLoop fuel w s).2 {} (fun _ => (scanRequestsLoop fuel w s).2.ruleInfosToScan = [])

/-! ## B. Input requests (`processInputRequest`, `inputRequestsLoop`) -/

/-- one input request popped off the FIFO.  Calls `scanRule` (its `hdem` from `dummyOk` for a dummy, from
`reqTask` + `TaskOk.outIssued` + `inRan` for a task's request), then parks the request in the scan record
(`pausedAt`, `recordWaited`) or calls `demandRule` and records the dependency (`depsPerm`: the request moves from
`unprocessed` to `processed` and its `depOf` to `result.deps`; `reqOf`'s `orderOnly`/`singleUse` are the `Dep`'s
flags because kinds ≤ 2) and queues it as finished (`finDone`) or in `requestedBy` (`requestedAt`).  A dummy
request is dropped: `pendingOk` then holds by the second disjunct (task exists) or `k` left `pending` (done). -/
def Todo_processInputRequest : Prop :=
  ∀ rules, RulesOk rules → ∀ (s : State) (ms : MSt) (r : TaskInputRequest),
    Rel rules s ms { inp := [r] } → ms.pend = none → s.halted = false → FreshScanQ s →
    Sim rules s ms (processInputRequest r s) {} (fun _ => FreshScanQ (processInputRequest r s))

/-- `inputRequestsLoop` (FIFO), entered with an empty scan queue.  Post: the queue is drained and NO rule sits on
a scan verdict (`NoMid`: by `midScan`, whose first disjunct is impossible under `FreshScanQ` and whose second
needs a queued input request). -/
def Todo_inputRequestsLoop : Prop :=
  ∀ rules, RulesOk rules → ∀ (fuel : Nat) (w : Bool) (s : State) (ms : MSt),
    Rel rules s ms {} → ms.pend = none → s.halted = false → FreshScanQ s →
    Sim rules s ms (inputRequestsLoop fuel w s).2 {} (fun _ =>
      (inputRequestsLoop fuel w s).2.inputRequests = [] ∧ NoMid (inputRequestsLoop fuel w s).2 ∧
      FreshScanQ (inputRequestsLoop fuel w s).2)

/-! ## C. Finished inputs (`taskProvideValue`, `decrementTaskWaitCount`, `finishedInputsLoop`) -/

/-- body of `finishedInputsLoop` for a request of task `a`.  Token `PV a id key v fresh` (not for an order-only
request) then `L/G…` of `issue`.  Guard of `provide`: the request is `reqOf a q` for an issued, undelivered `q`
(`outIssued`), unique with that `(key, id)` among the issued ones (`RulesOk.nodup`) so the monitor's `find?` picks
`q` and `isSingleUse` answers `q.kind == 1` (= `maskVal`); `isDone key` from `finDone`; the value through `res`;
`issued ++ fresh = issuedAfter P a ((q,v) :: seq)` from `issuedSeq` + `recv` (`newReqs` is the same filter/eraseDups).
`BAD waitCount-underflow` unreachable (`waitCount ≥ 1`: the request in hand is counted).  The task becomes ready
when the count reaches 0 (`readyOk`, `readyNodup`: it was not ready, its count was ≥ 1). -/
def Todo_finishedInputStep : Prop :=
  ∀ rules, RulesOk rules → ∀ (s : State) (ms : MSt) (r : TaskInputRequest) (a : Key),
    Rel rules s ms { fin := [r] } → ms.pend = none → s.halted = false → r.taskInfo = some a → NoMid s →
    Sim rules s ms (finishedInputStep a r s) {} (fun _ => NoMid (finishedInputStep a r s))

/-- `finishedInputsLoop` (LIFO); `BAD finished-dummy-request` unreachable (`dummyUnproc`). -/
def Todo_finishedInputsLoop : Prop :=
  ∀ rules, RulesOk rules → ∀ (fuel : Nat) (w : Bool) (s : State) (ms : MSt),
    Rel rules s ms {} → ms.pend = none → s.halted = false → NoMid s →
    Sim rules s ms (finishedInputsLoop fuel w s).2 {} (fun _ =>
      (finishedInputsLoop fuel w s).2.finishedInputRequests = [] ∧ NoMid (finishedInputsLoop fuel w s).2)

/-! ## D. Ready tasks, completions, the hook -/

/-- `taskComplete a` for a task that is computing, not done, and in nobody's queue (just taken out of
`pendingDeferred` by `completeKey`, or never put there by `taskInputsAvailable`).  Token `C a v force`
(`complete`: `v = P.out a env (recvOf seq)` by `TaskOk.recv`; `ER 4` unreachable).  The statement is about the
state WITH `a` still listed in `pendingDeferred` (where `Rel` holds) and the function applied to the state
without it. -/
def Todo_taskComplete : Prop :=
  ∀ rules, RulesOk rules → ∀ (s : State) (ms : MSt) (a : Key),
    Rel rules s ms {} → s.halted = false → a ∈ s.pendingDeferred →
    ∃ toks ms', Emits s toks (taskComplete a { s with pendingDeferred := s.pendingDeferred.filter (· != a) }) ∧
      trun (program rules) ms toks = some ms' ∧
      Rel rules (taskComplete a { s with pendingDeferred := s.pendingDeferred.filter (· != a) }) ms' {} ∧
      ms'.pend = ms.pend ∧ (NoMid s → NoMid (taskComplete a { s with pendingDeferred := s.pendingDeferred.filter (· != a) }))

/-- body of `readyTasksLoop`: `setComputing`, `IA a discs` (`inputsAvail`: every value request delivered and every
must-follow key done, from `TaskOk.issuedOut` with `ofTask a outstanding = []` since `waitCount = 0`),
`taskDiscoveredDependency` for each (`ER 3` unreachable), then `C …` or parking in `pendingDeferred`, `++num`. -/
def Todo_readyStep : Prop :=
  ∀ rules, RulesOk rules → ∀ (s : State) (ms : MSt) (a : Key) (rest : List Key),
    Rel rules s ms {} → ms.pend = none → s.halted = false → s.readyTaskInfos = a :: rest → NoMid s →
    Sim rules s ms (readyStep a { s with readyTaskInfos := rest }) {} (fun _ =>
      NoMid (readyStep a { s with readyTaskInfos := rest }))

def Todo_readyTasksLoop : Prop :=
  ∀ rules, RulesOk rules → ∀ (fuel : Nat) (w : Bool) (s : State) (ms : MSt),
    Rel rules s ms {} → ms.pend = none → s.halted = false → NoMid s →
    Sim rules s ms (readyTasksLoop fuel w s).2 {} (fun _ =>
      (readyTasksLoop fuel w s).2.readyTaskInfos = [] ∧ NoMid (readyTasksLoop fuel w s).2)

/-- `hook(point)`: scheduled completions (`completeKeys`), a scheduled cancellation (`Rel.do_cancel`), and at
points 1/2 `completeSmallest`.  Each completion is `Todo_taskComplete`.  Works in BOTH phases of the token
monitor (`C` and `X` are registration tokens), but is only called with `pend = none`. -/
def Todo_hook : Prop :=
  ∀ rules, RulesOk rules → ∀ (point : Nat) (s : State) (ms : MSt),
    Rel rules s ms {} → ms.pend = none → s.halted = false →
    Sim rules s ms (hook point s) {} (fun _ => NoMid s → NoMid (hook point s))

/-- the wait branch: after hook point 1 some task is finished — NO STALL (`outstandingCount`: tasks are counted
as outstanding exactly while they sit in `pendingDeferred` or `finishedTaskInfos`; if the latter is empty the
former is not, and `hook 1` completes its smallest key at least). -/
def Todo_waitStep : Prop :=
  ∀ rules, RulesOk rules → ∀ (s : State) (ms : MSt),
    Rel rules s ms {} → ms.pend = none → s.halted = false → s.numOutstandingUnfinishedTasks ≠ 0 →
    s.finishedTaskInfos = [] →
    (hook 1 s).halted = false → (hook 1 s).finishedTaskInfos ≠ []

/-! ## E. Finished tasks (`finishedTasksLoop`) -/

/-- body of `finishedTasksLoop` for the popped task `a`: `S a 2`, `L/G…` of `pushDiscovered`, `DS a row` = the merged
event `finished a row`, then the waiters are woken and the task is deleted.  With `noFail` the write succeeds.
Guard of `finished`: `status = computing` and `completed` (`finTaskOk`, `TaskOk.completed`), the row fields through
`res`, `row.builtAt = epoch`, and the dependency list = a permutation of `issued.map toDep` (`depsPerm` with nothing
unprocessed: `TaskOk.computing`) followed by `discDeps discs` (`TaskOk.computing`) — `isPerm` is `List.Perm`.
Delicate: between `S a 2` and `DS` the relation holds with `ms.pend = some a` (`statusOf … = computing`, `pendOk`,
`dummyOk`'s last disjunct for the dummies of the discovered dependencies, `outstandingCount`'s `+1`);
at `DS`: `db`/`dbBuilt`/`dbBuiltLe` (`lookup_rowsSet`), `pendingOk` (the monitor adds the not-yet-done discovered keys:
each has its dummy in `inputRequests`), `finDone` for `requestedBy`, `taskKeys`/`taskOk` after `alErase`
(`outstanding` loses nothing: `requestedBy` moves to `finishedInputRequests`, a permutation). -/
def Todo_finishedTaskStep : Prop :=
  ∀ rules, RulesOk rules → ∀ (s : State) (ms : MSt) (a : Key),
    Rel rules s ms {} → ms.pend = none → s.halted = false → s.finishedTaskInfos.getLast? = some a → NoMid s →
    (finishedTaskWrite a { s with finishedTaskInfos := s.finishedTaskInfos.dropLast }).1 = true ∧
    Sim rules s ms
      (finishedTaskWake a (s.task a) (finishedTaskWrite a { s with finishedTaskInfos := s.finishedTaskInfos.dropLast }).2) {}
      (fun _ => NoMid (finishedTaskWake a (s.task a) (finishedTaskWrite a { s with finishedTaskInfos := s.finishedTaskInfos.dropLast }).2))

def Todo_finishedTasksLoop : Prop :=
  ∀ rules, RulesOk rules → ∀ (fuel : Nat) (w : Bool) (s : State) (ms : MSt),
    Rel rules s ms {} → ms.pend = none → s.halted = false → NoMid s →
    (finishedTasksLoop fuel w s).1 = false ∧
    Sim rules s ms (finishedTasksLoop fuel w s).2.2 {} (fun _ =>
      (finishedTasksLoop fuel w s).2.2.finishedTaskInfos = [] ∧ NoMid (finishedTasksLoop fuel w s).2.2)

/-! ## F. Leaving the loop: success, cycle, cancellation -/

/-- no work left and nothing in progress: the monitor's guard of a successful `ret` holds.  `pending = []` from
`pendingOk` (no input request queued, no scan record alive because `numRulesBeingScanned = 0`, no task);
`errSeen = false` from `errCancelled` and `buildCancelled = false`. -/
def Todo_successExit : Prop :=
  ∀ rules (s : State) (ms : MSt) (key : Key),
    Rel rules s ms {} → ms.pend = none → ms.m.target = some key → Registered s key →
    s.buildCancelled = false → s.taskInfos = [] → s.numRulesBeingScanned = 0 → isComplete s (s.rule key) = true →
    s.ruleInfosToScan = [] → s.inputRequests = [] → s.finishedInputRequests = [] → s.readyTaskInfos = [] →
    s.finishedTaskInfos = [] → s.numOutstandingUnfinishedTasks = 0 → NoMid s →
    RelPost rules key s ms.m true

/-- `findCycle` is correct for the monitor: the list it reports is a lasso of the monitor's wait-for relation
starting at the requested key — or empty when that key is already complete (known finding F30).  Hypothesis: the
depth-first search does not run out of fuel (`cycleSearchOpt`; the model's `cycleSearch` then returns a partial
list WITHOUT halting: model patch M1 in notes/REFINE.md).  This is the graph-theoretic heart of C07: successor
edges = `requestedBy` (task → requesting task: `waitsFor` of a running rule, undelivered request by `outIssued`) and
deferred scan requests (`deferredAtTask`/`deferredAtRecord` + `prefixFresh` give `firstNotDone = some input`);
every predecessor list is sorted, the search keeps the current path in `cycleList`. -/
def Todo_findCycle : Prop :=
  ∀ rules (s : State) (ms : MSt) (key : Key) (ks : List Key),
    Rel rules s ms {} → ms.pend = none → ms.m.target = some key → NoMid s →
    s.ruleInfosToScan = [] → s.inputRequests = [] → s.finishedInputRequests = [] → s.readyTaskInfos = [] →
    s.finishedTaskInfos = [] → s.numOutstandingUnfinishedTasks = 0 →
    findCycle key s = some ks → CycleSearchOk key s →
    lassoOk ms.m key ks = true ∨ (ks.isEmpty = true ∧ isDone ms.m key = true)

/-- `cancelRemainingTasks` at the top of the loop (cancellation), after a reported cycle, or both: the drain
(`C …` tokens through hook point 2; NO STALL by `outstandingCount`), every task's rule reset to never-built
(↔ the monitor's `inflight` reset at `ret 0`: `RelPost.base` is about `resetMem`), scanning rules reset to
`Incomplete` (their results unchanged; the monitor shows them `scanning` until `tail`), queues cleared.  Needs
`NoMid` (a rule left in `NeedsToRun`/`DoesNotNeedToRun` would be taken for scanned by the next build). -/
def Todo_cancelRemainingTasks : Prop :=
  ∀ rules, RulesOk rules → ∀ (s : State) (ms : MSt) (key : Key),
    Rel rules s ms {} → ms.pend = none → s.halted = false → ms.m.target = some key → NoMid s →
    (ms.m.cancelled = true ∨ ms.m.cycleSeen = true ∨ ms.m.errSeen = true ∨ s.buildCancelled = true) →
    (cancelRemainingTasks s).halted = false →
    ∃ toks m', Emits s toks (cancelRemainingTasks s) ∧ trun (program rules) ms toks = some ⟨m', none⟩ ∧
      RelPost rules key (cancelRemainingTasks s) m' false ∧ m'.started = true

/-- `Rel` with a reported cycle: `CY ks` only sets `cycleSeen`, which `Rel.noCycle` forbids, so the step
`emit (CY ks)` goes straight to `cancelRemainingTasks` with a weakened relation.  Statement: the composite
`cancelRemainingTasks (emit (.CY ks) s)` from `Rel` and the lasso. -/
def Todo_cycleExit : Prop :=
  ∀ rules, RulesOk rules → ∀ (s : State) (ms : MSt) (key : Key) (ks : List Key),
    Rel rules s ms {} → ms.pend = none → s.halted = false → ms.m.target = some key → NoMid s →
    (lassoOk ms.m key ks = true ∨ (ks.isEmpty = true ∧ isDone ms.m key = true)) →
    (cancelRemainingTasks (emit (.CY ks) s)).halted = false →
    ∃ toks m', Emits s toks (cancelRemainingTasks (emit (.CY ks) s)) ∧ trun (program rules) ms toks = some ⟨m', none⟩ ∧
      RelPost rules key (cancelRemainingTasks (emit (.CY ks) s)) m' false ∧ m'.started = true

/-! ## G. The loop -/

/-- **`executeLoop`** = `WorkLoopSpec` (the hypothesis of `Main.lean`).  Induction on the fuel with the loop
invariant `Rel rules s ms {} ∧ NoMid s ∧ Registered s key` at the top of each iteration:
`hook 0` (D) → cancel check (F) → scan requests (A) → input requests (B, gives `NoMid` back) → finished inputs (C) →
ready tasks (D) → finished tasks (E) → wait (D) → no work: success (F) or cycle (F). -/
def Todo_workLoop : Prop := ∀ rules, RulesOk rules → WorkLoopSpec rules

/-! ## H. Side conditions -/

/-- once halted, always halted — for every engine function (the per-function lemmas assume "the RESULT is not
halted" and need it for every intermediate state).  `emit`, `halt`, `doCancel`, `getRuleInfoForKey`, `setRule`,
`setTask` are proved in `Spec.lean`. -/
def Todo_haltMono : Prop :=
  (∀ k, HaltMono (fun s => (scanRule k s).2)) ∧ (∀ k, HaltMono (fun s => (demandRule k s).2)) ∧
  (∀ k st, HaltMono (finishScanRequest k st)) ∧ (∀ fuel r, HaltMono (scanLoop fuel r)) ∧
  (∀ r, HaltMono (processRuleScanRequest r)) ∧ (∀ a l, HaltMono (issue a l)) ∧
  (∀ r, HaltMono (processInputRequest r)) ∧ (∀ a r, HaltMono (finishedInputStep a r)) ∧
  (∀ a, HaltMono (readyStep a)) ∧ (∀ a, HaltMono (taskComplete a)) ∧ (∀ p, HaltMono (hook p)) ∧
  (∀ a, HaltMono (fun s => (finishedTaskWrite a s).2)) ∧ HaltMono cancelRemainingTasks ∧
  (∀ fuel w, HaltMono (fun s => (scanRequestsLoop fuel w s).2)) ∧ (∀ fuel w, HaltMono (fun s => (inputRequestsLoop fuel w s).2)) ∧
  (∀ fuel w, HaltMono (fun s => (finishedInputsLoop fuel w s).2)) ∧ (∀ fuel w, HaltMono (fun s => (readyTasksLoop fuel w s).2)) ∧
  (∀ fuel w, HaltMono (fun s => (finishedTasksLoop fuel w s).2.2)) ∧ (∀ key fuel, HaltMono (fun s => (executeLoop key fuel s).2))

/-- `halted` ⇔ the trace of the build contains `FUEL` / `BAD _` (so that `histOk` can be stated on the printed
trace: `NoBad`).  `halt` is the only producer of those tokens and the only writer of `halted := true`;
`runBuild` starts from `trace := [], halted := false`. -/
def Todo_halted_iff_bad : Prop :=
  ∀ (key cancelAt : Nat) (sched : List SchedItem) (s : State),
    (runBuild key cancelAt sched s).halted = false ↔ NoBad (runBuild key cancelAt sched s).trace

/-- the `isPerm` of the monitor's `finished` guard is `List.Perm` -/
def Todo_isPerm : Prop :=
  ∀ (l1 l2 : List Dep), isPerm l1 l2 = true ↔ List.Perm l1 l2

end LLBuild.Refine
