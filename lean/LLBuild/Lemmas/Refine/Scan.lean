/-
IM2 — refinement: `scanRule`.
* `scanRule_eq`: `scanRule` in batched form — one update of the engine proper followed by the recorded tokens
  (`emit` commutes with `setRule` and with the queue push);
* `Rel.scanResult`: the relation for the updated engine (`scanResultState`) against the monitor after
  `scanning k [; valid k v b] [; needs k r]` (`scanResultM`), clause by clause;
* `scanRule_sim : Todo_scanRule` — PROVED.
-/
import LLBuild.Lemmas.Refine.Update
import LLBuild.Lemmas.Refine.Todo

namespace LLBuild.Refine
open LLBuild.Engine LLBuild.Engine.DSL LLBuild.EngineImpl

theorem alSet_alSet {α : Type} : ∀ (l : List (Key × α)) (k : Key) (x y : α), alSet (alSet l k x) k y = alSet l k y
  | [], k, x, y => by simp [alSet]
  | (k0, z) :: rest, k, x, y => by
    by_cases h : k0 = k
    · subst h; simp [alSet]
    · have : (k0 == k) = false := by simpa using h
      simp [alSet, this, alSet_alSet rest k x y]

theorem setRule_setRule (s : State) (a b : RuleInfo) (h : a.key = b.key) : (s.setRule a).setRule b = s.setRule b := by
  simp [State.setRule, h, alSet_alSet]

@[simp] theorem setRule_rules (s : State) (ri : RuleInfo) : (s.setRule ri).rules = s.rules := rfl
@[simp] theorem setRule_env (s : State) (ri : RuleInfo) : (s.setRule ri).env = s.env := rfl
@[simp] theorem setRule_numScanned (s : State) (ri : RuleInfo) : (s.setRule ri).numRulesBeingScanned = s.numRulesBeingScanned := rfl
@[simp] theorem setRule_ruleInfosToScan (s : State) (ri : RuleInfo) : (s.setRule ri).ruleInfosToScan = s.ruleInfosToScan := rfl

theorem state_ext {a b : State} (h1 : a.rules = b.rules) (h2 : a.env = b.env) (h3 : a.store = b.store) (h4 : a.hasDB = b.hasDB)
    (h5 : a.ruleInfos = b.ruleInfos) (h6 : a.taskInfos = b.taskInfos) (h7 : a.ruleInfosToScan = b.ruleInfosToScan)
    (h8 : a.inputRequests = b.inputRequests) (h9 : a.finishedInputRequests = b.finishedInputRequests)
    (h10 : a.readyTaskInfos = b.readyTaskInfos) (h11 : a.finishedTaskInfos = b.finishedTaskInfos)
    (h12 : a.numOutstandingUnfinishedTasks = b.numOutstandingUnfinishedTasks)
    (h13 : a.numRulesBeingScanned = b.numRulesBeingScanned) (h14 : a.currentEpoch = b.currentEpoch)
    (h15 : a.buildCancelled = b.buildCancelled) (h16 : a.shouldResolveCycle = b.shouldResolveCycle)
    (h17 : a.trace = b.trace) (h18 : a.halted = b.halted) (h19 : a.cancelAtEvent = b.cancelAtEvent)
    (h20 : a.cancelIssued = b.cancelIssued) (h21 : a.buildActive = b.buildActive) (h22 : a.sched = b.sched)
    (h23 : a.pendingDeferred = b.pendingDeferred) : a = b := by
  cases a; cases b; simp_all

/-- the rule after `scanRule`'s preamble: single-use dependencies dropped, `wasForced` cleared -/
def scanClean (ri : RuleInfo) : RuleInfo :=
  { ri with result := { ri.result with deps := cleanSingleUseDependencies ri.result.deps }, wasForced := false }

/-- the fresh scan request `scanRule` queues -/
def scanReq0 (k : Key) : RuleScanRequest := { ruleInfo := k, inputIndex := 0, inputRuleInfo := none, orderOnly := false }

/-- the engine update of `scanRule` when a scan starts -/
def scanStartUpd (ri : RuleInfo) (r : RuleScanRequest) (s : State) : State :=
  { s.setRule ri with numRulesBeingScanned := s.numRulesBeingScanned + 1, ruleInfosToScan := s.ruleInfosToScan ++ [r] }

theorem emit_scanStartUpd (t : Tok) (s : State) (ri : RuleInfo) (r : RuleScanRequest) :
    emit t (scanStartUpd ri r s) = scanStartUpd ri r (emit t s) := by
  unfold emit scanStartUpd State.setRule
  by_cases hh : s.halted = true
  · simp [hh]
  · simp only [hh, Bool.false_eq_true, if_false]
    split <;> simp [doCancel] <;> split <;> rfl

theorem scanStartUpd_setRule (ri a : RuleInfo) (r : RuleScanRequest) (s : State) (h : a.key = ri.key) :
    scanStartUpd ri r (s.setRule a) = scanStartUpd ri r s := by
  unfold scanStartUpd
  rw [setRule_setRule _ _ _ h]
  rfl

/-- **`scanRule` in batched form** -/
theorem scanRule_eq (k : Key) (s : State) :
    scanRule k s =
      (let ri := s.rule k
       if isScanned s ri then (true, s) else
       if ri.isScanning then (false, s) else
       let rc := scanClean ri
       if rc.result.builtAt == 0 then
         (true, emitAll [.S k 0, .N k 0 none] (s.setRule { rc with state := .needsToRun }))
       else if rc.signature != rc.result.sig then
         (true, emitAll [.S k 0, .N k 1 none] (s.setRule { rc with state := .needsToRun }))
       else if !(validOf (specOf s.rules k) s.env rc.result.value) then
         (true, emitAll [.S k 0, .V k rc.result.value false, .N k 2 none] (s.setRule { rc with state := .needsToRun }))
       else if rc.result.deps.isEmpty then
         (true, emitAll [.S k 0, .V k rc.result.value true] (s.setRule { rc with state := .doesNotNeedToRun }))
       else
         (false, emitAll [.S k 0, .V k rc.result.value true]
           (scanStartUpd { rc with state := .isScanning, inProgressInfo := .pendingScanRecord {} } (scanReq0 k) s))) := by
  have hk1 : ∀ d st w ip, ({ s.rule k with result := d, state := st, wasForced := w, inProgressInfo := ip } : RuleInfo).key =
      ({ s.rule k with result := d } : RuleInfo).key := fun _ _ _ _ => rfl
  by_cases h1 : isScanned s (s.rule k) = true
  · simp [scanRule, h1]
  by_cases h2 : (s.rule k).isScanning = true
  · simp [scanRule, h1, h2]
  by_cases h3 : (s.rule k).result.builtAt = 0
  · simp [scanRule, h1, h2, h3, scanClean, emit_setRule, setRule_setRule]
  by_cases h4 : (s.rule k).signature = (s.rule k).result.sig
  · by_cases h5 : validOf (specOf s.rules k) s.env (s.rule k).result.value = true
    · by_cases h6 : (cleanSingleUseDependencies (s.rule k).result.deps).isEmpty = true
      · simp [scanRule, h1, h2, h3, h4, h5, h6, scanClean, emit_setRule, setRule_setRule]
      · have e1 := emit_scanStartUpd (.S k 0) s
          { scanClean (s.rule k) with state := .isScanning, inProgressInfo := .pendingScanRecord {} } (scanReq0 k)
        have e2 := emit_scanStartUpd (.V k (s.rule k).result.value true) (emit (.S k 0) s)
          { scanClean (s.rule k) with state := .isScanning, inProgressInfo := .pendingScanRecord {} } (scanReq0 k)
        simp only [emitAll_cons, emitAll_nil]
        simp only [scanClean] at e1 e2 ⊢
        rw [e1, e2]
        simp [scanRule, h1, h2, h3, h4, h5, h6, emit_setRule, setRule_setRule, scanStartUpd, scanReq0]
    · simp [scanRule, h1, h2, h3, h4, h5, scanClean, emit_setRule, setRule_setRule]
  · simp [scanRule, h1, h2, h3, h4, scanClean, emit_setRule, setRule_setRule]



/-- the engine after `scanRule k` reached the verdict `st'` (`NeedsToRun`, `DoesNotNeedToRun`, or `IsScanning`
= a scan was started) -/
def scanResultState (k : Key) (ri0 : RuleInfo) (st' : StateKind) (s : State) : State :=
  if st' = .isScanning then
    scanStartUpd { scanClean ri0 with state := .isScanning, inProgressInfo := .pendingScanRecord {} } (scanReq0 k) s
  else s.setRule { scanClean ri0 with state := st' }

/-- the rule after the verdict -/
def scanResultRule (ri0 : RuleInfo) (st' : StateKind) : RuleInfo :=
  if st' = .isScanning then { scanClean ri0 with state := .isScanning, inProgressInfo := .pendingScanRecord {} }
  else { scanClean ri0 with state := st' }

/-- the monitor after `scanning k` and what follows it (`valid`, `needs`) -/
def scanResultM (m : Engine.St) (k : Key) (mst : Status) (vs : Option Bool) : Engine.St :=
  { m with status := upd m.status k mst, scanned := k :: m.scanned,
           mem := m.mem.setRes k { m.mem.res k with deps := (m.mem.res k).deps.filter (fun d => !d.singleUse) },
           validSeen := upd m.validSeen k vs }

section
variable {s : State} {k : Key} {ri0 : RuleInfo} {st' : StateKind}

theorem scanResult_lookup (hk : ri0.key = k) (k' : Key) :
    (scanResultState k ri0 st' s).ruleInfos.lookup k' =
      if k' = k then some (scanResultRule ri0 st') else s.ruleInfos.lookup k' := by
  unfold scanResultState scanResultRule
  by_cases h : st' = .isScanning
  · simp only [h, if_true, scanStartUpd]
    rw [setRule_lookup]; simp [scanClean, hk]
  · simp only [h, if_false]
    rw [setRule_lookup]; simp [scanClean, hk]

theorem scanResult_rule_ne (hk : ri0.key = k) {k' : Key} (hne : k' ≠ k) :
    (scanResultState k ri0 st' s).rule k' = s.rule k' := by
  unfold State.rule; rw [scanResult_lookup hk]; simp [hne]

theorem scanResult_rule_self (hk : ri0.key = k) :
    (scanResultState k ri0 st' s).rule k = scanResultRule ri0 st' := by
  unfold State.rule; rw [scanResult_lookup hk]; simp

theorem scanResult_taskInfos : (scanResultState k ri0 st' s).taskInfos = s.taskInfos := by
  unfold scanResultState; split <;> rfl
theorem scanResult_inputRequests : (scanResultState k ri0 st' s).inputRequests = s.inputRequests := by
  unfold scanResultState; split <;> rfl
theorem scanResult_finishedInputRequests : (scanResultState k ri0 st' s).finishedInputRequests = s.finishedInputRequests := by
  unfold scanResultState; split <;> rfl
theorem scanResult_readyTaskInfos : (scanResultState k ri0 st' s).readyTaskInfos = s.readyTaskInfos := by
  unfold scanResultState; split <;> rfl
theorem scanResult_finishedTaskInfos : (scanResultState k ri0 st' s).finishedTaskInfos = s.finishedTaskInfos := by
  unfold scanResultState; split <;> rfl
theorem scanResult_pendingDeferred : (scanResultState k ri0 st' s).pendingDeferred = s.pendingDeferred := by
  unfold scanResultState; split <;> rfl
theorem scanResult_numOutstanding : (scanResultState k ri0 st' s).numOutstandingUnfinishedTasks = s.numOutstandingUnfinishedTasks := by
  unfold scanResultState; split <;> rfl
theorem scanResult_currentEpoch : (scanResultState k ri0 st' s).currentEpoch = s.currentEpoch := by
  unfold scanResultState; split <;> rfl
theorem scanResult_scanQ : (scanResultState k ri0 st' s).ruleInfosToScan =
    if st' = .isScanning then s.ruleInfosToScan ++ [scanReq0 k] else s.ruleInfosToScan := by
  unfold scanResultState; split <;> rfl


theorem scanResultRule_key (hk : ri0.key = k) : (scanResultRule ri0 st').key = k := by
  unfold scanResultRule; split <;> exact hk

theorem scanResultRule_state : (scanResultRule ri0 st').state = st' := by
  unfold scanResultRule; split
  · rename_i h; rw [h]
  · rfl

theorem scanResultRule_result : (scanResultRule ri0 st').result = (scanClean ri0).result := by
  unfold scanResultRule; split <;> rfl

theorem scanResultRule_signature : (scanResultRule ri0 st').signature = ri0.signature := by
  unfold scanResultRule; split <;> rfl

/-- the rule list of the result: the entry of `k` replaced -/
theorem scanResult_ruleInfos : (scanResultState k ri0 st' s).ruleInfos = (s.setRule (scanResultRule ri0 st')).ruleInfos := by
  unfold scanResultState scanResultRule; split <;> rfl

theorem scanResult_liveRecords (hl : s.ruleInfos.lookup k = some ri0) (hk : ri0.key = k) (ho : ri0.isScanning = false) :
    (st' ≠ .isScanning → liveRecords (scanResultState k ri0 st' s) = liveRecords s) ∧
    (st' = .isScanning → ∃ a b, liveRecords s = a ++ b ∧ liveRecords (scanResultState k ri0 st' s) = a ++ (k, {}) :: b) := by
  have e : liveRecords (scanResultState k ri0 st' s) = liveRecords (s.setRule (scanResultRule ri0 st')) := by
    unfold liveRecords; rw [scanResult_ruleInfos]
  rw [e]
  constructor
  · intro h
    exact setRule_liveRecords_nn hl (scanResultRule_key hk) ho (by simp [RuleInfo.isScanning, scanResultRule_state, h])
  · intro h
    exact setRule_liveRecords_start hl (scanResultRule_key hk) ho (by simp [RuleInfo.isScanning, scanResultRule_state, h])
      (by unfold scanResultRule; simp [h])

theorem scanResult_pausedAll (hl : s.ruleInfos.lookup k = some ri0) (hk : ri0.key = k) (ho : ri0.isScanning = false) :
    pausedAll (scanResultState k ri0 st' s) = pausedAll s := by
  unfold pausedAll
  by_cases h : st' = .isScanning
  · obtain ⟨a, b, h1, h2⟩ := (scanResult_liveRecords (st' := st') hl hk ho).2 h
    rw [h1, h2]; simp
  · rw [(scanResult_liveRecords (st' := st') hl hk ho).1 h]

theorem scanResult_deferredAll (hl : s.ruleInfos.lookup k = some ri0) (hk : ri0.key = k) (ho : ri0.isScanning = false) :
    deferredAll (scanResultState k ri0 st' s) = deferredAll s := by
  unfold deferredAll
  rw [scanResult_taskInfos]
  by_cases h : st' = .isScanning
  · obtain ⟨a, b, h1, h2⟩ := (scanResult_liveRecords (st' := st') hl hk ho).2 h
    rw [h1, h2]; simp
  · rw [(scanResult_liveRecords (st' := st') hl hk ho).1 h]

theorem scanResult_unprocessed (hl : s.ruleInfos.lookup k = some ri0) (hk : ri0.key = k) (ho : ri0.isScanning = false) (h : Hand) :
    unprocessed (scanResultState k ri0 st' s) h = unprocessed s h := by
  unfold unprocessed; rw [scanResult_pausedAll hl hk ho, scanResult_inputRequests]

theorem scanResult_processed (h : Hand) : processed (scanResultState k ri0 st' s) h = processed s h := by
  unfold processed requestedByAll; rw [scanResult_taskInfos, scanResult_finishedInputRequests]

theorem scanResult_outstanding (hl : s.ruleInfos.lookup k = some ri0) (hk : ri0.key = k) (ho : ri0.isScanning = false) (h : Hand) :
    outstanding (scanResultState k ri0 st' s) h = outstanding s h := by
  unfold outstanding; rw [scanResult_unprocessed hl hk ho, scanResult_processed]

theorem scanResult_scanReqs (hl : s.ruleInfos.lookup k = some ri0) (hk : ri0.key = k) (ho : ri0.isScanning = false) (h : Hand)
    (r : RuleScanRequest) :
    r ∈ scanReqs (scanResultState k ri0 st' s) h ↔ r ∈ scanReqs s h ∨ (st' = .isScanning ∧ r = scanReq0 k) := by
  unfold scanReqs
  rw [scanResult_deferredAll hl hk ho, scanResult_scanQ]
  by_cases hs : st' = .isScanning
  · simp only [hs, if_true, List.mem_append, List.mem_singleton, true_and]
    constructor
    · rintro ((h1 | h1 | h1) | h1)
      · exact Or.inl (Or.inl (Or.inl h1))
      · exact Or.inl (Or.inl (Or.inr h1))
      · exact Or.inr h1
      · exact Or.inl (Or.inr h1)
    · rintro (((h1 | h1) | h1) | h1)
      · exact Or.inl (Or.inl h1)
      · exact Or.inl (Or.inr (Or.inl h1))
      · exact Or.inr h1
      · exact Or.inl (Or.inr (Or.inr h1))
  · simp [hs]

theorem scanResult_scanReqs_count (hl : s.ruleInfos.lookup k = some ri0) (hk : ri0.key = k) (ho : ri0.isScanning = false) (h : Hand)
    (k' : Key) :
    ((scanReqs (scanResultState k ri0 st' s) h).filter (fun r => r.ruleInfo == k')).length =
      ((scanReqs s h).filter (fun r => r.ruleInfo == k')).length + (if st' = .isScanning ∧ k' = k then 1 else 0) := by
  unfold scanReqs
  rw [scanResult_deferredAll hl hk ho, scanResult_scanQ]
  by_cases hs : st' = .isScanning
  · simp only [hs, if_true, true_and, List.filter_append, List.length_append]
    by_cases hk' : k' = k
    · subst hk'; simp [scanReq0]; omega
    · have : (k == k') = false := by simpa using (Ne.symm hk')
      simp [scanReq0, hk', this]
  · simp [hs]

theorem scanResult_scanCount (hl : s.ruleInfos.lookup k = some ri0) (hk : ri0.key = k) (ho : ri0.isScanning = false) :
    ((scanResultState k ri0 st' s).ruleInfos.filter (fun p => p.2.isScanning)).length =
      (s.ruleInfos.filter (fun p => p.2.isScanning)).length + (if st' = .isScanning then 1 else 0) := by
  rw [scanResult_ruleInfos]
  by_cases hs : st' = .isScanning
  · rw [setRule_scanCount_start hl (scanResultRule_key hk) ho (by simp [RuleInfo.isScanning, scanResultRule_state, hs])]
    simp [hs]
  · rw [setRule_scanCount_nn hl (scanResultRule_key hk) ho (by simp [RuleInfo.isScanning, scanResultRule_state, hs])]
    simp [hs]

theorem scanResult_numScanned : (scanResultState k ri0 st' s).numRulesBeingScanned =
    s.numRulesBeingScanned + (if st' = .isScanning then 1 else 0) := by
  unfold scanResultState; split <;> rfl

theorem scanResult_registered (hk : ri0.key = k) {k' : Key} (h : Registered s k') :
    Registered (scanResultState k ri0 st' s) k' := by
  unfold Registered at *
  rw [scanResult_lookup hk]
  by_cases e : k' = k <;> simp [e, h]

end


theorem statusOf_idle_cases {s : State} {pend : Option Key} {k : Key} {ri : RuleInfo}
    (hl : s.ruleInfos.lookup k = some ri) (h : statusOf s pend k = .idle) :
    ri.state = .incomplete ∨ (ri.state = .complete ∧ ri.result.builtAt ≠ s.currentEpoch) := by
  unfold statusOf at h
  rw [hl] at h
  simp only at h
  cases hs : ri.state <;> simp [hs] at h ⊢
  by_cases e : ri.result.builtAt = s.currentEpoch
  · simp [e] at h; split at h <;> cases h
  · exact e

/-- **`scanRule` reached a verdict**: the relation for the updated engine against the monitor after
`scanning k` (+ `valid`, `needs`). -/
theorem Rel.scanResult {rules : List RuleSpec} {s : State} {m : Engine.St} {h : Hand} {k : Key} {ri0 : RuleInfo}
    (hr : Rel rules s ⟨m, none⟩ h) (hl : s.ruleInfos.lookup k = some ri0) (hidle : m.status k = .idle)
    (hin : InHand h s k) (st' : StateKind) (mst : Status) (vs : Option Bool)
    (hcase : (st' = .needsToRun ∧ mst = .needsRun) ∨
      ((st' = .doesNotNeedToRun ∨ st' = .isScanning) ∧ mst = .scanning ∧ vs = some true ∧ ri0.result.builtAt ≠ 0 ∧
        ri0.signature = ri0.result.sig ∧
        (st' = .doesNotNeedToRun → cleanSingleUseDependencies ri0.result.deps = []) ∧
        (st' = .isScanning → cleanSingleUseDependencies ri0.result.deps ≠ []))) :
    Rel rules (scanResultState k ri0 st' s) ⟨scanResultM m k mst vs, none⟩ h := by
  have hk : ri0.key = k := hr.keyOk k ri0 hl
  have hstat0 : statusOf s none k = .idle := by rw [← hr.status k]; exact hidle
  have hst0 := statusOf_idle_cases hl hstat0
  have ho : ri0.isScanning = false := by
    rcases hst0 with h0 | ⟨h0, _⟩ <;> simp [RuleInfo.isScanning, h0]
  have hinp0 : StateKind.inProgress ri0.state = false := by
    rcases hst0 with h0 | ⟨h0, _⟩ <;> simp [StateKind.inProgress, h0]
  -- the possible verdicts
  have hst' : st' = .needsToRun ∨ st' = .doesNotNeedToRun ∨ st' = .isScanning := by
    rcases hcase with ⟨h1, _⟩ | ⟨h1 | h1, _⟩
    · exact Or.inl h1
    · exact Or.inr (Or.inl h1)
    · exact Or.inr (Or.inr h1)
  have hmst : mst = .needsRun ∨ mst = .scanning := by
    rcases hcase with ⟨_, h1⟩ | ⟨_, h1, _⟩
    · exact Or.inl h1
    · exact Or.inr h1
  have hlk := scanResult_lookup (s := s) (st' := st') hk
  have hout := scanResult_outstanding (st' := st') hl hk ho h
  have hunp := scanResult_unprocessed (st' := st') hl hk ho h
  have hproc := scanResult_processed (s := s) (k := k) (ri0 := ri0) (st' := st') h
  -- statuses
  have hstatus' : ∀ k', (scanResultM m k mst vs).status k' = if k' = k then mst else m.status k' := by
    intro k'; simp [scanResultM, upd]
  have hdone : ∀ x, isDone (scanResultM m k mst vs) x = isDone m x := by
    intro x
    unfold isDone
    rw [hstatus']
    by_cases e : x = k
    · subst e; rw [hidle]; rcases hmst with e2 | e2 <;> rw [e2] <;> simp <;> rfl
    · simp [e]
  have hmem' : ∀ k', k' ≠ k → (scanResultM m k mst vs).mem.res k' = m.mem.res k' := by
    intro k' hne; simp [scanResultM, Store.setRes, upd, hne]
  have hold : ∀ k' ri, (scanResultState k ri0 st' s).ruleInfos.lookup k' = some ri → k' ≠ k → s.ruleInfos.lookup k' = some ri := by
    intro k' ri h1 h2; rw [hlk] at h1; simpa [h2] using h1
  have hstatusOf : ∀ k', statusOf (scanResultState k ri0 st' s) none k' = if k' = k then mst else statusOf s none k' := by
    intro k'
    unfold statusOf
    rw [hlk, scanResult_currentEpoch]
    by_cases e : k' = k
    · subst e
      simp only [if_true, scanResultRule_state]
      rcases hcase with ⟨h1, h2⟩ | ⟨h1 | h1, h2, _⟩ <;> simp [h1, h2]
    · simp [e]
  have htaskNone : s.taskInfos.lookup k = none := by
    have := hr.taskKeys k
    rw [hstat0] at this
    cases h1 : s.taskInfos.lookup k with
    | none => rfl
    | some _ => rw [h1] at this; simp at this
  have htask_ne : ∀ a t, s.taskInfos.lookup a = some t → a ≠ k := by
    intro a t h1 e; subst e; rw [htaskNone] at h1; cases h1
  have hreg := fun k' (h1 : Registered s k') => scanResult_registered (st' := st') (s := s) hk h1
  have hfreshdep : ∀ (r : Res) d, depFresh m r d = true → depFresh (scanResultM m k mst vs) r d = true := by
    intro r d hd
    unfold depFresh at hd ⊢
    simp only [Bool.and_eq_true] at hd ⊢
    have hdk : d.key ≠ k := by
      intro e; have := hd.1; rw [e] at this; unfold isDone at this; rw [hidle] at this; simp at this
    rw [hdone, hmem' _ hdk]; exact hd
  have hInHand : ∀ k', InHand h s k' → InHand h (scanResultState k ri0 st' s) k' := by
    intro k' hi
    unfold InHand at *
    rw [scanResult_scanQ, scanResult_inputRequests]
    rcases hi with ⟨r, h1, h2⟩ | h1
    · refine Or.inl ⟨r, ?_, h2⟩
      simp only [List.mem_append] at h1 ⊢
      rcases h1 with h1 | h1
      · exact Or.inl h1
      · right; split
        · exact List.mem_append_left _ h1
        · exact h1
    · exact Or.inr h1
  refine
    { rules_eq := ?rules_eq, env := ?env, hasDB := ?hasDB, noResolve := ?noResolve, noFail := ?noFail,
      epoch := ?epoch, reg := ?reg, keyOk := ?keyOk, rulesNodup := ?rulesNodup, sig := ?sig, res := ?res,
      resUnreg := ?resUnreg, db := ?db, dbBuilt := ?dbBuilt, dbBuiltLe := ?dbBuiltLe, dbIter := ?dbIter,
      builtLe := ?builtLe,
      active := ?active, started := hr.started, notReturned := hr.notReturned, epochPos := ?epochPos,
      cancelled := ?cancelled, errCancelled := ?errCancelled, noCycle := hr.noCycle, targetReg := hr.targetReg,
      status := ?status, pendOk := ?pendOk,
      validIdle := ?validIdle, scanningOk := ?scanningOk, dntrFresh := ?dntrFresh, inScanned := ?inScanned,
      inRan := ?inRan, ranOk := ?ranOk, scanOne := ?scanOne, scanOk := ?scanOk,
      deferredAtRecord := ?deferredAtRecord, deferredAtTask := ?deferredAtTask, recordLive := ?recordLive,
      scanCount := ?scanCount, recordWaited := ?recordWaited, midScan := ?midScan, taskKeys := ?taskKeys,
      taskNodup := ?taskNodup,
      taskOk := ?taskOk, reqReg := ?reqReg, reqTask := ?reqTask, dummyOk := ?dummyOk, dummyUnproc := ?dummyUnproc,
      pausedAt := ?pausedAt, requestedAt := ?requestedAt, finDone := ?finDone, pendingOk := ?pendingOk,
      readyOk := ?readyOk, readyNodup := ?readyNodup, finTaskOk := ?finTaskOk, finTaskNodup := ?finTaskNodup,
      deferredOk := ?deferredOk, deferredNodup := ?deferredNodup, computingWhere := ?computingWhere,
      outstandingCount := ?outstandingCount }
  case rules_eq => rw [← hr.rules_eq]; unfold scanResultState; split <;> rfl
  case env => rw [show (scanResultM m k mst vs).env = m.env from rfl, hr.env]; unfold scanResultState; split <;> rfl
  case hasDB => rw [← hr.hasDB]; unfold scanResultState; split <;> rfl
  case noResolve => rw [← hr.noResolve]; unfold scanResultState; split <;> rfl
  case noFail => rw [← hr.noFail]; unfold scanResultState; split <;> rfl
  case epoch => rw [scanResult_currentEpoch]; exact hr.epoch
  case reg =>
    intro k'
    show m.registered k' = _
    rw [hlk, hr.reg k']
    by_cases e : k' = k
    · subst e; simp [hl]
    · simp [e]
  case keyOk =>
    intro k' ri h1
    rw [hlk] at h1
    by_cases e : k' = k
    · subst e; simp at h1; subst h1; exact scanResultRule_key hk
    · simp [e] at h1; exact hr.keyOk k' ri h1
  case rulesNodup => rw [scanResult_ruleInfos]; exact setRule_rulesNodup _ hr.rulesNodup
  case sig =>
    intro k' ri h1
    rw [hlk] at h1
    show m.sigAt k' = _
    by_cases e : k' = k
    · subst e; simp at h1; subst h1; rw [scanResultRule_signature]; exact hr.sig k' ri0 hl
    · simp [e] at h1; exact hr.sig k' ri h1
  case res =>
    intro k' ri h1
    rw [hlk] at h1
    by_cases e : k' = k
    · subst e; simp at h1; subst h1
      have h0 := hr.res k' ri0 hl
      rw [hinp0] at h0
      have hinp' : StateKind.inProgress (scanResultRule ri0 st').state = false := by
        rw [scanResultRule_state]; rcases hst' with e | e | e <;> simp [StateKind.inProgress, e]
      rw [hinp', scanResultRule_result]
      simp only [scanResultM, Store.setRes, upd_same, scanClean, resRel, cleanSingleUseDependencies] at h0 ⊢
      obtain ⟨a1, a2, a3, a4, a5⟩ := h0
      refine ⟨a1, a2, a3, ?_, ?_⟩
      · simpa using a4
      · intro _ _ hb
        have := a5
        simp at this
        rw [this hb]
    · simp [e] at h1
      rw [hmem' _ e]; exact hr.res k' ri h1
  case resUnreg =>
    intro k' h1
    rw [hlk] at h1
    by_cases e : k' = k
    · subst e; simp at h1
    · simp only [e, if_false] at h1
      rw [hmem' _ e]; exact hr.resUnreg k' h1
  case db => rw [show (scanResultState k ri0 st' s).store = s.store by unfold scanResultState; split <;> rfl]; exact hr.db
  case dbBuilt => rw [show (scanResultState k ri0 st' s).store = s.store by unfold scanResultState; split <;> rfl]; exact hr.dbBuilt
  case dbBuiltLe =>
    rw [show (scanResultState k ri0 st' s).store = s.store by unfold scanResultState; split <;> rfl, scanResult_currentEpoch]
    exact hr.dbBuiltLe
  case dbIter => rw [show (scanResultState k ri0 st' s).store = s.store by unfold scanResultState; split <;> rfl]; exact hr.dbIter
  case builtLe =>
    intro k' ri h1
    rw [hlk] at h1
    rw [scanResult_currentEpoch]
    by_cases e : k' = k
    · subst e; simp at h1; subst h1; rw [scanResultRule_result]; exact hr.builtLe k' ri0 hl
    · simp [e] at h1; exact hr.builtLe k' ri h1
  case active => rw [← hr.active]; unfold scanResultState; split <;> rfl
  case epochPos => rw [scanResult_currentEpoch]; exact hr.epochPos
  case cancelled =>
    rw [show (scanResultState k ri0 st' s).buildCancelled = s.buildCancelled by unfold scanResultState; split <;> rfl]
    exact hr.cancelled
  case errCancelled =>
    rw [show (scanResultState k ri0 st' s).buildCancelled = s.buildCancelled by unfold scanResultState; split <;> rfl]
    exact hr.errCancelled
  case status =>
    intro k'
    rw [hstatusOf, hstatus']
    by_cases e : k' = k
    · simp [e]
    · simp only [e, if_false]; exact hr.status k'
  case pendOk => intro k' hp; cases hp
  case validIdle =>
    intro k' hi
    rw [hstatus'] at hi
    show upd m.validSeen k vs k' = none
    by_cases e : k' = k
    · subst e; simp at hi; rcases hmst with e2 | e2 <;> rw [e2] at hi <;> cases hi
    · simp only [e, if_false] at hi
      simp [upd, e]; exact hr.validIdle k' hi
  case scanningOk =>
    intro k' ri h1 h2
    rw [hlk] at h1
    show upd m.validSeen k vs k' = some true ∧ _
    by_cases e : k' = k
    · subst e; simp at h1; subst h1
      rw [scanResultRule_state] at h2
      rw [scanResultRule_result, scanResultRule_signature]
      rcases hcase with ⟨h3, _⟩ | ⟨_, _, h4, h5, h6, _⟩
      · rcases h2 with h2 | h2 <;> rw [h3] at h2 <;> cases h2
      · simp [upd, h4, scanClean, h5, h6]
    · simp [e] at h1
      simp only [upd, e, if_false]
      exact hr.scanningOk k' ri h1 h2
  case dntrFresh =>
    intro k' ri h1 h2
    rw [hlk] at h1
    by_cases e : k' = k
    · subst e; simp at h1; subst h1
      rw [scanResultRule_state] at h2
      -- no dependencies left
      have hdeps : cleanSingleUseDependencies ri0.result.deps = [] := by
        rcases hcase with ⟨h3, _⟩ | ⟨_, _, _, _, _, h7, _⟩
        · rw [h3] at h2; cases h2
        · exact h7 h2
      have hb : ri0.result.builtAt ≠ 0 := by
        rcases hcase with ⟨h3, _⟩ | ⟨_, _, _, h5, _⟩
        · rw [h3] at h2; cases h2
        · exact h5
      have h0 := hr.res k' ri0 hl
      rw [hinp0] at h0
      have hd := h0.2.2.2.2 rfl rfl hb
      intro d hd'
      simp only [scanResultM, Store.setRes, upd_same] at hd'
      rw [hd] at hd'
      unfold cleanSingleUseDependencies at hdeps
      rw [hdeps] at hd'; cases hd'
    · simp [e] at h1
      rw [hmem' _ e]
      intro d hd
      exact hfreshdep _ d (hr.dntrFresh k' ri h1 h2 d hd)
  case inScanned =>
    intro k' hi
    rw [hstatus'] at hi
    show k' ∈ k :: m.scanned
    by_cases e : k' = k
    · simp [e]
    · simp only [e, if_false] at hi
      exact List.mem_cons_of_mem _ (hr.inScanned k' hi)
  case inRan =>
    intro k' hi
    rw [hstatus'] at hi
    show k' ∈ m.ran
    by_cases e : k' = k
    · subst e; simp at hi; rcases hmst with e2 | e2 <;> rw [e2] at hi <;> rcases hi with hi | hi <;> cases hi
    · simp only [e, if_false] at hi
      exact hr.inRan k' hi
  case ranOk =>
    intro k' hk'
    rw [hstatus']
    have h0 := hr.ranOk k' hk'
    by_cases e : k' = k
    · subst e; rw [hidle] at h0; rcases h0 with h0 | h0 | h0 <;> cases h0
    · simp only [e, if_false]; exact h0
  case scanOne =>
    intro k' ri h1 h2
    rw [hlk] at h1
    rw [scanResult_scanReqs_count hl hk ho]
    by_cases e : k' = k
    · subst e; simp at h1; subst h1
      rw [scanResultRule_state] at h2
      -- `k` was not scanning: it had no live scan request
      have h0 : ((scanReqs s h).filter (fun r => r.ruleInfo == k')).length = 0 := by
        rw [List.length_eq_zero_iff]
        apply List.filter_eq_nil_iff.2
        intro r hr' hrk
        have hsc := (hr.scanOk r hr').scanning
        have : r.ruleInfo = k' := by simpa using hrk
        rw [this, rule_of_lookup hl] at hsc
        simp [RuleInfo.isScanning, hsc] at ho
      rw [h0]; simp [h2]
    · simp [e] at h1
      simp only [e, and_false, if_false, Nat.add_zero]
      exact hr.scanOne k' ri h1 h2
  case scanOk =>
    intro r hm
    rcases (scanResult_scanReqs hl hk ho h r).1 hm with h1 | ⟨h1, h2⟩
    · have h0 := hr.scanOk r h1
      have hne : r.ruleInfo ≠ k := by
        intro e
        have hsc := h0.scanning
        rw [e, rule_of_lookup hl] at hsc
        simp [RuleInfo.isScanning, hsc] at ho
      exact h0.frame hreg (scanResult_rule_ne hk hne) (hmem' _ hne) (hfreshdep _)
    · subst h2
      have hne0 : cleanSingleUseDependencies ri0.result.deps ≠ [] := by
        rcases hcase with ⟨h3, _⟩ | ⟨_, _, _, _, _, _, h8⟩
        · rw [h3] at h1; cases h1
        · exact h8 h1
      refine { reg := ?_, scanning := ?_, inBounds := ?_, prefixFresh := ?_, cached := ?_ }
      · show Registered _ k
        exact hreg k (by simp [Registered, hl])
      · show ((scanResultState k ri0 st' s).rule k).state = _
        rw [scanResult_rule_self hk, scanResultRule_state, h1]
      · show 0 < ((scanResultState k ri0 st' s).rule k).result.deps.length
        rw [scanResult_rule_self hk, scanResultRule_result]
        exact List.length_pos_iff.2 hne0
      · intro d hd; simp [scanReq0] at hd
      · intro i hi; simp [scanReq0] at hi
  case deferredAtRecord =>
    intro p hp
    by_cases hs : st' = .isScanning
    · obtain ⟨a, b, h1, h2⟩ := (scanResult_liveRecords (st' := st') hl hk ho).2 hs
      rw [h2] at hp
      rcases List.mem_append.1 hp with h3 | h3
      · exact hr.deferredAtRecord p (by rw [h1]; exact List.mem_append_left _ h3)
      · rcases List.mem_cons.1 h3 with h3 | h3
        · subst h3; intro r hr'; cases hr'
        · exact hr.deferredAtRecord p (by rw [h1]; exact List.mem_append_right _ h3)
    · rw [(scanResult_liveRecords (st' := st') hl hk ho).1 hs] at hp
      exact hr.deferredAtRecord p hp
  case deferredAtTask => rw [scanResult_taskInfos]; exact hr.deferredAtTask
  case recordLive =>
    intro k' ri h1 h2
    rw [hlk] at h1
    by_cases e : k' = k
    · subst e; simp at h1; subst h1
      rw [scanResultRule_state] at h2
      unfold scanResultRule; simp [h2]
    · simp [e] at h1; exact hr.recordLive k' ri h1 h2
  case scanCount =>
    rw [scanResult_scanCount hl hk ho, scanResult_numScanned, hr.scanCount]
  case recordWaited =>
    intro p hp
    rw [scanResult_scanQ, scanResult_inputRequests]
    have old : ∀ p ∈ liveRecords s, p.2.pausedInputRequests ≠ [] ∨ p.2.deferredScanRequests ≠ [] ∨
        (∃ r ∈ h.scan ++ (if st' = .isScanning then s.ruleInfosToScan ++ [scanReq0 k] else s.ruleInfosToScan), r.inputRuleInfo = some p.1) ∨
        (∃ r ∈ h.inp ++ s.inputRequests, r.inputRuleInfo = p.1) := by
      intro p hp
      rcases hr.recordWaited p hp with h1 | h1 | ⟨r, h1, h2⟩ | h1
      · exact Or.inl h1
      · exact Or.inr (Or.inl h1)
      · refine Or.inr (Or.inr (Or.inl ⟨r, ?_, h2⟩))
        simp only [List.mem_append] at h1 ⊢
        rcases h1 with h1 | h1
        · exact Or.inl h1
        · right; split
          · exact List.mem_append_left _ h1
          · exact h1
      · exact Or.inr (Or.inr (Or.inr h1))
    by_cases hs : st' = .isScanning
    · obtain ⟨a, b, h1, h2⟩ := (scanResult_liveRecords (st' := st') hl hk ho).2 hs
      rw [h2] at hp
      rcases List.mem_append.1 hp with h3 | h3
      · exact old p (by rw [h1]; exact List.mem_append_left _ h3)
      · rcases List.mem_cons.1 h3 with h3 | h3
        · subst h3
          have := hInHand k hin
          unfold InHand at this
          rw [scanResult_scanQ, scanResult_inputRequests] at this
          exact Or.inr (Or.inr this)
        · exact old p (by rw [h1]; exact List.mem_append_right _ h3)
    · rw [(scanResult_liveRecords (st' := st') hl hk ho).1 hs] at hp
      exact old p hp
  case midScan =>
    intro k' ri h1 h2
    rw [hlk] at h1
    by_cases e : k' = k
    · subst e
      exact hInHand k' hin
    · simp [e] at h1
      exact hInHand k' (hr.midScan k' ri h1 h2)
  case taskKeys =>
    intro k'
    rw [scanResult_taskInfos, hstatusOf]
    by_cases e : k' = k
    · subst e; rw [htaskNone]; simp; rcases hmst with e2 | e2 <;> rw [e2] <;> decide
    · simp only [e, if_false]; exact hr.taskKeys k'
  case taskNodup => rw [scanResult_taskInfos]; exact hr.taskNodup
  case taskOk =>
    intro a t h1
    rw [scanResult_taskInfos] at h1
    have hne := htask_ne a t h1
    refine (hr.taskOk a t h1).frame (scanResult_rule_ne hk hne) rfl (by rw [hout]) (by rw [hunp]) rfl rfl rfl
      (fun x hx => by rw [hdone]; exact hx) ?_
    unfold priorDue
    rw [hmem' _ hne]; rfl
  case reqReg =>
    intro r hm; rw [hout] at hm
    exact ⟨hreg _ (hr.reqReg r hm).1, (hr.reqReg r hm).2⟩
  case reqTask =>
    intro r hm a ha; rw [hout] at hm
    obtain ⟨h1, h2⟩ := hr.reqTask r hm a ha
    rw [scanResult_taskInfos]
    obtain ⟨t, ht⟩ := Option.isSome_iff_exists.1 h1
    exact ⟨h1, by rw [scanResult_rule_ne hk (htask_ne a t ht)]; exact h2⟩
  case dummyOk =>
    intro r hm hn; rw [hunp] at hm
    rw [hstatus', scanResult_taskInfos]
    rcases hr.dummyOk r hm hn with h1 | h1 | h1 | ⟨k2, t, h1, _⟩
    · left
      by_cases e : r.inputRuleInfo = k
      · simp [e]; rcases hmst with e2 | e2 <;> rw [e2] <;> decide
      · simp only [e, if_false]; exact h1
    · exact Or.inr (Or.inl h1)
    · exact Or.inr (Or.inr (Or.inl h1))
    · cases h1
  case dummyUnproc => rw [hproc]; exact hr.dummyUnproc
  case pausedAt =>
    intro p hp
    by_cases hs : st' = .isScanning
    · obtain ⟨a, b, h1, h2⟩ := (scanResult_liveRecords (st' := st') hl hk ho).2 hs
      rw [h2] at hp
      rcases List.mem_append.1 hp with h3 | h3
      · exact hr.pausedAt p (by rw [h1]; exact List.mem_append_left _ h3)
      · rcases List.mem_cons.1 h3 with h3 | h3
        · subst h3; intro r hr'; cases hr'
        · exact hr.pausedAt p (by rw [h1]; exact List.mem_append_right _ h3)
    · rw [(scanResult_liveRecords (st' := st') hl hk ho).1 hs] at hp
      exact hr.pausedAt p hp
  case requestedAt => rw [scanResult_taskInfos]; exact hr.requestedAt
  case finDone =>
    intro r hm
    rw [scanResult_finishedInputRequests] at hm
    rw [hdone]; exact hr.finDone r hm
  case pendingOk =>
    intro p hp
    rw [hunp, scanResult_taskInfos]
    exact hr.pendingOk p hp
  case readyOk =>
    intro a ha
    rw [scanResult_readyTaskInfos] at ha
    obtain ⟨t, h1, h2, h3⟩ := hr.readyOk a ha
    exact ⟨t, by rw [scanResult_taskInfos]; exact h1, by rw [scanResult_rule_ne hk (htask_ne a t h1)]; exact h2, h3⟩
  case readyNodup => rw [scanResult_readyTaskInfos]; exact hr.readyNodup
  case finTaskOk =>
    intro a ha
    rw [scanResult_finishedTaskInfos] at ha
    obtain ⟨t, h1, h2, h3⟩ := hr.finTaskOk a ha
    exact ⟨t, by rw [scanResult_taskInfos]; exact h1, by rw [scanResult_rule_ne hk (htask_ne a t h1)]; exact h2, h3⟩
  case finTaskNodup => rw [scanResult_finishedTaskInfos]; exact hr.finTaskNodup
  case deferredOk =>
    intro a ha
    rw [scanResult_pendingDeferred] at ha
    obtain ⟨t, h1, h2, h3⟩ := hr.deferredOk a ha
    exact ⟨t, by rw [scanResult_taskInfos]; exact h1, by rw [scanResult_rule_ne hk (htask_ne a t h1)]; exact h2, h3⟩
  case deferredNodup => rw [scanResult_pendingDeferred]; exact hr.deferredNodup
  case computingWhere =>
    intro a t h1 h2
    rw [scanResult_taskInfos] at h1
    rw [scanResult_rule_ne hk (htask_ne a t h1)] at h2
    rw [scanResult_pendingDeferred, scanResult_finishedTaskInfos]
    exact hr.computingWhere a t h1 h2
  case outstandingCount =>
    rw [scanResult_numOutstanding, scanResult_pendingDeferred, scanResult_finishedTaskInfos]
    exact hr.outstandingCount


theorem upd_upd {α : Type} (f : Key → α) (k : Key) (a b : α) : upd (upd f k a) k b = upd f k b := by
  funext x; simp only [upd]; split <;> rfl

theorem upd_self {α : Type} (f : Key → α) (k : Key) : upd f k (f k) = f := by
  funext x; simp only [upd]; split
  · rename_i h; rw [h]
  · rfl

theorem SameEngine.trans {s1 s2 s3 : State} (a : SameEngine s1 s2) (b : SameEngine s2 s3) : SameEngine s1 s3 :=
  { rules := b.rules.trans a.rules, env := b.env.trans a.env, store := b.store.trans a.store, hasDB := b.hasDB.trans a.hasDB,
    ruleInfos := b.ruleInfos.trans a.ruleInfos,
    taskInfos := b.taskInfos.trans a.taskInfos, ruleInfosToScan := b.ruleInfosToScan.trans a.ruleInfosToScan,
    inputRequests := b.inputRequests.trans a.inputRequests,
    finishedInputRequests := b.finishedInputRequests.trans a.finishedInputRequests,
    readyTaskInfos := b.readyTaskInfos.trans a.readyTaskInfos, finishedTaskInfos := b.finishedTaskInfos.trans a.finishedTaskInfos,
    numOutstandingUnfinishedTasks := b.numOutstandingUnfinishedTasks.trans a.numOutstandingUnfinishedTasks,
    numRulesBeingScanned := b.numRulesBeingScanned.trans a.numRulesBeingScanned, currentEpoch := b.currentEpoch.trans a.currentEpoch,
    shouldResolveCycle := b.shouldResolveCycle.trans a.shouldResolveCycle, buildActive := b.buildActive.trans a.buildActive,
    cancelAtEvent := b.cancelAtEvent.trans a.cancelAtEvent, sched := b.sched.trans a.sched,
    pendingDeferred := b.pendingDeferred.trans a.pendingDeferred,
    cancelMono := fun h => b.cancelMono (a.cancelMono h) }

theorem emitAll_same : ∀ (toks : List Tok) (s : State), SameEngine s (emitAll toks s)
  | [], s => SameEngine.rfl' s
  | t :: rest, s => (emit_same t s).trans (emitAll_same rest (emit t s))

/-- the monitor runs of the five token sequences of `scanRule` -/
theorem run_scanning {P : Program} {m : Engine.St} {k : Key} (hst : m.started = true) (hidle : m.status k = .idle)
    (hreg : m.registered k = true) (hdem : demanded m k = true) :
    step P m (.scanning k) = some (scanResultM m k .scanning (m.validSeen k)) := by
  simp [step, hst, hidle, hreg, hdem, scanResultM, upd_self]

theorem run_needs {P : Program} {m : Engine.St} {k : Key} {vs : Option Bool} {reason : Nat}
    (hok : needsOk (scanResultM m k .scanning vs) k reason none = true) :
    step P (scanResultM m k .scanning vs) (.needs k reason none) = some (scanResultM m k .needsRun vs) := by
  have : (scanResultM m k .scanning vs).status k = .scanning := by simp [scanResultM]
  simp only [step, this, hok, beq_self_eq_true, Bool.and_self, if_true]
  simp [scanResultM, upd_upd]

theorem run_valid {P : Program} {m : Engine.St} {k : Key} {v : Val} {b : Bool}
    (hb : (m.mem.res k).builtAt ≠ 0) (hsig : (m.mem.res k).sig = m.sigAt k) (hv : v = (m.mem.res k).value)
    (hbv : b = P.valid m.env k v) (hvs : m.validSeen k = none) :
    step P (scanResultM m k .scanning (m.validSeen k)) (.valid k v b) = some (scanResultM m k .scanning (some b)) := by
  have h1 : (scanResultM m k .scanning (m.validSeen k)).status k = .scanning := by simp [scanResultM]
  simp only [step, h1]
  simp [scanResultM, Store.setRes, hb, hsig, hv, hbv, hvs, upd_upd]


theorem scanResult_InHand {s : State} {k : Key} {ri0 : RuleInfo} {st' : StateKind} {h : Hand} (k' : Key)
    (hi : InHand h s k') : InHand h (scanResultState k ri0 st' s) k' := by
  unfold InHand at *
  rw [scanResult_scanQ, scanResult_inputRequests]
  rcases hi with ⟨r, h1, h2⟩ | h1
  · refine Or.inl ⟨r, ?_, h2⟩
    simp only [List.mem_append] at h1 ⊢
    rcases h1 with h1 | h1
    · exact Or.inl h1
    · right; split
      · exact List.mem_append_left _ h1
      · exact h1
  · exact Or.inr h1

theorem InHand_same {s s' : State} {h : Hand} {k : Key} (hs : SameEngine s s') (hi : InHand h s k) : InHand h s' k := by
  unfold InHand at *
  rw [hs.ruleInfosToScan, hs.inputRequests]; exact hi

theorem rule_same {s s' : State} (hs : SameEngine s s') (k : Key) : s'.rule k = s.rule k := by
  unfold State.rule; rw [hs.ruleInfos]

theorem isScanned_same {s s' : State} (hs : SameEngine s s') (ri : RuleInfo) : isScanned s' ri = isScanned s ri := by
  unfold isScanned isComplete; rw [hs.currentEpoch]

/-- the common end of the five non-trivial branches of `scanRule` -/
theorem scanRule_finish {rules : List RuleSpec} {s : State} {m : Engine.St} {h : Hand} {k : Key} {ri0 : RuleInfo}
    (hr : Rel rules s ⟨m, none⟩ h) (hh : s.halted = false) (hl : s.ruleInfos.lookup k = some ri0)
    (hidle : m.status k = .idle) (hin : InHand h s k) (st' : StateKind) (mst : Status) (vs : Option Bool)
    (hcase : (st' = .needsToRun ∧ mst = .needsRun) ∨
      ((st' = .doesNotNeedToRun ∨ st' = .isScanning) ∧ mst = .scanning ∧ vs = some true ∧ ri0.result.builtAt ≠ 0 ∧
        ri0.signature = ri0.result.sig ∧
        (st' = .doesNotNeedToRun → cleanSingleUseDependencies ri0.result.deps = []) ∧
        (st' = .isScanning → cleanSingleUseDependencies ri0.result.deps ≠ [])))
    (toks : List Tok) (hsafe : ∀ t ∈ toks, Tok.cancelSafe t = true)
    (hrun : trun (program rules) ⟨m, none⟩ toks = some ⟨scanResultM m k mst vs, none⟩) (b : Bool)
    (hb : b = !(decide (st' = .isScanning))) :
    Sim rules s ⟨m, none⟩ (emitAll toks (scanResultState k ri0 st' s)) h (fun _ =>
      InHand h (emitAll toks (scanResultState k ri0 st' s)) k ∧
      (b = true → isScanned (emitAll toks (scanResultState k ri0 st' s)) ((emitAll toks (scanResultState k ri0 st' s)).rule k) = true) ∧
      (b = false → ((emitAll toks (scanResultState k ri0 st' s)).rule k).state = .isScanning)) := by
  intro _
  have hk : ri0.key = k := hr.keyOk k ri0 hl
  have hrel := hr.scanResult hl hidle hin st' mst vs hcase
  have hhX : (scanResultState k ri0 st' s).halted = false := by
    rw [← hh]; unfold scanResultState; split <;> rfl
  obtain ⟨toks', ms'', he, hrun', hrel', hms⟩ := Rel.emit_list toks _ _ _ hhX hsafe hrun hrel
  have hsame := emitAll_same toks (scanResultState k ri0 st' s)
  have htrace : (scanResultState k ri0 st' s).trace = s.trace := by unfold scanResultState; split <;> rfl
  refine ⟨toks', ms'', ?_, hrun', hrel', ?_, ?_, ?_, ?_, ?_, ?_⟩
  · unfold Emits at he ⊢; rw [he, htrace]
  · rcases hms with e | e <;> rw [e] <;> rfl
  · intro k' hk'
    unfold Registered at *
    rw [hsame.ruleInfos]
    exact scanResult_registered hk hk'
  · rcases hms with e | e <;> rw [e] <;> rfl
  · exact InHand_same hsame (scanResult_InHand k hin)
  · intro hbt
    rw [rule_same hsame, isScanned_same hsame, scanResult_rule_self hk]
    have hns : st' ≠ .isScanning := by
      intro e; rw [hb, e] at hbt; simp at hbt
    unfold isScanned
    rw [scanResultRule_state]
    rcases hcase with ⟨h1, _⟩ | ⟨h1 | h1, _⟩
    · rw [h1]; simp [StateKind.toNat]
    · rw [h1]; simp [StateKind.toNat]
    · exact absurd h1 hns
  · intro hbf
    rw [rule_same hsame, scanResult_rule_self hk, scanResultRule_state]
    rw [hb] at hbf; simpa using hbf


theorem statusOf_of_not_scanned {s : State} {k : Key} {ri : RuleInfo} (hl : s.ruleInfos.lookup k = some ri)
    (h1 : ¬ isScanned s ri = true) (h2 : ¬ ri.isScanning = true) : statusOf s none k = .idle := by
  unfold statusOf
  rw [hl]
  simp only
  unfold isScanned isComplete at h1
  unfold RuleInfo.isScanning at h2
  cases hs : ri.state <;> simp [hs, StateKind.toNat] at h1 h2 ⊢
  exact h1

theorem scanResultState_ne {s : State} {k : Key} {ri0 : RuleInfo} {st' : StateKind} (h : st' ≠ .isScanning) :
    scanResultState k ri0 st' s = s.setRule { scanClean ri0 with state := st' } := by
  unfold scanResultState; rw [if_neg h]

theorem scanResultState_scanning {s : State} {k : Key} {ri0 : RuleInfo} :
    scanResultState k ri0 .isScanning s =
      scanStartUpd { scanClean ri0 with state := .isScanning, inProgressInfo := .pendingScanRecord {} } (scanReq0 k) s := by
  unfold scanResultState; rw [if_pos rfl]

/-- **`scanRule` refines the monitor** -/
theorem scanRule_sim : Todo_scanRule := by
  intro rules _ s ms h k hr hp hh hreg hin hdem
  obtain ⟨m, pend⟩ := ms
  simp only at hp; subst hp
  obtain ⟨ri0, hl⟩ := Option.isSome_iff_exists.1 hreg
  have hrule : s.rule k = ri0 := rule_of_lookup hl
  rw [scanRule_eq]
  simp only [hrule]
  by_cases h1 : isScanned s ri0 = true
  · simp only [h1, if_true]
    intro _
    exact ⟨[], ⟨m, none⟩, Emits.refl s, rfl, hr, rfl, fun _ x => x, rfl, hin, fun _ => (by rw [hrule]; exact h1),
      fun x => (by cases x)⟩
  by_cases h2 : ri0.isScanning = true
  · simp only [h1, h2, if_true, Bool.false_eq_true, if_false]
    intro _
    exact ⟨[], ⟨m, none⟩, Emits.refl s, rfl, hr, rfl, fun _ x => x, rfl, hin, fun x => (by cases x),
      fun _ => (by rw [hrule]; simpa [RuleInfo.isScanning] using h2)⟩
  simp only [h1, h2, Bool.false_eq_true, if_false]
  -- the rule is idle for the monitor
  have hidle : m.status k = .idle := by
    have := hr.status k; simp only at this; rw [this]; exact statusOf_of_not_scanned hl h1 h2
  have hdemk := hdem hidle
  have hregm : m.registered k = true := by rw [hr.reg k, hl]; rfl
  have hinp0 : StateKind.inProgress ri0.state = false := by
    have := statusOf_idle_cases hl (statusOf_of_not_scanned hl h1 h2)
    rcases this with h0 | ⟨h0, _⟩ <;> simp [StateKind.inProgress, h0]
  have hres := hr.res k ri0 hl
  rw [hinp0] at hres
  obtain ⟨rv, rs, _, rb, _⟩ := hres
  have rb' : (m.mem.res k).builtAt = ri0.result.builtAt := rb rfl
  have hsigAt : m.sigAt k = ri0.signature := hr.sig k ri0 hl
  have hvalidNone : m.validSeen k = none := hr.validIdle k hidle
  have hS : tstep (program rules) ⟨m, none⟩ (.S k 0) = some ⟨scanResultM m k .scanning (m.validSeen k), none⟩ :=
    tstep_ev (by rfl) (by rfl) (run_scanning hr.started hidle hregm hdemk)
  have hresS : ∀ vs, ((scanResultM m k .scanning vs).mem.res k).builtAt = ri0.result.builtAt := by
    intro vs; simp [scanResultM, Store.setRes, rb']
  by_cases h3 : ri0.result.builtAt = 0
  · -- never built
    have hc : ((scanClean ri0).result.builtAt == 0) = true := by simp [scanClean, h3]
    simp only [hc, if_true]
    rw [← scanResultState_ne (k := k) (st' := .needsToRun) (by decide)]
    have hN : tstep (program rules) ⟨scanResultM m k .scanning (m.validSeen k), none⟩ (.N k 0 none) =
        some ⟨scanResultM m k .needsRun (m.validSeen k), none⟩ :=
      tstep_ev (by rfl) (by rfl) (run_needs (by simp [needsOk, hresS, h3]))
    refine (scanRule_finish hr hh hl hidle hin .needsToRun .needsRun (m.validSeen k) (Or.inl ⟨rfl, rfl⟩)
      [.S k 0, .N k 0 none] (by intro t ht; simp at ht; rcases ht with e | e <;> subst e <;> rfl)
      (by simp [trun, hS, hN]) true (by decide)).mono ?_
    intro _ ⟨a, b, c⟩; exact ⟨a, by simpa using b, by simpa using c⟩
  have hc3 : ((scanClean ri0).result.builtAt == 0) = false := by simp [scanClean, h3]
  simp only [hc3, Bool.false_eq_true, if_false]
  by_cases h4 : ri0.signature = ri0.result.sig
  · have hc4 : ((scanClean ri0).signature != (scanClean ri0).result.sig) = false := by simp [scanClean, h4]
    simp only [hc4, Bool.false_eq_true, if_false]
    have hval : (scanClean ri0).result.value = ri0.result.value := rfl
    have hV : ∀ b, b = validOf (specOf s.rules k) s.env ri0.result.value →
        tstep (program rules) ⟨scanResultM m k .scanning (m.validSeen k), none⟩ (.V k ri0.result.value b) =
          some ⟨scanResultM m k .scanning (some b), none⟩ := by
      intro b hb
      refine tstep_ev (by rfl) (by rfl) (run_valid (by rw [rb']; exact h3) (by rw [rs, hsigAt, h4]) rv.symm ?_ hvalidNone)
      rw [hb, hr.rules_eq, ← hr.env]; rfl
    by_cases h5 : validOf (specOf s.rules k) s.env ri0.result.value = true
    · simp only [hval, h5, Bool.not_true, Bool.false_eq_true, if_false]
      by_cases h6 : (scanClean ri0).result.deps.isEmpty = true
      · simp only [h6, if_true]
        rw [← scanResultState_ne (k := k) (st' := .doesNotNeedToRun) (by decide)]
        have hd : cleanSingleUseDependencies ri0.result.deps = [] := by simpa [scanClean] using h6
        refine (scanRule_finish hr hh hl hidle hin .doesNotNeedToRun .scanning (some true)
          (Or.inr ⟨Or.inl rfl, rfl, rfl, h3, h4, fun _ => hd, fun e => (by cases e)⟩)
          [.S k 0, .V k ri0.result.value true]
          (by intro t ht; simp at ht; rcases ht with e | e <;> subst e <;> rfl)
          (by simp [trun, hS, hV true h5.symm]) true (by decide)).mono ?_
        intro _ ⟨a, b, c⟩; exact ⟨a, by simpa using b, by simpa using c⟩
      · simp only [h6, Bool.false_eq_true, if_false]
        rw [← scanResultState_scanning]
        have hd : cleanSingleUseDependencies ri0.result.deps ≠ [] := by simpa [scanClean] using h6
        refine (scanRule_finish hr hh hl hidle hin .isScanning .scanning (some true)
          (Or.inr ⟨Or.inr rfl, rfl, rfl, h3, h4, fun e => (by cases e), fun _ => hd⟩)
          [.S k 0, .V k ri0.result.value true]
          (by intro t ht; simp at ht; rcases ht with e | e <;> subst e <;> rfl)
          (by simp [trun, hS, hV true h5.symm]) false (by decide)).mono ?_
        intro _ ⟨a, b, c⟩; exact ⟨a, by simpa using b, by simpa using c⟩
    · have h5' : validOf (specOf s.rules k) s.env ri0.result.value = false := by simpa using h5
      simp only [hval, h5', Bool.not_false, if_true]
      rw [← scanResultState_ne (k := k) (st' := .needsToRun) (by decide)]
      have hN : tstep (program rules) ⟨scanResultM m k .scanning (some false), none⟩ (.N k 2 none) =
          some ⟨scanResultM m k .needsRun (some false), none⟩ :=
        tstep_ev (by rfl) (by rfl) (run_needs (by simp [needsOk, scanResultM]))
      refine (scanRule_finish hr hh hl hidle hin .needsToRun .needsRun (some false) (Or.inl ⟨rfl, rfl⟩)
        [.S k 0, .V k ri0.result.value false, .N k 2 none]
        (by intro t ht; simp at ht; rcases ht with e | e | e <;> subst e <;> rfl)
        (by simp [trun, hS, hV false h5'.symm, hN]) true (by decide)).mono ?_
      intro _ ⟨a, b, c⟩; exact ⟨a, by simpa using b, by simpa using c⟩
  · -- signature changed
    have hc4 : ((scanClean ri0).signature != (scanClean ri0).result.sig) = true := by simp [scanClean, h4]
    simp only [hc4, if_true]
    rw [← scanResultState_ne (k := k) (st' := .needsToRun) (by decide)]
    have hN : tstep (program rules) ⟨scanResultM m k .scanning (m.validSeen k), none⟩ (.N k 1 none) =
        some ⟨scanResultM m k .needsRun (m.validSeen k), none⟩ := by
      refine tstep_ev (by rfl) (by rfl) (run_needs ?_)
      simp only [needsOk, hresS]
      have e1 : ((scanResultM m k Status.scanning (m.validSeen k)).mem.res k).sig = ri0.result.sig := by
        simp [scanResultM, Store.setRes]; exact rs
      have e2 : (scanResultM m k Status.scanning (m.validSeen k)).sigAt k = ri0.signature := hsigAt
      rw [e1, e2]
      simp only [Bool.and_eq_true, bne_iff_ne, ne_eq]
      exact ⟨h3, fun e => h4 e.symm⟩
    refine (scanRule_finish hr hh hl hidle hin .needsToRun .needsRun (m.validSeen k) (Or.inl ⟨rfl, rfl⟩)
      [.S k 0, .N k 1 none] (by intro t ht; simp at ht; rcases ht with e | e <;> subst e <;> rfl)
      (by simp [trun, hS, hN]) true (by decide)).mono ?_
    intro _ ⟨a, b, c⟩; exact ⟨a, by simpa using b, by simpa using c⟩

end LLBuild.Refine
