/-
The schedule-free reference read off the CONCRETE engine state.

`snapC rules s`: the snapshot (`Lemmas/Engine/Exec1.lean`) of the concrete state `s` between two builds — external state, the
epoch the next build will run in, for every rule the result the engine holds (`RuleInfo.result` of a registered rule, the
database row — or the empty result — of an unregistered one) and its signature (`rule->signature`, resp. what the delegate
will compute at registration).  From `RelIdle rules s m` it agrees with the monitor's snapshot on everything the reference
looks at (`snapEq_of_relIdle`; the dependency list of a never-built result is not compared: nobody reads it), so
`build_executed_iff_concrete : T k ∈ trace ↔ MustRun (program rules) (snapC rules s) key k`.
Also: `evOfToks_mem` (where the events of a token list come from) and `trun_ran` (the monitor's `ran` along tokens).
-/
import LLBuild.Lemmas.Engine.Exec5
import LLBuild.Lemmas.Refine.Sched5End

namespace LLBuild.Refine
open LLBuild.Engine LLBuild.Engine.DSL LLBuild.EngineImpl

/-- the result the engine holds for `k`: in memory if the rule is registered, else what the database has -/
def engineRes (s : State) (k : Key) : Res :=
  match s.ruleInfos.lookup k with
  | some ri => ri.result
  | none => (s.store.rows.lookup k).getD {}

/-- **the snapshot of the concrete state** -/
def snapC (rules : List RuleSpec) (s : State) : Snap where
  env := s.env
  epoch := s.currentEpoch + 1
  res := engineRes s
  sg := fun k =>
    match s.ruleInfos.lookup k with
    | some ri => ri.signature
    | none => sigOf (specOf rules k) s.env

theorem snapEq_of_relIdle {rules : List RuleSpec} {s : State} {m : Engine.St} (hr : RelIdle rules s m) :
    SnapEq (snapOf (program rules) m) (snapC rules s) := by
  have hres : ∀ k, (m.mem.res k).value = (engineRes s k).value ∧ (m.mem.res k).sig = (engineRes s k).sig ∧
      (m.mem.res k).computedAt = (engineRes s k).computedAt ∧ (m.mem.res k).builtAt = (engineRes s k).builtAt ∧
      ((m.mem.res k).builtAt ≠ 0 → (m.mem.res k).deps = (engineRes s k).deps) := by
    intro k
    unfold engineRes
    cases hl : s.ruleInfos.lookup k with
    | none =>
      have : m.mem.res k = (s.store.rows.lookup k).getD {} := (hr.resUnreg k hl).trans (hr.db k)
      rw [this]
      exact ⟨rfl, rfl, rfl, rfl, fun _ => rfl⟩
    | some ri =>
      obtain ⟨h1, h2, h3, h4, h5⟩ := hr.res k ri hl
      have hp : ((none : Option Key) == some k) = false := rfl
      have hfl : StateKind.inProgress ri.state = false := by
        rcases hr.states k ri hl with e | e <;> rw [e] <;> rfl
      have hb := h4 hp
      refine ⟨h1, h2, h3, hb, fun hne => h5 hp hfl (by rw [← hb]; exact hne)⟩
  refine { env := hr.env, epoch := ?_, sg := ?_, value := fun k => (hres k).1, sig := fun k => (hres k).2.1,
           computedAt := fun k => (hres k).2.2.1, builtAt := fun k => (hres k).2.2.2.1, deps := fun k => (hres k).2.2.2.2 }
  · show m.epoch + 1 = s.currentEpoch + 1
    rw [hr.epoch]
  · funext k
    show (if m.registered k then m.sigAt k else (program rules).sig m.env k) = _
    unfold snapC
    simp only
    cases hl : s.ruleInfos.lookup k with
    | none =>
      have : m.registered k = false := by rw [hr.reg k, hl]; rfl
      rw [this, hr.env]; rfl
    | some ri =>
      have : m.registered k = true := by rw [hr.reg k, hl]; rfl
      rw [this]; exact hr.sig k ri hl

/-- **the executed set of a successful build, from the concrete state** -/
theorem build_executed_iff_concrete {rules : List RuleSpec} (hok : RulesOk rules) (hdet : DSL.det rules = true)
    {s : State} {m : Engine.St} (hr : RelIdle rules s m) (h2 : Inv2 m)
    (key cancelAt : Nat) (sched : List SchedItem) (a : Async) (hsize : workBound rules s key + 2 < scanFuel)
    (hnf : NoFail (runBuildA key cancelAt sched a s).trace.reverse) (k : Key) :
    Tok.T k ∈ (runBuildA key cancelAt sched a s).trace.reverse ↔ MustRun (program rules) (snapC rules s) key k :=
  (build_executed_iff hok hdet hr h2 key cancelAt sched a hsize hnf k).trans ((snapEq_of_relIdle hr).mustRun key k)

/-! ## where the events of a token list come from -/

theorem evOfToks_mem : ∀ (toks : List Tok) (ph : Option Key) (evs : List Event), evOfToks ph toks = some evs →
    ∀ e ∈ evs, ∃ t ∈ toks, t.toEvent? = some e ∨ ∃ k row, t = .DS k row ∧ e = .finished k row
  | [], ph, evs, h, e, he => by
    rw [evOfToks_nil] at h; cases h; cases he
  | t :: ts, none, evs, h, e, he => by
    simp only [evOfToks] at h
    cases hS : Tok.isS2 t with
    | some k =>
      rw [hS] at h
      obtain ⟨t', ht', hh⟩ := evOfToks_mem ts (some k) evs h e he
      exact ⟨t', List.mem_cons_of_mem _ ht', hh⟩
    | none =>
      rw [hS] at h
      simp only at h
      cases hte : t.toEvent? with
      | none => rw [hte] at h; cases h
      | some e0 =>
        rw [hte] at h
        simp only at h
        cases hr : evOfToks none ts with
        | none => rw [hr] at h; cases h
        | some b =>
          rw [hr] at h
          simp only [Option.map_some, Option.some.injEq] at h
          subst h
          rcases List.mem_cons.1 he with e1 | e1
          · subst e1; exact ⟨t, List.mem_cons_self, Or.inl hte⟩
          · obtain ⟨t', ht', hh⟩ := evOfToks_mem ts none b hr e e1
            exact ⟨t', List.mem_cons_of_mem _ ht', hh⟩
  | t :: ts, some k, evs, h, e, he => by
    cases t with
    | DS k' row =>
      simp only [evOfToks] at h
      split at h
      · rename_i hk
        cases hr : evOfToks none ts with
        | none => rw [hr] at h; cases h
        | some b =>
          rw [hr] at h
          simp only [Option.map_some, Option.some.injEq] at h
          subst h
          rcases List.mem_cons.1 he with e1 | e1
          · subst e1; subst hk; exact ⟨_, List.mem_cons_self, Or.inr ⟨k, row, rfl, rfl⟩⟩
          · obtain ⟨t', ht', hh⟩ := evOfToks_mem ts none b hr e e1
            exact ⟨t', List.mem_cons_of_mem _ ht', hh⟩
      · cases h
    | L a =>
      simp only [evOfToks, Tok.isReg, Tok.toEvent?, if_true] at h
      cases hr : evOfToks (some k) ts with
      | none => rw [hr] at h; cases h
      | some b =>
        rw [hr] at h
        simp only [Option.map_some, Option.some.injEq] at h
        subst h
        rcases List.mem_cons.1 he with e1 | e1
        · subst e1; exact ⟨_, List.mem_cons_self, Or.inl rfl⟩
        · obtain ⟨t', ht', hh⟩ := evOfToks_mem ts (some k) b hr e e1
          exact ⟨t', List.mem_cons_of_mem _ ht', hh⟩
    | G a f =>
      simp only [evOfToks, Tok.isReg, Tok.toEvent?, if_true] at h
      cases hr : evOfToks (some k) ts with
      | none => rw [hr] at h; cases h
      | some b =>
        rw [hr] at h
        simp only [Option.map_some, Option.some.injEq] at h
        subst h
        rcases List.mem_cons.1 he with e1 | e1
        · subst e1; exact ⟨_, List.mem_cons_self, Or.inl rfl⟩
        · obtain ⟨t', ht', hh⟩ := evOfToks_mem ts (some k) b hr e e1
          exact ⟨t', List.mem_cons_of_mem _ ht', hh⟩
    | X =>
      simp only [evOfToks, Tok.isReg, Tok.toEvent?, if_true] at h
      cases hr : evOfToks (some k) ts with
      | none => rw [hr] at h; cases h
      | some b =>
        rw [hr] at h
        simp only [Option.map_some, Option.some.injEq] at h
        subst h
        rcases List.mem_cons.1 he with e1 | e1
        · subst e1; exact ⟨_, List.mem_cons_self, Or.inl rfl⟩
        · obtain ⟨t', ht', hh⟩ := evOfToks_mem ts (some k) b hr e e1
          exact ⟨t', List.mem_cons_of_mem _ ht', hh⟩
    | C a v f =>
      simp only [evOfToks, Tok.isReg, Tok.toEvent?, if_true] at h
      cases hr : evOfToks (some k) ts with
      | none => rw [hr] at h; cases h
      | some b =>
        rw [hr] at h
        simp only [Option.map_some, Option.some.injEq] at h
        subst h
        rcases List.mem_cons.1 he with e1 | e1
        · subst e1; exact ⟨_, List.mem_cons_self, Or.inl rfl⟩
        · obtain ⟨t', ht', hh⟩ := evOfToks_mem ts (some k) b hr e e1
          exact ⟨t', List.mem_cons_of_mem _ ht', hh⟩
    | _ => simp [evOfToks, Tok.isReg] at h

/-- the events of tokens without `Z` do not end a build -/
theorem evOfToks_noEnd {toks : List Tok} {ph : Option Key} {evs : List Event} (h : evOfToks ph toks = some evs)
    (hz : ∀ t ∈ toks, Tok.isZ t = false) : ∀ e ∈ evs, e.endsBuild = false := by
  intro e he
  obtain ⟨t, ht, hh⟩ := evOfToks_mem toks ph evs h e he
  rcases hh with hh | ⟨k, row, _, hh⟩
  · have hzt := hz t ht
    cases t with
    | S k n =>
      rcases n with _ | _ | n
      · simp only [Tok.toEvent?, Option.some.injEq] at hh; subst hh; rfl
      · simp only [Tok.toEvent?, Option.some.injEq] at hh; subst hh; rfl
      · simp [Tok.toEvent?] at hh
    | Z a b => cases hzt
    | _ => first
      | (simp only [Tok.toEvent?, Option.some.injEq] at hh; subst hh; rfl)
      | (simp [Tok.toEvent?] at hh)
  · subst hh; rfl

/-! ## the monitor's `ran` along the tokens of a build -/

theorem trun_ran {P : Program} : ∀ (toks : List Tok) (ms ms' : MSt), trun P ms toks = some ms' →
    (∀ t ∈ toks, Tok.isClose t = false ∨ t = .DE) → ms.m.target.isSome = true →
    ms'.m.ran = (toks.filterMap Tok.tKey).reverse ++ ms.m.ran
  | [], ms, ms', h, _, _ => by
    simp only [trun, Option.some.injEq] at h; subst h; rfl
  | t :: ts, ms, ms', h, hc, htg => by
    simp only [trun] at h
    cases hts : tstep P ms t with
    | none => rw [hts] at h; simp at h
    | some ms1 =>
      rw [hts] at h; simp only [Option.bind_some] at h
      have hct := hc t List.mem_cons_self
      have ih := trun_ran ts ms1 ms' h (fun t' ht' => hc t' (List.mem_cons_of_mem _ ht'))
        (tstep_target_isSome hts hct htg)
      have h1 : ms1.m.ran = (Tok.tKey t).toList ++ ms.m.ran := by
        rcases tstep_event hts with ⟨⟨k, e⟩, hm⟩ | ⟨ev, he | ⟨k0, row0, ht, he⟩, hst⟩
        · subst e; rw [hm]; rfl
        · have hmid : Event.isMidX ev = true := by
            rcases hct with hct | hct
            · rcases toEvent_midX he hct with hmid | ⟨k1, hk1⟩
              · exact hmid
              · subst hk1
                rw [step_buildStart_inside P k1 htg] at hst
                cases hst
            · subst hct
              simp only [Tok.toEvent?, Option.some.injEq] at he; subst he; rfl
          rw [step_ranX hst hmid, toEvent_create he]
        · subst ht; subst he
          exact step_ranX hst rfl
      rw [ih, h1]
      cases hk : Tok.tKey t with
      | none => simp [hk]
      | some x => simp [hk]

end LLBuild.Refine
