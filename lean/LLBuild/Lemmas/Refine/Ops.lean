/-
IM2 — refinement: the ops between builds (`W`, `P`, `E`, `M`) preserve `RelIdle`, each matched by the
monitor event the driver feeds (`wipe` = a fresh monitor, `restart`, `mutate`).
-/
import LLBuild.Lemmas.Refine.Frame

namespace LLBuild.Refine
open LLBuild.Engine LLBuild.Engine.DSL LLBuild.EngineImpl

/-- the initial pair of states -/
theorem RelIdle.init (rules : List RuleSpec) : RelIdle rules (opProgram rules {}) {} := by
  refine { rules_eq := rfl, env := rfl, hasDB := rfl, noResolve := rfl, noFail := rfl, epoch := rfl, reg := ?_,
           keyOk := ?_, rulesNodup := List.nodup_nil, sig := ?_, res := ?_, resUnreg := ?_, db := ?_, dbBuilt := ?_, dbBuiltLe := ?_, dbIter := rfl, builtLe := ?_,
           target := rfl, allIdle := fun _ => rfl, iterEq := rfl, states := ?_, noTasks := rfl, noScanQ := rfl, noInputQ := rfl,
           noFinQ := rfl, noReady := rfl, noFinTasks := rfl, noOutstanding := rfl, noScanning := rfl,
           noDeferred := rfl, notActive := rfl }
  all_goals intros
  all_goals simp_all [opProgram, newEngine]
  all_goals rfl

/-- `E`: a new engine on the same store ↔ `restart` -/
theorem RelIdle.restart {rules : List RuleSpec} {s : State} {m : Engine.St} (hr : RelIdle rules s m) (P : Program) :
    ∃ m', step P m .restart = some m' ∧ RelIdle rules (opRestart s) m' := by
  refine ⟨{ m with mem := m.db, epoch := m.dbIter, registered := fun _ => false, status := fun _ => .idle }, ?_, ?_⟩
  · simp [step, hr.target]
  · refine { rules_eq := hr.rules_eq, env := hr.env, hasDB := rfl, noResolve := hr.noResolve, noFail := hr.noFail,
             epoch := hr.dbIter, reg := ?_, keyOk := ?_, rulesNodup := List.nodup_nil, sig := ?_, res := ?_, resUnreg := ?_, db := hr.db,
             dbBuilt := hr.dbBuilt, dbBuiltLe := fun k row h => by
               show row.builtAt ≤ s.store.iteration
               rw [hr.iterEq]; exact hr.dbBuiltLe k row h,
             dbIter := hr.dbIter, builtLe := ?_,
             target := hr.target, allIdle := fun _ => rfl, iterEq := rfl, states := ?_, noTasks := rfl, noScanQ := rfl, noInputQ := rfl,
             noFinQ := rfl, noReady := rfl, noFinTasks := rfl, noOutstanding := rfl, noScanning := rfl,
             noDeferred := hr.noDeferred, notActive := hr.notActive }
    all_goals intros
    all_goals simp_all [opRestart, newEngine]

/-- `P`: a new program and a new engine on the same store ↔ `restart` (the monitor then runs the new program) -/
theorem RelIdle.program {rules : List RuleSpec} {s : State} {m : Engine.St} (hr : RelIdle rules s m)
    (rules' : List RuleSpec) (P : Program) :
    ∃ m', step P m .restart = some m' ∧ RelIdle rules' (opProgram rules' s) m' := by
  refine ⟨{ m with mem := m.db, epoch := m.dbIter, registered := fun _ => false, status := fun _ => .idle }, ?_, ?_⟩
  · simp [step, hr.target]
  · refine { rules_eq := rfl, env := hr.env, hasDB := rfl, noResolve := hr.noResolve, noFail := hr.noFail,
             epoch := hr.dbIter, reg := ?_, keyOk := ?_, rulesNodup := List.nodup_nil, sig := ?_, res := ?_, resUnreg := ?_, db := hr.db,
             dbBuilt := hr.dbBuilt, dbBuiltLe := fun k row h => by
               show row.builtAt ≤ s.store.iteration
               rw [hr.iterEq]; exact hr.dbBuiltLe k row h,
             dbIter := hr.dbIter, builtLe := ?_,
             target := hr.target, allIdle := fun _ => rfl, iterEq := rfl, states := ?_, noTasks := rfl, noScanQ := rfl, noInputQ := rfl,
             noFinQ := rfl, noReady := rfl, noFinTasks := rfl, noOutstanding := rfl, noScanning := rfl,
             noDeferred := hr.noDeferred, notActive := hr.notActive }
    all_goals intros
    all_goals simp_all [opProgram, newEngine]

/-- `W`: store and external state wiped, new engine ↔ a fresh monitor (`wipe`) -/
theorem RelIdle.wipe {rules : List RuleSpec} {s : State} {m : Engine.St} (hr : RelIdle rules s m) (P : Program) :
    ∃ m', step P m .wipe = some m' ∧ RelIdle rules (opWipe s) m' := by
  refine ⟨{}, ?_, ?_⟩
  · simp [step, hr.target]
  · refine { rules_eq := hr.rules_eq, env := rfl, hasDB := rfl, noResolve := hr.noResolve, noFail := rfl,
             epoch := rfl, reg := ?_, keyOk := ?_, rulesNodup := List.nodup_nil, sig := ?_, res := ?_, resUnreg := ?_, db := ?_,
             dbBuilt := ?_, dbBuiltLe := ?_, dbIter := rfl, builtLe := ?_,
             target := rfl, allIdle := fun _ => rfl, iterEq := rfl, states := ?_, noTasks := rfl, noScanQ := rfl, noInputQ := rfl,
             noFinQ := rfl, noReady := rfl, noFinTasks := rfl, noOutstanding := rfl, noScanning := rfl,
             noDeferred := hr.noDeferred, notActive := hr.notActive }
    all_goals intros
    all_goals simp_all [opWipe, newEngine]
    all_goals rfl

/-- `M slot val`: the external state changes ↔ `mutate` (signatures of registered rules stay frozen) -/
theorem RelIdle.mutate {rules : List RuleSpec} {s : State} {m : Engine.St} (hr : RelIdle rules s m) (P : Program)
    (slot val : Nat) :
    ∃ m', step P m (.mutate slot val) = some m' ∧ RelIdle rules (opMutate slot val s) m' := by
  refine ⟨{ m with env := upd m.env slot val }, ?_, ?_⟩
  · simp [step, hr.target]
  · exact { hr with toBase := { hr.toBase with env := by show upd m.env slot val = upd s.env slot val; rw [hr.env] } }

end LLBuild.Refine
