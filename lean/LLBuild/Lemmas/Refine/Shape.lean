/-
IM2 — refinement: reformulations of `Model/EngineImpl.lean` that are easier to reason about, each with its
equation to the model's own definition (the model itself is NOT edited).
* one-iteration bodies of the six queue loops as functions (`finishedInputStep`, `readyStep`, `finishedTaskStep`,
  `waitStep`) and the unfolding equations of the loops;
* `breakCycle` never changes the state when `shouldResolveCycle = false` (the harness's and the default delegate);
* `cycleSearchOpt`: the proof-side copy of the model's `cycleSearch` (which, since model patch M1, reports "out of
  fuel" as `none` instead of silently returning the partial path: notes/REFINE.md §5.2); `cycleSearch_eq_opt`.
-/
import LLBuild.Lemmas.Refine.Basic

namespace LLBuild.Refine
open LLBuild.Engine LLBuild.Engine.DSL LLBuild.EngineImpl

/-! ## loop bodies -/

/-- body of `finishedInputsLoop` for a request of task `task` -/
def finishedInputStep (task : Key) (request : TaskInputRequest) (s : State) : State :=
  decrementTaskWaitCount task
    (if request.orderOnly then s
     else taskProvideValue task request.inputID request.inputRuleInfo (s.rule request.inputRuleInfo).result.value s)

theorem finishedInputsLoop_succ (fuel : Nat) (w : Bool) (s : State) :
    finishedInputsLoop (fuel + 1) w s =
      match s.finishedInputRequests.getLast? with
      | none => (w, s)
      | some request =>
        match request.taskInfo with
        | none => (true, halt (.BAD "finished-dummy-request") { s with finishedInputRequests := s.finishedInputRequests.dropLast })
        | some task =>
          finishedInputsLoop fuel true
            (finishedInputStep task request { s with finishedInputRequests := s.finishedInputRequests.dropLast }) := by
  rw [finishedInputsLoop]
  cases s.finishedInputRequests.getLast? with
  | none => rfl
  | some request =>
    cases h : request.taskInfo with
    | none => simp [h]
    | some task => simp [h, finishedInputStep]

/-- body of `readyTasksLoop` -/
def readyStep (task : Key) (s : State) : State :=
  let s := s.modRule (s.task task).forRuleInfo (fun ri => { ri with state := .inProgressComputing })
  let s := taskInputsAvailable task s
  { s with numOutstandingUnfinishedTasks := s.numOutstandingUnfinishedTasks + 1 }

theorem readyTasksLoop_succ (fuel : Nat) (w : Bool) (s : State) :
    readyTasksLoop (fuel + 1) w s =
      match s.readyTaskInfos with
      | [] => (w, s)
      | task :: rest => readyTasksLoop fuel true (readyStep task { s with readyTaskInfos := rest }) := by
  rw [readyTasksLoop]
  cases s.readyTaskInfos <;> rfl

/-- body of `finishedTasksLoop` up to the database write: `S k 2`, discovered dependencies, `DS k row`;
returns whether the write succeeded -/
def finishedTaskWrite (task : Key) (s : State) : Bool × State :=
  let taskInfo := s.task task
  let k := taskInfo.forRuleInfo
  let s := s.modRule k (fun ri => setComplete s { ri with inProgressInfo := .null })
  let s := emit (.S k 2) s
  let s := s.modRule k (fun ri => { ri with result := { ri.result with deps := ri.result.deps ++ taskInfo.discoveredDependencies } })
  let s := pushDiscovered taskInfo.discoveredDependencies s
  if s.hasDB then setRuleResult k (s.rule k).result s else (true, s)

/-- the rest of the body after a successful write: wake up the waiters, delete the task -/
def finishedTaskWake (task : Key) (taskInfo : TaskInfo) (s : State) : State :=
  let s := { s with ruleInfosToScan := s.ruleInfosToScan ++ taskInfo.deferredScanRequests,
                    finishedInputRequests := s.finishedInputRequests ++ taskInfo.requestedBy,
                    numOutstandingUnfinishedTasks := s.numOutstandingUnfinishedTasks - 1 }
  destroyTask task { s with taskInfos := alErase s.taskInfos task }

theorem finishedTasksLoop_succ (fuel : Nat) (w : Bool) (s : State) :
    finishedTasksLoop (fuel + 1) w s =
      match s.finishedTaskInfos.getLast? with
      | none => (false, w, s)
      | some task =>
        let s0 := { s with finishedTaskInfos := s.finishedTaskInfos.dropLast }
        let r := finishedTaskWrite task s0
        if !r.1 then
          (true, true, cancelRemainingTasks
            { emit (.ER 6) r.2 with numOutstandingUnfinishedTasks := (emit (.ER 6) r.2).numOutstandingUnfinishedTasks - 1 })
        else finishedTasksLoop fuel true (finishedTaskWake task (s0.task task) r.2) := by
  rw [finishedTasksLoop]
  cases s.finishedTaskInfos.getLast? with
  | none => rfl
  | some task =>
    simp only [finishedTaskWrite, finishedTaskWake]

/-- the wait branch of `executeLoop`: hook point 1, then the condition-variable wait -/
def waitStep (s : State) : State :=
  let s := hook 1 s
  if s.finishedTaskInfos.isEmpty then halt (.BAD "stall") s else s

/-! ## `breakCycle` without a resolving delegate -/

theorem breakCycleLoop_noResolve : ∀ (l : List Key) (s : State), s.shouldResolveCycle = false →
    breakCycleLoop l s = (false, s)
  | [], s, _ => rfl
  | k :: rest, s, h => by
    rw [breakCycleLoop.eq_def]
    simp only [h, Bool.not_false, if_true]
    split
    · rfl
    · split
      · cases rest with
        | nil => exact breakCycleLoop_noResolve [] s h
        | cons next more =>
          simp only
          split
          · exact breakCycleLoop_noResolve _ s h
          · rfl
      · exact breakCycleLoop_noResolve rest s h

theorem breakCycle_noResolve (l : List Key) (s : State) (h : s.shouldResolveCycle = false) :
    breakCycle l s = (false, s) := breakCycleLoop_noResolve _ s h

/-- `resolveCycle` with the harness's delegate: report the cycle found, or halt on a freed scan record -/
theorem resolveCycle_noResolve (key : Key) (s : State) (h : s.shouldResolveCycle = false) :
    resolveCycle key s =
      match findCycle key s with
      | none => (false, halt (.BAD "use-of-freed-scan-record") s)
      | some cycleList => (false, emit (.CY cycleList) s) := by
  unfold resolveCycle
  cases findCycle key s with
  | none => rfl
  | some l => simp [breakCycle_noResolve l s h]

/-! ## the cycle search with an explicit out-of-fuel result -/

/-- the model's `cycleSearch` (a copy the cycle proof unfolds; equal to it by `cycleSearch_eq_opt`) -/
def cycleSearchOpt (pred : Graph) : Nat → List WorkItem → List Key → List Key → Option (List Key)
  | 0, _, _, _ => none
  | fuel + 1, stack, cycleList, cycleItems =>
    match stack with
    | [] => some cycleList
    | entry :: below =>
      let predecessors := pred.get entry.node
      let started := entry.predecessorIndex == 0
      let found := started && cycleItems.contains entry.node
      let cycleList := if started then cycleList ++ [entry.node] else cycleList
      let cycleItems := if started && !found then entry.node :: cycleItems else cycleItems
      if found then some cycleList else
      match predecessors[entry.predecessorIndex]? with
      | some child =>
        cycleSearchOpt pred fuel ({ node := child } :: { entry with predecessorIndex := entry.predecessorIndex + 1 } :: below)
          cycleList cycleItems
      | none =>
        cycleSearchOpt pred fuel below cycleList.dropLast (cycleItems.filter (· != entry.node))

theorem cycleSearch_eq_opt (pred : Graph) : ∀ (fuel : Nat) (stack : List WorkItem) (cl ci : List Key),
    cycleSearch pred fuel stack cl ci = cycleSearchOpt pred fuel stack cl ci
  | 0, _, _, _ => rfl
  | fuel + 1, [], cl, ci => by simp [cycleSearch, cycleSearchOpt]
  | fuel + 1, entry :: below, cl, ci => by
    rw [cycleSearch, cycleSearchOpt]
    simp only [cycleSearch_eq_opt pred fuel]
    rfl

/-- the normalised predecessor graph `findCycle` searches (`none`: a freed scan record was read / out of fuel) -/
def predGraph (s : State) : Option Graph :=
  let successorGraph : Graph := s.taskInfos.foldl (fun g p =>
    let taskInfo := p.2
    let successors := taskInfo.requestedBy.map (fun request => (s.task (request.taskInfo.getD 0)).forRuleInfo)
      ++ taskInfo.deferredScanRequests.map (fun request => request.ruleInfo)
    if (g.lookup taskInfo.forRuleInfo).isSome then g else g ++ [(taskInfo.forRuleInfo, successors)]) []
  let active := (s.ruleInfos.filter (fun p => p.2.isScanning)).map (fun p => p.1)
  (gatherScanRecords s loopFuel active [] successorGraph).map (fun successorGraph =>
    let predecessorGraph : Graph := successorGraph.foldl (fun pg entry =>
      entry.2.foldl (fun pg succ => pg.push succ entry.1) pg) []
    predecessorGraph.map (fun entry => (entry.1, sortBy keyLt entry.2)))

/-- what a successful `findCycle` computed (stated on the hypothesis: unfolding `findCycle` in a GOAL makes the
kernel evaluate `cycleSearch … loopFuel`) -/
theorem findCycle_some {key : Key} {s : State} {ks : List Key} (h : findCycle key s = some ks) :
    ∃ g, predGraph s = some g ∧ cycleSearchOpt g loopFuel [{ node := key }] [] [] = some ks := by
  unfold findCycle at h
  simp only [] at h
  split at h
  · cases h
  · rename_i sg heq
    rw [cycleSearch_eq_opt] at h
    refine ⟨_, ?_, h⟩
    unfold predGraph
    simp only [heq, Option.map_some]

/-- the depth-first search of `findCycle key s` does not run out of fuel -/
def CycleSearchOk (key : Key) (s : State) : Prop :=
  ∀ g, predGraph s = some g → (cycleSearchOpt g loopFuel [{ node := key }] [] []).isSome = true

/-- … which is the case whenever `findCycle` returns a list (model patch M1: out of fuel is `none`, and
`resolveCycle` then halts) -/
theorem cycleSearchOk_of_findCycle {key : Key} {s : State} {ks : List Key} (h : findCycle key s = some ks) :
    CycleSearchOk key s := by
  intro g hg
  obtain ⟨g', h1, h2⟩ := findCycle_some h
  rw [hg] at h1; cases h1
  rw [h2]; rfl

end LLBuild.Refine
