/-
IM7-E — the `F` op (an injected failure of the next database write): THE WORK LOOP STARTED WITH THE FLAG SET
(notes/REFINE.md §11; definitions Fail0.lean; commutation FailComm.lean; token classes FailTok.lean; the monitor's
reading `trunF` FailMon.lean; the failing exit FailExit.lean).

The flagged run `executeLoopA key fuel a (withFail true s)` of an UNFLAGGED state `s` that satisfies the loop invariant:
* up to its first database write it is `withFail true` of the unflagged run (every function but the write commutes), its
  tokens contain no `S k 2` and are accepted by `trun`;
* the first write fails: `finishedTasksLoopA` leaves through `cancelRemainingTasksA` from `failExitState`, the loop returns
  `false`, the tokens are `pre ; S k 2 ; regs ; DS k row ; [X] ; ER 6 ; post` (`FailRun … true`);
* if no write happens (cancellation, cycle, nothing to run) the flag is still set afterwards (`FailRun … false`).
Contents: §0 `S2Free`, `FailRun` (the two shapes; `FailRun.trunF`: accepted by `trunF`), `LoopPostF`; §1 the stages of an
iteration of the unflagged run (`stages14`, `stages15`: the body of `workLoopA_final`); §2 the end of an iteration with
the flag (`afterWaitF_spec`, `afterTasksF_spec`); §3 **E1** `workLoopF_shape` / `workLoopF_final`; §4 **E2**
`executeLoopF_nohalt` (termination, potential `Phi`).
Core Lean only.
-/
import LLBuild.Lemmas.Refine.FailComm
import LLBuild.Lemmas.Refine.FailTok
import LLBuild.Lemmas.Refine.FailMon
import LLBuild.Lemmas.Refine.FailExit

namespace LLBuild.Refine
open LLBuild.Engine LLBuild.Engine.DSL LLBuild.EngineImpl

/-! ## 0. the shape of the tokens of a flagged run -/

/-- no `S k 2` among the tokens -/
def S2Free (toks : List Tok) : Prop := ∀ t ∈ toks, Tok.isS2b t = false

theorem S2Free.nil : S2Free [] := fun _ h => by cases h

theorem S2Free.append {a b : List Tok} (ha : S2Free a) (hb : S2Free b) : S2Free (a ++ b) := by
  intro t ht
  rcases List.mem_append.1 ht with h | h
  · exact ha t h
  · exact hb t h

theorem NoS2.s2free {s s' : State} (h : NoS2 s s') {toks : List Tok} (he : Emits s toks s') : S2Free toks :=
  h.of_emits he

/-- the two shapes of the token list of a flagged run read from monitor state `ms`, ending in `⟨m', none⟩`:
`failed = false`: no `S k 2` at all (no write was attempted), accepted by `trun`;
`failed = true`: `pre ; S k 2 ; regs ; DS k row ; [X] ; ER 6 ; post` with `pre`, `post` free of `S k 2`, the monitor
stepped by `pre`, `regs`, `[X] ; ER 6 ; post` (NOT by `finished k row`).  The last two conjuncts are for KILLED builds: a cut
right after `DS k row` (or after `DS k row ; X`) is read as a normal `finished k row` (the look-ahead sees no `ER 6`), and that
reading is accepted too, from the monitor state `m0` reached after `pre` (right-nested: `S k 2 :: (regs ++ [DS k row])`,
`S k 2 :: (regs ++ DS k row :: xs)`). -/
def FailRun (P : Program) (ms : MSt) (toks : List Tok) (m' : Engine.St) : Bool → Prop
  | false => S2Free toks ∧ trun P ms toks = some ⟨m', none⟩
  | true => ∃ (pre : List Tok) (k : Key) (row : Res) (regs xs post : List Tok) (m0 m1 : Engine.St),
      toks = pre ++ .S k 2 :: (regs ++ .DS k row :: (xs ++ .ER 6 :: post)) ∧ S2Free pre ∧
      trun P ms pre = some ⟨m0, none⟩ ∧ (∀ t ∈ regs, Tok.isReg t = true) ∧ (xs = [] ∨ xs = [.X]) ∧
      trun P ⟨m0, none⟩ regs = some ⟨m1, none⟩ ∧ S2Free post ∧
      trun P ⟨m1, none⟩ (xs ++ .ER 6 :: post) = some ⟨m', none⟩ ∧
      (∃ ms2, trun P ⟨m0, none⟩ (.S k 2 :: (regs ++ [.DS k row])) = some ms2) ∧
      (∃ ms3, trun P ⟨m0, none⟩ (.S k 2 :: (regs ++ .DS k row :: xs)) = some ms3)

/-- tokens without `S k 2` accepted BEFORE the run -/
theorem FailRun.prepend {P : Program} {ms0 ms : MSt} {toks0 toks : List Tok} {m' : Engine.St} {f : Bool}
    (hs : S2Free toks0) (hr : trun P ms0 toks0 = some ms) (h : FailRun P ms toks m' f) :
    FailRun P ms0 (toks0 ++ toks) m' f := by
  cases f with
  | false => exact ⟨hs.append h.1, trun_append_some hr h.2⟩
  | true =>
    obtain ⟨pre, k, row, regs, xs, post, m0, m1, e, h1, h2, h3, h4, h5, h6, h7, h8, h9⟩ := h
    exact ⟨toks0 ++ pre, k, row, regs, xs, post, m0, m1, by rw [e, List.append_assoc], hs.append h1,
      trun_append_some hr h2, h3, h4, h5, h6, h7, h8, h9⟩

/-- tokens without `S k 2` accepted AFTER the run -/
theorem FailRun.append {P : Program} {ms : MSt} {toks post' : List Tok} {m' m'' : Engine.St} {f : Bool}
    (h : FailRun P ms toks m' f) (hs : S2Free post') (hr : trun P ⟨m', none⟩ post' = some ⟨m'', none⟩) :
    FailRun P ms (toks ++ post') m'' f := by
  cases f with
  | false => exact ⟨h.1.append hs, trun_append_some h.2 hr⟩
  | true =>
    obtain ⟨pre, k, row, regs, xs, post, m0, m1, e, h1, h2, h3, h4, h5, h6, h7, h8, h9⟩ := h
    refine ⟨pre, k, row, regs, xs, post ++ post', m0, m1, ?_, h1, h2, h3, h4, h5, h6.append hs, ?_, h8, h9⟩
    · rw [e]; simp only [List.append_assoc, List.cons_append]
    · have := trun_append_some h7 hr
      simpa only [List.append_assoc, List.cons_append] using this

/-- **a flagged run is accepted by the monitor with the failed-write clause** -/
theorem FailRun.trunF {P : Program} {m : Engine.St} {toks : List Tok} {m' : Engine.St} {f : Bool}
    (h : FailRun P ⟨m, none⟩ toks m' f) : trunF P ⟨m, none⟩ toks = some ⟨m', none⟩ := by
  cases f with
  | false => rw [trunF_eq_trun_noS2 P toks m h.1]; exact h.2
  | true =>
    obtain ⟨pre, k, row, regs, xs, post, m0, m1, e, h1, h2, h3, h4, h5, h6, h7, -, -⟩ := h
    rw [e]
    exact trunF_failed_build h1 h2 h3 h4 h5 h6 h7

/-- a failed run cut right after the `DS k row` of the failing write, or after `DS k row ; [X]`: the cut trace, read with the
PLAIN token monitor (the write taken for a completed one), is accepted from the start -/
theorem FailRun.cuts {P : Program} {ms : MSt} {toks : List Tok} {m' : Engine.St} (h : FailRun P ms toks m' true) :
    ∃ (pre : List Tok) (k : Key) (row : Res) (regs xs post : List Tok),
      toks = pre ++ .S k 2 :: (regs ++ .DS k row :: (xs ++ .ER 6 :: post)) ∧ S2Free pre ∧
      (∀ t ∈ regs, Tok.isReg t = true) ∧ (xs = [] ∨ xs = [.X]) ∧ S2Free post ∧
      (∃ ms2, trun P ms (pre ++ .S k 2 :: (regs ++ [.DS k row])) = some ms2) ∧
      (∃ ms3, trun P ms (pre ++ .S k 2 :: (regs ++ .DS k row :: xs)) = some ms3) := by
  obtain ⟨pre, k, row, regs, xs, post, m0, m1, e, h1, h2, h3, h4, -, h6, -, ⟨ms2, h8⟩, ⟨ms3, h9⟩⟩ := h
  exact ⟨pre, k, row, regs, xs, post, e, h1, h3, h4, h6, ⟨ms2, trun_append_some h2 h8⟩, ⟨ms3, trun_append_some h2 h9⟩⟩

/-- the conclusion of the work-loop statement for a FLAGGED run that started from `withFail true s` (`s` unflagged, related to
`ms`) and returned `res`: the shape of the tokens, the relation for the result with the flag cleared, and the flag of the
result: still set iff no write was attempted; a failed write makes the loop return `false` -/
def LoopPostF (rules : List RuleSpec) (key : Key) (s : State) (ms : MSt) (res : Bool × State) : Prop :=
  ∃ (toks : List Tok) (m' : Engine.St) (failed : Bool), Emits s toks res.2 ∧ FailRun (program rules) ms toks m' failed ∧
    RelPost rules key (withFail false res.2) m' res.1 ∧ m'.started = true ∧
    res.2.store.failNextSet = !failed ∧ (failed = true → res.1 = false)

theorem LoopPostF.prepend {rules : List RuleSpec} {key : Key} {s0 s : State} {ms0 ms : MSt} {toks0 : List Tok}
    {res : Bool × State} (he : Emits s0 toks0 s) (hs : S2Free toks0) (hr : trun (program rules) ms0 toks0 = some ms)
    (h : LoopPostF rules key s ms res) : LoopPostF rules key s0 ms0 res := by
  obtain ⟨toks, m', f, he', hf, hp, hst, hfl, hres⟩ := h
  exact ⟨toks0 ++ toks, m', f, he.trans he', hf.prepend hs hr, hp, hst, hfl, hres⟩

/-- the result of an unflagged piece of the loop that attempts no write, with the flag put back -/
theorem LoopPostF.of_unflagged {rules : List RuleSpec} {key : Key} {s x : State} {ms : MSt} {b : Bool}
    (h : LoopPost rules key s ms (b, x)) (hs2 : NoS2 s x) : LoopPostF rules key s ms (b, withFail true x) := by
  obtain ⟨toks, m', he, hr, hp, hst⟩ := h
  refine ⟨toks, m', false, he, ⟨hs2.s2free he, hr⟩, ?_, hst, rfl, fun h => by cases h⟩
  have e : withFail false (withFail true x) = x := by
    rw [withFail_withFail]
    exact withFail_of_flag hp.base.noFail
  show RelPost rules key (withFail false (withFail true x)) m' b
  rw [e]
  exact hp

/-! ## 1. the stages of an iteration of the UNFLAGGED run (the body of `workLoopA_final`, AsyncLoop.lean) -/

/-- the unflagged induction hypothesis, from the finished theorem -/
theorem ihU {rules : List RuleSpec} (hok : RulesOk rules) (key : Key) (fuel : Nat) :
    ∀ a s ms, Inv rules key s ms → NoMid s → Aux key s {} → s.halted = false →
      (executeLoopA key fuel a s).2.2.halted = false → LoopPost rules key s ms (pr (executeLoopA key fuel a s)) :=
  fun a s ms hi hnm haux hh hnh =>
    workLoopA_final rules hok key fuel a s ms hi.rel hnm hi.pend hi.target hi.reg hh hi.pendFresh hi.noMF haux hnh

/-- stages 1–4 (scan requests, input requests, finished inputs, ready tasks) -/
theorem stages14 {rules : List RuleSpec} (hok : RulesOk rules) {key : Key} {a0 : Async} {s0 : State} {ms0 : MSt}
    (hi0 : Inv rules key s0 ms0) (haux0 : Aux key s0 {}) (hh0 : s0.halted = false)
    (h4 : (stA4 a0 s0).2.2.halted = false) :
    ∃ toks ms4, Emits s0 toks (stA4 a0 s0).2.2 ∧ trun (program rules) ms0 toks = some ms4 ∧
      Inv rules key (stA4 a0 s0).2.2 ms4 ∧ NoMid (stA4 a0 s0).2.2 ∧ Aux key (stA4 a0 s0).2.2 {} := by
  have hS := asyncStepSim
  have hF := asyncStepFrame
  have hA := asyncStepAux
  have hT := asyncStepTerm
  have h3 : (stA3 a0 s0).2.2.halted = false := (haltMono_readyA _ _ _).of_result h4
  have h2 : (stA2 a0 s0).2.2.halted = false := (haltMono_finInputA _ _ _).of_result h3
  have h1 : (stA1 a0 s0).2.2.halted = false := (haltMono_inputA _ _ _).of_result h2
  have S1 : Sim rules s0 ms0 (stA1 a0 s0).2.2 {} (fun _ => (stA1 a0 s0).2.2.ruleInfosToScan = []) :=
    scanRequestsLoopA_sim hS hF hA hT rules hok loopFuel false a0 s0 ms0 hi0.rel hi0.pend hh0
  have haux1 : Aux key (stA1 a0 s0).2.2 {} :=
    scanRequestsLoopA_aux hS hF hA hT hok key loopFuel false a0 s0 ms0 hi0.rel hi0.pend hh0 h1 haux0
  obtain ⟨toks1, ms1, he1, hr1, hi1, hq1⟩ := hi0.step S1 h1
  have hfresh1 : FreshScanQ (stA1 a0 s0).2.2 := by
    intro r hr; rw [hq1] at hr; cases hr
  have S2 : Sim rules (stA1 a0 s0).2.2 ms1 (stA2 a0 s0).2.2 {} (fun ms' =>
      ((stA2 a0 s0).2.2.inputRequests = [] ∧ NoMid (stA2 a0 s0).2.2 ∧ FreshScanQ (stA2 a0 s0).2.2) ∧
        PendFresh ms'.m) :=
    inputRequestsLoopA_sim hS hF rules hok loopFuel (stA1 a0 s0).1 (stA1 a0 s0).2.1 (stA1 a0 s0).2.2 ms1
      hi1.rel hi1.pend h1 hfresh1 hi1.pendFresh
  have haux2 : Aux key (stA2 a0 s0).2.2 {} :=
    inputRequestsLoopA_aux hS hF hA rules hok loopFuel (stA1 a0 s0).1 (stA1 a0 s0).2.1 (stA1 a0 s0).2.2 ms1 key
      hi1.rel hi1.pend h1 hfresh1 hi1.pendFresh h2 scanRuleAux demandRule_aux haux1
  obtain ⟨toks2, ms2, he2, hr2, hi2, ⟨-, hnm2, -⟩, -⟩ := hi1.step S2 h2
  have S3 : Sim rules (stA2 a0 s0).2.2 ms2 (stA3 a0 s0).2.2 {} (fun _ =>
      (stA3 a0 s0).2.2.finishedInputRequests = [] ∧ NoMid (stA3 a0 s0).2.2) :=
    finishedInputsLoopA_sim hS hF hA hT rules hok loopFuel (stA2 a0 s0).1 (stA2 a0 s0).2.1 (stA2 a0 s0).2.2 ms2
      hi2.rel hi2.pend h2 hnm2
  have haux3 : Aux key (stA3 a0 s0).2.2 {} :=
    finishedInputsLoopA_aux hS hF hA hT hok loopFuel (stA2 a0 s0).1 (stA2 a0 s0).2.1 (stA2 a0 s0).2.2 ms2
      hi2.rel hi2.pend h2 hnm2 h3 haux2
  obtain ⟨toks3, ms3, he3, hr3, hi3, -, hnm3⟩ := hi2.step S3 h3
  have S4 : Sim rules (stA3 a0 s0).2.2 ms3 (stA4 a0 s0).2.2 {} (fun _ =>
      (stA4 a0 s0).2.2.readyTaskInfos = [] ∧ NoMid (stA4 a0 s0).2.2) :=
    readyTasksLoopA_sim rules hok loopFuel (stA3 a0 s0).1 (stA3 a0 s0).2.1 (stA3 a0 s0).2.2 ms3
      hi3.rel hi3.pend h3 hnm3
  have haux4 : Aux key (stA4 a0 s0).2.2 {} :=
    readyTasksLoopA_aux key loopFuel (stA3 a0 s0).1 (stA3 a0 s0).2.1 (stA3 a0 s0).2.2 ms3
      hi3.rel hi3.pend h3 hnm3 h4 haux3
  obtain ⟨toks4, ms4, he4, hr4, hi4, -, hnm4⟩ := hi3.step S4 h4
  exact ⟨toks1 ++ (toks2 ++ (toks3 ++ toks4)), ms4, he1.trans (he2.trans (he3.trans he4)),
    trun_append_some hr1 (trun_append_some hr2 (trun_append_some hr3 hr4)), hi4, hnm4, haux4⟩

/-- all five stages of an unflagged iteration: the invariant after `finishedTasksLoopA`, and, when no loop did any
work, what `afterTasksA_spec` asks for -/
theorem stages15 {rules : List RuleSpec} (hok : RulesOk rules) {key : Key} {a0 : Async} {s0 : State} {ms0 : MSt}
    (hi0 : Inv rules key s0 ms0) (hnm0 : NoMid s0) (haux0 : Aux key s0 {}) (hh0 : s0.halted = false)
    (herr0 : ms0.m.errSeen = false) (h5 : (stA5 a0 s0).2.2.2.halted = false) :
    (stA5 a0 s0).1 = false ∧ ∃ toks ms5, Emits s0 toks (stA5 a0 s0).2.2.2 ∧
      trun (program rules) ms0 toks = some ms5 ∧ Inv rules key (stA5 a0 s0).2.2.2 ms5 ∧ NoMid (stA5 a0 s0).2.2.2 ∧
      Aux key (stA5 a0 s0).2.2.2 {} ∧
      ((stA5 a0 s0).2.1 = false → ms5.m.errSeen = false ∧ (stA5 a0 s0).2.2.2.ruleInfosToScan = [] ∧
        (stA5 a0 s0).2.2.2.inputRequests = [] ∧ (stA5 a0 s0).2.2.2.finishedInputRequests = [] ∧
        (stA5 a0 s0).2.2.2.readyTaskInfos = []) := by
  have hS := asyncStepSim
  have hF := asyncStepFrame
  have hA := asyncStepAux
  have h4 : (stA4 a0 s0).2.2.halted = false := (haltMono_finTasksA _ _ _).of_result h5
  have h3 : (stA3 a0 s0).2.2.halted = false := (haltMono_readyA _ _ _).of_result h4
  have h2 : (stA2 a0 s0).2.2.halted = false := (haltMono_finInputA _ _ _).of_result h3
  have h1 : (stA1 a0 s0).2.2.halted = false := (haltMono_inputA _ _ _).of_result h2
  by_cases hw5 : (stA5 a0 s0).2.1 = true
  · obtain ⟨toks4, ms4, he4, hr4, hi4, hnm4, haux4⟩ := stages14 hok hi0 haux0 hh0 h4
    have S5 : (stA5 a0 s0).1 = false ∧ Sim rules (stA4 a0 s0).2.2 ms4 (stA5 a0 s0).2.2.2 {} (fun _ =>
        (stA5 a0 s0).2.2.2.finishedTaskInfos = [] ∧ NoMid (stA5 a0 s0).2.2.2) :=
      finishedTasksLoopA_sim hS hF rules hok loopFuel (stA4 a0 s0).1 (stA4 a0 s0).2.1 (stA4 a0 s0).2.2 ms4
        hi4.rel hi4.pend h4 hnm4
    have haux5 : Aux key (stA5 a0 s0).2.2.2 {} :=
      finishedTasksLoopA_aux hS hF hA hok loopFuel (stA4 a0 s0).1 (stA4 a0 s0).2.1 (stA4 a0 s0).2.2 ms4
        hi4.rel hi4.pend h4 hnm4 haux4
    obtain ⟨hfail, S5⟩ := S5
    obtain ⟨toks5, ms5, he5, hr5, hi5, -, hnm5⟩ := hi4.step S5 h5
    exact ⟨hfail, toks4 ++ toks5, ms5, he4.trans he5, trun_append_some hr4 hr5, hi5, hnm5, haux5,
      fun h => by rw [hw5] at h; cases h⟩
  · have hw5' : (stA5 a0 s0).2.1 = false := by simpa using hw5
    obtain ⟨e, q1, q2, q3, q4, -, hfail⟩ := noworkA_all a0 s0 hw5' h1 h2 h3 h4 h5
    obtain ⟨toks5, ms5, he5, hr5, hi5, her5, hh5, hnm5, haux5, -⟩ := apN_inv 5 a0 hi0 hh0
    have hnm5' := hnm5 hnm0
    have haux5' := haux5 haux0
    rw [← e] at he5 hi5 hh5 hnm5' haux5' q1 q2 q3 q4
    exact ⟨hfail, toks5, ms5, he5, hr5, hi5, hnm5', haux5', fun _ => ⟨her5.trans herr0, q1, q2, q3, q4⟩⟩

/-- `finishedTasksLoopA` with the work loop's fuel, no finished task at the item boundary (FailComm.lean) -/
theorem finTasksF_none (w : Bool) (a : Async) (s : State)
    (h : (asyncPoint a s).2.finishedTaskInfos.getLast? = none) :
    finishedTasksLoopA loopFuel w a (withFail true s) = (false, w, (asyncPoint a s).1, withFail true (asyncPoint a s).2) ∧
    finishedTasksLoopA loopFuel w a s = (false, w, (asyncPoint a s).1, (asyncPoint a s).2) :=
  finishedTasksLoopA_withFail_none true 999999 w a s h

/-- … a finished task at the item boundary: the write fails -/
theorem finTasksF_some (w : Bool) (a : Async) (s : State) (task : Key)
    (h : (asyncPoint a s).2.finishedTaskInfos.getLast? = some task) (hdb : (asyncPoint a s).2.hasDB = true) :
    finishedTasksLoopA loopFuel w a (withFail true s) =
      (true, true,
        (cancelRemainingTasksA (asyncPoint a s).1 (failExitState task
          { (asyncPoint a s).2 with finishedTaskInfos := (asyncPoint a s).2.finishedTaskInfos.dropLast })).1,
        withFail false (cancelRemainingTasksA (asyncPoint a s).1 (failExitState task
          { (asyncPoint a s).2 with finishedTaskInfos := (asyncPoint a s).2.finishedTaskInfos.dropLast })).2) :=
  finishedTasksLoopA_withFail_true' 999999 w a s task h hdb

/-! ## 2. the end of an iteration with the flag set -/

/-- the harness's delegate never asks for a cycle to be broken: `resolveCycle` reports or halts -/
theorem resolveCycle_fst_noResolve (key : Key) (s : State) (h : s.shouldResolveCycle = false) :
    (resolveCycle key s).1 = false := by
  rw [resolveCycle_noResolve key s h]
  cases findCycle key s <;> rfl

/-- the exits of an iteration that did no work (success, reported cycle) do not read the flag -/
theorem afterWaitA_false_withFail (key : Key) (fuel : Nat) (a : Async) (s : State) (h : s.shouldResolveCycle = false) :
    afterWaitA key fuel false a (withFail true s) =
      ((afterWaitA key fuel false a s).1, (afterWaitA key fuel false a s).2.1,
        withFail true (afterWaitA key fuel false a s).2.2) := by
  rw [afterWaitA_withFail]
  unfold afterWaitA
  simp only [Bool.false_eq_true, if_false, resolveCycle_fst_noResolve key s h]
  split <;> rfl

theorem noS2_afterWaitA_false (key : Key) (fuel : Nat) (a : Async) (s : State) (h : s.shouldResolveCycle = false) :
    NoS2 s (afterWaitA key fuel false a s).2.2 := by
  unfold afterWaitA
  simp only [Bool.false_eq_true, if_false, resolveCycle_fst_noResolve key s h]
  split
  · exact (noS2_resolveCycle key s).trans (noS2_cancelRemainingTasksA _ _)
  · exact NoS2.refl s

/-- the end of an iteration: next iteration (flag still set), success, or a reported cycle -/
theorem afterWaitF_spec {rules : List RuleSpec} (hok : RulesOk rules) {key : Key} {fuel : Nat}
    (ih : ∀ a s ms, Inv rules key s ms → NoMid s → Aux key s {} → s.halted = false →
      (executeLoopA key fuel a (withFail true s)).2.2.halted = false →
      LoopPostF rules key s ms (pr (executeLoopA key fuel a (withFail true s))))
    (w : Bool) (a : Async) (s : State) (ms : MSt) (hi : Inv rules key s ms) (hnm : NoMid s) (haux : Aux key s {})
    (hh : s.halted = false)
    (hq : w = false → ms.m.errSeen = false ∧ s.ruleInfosToScan = [] ∧ s.inputRequests = [] ∧
      s.finishedInputRequests = [] ∧ s.readyTaskInfos = [] ∧ s.finishedTaskInfos = [] ∧
      s.numOutstandingUnfinishedTasks = 0)
    (hnh : (afterWaitA key fuel w a (withFail true s)).2.2.halted = false) :
    LoopPostF rules key s ms (pr (afterWaitA key fuel w a (withFail true s))) := by
  cases w with
  | true =>
    have e : afterWaitA key fuel true a (withFail true s) = executeLoopA key fuel a (withFail true s) := by
      unfold afterWaitA; simp only [if_true]
    rw [e] at hnh ⊢
    exact ih a s ms hi hnm haux hh hnh
  | false =>
    have e := afterWaitA_false_withFail key fuel a s hi.rel.noResolve
    rw [e] at hnh ⊢
    have hnhU : (afterWaitA key fuel false a s).2.2.halted = false := hnh
    have hU := afterWaitA_spec hok (ihU hok key fuel) false a s ms hi hnm haux hh hq hnhU
    exact LoopPostF.of_unflagged (b := (afterWaitA key fuel false a s).1) (x := (afterWaitA key fuel false a s).2.2) hU
      (noS2_afterWaitA_false key fuel a s hi.rel.noResolve)

/-- the end of an iteration after `finishedTasksLoopA` found no finished task (the flag still set): the item boundary
before the wait check, the wait, and the exits -/
theorem afterTasksF_spec {rules : List RuleSpec} (hok : RulesOk rules) {key : Key} {fuel : Nat}
    (ih : ∀ a s ms, Inv rules key s ms → NoMid s → Aux key s {} → s.halted = false →
      (executeLoopA key fuel a (withFail true s)).2.2.halted = false →
      LoopPostF rules key s ms (pr (executeLoopA key fuel a (withFail true s))))
    (w : Bool) (a : Async) (s : State) (ms : MSt) (hi : Inv rules key s ms) (hnm : NoMid s) (haux : Aux key s {})
    (hh : s.halted = false)
    (hq : w = false → ms.m.errSeen = false ∧ s.ruleInfosToScan = [] ∧ s.inputRequests = [] ∧
      s.finishedInputRequests = [] ∧ s.readyTaskInfos = [])
    (hnh : (afterTasksA key fuel (false, w, a, withFail true s)).2.2.halted = false) :
    LoopPostF rules key s ms (pr (afterTasksA key fuel (false, w, a, withFail true s))) := by
  rw [afterTasksA_withFail] at hnh ⊢
  simp only [Bool.false_eq_true, if_false] at hnh ⊢
  obtain ⟨toks6, ms6, he6, hr6, hi6, her6, hh6, hnm6, haux6, -⟩ := asyncPoint_inv a hi hh
  refine LoopPostF.prepend he6 ((noS2_asyncPoint a s).s2free he6) hr6 ?_
  obtain ⟨f1, f2, f3, f4, f5⟩ := asyncPoint_frame a s
  by_cases hw : (!w && (asyncPoint a s).2.numOutstandingUnfinishedTasks != 0) = true
  · rw [if_pos hw] at hnh ⊢
    have h7' : (withFail true (waitStep (asyncPoint a s).2)).halted = false := afterWaitA_of_result hnh
    have h7 : (waitStep (asyncPoint a s).2).halted = false := h7'
    have e7 := waitStep_eq h7
    rw [e7] at hnh h7 ⊢
    obtain ⟨toks7, ms7, he7, hr7, hi7, hnm7⟩ :=
      hi6.step (hook_sim rules hok 1 _ ms6 hi6.rel hi6.pend hh6) h7
    refine LoopPostF.prepend he7 ((noS2_hook 1 _).s2free he7) hr7 ?_
    exact afterWaitF_spec hok ih true _ _ ms7 hi7 (hnm7 (hnm6 hnm)) (hook_aux key 1 hi6.rel hi6.pend hh6 (haux6 haux)) h7
      (fun h => by cases h) hnh
  · rw [if_neg hw] at hnh ⊢
    refine afterWaitF_spec hok ih _ _ _ ms6 hi6 (hnm6 hnm) (haux6 haux) hh6 ?_ hnh
    intro hw5
    obtain ⟨herr, q1, q2, q3, q4⟩ := hq hw5
    have hnum : (asyncPoint a s).2.numOutstandingUnfinishedTasks = 0 := by
      rw [hw5] at hw
      simpa using hw
    have q5 : (asyncPoint a s).2.finishedTaskInfos = [] := by
      have hc := hi6.rel.outstandingCount
      rw [hnum] at hc
      apply List.eq_nil_of_length_eq_zero
      omega
    exact ⟨her6.trans herr, f1.trans q1, f2.trans q2, f3.trans q3, f4.trans q4, q5, hnum⟩

/-! ## 3. E1: the work loop started with the flag set -/

theorem afterTasksA_failed (key : Key) (fuel : Nat) (w : Bool) (a : Async) (s : State) :
    afterTasksA key fuel (true, w, a, s) = (false, a, s) := by
  unfold afterTasksA
  simp only [if_true]

/-- **E1, the induction**: the flagged run of an unflagged state that satisfies the loop invariant -/
theorem workLoopF_shape {rules : List RuleSpec} (hok : RulesOk rules) (key : Key) (fuel : Nat) :
    ∀ a s ms, Inv rules key s ms → NoMid s → Aux key s {} → s.halted = false →
      (executeLoopA key fuel a (withFail true s)).2.2.halted = false →
      LoopPostF rules key s ms (pr (executeLoopA key fuel a (withFail true s))) := by
  induction fuel with
  | zero =>
    intro a s ms _ _ _ _ hnh
    rw [executeLoopA_zero_withFail] at hnh
    have : (halt .FUEL s).halted = false := hnh
    rw [halt_halted] at this; cases this
  | succ fuel ih =>
    intro a s ms hi hnm haux hh hnh
    rw [executeLoopA_succ_withFail] at hnh ⊢
    simp only [hh, Bool.false_eq_true, if_false] at hnh ⊢
    -- the item boundary at the top of the loop
    obtain ⟨toksP, msP, heP, hrP, hiP, -, hhP, hnmP', hauxP', -⟩ := asyncPoint_inv a hi hh
    refine LoopPostF.prepend heP ((noS2_asyncPoint a s).s2free heP) hrP ?_
    have hnmP := hnmP' hnm
    have hauxP := hauxP' haux
    generalize asyncPoint a s = p0 at hnh hiP hhP hnmP hauxP ⊢
    obtain ⟨a0, sP⟩ := p0
    simp only [] at hnh hiP hhP hnmP hauxP ⊢
    clear heP hrP hnmP' hauxP' hi hnm haux hh s ms a
    -- `hook 0`
    have hh0 : (hook 0 sP).halted = false := by
      by_cases hc : (hook 0 sP).buildCancelled = true
      · rw [if_pos hc] at hnh
        have hnh' : (cancelRemainingTasksA a0 (hook 0 sP)).2.halted = false := hnh
        exact (haltMono_cancelA a0).of_result hnh'
      · rw [if_neg hc] at hnh
        have h5 := afterTasksA_of_result hnh
        have h4' : (withFail true (stA4 a0 (hook 0 sP)).2.2).halted = false := (haltMono_finTasksA _ _ _).of_result h5
        have h4 : (stA4 a0 (hook 0 sP)).2.2.halted = false := h4'
        have h3 : (stA3 a0 (hook 0 sP)).2.2.halted = false := (haltMono_readyA _ _ _).of_result h4
        have h2 : (stA2 a0 (hook 0 sP)).2.2.halted = false := (haltMono_finInputA _ _ _).of_result h3
        have h1 : (stA1 a0 (hook 0 sP)).2.2.halted = false := (haltMono_inputA _ _ _).of_result h2
        exact (haltMono_scanA _ _ _).of_result h1
    obtain ⟨toks0, ms0, he0, hr0, hi0, hnm0'⟩ := hiP.step (hook_sim rules hok 0 sP msP hiP.rel hiP.pend hhP) hh0
    have hnm0 := hnm0' hnmP
    have haux0 : Aux key (hook 0 sP) {} := hook_aux key 0 hiP.rel hiP.pend hhP hauxP
    refine LoopPostF.prepend he0 ((noS2_hook 0 sP).s2free he0) hr0 ?_
    generalize hook 0 sP = s0 at hnh hh0 hi0 hnm0 haux0 ⊢
    clear he0 hr0 hnm0' hiP hnmP hauxP hhP sP msP
    by_cases hc : s0.buildCancelled = true
    · -- cancelled at the top of the loop: no write
      rw [if_pos hc] at hnh ⊢
      have hnh' : (cancelRemainingTasksA a0 s0).2.halted = false := hnh
      have hU : LoopPost rules key s0 ms0 (false, (cancelRemainingTasksA a0 s0).2) :=
        cancelRemainingTasksA_sim rules hok a0 s0 ms0 key hi0.rel hi0.pend hh0 hi0.target hnm0
          (Or.inr (Or.inr (Or.inr hc))) hnh'
      exact LoopPostF.of_unflagged hU (noS2_cancelRemainingTasksA a0 s0)
    · rw [if_neg hc] at hnh ⊢
      have hc' : s0.buildCancelled = false := by simpa using hc
      have herr0 : ms0.m.errSeen = false := by
        cases he : ms0.m.errSeen with
        | false => rfl
        | true => have := hi0.rel.errCancelled he; rw [hc'] at this; cases this
      have h5F := afterTasksA_of_result hnh
      have h4' : (withFail true (stA4 a0 s0).2.2).halted = false := (haltMono_finTasksA _ _ _).of_result h5F
      have h4 : (stA4 a0 s0).2.2.halted = false := h4'
      clear h5F h4'
      cases hl : (asyncPoint (stA4 a0 s0).2.1 (stA4 a0 s0).2.2).2.finishedTaskInfos.getLast? with
      | none =>
        -- no finished task: the iteration is the unflagged one, the flag stays
        obtain ⟨eF, eU⟩ := finTasksF_none (stA4 a0 s0).1 (stA4 a0 s0).2.1 (stA4 a0 s0).2.2 hl
        have e5 : stA5 a0 s0 = (false, (stA4 a0 s0).1, (asyncPoint (stA4 a0 s0).2.1 (stA4 a0 s0).2.2).1,
            (asyncPoint (stA4 a0 s0).2.1 (stA4 a0 s0).2.2).2) := eU
        rw [eF] at hnh ⊢
        have h5' : (withFail true (asyncPoint (stA4 a0 s0).2.1 (stA4 a0 s0).2.2).2).halted = false :=
          afterTasksA_of_result hnh
        have h5 : (stA5 a0 s0).2.2.2.halted = false := by rw [e5]; exact h5'
        have H := stages15 hok hi0 hnm0 haux0 hh0 herr0 h5
        have hN : NoS2 s0 (stA5 a0 s0).2.2.2 := by
          rw [e5]; exact (noS2_stA4 a0 s0).trans (noS2_asyncPoint _ _)
        rw [e5] at H hN h5
        obtain ⟨-, toks5, ms5, he5, hr5, hi5, hnm5, haux5, hq5⟩ := H
        refine LoopPostF.prepend he5 (hN.s2free he5) hr5 ?_
        exact afterTasksF_spec hok ih (stA4 a0 s0).1 _ _ ms5 hi5 hnm5 haux5 h5 hq5 hnh
      | some task =>
        -- the first finished task: its write fails, the loop leaves through the failing exit
        obtain ⟨toks4, ms4, he4, hr4, hi4, hnm4, haux4⟩ := stages14 hok hi0 haux0 hh0 h4
        obtain ⟨toks5, ms5, he5, hr5, hi5, -, hh5, hnm5', -, -⟩ := asyncPoint_inv (stA4 a0 s0).2.1 hi4 h4
        have hnm5 := hnm5' hnm4
        have hN : NoS2 s0 (asyncPoint (stA4 a0 s0).2.1 (stA4 a0 s0).2.2).2 :=
          (noS2_stA4 a0 s0).trans (noS2_asyncPoint _ _)
        rw [finTasksF_some (stA4 a0 s0).1 (stA4 a0 s0).2.1 (stA4 a0 s0).2.2 task hl hi5.rel.hasDB,
          afterTasksA_failed] at hnh ⊢
        generalize asyncPoint (stA4 a0 s0).2.1 (stA4 a0 s0).2.2 = p5 at hl hnh he5 hi5 hh5 hnm5 hN ⊢
        obtain ⟨a5, s5⟩ := p5
        simp only [] at hl hnh he5 hi5 hh5 hnm5 hN ⊢
        obtain ⟨m5, p5⟩ := ms5
        have hp5 : p5 = none := hi5.pend
        subst hp5
        generalize hs6 : ({ s5 with finishedTaskInfos := s5.finishedTaskInfos.dropLast } : State) = s6 at hnh ⊢
        have hnhQ : (cancelRemainingTasksA a5 (failExitState task s6)).2.halted = false := hnh
        obtain ⟨regs, c, ctoks, m1, m', hE, hregs, hct, hrun1, hrun2, hpost, hst, hstore, -, hcut1, hcut2, -⟩ :=
          failExit_core hok a5 hi5.rel hnm5 hh5 hi5.target hl s6 hs6.symm hnhQ
        have hflag : (cancelRemainingTasksA a5 (failExitState task s6)).2.store.failNextSet = false := by
          rw [hstore]; exact hi5.rel.noFail
        refine ⟨_, m', true, (he4.trans he5).trans hE, ?_, ?_, hst, rfl, fun _ => rfl⟩
        · refine ⟨toks4 ++ toks5, (s6.task task).forRuleInfo,
            ((finishedTaskPre task s6).rule (s6.task task).forRuleInfo).result, regs, xtoks c, ctoks, m5, m1, ?_,
            hN.s2free (he4.trans he5), trun_append_some hr4 hr5, hregs, ?_, hrun1, hct, hrun2, hcut1, hcut2⟩
          · simp only [List.cons_append, List.append_assoc]
          · cases c
            · exact Or.inl rfl
            · exact Or.inr rfl
        · show RelPost rules key (withFail false (withFail false _)) m' false
          rw [withFail_withFail, withFail_of_flag hflag]
          exact hpost

/-- **E1.**  The statement of `WorkLoopSpecA` for the run started with the failure flag set, read by the monitor with the
failed-write clause (`trunF`).  `s` is the UNFLAGGED state. -/
def WorkLoopSpecF (rules : List RuleSpec) : Prop :=
  ∀ (key : Key) (fuel : Nat) (a : Async) (s : State) (ms : MSt),
    Rel rules s ms {} → NoMid s → ms.pend = none → ms.m.target = some key → Registered s key → s.halted = false →
    (∀ p ∈ ms.m.pending, isDone ms.m p.1 = false) →
    (∀ a q, delivered (ms.m.task a).seq q = true → q.kind ≠ 2) →
    Aux key s {} →
    (executeLoopA key fuel a (withFail true s)).2.2.halted = false →
    ∃ toks m', Emits (withFail true s) toks (executeLoopA key fuel a (withFail true s)).2.2 ∧
      trunF (program rules) ms toks = some ⟨m', none⟩ ∧
      RelPost rules key (withFail false (executeLoopA key fuel a (withFail true s)).2.2) m'
        (executeLoopA key fuel a (withFail true s)).1 ∧ m'.started = true

/-- E1 with the shape of the tokens and the flag afterwards (what the build level uses) -/
theorem workLoopF_post {rules : List RuleSpec} (hok : RulesOk rules) (key : Key) (fuel : Nat) (a : Async) (s : State)
    (ms : MSt) (hr : Rel rules s ms {}) (hnm : NoMid s) (hp : ms.pend = none) (ht : ms.m.target = some key)
    (hreg : Registered s key) (hh : s.halted = false) (hpf : ∀ p ∈ ms.m.pending, isDone ms.m p.1 = false)
    (hmf : ∀ a q, delivered (ms.m.task a).seq q = true → q.kind ≠ 2) (haux : Aux key s {})
    (hnh : (executeLoopA key fuel a (withFail true s)).2.2.halted = false) :
    LoopPostF rules key s ms (pr (executeLoopA key fuel a (withFail true s))) :=
  workLoopF_shape hok key fuel a s ms ⟨hr, hp, ht, hreg, hpf, hmf⟩ hnm haux hh hnh

theorem LoopPostF.trunF {rules : List RuleSpec} {key : Key} {s : State} {ms : MSt} {res : Bool × State}
    (h : LoopPostF rules key s ms res) (hp : ms.pend = none) :
    ∃ toks m', Emits (withFail true s) toks res.2 ∧ Refine.trunF (program rules) ms toks = some ⟨m', none⟩ ∧
      RelPost rules key (withFail false res.2) m' res.1 ∧ m'.started = true := by
  obtain ⟨toks, m', f, he, hf, hpost, hst, -, -⟩ := h
  obtain ⟨m, p⟩ := ms
  simp only at hp
  subst hp
  exact ⟨toks, m', he, hf.trunF, hpost, hst⟩

theorem workLoopF_final : ∀ rules, RulesOk rules → WorkLoopSpecF rules :=
  fun _ hok key fuel a s ms hr hnm hp ht hreg hh hpf hmf haux hnh =>
    (workLoopF_post hok key fuel a s ms hr hnm hp ht hreg hh hpf hmf haux hnh).trunF hp

/-- the flag after the flagged run: consumed exactly when the loop attempted a write; and then the loop failed -/
theorem workLoopF_flag {rules : List RuleSpec} (hok : RulesOk rules) (key : Key) (fuel : Nat) (a : Async) (s : State)
    (ms : MSt) (hi : Inv rules key s ms) (hnm : NoMid s) (haux : Aux key s {}) (hh : s.halted = false)
    (hnh : (executeLoopA key fuel a (withFail true s)).2.2.halted = false) :
    (executeLoopA key fuel a (withFail true s)).2.2.store.failNextSet = false →
      (executeLoopA key fuel a (withFail true s)).1 = false := by
  obtain ⟨toks, m', f, -, -, -, -, hfl, hres⟩ := workLoopF_shape hok key fuel a s ms hi hnm haux hh hnh
  intro h0
  apply hres
  have hfl' : (executeLoopA key fuel a (withFail true s)).2.2.store.failNextSet = !f := hfl
  rw [h0] at hfl'
  cases f
  · cases hfl'
  · rfl

/-! ## 4. E2: the flagged run does not halt -/

theorem afterWaitF_nohalt {rules : List RuleSpec} (hok : RulesOk rules) {U : List Key} (hUlen : U.length + 2 ≤ loopFuel)
    {key : Key} {fuel : Nat}
    (ih : ∀ a s ms, Inv rules key s ms → NoMid s → Aux key s {} → DiscM (program rules) ms.m → ClosedU rules U s →
      s.halted = false → Phi rules U s {} + 1 < fuel → Phi rules U s {} < loopFuel → Phi rules U s {} < scanFuel →
      (executeLoopA key fuel a (withFail true s)).2.2.halted = false)
    (w : Bool) (a : Async) (s : State) (ms : MSt) (hi : Inv rules key s ms) (hnm : NoMid s) (haux : Aux key s {})
    (hd : DiscM (program rules) ms.m) (hU : ClosedU rules U s) (hh : s.halted = false)
    (hL : Phi rules U s {} < loopFuel) (hS : Phi rules U s {} < scanFuel)
    (hw : w = true → Phi rules U s {} + 1 < fuel)
    (hq : w = false → s.ruleInfosToScan = [] ∧ s.inputRequests = [] ∧
      s.finishedInputRequests = [] ∧ s.readyTaskInfos = [] ∧ s.finishedTaskInfos = [] ∧
      s.numOutstandingUnfinishedTasks = 0) :
    (afterWaitA key fuel w a (withFail true s)).2.2.halted = false := by
  cases w with
  | true =>
    have e : afterWaitA key fuel true a (withFail true s) = executeLoopA key fuel a (withFail true s) := by
      unfold afterWaitA; simp only [if_true]
    rw [e]
    exact ih a s ms hi hnm haux hd hU hh (hw rfl) hL hS
  | false =>
    rw [afterWaitA_false_withFail key fuel a s hi.rel.noResolve]
    show (afterWaitA key fuel false a s).2.2.halted = false
    exact afterWaitA_nohalt hok hUlen (executeLoopA_nohalt hok hUlen fuel) false a s ms hi hnm haux hd hU hh hL hS
      (fun h => by cases h) hq

theorem afterTasksF_nohalt {rules : List RuleSpec} (hok : RulesOk rules) {U : List Key} (hUlen : U.length + 2 ≤ loopFuel)
    {key : Key} {fuel : Nat}
    (ih : ∀ a s ms, Inv rules key s ms → NoMid s → Aux key s {} → DiscM (program rules) ms.m → ClosedU rules U s →
      s.halted = false → Phi rules U s {} + 1 < fuel → Phi rules U s {} < loopFuel → Phi rules U s {} < scanFuel →
      (executeLoopA key fuel a (withFail true s)).2.2.halted = false)
    (w : Bool) (a : Async) (s : State) (ms : MSt) (hi : Inv rules key s ms)
    (hnm : NoMid s) (haux : Aux key s {}) (hd : DiscM (program rules) ms.m)
    (hU : ClosedU rules U s) (hh : s.halted = false)
    (hL : Phi rules U s {} < loopFuel) (hS : Phi rules U s {} < scanFuel)
    (hF : Phi rules U s {} < fuel) (hfin : s.finishedTaskInfos = [])
    (hw : w = true → Phi rules U s {} + 1 < fuel)
    (hq : w = false → s.ruleInfosToScan = [] ∧ s.inputRequests = [] ∧
      s.finishedInputRequests = [] ∧ s.readyTaskInfos = []) :
    (afterTasksA key fuel (false, w, a, withFail true s)).2.2.halted = false := by
  rw [afterTasksA_withFail]
  simp only [Bool.false_eq_true, if_false]
  obtain ⟨toks6, ms6, he6, hr6, hi6, -, hh6, hnm6, haux6, hd6⟩ := asyncPoint_inv a hi hh
  have T6 := asyncPoint_termG (U := U) a hi.rel hi.pend hh hU
  have hT6 := T6.2
  obtain ⟨f1, f2, f3, f4, f5⟩ := asyncPoint_frame a s
  by_cases hwt : (!w && (asyncPoint a s).2.numOutstandingUnfinishedTasks != 0) = true
  · rw [if_pos hwt]
    have hnum : (asyncPoint a s).2.numOutstandingUnfinishedTasks ≠ 0 := by
      simp only [Bool.and_eq_true, bne_iff_ne, ne_eq] at hwt
      exact hwt.2
    have hne := (hook_step 1 hi6.rel hh6).2 rfl hi6.pend hnum
    have h7 := hook_nohalt 1 hi6.rel hh6
    have T7 : TermStep rules U s {} (hook 1 (asyncPoint a s).2) {} 1 := by
      by_cases hfe : (asyncPoint a s).2.finishedTaskInfos = []
      · have := (hook_wait_term hi6.rel hi6.pend hh6 T6.1 hnum hfe).2
        exact ⟨this.1, by have := this.2; omega⟩
      · have hlen : 1 ≤ (asyncPoint a s).2.finishedTaskInfos.length := by
          cases hl : (asyncPoint a s).2.finishedTaskInfos with
          | nil => exact absurd hl hfe
          | cons x l => simp
        have := hook_term (U := U) 1 hi6.rel hi6.pend hh6 T6.1
        refine ⟨this.1, ?_⟩
        have h2 := this.2
        rw [hfin] at hT6
        simp only [List.length_nil, Nat.sub_zero] at hT6
        omega
    obtain ⟨toks7, ms7, he7, hr7, hi7, hnm7⟩ :=
      hi6.step (hook_sim rules hok 1 _ ms6 hi6.rel hi6.pend hh6) h7
    rw [waitStep_of_ne hne]
    have hT7 := T7.2
    exact afterWaitF_nohalt hok hUlen ih true _ _ ms7 hi7 (hnm7 (hnm6 hnm))
      (hook_aux key 1 hi6.rel hi6.pend hh6 (haux6 haux)) (trun_discM hr7 (hd6 hd)) T7.1 h7 (by omega) (by omega)
      (fun _ => by omega) (fun h => by cases h)
  · rw [if_neg hwt]
    refine afterWaitF_nohalt hok hUlen ih _ _ _ ms6 hi6 (hnm6 hnm) (haux6 haux) (hd6 hd) T6.1 hh6 (by omega) (by omega)
      (fun h => by have := hw h; omega) ?_
    intro hw5
    obtain ⟨q1, q2, q3, q4⟩ := hq hw5
    have hnum : (asyncPoint a s).2.numOutstandingUnfinishedTasks = 0 := by
      rw [hw5] at hwt
      simpa using hwt
    have q5 : (asyncPoint a s).2.finishedTaskInfos = [] := by
      have hc := hi6.rel.outstandingCount
      rw [hnum] at hc
      apply List.eq_nil_of_length_eq_zero
      omega
    exact ⟨f1.trans q1, f2.trans q2, f3.trans q3, f4.trans q4, q5, hnum⟩

/-- **E2: the work loop started with the flag set does not halt**, under the bounds of `executeLoopA_nohalt` for the
unflagged state `s` -/
theorem executeLoopF_nohalt {rules : List RuleSpec} (hok : RulesOk rules) {U : List Key} {key : Key}
    (hUlen : U.length + 2 ≤ loopFuel) :
    ∀ (fuel : Nat) (a : Async) (s : State) (ms : MSt), Inv rules key s ms → NoMid s → Aux key s {} →
      DiscM (program rules) ms.m → ClosedU rules U s → s.halted = false →
      Phi rules U s {} + 1 < fuel → Phi rules U s {} < loopFuel → Phi rules U s {} < scanFuel →
      (executeLoopA key fuel a (withFail true s)).2.2.halted = false := by
  intro fuel
  have hS := asyncStepSim
  have hF := asyncStepFrame
  have hA := asyncStepAux
  have hT := asyncStepTerm
  induction fuel with
  | zero => intro a s ms _ _ _ _ _ _ hFu; omega
  | succ fuel ih =>
    intro a s ms hi hnm haux hd hU hh hFu hL hSc
    rw [executeLoopA_succ_withFail]
    simp only [hh, Bool.false_eq_true, if_false]
    -- the item boundary at the top of the loop
    obtain ⟨toksP, msP, -, hrP, hiP, -, hhP, hnmP', hauxP', hdP'⟩ := asyncPoint_inv a hi hh
    have TP := asyncPoint_term (U := U) a hi.rel hi.pend hh hU
    have hnmP := hnmP' hnm
    have hauxP := hauxP' haux
    have hdP := hdP' hd
    have hUP := TP.1
    have hPP : Phi rules U (asyncPoint a s).2 {} < fuel ∧ Phi rules U (asyncPoint a s).2 {} < loopFuel ∧
        Phi rules U (asyncPoint a s).2 {} < scanFuel := by
      have := TP.2; omega
    generalize asyncPoint a s = p0 at hiP hhP hnmP hauxP hUP hPP ⊢
    obtain ⟨a0, sP⟩ := p0
    simp only [] at hiP hhP hnmP hauxP hUP hPP ⊢
    clear hrP hnmP' hauxP' hdP' TP hi hnm haux hd hU hh hFu hL hSc s ms a
    -- `hook 0`
    have hh0 := hook_nohalt 0 hiP.rel hhP
    have T0 := hook_term (U := U) 0 hiP.rel hiP.pend hhP hUP
    have haux0 := hook_aux key 0 hiP.rel hiP.pend hhP hauxP
    obtain ⟨ms0, hi0, hd0, hnm0'⟩ := hiP.stepD hdP (hook_sim rules hok 0 sP msP hiP.rel hiP.pend hhP) hh0
    have hnm0 := hnm0' hnmP
    have hU0 := T0.1
    have hP0 : Phi rules U (hook 0 sP) {} < fuel ∧ Phi rules U (hook 0 sP) {} < loopFuel ∧
        Phi rules U (hook 0 sP) {} < scanFuel := by
      have := T0.2; omega
    generalize hook 0 sP = s0 at hh0 haux0 hi0 hnm0 hU0 hP0 ⊢
    clear T0 hnm0' hiP hnmP hauxP hdP hUP hhP hPP sP msP
    obtain ⟨hF0, hL0, hS0⟩ := hP0
    by_cases hc : s0.buildCancelled = true
    · rw [if_pos hc]
      show (cancelRemainingTasksA a0 s0).2.halted = false
      exact cancelRemainingTasksA_nohalt_of_Phi hok a0 hi0.rel hi0.pend hU0 hh0 hL0
    · rw [if_neg hc]
      -- scan requests
      have h1 : (stA1 a0 s0).2.2.halted = false :=
        scanRequestsLoopA_nohalt hS hF hA hT hok hi0.rel hi0.pend hh0 hU0 hL0 hS0
      have T1 : TermStep rules U s0 {} (stA1 a0 s0).2.2 {} (if false = false ∧ (stA1 a0 s0).1 = true then 1 else 0) :=
        scanRequestsLoopA_term hS hF hA hT hok hi0.rel hi0.pend hh0 hU0 hL0 hS0
      have S1 : Sim rules s0 ms0 (stA1 a0 s0).2.2 {} (fun _ => (stA1 a0 s0).2.2.ruleInfosToScan = []) :=
        scanRequestsLoopA_sim hS hF hA hT rules hok loopFuel false a0 s0 ms0 hi0.rel hi0.pend hh0
      have haux1 : Aux key (stA1 a0 s0).2.2 {} :=
        scanRequestsLoopA_aux hS hF hA hT hok key loopFuel false a0 s0 ms0 hi0.rel hi0.pend hh0 h1 haux0
      obtain ⟨ms1, hi1, hd1, hq1⟩ := hi0.stepD hd0 S1 h1
      have hfresh1 : FreshScanQ (stA1 a0 s0).2.2 := by
        intro r hr; rw [hq1] at hr; cases hr
      have hT1 := T1.2
      -- input requests
      have h2 : (stA2 a0 s0).2.2.halted = false :=
        inputRequestsLoopA_nohalt hS hF hT scanRuleTerm demandRule_nohalt_U demandRule_term rules hok U loopFuel
          (stA1 a0 s0).1 (stA1 a0 s0).2.1 (stA1 a0 s0).2.2 ms1 hi1.rel hi1.pend h1 hfresh1 hi1.pendFresh T1.1 (by omega)
      have T2 : TermStep rules U (stA1 a0 s0).2.2 {} (stA2 a0 s0).2.2 {}
          (if (stA1 a0 s0).1 = false ∧ (stA2 a0 s0).1 = true then 1 else 0) :=
        inputRequestsLoopA_term hS hF hT scanRuleTerm demandRule_nohalt_U demandRule_term rules hok U loopFuel
          (stA1 a0 s0).1 (stA1 a0 s0).2.1 (stA1 a0 s0).2.2 ms1 hi1.rel hi1.pend h1 hfresh1 hi1.pendFresh T1.1 (by omega)
      have S2 : Sim rules (stA1 a0 s0).2.2 ms1 (stA2 a0 s0).2.2 {} (fun ms' =>
          ((stA2 a0 s0).2.2.inputRequests = [] ∧ NoMid (stA2 a0 s0).2.2 ∧ FreshScanQ (stA2 a0 s0).2.2) ∧
            PendFresh ms'.m) :=
        inputRequestsLoopA_sim hS hF rules hok loopFuel (stA1 a0 s0).1 (stA1 a0 s0).2.1 (stA1 a0 s0).2.2 ms1
          hi1.rel hi1.pend h1 hfresh1 hi1.pendFresh
      have haux2 : Aux key (stA2 a0 s0).2.2 {} :=
        inputRequestsLoopA_aux hS hF hA rules hok loopFuel (stA1 a0 s0).1 (stA1 a0 s0).2.1 (stA1 a0 s0).2.2 ms1 key
          hi1.rel hi1.pend h1 hfresh1 hi1.pendFresh h2 scanRuleAux demandRule_aux haux1
      obtain ⟨ms2, hi2, hd2, ⟨-, hnm2, -⟩, -⟩ := hi1.stepD hd1 S2 h2
      have hT2 := T2.2
      -- finished inputs
      have h3 : (stA3 a0 s0).2.2.halted = false :=
        finishedInputsLoopA_nohalt hS hF hA hT hok (fuel := loopFuel) (w := (stA2 a0 s0).1) (a := (stA2 a0 s0).2.1)
          hi2.rel hi2.pend h2 hnm2 T2.1 (by omega)
      have T3 : TermStep rules U (stA2 a0 s0).2.2 {} (stA3 a0 s0).2.2 {}
          (if (stA2 a0 s0).1 = false ∧ (stA3 a0 s0).1 = true then 1 else 0) :=
        finishedInputsLoopA_term hS hF hA hT hok (fuel := loopFuel) (w := (stA2 a0 s0).1) (a := (stA2 a0 s0).2.1)
          hi2.rel hi2.pend h2 hnm2 T2.1 (by omega)
      have S3 : Sim rules (stA2 a0 s0).2.2 ms2 (stA3 a0 s0).2.2 {} (fun _ =>
          (stA3 a0 s0).2.2.finishedInputRequests = [] ∧ NoMid (stA3 a0 s0).2.2) :=
        finishedInputsLoopA_sim hS hF hA hT rules hok loopFuel (stA2 a0 s0).1 (stA2 a0 s0).2.1 (stA2 a0 s0).2.2 ms2
          hi2.rel hi2.pend h2 hnm2
      have haux3 : Aux key (stA3 a0 s0).2.2 {} :=
        finishedInputsLoopA_aux hS hF hA hT hok loopFuel (stA2 a0 s0).1 (stA2 a0 s0).2.1 (stA2 a0 s0).2.2 ms2
          hi2.rel hi2.pend h2 hnm2 h3 haux2
      obtain ⟨ms3, hi3, hd3, -, hnm3⟩ := hi2.stepD hd2 S3 h3
      have hT3 := T3.2
      -- ready tasks
      have h4 : (stA4 a0 s0).2.2.halted = false :=
        readyTasksLoopA_nohalt loopFuel (stA3 a0 s0).1 (stA3 a0 s0).2.1 hi3.rel hi3.pend h3 hnm3 T3.1 (by omega)
      have T4 : TermStep rules U (stA3 a0 s0).2.2 {} (stA4 a0 s0).2.2 {}
          (if (stA3 a0 s0).1 = false ∧ (stA4 a0 s0).1 = true then 1 else 0) :=
        readyTasksLoopA_term loopFuel (stA3 a0 s0).1 (stA3 a0 s0).2.1 hi3.rel hi3.pend h3 hnm3 T3.1 (by omega)
      have S4 : Sim rules (stA3 a0 s0).2.2 ms3 (stA4 a0 s0).2.2 {} (fun _ =>
          (stA4 a0 s0).2.2.readyTaskInfos = [] ∧ NoMid (stA4 a0 s0).2.2) :=
        readyTasksLoopA_sim rules hok loopFuel (stA3 a0 s0).1 (stA3 a0 s0).2.1 (stA3 a0 s0).2.2 ms3
          hi3.rel hi3.pend h3 hnm3
      have haux4 : Aux key (stA4 a0 s0).2.2 {} :=
        readyTasksLoopA_aux key loopFuel (stA3 a0 s0).1 (stA3 a0 s0).2.1 (stA3 a0 s0).2.2 ms3
          hi3.rel hi3.pend h3 hnm3 h4 haux3
      obtain ⟨ms4, hi4, hd4, -, hnm4⟩ := hi3.stepD hd3 S4 h4
      have hT4 := T4.2
      -- the item boundary of the finished-task phase
      obtain ⟨toks5, ms5, -, hr5, hi5, -, hh5, hnm5', haux5', hd5'⟩ := asyncPoint_inv (stA4 a0 s0).2.1 hi4 h4
      have T5 := asyncPoint_term (U := U) (stA4 a0 s0).2.1 hi4.rel hi4.pend h4 T4.1
      have hT5 := T5.2
      have IH : ∀ a s ms, Inv rules key s ms → NoMid s → Aux key s {} → DiscM (program rules) ms.m → ClosedU rules U s →
          s.halted = false → Phi rules U s {} + 1 < fuel → Phi rules U s {} < loopFuel → Phi rules U s {} < scanFuel →
          (executeLoopA key fuel a (withFail true s)).2.2.halted = false := ih
      cases hl : (asyncPoint (stA4 a0 s0).2.1 (stA4 a0 s0).2.2).2.finishedTaskInfos.getLast? with
      | none =>
        obtain ⟨eF, eU⟩ := finTasksF_none (stA4 a0 s0).1 (stA4 a0 s0).2.1 (stA4 a0 s0).2.2 hl
        have e5 : stA5 a0 s0 = (false, (stA4 a0 s0).1, (asyncPoint (stA4 a0 s0).2.1 (stA4 a0 s0).2.2).1,
            (asyncPoint (stA4 a0 s0).2.1 (stA4 a0 s0).2.2).2) := eU
        rw [eF]
        refine afterTasksF_nohalt hok hUlen IH (stA4 a0 s0).1 _ _ ms5 hi5 (hnm5' hnm4) (haux5' haux4)
          (hd5' hd4) T5.1 hh5 (by omega) (by omega) (by omega) (List.getLast?_eq_none_iff.mp hl) ?_ ?_
        · intro hw4
          have := flags_drop (stA1 a0 s0).1 (stA2 a0 s0).1 (stA3 a0 s0).1 (stA4 a0 s0).1 (stA4 a0 s0).1 hw4
          have h0 : (if (stA4 a0 s0).1 = false ∧ (stA4 a0 s0).1 = true then 1 else 0) = 0 := by
            rw [hw4]; simp
          omega
        · intro hw4
          have hw5 : (stA5 a0 s0).2.1 = false := by rw [e5]; exact hw4
          have h5 : (stA5 a0 s0).2.2.2.halted = false := by rw [e5]; exact hh5
          obtain ⟨e, q1, q2, q3, q4, -, -⟩ := noworkA_all a0 s0 hw5 h1 h2 h3 h4 h5
          rw [← e, e5] at q1 q2 q3 q4
          exact ⟨q1, q2, q3, q4⟩
      | some task =>
        rw [finTasksF_some (stA4 a0 s0).1 (stA4 a0 s0).2.1 (stA4 a0 s0).2.2 task hl hi5.rel.hasDB, afterTasksA_failed]
        show (cancelRemainingTasksA _ (failExitState task _)).2.halted = false
        exact failExit_nohalt_of_Phi hok _ hi5.rel hi5.pend T5.1 hh5 hl (by omega)

/-
#print axioms workLoopF_shape       -- [propext, Classical.choice, Quot.sound]
#print axioms workLoopF_final       -- [propext, Classical.choice, Quot.sound]
#print axioms executeLoopF_nohalt   -- [propext, Classical.choice, Quot.sound]
-/
end LLBuild.Refine
