/-
IM4 — `scanRequestsLoopA` (the scan-request loop with an asynchronous step at every item boundary):
(N) with the empty schedule it is `scanRequestsLoop`; (R) refinement; (X) `Aux`; (T) no halt and the flag-based drop of
the potential.  The four facts about one asynchronous step are hypotheses (`AsyncSpec.lean`; proved in `AsyncStep.lean`).
Helpers live in the namespace `AsyncScan`.
-/
import LLBuild.Lemmas.Refine.ScanLoop
import LLBuild.Lemmas.Refine.TermScan
import LLBuild.Lemmas.Refine.AsyncSpec

namespace LLBuild.Refine
open LLBuild.Engine LLBuild.Engine.DSL LLBuild.EngineImpl

namespace AsyncScan

/-! ## one item boundary -/

theorem asyncPoint_nil (s : State) : asyncPoint [] s = ([], s) := rfl
theorem asyncPoint_cons (it : SchedItem) (rest : Async) (s : State) : asyncPoint (it :: rest) s = (rest, asyncStep it s) := rfl

theorem asyncPoint_sim (hS : AsyncStepSim) {rules : List RuleSpec} (hok : RulesOk rules) (a : Async) {s : State} {ms : MSt}
    (hr : Rel rules s ms {}) (hp : ms.pend = none) (hh : s.halted = false) :
    (asyncPoint a s).2.halted = false ∧ Sim rules s ms (asyncPoint a s).2 {} (fun _ => True) := by
  cases a with
  | nil =>
    exact ⟨hh, fun _ => ⟨[], ms, Emits.refl s, rfl, hr, hp, fun _ h => h, rfl, trivial⟩⟩
  | cons it rest => exact hS rules hok it s ms hr hp hh

theorem asyncPoint_scanQ (hF : AsyncStepFrame) (a : Async) (s : State) :
    (asyncPoint a s).2.ruleInfosToScan = s.ruleInfosToScan := by
  cases a with
  | nil => rfl
  | cons it rest => exact (hF it s).1

theorem asyncPoint_aux (hA : AsyncStepAux) {rules : List RuleSpec} (a : Async) {s : State} {ms : MSt} {key : Key}
    (hr : Rel rules s ms {}) (hp : ms.pend = none) (hh : s.halted = false) (ha : Aux key s {}) :
    Aux key (asyncPoint a s).2 {} := by
  cases a with
  | nil => exact ha
  | cons it rest => exact hA rules it s ms key hr hp hh ha

theorem asyncPoint_term (hT : AsyncStepTerm) {rules : List RuleSpec} {U : List Key} (a : Async) {s : State} {ms : MSt}
    (hr : Rel rules s ms {}) (hp : ms.pend = none) (hh : s.halted = false) (hc : ClosedU rules U s) :
    TermStep rules U s {} (asyncPoint a s).2 {} 0 := by
  cases a with
  | nil => exact ⟨hc, Nat.le_refl _⟩
  | cons it rest =>
    obtain ⟨h1, h2⟩ := hT rules U it s ms hr hp hh hc
    exact ⟨h1, by show Phi rules U (asyncStep it s) {} + 0 ≤ _; omega⟩

/-! ## once halted, always halted -/

theorem haltMono_asyncStep (it : SchedItem) : HaltMono (asyncStep it) := by
  intro s hs
  unfold asyncStep
  have h1 : (completeKeys it.keys false s).2.halted = true :=
    haltMono_of (f := fun s => (completeKeys it.keys false s).2) (fun hR => rs_completeKeys hR it.keys false) s hs
  simp only
  split
  · exact haltMono_doCancel _ h1
  · exact h1

theorem haltMono_asyncPoint (a : Async) : HaltMono (fun s => (asyncPoint a s).2) := by
  cases a with
  | nil => exact fun _ h => h
  | cons it rest => exact haltMono_asyncStep it

/-- the state with the last scan request popped -/
def popQ (s : State) : State := { s with ruleInfosToScan := s.ruleInfosToScan.dropLast }

theorem scanRequestsLoopA_succ (fuel : Nat) (w : Bool) (a : Async) (s : State) :
    scanRequestsLoopA (fuel + 1) w a s =
      match (asyncPoint a s).2.ruleInfosToScan.getLast? with
      | none => (w, (asyncPoint a s).1, (asyncPoint a s).2)
      | some request =>
        scanRequestsLoopA fuel true (asyncPoint a s).1 (processRuleScanRequest request (popQ (asyncPoint a s).2)) := by
  rw [scanRequestsLoopA]
  rfl

theorem haltMono_scanRequestsLoopA : ∀ (fuel : Nat) (w : Bool) (a : Async),
    HaltMono (fun s => (scanRequestsLoopA fuel w a s).2.2)
  | 0, w, a => fun s _ => by
    show (scanRequestsLoopA 0 w a s).2.2.halted = true
    rw [scanRequestsLoopA]; exact halt_halted _ _
  | fuel + 1, w, a => fun s hs => by
    show (scanRequestsLoopA (fuel + 1) w a s).2.2.halted = true
    rw [scanRequestsLoopA_succ]
    have h1 := haltMono_asyncPoint a s hs
    cases (asyncPoint a s).2.ruleInfosToScan.getLast? with
    | none => exact h1
    | some request =>
      simp only
      apply haltMono_scanRequestsLoopA fuel true (asyncPoint a s).1
      exact haltMono_all.2.2.2.2.1 request _ h1

/-- once the flag is set it stays set -/
theorem scanRequestsLoopA_true : ∀ (fuel : Nat) (a : Async) (s : State), (scanRequestsLoopA fuel true a s).1 = true
  | 0, a, s => by rw [scanRequestsLoopA]
  | fuel + 1, a, s => by
    rw [scanRequestsLoopA_succ]
    cases (asyncPoint a s).2.ruleInfosToScan.getLast? with
    | none => rfl
    | some request => exact scanRequestsLoopA_true fuel _ _

/-- the popped request's rule is scanning: `processRuleScanRequest` runs the loop -/
theorem process_eq {rules : List RuleSpec} {s : State} {ms : MSt} {request : RuleScanRequest}
    (hr : Rel rules s ms {}) (hq : s.ruleInfosToScan.getLast? = some request) :
    processRuleScanRequest request (popQ s) = scanLoop scanFuel request (popQ s) := by
  have hsc := ((hr.popScan hq).scanOk request (mem_scanReqs_hand _ request)).scanning
  unfold processRuleScanRequest
  have hsc' : ((popQ s).rule request.ruleInfo).state = .isScanning := hsc
  simp [RuleInfo.isScanning, hsc']

end AsyncScan

/-! ## (N) the empty schedule -/

theorem scanRequestsLoopA_nil : ∀ (fuel : Nat) (w : Bool) (s : State),
    scanRequestsLoopA fuel w [] s = ((scanRequestsLoop fuel w s).1, [], (scanRequestsLoop fuel w s).2)
  | 0, w, s => by rw [scanRequestsLoopA, scanRequestsLoop]
  | fuel + 1, w, s => by
    rw [AsyncScan.scanRequestsLoopA_succ, scanRequestsLoop_succ, AsyncScan.asyncPoint_nil]
    cases s.ruleInfosToScan.getLast? with
    | none => rfl
    | some request => exact scanRequestsLoopA_nil fuel true _

/-! ## (R) refinement -/

theorem scanRequestsLoopA_sim (hS : AsyncStepSim) (_hF : AsyncStepFrame) (_hA : AsyncStepAux) (_hT : AsyncStepTerm) :
    ∀ rules, RulesOk rules → ∀ (fuel : Nat) (w : Bool) (a : Async) (s : State) (ms : MSt),
      Rel rules s ms {} → ms.pend = none → s.halted = false →
      Sim rules s ms (scanRequestsLoopA fuel w a s).2.2 {}
        (fun _ => (scanRequestsLoopA fuel w a s).2.2.ruleInfosToScan = []) := by
  intro rules hok fuel
  induction fuel with
  | zero =>
    intro w a s ms _ _ _ hfin
    rw [scanRequestsLoopA] at hfin
    simp only [halt_halted] at hfin
    cases hfin
  | succ fuel ih =>
    intro w a s ms hr hp hh
    rw [AsyncScan.scanRequestsLoopA_succ]
    obtain ⟨hh1, hsim1⟩ := AsyncScan.asyncPoint_sim hS hok a hr hp hh
    obtain ⟨toks0, ms1, he0, hrun0, hr1, hp1, hreg0, htg0, _⟩ := hsim1 hh1
    generalize asyncPoint a s = p at hh1 he0 hr1 hreg0 ⊢
    obtain ⟨a1, s1⟩ := p
    simp only at hh1 he0 hr1 hreg0 ⊢
    cases hq : s1.ruleInfosToScan.getLast? with
    | none =>
      simp only
      intro _
      exact ⟨toks0, ms1, he0, hrun0, hr1, hp1, hreg0, htg0, List.getLast?_eq_none_iff.1 hq⟩
    | some request =>
      simp only
      rw [AsyncScan.process_eq hr1 hq]
      have hpop : Rel rules (AsyncScan.popQ s1) ms1 { scan := [request] } := hr1.popScan hq
      have hsim := scanLoop_sim demandRule_sim rules hok scanFuel _ ms1 request hpop hp1 hh1
      intro hfin
      have hh2 := (AsyncScan.haltMono_scanRequestsLoopA fuel true a1).of_result hfin
      obtain ⟨toks1, ms2, he1, hrun1, hr2, hp2, hreg1, htg1, _⟩ := hsim hh2
      refine Sim.prepend he0 hrun0 hreg0 htg0 ?_ hfin
      exact Sim.prepend (s := s1) he1 hrun1 hreg1 htg1 (ih true a1 _ ms2 hr2 hp2 hh2)

/-! ## (X) `Aux` -/

theorem scanRequestsLoopA_aux (hS : AsyncStepSim) (_hF : AsyncStepFrame) (hA : AsyncStepAux) (_hT : AsyncStepTerm)
    {rules : List RuleSpec} (hok : RulesOk rules) (key : Key) :
    ∀ (fuel : Nat) (w : Bool) (a : Async) (s : State) (ms : MSt),
      Rel rules s ms {} → ms.pend = none → s.halted = false → (scanRequestsLoopA fuel w a s).2.2.halted = false →
      Aux key s {} → Aux key (scanRequestsLoopA fuel w a s).2.2 {} := by
  intro fuel
  induction fuel with
  | zero =>
    intro w a s ms _ _ _ hfin
    rw [scanRequestsLoopA] at hfin
    simp only [halt_halted] at hfin
    cases hfin
  | succ fuel ih =>
    intro w a s ms hr hp hh hfin ha
    rw [AsyncScan.scanRequestsLoopA_succ] at hfin ⊢
    obtain ⟨hh1, hsim1⟩ := AsyncScan.asyncPoint_sim hS hok a hr hp hh
    obtain ⟨_, ms1, _, _, hr1, hp1, _, _, _⟩ := hsim1 hh1
    have ha1 := AsyncScan.asyncPoint_aux hA a hr hp hh ha
    generalize asyncPoint a s = p at hh1 hr1 ha1 hfin ⊢
    obtain ⟨a1, s1⟩ := p
    simp only at hh1 hr1 ha1 hfin ⊢
    cases hq : s1.ruleInfosToScan.getLast? with
    | none => exact ha1
    | some request =>
      rw [hq] at hfin
      simp only at hfin ⊢
      rw [AsyncScan.process_eq hr1 hq] at hfin ⊢
      have hpop : Rel rules (AsyncScan.popQ s1) ms1 { scan := [request] } := hr1.popScan hq
      have hh2 := (AsyncScan.haltMono_scanRequestsLoopA fuel true a1).of_result hfin
      obtain ⟨_, ms2, _, _, hr2, hp2, _, _, _⟩ :=
        scanLoop_sim demandRule_sim rules hok scanFuel _ ms1 request hpop hp1 hh1 hh2
      have hapop : Aux key (AsyncScan.popQ s1) { scan := [request] } := ⟨ha1.readyZero, ha1.rootSeen⟩
      have ha2 := scanLoop_aux demandRule_sim demandRule_aux hok key scanFuel _ ms1 request hpop hp1 hh1 hh2 hapop
      exact ih true a1 _ ms2 hr2 hp2 hh2 hfin ha2

/-! ## (T) no halt, and the potential drops when the flag goes from `false` to `true` -/

theorem AsyncScan.scanRequestsLoopA_nt (hS : AsyncStepSim) (hT : AsyncStepTerm) {rules : List RuleSpec}
    (hok : RulesOk rules) (U : List Key) : ∀ (fuel : Nat) (w : Bool) (a : Async) (s : State) (ms : MSt),
    Rel rules s ms {} → ms.pend = none → s.halted = false → ClosedU rules U s →
    Phi rules U s {} < fuel → Phi rules U s {} < scanFuel →
    (scanRequestsLoopA fuel w a s).2.2.halted = false ∧
      TermStep rules U s {} (scanRequestsLoopA fuel w a s).2.2 {}
        (if w = false ∧ (scanRequestsLoopA fuel w a s).1 = true then 1 else 0)
  | 0, _, _, _, _, _, _, _, _, hphi, _ => by omega
  | fuel + 1, w, a, s, ms, hr, hp, hh, hc, hphi, hphi2 => by
    rw [AsyncScan.scanRequestsLoopA_succ]
    obtain ⟨hh1, hsim1⟩ := AsyncScan.asyncPoint_sim hS hok a hr hp hh
    obtain ⟨_, ms1, _, _, hr1, hp1, _, _, _⟩ := hsim1 hh1
    obtain ⟨hc1, hd1⟩ := AsyncScan.asyncPoint_term hT a hr hp hh hc
    generalize asyncPoint a s = p at hh1 hr1 hc1 hd1 ⊢
    obtain ⟨a1, s1⟩ := p
    simp only at hh1 hr1 hc1 hd1 ⊢
    cases hq : s1.ruleInfosToScan.getLast? with
    | none =>
      simp only
      refine ⟨hh1, hc1, ?_⟩
      have : ¬ (w = false ∧ w = true) := by cases w <;> simp
      rw [if_neg this]
      exact hd1
    | some request =>
      simp only
      simp only [AsyncScan.process_eq hr1 hq]
      have hpop : Rel rules (AsyncScan.popQ s1) ms1 { scan := [request] } := hr1.popScan hq
      have hphi0 : Phi rules U (AsyncScan.popQ s1) { scan := [request] } = Phi rules U s1 {} :=
        TermScan.Phi_popScan (rules := rules) (U := U) hq
      have hc0 : ClosedU rules U (AsyncScan.popQ s1) := TermScan.closed_popScan s1.ruleInfosToScan.dropLast hc1
      obtain ⟨hh2, hc2, hd2⟩ := TermScan.scanLoop_nt demandRule_nohalt_U demandRule_term hok U scanFuel _ ms1 request
        hpop hp1 hh1 hc0 (by omega)
      obtain ⟨_, ms2, _, _, hr2, hp2, _, _, _⟩ :=
        scanLoop_sim demandRule_sim rules hok scanFuel _ ms1 request hpop hp1 hh1 hh2
      obtain ⟨h1, h2, h3⟩ := AsyncScan.scanRequestsLoopA_nt hS hT hok U fuel true a1 _ ms2 hr2 hp2 hh2 hc2
        (by omega) (by omega)
      refine ⟨h1, h2, ?_⟩
      have hz : ¬ (true = false ∧ (scanRequestsLoopA fuel true a1 (scanLoop scanFuel request (AsyncScan.popQ s1))).1 = true) := by
        simp
      rw [if_neg hz] at h3
      split <;> omega

theorem scanRequestsLoopA_nohalt (hS : AsyncStepSim) (_hF : AsyncStepFrame) (_hA : AsyncStepAux) (hT : AsyncStepTerm)
    {rules : List RuleSpec} (hok : RulesOk rules) {U : List Key} {fuel : Nat} {w : Bool} {a : Async} {s : State} {ms : MSt}
    (hr : Rel rules s ms {}) (hp : ms.pend = none) (hh : s.halted = false) (hc : ClosedU rules U s)
    (hphi : Phi rules U s {} < fuel) (hphi2 : Phi rules U s {} < scanFuel) :
    (scanRequestsLoopA fuel w a s).2.2.halted = false :=
  (AsyncScan.scanRequestsLoopA_nt hS hT hok U fuel w a s ms hr hp hh hc hphi hphi2).1

theorem scanRequestsLoopA_term (hS : AsyncStepSim) (_hF : AsyncStepFrame) (_hA : AsyncStepAux) (hT : AsyncStepTerm)
    {rules : List RuleSpec} (hok : RulesOk rules) {U : List Key} {fuel : Nat} {w : Bool} {a : Async} {s : State} {ms : MSt}
    (hr : Rel rules s ms {}) (hp : ms.pend = none) (hh : s.halted = false) (hc : ClosedU rules U s)
    (hphi : Phi rules U s {} < fuel) (hphi2 : Phi rules U s {} < scanFuel) :
    TermStep rules U s {} (scanRequestsLoopA fuel w a s).2.2 {}
      (if w = false ∧ (scanRequestsLoopA fuel w a s).1 = true then 1 else 0) :=
  (AsyncScan.scanRequestsLoopA_nt hS hT hok U fuel w a s ms hr hp hh hc hphi hphi2).2

end LLBuild.Refine
