/-
IM7-E — the `F` op: ONE BUILD FROM A STATE WITH THE FAILURE FLAG SET (notes/REFINE.md §11).

`B := runBuildA key cancelAt sched a (withFail true s)` for an idle, unflagged `s` related to the monitor state `m`:
* `runBuildF_sim`: the tokens of `B` have one of the two shapes of `FailRun` (FailLoop.lean) — no write attempted, or the
  first write failed — and `B` with the flag cleared is idle and related to the monitor state reached; `runBuildF_trunF`:
  the trace is accepted by `trunF`; **`runBuildF_refines`**: in the monitor's own vocabulary (`evOfToksF`, `run`), with
  `Committed` carried along;
* **`build_terminates_fail`** / `build_noBad_fail`: under the size condition of `build_terminates_async` the build does not
  halt (no `FUEL` / `BAD _`);
* `runBuildF_false`: the complement (flag clear: the existing theorems);
* an example by `decide`: `opFail`, a build whose first write fails (`… DS 1 row ; ER 6 …`), a second build on the same
  engine that succeeds; the monitor accepts both in sequence.
Proofs: the prologue and the epilogue commute with `withFail` (FailComm.lean), so `Bracket.lean` / `Main.lean` apply to the
unflagged states; the work loop is `workLoopF_shape` / `executeLoopF_nohalt` (FailLoop.lean).
Core Lean only.
-/
import LLBuild.Lemmas.Refine.FailLoop

namespace LLBuild.Refine
open LLBuild.Engine LLBuild.Engine.DSL LLBuild.EngineImpl

/-! ## 0. small facts -/

theorem noS2_emit (t : Tok) (ht : Tok.isS2b t = false) (s : State) : NoS2 s (emit t s) :=
  noS2_of (fun hR h => hR.emit t s ht h)

/-- a state is its flag put on the state with the flag cleared -/
theorem withFail_split (s : State) : withFail s.store.failNextSet (withFail false s) = s := by
  rw [withFail_withFail]; exact withFail_self s

theorem withFail_split' {s : State} {b : Bool} (h : s.store.failNextSet = b) : withFail b (withFail false s) = s := by
  subst h; exact withFail_split s

theorem finishDB_of_hasDB (s : State) (h : s.hasDB = true) : finishDB s = emit .DE s := by
  unfold finishDB; rw [if_pos h]

theorem closeOf_finishDB (v : Val) (s : State) (h : s.hasDB = true) : closeOf (v, finishDB s) = closeBuild v s := by
  rw [finishDB_of_hasDB s h]; rfl

/-- the closing tokens `DE [; X] ; R v ; Z n 0` leave the monitor committed -/
theorem closeBuild_committed {P : Program} {v : Val} {sp : State} (hh : sp.halted = false) {toks : List Tok}
    {ms ms' : MSt} (he : Emits sp toks (closeBuild v sp)) (h : trun P ms toks = some ms') : Committed ms'.m := by
  have hshape : ∃ n x, toks = [.DE] ++ x ++ [.R v, .Z n 0] ∧ (x = [] ∨ x = [.X]) := by
    have hh1 : (emit .DE sp).halted = false := by rw [emit_halted_eq]; exact hh
    have htr := close_trace v (emit .DE sp) hh1
    rcases emit_spec .DE sp hh with e | ⟨_, e⟩
    · refine ⟨(emit .DE sp).taskInfos.length, [], ?_, Or.inl rfl⟩
      have he' : Emits sp ([.DE] ++ [] ++ [.R v, .Z (emit .DE sp).taskInfos.length 0]) (closeBuild v sp) := by
        unfold Emits closeBuild
        rw [htr, e]; simp
      exact emits_inj he he'
    · refine ⟨(emit .DE sp).taskInfos.length, [.X], ?_, Or.inr rfl⟩
      have he' : Emits sp ([.DE] ++ [.X] ++ [.R v, .Z (emit .DE sp).taskInfos.length 0]) (closeBuild v sp) := by
        unfold Emits closeBuild
        rw [htr, e]; simp
      exact emits_inj he he'
  obtain ⟨n, x, htoks, hx⟩ := hshape
  rw [htoks] at h
  obtain ⟨ms3, h3, h4⟩ := trun_prefix h
  obtain ⟨ms2, h2, h3'⟩ := trun_prefix h3
  have hc2 : Committed ms2.m := by
    simp only [trun] at h2
    cases hts : Refine.tstep P ms .DE with
    | none => rw [hts] at h2; simp at h2
    | some ms2' =>
      rw [hts] at h2; simp only [Option.bind_some, Option.some.injEq] at h2; subst h2
      exact tstep_DE hts
  have hc3 : Committed ms3.m := by
    refine Committed.trun_close x ms2 ms3 h3' ?_ hc2
    intro t ht
    rcases hx with e | e <;> rw [e] at ht <;> simp at ht
    exact Or.inl ht
  refine Committed.trun_close _ ms3 ms' h4 ?_ hc3
  intro t ht
  simp only [List.mem_cons, List.not_mem_nil, or_false] at ht
  rcases ht with e | e
  · exact Or.inr (Or.inl ⟨v, e⟩)
  · exact Or.inr (Or.inr ⟨n, 0, e⟩)

/-! ## 1. one build with the flag set: refinement -/

/-- the loop-entry facts (as in `executeTasksA_sim`, Final3.lean), for the unflagged state -/
theorem executeTasksInit_entry {rules : List RuleSpec} {key : Key} {s : State} {m : Engine.St}
    (hr : RelPre rules key true s m) (hfin : s.finishedInputRequests = []) (hh : s.halted = false) :
    ∃ toks1 m1, Emits s toks1 (executeTasksInit key s) ∧ S2Free toks1 ∧
      trun (program rules) ⟨m, none⟩ toks1 = some ⟨m1, none⟩ ∧
      Inv rules key (executeTasksInit key s) ⟨m1, none⟩ ∧ NoMid (executeTasksInit key s) ∧
      Aux key (executeTasksInit key s) {} ∧ (executeTasksInit key s).halted = false ∧
      RelPre rules key true (getRuleInfoForKey key s) m1 := by
  have hs0 : ({ s with finishedInputRequests := [] } : State) = s := by
    cases s; simp at hfin; simp [hfin]
  unfold executeTasksInit
  simp only [hs0]
  obtain ⟨toks1, m1, he1, hrun1, hr1, hreg1, hh1⟩ := hr.getRule hh key
  have hrel := Rel.entry hr1
  have hrel2 := hrel.pushDummy { taskInfo := none, inputID := 0, inputRuleInfo := key } rfl hreg1 rfl
    (Or.inr (Or.inl hr1.target))
  have hnm : NoMid (pushInput { taskInfo := none, inputID := 0, inputRuleInfo := key } (getRuleInfoForKey key s)) := by
    intro k ri hl
    rcases hr1.states k ri hl with e | e <;> rw [e] <;> exact ⟨by decide, by decide⟩
  have haux : Aux key (pushInput { taskInfo := none, inputID := 0, inputRuleInfo := key } (getRuleInfoForKey key s)) {} :=
    { readyZero := fun a t hl => (by
        have : (getRuleInfoForKey key s).taskInfos.lookup a = some t := hl
        rw [hr1.noTasks] at this; cases this),
      rootSeen := Or.inr ⟨{ taskInfo := none, inputID := 0, inputRuleInfo := key }, by simp [pushInput], rfl⟩ }
  exact ⟨toks1, m1, he1, (noS2_getRuleInfoForKey key s).s2free he1, hrun1,
    ⟨hrel2, rfl, hr1.target, hreg1, fun p hp => (by rw [hr1.noPending] at hp; cases hp),
      fun a q hd => (by rw [hr1.noSeq a] at hd; simp [delivered] at hd)⟩, hnm, haux, hh1, hr1⟩

/-- `executeTasksA` with the flag set, from the prologue relation -/
theorem executeTasksF_sim {rules : List RuleSpec} (hok : RulesOk rules) {key : Key} (a : Async) {s : State}
    {m : Engine.St} (hr : RelPre rules key true s m) (hfin : s.finishedInputRequests = []) (hh : s.halted = false)
    (hnh : (executeLoopA key loopFuel a (withFail true (executeTasksInit key s))).2.2.halted = false) :
    LoopPostF rules key s ⟨m, none⟩ (pr (executeLoopA key loopFuel a (withFail true (executeTasksInit key s)))) := by
  obtain ⟨toks1, m1, he1, hs1, hrun1, hi, hnm, haux, hh1, -⟩ := executeTasksInit_entry hr hfin hh
  exact LoopPostF.prepend he1 hs1 hrun1 (workLoopF_shape hok key loopFuel a _ _ hi hnm haux hh1 hnh)

theorem buildWorkInit_eq_of_noFinQ (s : State) (h : s.finishedInputRequests = []) :
    buildWorkInit s = { emit .QC s with currentEpoch := (emit .QC s).currentEpoch + 1, finishedInputRequests := [] } := by
  unfold buildWorkInit
  have : (emit .QC s).finishedInputRequests = [] := by simp [h]
  rw [← this]

/-- `buildPreA` with the flag set, from the relation after `B key` -/
theorem buildPreF_sim {rules : List RuleSpec} (hok : RulesOk rules) {key : Key} (a : Async) {s : State}
    {m : Engine.St} (hr : RelPre rules key false s m) (hh : s.halted = false)
    (hnh : (buildPreA key a (withFail true s)).2.halted = false) :
    ∃ toks m' b failed, Emits s toks (buildPreA key a (withFail true s)).2 ∧
      FailRun (program rules) ⟨m, none⟩ toks m' failed ∧
      PostOk rules key ((buildPreA key a (withFail true s)).1, withFail false (buildPreA key a (withFail true s)).2) m' b ∧
      (buildPreA key a (withFail true s)).2.store.failNextSet = !failed := by
  have eS : buildStart s = emit .DB s := by unfold buildStart; rw [if_pos hr.hasDB]
  rw [buildPreA_eq, buildStart_withFail, buildWorkInit_withFail, executeTasksInit_withFail, eS] at hnh ⊢
  obtain ⟨toks1, m1, he1, hrun1, hr1, hh1⟩ := prologue_DB hr hh
  have hs1 : S2Free toks1 := (noS2_emit .DB rfl s).s2free he1
  generalize emit .DB s = sD at hnh he1 hr1 hh1 ⊢
  by_cases hc : sD.buildCancelled = true
  · simp only [withFail_buildCancelled, hc, if_true] at hnh ⊢
    refine ⟨toks1, m1, false, false, he1, ⟨hs1, hrun1⟩, ?_, rfl⟩
    show PostOk rules key (0, withFail false (withFail true sD)) m1 false
    have e : withFail false (withFail true sD) = sD := by
      rw [withFail_withFail]; exact withFail_of_flag hr1.noFail
    rw [e]
    exact { post := hr1.toPost hc, iter := Or.inl hr1.startedEq, iterEq := hr1.iterEq rfl,
            valOk := fun h => (by cases h), valFail := fun _ => rfl }
  · simp only [withFail_buildCancelled, hc, Bool.false_eq_true, if_false] at hnh ⊢
    obtain ⟨m2, hstep2, hr2⟩ := prologue_QC hr1 hh1
    have hsQ := buildWorkInit_eq_of_noFinQ sD hr1.noFinQ
    rw [← hsQ] at hr2
    have heQ : Emits sD [.QC] (buildWorkInit sD) := by
      unfold buildWorkInit
      rw [emit_QC _ hh1]; simp [Emits]
    have hhQ : (buildWorkInit sD).halted = false := by
      show (emit .QC sD).halted = false
      simp [hh1]
    have hfQ : (buildWorkInit sD).finishedInputRequests = [] := by rw [hsQ]
    have hrunQ : trun (program rules) ⟨m1, none⟩ [.QC] = some ⟨m2, none⟩ :=
      trun_single (tstep_ev (by rfl) (by rfl) hstep2)
    generalize buildWorkInit sD = sQ at hnh hr2 heQ hhQ hfQ ⊢
    have hnhR : (executeLoopA key loopFuel a (withFail true (executeTasksInit key sQ))).2.2.halted = false := by
      rw [buildTail_halted] at hnh; exact hnh
    obtain ⟨toks3, m3, failed, he3, hf3, hpost, hst3, hfl, -⟩ := executeTasksF_sim hok a hr2 hfQ hhQ hnhR
    generalize executeLoopA key loopFuel a (withFail true (executeTasksInit key sQ)) = R at hnh hnhR he3 hpost hfl ⊢
    obtain ⟨ok, aR, sR⟩ := R
    simp only [pr] at hnh hnhR he3 hpost hfl ⊢
    have eX : withFail (!failed) (withFail false sR) = sR := withFail_split' hfl
    have hhX : (withFail false sR).halted = false := hnhR
    obtain ⟨toks4, m4, he4, hrun4, b, hp⟩ := buildTail_sim (key := key) (r := (ok, withFail false sR)) hpost hst3 hhX
    have eT : buildTail key (ok, sR) =
        ((buildTail key (ok, withFail false sR)).1, withFail (!failed) (buildTail key (ok, withFail false sR)).2) := by
      rw [← buildTail_withFail, eX]
    rw [eT]
    have he4' : Emits sR toks4 (buildTail key (ok, withFail false sR)).2 := he4
    have hs4 : S2Free toks4 := (noS2_buildTail key (ok, withFail false sR)).s2free he4
    refine ⟨toks1 ++ ([.QC] ++ toks3) ++ toks4, m4, b, failed, (he1.trans (heQ.trans he3)).trans he4', ?_, ?_, rfl⟩
    · refine FailRun.append (FailRun.prepend hs1 hrun1 (FailRun.prepend ?_ hrunQ hf3)) hs4 hrun4
      intro t ht
      simp only [List.mem_singleton] at ht
      subst ht; rfl
    · show PostOk rules key ((buildTail key (ok, withFail false sR)).1,
        withFail false (withFail (!failed) (buildTail key (ok, withFail false sR)).2)) m4 b
      have e : withFail false (withFail (!failed) (buildTail key (ok, withFail false sR)).2) =
          (buildTail key (ok, withFail false sR)).2 := by
        rw [withFail_withFail]; exact withFail_of_flag hp.post.base.noFail
      rw [e]
      exact hp

theorem runBuildF_pre_halted (key cancelAt : Nat) (sched : List SchedItem) (a : Async) (s : State) :
    (runBuildA key cancelAt sched a (withFail true s)).halted =
      (buildPreA key a (withFail true (emit (.B key) (buildInit cancelAt sched s)))).2.halted := by
  rw [runBuildA_pre_halted, runPrologue_withFail]

/-- **E3, one build with the flag set**: the tokens have one of the two shapes of `FailRun` (hence are accepted by
`trunF`), the build with the flag cleared ends idle and related, the monitor ends committed; the flag afterwards is
still set iff no write was attempted -/
theorem runBuildF_sim {rules : List RuleSpec} (hok : RulesOk rules) {s : State} {m : Engine.St}
    (hr : RelIdle rules s m) (key cancelAt : Nat) (sched : List SchedItem) (a : Async)
    (hnh : (runBuildA key cancelAt sched a (withFail true s)).halted = false) :
    ∃ m' failed,
      FailRun (program rules) ⟨m, none⟩ (runBuildA key cancelAt sched a (withFail true s)).trace.reverse m' failed ∧
      RelIdle rules (withFail false (runBuildA key cancelAt sched a (withFail true s))) m' ∧ Committed m' ∧
      (runBuildA key cancelAt sched a (withFail true s)).store.failNextSet = !failed := by
  obtain ⟨toks1, m1, he1, hrun1, hr1, hh1⟩ := prologue_B hr key cancelAt sched
  have hs1 : S2Free toks1 := (noS2_emit (.B key) rfl _).s2free he1
  have hnhP : (buildPreA key a (withFail true (emit (.B key) (buildInit cancelAt sched s)))).2.halted = false := by
    rw [← runBuildF_pre_halted]; exact hnh
  obtain ⟨toks2, m2, b, failed, he2, hf2, hp, hfl⟩ := buildPreF_sim hok a hr1 hh1 hnhP
  have eB : runBuildA key cancelAt sched a (withFail true s) =
      closeOf ((buildPreA key a (withFail true (emit (.B key) (buildInit cancelAt sched s)))).1,
        finishDB (buildPreA key a (withFail true (emit (.B key) (buildInit cancelAt sched s)))).2) := by
    unfold runBuildA
    rw [runPrologue_withFail]
  rw [eB]
  generalize buildPreA key a (withFail true (emit (.B key) (buildInit cancelAt sched s))) = p at hnhP he2 hp hfl ⊢
  obtain ⟨v, sp⟩ := p
  simp only [] at hnhP he2 hp hfl ⊢
  have eX : withFail (!failed) (withFail false sp) = sp := withFail_split' hfl
  have hdb : (withFail false sp).hasDB = true := hp.post.base.hasDB
  have hhX : (withFail false sp).halted = false := hnhP
  have eC : closeOf (v, finishDB sp) = withFail (!failed) (closeBuild v (withFail false sp)) := by
    rw [← closeOf_finishDB v _ hdb, ← closeOf_withFail, ← finishDB_withFail, eX]
  obtain ⟨toks3, m3, he3, hrun3, hidle⟩ := epilogue_close hp.post hhX hp.iter hp.iterEq hp.valOk hp.valFail
  have he3' : Emits (withFail false sp) toks3 (closeBuild v (withFail false sp)) := he3
  have hidle' : RelIdle rules (closeBuild v (withFail false sp)) m3 := hidle
  have hs3 : S2Free toks3 := by
    have hN : NoS2 (withFail false sp) (closeBuild v (withFail false sp)) := by
      rw [← closeOf_finishDB v _ hdb]
      exact (noS2_finishDB _).trans (noS2_closeOf (v, finishDB (withFail false sp)))
    exact hN.s2free he3'
  have hc3 : Committed m3 := closeBuild_committed (ms' := ⟨m3, none⟩) hhX he3' hrun3
  rw [eC]
  refine ⟨m3, failed, ?_, ?_, hc3, rfl⟩
  · have he3'' : Emits sp toks3 (closeBuild v (withFail false sp)) := he3'
    have hem := (he1.trans he2).trans he3''
    have htr : (withFail (!failed) (closeBuild v (withFail false sp))).trace.reverse = toks1 ++ toks2 ++ toks3 := by
      show (closeBuild v (withFail false sp)).trace.reverse = _
      unfold Emits at hem
      rw [hem]
      simp only [buildInit, List.append_nil, List.reverse_reverse]
    rw [htr]
    exact FailRun.append (FailRun.prepend hs1 hrun1 hf2) hs3 hrun3
  · have e : withFail false (withFail (!failed) (closeBuild v (withFail false sp))) = closeBuild v (withFail false sp) := by
      rw [withFail_withFail]; exact withFail_of_flag hidle'.noFail
    rw [e]
    exact hidle'

/-- … the trace is accepted by the token monitor with the failed-write clause -/
theorem runBuildF_trunF {rules : List RuleSpec} (hok : RulesOk rules) {s : State} {m : Engine.St}
    (hr : RelIdle rules s m) (key cancelAt : Nat) (sched : List SchedItem) (a : Async)
    (hnh : (runBuildA key cancelAt sched a (withFail true s)).halted = false) :
    ∃ m', trunF (program rules) ⟨m, none⟩ (runBuildA key cancelAt sched a (withFail true s)).trace.reverse =
        some ⟨m', none⟩ ∧
      RelIdle rules (withFail false (runBuildA key cancelAt sched a (withFail true s))) m' ∧ Committed m' := by
  obtain ⟨m', failed, hf, hidle, hc, -⟩ := runBuildF_sim hok hr key cancelAt sched a hnh
  exact ⟨m', hf.trunF, hidle, hc⟩

/-- **E3 (a): refinement for one build started with the failure flag set**, in the monitor's own vocabulary: the events
are `evOfToksF` of the trace — a `DS k row` followed by `[X ;] ER 6` is a write that did not happen, no `finished`
event —; afterwards the engine (flag cleared: it was consumed by the failed write, or is still pending) is idle and
related to the monitor, which is committed.  (`hc : Committed m` is not needed: a completed build ends with `DE`.) -/
theorem runBuildF_refines {rules : List RuleSpec} (hok : RulesOk rules) {s : State} {m : Engine.St}
    (hr : RelIdle rules s m) (_hc : Committed m) (key cancelAt : Nat) (sched : List SchedItem) (a : Async)
    (hnh : (runBuildA key cancelAt sched a (withFail true s)).halted = false) :
    ∃ evs m', evOfToksF none (runBuildA key cancelAt sched a (withFail true s)).trace.reverse = some evs ∧
      run (program rules) m evs = some m' ∧
      RelIdle rules (withFail false (runBuildA key cancelAt sched a (withFail true s))) m' ∧ Committed m' := by
  obtain ⟨m', h1, h2, h3⟩ := runBuildF_trunF hok hr key cancelAt sched a hnh
  obtain ⟨evs, h4, h5⟩ := trunF_evOfToksF _ _ _ h1
  exact ⟨evs, m', h4, h5, h2, h3⟩

/-- the flag after the build: consumed iff a write was attempted (and failed); then the build returned failure -/
theorem runBuildF_flag {rules : List RuleSpec} (hok : RulesOk rules) {s : State} {m : Engine.St}
    (hr : RelIdle rules s m) (key cancelAt : Nat) (sched : List SchedItem) (a : Async)
    (hnh : (runBuildA key cancelAt sched a (withFail true s)).halted = false) :
    ∃ m' failed,
      FailRun (program rules) ⟨m, none⟩ (runBuildA key cancelAt sched a (withFail true s)).trace.reverse m' failed ∧
      (runBuildA key cancelAt sched a (withFail true s)).store.failNextSet = !failed := by
  obtain ⟨m', failed, hf, -, -, hfl⟩ := runBuildF_sim hok hr key cancelAt sched a hnh
  exact ⟨m', failed, hf, hfl⟩

/-- for a build whose first write failed: the trace cut right after the `DS k row` of the failing write, or after
`DS k row ; [X]` (where the look-ahead of `evOfToksF` sees no `ER 6` and reads a completed write), is accepted by the PLAIN
token monitor from `⟨m, none⟩` — the fact the killed-build theorem needs for flagged builds -/
theorem runBuildF_cuts {rules : List RuleSpec} (hok : RulesOk rules) {s : State} {m : Engine.St}
    (hr : RelIdle rules s m) (key cancelAt : Nat) (sched : List SchedItem) (a : Async)
    (hnh : (runBuildA key cancelAt sched a (withFail true s)).halted = false)
    (hfl : (runBuildA key cancelAt sched a (withFail true s)).store.failNextSet = false) :
    ∃ (pre : List Tok) (k : Key) (row : Res) (regs xs post : List Tok),
      (runBuildA key cancelAt sched a (withFail true s)).trace.reverse =
        pre ++ .S k 2 :: (regs ++ .DS k row :: (xs ++ .ER 6 :: post)) ∧ S2Free pre ∧
      (∀ t ∈ regs, Tok.isReg t = true) ∧ (xs = [] ∨ xs = [.X]) ∧ S2Free post ∧
      (∃ ms2, trun (program rules) ⟨m, none⟩ (pre ++ .S k 2 :: (regs ++ [.DS k row])) = some ms2) ∧
      (∃ ms3, trun (program rules) ⟨m, none⟩ (pre ++ .S k 2 :: (regs ++ .DS k row :: xs)) = some ms3) := by
  obtain ⟨m', failed, hf, -, -, hfl'⟩ := runBuildF_sim hok hr key cancelAt sched a hnh
  rw [hfl] at hfl'
  cases failed with
  | false => cases hfl'
  | true => exact hf.cuts

/-- `build()` of a flagged build that did not halt ran with a database -/
theorem runBuildF_hasDB {rules : List RuleSpec} (hok : RulesOk rules) {s : State} {m : Engine.St}
    (hr : RelIdle rules s m) (key cancelAt : Nat) (sched : List SchedItem) (a : Async)
    (hnh : (runBuildA key cancelAt sched a (withFail true s)).halted = false) :
    (buildPreA key a (emit (.B key) (buildInit cancelAt sched (withFail true s)))).2.hasDB = true := by
  obtain ⟨toks1, m1, he1, hrun1, hr1, hh1⟩ := prologue_B hr key cancelAt sched
  have hnhP : (buildPreA key a (withFail true (emit (.B key) (buildInit cancelAt sched s)))).2.halted = false := by
    rw [← runBuildF_pre_halted]; exact hnh
  obtain ⟨toks2, m2, b, failed, he2, hf2, hp, hfl⟩ := buildPreF_sim hok a hr1 hh1 hnhP
  rw [runPrologue_withFail]
  exact hp.post.base.hasDB

/-- **the shape of the trace of a flagged build that did not halt** (as `runBuildA_trace_shape`, Final4.lean):
`B key :: rest` without `DE`/`R`/`Z`, then `DE [; X] ; R v ; Z n 0` -/
theorem runBuildF_trace_shape {rules : List RuleSpec} (hok : RulesOk rules) {s : State} {m : Engine.St}
    (hr : RelIdle rules s m) (key cancelAt : Nat) (sched : List SchedItem) (a : Async)
    (hnh : (runBuildA key cancelAt sched a (withFail true s)).halted = false) :
    ∃ rest v n x, (runBuildA key cancelAt sched a (withFail true s)).trace.reverse =
        (.B key :: rest) ++ .DE :: (x ++ [.R v, .Z n 0]) ∧
      (x = [] ∨ x = [.X]) ∧ ∀ t ∈ Tok.B key :: rest, Tok.isClose t = false := by
  have hdb := runBuildF_hasDB hok hr key cancelAt sched a hnh
  obtain ⟨v, n, x, htr, hx⟩ := runBuildA_trace_end key cancelAt sched a (withFail true s) hnh hdb
  obtain ⟨⟨rest, hB⟩, hnc⟩ := buildPreA_trace key cancelAt sched a (withFail true s)
  refine ⟨rest, v, n, x, ?_, hx, ?_⟩
  · rw [htr, hB]; simp
  · intro t ht
    rw [← hB] at ht
    exact hnc t (List.mem_reverse.1 ht)

/-! ## 2. one build with the flag set: termination -/

theorem executeTasksF_nohalt {rules : List RuleSpec} (hok : RulesOk rules) {key : Key} (a : Async) {s : State}
    {m : Engine.St} (hr : RelPre rules key true s m) (hd : DiscM (program rules) m)
    (hfin : s.finishedInputRequests = []) (hh : s.halted = false) (hsize : workBound rules s key + 2 < scanFuel) :
    (executeLoopA key loopFuel a (withFail true (executeTasksInit key s))).2.2.halted = false := by
  obtain ⟨toks1, m1, -, -, hrun1, hi, hnm, haux, hh1, -⟩ := executeTasksInit_entry hr hfin hh
  have hs0 : ({ s with finishedInputRequests := [] } : State) = s := by
    cases s; simp at hfin; simp [hfin]
  obtain ⟨hU, hPhi⟩ := entry_term (rules := rules) key hr.toQuiet hr.rulesNodup hr.hasDB
    { taskInfo := none, inputID := 0, inputRuleInfo := key } rfl
  have hU' : ClosedU rules (keyUniverse rules s key) (executeTasksInit key s) := by
    unfold executeTasksInit; rw [hs0]; exact hU
  have hPhi' : Phi rules (keyUniverse rules s key) (executeTasksInit key s) {} ≤ workBound rules s key := by
    unfold executeTasksInit; rw [hs0]; exact hPhi
  have hlen := keyUniverse_length_le_workBound rules s key
  have hsf := scanFuel_eq
  have hlf := loopFuel_eq
  exact executeLoopF_nohalt hok (U := keyUniverse rules s key) (by omega) loopFuel a (executeTasksInit key s) ⟨m1, none⟩
    hi hnm haux (trun_discM hrun1 hd) hU' hh1 (by omega) (by omega) (by omega)

theorem buildPreF_nohalt {rules : List RuleSpec} (hok : RulesOk rules) {key : Key} (a : Async) {s : State}
    {m : Engine.St} (hr : RelPre rules key false s m) (hd : DiscM (program rules) m) (hh : s.halted = false)
    (hsize : workBound rules s key + 2 < scanFuel) : (buildPreA key a (withFail true s)).2.halted = false := by
  have eS : buildStart s = emit .DB s := by unfold buildStart; rw [if_pos hr.hasDB]
  rw [buildPreA_eq, buildStart_withFail, buildWorkInit_withFail, executeTasksInit_withFail, eS]
  obtain ⟨toks1, m1, he1, hrun1, hr1, hh1⟩ := prologue_DB hr hh
  have hd1 : DiscM (program rules) m1 := trun_discM hrun1 hd
  have hri : (emit .DB s).ruleInfos = s.ruleInfos := (emit_same .DB s).ruleInfos
  have hsto : (emit .DB s).store = s.store := (emit_same .DB s).store
  generalize emit .DB s = sD at hr1 hh1 hri hsto ⊢
  by_cases hc : sD.buildCancelled = true
  · simp only [withFail_buildCancelled, hc, if_true]; exact hh1
  · simp only [withFail_buildCancelled, hc, Bool.false_eq_true, if_false]
    rw [buildTail_halted]
    obtain ⟨m2, hstep2, hr2⟩ := prologue_QC hr1 hh1
    have hd2 : DiscM (program rules) m2 := step_discM _ _ _ _ hstep2 hd1
    have hsQ := buildWorkInit_eq_of_noFinQ sD hr1.noFinQ
    rw [← hsQ] at hr2
    have hri2 : (buildWorkInit sD).ruleInfos = s.ruleInfos := ((emit_same .QC sD).ruleInfos).trans hri
    have hsto2 : (buildWorkInit sD).store = s.store := ((emit_same .QC sD).store).trans hsto
    have hhQ : (buildWorkInit sD).halted = false := by
      show (emit .QC sD).halted = false
      rw [emit_halted_eq]; exact hh1
    have hfQ : (buildWorkInit sD).finishedInputRequests = [] := by rw [hsQ]
    refine executeTasksF_nohalt hok a hr2 hd2 hfQ hhQ ?_
    rw [workBound_congr rules (s := s) (s' := buildWorkInit sD) key hri2 hsto2]
    exact hsize

/-- **E3 (b): a build started with the failure flag set terminates without `FUEL` / `BAD _`**, for every hook schedule,
`cancelAtEvent` and asynchronous schedule, under the size condition of `build_terminates_async` (for the unflagged `s`) -/
theorem build_terminates_fail {rules : List RuleSpec} (hok : RulesOk rules) {s : State} {m : Engine.St}
    (hr : RelIdle rules s m) (key cancelAt : Nat) (sched : List SchedItem) (a : Async)
    (hsize : workBound rules s key + 2 < scanFuel) : (runBuildA key cancelAt sched a (withFail true s)).halted = false := by
  obtain ⟨toks1, m1, he1, hrun1, hr1, hh1⟩ := prologue_B hr key cancelAt sched
  have hd1 : DiscM (program rules) m1 := by
    have htoks : toks1 = (emit (.B key) (buildInit cancelAt sched s)).trace.reverse := by
      unfold Emits at he1
      rw [he1]; simp [buildInit]
    have hB : ∃ rest, toks1 = .B key :: rest := by
      rcases emit_spec (.B key) (buildInit cancelAt sched s) rfl with e | ⟨_, e⟩
      · exact ⟨[], by rw [htoks, e]; simp [buildInit]⟩
      · exact ⟨[.X], by rw [htoks, e]; simp [buildInit]⟩
    obtain ⟨rest, hrest⟩ := hB
    rw [hrest] at hrun1
    exact trun_B_discM hrun1
  rw [runBuildF_pre_halted]
  refine buildPreF_nohalt hok a hr1 hd1 hh1 ?_
  rw [workBound_congr rules (s := s) (s' := emit (.B key) (buildInit cancelAt sched s)) key
    (emit_same (.B key) _).ruleInfos (emit_same (.B key) _).store]
  exact hsize

/-- … so its printed trace contains no `FUEL` / `BAD _` token -/
theorem build_noBad_fail {rules : List RuleSpec} (hok : RulesOk rules) {s : State} {m : Engine.St}
    (hr : RelIdle rules s m) (key cancelAt : Nat) (sched : List SchedItem) (a : Async)
    (hsize : workBound rules s key + 2 < scanFuel) : NoBad (runBuildA key cancelAt sched a (withFail true s)).trace :=
  (halted_iff_bad_async key cancelAt sched a (withFail true s)).1 (build_terminates_fail hok hr key cancelAt sched a hsize)

/-- **E3 (a)+(b): a sized build started with the flag set refines the monitor** -/
theorem runBuildF_refines_sized {rules : List RuleSpec} (hok : RulesOk rules) {s : State} {m : Engine.St}
    (hr : RelIdle rules s m) (hc : Committed m) (key cancelAt : Nat) (sched : List SchedItem) (a : Async)
    (hsize : workBound rules s key + 2 < scanFuel) :
    ∃ evs m', evOfToksF none (runBuildA key cancelAt sched a (withFail true s)).trace.reverse = some evs ∧
      run (program rules) m evs = some m' ∧
      RelIdle rules (withFail false (runBuildA key cancelAt sched a (withFail true s))) m' ∧ Committed m' :=
  runBuildF_refines hok hr hc key cancelAt sched a (build_terminates_fail hok hr key cancelAt sched a hsize)

/-! ## 3. the complement: the flag clear -/

/-- (c) for `b = false` the flagged state IS the state (`RelIdle` says the flag is clear), so `runBuildA_refines`,
`build_terminates_async`, `runBuildA_committed` apply as they are -/
theorem runBuildF_false {rules : List RuleSpec} {s : State} {m : Engine.St} (hr : RelIdle rules s m)
    (key cancelAt : Nat) (sched : List SchedItem) (a : Async) :
    runBuildA key cancelAt sched a (withFail false s) = runBuildA key cancelAt sched a s := by
  rw [withFail_of_flag hr.noFail]

/-- both flag values at once, at the level of the token monitor `trunF`: a sized build from `withFail b s` is accepted,
and with the flag cleared ends idle, related and committed -/
theorem runBuildFb_trunF {rules : List RuleSpec} (hok : RulesOk rules) {s : State} {m : Engine.St}
    (hr : RelIdle rules s m) (b : Bool) (key cancelAt : Nat) (sched : List SchedItem) (a : Async)
    (hsize : workBound rules s key + 2 < scanFuel) :
    (runBuildA key cancelAt sched a (withFail b s)).halted = false ∧
    ∃ m', (b = true → trunF (program rules) ⟨m, none⟩ (runBuildA key cancelAt sched a (withFail b s)).trace.reverse =
        some ⟨m', none⟩) ∧
      (b = false → trun (program rules) ⟨m, none⟩ (runBuildA key cancelAt sched a (withFail b s)).trace.reverse =
        some ⟨m', none⟩) ∧
      RelIdle rules (withFail false (runBuildA key cancelAt sched a (withFail b s))) m' ∧ Committed m' := by
  cases b with
  | true =>
    have hnh := build_terminates_fail hok hr key cancelAt sched a hsize
    obtain ⟨m', h1, h2, h3⟩ := runBuildF_trunF hok hr key cancelAt sched a hnh
    exact ⟨hnh, m', fun _ => h1, fun h => (by cases h), h2, h3⟩
  | false =>
    rw [runBuildF_false hr]
    have hnh := build_terminates_async hok hr key cancelAt sched a hsize
    obtain ⟨m', h1, h2⟩ := runBuildA_sim (workLoopA_final rules hok) hr key cancelAt sched a hnh
    have h3 : Committed m' := runBuildA_committed (workLoopA_final rules hok) hr key cancelAt sched a hnh (ms' := ⟨m', none⟩) h1
    refine ⟨hnh, m', fun h => (by cases h), fun _ => h1, ?_, h3⟩
    rw [withFail_of_flag h2.noFail]
    exact h2

/-! ## 4. non-vacuity: an injected write failure, then a build that succeeds on the same engine -/

/-- program `exRules` (Final.lean: input rule `1`, derived rule `3`), input `1` set to 55, then op `F` -/
def exF0 : State := opFail (opMutate 1 55 (opProgram exRules {}))
/-- the build of `3` whose first write (the row of rule `1`) fails -/
def exF1 : State := runBuildA 3 0 [] [] exF0
/-- the next build on the same engine -/
def exF2 : State := runBuildA 3 0 [] [] exF1

/-- the failed build: 24 tokens, `… ; S 1 2 ; DS 1 row ; ER 6 ; …` at positions 17–19; it does not halt, the flag is
consumed, no row was written; the second build writes both rows -/
example : exF1.trace.length = 24 ∧
    (exF1.trace.reverse[17]?.bind Tok.isS2) = some 1 ∧
    (exF1.trace.reverse[18]?.map Tok.isDS) = some true ∧
    (exF1.trace.reverse[19]?.map Tok.isER6) = some true ∧
    exF1.halted = false ∧ exF1.store.failNextSet = false ∧ exF1.store.rows.length = 0 ∧
    exF2.halted = false ∧ exF2.store.rows.length = 2 := by
  decide

/-- both traces are readable with the failed-write clause (22 events each: the failed build has no `finished 1 _`, but
an `error 6`), and the monitor accepts `mutate 1 55`, the failed build and the next build in sequence from `{}` -/
example : (evOfToksF none exF1.trace.reverse).map List.length = some 22 ∧
    (evOfToksF none exF2.trace.reverse).map List.length = some 22 ∧
    ((evOfToksF none exF1.trace.reverse).bind fun e1 => (evOfToksF none exF2.trace.reverse).bind fun e2 =>
      run (program exRules) {} (.mutate 1 55 :: (e1 ++ e2))).isSome = true := by
  decide

/-- … whereas with the plain reading `toEvents` (the failed write merged into `finished 1 row`) the SAME two traces are
rejected: after the failed build the monitor believes rule `1` was built and stored (notes/REFINE.md §11) -/
example : ((toEvents exF1.trace.reverse).bind fun e1 => (toEvents exF2.trace.reverse).bind fun e2 =>
      run (program exRules) {} (.mutate 1 55 :: (e1 ++ e2))).isSome = false := by
  decide

/-- the theorems apply to the example (without running the builds): the failed build by `runBuildF_refines_sized`, the
next one — the flag was consumed — by `runBuildA_refines` -/
example : ∃ evs1 evs2 m', evOfToksF none exF1.trace.reverse = some evs1 ∧ toEvents exF2.trace.reverse = some evs2 ∧
    run (program exRules) {} (.mutate 1 55 :: (evs1 ++ evs2)) = some m' ∧ RelIdle exRules exF2 m' := by
  obtain ⟨m0, h0, hr0⟩ := (RelIdle.init exRules).mutate (program exRules) 1 55
  have hc0 : Committed m0 := Committed.step h0 rfl Committed.init
  obtain ⟨evs1, m1, h1, h2, hr1, -⟩ := runBuildF_refines_sized exRules_ok hr0 hc0 3 0 [] [] (by decide)
  have e1 : withFail false (runBuildA 3 0 [] [] (withFail true (opMutate 1 55 (opProgram exRules {})))) = exF1 :=
    withFail_of_flag (s := exF1) (by decide)
  rw [e1] at hr1
  have hnh2 : (runBuildA 3 0 [] [] exF1).halted = false := build_terminates_async exRules_ok hr1 3 0 [] [] (by decide)
  obtain ⟨evs2, m2, h3, h4, hr2⟩ := runBuildA_refines exRules_ok hr1 3 0 [] [] hnh2
  refine ⟨evs1, evs2, m2, h1, h3, ?_, hr2⟩
  show run (program exRules) {} ([.mutate 1 55] ++ (evs1 ++ evs2)) = some m2
  rw [run_append]
  have : run (program exRules) {} [.mutate 1 55] = some m0 := by simp [run, h0]
  rw [this]
  simp only [Option.bind_some]
  rw [run_append, h2]
  simpa using h4

/-
#print axioms runBuildF_sim            -- [propext, Classical.choice, Quot.sound]
#print axioms runBuildF_refines        -- [propext, Classical.choice, Quot.sound]
#print axioms build_terminates_fail    -- [propext, Classical.choice, Quot.sound]
#print axioms build_noBad_fail         -- [propext, Classical.choice, Quot.sound]
#print axioms runBuildF_refines_sized  -- [propext, Classical.choice, Quot.sound]
#print axioms runBuildFb_trunF         -- [propext, Classical.choice, Quot.sound]
#print axioms runBuildF_cuts           -- [propext, Classical.choice, Quot.sound]
#print axioms runBuildF_trace_shape    -- [propext, Classical.choice, Quot.sound]
-/
end LLBuild.Refine
