/-
IM3 — termination / no-stall: the ASSEMBLY for the work loop (design: notes/REFINE.md §8).
* §0 `DiscM`: the monitor invariant behind `DiscInv` (TermFinTask.lean) — the discovered dependencies a task reported
  are `[]` or `P.disc a recv` for some `recv`; `step_discM`, `tstep_discM`, `trun_discM`, `DiscInv_of_rel`;
  `trun_B_discM`: it holds after any accepted token run that starts with `B key` (`buildStart` resets every task).
* §1 `executeLoop_nohalt`: by induction on the fuel of `executeLoop`, with the invariant of `Loop.lean` (`Inv`, `NoMid`,
  `Aux`) + `DiscM` + `ClosedU rules U s`, and the potential `Phi rules U s {}`: `Phi + 1 < fuel` suffices.
-/
import LLBuild.Lemmas.Refine.TermBasic
import LLBuild.Lemmas.Refine.TermScan
import LLBuild.Lemmas.Refine.TermDemand
import LLBuild.Lemmas.Refine.TermInput
import LLBuild.Lemmas.Refine.TermFinInput
import LLBuild.Lemmas.Refine.TermReady
import LLBuild.Lemmas.Refine.TermFinTask
import LLBuild.Lemmas.Refine.TermExit
import LLBuild.Lemmas.Refine.TermCycle

namespace LLBuild.Refine
open LLBuild.Engine LLBuild.Engine.DSL LLBuild.EngineImpl

/-! ## 0. `DiscM`: a monitor invariant for the discovered dependencies -/

/-- every task's reported discovered dependencies are none, or what the program reports for some received values -/
def DiscM (P : Program) (m : Engine.St) : Prop :=
  ∀ a, (m.task a).discs = [] ∨ ∃ recv, (m.task a).discs = P.disc a recv

theorem discM_task_eq {P : Program} {m m' : Engine.St} (h : m'.task = m.task) (hm : DiscM P m) : DiscM P m' := by
  intro a; rw [h]; exact hm a

theorem discM_reset {P : Program} {m' : Engine.St} (h : m'.task = fun _ => {}) : DiscM P m' := by
  intro a; rw [h]; exact Or.inl rfl

theorem discM_upd {P : Program} {m m' : Engine.St} {k : Key} {t : Task} (h : m'.task = upd m.task k t) (hm : DiscM P m)
    (ht : t.discs = [] ∨ ∃ recv, t.discs = P.disc k recv) : DiscM P m' := by
  intro a; rw [h]
  by_cases hak : a = k
  · subst hak; rw [upd_same]; exact ht
  · rw [upd_other _ _ _ _ hak]; exact hm a

theorem discM_init (P : Program) : DiscM P ({} : Engine.St) := discM_reset rfl

theorem step_discM (P : Program) (m m' : Engine.St) (e : Event) (h : step P m e = some m') (hm : DiscM P m) :
    DiscM P m' := by
  cases e <;> simp only [step] at h
  all_goals (try (split at h <;> try cases h))
  all_goals (try (split at h <;> try cases h))
  all_goals (try (split at h <;> try cases h))
  all_goals (try cases h)
  all_goals (try (first | exact discM_task_eq rfl hm | exact discM_reset rfl))
  case create => exact discM_upd rfl hm (Or.inl rfl)
  case start => exact discM_upd rfl hm (Or.inl rfl)
  case prior => exact discM_upd rfl hm (hm _)
  case inputsAvail =>
    rename_i k discs hc
    refine discM_upd rfl hm (Or.inr ⟨recvOf (m.task k).seq, ?_⟩)
    simp only [Bool.and_eq_true, beq_iff_eq] at hc
    exact hc.2
  case complete => exact discM_upd rfl hm (hm _)
  · -- provide
    exact discM_upd rfl hm (hm _)
  · -- ret (failure)
    split at h
    · cases h; exact discM_task_eq rfl hm
    · cases h

/-- a monitor invariant of `step` is an invariant of the token monitor -/
theorem tstep_inv {P : Program} {I : Engine.St → Prop} (hI : ∀ m m' e, step P m e = some m' → I m → I m')
    {ms ms' : MSt} {t : Tok} (h : tstep P ms t = some ms') (hm : I ms.m) : I ms'.m := by
  unfold tstep at h
  split at h
  · split at h
    · cases h; exact hm
    · split at h
      · cases h
      · rename_i e _
        cases hs : step P ms.m e with
        | none => rw [hs] at h; cases h
        | some m1 => rw [hs] at h; cases h; exact hI _ _ e hs hm
  · split at h
    · split at h
      · rename_i row _
        cases hs : step P ms.m (.finished _ row) with
        | none => rw [hs] at h; cases h
        | some m1 => rw [hs] at h; cases h; exact hI _ _ _ hs hm
      · cases h
    · split at h
      · split at h
        · cases h
        · rename_i e _
          cases hs : step P ms.m e with
          | none => rw [hs] at h; cases h
          | some m1 => rw [hs] at h; cases h; exact hI _ _ e hs hm
      · cases h

theorem trun_inv {P : Program} {I : Engine.St → Prop} (hI : ∀ m m' e, step P m e = some m' → I m → I m') :
    ∀ (toks : List Tok) (ms ms' : MSt), trun P ms toks = some ms' → I ms.m → I ms'.m
  | [], ms, ms', h, hm => by simp [trun] at h; subst h; exact hm
  | t :: rest, ms, ms', h, hm => by
    simp only [trun] at h
    cases hts : tstep P ms t with
    | none => rw [hts] at h; cases h
    | some ms1 =>
      rw [hts] at h
      exact trun_inv hI rest ms1 ms' h (tstep_inv hI hts hm)

theorem tstep_discM {P : Program} {ms ms' : MSt} {t : Tok} (h : tstep P ms t = some ms') (hm : DiscM P ms.m) :
    DiscM P ms'.m := tstep_inv (step_discM P) h hm

theorem trun_discM {P : Program} {toks : List Tok} {ms ms' : MSt} (h : trun P ms toks = some ms') (hm : DiscM P ms.m) :
    DiscM P ms'.m := trun_inv (step_discM P) toks ms ms' h hm

theorem run_discM {P : Program} : ∀ (evs : List Event) (m m' : Engine.St), run P m evs = some m' → DiscM P m → DiscM P m'
  | [], m, m', h, hm => by simp [run] at h; subst h; exact hm
  | e :: rest, m, m', h, hm => by
    simp only [run] at h
    cases hs : step P m e with
    | none => rw [hs] at h; cases h
    | some m1 => rw [hs] at h; exact run_discM rest m1 m' h (step_discM P _ _ e hs hm)

/-- `buildStart` resets every task: after an accepted run that starts with `B key`, `DiscM` holds whatever the
monitor state was before -/
theorem trun_B_discM {P : Program} {m : Engine.St} {key : Key} {rest : List Tok} {ms' : MSt}
    (h : trun P ⟨m, none⟩ (.B key :: rest) = some ms') : DiscM P ms'.m := by
  simp only [trun] at h
  cases hts : tstep P ⟨m, none⟩ (.B key) with
  | none => rw [hts] at h; cases h
  | some ms1 =>
    rw [hts] at h
    refine trun_discM h ?_
    have hts' := hts
    simp only [tstep, Tok.isS2, Tok.toEvent?] at hts'
    cases hs : step P m (.buildStart key) with
    | none => rw [hs] at hts'; cases hts'
    | some m1 =>
      rw [hs] at hts'
      cases hts'
      simp only [step] at hs
      split at hs
      · cases hs; exact discM_reset rfl
      · cases hs

/-- **`DiscInv` (TermFinTask.lean) from the relation and the monitor invariant** -/
theorem DiscInv_of_rel {rules : List RuleSpec} {s : State} {ms : MSt} {h : Hand} (hr : Rel rules s ms h)
    (hd : DiscM (program rules) ms.m) : DiscInv rules s := by
  have key : ∀ a t, s.taskInfos.lookup a = some t →
      t.discoveredDependencies = [] ∨ ∃ recv, t.discoveredDependencies = discDeps (discKeys (specOf rules a) recv) := by
    intro a t hl
    have hto := hr.taskOk a t hl
    by_cases hw : (s.rule a).state = .inProgressWaiting
    · exact Or.inl (hto.waiting hw).2.1
    · have hc := (hto.computing hw).1
      rcases hd a with h0 | ⟨recv, h1⟩
      · left; rw [hc, h0]; rfl
      · right; exact ⟨recv, by rw [hc, h1]; rfl⟩
  constructor
  · intro a t hl
    rcases key a t hl with h0 | ⟨recv, h1⟩
    · rw [h0]; exact Nat.zero_le _
    · rw [h1]
      simp only [discDeps, discKeys, List.length_map]
      exact List.length_filter_le _ _
  · intro a t hl d hdm
    rcases key a t hl with h0 | ⟨recv, h1⟩
    · rw [h0] at hdm; cases hdm
    · rw [h1] at hdm
      simp only [discDeps, discKeys, List.mem_map, List.mem_filter] at hdm ⊢
      obtain ⟨x, ⟨p, ⟨hp, _⟩, hpx⟩, hxd⟩ := hdm
      exact ⟨p, hp, by rw [← hxd]; exact hpx⟩

/-! ## 1. the work loop does not halt -/

theorem loopFuel_succ : loopFuel = 999999 + 1 := rfl

/-- a loop that finds its queue empty returns at once, flag and state unchanged -/
theorem scanRequestsLoop_empty (fuel : Nat) (w : Bool) (s : State) (h : s.ruleInfosToScan = []) :
    scanRequestsLoop (fuel + 1) w s = (w, s) := by
  rw [scanRequestsLoop, h]; rfl

theorem inputRequestsLoop_empty (fuel : Nat) (w : Bool) (s : State) (h : s.inputRequests = []) :
    inputRequestsLoop (fuel + 1) w s = (w, s) := by
  rw [inputRequestsLoop, h]

theorem finishedInputsLoop_empty (fuel : Nat) (w : Bool) (s : State) (h : s.finishedInputRequests = []) :
    finishedInputsLoop (fuel + 1) w s = (w, s) := by
  rw [finishedInputsLoop_succ, h]; rfl

theorem readyTasksLoop_empty (fuel : Nat) (w : Bool) (s : State) (h : s.readyTaskInfos = []) :
    readyTasksLoop (fuel + 1) w s = (w, s) := by
  rw [readyTasksLoop_succ, h]

theorem finishedTasksLoop_empty (fuel : Nat) (w : Bool) (s : State) (h : s.finishedTaskInfos = []) :
    finishedTasksLoop (fuel + 1) w s = (false, w, s) := by
  rw [finishedTasksLoop_succ, h]; rfl

/-- if every loop of an iteration found its queue empty, the iteration reports "no work" -/
theorem flags_false_of_empty (s : State) (q1 : s.ruleInfosToScan = []) (q2 : (st1 s).2.inputRequests = [])
    (q3 : (st2 s).2.finishedInputRequests = []) (q4 : (st3 s).2.readyTaskInfos = [])
    (q5 : (st4 s).2.finishedTaskInfos = []) : (st5 s).2.1 = false := by
  have e1 : (st1 s).1 = false := by
    show (scanRequestsLoop loopFuel false s).1 = false
    rw [loopFuel_succ, scanRequestsLoop_empty _ _ _ q1]
  have e2 : (st2 s).1 = false := by
    show (inputRequestsLoop loopFuel (st1 s).1 (st1 s).2).1 = false
    rw [loopFuel_succ, inputRequestsLoop_empty _ _ _ q2]; exact e1
  have e3 : (st3 s).1 = false := by
    show (finishedInputsLoop loopFuel (st2 s).1 (st2 s).2).1 = false
    rw [loopFuel_succ, finishedInputsLoop_empty _ _ _ q3]; exact e2
  have e4 : (st4 s).1 = false := by
    show (readyTasksLoop loopFuel (st3 s).1 (st3 s).2).1 = false
    rw [loopFuel_succ, readyTasksLoop_empty _ _ _ q4]; exact e3
  show (finishedTasksLoop loopFuel (st4 s).1 (st4 s).2).2.1 = false
  rw [loopFuel_succ, finishedTasksLoop_empty _ _ _ q5]; exact e4

theorem ite01_zero {q : Prop} [Decidable q] (h : (if q then 0 else 1) = 0) : q := by
  by_cases hq : q
  · exact hq
  · rw [if_neg hq] at h; cases h

theorem waitStep_of_ne {s : State} (h : (hook 1 s).finishedTaskInfos ≠ []) : waitStep s = hook 1 s := by
  unfold waitStep
  simp only []
  rw [if_neg]
  intro he
  exact h (List.isEmpty_iff.mp he)

/-- the `Inv.step` of `Loop.lean` without the tokens, with the monitor invariant `DiscM` -/
theorem Inv.stepD {rules : List RuleSpec} {key : Key} {s : State} {ms : MSt} {s' : State} {Post : MSt → Prop}
    (hi : Inv rules key s ms) (hd : DiscM (program rules) ms.m) (hs : Sim rules s ms s' {} Post)
    (hh : s'.halted = false) : ∃ ms', Inv rules key s' ms' ∧ DiscM (program rules) ms'.m ∧ Post ms' := by
  obtain ⟨toks, ms', _, hr, hi', hpost⟩ := hi.step hs hh
  exact ⟨ms', hi', trun_discM hr hd, hpost⟩

/-- the side statements of the provers' termination lemmas (`TermScan`, `TermInput`, `TermFinInput`) -/
theorem scanRuleTerm : TermInput.ScanRuleTerm :=
  fun _ _ _ _ _ _ _ hr _ _ hreg hU _ => scanRule_term hr hreg hU

/-- the end of an iteration does not halt -/
theorem afterWait_nohalt {rules : List RuleSpec} (hok : RulesOk rules) {U : List Key} (hUlen : U.length + 2 ≤ loopFuel)
    {key : Key} {fuel : Nat}
    (ih : ∀ s ms, Inv rules key s ms → NoMid s → Aux key s {} → DiscM (program rules) ms.m → ClosedU rules U s →
      s.halted = false → Phi rules U s {} + 1 < fuel → Phi rules U s {} < loopFuel → Phi rules U s {} < scanFuel →
      (executeLoop key fuel s).2.halted = false)
    (w : Bool) (s : State) (ms : MSt) (hi : Inv rules key s ms) (hnm : NoMid s) (haux : Aux key s {})
    (hd : DiscM (program rules) ms.m) (hU : ClosedU rules U s) (hh : s.halted = false)
    (hL : Phi rules U s {} < loopFuel) (hS : Phi rules U s {} < scanFuel)
    (hw : w = true → Phi rules U s {} + 1 < fuel)
    (hq : w = false → s.ruleInfosToScan = [] ∧ s.inputRequests = [] ∧
      s.finishedInputRequests = [] ∧ s.readyTaskInfos = [] ∧ s.finishedTaskInfos = [] ∧
      s.numOutstandingUnfinishedTasks = 0) :
    (afterWait key fuel w s).2.halted = false := by
  unfold afterWait
  cases w with
  | true =>
    simp only [if_true]
    exact ih s ms hi hnm haux hd hU hh (hw rfl) hL hS
  | false =>
    simp only [Bool.false_eq_true, if_false]
    obtain ⟨q1, q2, q3, q4, q5, hnum⟩ := hq rfl
    by_cases hc : (!s.taskInfos.isEmpty || s.numRulesBeingScanned != 0 || !isComplete s (s.rule key)) = true
    · rw [if_pos hc]
      have hst : Cyc.Stuck rules s ms := ⟨hi.rel, hi.pend, hnm, q1, q2, q3, q4, q5, hnum⟩
      obtain ⟨-, ks, -, hrc⟩ := resolveCycle_nohalt hst hi.noMF haux.readyWhenZero hU.registered
        (Nat.lt_of_le_of_lt (gatherBound_le_Phi hst hU.registered {}) hL) hUlen key hh
      rw [hrc]
      simp only [Bool.false_eq_true, if_false]
      exact cancelRemainingTasks_cycle_nohalt_of_Phi hok ks hi.rel hi.pend hU hh hL
    · rw [if_neg hc]
      exact hh

/-- **`executeLoop` does not halt** when its fuel exceeds the potential by 2, the queue loops' fuel (`loopFuel`) and the
scan loop's fuel (`scanFuel`) exceed the potential, and `loopFuel` exceeds the size of the universe by 2 (for the
cycle search).  Invariant: `Inv` + `NoMid` + `Aux` (`Loop.lean`) + `DiscM` + `ClosedU`. -/
theorem executeLoop_nohalt {rules : List RuleSpec} (hok : RulesOk rules) {U : List Key} {key : Key}
    (hUlen : U.length + 2 ≤ loopFuel) :
    ∀ (fuel : Nat) (s : State) (ms : MSt), Inv rules key s ms → NoMid s → Aux key s {} →
      DiscM (program rules) ms.m → ClosedU rules U s → s.halted = false →
      Phi rules U s {} + 1 < fuel → Phi rules U s {} < loopFuel → Phi rules U s {} < scanFuel →
      (executeLoop key fuel s).2.halted = false := by
  intro fuel
  induction fuel with
  | zero => intro s ms _ _ _ _ _ _ hF; omega
  | succ fuel ih =>
    intro s ms hi hnm haux hd hU hh hF hL hS
    rw [executeLoop_succ]
    simp only [hh, Bool.false_eq_true, if_false]
    -- `hook 0`
    have hh0 := hook_nohalt 0 hi.rel hh
    have T0 := hook_term (U := U) 0 hi.rel hi.pend hh hU
    have haux0 := hook_aux key 0 hi.rel hi.pend hh haux
    obtain ⟨ms0, hi0, hd0, hnm0'⟩ := hi.stepD hd (hook_sim rules hok 0 s ms hi.rel hi.pend hh) hh0
    have hnm0 := hnm0' hnm
    have hU0 := T0.1
    have hP0 : Phi rules U (hook 0 s) {} < fuel ∧ Phi rules U (hook 0 s) {} < loopFuel ∧
        Phi rules U (hook 0 s) {} < scanFuel := by
      have := T0.2; omega
    generalize hook 0 s = s0 at hh0 haux0 hi0 hnm0 hU0 hP0 ⊢
    clear T0 hnm0' hi hnm haux hd hU hh hF hL hS s ms
    obtain ⟨hF0, hL0, hS0⟩ := hP0
    by_cases hc : s0.buildCancelled = true
    · rw [if_pos hc]
      exact cancelRemainingTasks_nohalt_of_Phi hok hi0.rel hi0.pend hU0 hh0 hL0
    · rw [if_neg hc]
      -- scan requests
      have h1 : (st1 s0).2.halted = false :=
        scanRequestsLoop_nohalt demandRule_nohalt_U demandRule_term hok hi0.rel hi0.pend hh0 hU0 hL0 hS0
      have T1 : TermStep rules U s0 {} (st1 s0).2 {} (if s0.ruleInfosToScan = [] then 0 else 1) :=
        scanRequestsLoop_term demandRule_nohalt_U demandRule_term hok hi0.rel hi0.pend hh0 hU0 hL0 hS0
      have S1 : Sim rules s0 ms0 (st1 s0).2 {} (fun _ => (st1 s0).2.ruleInfosToScan = []) :=
        scanRequestsLoop_sim demandRule_sim rules hok loopFuel false s0 ms0 hi0.rel hi0.pend hh0
      have haux1 : Aux key (st1 s0).2 {} :=
        scanRequestsLoop_aux demandRule_sim hok key loopFuel false s0 ms0 hi0.rel hi0.pend hh0 h1 demandRule_aux haux0
      obtain ⟨ms1, hi1, hd1, hq1⟩ := hi0.stepD hd0 S1 h1
      have hfresh1 : FreshScanQ (st1 s0).2 := by
        intro r hr; rw [hq1] at hr; cases hr
      have hT1 := T1.2
      -- input requests
      have h2 : (st2 s0).2.halted = false :=
        inputRequestsLoop_nohalt scanRuleTerm demandRule_nohalt_U demandRule_term rules hok U loopFuel (st1 s0).1
          (st1 s0).2 ms1 hi1.rel hi1.pend h1 hfresh1 hi1.pendFresh T1.1 (by omega)
      have T2 : TermStep rules U (st1 s0).2 {} (st2 s0).2 {} (if (st1 s0).2.inputRequests = [] then 0 else 1) :=
        inputRequestsLoop_term scanRuleTerm demandRule_nohalt_U demandRule_term rules hok U loopFuel (st1 s0).1
          (st1 s0).2 ms1 hi1.rel hi1.pend h1 hfresh1 hi1.pendFresh T1.1 (by omega)
      have S2 : Sim rules (st1 s0).2 ms1 (st2 s0).2 {} (fun _ =>
          (st2 s0).2.inputRequests = [] ∧ NoMid (st2 s0).2 ∧ FreshScanQ (st2 s0).2) :=
        inputRequestsLoop_of_pendFresh demandRule_sim rules hok loopFuel (st1 s0).1 (st1 s0).2 ms1 hi1.rel hi1.pend h1
          hfresh1 hi1.pendFresh
      have haux2 : Aux key (st2 s0).2 {} :=
        inputRequestsLoop_aux demandRule_sim rules hok loopFuel (st1 s0).1 (st1 s0).2 ms1 key hi1.rel hi1.pend h1
          hfresh1 hi1.pendFresh h2 scanRuleAux demandRule_aux haux1
      obtain ⟨ms2, hi2, hd2, -, hnm2, -⟩ := hi1.stepD hd1 S2 h2
      have hT2 := T2.2
      -- finished inputs
      have h3 : (st3 s0).2.halted = false :=
        finishedInputsLoop_nohalt hok (fuel := loopFuel) (w := (st2 s0).1) hi2.rel hi2.pend h2 hnm2 T2.1 issue_term_U
          (by omega)
      have T3 : TermStep rules U (st2 s0).2 {} (st3 s0).2 {}
          (if (st2 s0).2.finishedInputRequests = [] then 0 else 1) :=
        finishedInputsLoop_term hok (fuel := loopFuel) (w := (st2 s0).1) hi2.rel hi2.pend h2 hnm2 T2.1 issue_term_U
          (by omega)
      have S3 : Sim rules (st2 s0).2 ms2 (st3 s0).2 {} (fun _ =>
          (st3 s0).2.finishedInputRequests = [] ∧ NoMid (st3 s0).2) :=
        finishedInputsLoop_sim (finishedInputStep_sim issue_sim endIssue) rules hok loopFuel (st2 s0).1 (st2 s0).2 ms2
          hi2.rel hi2.pend h2 hnm2
      have haux3 : Aux key (st3 s0).2 {} :=
        finishedInputsLoop_aux hok (fuel := loopFuel) (w := (st2 s0).1) hi2.rel hi2.pend h2 hnm2 h3 issueAux haux2
      obtain ⟨ms3, hi3, hd3, -, hnm3⟩ := hi2.stepD hd2 S3 h3
      have hT3 := T3.2
      -- ready tasks
      have h4 : (st4 s0).2.halted = false :=
        readyTasksLoop_nohalt loopFuel (st3 s0).1 hi3.rel hi3.pend h3 hnm3 T3.1 (by omega)
      have T4 : TermStep rules U (st3 s0).2 {} (st4 s0).2 {} (if (st3 s0).2.readyTaskInfos = [] then 0 else 1) :=
        readyTasksLoop_term loopFuel (st3 s0).1 hi3.rel hi3.pend h3 hnm3 T3.1 (by omega)
      have S4 : Sim rules (st3 s0).2 ms3 (st4 s0).2 {} (fun _ =>
          (st4 s0).2.readyTaskInfos = [] ∧ NoMid (st4 s0).2) :=
        readyTasksLoop_sim rules hok loopFuel (st3 s0).1 (st3 s0).2 ms3 hi3.rel hi3.pend h3 hnm3
      have haux4 : Aux key (st4 s0).2 {} :=
        readyTasksLoop_aux key loopFuel (st3 s0).1 (st3 s0).2 ms3 hi3.rel hi3.pend h3 hnm3 h4 haux3
      obtain ⟨ms4, hi4, hd4, -, hnm4⟩ := hi3.stepD hd3 S4 h4
      have hT4 := T4.2
      -- finished tasks
      have R5 : (st5 s0).2.2.halted = false ∧ (st5 s0).1 = false ∧ DiscInv rules (st5 s0).2.2 ∧
          TermStep rules U (st4 s0).2 {} (st5 s0).2.2 {} (if (st4 s0).2.finishedTaskInfos = [] then 0 else 1) :=
        finishedTasksLoop_term hok loopFuel (st4 s0).1 (st4 s0).2 ms4 hi4.rel hi4.pend h4 hnm4 T4.1
          (DiscInv_of_rel hi4.rel hd4) (by omega)
      obtain ⟨h5, hfail, -, T5⟩ := R5
      have S5 : (st5 s0).1 = false ∧ Sim rules (st4 s0).2 ms4 (st5 s0).2.2 {} (fun _ =>
          (st5 s0).2.2.finishedTaskInfos = [] ∧ NoMid (st5 s0).2.2) :=
        finishedTasksLoop_sim rules hok loopFuel (st4 s0).1 (st4 s0).2 ms4 hi4.rel hi4.pend h4 hnm4
      have haux5 : Aux key (st5 s0).2.2 {} :=
        finishedTasksLoop_aux hok loopFuel (st4 s0).1 (st4 s0).2 ms4 hi4.rel hi4.pend h4 hnm4 haux4
      obtain ⟨ms5, hi5, hd5, hq5, hnm5⟩ := hi4.stepD hd4 S5.2 h5
      have hT5 := T5.2
      -- the wait branch
      unfold afterTasks
      simp only [hfail, Bool.false_eq_true, if_false]
      have IH : ∀ s ms, Inv rules key s ms → NoMid s → Aux key s {} → DiscM (program rules) ms.m → ClosedU rules U s →
          s.halted = false → Phi rules U s {} + 1 < fuel → Phi rules U s {} < loopFuel → Phi rules U s {} < scanFuel →
          (executeLoop key fuel s).2.halted = false := ih
      by_cases hw : (!(st5 s0).2.1 && (st5 s0).2.2.numOutstandingUnfinishedTasks != 0) = true
      · rw [if_pos hw]
        have hnum : (st5 s0).2.2.numOutstandingUnfinishedTasks ≠ 0 := by
          simp only [Bool.and_eq_true, bne_iff_ne, ne_eq] at hw
          exact hw.2
        obtain ⟨hne, T6⟩ := hook_wait_term hi5.rel hi5.pend h5 T5.1 hnum hq5
        have h6 := hook_nohalt 1 hi5.rel h5
        have haux6 : Aux key (hook 1 (st5 s0).2.2) {} := hook_aux key 1 hi5.rel hi5.pend h5 haux5
        obtain ⟨ms6, hi6, hd6, hnm6⟩ := hi5.stepD hd5 (hook_sim rules hok 1 (st5 s0).2.2 ms5 hi5.rel hi5.pend h5) h6
        rw [waitStep_of_ne hne]
        have hT6 := T6.2
        exact afterWait_nohalt hok hUlen IH true _ ms6 hi6 (hnm6 hnm5) haux6 hd6 T6.1 h6 (by omega) (by omega)
          (fun _ => by omega) (fun h => by cases h)
      · rw [if_neg hw]
        refine afterWait_nohalt hok hUlen IH _ _ ms5 hi5 hnm5 haux5 hd5 T5.1 h5 (by omega) (by omega) ?_ ?_
        · intro hw5
          have hsum : 1 ≤ (if s0.ruleInfosToScan = [] then 0 else 1) + (if (st1 s0).2.inputRequests = [] then 0 else 1)
              + (if (st2 s0).2.finishedInputRequests = [] then 0 else 1)
              + (if (st3 s0).2.readyTaskInfos = [] then 0 else 1)
              + (if (st4 s0).2.finishedTaskInfos = [] then 0 else 1) := by
            apply Classical.byContradiction
            intro hn
            have e := flags_false_of_empty s0 (ite01_zero (by omega)) (ite01_zero (by omega)) (ite01_zero (by omega))
              (ite01_zero (by omega)) (ite01_zero (by omega))
            rw [e] at hw5; cases hw5
          omega
        · intro hw5
          obtain ⟨e, q1, q2, q3, q4, q5⟩ := nowork_all s0 hw5 h1 h2 h3 h4 h5
          have hnum : (st5 s0).2.2.numOutstandingUnfinishedTasks = 0 := by
            rw [hw5] at hw
            simpa using hw
          rw [e] at hnum ⊢
          exact ⟨q1, q2, q3, q4, q5, hnum⟩

end LLBuild.Refine
