/-
IM2 — refinement: the assembly.
* `WorkLoopSpec rules`: the specification of `executeLoop` — the ONE open obligation (decomposed in `Todo.lean`);
* `runBuild_sim` / `runBuild_refines`: one build (`B …` op), modulo `WorkLoopSpec`, PROVED: prologue, early cancellation,
  `QC`, registration of the requested key, entry into the loop, `DI`, freeing of scan records, `DE ; R ; Z`;
* `refinement_op`, `refinement_history`, `refinement_from_start`: every history of `W`/`E`/`M`/`B` ops is accepted by
  the abstract monitor: `Engine.run (program rules) {} evs = some m'`, the hypothesis of C01–C07.
-/
import LLBuild.Lemmas.Refine.Bracket
import LLBuild.Lemmas.Refine.Queue
import LLBuild.Lemmas.Refine.Ops

namespace LLBuild.Refine
open LLBuild.Engine LLBuild.Engine.DSL LLBuild.EngineImpl

/-- `db->buildComplete()` (the deferred call of `build`) -/
def finishDB (s : State) : State := if s.hasDB then emit .DE s else s

/-- `build` after the work loop: `DI`, the deferred freeing of the scan records, the result -/
def buildTail (key : Key) (r : Bool × State) : Val × State :=
  let s := if r.2.hasDB then { emit (.DI r.2.currentEpoch) r.2 with store := { r.2.store with iteration := r.2.currentEpoch } } else r.2
  if !r.1 then (0, freeScanRecords s) else
  let s := getRuleInfoForKey key s
  ((s.rule key).result.value, freeScanRecords s)

/-- `build` from `QC` on -/
def buildWork (key : Key) (s : State) : Val × State :=
  buildTail key (executeTasks key { emit .QC s with currentEpoch := (emit .QC s).currentEpoch + 1 })

/-- `build` up to (excluding) the deferred `buildComplete` -/
def buildPre (key : Key) (s : State) : Val × State :=
  let s := if s.hasDB then emit .DB s else s
  if s.buildCancelled then (0, s) else buildWork key s

theorem build_eq (key : Key) (s : State) : build key s = ((buildPre key s).1, finishDB (buildPre key s).2) := by
  unfold build buildPre buildWork buildTail finishDB
  generalize (if s.hasDB = true then emit Tok.DB s else s) = s1
  simp only []
  by_cases hc : s1.buildCancelled = true
  · simp only [hc, if_true]
  · simp only [hc, Bool.false_eq_true, if_false]
    generalize executeTasks key _ = r
    obtain ⟨ok, s4⟩ := r
    cases ok
    · simp only [Bool.not_false, if_true]
    · simp only [Bool.not_true, Bool.false_eq_true, if_false]

/-- **The specification of the work loop** (`executeLoop`), the one open obligation of the refinement
(decomposed function by function in `Todo.lean`): from the full relation with nothing in hand, a run of the
loop that does not halt emits tokens the monitor accepts and ends quiescent, in `RelPost` (success: the
guard of a successful `ret` holds; failure: `cancelRemainingTasks` has run and a cause was reported). -/
def WorkLoopSpec (rules : List RuleSpec) : Prop :=
  ∀ (key : Key) (fuel : Nat) (s : State) (ms : MSt),
    Rel rules s ms {} → NoMid s → ms.pend = none → ms.m.target = some key → Registered s key → s.halted = false →
    -- three facts that `Rel` does not carry and the loop keeps invariant (found by the provers of the input-request
    -- loop and of the cycle search): pending discovered dependencies are not done; no must-follow request is ever
    -- "delivered"; `Aux` (ready-when-zero, the requested key has been seen or its dummy request is queued)
    (∀ p ∈ ms.m.pending, isDone ms.m p.1 = false) →
    (∀ a q, delivered (ms.m.task a).seq q = true → q.kind ≠ 2) →
    Aux key s {} →
    (executeLoop key fuel s).2.halted = false →
    ∃ toks m', Emits s toks (executeLoop key fuel s).2 ∧ trun (program rules) ms toks = some ⟨m', none⟩ ∧
      RelPost rules key (executeLoop key fuel s).2 m' (executeLoop key fuel s).1 ∧ m'.started = true

theorem emit_halted_false {t : Tok} {s : State} (h : (emit t s).halted = false) : s.halted = false := by
  rwa [emit_halted_eq] at h

/-- `executeTasks` from the prologue relation -/
theorem executeTasks_sim {rules : List RuleSpec} (hloop : WorkLoopSpec rules) {key : Key} {s : State} {m : Engine.St}
    (hr : RelPre rules key true s m) (hfin : s.finishedInputRequests = []) (hh : s.halted = false)
    (hnh : (executeTasks key s).2.halted = false) :
    ∃ toks m', Emits s toks (executeTasks key s).2 ∧ trun (program rules) ⟨m, none⟩ toks = some ⟨m', none⟩ ∧
      RelPost rules key (executeTasks key s).2 m' (executeTasks key s).1 ∧ m'.started = true := by
  have hs0 : ({ s with finishedInputRequests := [] } : State) = s := by
    cases s; simp at hfin; simp [hfin]
  unfold executeTasks at hnh ⊢
  simp only [hs0] at hnh ⊢
  obtain ⟨toks1, m1, he1, hrun1, hr1, hreg1, hh1⟩ := hr.getRule hh key
  have hrel := Rel.entry hr1
  have hrel2 := hrel.pushDummy { taskInfo := none, inputID := 0, inputRuleInfo := key } rfl hreg1 rfl
    (Or.inr (Or.inl hr1.target))
  have hnm : NoMid (pushInput { taskInfo := none, inputID := 0, inputRuleInfo := key } (getRuleInfoForKey key s)) := by
    intro k ri hl
    rcases hr1.states k ri hl with e | e <;> rw [e] <;> exact ⟨by decide, by decide⟩
  have haux : Aux key (pushInput { taskInfo := none, inputID := 0, inputRuleInfo := key } (getRuleInfoForKey key s)) {} :=
    { readyZero := fun a t hl => (by
        have : (getRuleInfoForKey key s).taskInfos.lookup a = some t := hl
        rw [hr1.noTasks] at this; cases this),
      rootSeen := Or.inr ⟨{ taskInfo := none, inputID := 0, inputRuleInfo := key }, by simp [pushInput], rfl⟩ }
  obtain ⟨toks2, m2, he2, hrun2, hpost, hst⟩ :=
    hloop key loopFuel _ _ hrel2 hnm rfl hr1.target hreg1 hh1
      (fun p hp => by rw [hr1.noPending] at hp; cases hp)
      (fun a q hd => by rw [hr1.noSeq a] at hd; simp [delivered] at hd)
      haux hnh
  exact ⟨toks1 ++ toks2, m2, he1.trans he2, trun_append_some hrun1 hrun2, hpost, hst⟩


/-- `DE ; R v ; Z` (the end of `build` and of `runBuild`) -/
def closeBuild (v : Val) (s : State) : State :=
  emit (.Z (emit (.R v) { emit .DE s with buildActive := false }).taskInfos.length 0)
    (emit (.R v) { emit .DE s with buildActive := false })

theorem closeBuild_halted (v : Val) (s : State) : (closeBuild v s).halted = s.halted := by
  unfold closeBuild
  rw [emit_halted_eq, emit_halted_eq]
  show (emit .DE s).halted = _
  rw [emit_halted_eq]

/-- what `runBuild` does with the result of `build` -/
def closeOf (p : Val × State) : State :=
  emit (.Z (emit (.R p.1) { p.2 with buildActive := false }).taskInfos.length 0) (emit (.R p.1) { p.2 with buildActive := false })

theorem runBuild_eq0 (key cancelAt : Nat) (sched : List SchedItem) (s : State) :
    runBuild key cancelAt sched s = closeOf (build key (emit (.B key) (buildInit cancelAt sched s))) := by
  unfold runBuild closeOf buildInit
  simp only []

theorem runBuild_eq (key cancelAt : Nat) (sched : List SchedItem) (s : State)
    (hdb : (buildPre key (emit (.B key) (buildInit cancelAt sched s))).2.hasDB = true) :
    runBuild key cancelAt sched s =
      closeBuild (buildPre key (emit (.B key) (buildInit cancelAt sched s))).1
        (buildPre key (emit (.B key) (buildInit cancelAt sched s))).2 := by
  rw [runBuild_eq0, build_eq]
  have : finishDB (buildPre key (emit (.B key) (buildInit cancelAt sched s))).2 =
      emit .DE (buildPre key (emit (.B key) (buildInit cancelAt sched s))).2 := by
    unfold finishDB; rw [if_pos hdb]
  rw [this]
  rfl


theorem getRuleInfoForKey_halted (k : Key) (s : State) : (getRuleInfoForKey k s).halted = s.halted :=
  (getRuleInfoForKey_same k s).halted

theorem freeScanRecords_halted (s : State) : (freeScanRecords s).halted = s.halted := rfl

/-- what the closing events need: the relation, the stored iteration, and the returned value -/
structure PostOk (rules : List RuleSpec) (key : Key) (p : Val × State) (m : Engine.St) (b : Bool) : Prop where
  post : RelPost rules key p.2 m b
  iter : m.started = false ∨ m.dbIter = m.epoch
  iterEq : p.2.store.iteration = p.2.currentEpoch
  valOk : b = true → p.1 = (p.2.rule key).result.value
  valFail : b = false → p.1 = 0

theorem buildTail_halted (key : Key) (r : Bool × State) : (buildTail key r).2.halted = r.2.halted := by
  unfold buildTail
  obtain ⟨ok, s4⟩ := r
  cases ok <;> cases hd : s4.hasDB <;>
    simp [hd, freeScanRecords_halted, getRuleInfoForKey_halted]

theorem buildTail_sim {rules : List RuleSpec} {key : Key} {r : Bool × State} {m : Engine.St}
    (hpost : RelPost rules key r.2 m r.1) (hst : m.started = true) (hh : r.2.halted = false) :
    ∃ toks m', Emits r.2 toks (buildTail key r).2 ∧ trun (program rules) ⟨m, none⟩ toks = some ⟨m', none⟩ ∧
      ∃ b, PostOk rules key (buildTail key r) m' b := by
  obtain ⟨ok, s4⟩ := r
  have hdb4 : s4.hasDB = true := hpost.base.hasDB
  obtain ⟨toks4, m4, he4, hrun4, hpost4, hit4, hh4⟩ := epilogue_DI hpost hh hst
  unfold buildTail
  simp only [hdb4, if_true, emit_store, emit_currentEpoch] at hpost4 ⊢
  cases ok
  · simp only [Bool.not_false, if_true]
    exact ⟨toks4, m4, he4, hrun4, false,
      { post := hpost4.freeScanRecords, iter := Or.inr hit4, iterEq := by simp [freeScanRecords],
        valOk := fun h => (by cases h), valFail := fun _ => rfl }⟩
  · simp only [Bool.not_true, Bool.false_eq_true, if_false]
    have hregK := (hpost4.ok rfl).1
    rw [getRuleInfoForKey_old _ _ hregK]
    exact ⟨toks4, m4, he4, hrun4, true,
      { post := hpost4.freeScanRecords, iter := Or.inr hit4, iterEq := by simp [freeScanRecords],
        valOk := fun _ => (by rw [freeScanRecords_rule_result]), valFail := fun h => (by cases h) }⟩


theorem buildWork_halted (key : Key) (s : State) :
    (buildWork key s).2.halted = (executeTasks key { emit .QC s with currentEpoch := (emit .QC s).currentEpoch + 1 }).2.halted := by
  unfold buildWork; rw [buildTail_halted]

theorem buildWork_sim {rules : List RuleSpec} (hloop : WorkLoopSpec rules) {key : Key} {s : State} {m : Engine.St}
    (hr : RelPre rules key false s m) (hh : s.halted = false) (hnh : (buildWork key s).2.halted = false) :
    ∃ toks m' b, Emits s toks (buildWork key s).2 ∧ trun (program rules) ⟨m, none⟩ toks = some ⟨m', none⟩ ∧
      PostOk rules key (buildWork key s) m' b := by
  rw [buildWork_halted] at hnh
  obtain ⟨m2, hstep2, hr2⟩ := prologue_QC hr hh
  have hsQ : ({ emit .QC s with currentEpoch := (emit .QC s).currentEpoch + 1 } : State) =
      { emit .QC s with currentEpoch := (emit .QC s).currentEpoch + 1, finishedInputRequests := [] } := by
    have : (emit .QC s).finishedInputRequests = [] := by simp [hr.noFinQ]
    rw [← this]
  unfold buildWork
  rw [hsQ] at hnh ⊢
  have heQ : Emits s [.QC]
      { emit .QC s with currentEpoch := (emit .QC s).currentEpoch + 1, finishedInputRequests := [] } := by
    rw [emit_QC _ hh]; simp [Emits]
  have hhQ : ({ emit .QC s with currentEpoch := (emit .QC s).currentEpoch + 1, finishedInputRequests := [] } : State).halted = false := by
    show (emit .QC s).halted = false
    simp [hh]
  obtain ⟨toks3, m3, he3, hrun3, hpost, hst3⟩ := executeTasks_sim hloop hr2 rfl hhQ hnh
  obtain ⟨toks4, m4, he4, hrun4, b, hp⟩ := buildTail_sim (key := key) hpost hst3 hnh
  refine ⟨[.QC] ++ toks3 ++ toks4, m4, b, (heQ.trans he3).trans he4, ?_, hp⟩
  refine trun_append_some (trun_append_some ?_ hrun3) hrun4
  exact trun_single (tstep_ev (by rfl) (by rfl) hstep2)

theorem buildPre_sim {rules : List RuleSpec} (hloop : WorkLoopSpec rules) {key : Key} {s : State} {m : Engine.St}
    (hr : RelPre rules key false s m) (hh : s.halted = false) (hnh : (buildPre key s).2.halted = false) :
    ∃ toks m' b, Emits s toks (buildPre key s).2 ∧ trun (program rules) ⟨m, none⟩ toks = some ⟨m', none⟩ ∧
      PostOk rules key (buildPre key s) m' b := by
  unfold buildPre at hnh ⊢
  simp only [hr.hasDB, if_true] at hnh ⊢
  obtain ⟨toks1, m1, he1, hrun1, hr1, hh1⟩ := prologue_DB hr hh
  by_cases hc : (emit .DB s).buildCancelled = true
  · simp only [hc, if_true] at hnh ⊢
    exact ⟨toks1, m1, false, he1, hrun1,
      { post := hr1.toPost hc, iter := Or.inl hr1.startedEq, iterEq := hr1.iterEq rfl,
        valOk := fun h => (by cases h), valFail := fun _ => rfl }⟩
  · simp only [hc, Bool.false_eq_true, if_false] at hnh ⊢
    obtain ⟨toks2, m2, b, he2, hrun2, hp⟩ := buildWork_sim hloop hr1 hh1 hnh
    exact ⟨toks1 ++ toks2, m2, b, he1.trans he2, trun_append_some hrun1 hrun2, hp⟩

/-- **Refinement for one build** (modulo the work loop): from `RelIdle`, a `runBuild` that does not halt
(no `FUEL`/`BAD`) emits a token trace the token monitor accepts, and ends in `RelIdle`. -/
theorem runBuild_sim {rules : List RuleSpec} (hloop : WorkLoopSpec rules) {s : State} {m : Engine.St}
    (hr : RelIdle rules s m) (key cancelAt : Nat) (sched : List SchedItem)
    (hnh : (runBuild key cancelAt sched s).halted = false) :
    ∃ m', trun (program rules) ⟨m, none⟩ (runBuild key cancelAt sched s).trace.reverse = some ⟨m', none⟩ ∧
      RelIdle rules (runBuild key cancelAt sched s) m' := by
  obtain ⟨toks1, m1, he1, hrun1, hr1, hh1⟩ := prologue_B hr key cancelAt sched
  have hnh0 : (closeOf (build key (emit (.B key) (buildInit cancelAt sched s)))).halted = false := by
    rw [← runBuild_eq0]; exact hnh
  have hnhP : (buildPre key (emit (.B key) (buildInit cancelAt sched s))).2.halted = false := by
    rw [build_eq] at hnh0
    unfold closeOf finishDB at hnh0
    rw [emit_halted_eq, emit_halted_eq] at hnh0
    simp only [] at hnh0
    split at hnh0
    · rwa [emit_halted_eq] at hnh0
    · exact hnh0
  obtain ⟨toks2, m2, b, he2, hrun2, hp⟩ := buildPre_sim hloop hr1 hh1 hnhP
  have hdb : (buildPre key (emit (.B key) (buildInit cancelAt sched s))).2.hasDB = true := hp.post.base.hasDB
  rw [runBuild_eq key cancelAt sched s hdb]
  obtain ⟨toks3, m3, he3, hrun3, hidle⟩ := epilogue_close hp.post hnhP hp.iter hp.iterEq hp.valOk hp.valFail
  refine ⟨m3, ?_, hidle⟩
  have hem := (he1.trans he2).trans he3
  unfold Emits at hem
  unfold closeBuild
  rw [hem]
  simp only [buildInit, List.append_nil, List.reverse_reverse]
  exact trun_append_some (trun_append_some hrun1 hrun2) hrun3

/-- … in the monitor's own vocabulary: the events of the build are accepted by `Engine.run`. -/
theorem runBuild_refines {rules : List RuleSpec} (hloop : WorkLoopSpec rules) {s : State} {m : Engine.St}
    (hr : RelIdle rules s m) (key cancelAt : Nat) (sched : List SchedItem)
    (hnh : (runBuild key cancelAt sched s).halted = false) :
    ∃ evs m', toEvents (runBuild key cancelAt sched s).trace.reverse = some evs ∧
      run (program rules) m evs = some m' ∧ RelIdle rules (runBuild key cancelAt sched s) m' := by
  obtain ⟨m', h1, h2⟩ := runBuild_sim hloop hr key cancelAt sched hnh
  obtain ⟨evs, h3, h4⟩ := trun_toEvents h1
  exact ⟨evs, m', h3, h4, h2⟩


/-! ## Histories -/

/-- the ops of the harness that the refinement covers (no `F`, no `K`, no mode-1 build; `P` only at the start) -/
inductive Op
  | wipe
  | restart
  | mutate (slot val : Nat)
  | build (key cancelAt : Nat) (sched : List SchedItem)

def runOp : Op → State → State
  | .wipe, s => opWipe s
  | .restart, s => opRestart s
  | .mutate a b, s => opMutate a b s
  | .build key cancelAt sched, s => runBuild key cancelAt sched s

/-- the monitor events of an op (`engineimplcheck` feeds exactly these) -/
def opEvents : Op → State → Option (List Event)
  | .wipe, _ => some [.wipe]
  | .restart, _ => some [.restart]
  | .mutate a b, _ => some [.mutate a b]
  | .build key cancelAt sched, s => toEvents (runBuild key cancelAt sched s).trace.reverse

/-- the op does not run into `FUEL` / `BAD …` -/
def opOk : Op → State → Prop
  | .build key cancelAt sched, s => (runBuild key cancelAt sched s).halted = false
  | _, _ => True

def runOps : List Op → State → State
  | [], s => s
  | op :: ops, s => runOps ops (runOp op s)

def histEvents : List Op → State → Option (List Event)
  | [], _ => some []
  | op :: ops, s => do
    let a ← opEvents op s
    let b ← histEvents ops (runOp op s)
    some (a ++ b)

def histOk : List Op → State → Prop
  | [], _ => True
  | op :: ops, s => opOk op s ∧ histOk ops (runOp op s)

/-- **refinement_op** -/
theorem refinement_op {rules : List RuleSpec} (hloop : WorkLoopSpec rules) {s : State} {m : Engine.St}
    (hr : RelIdle rules s m) (op : Op) (hok : opOk op s) :
    ∃ evs m', opEvents op s = some evs ∧ run (program rules) m evs = some m' ∧ RelIdle rules (runOp op s) m' := by
  cases op with
  | wipe =>
    obtain ⟨m', h1, h2⟩ := hr.wipe (program rules)
    exact ⟨[.wipe], m', rfl, by simp [run, h1], h2⟩
  | restart =>
    obtain ⟨m', h1, h2⟩ := hr.restart (program rules)
    exact ⟨[.restart], m', rfl, by simp [run, h1], h2⟩
  | mutate a b =>
    obtain ⟨m', h1, h2⟩ := hr.mutate (program rules) a b
    exact ⟨[.mutate a b], m', rfl, by simp [run, h1], h2⟩
  | build key cancelAt sched => exact runBuild_refines hloop hr key cancelAt sched hok

/-- **refinement_history**: every history of ops from related states is accepted by the monitor -/
theorem refinement_history {rules : List RuleSpec} (hloop : WorkLoopSpec rules) :
    ∀ (ops : List Op) (s : State) (m : Engine.St), RelIdle rules s m → histOk ops s →
      ∃ evs m', histEvents ops s = some evs ∧ run (program rules) m evs = some m' ∧ RelIdle rules (runOps ops s) m'
  | [], s, m, hr, _ => ⟨[], m, rfl, rfl, hr⟩
  | op :: ops, s, m, hr, hok => by
    obtain ⟨evs1, m1, h1, h2, h3⟩ := refinement_op hloop hr op hok.1
    obtain ⟨evs2, m2, h4, h5, h6⟩ := refinement_history hloop ops (runOp op s) m1 h3 hok.2
    refine ⟨evs1 ++ evs2, m2, ?_, ?_, h6⟩
    · simp [histEvents, h1, h4]
    · rw [run_append, h2]; simpa using h5

/-- … from the very beginning: op `P rules` on a fresh harness, then any history; the events form a run
`Engine.run (program rules) {} evs = some m'` — the hypothesis of every C01–C07 theorem. -/
theorem refinement_from_start {rules : List RuleSpec} (hloop : WorkLoopSpec rules) (ops : List Op)
    (hok : histOk ops (opProgram rules {})) :
    ∃ evs m', histEvents ops (opProgram rules {}) = some evs ∧ run (program rules) {} evs = some m' ∧
      RelIdle rules (runOps ops (opProgram rules {})) m' :=
  refinement_history hloop ops _ _ (RelIdle.init rules) hok

end LLBuild.Refine
