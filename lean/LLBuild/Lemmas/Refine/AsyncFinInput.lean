/-
IM4 — free-running completion threads at item granularity, section C: `finishedInputsLoopA` (notes/REFINE.md §9;
definitions `Async0.lean`; the four facts about one asynchronous step are HYPOTHESES: `AsyncSpec.lean`).
 (N) `finishedInputsLoopA_nil`   with the empty schedule the loop is the model's `finishedInputsLoop`;
 (R) `finishedInputsLoopA_sim`   refinement (post: `finishedInputRequests = []`, `NoMid`);
 (X) `finishedInputsLoopA_aux`   the loop-level facts `Aux`;
 (T) `finishedInputsLoopA_nohalt` / `finishedInputsLoopA_term`  no halt with `fuel > Phi`; the potential drops by 1 when the
     flag goes from `false` to `true`.
No hypothesis is left besides `RulesOk` and the four `AsyncStep…` statements (`issue_sim`, `endIssue`, `issue_term_U` are
the proved ones).  Each proof is the old induction on the fuel with one `asyncPoint` per iteration (`asyncPoint_run/_aux/_term`)
followed by the body (`finBody`).
-/
import LLBuild.Lemmas.Refine.FinInput
import LLBuild.Lemmas.Refine.TermFinInput
import LLBuild.Lemmas.Refine.TermDemand
import LLBuild.Lemmas.Refine.AsyncSpec

namespace LLBuild.Refine
open LLBuild.Engine LLBuild.Engine.DSL LLBuild.EngineImpl

/-! ## unfolding -/

theorem finishedInputsLoopA_zero (w : Bool) (a : Async) (s : State) :
    finishedInputsLoopA 0 w a s = (w, a, halt .FUEL s) := rfl

theorem finishedInputsLoopA_succ (fuel : Nat) (w : Bool) (a : Async) (s : State) :
    finishedInputsLoopA (fuel + 1) w a s =
      match (asyncPoint a s).2.finishedInputRequests.getLast? with
      | none => (w, (asyncPoint a s).1, (asyncPoint a s).2)
      | some request =>
        match request.taskInfo with
        | none => (true, (asyncPoint a s).1, halt (.BAD "finished-dummy-request")
            { (asyncPoint a s).2 with finishedInputRequests := (asyncPoint a s).2.finishedInputRequests.dropLast })
        | some task =>
          finishedInputsLoopA fuel true (asyncPoint a s).1
            (finishedInputStep task request
              { (asyncPoint a s).2 with finishedInputRequests := (asyncPoint a s).2.finishedInputRequests.dropLast }) := rfl

theorem asyncPoint_nil (s : State) : asyncPoint [] s = ([], s) := rfl

/-- (N) with the empty schedule the asynchronous loop IS the model's loop -/
theorem finishedInputsLoopA_nil : ∀ (fuel : Nat) (w : Bool) (s : State),
    finishedInputsLoopA fuel w [] s = ((finishedInputsLoop fuel w s).1, [], (finishedInputsLoop fuel w s).2)
  | 0, w, s => rfl
  | fuel + 1, w, s => by
    rw [finishedInputsLoopA_succ, finishedInputsLoop_succ, asyncPoint_nil]
    cases s.finishedInputRequests.getLast? with
    | none => rfl
    | some request =>
      simp only
      cases request.taskInfo with
      | none => rfl
      | some task => simp only; exact finishedInputsLoopA_nil fuel true _

theorem finishedInputsLoopA_true : ∀ (fuel : Nat) (a : Async) (s : State), (finishedInputsLoopA fuel true a s).1 = true
  | 0, _, _ => rfl
  | fuel + 1, a, s => by
    rw [finishedInputsLoopA_succ]
    cases (asyncPoint a s).2.finishedInputRequests.getLast? with
    | none => rfl
    | some request =>
      simp only
      cases request.taskInfo with
      | none => rfl
      | some task => simp only; exact finishedInputsLoopA_true fuel _ _

/-! ## the item boundary -/

/-- one item boundary under `Rel`: accepted by the monitor, not halted, `Rel` again; queue and `NoMid` untouched -/
theorem asyncPoint_run (hS : AsyncStepSim) (hF : AsyncStepFrame) {rules : List RuleSpec} (hok : RulesOk rules)
    (a : Async) {s : State} {ms : MSt} (hr : Rel rules s ms {}) (hp : ms.pend = none) (hh : s.halted = false) :
    ∃ toks ms1, Emits s toks (asyncPoint a s).2 ∧ trun (program rules) ms toks = some ms1 ∧
      Rel rules (asyncPoint a s).2 ms1 {} ∧ ms1.pend = none ∧ RegMono s (asyncPoint a s).2 ∧ ms1.m.target = ms.m.target ∧
      (asyncPoint a s).2.halted = false ∧ (NoMid s → NoMid (asyncPoint a s).2) ∧
      (asyncPoint a s).2.finishedInputRequests = s.finishedInputRequests := by
  cases a with
  | nil => exact ⟨[], ms, Emits.refl s, rfl, hr, hp, fun _ x => x, rfl, hh, id, rfl⟩
  | cons it rest =>
    obtain ⟨h1, h2⟩ := hS rules hok it s ms hr hp hh
    obtain ⟨toks, ms1, b1, b2, b3, b4, b5, b6, _⟩ := h2 h1
    obtain ⟨_, _, f3, _, _, _, _, _, f9, _⟩ := hF it s
    exact ⟨toks, ms1, b1, b2, b3, b4, b5, b6, h1, f9, f3⟩

theorem asyncPoint_aux (hA : AsyncStepAux) {rules : List RuleSpec} (a : Async) {s : State} {ms : MSt} {key : Key}
    (hr : Rel rules s ms {}) (hp : ms.pend = none) (hh : s.halted = false) (haux : Aux key s {}) :
    Aux key (asyncPoint a s).2 {} := by
  cases a with
  | nil => exact haux
  | cons it rest => exact hA rules it s ms key hr hp hh haux

theorem asyncPoint_term_fininput (hT : AsyncStepTerm) {rules : List RuleSpec} {U : List Key} (a : Async) {s : State} {ms : MSt}
    (hr : Rel rules s ms {}) (hp : ms.pend = none) (hh : s.halted = false) (hc : ClosedU rules U s) :
    TermStep rules U s {} (asyncPoint a s).2 {} 0 := by
  cases a with
  | nil => exact ⟨hc, Nat.le_refl _⟩
  | cons it rest => exact (hT rules U it s ms hr hp hh hc).weaken (Nat.zero_le _)

/-! ## the body of one iteration -/

/-- the body of an iteration that finds a finished request: the request belongs to a task (`Rel.dummyUnproc`), the body
does not halt, refines the monitor, keeps `Aux`, and the potential drops by 1 -/
theorem finBody {rules : List RuleSpec} (hok : RulesOk rules) {s : State} {ms : MSt} {request : TaskInputRequest}
    (hr : Rel rules s ms {}) (hp : ms.pend = none) (hh : s.halted = false) (hnm : NoMid s)
    (hgl : s.finishedInputRequests.getLast? = some request) :
    ∃ task, request.taskInfo = some task ∧
      (finishedInputStep task request { s with finishedInputRequests := s.finishedInputRequests.dropLast }).halted = false ∧
      Sim rules s ms (finishedInputStep task request { s with finishedInputRequests := s.finishedInputRequests.dropLast }) {}
        (fun _ => NoMid (finishedInputStep task request { s with finishedInputRequests := s.finishedInputRequests.dropLast })) ∧
      (∀ key, Aux key s {} →
        Aux key (finishedInputStep task request { s with finishedInputRequests := s.finishedInputRequests.dropLast }) {}) ∧
      (∀ U, ClosedU rules U s → TermStep rules U s {}
        (finishedInputStep task request { s with finishedInputRequests := s.finishedInputRequests.dropLast }) {} 1) := by
  obtain ⟨l, hl⟩ := List.getLast?_eq_some_iff.1 hgl
  have hdl : s.finishedInputRequests.dropLast = l := by rw [hl]; simp
  rw [hdl]
  cases hti : request.taskInfo with
  | none =>
    exfalso
    apply hr.dummyUnproc request _ hti
    unfold processed
    rw [hl]
    exact List.mem_append_right _ (List.mem_append_right _ (List.mem_singleton.2 rfl))
  | some task =>
    have hr0 := hr.popFin hl
    have hh2 := finishedInputStep_nohalt hok hr0 hp hh hti hnm
    have hsim : Sim rules s ms (finishedInputStep task request { s with finishedInputRequests := l }) {}
        (fun _ => NoMid (finishedInputStep task request { s with finishedInputRequests := l })) :=
      finishedInputStep_sim issue_sim endIssue rules hok { s with finishedInputRequests := l } ms request task
        hr0 hp hh hti hnm
    refine ⟨task, rfl, hh2, hsim, ?_, ?_⟩
    · intro key haux
      have haux0 : Aux key { s with finishedInputRequests := l } { fin := [request] } := ⟨haux.readyZero, haux.rootSeen⟩
      exact (finishedInputStep_aux_core hr0.tasksKeyed hh2 haux0).1
    · intro U hc
      obtain ⟨c1, c2⟩ := finishedInputStep_term hok hr0 hp hh hti hnm (hc.popFin l) issue_term_U
      refine ⟨c1, ?_⟩
      rw [← Phi_popFin_fininput rules U s l request hl]
      exact c2

/-! ## (R) refinement -/

/-- **(R) `finishedInputsLoopA` refines the monitor**, for every asynchronous schedule -/
theorem finishedInputsLoopA_sim (hS : AsyncStepSim) (hF : AsyncStepFrame) (_hA : AsyncStepAux) (_hT : AsyncStepTerm) :
    ∀ rules, RulesOk rules → ∀ (fuel : Nat) (w : Bool) (a : Async) (s : State) (ms : MSt),
    Rel rules s ms {} → ms.pend = none → s.halted = false → NoMid s →
    Sim rules s ms (finishedInputsLoopA fuel w a s).2.2 {} (fun _ =>
      (finishedInputsLoopA fuel w a s).2.2.finishedInputRequests = [] ∧ NoMid (finishedInputsLoopA fuel w a s).2.2) := by
  intro rules hok fuel
  induction fuel with
  | zero =>
    intro w a s ms _ _ _ _ hfin
    rw [finishedInputsLoopA_zero] at hfin
    simp only at hfin
    rw [halt_halted] at hfin; cases hfin
  | succ fuel ih =>
    intro w a s ms hr hp hh hnm
    rw [finishedInputsLoopA_succ]
    obtain ⟨toks0, ms1, e1, e2, e3, e4, e5, e6, e7, e8, _⟩ := asyncPoint_run hS hF hok a hr hp hh
    have hnm1 := e8 hnm
    generalize asyncPoint a s = p at *
    obtain ⟨a1, s1⟩ := p
    simp only at e1 e3 e5 e7 hnm1 ⊢
    apply Sim.prepend e1 e2 e5 e6
    cases hgl : s1.finishedInputRequests.getLast? with
    | none =>
      simp only
      have he : s1.finishedInputRequests = [] := List.getLast?_eq_none_iff.1 hgl
      intro _
      exact ⟨[], ms1, Emits.refl s1, rfl, e3, e4, fun _ x => x, rfl, he, hnm1⟩
    | some request =>
      obtain ⟨task, hti, hh2, hsim, _, _⟩ := finBody hok e3 e4 e7 hnm1 hgl
      simp only [hti]
      obtain ⟨toks2, ms2, b1, b2, b3, b4, b5, b6, b7⟩ := hsim hh2
      exact Sim.prepend b1 b2 b5 b6 (ih true a1 _ ms2 b3 b4 hh2 b7)

/-! ## (X) `Aux` -/

/-- **(X) `Aux` through `finishedInputsLoopA`** -/
theorem finishedInputsLoopA_aux (hS : AsyncStepSim) (hF : AsyncStepFrame) (hA : AsyncStepAux) (_hT : AsyncStepTerm)
    {rules : List RuleSpec} (hok : RulesOk rules) {key : Key} :
    ∀ (fuel : Nat) (w : Bool) (a : Async) (s : State) (ms : MSt),
    Rel rules s ms {} → ms.pend = none → s.halted = false → NoMid s →
    (finishedInputsLoopA fuel w a s).2.2.halted = false → Aux key s {} → Aux key (finishedInputsLoopA fuel w a s).2.2 {}
  | 0, w, a, s, _, _, _, _, _, hfin, _ => by
    rw [finishedInputsLoopA_zero] at hfin
    simp only at hfin
    rw [halt_halted] at hfin; cases hfin
  | fuel + 1, w, a, s, ms, hr, hp, hh, hnm, hfin, haux => by
    rw [finishedInputsLoopA_succ] at hfin ⊢
    obtain ⟨toks0, ms1, _, _, e3, e4, _, _, e7, e8, _⟩ := asyncPoint_run hS hF hok a hr hp hh
    have hnm1 := e8 hnm
    have haux1 := asyncPoint_aux hA a hr hp hh haux
    generalize asyncPoint a s = p at *
    obtain ⟨a1, s1⟩ := p
    simp only at e3 e7 hnm1 haux1 hfin ⊢
    cases hgl : s1.finishedInputRequests.getLast? with
    | none => simp only; exact haux1
    | some request =>
      obtain ⟨task, hti, hh2, hsim, hx, _⟩ := finBody hok e3 e4 e7 hnm1 hgl
      rw [hgl] at hfin
      simp only [hti] at hfin ⊢
      obtain ⟨_, ms2, _, _, b3, b4, _, _, b7⟩ := hsim hh2
      exact finishedInputsLoopA_aux hS hF hA _hT hok fuel true a1 _ ms2 b3 b4 hh2 b7 hfin (hx key haux1)

/-! ## (T) termination -/

/-- **(T) `finishedInputsLoopA`: no halt with `fuel > Phi`; the potential drops when the flag goes from `false` to `true`** -/
theorem finishedInputsLoopA_run (hS : AsyncStepSim) (hF : AsyncStepFrame) (_hA : AsyncStepAux) (hT : AsyncStepTerm)
    {rules : List RuleSpec} (hok : RulesOk rules) {U : List Key} :
    ∀ (fuel : Nat) (w : Bool) (a : Async) (s : State) (ms : MSt),
    Rel rules s ms {} → ms.pend = none → s.halted = false → NoMid s → ClosedU rules U s → Phi rules U s {} < fuel →
    (finishedInputsLoopA fuel w a s).2.2.halted = false ∧
    TermStep rules U s {} (finishedInputsLoopA fuel w a s).2.2 {}
      (if w = false ∧ (finishedInputsLoopA fuel w a s).1 = true then 1 else 0)
  | 0, _, _, _, _, _, _, _, _, _, hlt => by omega
  | fuel + 1, w, a, s, ms, hr, hp, hh, hnm, hc, hlt => by
    rw [finishedInputsLoopA_succ]
    obtain ⟨toks0, ms1, _, _, e3, e4, _, _, e7, e8, _⟩ := asyncPoint_run hS hF hok a hr hp hh
    have hnm1 := e8 hnm
    obtain ⟨hc1, hle1⟩ := asyncPoint_term_fininput hT a hr hp hh hc
    generalize asyncPoint a s = p at *
    obtain ⟨a1, s1⟩ := p
    simp only at e3 e7 hnm1 hc1 hle1 ⊢
    cases hgl : s1.finishedInputRequests.getLast? with
    | none =>
      simp only
      refine ⟨e7, hc1, ?_⟩
      have : ¬ (w = false ∧ w = true) := by intro ⟨x, y⟩; rw [x] at y; cases y
      simp only [this, if_false]
      omega
    | some request =>
      obtain ⟨task, hti, hh2, hsim, _, ht⟩ := finBody hok e3 e4 e7 hnm1 hgl
      simp only [hti]
      obtain ⟨_, ms2, _, _, b3, b4, _, _, b7⟩ := hsim hh2
      obtain ⟨hc2, hle2⟩ := ht U hc1
      obtain ⟨hh3, hc3, hle3⟩ :=
        finishedInputsLoopA_run hS hF _hA hT hok fuel true a1 _ ms2 b3 b4 hh2 b7 hc2 (by omega)
      refine ⟨hh3, hc3, ?_⟩
      have : (if w = false ∧ (finishedInputsLoopA fuel true a1
          (finishedInputStep task request { s1 with finishedInputRequests := s1.finishedInputRequests.dropLast })).1 = true
          then 1 else 0) ≤ 1 := by split <;> omega
      omega

/-- (T1) -/
theorem finishedInputsLoopA_nohalt (hS : AsyncStepSim) (hF : AsyncStepFrame) (hA : AsyncStepAux) (hT : AsyncStepTerm)
    {rules : List RuleSpec} (hok : RulesOk rules) {U : List Key} {fuel : Nat} {w : Bool} {a : Async} {s : State} {ms : MSt}
    (hr : Rel rules s ms {}) (hp : ms.pend = none) (hh : s.halted = false) (hnm : NoMid s) (hc : ClosedU rules U s)
    (hlt : Phi rules U s {} < fuel) : (finishedInputsLoopA fuel w a s).2.2.halted = false :=
  (finishedInputsLoopA_run hS hF hA hT hok fuel w a s ms hr hp hh hnm hc hlt).1

/-- (T2) -/
theorem finishedInputsLoopA_term (hS : AsyncStepSim) (hF : AsyncStepFrame) (hA : AsyncStepAux) (hT : AsyncStepTerm)
    {rules : List RuleSpec} (hok : RulesOk rules) {U : List Key} {fuel : Nat} {w : Bool} {a : Async} {s : State} {ms : MSt}
    (hr : Rel rules s ms {}) (hp : ms.pend = none) (hh : s.halted = false) (hnm : NoMid s) (hc : ClosedU rules U s)
    (hlt : Phi rules U s {} < fuel) :
    TermStep rules U s {} (finishedInputsLoopA fuel w a s).2.2 {}
      (if w = false ∧ (finishedInputsLoopA fuel w a s).1 = true then 1 else 0) :=
  (finishedInputsLoopA_run hS hF hA hT hok fuel w a s ms hr hp hh hnm hc hlt).2

end LLBuild.Refine
