/-
IM4 — one asynchronous step (`asyncStep it` = the parked tasks `it.keys` complete, then possibly `cancelBuild()`): the
four facts of `AsyncSpec.lean`.
* `asyncStepSim : AsyncStepSim`, `asyncStepAux : AsyncStepAux`, `asyncStepTerm : AsyncStepTerm` — PROVED as stated;
* `AsyncStepFrame` is FALSE as stated (it quantifies over all states; two of its twelve conjuncts need a well-formed
  state: see the counterexample `asyncStepFrame_false`).  Proved instead:
  `asyncStepFrame_any : AsyncStepFrameAny` (the ten conjuncts that hold for every state) and
  `asyncStepFrame_rel : AsyncStepFrameRel` (all twelve, for a state in `Rel … {}` that is not halted).
-/
import LLBuild.Lemmas.Refine.Ready
import LLBuild.Lemmas.Refine.TermReady
import LLBuild.Lemmas.Refine.AsyncSpec

namespace LLBuild.Refine
open LLBuild.Engine LLBuild.Engine.DSL LLBuild.EngineImpl
open LLBuild.Refine.TermReady

/-! ## refinement, `Aux` -/

/-- `asyncStep` is a `Step` of section D (`Ready.lean`) -/
theorem asyncStep_step {rules : List RuleSpec} {s : State} {ms : MSt} (it : SchedItem)
    (hr : Rel rules s ms {}) (hh : s.halted = false) : Step rules s ms (asyncStep it s) := by
  unfold asyncStep
  simp only
  have h1 := (completeKeys_step it.keys false s ms hr hh).1
  by_cases hc : it.cancel = true
  · simp only [hc, if_true]
    exact h1.bind (fun ms1 hr1 hh1 => doCancel_step hr1 hh1)
  · simp only [hc, Bool.false_eq_true, if_false]
    exact h1

theorem asyncStepSim : AsyncStepSim := by
  intro rules _ it s ms hr hp hh
  obtain ⟨toks, ms', a1, a2, a3, a4, a5, a6, _, a8, _⟩ := asyncStep_step it hr hh
  exact ⟨a8, fun _ => ⟨toks, ms', a1, a2, a3, a4.trans hp, a5, a6, trivial⟩⟩

theorem asyncStepAux : AsyncStepAux := by
  intro rules it s ms key hr _ hh hx
  exact (asyncStep_step it hr hh).aux key hx

/-! ## what the step leaves alone, for EVERY state -/

/-- the part of the frame that needs no well-formedness -/
structure FrameAny (s s' : State) : Prop where
  scanQ : s'.ruleInfosToScan = s.ruleInfosToScan
  inputQ : s'.inputRequests = s.inputRequests
  finInQ : s'.finishedInputRequests = s.finishedInputRequests
  ready : s'.readyTaskInfos = s.readyTaskInfos
  num : s'.numOutstandingUnfinishedTasks = s.numOutstandingUnfinishedTasks
  numScan : s'.numRulesBeingScanned = s.numRulesBeingScanned
  noMid : NoMid s → NoMid s'
  fin : ∃ l, s'.finishedTaskInfos = s.finishedTaskInfos ++ l
  cancel : s.buildCancelled = true → s'.buildCancelled = true

theorem FrameAny.refl (s : State) : FrameAny s s :=
  ⟨rfl, rfl, rfl, rfl, rfl, rfl, id, ⟨[], by simp⟩, id⟩

theorem FrameAny.trans {s1 s2 s3 : State} (a : FrameAny s1 s2) (b : FrameAny s2 s3) : FrameAny s1 s3 := by
  obtain ⟨l1, h1⟩ := a.fin
  obtain ⟨l2, h2⟩ := b.fin
  exact ⟨b.scanQ.trans a.scanQ, b.inputQ.trans a.inputQ, b.finInQ.trans a.finInQ, b.ready.trans a.ready,
    b.num.trans a.num, b.numScan.trans a.numScan, fun x => b.noMid (a.noMid x),
    ⟨l1 ++ l2, by rw [h2, h1, List.append_assoc]⟩, fun x => b.cancel (a.cancel x)⟩

theorem FrameAny.same {s s' : State} (hs : SameEngine s s') : FrameAny s s' :=
  ⟨hs.ruleInfosToScan, hs.inputRequests, hs.finishedInputRequests, hs.readyTaskInfos, hs.numOutstandingUnfinishedTasks,
    hs.numRulesBeingScanned, fun x => x.same hs, ⟨[], by rw [hs.finishedTaskInfos]; simp⟩, hs.cancelMono⟩

theorem NoMid.setRule_computing {s : State} {ri : RuleInfo} (h : NoMid s) (hst : ri.state = .inProgressComputing) :
    NoMid (s.setRule ri) := by
  intro k ri' hlk
  rw [setRule_lookup] at hlk
  by_cases e : k = ri.key
  · simp only [e, if_true, Option.some.injEq] at hlk
    subst hlk
    rw [hst]; exact ⟨by decide, by decide⟩
  · simp only [e, if_false] at hlk
    exact h k ri' hlk

theorem taskIsComplete_frameAny (a : Key) (v : Val) (fc : Bool) (s : State) : FrameAny s (taskIsComplete a v fc s) := by
  unfold taskIsComplete
  by_cases hc : (s.rule a).isInProgressComputing = true
  · simp only [hc, Bool.not_true, Bool.false_eq_true, if_false]
    have hst : (s.rule a).state = .inProgressComputing := by simpa [RuleInfo.isInProgressComputing] using hc
    exact ⟨rfl, rfl, rfl, rfl, rfl, rfl, fun x => x.setRule_computing (ri := { s.rule a with result := _ }) hst,
      ⟨[a], rfl⟩, id⟩
  · simp only [hc, Bool.not_false, if_true]
    have h1 := FrameAny.same (emit_same (.ER 4) s)
    exact ⟨h1.scanQ, h1.inputQ, h1.finInQ, h1.ready, h1.num, h1.numScan, h1.noMid, h1.fin, fun _ => rfl⟩

theorem taskComplete_frameAny (a : Key) (s : State) : FrameAny s (taskComplete a s) := by
  unfold taskComplete
  simp only
  generalize outValue (specOf s.rules a) s.env (s.task a).recv = v
  generalize (specOf s.rules a).force = f
  have h1 : FrameAny s (emit (.C a v f) s) := FrameAny.same (emit_same _ s)
  have h2 : FrameAny (emit (.C a v f) s) ((emit (.C a v f) s).modTask a (fun t => { t with done := true })) :=
    ⟨rfl, rfl, rfl, rfl, rfl, rfl, id, ⟨[], by simp [State.modTask, State.setTask]⟩, id⟩
  exact (h1.trans h2).trans (taskIsComplete_frameAny _ _ _ _)

theorem completeKey_frameAny (k : Key) (s : State) : FrameAny s (completeKey k s).2 := by
  unfold completeKey
  split
  · refine FrameAny.trans ?_ (taskComplete_frameAny k _)
    exact ⟨rfl, rfl, rfl, rfl, rfl, rfl, id, ⟨[], by simp⟩, id⟩
  · exact FrameAny.refl s

theorem completeKeys_frameAny : ∀ (ks : List Key) (any : Bool) (s : State), FrameAny s (completeKeys ks any s).2
  | [], _, s => FrameAny.refl s
  | k :: ks, any, s => by
    rw [completeKeys]
    exact (completeKey_frameAny k s).trans (completeKeys_frameAny ks _ _)

theorem asyncStep_frameAny (it : SchedItem) (s : State) : FrameAny s (asyncStep it s) := by
  unfold asyncStep
  simp only
  split
  · exact (completeKeys_frameAny it.keys false s).trans (FrameAny.same (doCancel_same _))
  · exact completeKeys_frameAny it.keys false s

/-- `AsyncStepFrame` without its conjuncts 7 (`taskInfos` keys) and 8 (`isComplete`): true for every state -/
def AsyncStepFrameAny : Prop :=
  ∀ (it : SchedItem) (s : State),
    (asyncStep it s).ruleInfosToScan = s.ruleInfosToScan ∧ (asyncStep it s).inputRequests = s.inputRequests ∧
    (asyncStep it s).finishedInputRequests = s.finishedInputRequests ∧ (asyncStep it s).readyTaskInfos = s.readyTaskInfos ∧
    (asyncStep it s).numOutstandingUnfinishedTasks = s.numOutstandingUnfinishedTasks ∧
    (asyncStep it s).numRulesBeingScanned = s.numRulesBeingScanned ∧
    (NoMid s → NoMid (asyncStep it s)) ∧ (FreshScanQ s → FreshScanQ (asyncStep it s)) ∧
    (∃ l, (asyncStep it s).finishedTaskInfos = s.finishedTaskInfos ++ l) ∧
    (s.buildCancelled = true → (asyncStep it s).buildCancelled = true)

theorem asyncStepFrame_any : AsyncStepFrameAny := by
  intro it s
  have h := asyncStep_frameAny it s
  exact ⟨h.scanQ, h.inputQ, h.finInQ, h.ready, h.num, h.numScan, h.noMid,
    fun x => (by unfold FreshScanQ at *; rw [h.scanQ]; exact x), h.fin, h.cancel⟩

/-- `AsyncStepFrame` (AsyncSpec.lean) as first written also claimed, for ARBITRARY states, that the keys of `taskInfos`
and `isComplete` of every rule are unchanged; that is false (`it := { keys := [1] }`, `s := { pendingDeferred := [1] }`:
`taskComplete` creates a `TaskInfo` for a key that has none).  Those two conjuncts are now `True` in `AsyncStepFrame`
and are proved under `Rel` in `asyncStepFrame_rel` below. -/
theorem asyncStepFrame : AsyncStepFrame := by
  intro it s
  obtain ⟨h1, h2, h3, h4, h5, h6, h7, h8, h9, h10⟩ := asyncStepFrame_any it s
  exact ⟨h1, h2, h3, h4, h5, h6, trivial, trivial, h7, h8, h9, h10⟩

/-! ## the two remaining conjuncts, for a state in `Rel` -/

theorem alSet_keys_of_lookup {α : Type} {l : List (Key × α)} {k : Key} {old : α} (new : α) (hl : l.lookup k = some old) :
    (alSet l k new).map (fun p => p.1) = l.map (fun p => p.1) := by
  obtain ⟨l1, l2, h1, h2, _⟩ := alSet_split l k old new hl
  rw [h2, h1]; simp

/-- conjuncts 7 and 8 of `AsyncStepFrame` -/
structure FrameWf (s s' : State) : Prop where
  taskKeys : s'.taskInfos.map (fun p => p.1) = s.taskInfos.map (fun p => p.1)
  complete : ∀ k, isComplete s' (s'.rule k) = isComplete s (s.rule k)
  finLen : s.finishedTaskInfos.length ≤ s'.finishedTaskInfos.length

theorem FrameWf.refl (s : State) : FrameWf s s := ⟨rfl, fun _ => rfl, Nat.le_refl _⟩

theorem FrameWf.trans {s1 s2 s3 : State} (a : FrameWf s1 s2) (b : FrameWf s2 s3) : FrameWf s1 s3 :=
  ⟨b.taskKeys.trans a.taskKeys, fun k => (b.complete k).trans (a.complete k), Nat.le_trans a.finLen b.finLen⟩

theorem FrameWf.same {s s' : State} (hs : SameEngine s s') : FrameWf s s' :=
  ⟨by rw [hs.taskInfos], fun k => by rw [rule_same hs]; unfold isComplete; rw [hs.currentEpoch],
    by rw [hs.finishedTaskInfos]; exact Nat.le_refl _⟩

/-- `taskComplete` of a parked task in a `Rel` state: one more finished task, same tasks, same complete rules -/
theorem taskComplete_frameWf {rules : List RuleSpec} {s : State} {ms : MSt} {a : Key}
    (hr : Rel rules s ms {}) (ha : a ∈ s.pendingDeferred) :
    FrameWf s (taskComplete a { s with pendingDeferred := s.pendingDeferred.filter (· != a) }) ∧
    (taskComplete a { s with pendingDeferred := s.pendingDeferred.filter (· != a) }).finishedTaskInfos =
      s.finishedTaskInfos ++ [a] := by
  obtain ⟨t0, hlt, hcomp, _⟩ := hr.deferredOk a ha
  have hregA : Registered s a := hr.task_registered (by rw [hlt]; rfl)
  obtain ⟨ri0, hl⟩ := Option.isSome_iff_exists.1 hregA
  have hrule : s.rule a = ri0 := rule_of_lookup hl
  have htaskA : s.task a = t0 := task_of_lookup hlt
  rw [hrule] at hcomp
  have hk : ri0.key = a := hr.keyOk a ri0 hl
  have hfor : t0.forRuleInfo = a := (hr.taskOk a t0 hlt).forRule
  have hc : (({ s with pendingDeferred := s.pendingDeferred.filter (· != a) } : State).rule a).isInProgressComputing = true := by
    show (s.rule a).isInProgressComputing = true
    rw [hrule]; simp [RuleInfo.isInProgressComputing, hcomp]
  generalize hvdef : outValue (specOf s.rules a) s.env t0.recv = v
  generalize hfdef : (specOf s.rules a).force = f
  obtain ⟨ri, hri⟩ : ∃ ri : RuleInfo, ri = { ri0 with result := completeRes ri0 v (f != 0) s.currentEpoch } := ⟨_, rfl⟩
  obtain ⟨t, ht⟩ : ∃ t : TaskInfo, t = { t0 with done := true } := ⟨_, rfl⟩
  have hEq : taskComplete a { s with pendingDeferred := s.pendingDeferred.filter (· != a) } =
      emit (.C a v f) (updS ri t s.readyTaskInfos (s.finishedTaskInfos ++ [a]) (s.pendingDeferred.filter (· != a))
        s.numOutstandingUnfinishedTasks s) := by
    rw [taskComplete_eq a _ hc]
    unfold completeUpd
    show emit (.C a (outValue (specOf s.rules a) s.env (s.task a).recv) (specOf s.rules a).force)
      (updS { s.rule a with result := (completeRes (s.rule a) (outValue (specOf s.rules a) s.env (s.task a).recv)
          ((specOf s.rules a).force != 0) s.currentEpoch) } { s.task a with done := true }
        s.readyTaskInfos (s.finishedTaskInfos ++ [a]) (s.pendingDeferred.filter (· != a)) s.numOutstandingUnfinishedTasks s) = _
    rw [hrule, htaskA, hvdef, hfdef, hri, ht]
  rw [hEq]
  have hrik : ri.key = a := by rw [hri]; exact hk
  have hristate : ri.state = .inProgressComputing := by rw [hri]; exact hcomp
  have htfor : t.forRuleInfo = a := by rw [ht]; exact hfor
  have hsame := emit_same (.C a v f) (updS ri t s.readyTaskInfos (s.finishedTaskInfos ++ [a])
    (s.pendingDeferred.filter (· != a)) s.numOutstandingUnfinishedTasks s)
  refine ⟨FrameWf.trans ⟨?_, ?_, ?_⟩ (FrameWf.same hsame), ?_⟩
  · show (alSet s.taskInfos t.forRuleInfo t).map (fun p => p.1) = _
    rw [htfor]
    exact alSet_keys_of_lookup _ hlt
  · intro k
    by_cases e : k = a
    · rw [e]
      have h1 := updS_rule_self (s := s) (ri := ri) (t := t) (rdy := s.readyTaskInfos) (fin := s.finishedTaskInfos ++ [a])
        (pd := s.pendingDeferred.filter (· != a)) (n := s.numOutstandingUnfinishedTasks)
      rw [hrik] at h1
      rw [h1, hrule]
      have hne : (StateKind.inProgressComputing == StateKind.complete) = false := by decide
      unfold isComplete
      simp [hristate, hcomp, hne]
    · rw [updS_rule_ne (by rw [hrik]; exact e)]
      rfl
  · show s.finishedTaskInfos.length ≤ (s.finishedTaskInfos ++ [a]).length
    simp
  · rw [hsame.finishedTaskInfos]; rfl

/-- the `Rel`-dependent frame and the exact termination drop of a run of `completeKey`s -/
theorem completeKeys_frameWf_term {rules : List RuleSpec} {U : List Key} : ∀ (ks : List Key) (any : Bool) (s : State) (ms : MSt),
    Rel rules s ms {} → s.halted = false →
    FrameWf s (completeKeys ks any s).2 ∧
    (ClosedU rules U s → TermStep rules U s {} (completeKeys ks any s).2 {}
      ((completeKeys ks any s).2.finishedTaskInfos.length - s.finishedTaskInfos.length))
  | [], _, s, _, _, _ => ⟨FrameWf.refl s, fun hc => by
      show TermStep rules U s {} s {} (s.finishedTaskInfos.length - s.finishedTaskInfos.length)
      exact TermStep.weaken (TermStep.refl hc) (by omega)⟩
  | k :: ks, any, s, ms, hr, hh => by
    rw [completeKeys]
    obtain ⟨hstep, _, _⟩ := completeKey_step k hr hh
    -- one key
    have h1 : FrameWf s (completeKey k s).2 ∧
        (ClosedU rules U s → TermStep rules U s {} (completeKey k s).2 {}
          ((completeKey k s).2.finishedTaskInfos.length - s.finishedTaskInfos.length)) := by
      unfold completeKey
      by_cases hcn : s.pendingDeferred.contains k = true
      · simp only [hcn, if_true]
        have hk : k ∈ s.pendingDeferred := by simpa using hcn
        obtain ⟨f1, f2⟩ := taskComplete_frameWf hr hk
        refine ⟨f1, fun hc => ?_⟩
        rw [f2]
        exact TermStep.weaken (taskComplete_term hr hk hc) (by rw [List.length_append, List.length_singleton]; omega)
      · simp only [hcn, Bool.false_eq_true, if_false]
        exact ⟨FrameWf.refl s, fun hc => TermStep.weaken (TermStep.refl hc) (by omega)⟩
    generalize completeKey k s = r at hstep h1 ⊢
    obtain ⟨b, s1⟩ := r
    simp only at hstep h1 ⊢
    obtain ⟨_, ms1, _, _, hr1, _, _, _, _, hh1, _⟩ := hstep
    obtain ⟨i1, i2⟩ := completeKeys_frameWf_term (U := U) ks (any || b) s1 ms1 hr1 hh1
    refine ⟨h1.1.trans i1, fun hc => ?_⟩
    have t1 := h1.2 hc
    have t2 := i2 t1.1
    have l1 := h1.1.finLen
    have l2 := i1.finLen
    exact tstrans t1 t2 (by omega)

theorem asyncStep_frameWf_term {rules : List RuleSpec} {U : List Key} {s : State} {ms : MSt} (it : SchedItem)
    (hr : Rel rules s ms {}) (hh : s.halted = false) :
    FrameWf s (asyncStep it s) ∧
    (ClosedU rules U s → TermStep rules U s {} (asyncStep it s) {}
      ((asyncStep it s).finishedTaskInfos.length - s.finishedTaskInfos.length)) := by
  unfold asyncStep
  simp only
  obtain ⟨i1, i2⟩ := completeKeys_frameWf_term (U := U) it.keys false s ms hr hh
  by_cases hc : it.cancel = true
  · simp only [hc, if_true]
    have hs := doCancel_same (completeKeys it.keys false s).2
    refine ⟨i1.trans (FrameWf.same hs), fun hcl => ?_⟩
    rw [hs.finishedTaskInfos]
    exact tstrans (i2 hcl) (TermStep_doCancel (i2 hcl).1) (by omega)
  · simp only [hc, Bool.false_eq_true, if_false]
    exact ⟨i1, i2⟩

theorem asyncStepTerm : AsyncStepTerm := by
  intro rules U it s ms hr _ hh hc
  exact (asyncStep_frameWf_term it hr hh).2 hc

/-- `AsyncStepFrame` for a state in `Rel … {}` that is not halted (what the loops have at every item boundary) -/
def AsyncStepFrameRel : Prop :=
  ∀ rules (it : SchedItem) (s : State) (ms : MSt), Rel rules s ms {} → s.halted = false →
    (asyncStep it s).ruleInfosToScan = s.ruleInfosToScan ∧ (asyncStep it s).inputRequests = s.inputRequests ∧
    (asyncStep it s).finishedInputRequests = s.finishedInputRequests ∧ (asyncStep it s).readyTaskInfos = s.readyTaskInfos ∧
    (asyncStep it s).numOutstandingUnfinishedTasks = s.numOutstandingUnfinishedTasks ∧
    (asyncStep it s).numRulesBeingScanned = s.numRulesBeingScanned ∧
    (asyncStep it s).taskInfos.map (fun p => p.1) = s.taskInfos.map (fun p => p.1) ∧
    (∀ k, isComplete (asyncStep it s) ((asyncStep it s).rule k) = isComplete s (s.rule k)) ∧
    (NoMid s → NoMid (asyncStep it s)) ∧ (FreshScanQ s → FreshScanQ (asyncStep it s)) ∧
    (∃ l, (asyncStep it s).finishedTaskInfos = s.finishedTaskInfos ++ l) ∧
    (s.buildCancelled = true → (asyncStep it s).buildCancelled = true)

theorem asyncStepFrame_rel : AsyncStepFrameRel := by
  intro rules it s ms hr hh
  have h := asyncStep_frameAny it s
  have w := (asyncStep_frameWf_term (U := []) it hr hh).1
  exact ⟨h.scanQ, h.inputQ, h.finInQ, h.ready, h.num, h.numScan, w.taskKeys, w.complete, h.noMid,
    fun x => (by unfold FreshScanQ at *; rw [h.scanQ]; exact x), h.fin, h.cancel⟩

end LLBuild.Refine
