/-
IM3 — termination / no-stall: `findCycle` does not fail (`none` = a freed scan record was read, or the walk over the scan
records / the depth-first search ran out of fuel) on the states where the work loop calls it.

Helpers (namespace `LLBuild.Refine.TermCyc`):
* §1 `gatherMu s active visited` = `|active|` + the deferred scan requests of the live records not yet visited: it drops
  by one per iteration of `gatherScanRecords`; `gather_ne_none` (generalised over `active`/`visited`/`g`);
  `gatherBound s` = `gatherMu s (active0 s) []`.
* §2 the search: `search_ne_none` — from an unvisited node of a set `S ⊆ U` in which every node has a predecessor in
  `S`, the search returns within `|U| + 1` iterations (it never backtracks: one new DISTINCT node of `U` per
  iteration); `search_sink` — from a node without predecessors it returns `[]` in 2 iterations.
* §3 `findCycle_ne_none`, `resolveCycle_nohalt`;  §4 `gatherBound_le_Phi`.
-/
import LLBuild.Lemmas.Refine.Cycle
import LLBuild.Lemmas.Refine.Term0

namespace LLBuild.Refine
open LLBuild.Engine LLBuild.Engine.DSL LLBuild.EngineImpl

namespace TermCyc
open Cyc

/-! ## 0. sums -/

theorem sumBy_nil {α : Type} (f : α → Nat) : sumBy f [] = 0 := rfl

theorem sumBy_cons {α : Type} (f : α → Nat) (x : α) (l : List α) : sumBy f (x :: l) = f x + sumBy f l := by
  simp [sumBy]

theorem sumBy_le {α : Type} {f g : α → Nat} : ∀ (l : List α), (∀ x ∈ l, f x ≤ g x) → sumBy f l ≤ sumBy g l
  | [], _ => Nat.le_refl _
  | x :: l, h => by
    rw [sumBy_cons, sumBy_cons]
    have h1 := h x List.mem_cons_self
    have h2 := sumBy_le l (fun y hy => h y (List.mem_cons_of_mem _ hy))
    omega

/-- termwise `≤`, and one member drops by `c` -/
theorem sumBy_drop {α : Type} {f g : α → Nat} {c : Nat} : ∀ (l : List α) (x0 : α), x0 ∈ l → (∀ x ∈ l, f x ≤ g x) →
    f x0 + c ≤ g x0 → sumBy f l + c ≤ sumBy g l
  | [], _, h, _, _ => by cases h
  | x :: l, x0, hx, h, hc => by
    rw [sumBy_cons, sumBy_cons]
    have h1 := h x List.mem_cons_self
    have hl : ∀ y ∈ l, f y ≤ g y := fun y hy => h y (List.mem_cons_of_mem _ hy)
    rcases List.mem_cons.1 hx with e | e
    · subst e
      have := sumBy_le l hl
      omega
    · have := sumBy_drop l x0 e hl hc
      omega

/-- a duplicate-free list of members of `U`, each weighing at least 1, is no longer than the weight of `U` -/
theorem length_le_sumBy {f : Key → Nat} : ∀ (U l : List Key), l.Nodup → (∀ k ∈ l, k ∈ U) → (∀ k ∈ l, 1 ≤ f k) →
    l.length ≤ sumBy f U
  | [], l, _, hsub, _ => by
    cases l with
    | nil => simp
    | cons a _ => exact absurd (hsub a List.mem_cons_self) (by simp)
  | u :: U, l, hn, hsub, hf => by
    rw [sumBy_cons]
    by_cases hu : u ∈ l
    · have ih := length_le_sumBy U (l.erase u) (hn.erase u)
        (fun k hk => by
          have := (hn.mem_erase_iff).1 hk
          rcases List.mem_cons.1 (hsub k this.2) with e | e
          · exact absurd e this.1
          · exact e)
        (fun k hk => hf k (List.mem_of_mem_erase hk))
      have hlen := List.length_erase_of_mem hu
      have := hf u hu
      have hpos : 0 < l.length := List.length_pos_of_mem hu
      omega
    · have ih := length_le_sumBy U l hn
        (fun k hk => by
          rcases List.mem_cons.1 (hsub k hk) with e | e
          · subst e; exact absurd hk hu
          · exact e) hf
      omega

theorem sumBy_one : ∀ (U : List Key), sumBy (fun _ : Key => 1) U = U.length
  | [] => rfl
  | u :: U => by rw [sumBy_cons, sumBy_one U]; simp; omega

theorem nodup_length_le {U l : List Key} (hn : l.Nodup) (hsub : ∀ k ∈ l, k ∈ U) : l.length ≤ U.length := by
  have := length_le_sumBy (f := fun _ => 1) U l hn hsub (fun _ _ => Nat.le_refl _)
  rw [sumBy_one] at this
  exact this

/-! ## 1. the walk over the scan records -/

/-- the deferred scan requests of the live records whose owner has not been visited yet -/
def unvisitedW (s : State) (visited : List Key) : Nat :=
  sumBy (fun p => if visited.contains p.1 then 0 else p.2.deferredScanRequests.length) (liveRecords s)

/-- the measure of `gatherScanRecords`: one iteration per element of the work list, and every unvisited live
record may still push one element per deferred request -/
def gatherMu (s : State) (active visited : List Key) : Nat := active.length + unvisitedW s visited

/-- **the fuel `findCycle`'s walk over the scan records needs** (strictly less than the fuel): the number of
scanning rules plus the number of scan requests parked at scan records -/
def gatherBound (s : State) : Nat := gatherMu s (active0 s) []

theorem gatherBound_eq (s : State) :
    gatherBound s = (active0 s).length + sumBy (fun p => p.2.deferredScanRequests.length) (liveRecords s) := by
  simp [gatherBound, gatherMu, unvisitedW]

theorem activeFold_length (s : State) : ∀ (l : List RuleScanRequest) (a : List Key),
    (activeFold s a l).length ≤ a.length + l.length
  | [], a => by simp [activeFold]
  | r :: rest, a => by
    have e : activeFold s a (r :: rest) =
        activeFold s (if (s.rule r.ruleInfo).isScanning then a ++ [r.ruleInfo] else a) rest := rfl
    rw [e]
    have ih := activeFold_length s rest (if (s.rule r.ruleInfo).isScanning then a ++ [r.ruleInfo] else a)
    by_cases hsc : (s.rule r.ruleInfo).isScanning = true
    · simp only [hsc, if_true, List.length_append, List.length_cons, List.length_nil] at ih ⊢; omega
    · simp only [hsc, Bool.false_eq_true, if_false, List.length_cons] at ih ⊢; omega

theorem unvisitedW_visit {s : State} {visited : List Key} {owner : Key} {rec : RuleScanRecord}
    (hlive : (owner, rec) ∈ liveRecords s) (hnv : owner ∉ visited) :
    unvisitedW s (owner :: visited) + rec.deferredScanRequests.length ≤ unvisitedW s visited := by
  unfold unvisitedW
  refine sumBy_drop _ (owner, rec) hlive ?_ ?_
  · intro p _
    simp only [List.contains_eq_mem, List.mem_cons, decide_eq_true_eq]
    by_cases h : p.1 ∈ visited
    · simp [h]
    · simp only [h, or_false, if_false]
      split
      · exact Nat.zero_le _
      · exact Nat.le_refl _
  · simp [hnv]

/-- **1. `gatherScanRecords` does not fail**: (a) every owner it visits is `IsScanning`, so its record is live
(`hrec`: `Rel.recordLive`); (b) the measure `gatherMu` drops with every iteration. -/
theorem gather_ne_none (s : State)
    (hrec : ∀ k, (s.rule k).isScanning = true → ∃ rec, (s.rule k).getPendingScanRecord = some rec) :
    ∀ (fuel : Nat) (active visited : List Key) (g : Graph),
      (∀ k ∈ active, (s.rule k).isScanning = true) → gatherMu s active visited < fuel →
      gatherScanRecords s fuel active visited g ≠ none
  | 0, _, _, _, _, h => by omega
  | fuel + 1, active, visited, g, ha, hmu => by
    rw [gather_succ]
    split
    · simp
    · rename_i owner ho
      obtain ⟨init, hinit⟩ := List.getLast?_eq_some_iff.1 ho
      have hdl : active.dropLast = init := by rw [hinit]; simp
      have hlen : active.length = init.length + 1 := by rw [hinit]; simp
      have hda : ∀ k ∈ init, (s.rule k).isScanning = true :=
        fun k hk => ha k (by rw [hinit]; exact List.mem_append_left _ hk)
      rw [hdl]
      unfold gatherMu at hmu
      split
      · exact gather_ne_none s hrec fuel _ _ _ hda (by unfold gatherMu; omega)
      · rename_i hv
        have hown := ha owner (List.mem_of_getLast? ho)
        obtain ⟨rec, hr⟩ := hrec owner hown
        rw [hr]
        simp only []
        have hlive := live_of_rule hown hr
        have hdrop := unvisitedW_visit hlive (by simpa using hv)
        have hal := activeFold_length s rec.deferredScanRequests init
        refine gather_ne_none s hrec fuel _ _ _ ?_ (by unfold gatherMu; omega)
        intro k hk
        rcases activeFold_mem s _ _ k hk with h1 | h1
        · exact hda k h1
        · exact h1

theorem stuck_recordLive {rules : List RuleSpec} {s : State} {ms : MSt} (hst : Stuck rules s ms) :
    ∀ k, (s.rule k).isScanning = true → ∃ rec, (s.rule k).getPendingScanRecord = some rec := by
  intro k hk
  have hk' : (s.rule k).state = .isScanning := by simpa [RuleInfo.isScanning] using hk
  obtain ⟨ri, hl, hs⟩ := lookup_of_rule_state hk' (by simp)
  obtain ⟨r, hr⟩ := hst.rel.recordLive k ri hl hs
  exact ⟨r, by rw [rule_of_lookup hl]; simp [RuleInfo.getPendingScanRecord, hr]⟩

/-- the walk of `findCycle` itself -/
theorem gather0_ne_none {rules : List RuleSpec} {s : State} {ms : MSt} (hst : Stuck rules s ms) {fuel : Nat}
    (hb : gatherBound s < fuel) : gatherScanRecords s fuel (active0 s) [] (taskGraph s) ≠ none :=
  gather_ne_none s (stuck_recordLive hst) fuel _ _ _ (active0_scanning hst) hb

/-! ## 2. the depth-first search -/

/-- **2a. the search from a blocked node is linear**: in a set `S` of members of `U` in which every node has a
predecessor in `S`, the search never backtracks; every iteration adds a NEW node of `U` to `cycleItems`, so after at
most `|U|` of them the next node is a repeated one. -/
theorem search_ne_none {pred : Graph} {S : Key → Prop} {U : List Key}
    (hS : ∀ x, S x → x ∈ U ∧ pred.get x ≠ [] ∧ ∀ y ∈ pred.get x, S y) :
    ∀ (fuel : Nat) (entry : WorkItem) (below : List WorkItem) (cl ci : List Key),
      entry.predecessorIndex = 0 → S entry.node → ci.Nodup → (∀ x ∈ ci, x ∈ U) → U.length + 1 ≤ ci.length + fuel →
      cycleSearchOpt pred fuel (entry :: below) cl ci ≠ none
  | 0, _, _, _, ci, _, _, hn, hsub, hb => by
    have := nodup_length_le hn hsub
    omega
  | fuel + 1, entry, below, cl, ci, h0, hs, hn, hsub, hb => by
    rw [cycleSearchOpt]
    simp only [h0, beq_self_eq_true, Bool.true_and, if_true]
    split
    · simp
    · rename_i hnf
      have hnotin : entry.node ∉ ci := by simpa using hnf
      obtain ⟨hU, hne, hcl⟩ := hS _ hs
      cases hp : pred.get entry.node with
      | nil => exact absurd hp hne
      | cons child rest =>
        simp only [List.getElem?_cons_zero]
        have hnf' : (!ci.contains entry.node) = true := by simpa using hnotin
        simp only [hnf', if_true]
        refine search_ne_none hS fuel _ _ _ _ rfl (hcl child (by rw [hp]; exact List.mem_cons_self))
          (List.nodup_cons.2 ⟨hnotin, hn⟩) ?_ ?_
        · intro x hx
          rcases List.mem_cons.1 hx with e | e
          · subst e; exact hU
          · exact hsub x e
        · simp only [List.length_cons]; omega

/-- **2b. a root nobody is waited for by** (e.g. the requested key is complete): the search visits it, finds no
predecessor, pops it and returns the empty list — two iterations -/
theorem search_sink {pred : Graph} {key : Key} (h : pred.get key = []) (fuel : Nat) :
    cycleSearchOpt pred (fuel + 2) [{ node := key }] [] [] = some [] := by
  rw [cycleSearchOpt]
  simp [h, cycleSearchOpt]

end TermCyc

open Cyc TermCyc

/-! ## 3. `findCycle` does not fail -/

/-- the search of `findCycle` returns, whatever the requested key -/
theorem cycleSearch_ne_none {rules : List RuleSpec} {U : List Key} {s : State} {ms : MSt} (hst : Stuck rules s ms)
    (hmf : NoMFDelivered ms.m) (hrz : ReadyWhenZero s) (hU : ∀ k, Registered s k → k ∈ U)
    {pred : Graph} (hp : predGraph s = some pred) (key : Key) {fuel : Nat} (hfuel : U.length + 2 ≤ fuel) :
    cycleSearchOpt pred fuel [{ node := key }] [] [] ≠ none := by
  by_cases hb : Blocked ms.m key
  · refine search_ne_none (S := Blocked ms.m) (U := U) ?_ fuel _ _ _ _ rfl hb List.nodup_nil (by simp) (by simp; omega)
    intro x hx
    refine ⟨hU x ?_, blocked_has_pred hst hrz hp hx, fun y hy => (predGraph_sound hst hmf hp hy).2⟩
    rcases hx with h | h
    · obtain ⟨ri, hl, _⟩ := state_of_running hst h
      unfold Registered; rw [hl]; rfl
    · obtain ⟨ri, hl, _⟩ := state_of_scanning hst h
      unfold Registered; rw [hl]; rfl
  · have hnil : pred.get key = [] := by
      cases hg : pred.get key with
      | nil => rfl
      | cons y rest =>
        exfalso
        have hw := (predGraph_sound hst hmf hp (x := key) (y := y) (by rw [hg]; exact List.mem_cons_self)).1
        apply hb
        unfold waitsFor at hw
        unfold Blocked
        cases hs : ms.m.status key <;> simp [hs] at hw ⊢
    obtain ⟨n, rfl⟩ : ∃ n, fuel = n + 2 := ⟨fuel - 2, by omega⟩
    rw [search_sink hnil]; simp

/-- **3. `findCycle` does not return `none`** on the states where the work loop calls it (hypotheses of
`Todo_findCycle` = `Cyc.Stuck`, the two side conditions `NoMFDelivered`, `ReadyWhenZero` of `findCycle_fixed` — the
third one, "the requested key is not idle", is NOT needed here), for a universe `U` containing the registered keys, under
the two size conditions. -/
theorem findCycle_ne_none {rules : List RuleSpec} {U : List Key} {s : State} {ms : MSt} (hst : Stuck rules s ms)
    (hmf : NoMFDelivered ms.m) (hrz : ReadyWhenZero s) (hU : ∀ k, Registered s k → k ∈ U)
    (hg : gatherBound s < loopFuel) (hsz : U.length + 2 ≤ loopFuel) (key : Key) :
    findCycle key s ≠ none := by
  intro h
  unfold findCycle at h
  simp only [] at h
  split at h
  · rename_i heq
    exact gather0_ne_none hst hg heq
  · rename_i sg heq
    rw [cycleSearch_eq_opt] at h
    have hp : predGraph s = some ((invertGraph sg).map (fun entry => (entry.1, sortBy keyLt entry.2))) := by
      rw [predGraph_eq]
      have : gatherScanRecords s loopFuel (active0 s) [] (taskGraph s) = some sg := heq
      rw [this]; rfl
    exact cycleSearch_ne_none hst hmf hrz hU hp key hsz h

/-- the same with `ClosedU` -/
theorem findCycle_ne_none_closed {rules : List RuleSpec} {U : List Key} {s : State} {ms : MSt} (hst : Stuck rules s ms)
    (hmf : NoMFDelivered ms.m) (hrz : ReadyWhenZero s) (hcl : ClosedU rules U s)
    (hg : gatherBound s < loopFuel) (hsz : U.length + 2 ≤ loopFuel) (key : Key) :
    findCycle key s ≠ none :=
  findCycle_ne_none hst hmf hrz hcl.registered hg hsz key

/-- (T1) for `resolveCycle`: with the harness's delegate it reports the cycle and does not halt -/
theorem resolveCycle_nohalt {rules : List RuleSpec} {U : List Key} {s : State} {ms : MSt} (hst : Stuck rules s ms)
    (hmf : NoMFDelivered ms.m) (hrz : ReadyWhenZero s) (hU : ∀ k, Registered s k → k ∈ U)
    (hg : gatherBound s < loopFuel) (hsz : U.length + 2 ≤ loopFuel) (key : Key) (hh : s.halted = false) :
    (resolveCycle key s).2.halted = false ∧ ∃ ks, findCycle key s = some ks ∧ resolveCycle key s = (false, emit (.CY ks) s) := by
  have hrc := resolveCycle_noResolve key s hst.rel.noResolve
  cases hfc : findCycle key s with
  | none => exact absurd hfc (findCycle_ne_none hst hmf hrz hU hg hsz key)
  | some ks =>
    rw [hfc] at hrc
    simp only [] at hrc
    refine ⟨?_, ks, rfl, hrc⟩
    rw [hrc]
    simp only [emit_halted_eq]
    exact hh

/-! ## 4. the bounds against the potential -/

namespace TermCyc

theorem active0_nodup {rules : List RuleSpec} {s : State} {ms : MSt} (hst : Stuck rules s ms) : (active0 s).Nodup := by
  unfold active0
  exact List.Nodup.sublist (List.Sublist.map _ List.filter_sublist) hst.rel.rulesNodup

theorem phase_scanning {s : State} {k : Key} (h : (s.rule k).isScanning = true) : phase s k = 5 := by
  have hk' : (s.rule k).state = .isScanning := by simpa [RuleInfo.isScanning] using h
  obtain ⟨ri, hl, hs⟩ := lookup_of_rule_state hk' (by simp)
  simp [phase, hl, hs]

theorem sumBy_append {α : Type} (f : α → Nat) (l1 l2 : List α) : sumBy f (l1 ++ l2) = sumBy f l1 + sumBy f l2 := by
  simp [sumBy]

theorem sumBy_flatMap_length {α β : Type} (f : α → List β) : ∀ (l : List α),
    sumBy (fun p => (f p).length) l = (l.flatMap f).length
  | [] => rfl
  | x :: l => by rw [sumBy_cons, sumBy_flatMap_length f l]; simp

theorem length_le_sumBy_of {α : Type} {f : α → Nat} : ∀ (l : List α), (∀ x ∈ l, 1 ≤ f x) → l.length ≤ sumBy f l
  | [], _ => Nat.le_refl _
  | x :: l, h => by
    rw [sumBy_cons]
    have := h x List.mem_cons_self
    have := length_le_sumBy_of l (fun y hy => h y (List.mem_cons_of_mem _ hy))
    simp only [List.length_cons]; omega

end TermCyc

/-- **the walk's bound is below the potential**: each scanning rule weighs `ruleW ≥ 5`, each scan request parked at a
scan record weighs `scanRest + 4` -/
theorem gatherBound_le_Phi {rules : List RuleSpec} {U : List Key} {s : State} {ms : MSt} (hst : Stuck rules s ms)
    (hU : ∀ k, Registered s k → k ∈ U) (h : Hand) : gatherBound s ≤ Phi rules U s h := by
  rw [gatherBound_eq]
  have h1 : (active0 s).length ≤ sumBy (ruleW rules s) U := by
    refine length_le_sumBy U _ (active0_nodup hst) ?_ ?_
    · intro k hk
      have hsc := active0_scanning hst k hk
      have hk' : (s.rule k).state = .isScanning := by simpa [RuleInfo.isScanning] using hsc
      obtain ⟨ri, hl, _⟩ := lookup_of_rule_state hk' (by simp)
      exact hU k (by unfold Registered; rw [hl]; rfl)
    · intro k hk
      have := phase_scanning (active0_scanning hst k hk)
      unfold ruleW
      omega
  have h2 : sumBy (fun p => p.2.deferredScanRequests.length) (liveRecords s)
      ≤ sumBy (fun r => scanRest s r + 4) ((liveRecords s).flatMap (fun p => p.2.deferredScanRequests)) := by
    rw [sumBy_flatMap_length (fun p : Key × RuleScanRecord => p.2.deferredScanRequests)]
    exact length_le_sumBy_of _ (fun r _ => by omega)
  unfold Phi
  omega

end LLBuild.Refine
