/-
C07 on the printed traces — the two build-level facts:
* `build_at_CY`: where a `CY ks` token of a build is accepted: the monitor state `msp` reached by the tokens `pre` before it,
  with the event `cycle ks` accepted there, the target, `XInv`, `SeenInv pre`, and any monitor invariant of the start state;
* `build_upto`: a build without `X`/`CY`/`ER` proves `Upto` of the requested key for the snapshot it started from.
-/
import LLBuild.Lemmas.Refine.Sched6

namespace LLBuild.Refine
open LLBuild.Engine LLBuild.Engine.DSL LLBuild.EngineImpl

/-- a `CY` token of a trace `B key :: rest ++ DE :: x ++ [R v, Z 0 0]` lies in `rest` -/
theorem split_CY {key : Key} {rest x pre post : List Tok} {v : Val} {ks : List Key} (hx : x = [] ∨ x = [Tok.X])
    (h : pre ++ Tok.CY ks :: post = (Tok.B key :: rest) ++ Tok.DE :: (x ++ [Tok.R v, Tok.Z 0 0])) :
    ∃ pre' post', pre = Tok.B key :: pre' ∧ rest = pre' ++ Tok.CY ks :: post' := by
  rcases List.append_eq_append_iff.1 h with ⟨a', h1, h2⟩ | ⟨c', h1, h2⟩
  · cases a' with
    | nil => simp only [List.nil_append, List.cons.injEq] at h2; cases h2.1
    | cons z zs =>
      simp only [List.cons_append, List.cons.injEq] at h2
      obtain ⟨e1, _⟩ := h2
      subst e1
      cases pre with
      | nil => simp only [List.nil_append, List.cons.injEq] at h1; cases h1.1
      | cons p pre' =>
        simp only [List.cons_append, List.cons.injEq] at h1
        obtain ⟨e1, e2⟩ := h1
        exact ⟨pre', zs, by rw [e1], e2⟩
  · exfalso
    have hm : Tok.CY ks ∈ Tok.DE :: (x ++ [Tok.R v, Tok.Z 0 0]) := by rw [h2]; simp
    rcases hx with e | e <;> subst e <;> simp at hm

/-- **the monitor where `CY ks` is accepted** -/
theorem build_at_CY {rules : List RuleSpec} (hok : RulesOk rules) {s : State} {m : Engine.St}
    (hr : RelIdle rules s m) (h2 : Inv2 m) (key cancelAt : Nat) (sched : List SchedItem) (a : Async)
    (hsize : workBound rules s key + 2 < scanFuel) {pre post : List Tok} {ks : List Key}
    (htr : (runBuildA key cancelAt sched a s).trace.reverse = pre ++ Tok.CY ks :: post)
    {I : Engine.St → Prop} (hI : ∀ m m' e, step (program rules) m e = some m' → I m → I m') (hIm : I m) :
    ∃ msp m', trun (program rules) ⟨m, none⟩ pre = some msp ∧ step (program rules) msp.m (.cycle ks) = some m' ∧
      msp.m.target = some key ∧ XInv (program rules) (snapOf (program rules) m) key msp.m ∧ SeenInv pre msp.m ∧ I msp.m := by
  have hloop := workLoopA_final rules hok
  have hnh := build_terminates_async hok hr key cancelAt sched a hsize
  obtain ⟨m', hrunX, _⟩ := runBuildA_simX hok hr key cancelAt sched a hnh
  obtain ⟨rest, v, x, hsh, hx, hnc⟩ := runBuildA_trace_shape0 hloop hr key cancelAt sched a hnh
  rw [htr] at hsh
  obtain ⟨pre', post', hp, hrest⟩ := split_CY hx hsh
  subst hp
  rw [htr] at hrunX
  obtain ⟨msp, hpre, hafter⟩ := trunX_prefix hrunX
  have hpreT := trunX_trun _ _ _ hpre
  -- the `CY` token
  simp only [trunX] at hafter
  cases hcy : tstepX (program rules) msp (.CY ks) with
  | none => rw [hcy] at hafter; simp at hafter
  | some msq =>
    have hst := tstep_ev_inv (tstepX_tstep hcy).1 (e := .cycle ks) rfl
    -- invariants along `B key :: pre'`
    have hnc' : ∀ t ∈ pre', Tok.isClose t = false := by
      intro t ht
      exact hnc t (List.mem_cons_of_mem _ (by rw [hrest]; exact List.mem_append_left _ ht))
    have hpre' := hpre
    simp only [trunX] at hpre'
    cases hB : tstepX (program rules) ⟨m, none⟩ (.B key) with
    | none => rw [hB] at hpre'; simp at hpre'
    | some ms1 =>
      rw [hB] at hpre'; simp only [Option.bind_some] at hpre'
      obtain ⟨x1, i1, _⟩ := tstepX_B_xinv hB h2
      obtain ⟨xA, _, _⟩ := trunX_xinv pre' ms1 msp hpre' hnc' x1 i1
      have hBt := (tstepX_tstep hB).1
      have ht1 : ms1.m.target.isSome = true := by rw [(tstep_B hBt).2.1]; rfl
      have hseen := trun_seen pre' ms1 msp [Tok.B key] (trunX_trun _ _ _ hpre') (fun t ht => Or.inl (hnc' t ht)) ht1
        (seen_after_B hBt)
      exact ⟨msp, msq.m, hpreT, hst, xA.target, xA, by simpa using hseen, trun_inv hI _ _ _ hpreT hIm⟩

/-- **a build without `X`/`CY`/`ER` brings its key up to date**: `Upto` for the snapshot the build started from -/
theorem build_upto {rules : List RuleSpec} (hok : RulesOk rules) {s : State} {m : Engine.St}
    (hr : RelIdle rules s m) (h2 : Inv2 m) (key cancelAt : Nat) (sched : List SchedItem) (a : Async)
    (hsize : workBound rules s key + 2 < scanFuel)
    (hnf : NoFail (runBuildA key cancelAt sched a s).trace.reverse) :
    Upto (program rules) (snapOf (program rules) m) key := by
  have hloop := workLoopA_final rules hok
  have hnh := build_terminates_async hok hr key cancelAt sched a hsize
  obtain ⟨m', hrunX, _⟩ := runBuildA_simX hok hr key cancelAt sched a hnh
  obtain ⟨rest, v, n, htr, hnc, hnfr⟩ := runBuildA_trace_nofail hloop hr key cancelAt sched a hnh hnf
  rw [htr] at hrunX
  obtain ⟨msA, hA, hclose⟩ := trunX_prefix hrunX
  have hA' := hA
  simp only [trunX] at hA'
  cases hB : tstepX (program rules) ⟨m, none⟩ (.B key) with
  | none => rw [hB] at hA'; simp at hA'
  | some ms1 =>
    rw [hB] at hA'; simp only [Option.bind_some] at hA'
    obtain ⟨x1, i1, _⟩ := tstepX_B_xinv hB h2
    have hu1 : UInv (program rules) (snapOf (program rules) m) ms1.m := by
      intro k hk
      have := (x1.epoch0 (by
        have hst := tstep_ev_inv (tstepX_tstep hB).1 (e := .buildStart key) rfl
        simp only [step] at hst
        split at hst
        · cases ms1; simp only [Option.some.injEq] at hst; subst hst; rfl
        · cases hst)).2 k
      rw [this] at hk; cases hk
    obtain ⟨xA, iA, uA⟩ := trunX_xuinv rest ms1 msA hA' hnc x1 i1 hu1
    have hfA := (trun_B_mid (trunX_trun _ _ _ hA) hnc).2.2.2 hnfr
    obtain ⟨msB, msC, hDE, hret, hfB, _, _, _, _⟩ := trun_close_noFlags (trunX_trun _ _ _ hclose) hfA
    have hDE' : tstep (program rules) msA .DE = some msB := by
      simp only [trun] at hDE
      cases hts : tstep (program rules) msA .DE with
      | none => rw [hts] at hDE; simp at hDE
      | some x => rw [hts] at hDE; simpa using hDE
    have hstDE := tstep_ev_inv hDE' (e := .dbEnd) rfl
    have xB := xinv_dbEnd xA hstDE
    have uB := step_uinv xA uA hstDE rfl
    obtain ⟨root, htgt, hroot, _, _⟩ := step_ret_dry hret hfB
    rw [xB.target] at htgt
    cases htgt
    exact uB key hroot

end LLBuild.Refine
