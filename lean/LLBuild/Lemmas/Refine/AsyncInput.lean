/-
IM4 — free-running completion threads, part B: `inputRequestsLoopA` (the input-request loop with one asynchronous step
`asyncPoint` before each iteration, notes/REFINE.md §9).
 (N) `inputRequestsLoopA_nil`   : with the empty schedule it is the model's `inputRequestsLoop`;
 (R) `inputRequestsLoopA_sim`   : the statement of `inputRequestsLoop_sim` for every schedule;
 (X) `inputRequestsLoopA_aux`   : the statement of `inputRequestsLoop_aux` for every schedule;
 (T) `inputRequestsLoopA_nohalt_term` (+ the two projections): no halt and `TermStep` with the flag-based drop.
The helpers about one item boundary are in `namespace AsyncInput` (other `Async*.lean` files need the same facts).
Hypotheses: the four facts about one asynchronous step (`AsyncSpec.lean`), and those the synchronous statements take
(`ScanRuleAux`, `DemandRuleAuxI`; `TermInput.ScanRuleTerm`, `TermInput.DemandRuleNoHalt`, `TermInput.DemandRuleTerm`).
-/
import LLBuild.Lemmas.Refine.Input
import LLBuild.Lemmas.Refine.TermInput
import LLBuild.Lemmas.Refine.AsyncSpec

namespace LLBuild.Refine
open LLBuild.Engine LLBuild.Engine.DSL LLBuild.EngineImpl

/-! ## (N) the empty schedule -/

theorem inputRequestsLoopA_nil : ∀ (fuel : Nat) (w : Bool) (s : State),
    inputRequestsLoopA fuel w [] s = ((inputRequestsLoop fuel w s).1, [], (inputRequestsLoop fuel w s).2)
  | 0, w, s => rfl
  | fuel + 1, w, s => by
    rw [inputRequestsLoopA, inputRequestsLoop]
    simp only [asyncPoint]
    cases s.inputRequests with
    | nil => rfl
    | cons r rest => exact inputRequestsLoopA_nil fuel true _

/-! ## the item boundary -/

theorem AsyncInput.asyncStep_haltMono (it : SchedItem) : HaltMono (asyncStep it) := by
  intro s h
  unfold asyncStep
  have h1 : (completeKeys it.keys false s).2.halted = true := rs_completeKeys closed_halted it.keys false s h
  dsimp only
  split
  · rw [doCancel_halted_eq]; exact h1
  · exact h1

theorem AsyncInput.asyncPoint_haltMono (a : Async) : HaltMono (fun s => (asyncPoint a s).2) := by
  intro s h
  cases a with
  | nil => exact h
  | cons it rest => exact AsyncInput.asyncStep_haltMono it s h

theorem inputRequestsLoopA_haltMono : ∀ (fuel : Nat) (w : Bool) (a : Async),
    HaltMono (fun s => (inputRequestsLoopA fuel w a s).2.2)
  | 0, w, a => fun s _ => halt_halted _ _
  | fuel + 1, w, a => by
    intro s h
    show (inputRequestsLoopA (fuel + 1) w a s).2.2.halted = true
    rw [inputRequestsLoopA]
    have h0 := AsyncInput.asyncPoint_haltMono a s h
    dsimp only at h0 ⊢
    cases hq : (asyncPoint a s).2.inputRequests with
    | nil => exact h0
    | cons r rest =>
      dsimp only
      exact inputRequestsLoopA_haltMono fuel true _ _
        (haltMono_of (fun hR => rs_processInputRequest hR r) _ h0)

/-- refinement and frame of one item boundary -/
theorem AsyncInput.asyncPoint_sim (hS : AsyncStepSim) (hF : AsyncStepFrame) {rules : List RuleSpec} (hok : RulesOk rules)
    (a : Async) {s : State} {ms : MSt} (hr : Rel rules s ms {}) (hp : ms.pend = none) (hh : s.halted = false) :
    (asyncPoint a s).2.halted = false ∧ (asyncPoint a s).2.inputRequests = s.inputRequests ∧
    (FreshScanQ s → FreshScanQ (asyncPoint a s).2) ∧
    ∃ toks ms', Emits s toks (asyncPoint a s).2 ∧ trun (program rules) ms toks = some ms' ∧
      Rel rules (asyncPoint a s).2 ms' {} ∧ ms'.pend = none ∧ RegMono s (asyncPoint a s).2 ∧ ms'.m.target = ms.m.target := by
  cases a with
  | nil => exact ⟨hh, rfl, id, [], ms, Emits.refl s, rfl, hr, hp, fun _ x => x, rfl⟩
  | cons it rest =>
    obtain ⟨h1, h2⟩ := hS rules hok it s ms hr hp hh
    obtain ⟨toks, ms', a1, a2, a3, a4, a5, a6, _⟩ := h2 h1
    have hf := hF it s
    exact ⟨h1, hf.2.1, hf.2.2.2.2.2.2.2.2.2.1, toks, ms', a1, a2, a3, a4, a5, a6⟩

/-! ## (R) refinement -/

theorem inputRequestsLoopA_sim (hS : AsyncStepSim) (hF : AsyncStepFrame) :
    ∀ rules, RulesOk rules → ∀ (fuel : Nat) (w : Bool) (a : Async) (s : State) (ms : MSt),
      Rel rules s ms {} → ms.pend = none → s.halted = false → FreshScanQ s →
      PendFresh ms.m →
      Sim rules s ms (inputRequestsLoopA fuel w a s).2.2 {} (fun ms' =>
        ((inputRequestsLoopA fuel w a s).2.2.inputRequests = [] ∧ NoMid (inputRequestsLoopA fuel w a s).2.2 ∧
          FreshScanQ (inputRequestsLoopA fuel w a s).2.2) ∧ PendFresh ms'.m) := by
  intro rules hok fuel
  induction fuel with
  | zero =>
    intro w a s ms _ _ _ _ _ hfin
    rw [inputRequestsLoopA] at hfin
    simp only at hfin
    rw [halt_halted] at hfin; cases hfin
  | succ fuel ih =>
    intro w a s ms hr hp hh hfq hpf
    rw [inputRequestsLoopA]
    obtain ⟨hh0, _, hfq0, toks0, ms0, he0, hrun0, hrel0, hp0, hreg0, htgt0⟩ := AsyncInput.asyncPoint_sim hS hF hok a hr hp hh
    have hfq0 := hfq0 hfq
    have hpf0 := trun_pendFresh toks0 hrun0 hpf
    generalize asyncPoint a s = p at hh0 hfq0 he0 hrel0 hreg0 ⊢
    obtain ⟨a0, s0⟩ := p
    dsimp only at hh0 hfq0 he0 hrel0 hreg0 ⊢
    cases hq : s0.inputRequests with
    | nil =>
      dsimp only
      intro _
      exact ⟨toks0, ms0, he0, hrun0, hrel0, hp0, hreg0, htgt0, ⟨hq, noMid_of_drained hrel0 hq hfq0, hfq0⟩, hpf0⟩
    | cons r rest =>
      dsimp only
      have hr1 := hrel0.popInput hp0 hq
      have hpi := processInputRequest_sim demandRule_sim rules hok { s0 with inputRequests := rest } ms0 r hr1 hp0 hh0 hfq0 hpf0
      generalize processInputRequest r { s0 with inputRequests := rest } = s1 at hpi ⊢
      intro hfin
      have hh1 : s1.halted = false := (inputRequestsLoopA_haltMono fuel true a0).of_result hfin
      obtain ⟨toks1, ms1, he1, hrun1, hrel1, hp1, hreg1, htgt1, hfq1, hpf1⟩ := hpi hh1
      obtain ⟨toks2, ms2, he2, hrun2, hrel2, hp2, hreg2, htgt2, hpost, hpf2⟩ :=
        ih true a0 s1 ms1 hrel1 hp1 hh1 hfq1 hpf1 hfin
      have he1' : Emits s0 toks1 s1 := he1
      exact ⟨toks0 ++ (toks1 ++ toks2), ms2, he0.trans (he1'.trans he2),
        trun_append_some hrun0 (trun_append_some hrun1 hrun2), hrel2, hp2,
        fun k hk => hreg2 k (hreg1 k (hreg0 k hk)), htgt2.trans (htgt1.trans htgt0), hpost, hpf2⟩

/-! ## (X) `Aux` -/

theorem AsyncInput.asyncPoint_aux (hA : AsyncStepAux) {rules : List RuleSpec} (a : Async) {s : State} {ms : MSt} {key : Key}
    (hr : Rel rules s ms {}) (hp : ms.pend = none) (hh : s.halted = false) (haux : Aux key s {}) :
    Aux key (asyncPoint a s).2 {} := by
  cases a with
  | nil => exact haux
  | cons it rest => exact hA rules it s ms key hr hp hh haux

theorem inputRequestsLoopA_aux (hS : AsyncStepSim) (hF : AsyncStepFrame) (hA : AsyncStepAux) :
    ∀ rules, RulesOk rules → ∀ (fuel : Nat) (w : Bool) (a : Async) (s : State) (ms : MSt) (key : Key),
      Rel rules s ms {} → ms.pend = none → s.halted = false → FreshScanQ s → PendFresh ms.m →
      (inputRequestsLoopA fuel w a s).2.2.halted = false → ScanRuleAux → DemandRuleAuxI →
      Aux key s {} → Aux key (inputRequestsLoopA fuel w a s).2.2 {} := by
  intro rules hok fuel
  induction fuel with
  | zero =>
    intro w a s ms key _ _ _ _ _ hfin
    rw [inputRequestsLoopA] at hfin
    simp only at hfin
    rw [halt_halted] at hfin; cases hfin
  | succ fuel ih =>
    intro w a s ms key hr hp hh hfq hpf hfin hsa hda haux
    rw [inputRequestsLoopA] at hfin ⊢
    obtain ⟨hh0, _, hfq0, toks0, ms0, _, hrun0, hrel0, hp0, _, _⟩ := AsyncInput.asyncPoint_sim hS hF hok a hr hp hh
    have hfq0 := hfq0 hfq
    have hpf0 := trun_pendFresh toks0 hrun0 hpf
    have haux0 := AsyncInput.asyncPoint_aux hA a hr hp hh haux
    generalize asyncPoint a s = p at hh0 hfq0 hrel0 haux0 hfin ⊢
    obtain ⟨a0, s0⟩ := p
    dsimp only at hh0 hfq0 hrel0 haux0 hfin ⊢
    cases hq : s0.inputRequests with
    | nil => dsimp only; exact haux0
    | cons r rest =>
      rw [hq] at hfin
      dsimp only at hfin ⊢
      have hr1 := hrel0.popInput hp0 hq
      have haux1 : Aux key { s0 with inputRequests := rest } { inp := [r] } := by
        refine ⟨haux0.readyZero, ?_⟩
        rcases haux0.rootSeen with h1 | ⟨r0, h1, h2⟩
        · exact Or.inl h1
        · refine Or.inr ⟨r0, ?_, h2⟩
          have h1' : r0 ∈ s0.inputRequests := h1
          rw [hq] at h1'; exact h1'
      have hpi := processInputRequest_sim demandRule_sim rules hok { s0 with inputRequests := rest } ms0 r hr1 hp0 hh0 hfq0 hpf0
      have hpa := processInputRequest_aux demandRule_sim hsa hda rules hok { s0 with inputRequests := rest } ms0 r key
        hr1 hp0 hh0 hfq0 hpf0
      generalize processInputRequest r { s0 with inputRequests := rest } = s1 at hpi hpa hfin ⊢
      have hh1 : s1.halted = false := (inputRequestsLoopA_haltMono fuel true a0).of_result hfin
      obtain ⟨toks1, ms1, _, _, hrel1, hp1, _, _, hfq1, hpf1⟩ := hpi hh1
      exact ih true a0 s1 ms1 key hrel1 hp1 hh1 hfq1 hpf1 hfin hsa hda (hpa hh1 haux1)

/-! ## (T) no halt, and the potential -/

theorem AsyncInput.asyncPoint_term (hT : AsyncStepTerm) {rules : List RuleSpec} {U : List Key} (a : Async) {s : State} {ms : MSt}
    (hr : Rel rules s ms {}) (hp : ms.pend = none) (hh : s.halted = false) (c : ClosedU rules U s) :
    TermStep rules U s {} (asyncPoint a s).2 {} 0 := by
  cases a with
  | nil => exact ⟨c, Nat.le_refl _⟩
  | cons it rest => exact (hT rules U it s ms hr hp hh c).mono (Nat.zero_le _)

/-- **T1 and T2 for `inputRequestsLoopA`**: the drop is by the work flag (a completion arriving at a boundary adds no
input request, but the statement has the common shape of the five queue loops) -/
theorem inputRequestsLoopA_nohalt_term (hS : AsyncStepSim) (hF : AsyncStepFrame) (hT : AsyncStepTerm)
    (hst : TermInput.ScanRuleTerm) (hdn : TermInput.DemandRuleNoHalt) (hdt : TermInput.DemandRuleTerm) :
    ∀ rules, RulesOk rules → ∀ (U : List Key) (fuel : Nat) (w : Bool) (a : Async) (s : State) (ms : MSt),
      Rel rules s ms {} → ms.pend = none → s.halted = false → FreshScanQ s → PendFresh ms.m →
      ClosedU rules U s → Phi rules U s {} < fuel →
      (inputRequestsLoopA fuel w a s).2.2.halted = false ∧
      TermStep rules U s {} (inputRequestsLoopA fuel w a s).2.2 {}
        (if w = false ∧ (inputRequestsLoopA fuel w a s).1 = true then 1 else 0) := by
  intro rules hok U fuel
  induction fuel with
  | zero => intro w a s ms _ _ _ _ _ _ hlt; exact absurd hlt (Nat.not_lt_zero _)
  | succ fuel ih =>
    intro w a s ms hr hp hh hfq hpf c hlt
    rw [inputRequestsLoopA]
    obtain ⟨hh0, _, hfq0, toks0, ms0, _, hrun0, hrel0, hp0, _, _⟩ := AsyncInput.asyncPoint_sim hS hF hok a hr hp hh
    have hfq0 := hfq0 hfq
    have hpf0 := trun_pendFresh toks0 hrun0 hpf
    obtain ⟨c0, hphi0⟩ := AsyncInput.asyncPoint_term hT a hr hp hh c
    generalize asyncPoint a s = p at hh0 hfq0 hrel0 c0 hphi0 ⊢
    obtain ⟨a0, s0⟩ := p
    dsimp only at hh0 hfq0 hrel0 c0 hphi0 ⊢
    cases hq : s0.inputRequests with
    | nil =>
      dsimp only
      refine ⟨hh0, c0, ?_⟩
      have : (if w = false ∧ w = true then 1 else 0) = 0 := by cases w <;> simp
      rw [this]; omega
    | cons r rest =>
      dsimp only
      have hr1 := hrel0.popInput hp0 hq
      have c1 := c0.popInput hq
      have hU := c0.popped_mem hq
      have hphi1 := Phi_popInput0 rules U hq
      have hnh := processInputRequest_nohalt hst hdn rules hok { s0 with inputRequests := rest } ms0 r U hr1 hp0 hh0 hfq0 hpf0 c1 hU
      have htm := processInputRequest_term hst hdn hdt rules hok { s0 with inputRequests := rest } ms0 r U hr1 hp0 hh0 hfq0 hpf0 c1 hU
      have hpi := processInputRequest_sim demandRule_sim rules hok { s0 with inputRequests := rest } ms0 r hr1 hp0 hh0 hfq0 hpf0
      obtain ⟨toks1, ms1, _, _, hrel1, hp1, _, _, hfq1, hpf1⟩ := hpi hnh
      have hdrop := htm.2
      obtain ⟨hres, c2, hphi2⟩ := ih true a0 _ ms1 hrel1 hp1 hnh hfq1 hpf1 htm.1 (by omega)
      refine ⟨hres, c2, ?_⟩
      have hle : ∀ (P : Prop) [Decidable P], (if P then 1 else 0) ≤ 1 := by
        intro P _; split <;> omega
      have := hle (w = false ∧ (inputRequestsLoopA fuel true a0
        (processInputRequest r { s0 with inputRequests := rest })).1 = true)
      omega

theorem inputRequestsLoopA_nohalt (hS : AsyncStepSim) (hF : AsyncStepFrame) (hT : AsyncStepTerm)
    (hst : TermInput.ScanRuleTerm) (hdn : TermInput.DemandRuleNoHalt) (hdt : TermInput.DemandRuleTerm) :
    ∀ rules, RulesOk rules → ∀ (U : List Key) (fuel : Nat) (w : Bool) (a : Async) (s : State) (ms : MSt),
      Rel rules s ms {} → ms.pend = none → s.halted = false → FreshScanQ s → PendFresh ms.m →
      ClosedU rules U s → Phi rules U s {} < fuel → (inputRequestsLoopA fuel w a s).2.2.halted = false :=
  fun rules hok U fuel w a s ms hr hp hh hfq hpf c hlt =>
    (inputRequestsLoopA_nohalt_term hS hF hT hst hdn hdt rules hok U fuel w a s ms hr hp hh hfq hpf c hlt).1

theorem inputRequestsLoopA_term (hS : AsyncStepSim) (hF : AsyncStepFrame) (hT : AsyncStepTerm)
    (hst : TermInput.ScanRuleTerm) (hdn : TermInput.DemandRuleNoHalt) (hdt : TermInput.DemandRuleTerm) :
    ∀ rules, RulesOk rules → ∀ (U : List Key) (fuel : Nat) (w : Bool) (a : Async) (s : State) (ms : MSt),
      Rel rules s ms {} → ms.pend = none → s.halted = false → FreshScanQ s → PendFresh ms.m →
      ClosedU rules U s → Phi rules U s {} < fuel →
      TermStep rules U s {} (inputRequestsLoopA fuel w a s).2.2 {}
        (if w = false ∧ (inputRequestsLoopA fuel w a s).1 = true then 1 else 0) :=
  fun rules hok U fuel w a s ms hr hp hh hfq hpf c hlt =>
    (inputRequestsLoopA_nohalt_term hS hF hT hst hdn hdt rules hok U fuel w a s ms hr hp hh hfq hpf c hlt).2

end LLBuild.Refine
