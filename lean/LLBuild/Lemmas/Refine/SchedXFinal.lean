/-
C06 "the same set of executed rules" — stage 4b: **`runBuildA_simX`**: every trace of the concrete engine model (any hook
schedule, any `cancelAtEvent`, any asynchronous schedule of completions / `cancelBuild()` at the item boundaries) that does
not halt is accepted by the token monitor WITH THE IN-ORDER GUARDS (`trunX`, Sched3.lean): every `S k 0` is demanded by the
requested key, a pending discovered dependency, an issued request of a running task, or by a rule being scanned ALL OF
WHOSE EARLIER DEPENDENCIES ARE FRESH; every `N k 3 (some d)` names the FIRST stale dependency of `k`.
The walk of Final3.lean §1 (`executeTasksA_sim`, `buildWorkA_sim`, `buildPreA_sim`, `runBuildA_sim`) with
`WorkLoopSpecAX` (SchedXWork.lean); the prologue / epilogue of `build` record no X-token.
-/
import LLBuild.Lemmas.Refine.SchedXWork

namespace LLBuild.Refine
open LLBuild.Engine LLBuild.Engine.DSL LLBuild.EngineImpl

theorem executeTasksA_simX {rules : List RuleSpec} (hloop : WorkLoopSpecAX rules) {key : Key} (a : Async) {s : State}
    {m : Engine.St} (hr : RelPre rules key true s m) (hfin : s.finishedInputRequests = []) (hh : s.halted = false)
    (hnh : (executeTasksA key a s).2.2.halted = false) :
    ∃ toks m', Emits s toks (executeTasksA key a s).2.2 ∧ trunX (program rules) ⟨m, none⟩ toks = some ⟨m', none⟩ ∧
      RelPost rules key (executeTasksA key a s).2.2 m' (executeTasksA key a s).1 ∧ m'.started = true := by
  have hs0 : ({ s with finishedInputRequests := [] } : State) = s := by
    cases s; simp at hfin; simp [hfin]
  unfold executeTasksA at hnh ⊢
  simp only [hs0] at hnh ⊢
  obtain ⟨toks1, m1, he1, hrun1, hr1, hreg1, hh1⟩ := hr.getRule hh key
  have hrunX1 := (noXB_getRuleInfoForKey key s).trunX he1 hrun1
  have hrel := Rel.entry hr1
  have hrel2 := hrel.pushDummy { taskInfo := none, inputID := 0, inputRuleInfo := key } rfl hreg1 rfl
    (Or.inr (Or.inl hr1.target))
  have hnm : NoMid (pushInput { taskInfo := none, inputID := 0, inputRuleInfo := key } (getRuleInfoForKey key s)) := by
    intro k ri hl
    rcases hr1.states k ri hl with e | e <;> rw [e] <;> exact ⟨by decide, by decide⟩
  have haux : Aux key (pushInput { taskInfo := none, inputID := 0, inputRuleInfo := key } (getRuleInfoForKey key s)) {} :=
    { readyZero := fun a t hl => (by
        have : (getRuleInfoForKey key s).taskInfos.lookup a = some t := hl
        rw [hr1.noTasks] at this; cases this),
      rootSeen := Or.inr ⟨{ taskInfo := none, inputID := 0, inputRuleInfo := key }, by simp [pushInput], rfl⟩ }
  obtain ⟨toks2, m2, he2, hrun2, hpost, hst⟩ :=
    hloop key loopFuel a _ _ hrel2 hnm rfl hr1.target hreg1 hh1
      (fun p hp => by rw [hr1.noPending] at hp; cases hp)
      (fun a q hd => by rw [hr1.noSeq a] at hd; simp [delivered] at hd)
      haux hnh
  exact ⟨toks1 ++ toks2, m2, he1.trans he2, trunX_append_some hrunX1 hrun2, hpost, hst⟩

theorem buildWorkA_simX {rules : List RuleSpec} (hloop : WorkLoopSpecAX rules) {key : Key} (a : Async) {s : State}
    {m : Engine.St} (hr : RelPre rules key false s m) (hh : s.halted = false)
    (hnh : (buildWorkA key a s).2.halted = false) :
    ∃ toks m' b, Emits s toks (buildWorkA key a s).2 ∧ trunX (program rules) ⟨m, none⟩ toks = some ⟨m', none⟩ ∧
      PostOk rules key (buildWorkA key a s) m' b := by
  rw [buildWorkA_halted] at hnh
  obtain ⟨m2, hstep2, hr2⟩ := prologue_QC hr hh
  have hsQ : ({ emit .QC s with currentEpoch := (emit .QC s).currentEpoch + 1 } : State) =
      { emit .QC s with currentEpoch := (emit .QC s).currentEpoch + 1, finishedInputRequests := [] } := by
    have : (emit .QC s).finishedInputRequests = [] := by simp [hr.noFinQ]
    rw [← this]
  unfold buildWorkA
  rw [hsQ] at hnh ⊢
  have heQ : Emits s [.QC]
      { emit .QC s with currentEpoch := (emit .QC s).currentEpoch + 1, finishedInputRequests := [] } := by
    rw [emit_QC _ hh]; simp [Emits]
  have hhQ : ({ emit .QC s with currentEpoch := (emit .QC s).currentEpoch + 1, finishedInputRequests := [] } : State).halted = false := by
    show (emit .QC s).halted = false
    simp [hh]
  obtain ⟨toks3, m3, he3, hrun3, hpost, hst3⟩ := executeTasksA_simX hloop a hr2 rfl hhQ hnh
  obtain ⟨toks4, m4, he4, hrun4, b, hp⟩ := buildTail_sim (key := key)
    (r := ((executeTasksA key a { emit .QC s with currentEpoch := (emit .QC s).currentEpoch + 1, finishedInputRequests := [] }).1,
           (executeTasksA key a { emit .QC s with currentEpoch := (emit .QC s).currentEpoch + 1, finishedInputRequests := [] }).2.2))
    hpost hst3 hnh
  have hrunX4 := (noXB_buildTail key
    ((executeTasksA key a { emit .QC s with currentEpoch := (emit .QC s).currentEpoch + 1, finishedInputRequests := [] }).1,
     (executeTasksA key a { emit .QC s with currentEpoch := (emit .QC s).currentEpoch + 1, finishedInputRequests := [] }).2.2)).trunX
    he4 hrun4
  refine ⟨[.QC] ++ toks3 ++ toks4, m4, b, (heQ.trans he3).trans he4, ?_, hp⟩
  refine trunX_append_some (trunX_append_some ?_ hrun3) hrunX4
  exact trunX_single (tstepX_of (tstep_ev (by rfl) (by rfl) hstep2) rfl)

theorem buildPreA_simX {rules : List RuleSpec} (hloop : WorkLoopSpecAX rules) {key : Key} (a : Async) {s : State}
    {m : Engine.St} (hr : RelPre rules key false s m) (hh : s.halted = false)
    (hnh : (buildPreA key a s).2.halted = false) :
    ∃ toks m' b, Emits s toks (buildPreA key a s).2 ∧ trunX (program rules) ⟨m, none⟩ toks = some ⟨m', none⟩ ∧
      PostOk rules key (buildPreA key a s) m' b := by
  unfold buildPreA at hnh ⊢
  simp only [hr.hasDB, if_true] at hnh ⊢
  obtain ⟨toks1, m1, he1, hrun1, hr1, hh1⟩ := prologue_DB hr hh
  have hrunX1 := (NoXB.emit .DB s rfl).trunX he1 hrun1
  by_cases hc : (emit .DB s).buildCancelled = true
  · simp only [hc, if_true] at hnh ⊢
    exact ⟨toks1, m1, false, he1, hrunX1,
      { post := hr1.toPost hc, iter := Or.inl hr1.startedEq, iterEq := hr1.iterEq rfl,
        valOk := fun h => (by cases h), valFail := fun _ => rfl }⟩
  · simp only [hc, Bool.false_eq_true, if_false] at hnh ⊢
    obtain ⟨toks2, m2, b, he2, hrun2, hp⟩ := buildWorkA_simX hloop a hr1 hh1 hnh
    exact ⟨toks1 ++ toks2, m2, b, he1.trans he2, trunX_append_some hrunX1 hrun2, hp⟩

/-- `DE ; R v ; Z` records no X-token -/
theorem noXB_close (v : Val) (s : State) :
    NoXB s (emit (.Z (emit (.R v) { emit .DE s with buildActive := false }).taskInfos.length 0)
      (emit (.R v) { emit .DE s with buildActive := false })) :=
  ((NoXB.emit .DE s rfl).trans
    ((NoXB.emit (.R v) { emit .DE s with buildActive := false } rfl).of_trace_eq rfl)).trans
    (NoXB.emit _ _ rfl)

/-- `runBuildA_sim` (Final3.lean) with the in-order guards, modulo the work loop -/
theorem runBuildA_simX_of {rules : List RuleSpec} (hloop : WorkLoopSpecAX rules) {s : State} {m : Engine.St}
    (hr : RelIdle rules s m) (key cancelAt : Nat) (sched : List SchedItem) (a : Async)
    (hnh : (runBuildA key cancelAt sched a s).halted = false) :
    ∃ m', trunX (program rules) ⟨m, none⟩ (runBuildA key cancelAt sched a s).trace.reverse = some ⟨m', none⟩ ∧
      RelIdle rules (runBuildA key cancelAt sched a s) m' := by
  obtain ⟨toks1, m1, he1, hrun1, hr1, hh1⟩ := prologue_B hr key cancelAt sched
  have hrunX1 := (NoXB.emit (.B key) (buildInit cancelAt sched s) rfl).trunX he1 hrun1
  have hnhP : (buildPreA key a (emit (.B key) (buildInit cancelAt sched s))).2.halted = false := by
    rw [← runBuildA_pre_halted]; exact hnh
  obtain ⟨toks2, m2, b, he2, hrun2, hp⟩ := buildPreA_simX hloop a hr1 hh1 hnhP
  have hdb : (buildPreA key a (emit (.B key) (buildInit cancelAt sched s))).2.hasDB = true := hp.post.base.hasDB
  rw [runBuildA_eq key cancelAt sched a s hdb]
  obtain ⟨toks3, m3, he3, hrun3, hidle⟩ := epilogue_close hp.post hnhP hp.iter hp.iterEq hp.valOk hp.valFail
  have hrunX3 := (noXB_close _ _).trunX he3 hrun3
  refine ⟨m3, ?_, hidle⟩
  have hem := (he1.trans he2).trans he3
  unfold Emits at hem
  unfold closeBuild
  rw [hem]
  simp only [buildInit, List.append_nil, List.reverse_reverse]
  exact trunX_append_some (trunX_append_some hrunX1 hrun2) hrunX3

/-- **The concrete engine model passes the in-order guards**: from `RelIdle`, a `runBuildA` that does not halt emits a
token trace that the token monitor accepts with the checks `tokOkX` (`demandedX` before every `S k 0`, `firstStale` before
every `N k 3 (some d)`), and ends in `RelIdle` — for every hook schedule, every `cancelAtEvent`, every asynchronous
schedule. -/
theorem runBuildA_simX {rules : List RuleSpec} (hok : RulesOk rules) {s : State} {m : Engine.St}
    (hr : RelIdle rules s m) (key cancelAt : Nat) (sched : List SchedItem) (a : Async)
    (hnh : (runBuildA key cancelAt sched a s).halted = false) :
    ∃ m', trunX (program rules) ⟨m, none⟩ (runBuildA key cancelAt sched a s).trace.reverse = some ⟨m', none⟩ ∧
      RelIdle rules (runBuildA key cancelAt sched a s) m' :=
  runBuildA_simX_of (workLoopA_finalX rules hok) hr key cancelAt sched a hnh

end LLBuild.Refine
