/-
IM3 — termination / no-stall of the transliterated engine: DEFINITIONS (design in notes/REFINE.md §8).
A potential `Phi rules U s h : Nat` on the concrete engine state (+ hand) over a finite, closed keyUniverse of keys `U`:
every item a work loop pops strictly decreases it, helper functions never increase it, so `fuel > Phi` suffices
for every loop, and `workBound` (= `Phi` of the entry state, an explicit sum over `U`) `< loopFuel, scanFuel` turns
`histOk` into a size condition.
-/
import LLBuild.Lemmas.Refine.Final

namespace LLBuild.Refine
open LLBuild.Engine LLBuild.Engine.DSL LLBuild.EngineImpl

/-- how far rule `k` is through this build: 6 idle (unregistered, `Incomplete`, stale `Complete`), 5 `IsScanning`,
4 scan verdict (`NeedsToRun`/`DoesNotNeedToRun`), 3 `InProgressWaiting`, 2 computing and not completed,
1 computing and completed (`done`), 0 complete in this epoch.  Only ever decreases inside the work loop. -/
def phase (s : State) (k : Key) : Nat :=
  match s.ruleInfos.lookup k with
  | none => 6
  | some ri =>
    match ri.state with
    | .incomplete => 6
    | .isScanning => 5
    | .needsToRun => 4
    | .doesNotNeedToRun => 4
    | .inProgressWaiting => 3
    | .inProgressComputing => if (s.task k).done then 1 else 2
    | .complete => if ri.result.builtAt = s.currentEpoch then 0 else 6

/-- the recorded dependencies a scan of `k` would walk (registered: its result; else its stored row) -/
def deps0 (s : State) (k : Key) : List Dep :=
  match s.ruleInfos.lookup k with
  | some ri => ri.result.deps
  | none => ((s.store.rows.lookup k).getD {}).deps

/-- potential of one rule: its phase plus the budget for everything it will still create: its scan request (6 per
dependency + 6) while idle, its input requests (6 each) until issued, its discovered-dependency dummies (6 each) until
it is complete -/
def ruleW (rules : List RuleSpec) (s : State) (k : Key) : Nat :=
  phase s k
  + (if phase s k = 6 then 6 * ((deps0 s k).length + 1) else 0)
  + (if 4 ≤ phase s k then 6 * (allReqs (specOf rules k)).length
     else if phase s k = 3 then 6 * ((allReqs (specOf rules k)).length - (s.task k).issuedReqs.length) else 0)
  + (if phase s k = 0 then 0 else 6 * (specOf rules k).discs.length)

/-- an input request waiting in `inputRequests` (or in hand): 5 while its target has no scan verdict yet (it may
still be parked in the scan record: 4, and come back: 3), else 3 -/
def inputQW (s : State) (r : TaskInputRequest) : Nat := if 5 ≤ phase s r.inputRuleInfo then 5 else 3

/-- what is left of the scan the request belongs to: 6 per dependency not yet passed -/
def scanRest (s : State) (r : RuleScanRequest) : Nat := 6 * ((s.rule r.ruleInfo).result.deps.length - r.inputIndex)

/-- a scan request waiting in `ruleInfosToScan` (or in hand): by the phase of the dependency it stands at -/
def scanQW (s : State) (r : RuleScanRequest) : Nat :=
  scanRest s r +
    (match (s.rule r.ruleInfo).result.deps[r.inputIndex]? with
     | none => 0
     | some d => if 5 ≤ phase s d.key then 5 else if 1 ≤ phase s d.key then 3 else 1)

def sumBy {α : Type} (f : α → Nat) (l : List α) : Nat := (l.map f).sum

/-- **the potential** -/
def Phi (rules : List RuleSpec) (U : List Key) (s : State) (h : Hand) : Nat :=
  sumBy (ruleW rules s) U
  + sumBy (inputQW s) (h.inp ++ s.inputRequests) + 4 * (pausedAll s).length + 2 * (requestedByAll s).length
  + (h.fin ++ s.finishedInputRequests).length
  + sumBy (scanQW s) (h.scan ++ s.ruleInfosToScan)
  + sumBy (fun r => scanRest s r + 4) ((liveRecords s).flatMap (fun p => p.2.deferredScanRequests))
  + sumBy (fun r => scanRest s r + 2) (s.taskInfos.flatMap (fun p => p.2.deferredScanRequests))

/-- `U` is a finite keyUniverse of keys closed under everything the build can mention -/
structure ClosedU (rules : List RuleSpec) (U : List Key) (s : State) : Prop where
  nodup : U.Nodup
  registered : ∀ k, Registered s k → k ∈ U
  reqs : ∀ k ∈ U, ∀ q ∈ allReqs (specOf rules k), q.key ∈ U
  discs : ∀ k ∈ U, ∀ d ∈ (specOf rules k).discs, d.2 ∈ U
  deps : ∀ k ∈ U, ∀ d ∈ deps0 s k, d.key ∈ U
  inputs : ∀ r ∈ s.inputRequests, r.inputRuleInfo ∈ U

/-- the shape of every termination lemma about a function `s ↦ s'` (hands `h ↦ h'`): the keyUniverse stays closed and
the potential drops by at least `c` (`c = 1` for the body of a work loop, `c = 0` for helpers) -/
def TermStep (rules : List RuleSpec) (U : List Key) (s : State) (h : Hand) (s' : State) (h' : Hand) (c : Nat) : Prop :=
  ClosedU rules U s' ∧ Phi rules U s' h' + c ≤ Phi rules U s h

theorem TermStep.trans {rules : List RuleSpec} {U : List Key} {s1 s2 s3 : State} {h1 h2 h3 : Hand} {c d : Nat}
    (a : TermStep rules U s1 h1 s2 h2 c) (b : TermStep rules U s2 h2 s3 h3 d) : TermStep rules U s1 h1 s3 h3 (c + d) :=
  ⟨b.1, by have := a.2; have := b.2; omega⟩

/-- a canonical keyUniverse: the requested key, everything the program mentions, everything the engine and the store know -/
def keyUniverse (rules : List RuleSpec) (s : State) (key : Key) : List Key :=
  (key ::
    rules.flatMap (fun sp => sp.key :: ((allReqs sp).map (fun q => q.key) ++ sp.discs.map (fun d => d.2))) ++
    s.ruleInfos.flatMap (fun p => p.1 :: p.2.result.deps.map (fun d => d.key)) ++
    s.store.rows.flatMap (fun p => p.1 :: p.2.deps.map (fun d => d.key))).eraseDups

/-- **the work bound of a build**: the potential of the state in which the work loop is entered (every key idle for
the new epoch, the dummy request for `key` queued), an explicit sum over `keyUniverse` -/
def workBound (rules : List RuleSpec) (s : State) (key : Key) : Nat :=
  sumBy (fun k => 6 + 6 * ((deps0 s k).length + 1) + 6 * (allReqs (specOf rules k)).length + 6 * (specOf rules k).discs.length)
    (keyUniverse rules s key) + 5

end LLBuild.Refine
