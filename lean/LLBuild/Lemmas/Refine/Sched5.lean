/-
C05 on the transliterated engine — monitor and trace facts for ARBITRARY builds (cancelled, failed or not):
* `runBuildA_trace_shape0`: the trace is `B key :: rest ++ DE :: x ++ [R v, Z 0 0]` with `x = []` or `[X]`: nothing follows `Z`,
  after `R` only `Z 0 0` (no task alive, no late callback);
* `trun_sticky`: inside a build the flags `cycleSeen` / `errSeen` / `cancelled` are sticky and raised by `CY` / `ER` / `X`;
* `trun_db`: the database changes only at `DS k row`, to exactly `row`;
* `trun_completed`: a `DS k row` is preceded, in the same build, by a `C k v f` (the task of `k` really completed);
* `build_general`: the monitor's view of the end of any build: the state `m1` in which `ret v` is accepted.
-/
import LLBuild.Lemmas.Refine.Sched4

namespace LLBuild.Refine
open LLBuild.Engine LLBuild.Engine.DSL LLBuild.EngineImpl

/-! ## 1. the end of the trace -/

/-- **the shape of the trace of any build that did not halt**, with the counters of `Z`: `Z 0 0` -/
theorem runBuildA_trace_shape0 {rules : List RuleSpec} (hloop : WorkLoopSpecA rules) {s : State} {m : Engine.St}
    (hr : RelIdle rules s m) (key cancelAt : Nat) (sched : List SchedItem) (a : Async)
    (hnh : (runBuildA key cancelAt sched a s).halted = false) :
    ∃ rest v x, (runBuildA key cancelAt sched a s).trace.reverse = (.B key :: rest) ++ .DE :: (x ++ [.R v, .Z 0 0]) ∧
      (x = [] ∨ x = [.X]) ∧ ∀ t ∈ Tok.B key :: rest, Tok.isClose t = false := by
  obtain ⟨rest, v, n, x, h, hx, hnc⟩ := runBuildA_trace_shape hloop hr key cancelAt sched a hnh
  refine ⟨rest, v, x, ?_, hx, hnc⟩
  suffices hn : n = 0 by rw [h, hn]
  -- the last token, computed from the definition
  obtain ⟨toks1, m1, he1, hrun1, hr1, hh1⟩ := prologue_B hr key cancelAt sched
  have hnhP : (buildPreA key a (emit (.B key) (buildInit cancelAt sched s))).2.halted = false := by
    rw [← runBuildA_pre_halted]; exact hnh
  obtain ⟨toks2, m2, b, he2, hrun2, hp⟩ := buildPreA_sim hloop a hr1 hh1 hnhP
  have hdb : (buildPreA key a (emit (.B key) (buildInit cancelAt sched s))).2.hasDB = true := hp.post.base.hasDB
  have htasks : (buildPreA key a (emit (.B key) (buildInit cancelAt sched s))).2.taskInfos = [] := hp.post.noTasks
  have hfin := runBuildA_eq key cancelAt sched a s hdb
  generalize buildPreA key a (emit (.B key) (buildInit cancelAt sched s)) = p at hnhP htasks hfin
  obtain ⟨v', sp⟩ := p
  simp only at hnhP htasks hfin
  have hh1' : (emit .DE sp).halted = false := by rw [emit_halted_eq]; exact hnhP
  have htr : (runBuildA key cancelAt sched a s).trace = .Z (emit .DE sp).taskInfos.length 0 :: .R v' :: (emit .DE sp).trace := by
    rw [hfin]; unfold closeBuild; exact close_trace v' (emit .DE sp) hh1'
  have hlen : (emit .DE sp).taskInfos.length = 0 := by rw [(emit_same .DE sp).taskInfos, htasks]; rfl
  rw [hlen] at htr
  have hlast : (runBuildA key cancelAt sched a s).trace.reverse.getLast? = some (.Z 0 0) := by
    rw [htr]; simp
  rw [h] at hlast
  have : ((Tok.B key :: rest) ++ Tok.DE :: (x ++ [Tok.R v, Tok.Z n 0])) =
      ((Tok.B key :: rest) ++ Tok.DE :: (x ++ [Tok.R v])) ++ [Tok.Z n 0] := by simp
  rw [this, List.getLast?_concat] at hlast
  cases hlast
  rfl

/-- `buildStart` is rejected inside a build -/
theorem step_buildStart_inside (P : Program) {m : Engine.St} (k : Key) (htg : m.target.isSome = true) :
    step P m (.buildStart k) = none := by
  cases hm : m.target with
  | none => rw [hm] at htg; cases htg
  | some x => simp [step, hm]

theorem toEvent_complete {t : Tok} {k : Key} {v : Val} {f : Bool} (h : t.toEvent? = some (.complete k v f)) :
    ∃ f', t = .C k v f' := by
  cases t with
  | S k0 n =>
    rcases n with _ | _ | n <;> simp [Tok.toEvent?] at h
  | C k0 v0 f0 =>
    simp only [Tok.toEvent?, Option.some.injEq, Event.complete.injEq] at h
    obtain ⟨e1, e2, _⟩ := h
    subst e1; subst e2
    exact ⟨f0, rfl⟩
  | _ => simp [Tok.toEvent?] at h

/-! ## 2. sticky flags -/

/-- a flag that is up stays up, and its token raises it (events of the middle of a build, `dbEnd` included) -/
theorem step_sticky {P : Program} {m m' : Engine.St} {e : Event} (h : step P m e = some m') (hmid : Event.isMidX e = true) :
    (m.cycleSeen = true → m'.cycleSeen = true) ∧ (m.errSeen = true → m'.errSeen = true) ∧
    (m.cancelled = true → m'.cancelled = true) ∧
    ((∃ ks, e = .cycle ks) → m'.cycleSeen = true) ∧ ((∃ c, e = .error c) → m'.errSeen = true) ∧
    (e = .cancel → m'.cancelled = true) := by
  cases e <;> first
    | (exact Bool.noConfusion hmid)
    | (simp only [step] at h
       repeat' split at h
       all_goals (first | cases h | skip)
       all_goals (refine ⟨?_, ?_, ?_, ?_, ?_, ?_⟩ <;> first | exact id | (intro hh; first | rfl | (obtain ⟨_, hh⟩ := hh; cases hh) | cases hh)))

def Tok.isCY : Tok → Bool
  | .CY _ => true
  | _ => false

def Tok.isER : Tok → Bool
  | .ER _ => true
  | _ => false

def Tok.isXc : Tok → Bool
  | .X => true
  | _ => false

/-- what the flags say about the tokens seen -/
structure Flags (m : Engine.St) (cy er xc : Bool) : Prop where
  cy : cy = true → m.cycleSeen = true
  er : er = true → m.errSeen = true
  xc : xc = true → m.cancelled = true

theorem tstep_sticky {P : Program} {ms ms' : MSt} {t : Tok} (h : tstep P ms t = some ms') (hc : Tok.isClose t = false ∨ t = .DE)
    (htg : ms.m.target.isSome = true) {cy er xc : Bool} (hf : Flags ms.m cy er xc) :
    Flags ms'.m (cy || Tok.isCY t) (er || Tok.isER t) (xc || Tok.isXc t) := by
  rcases tstep_event h with ⟨⟨k, e⟩, hm⟩ | ⟨e, he | ⟨k, row, ht, he⟩, hst⟩
  · subst e; rw [hm]
    exact ⟨fun hh => hf.cy (by simpa [Tok.isCY] using hh), fun hh => hf.er (by simpa [Tok.isER] using hh),
      fun hh => hf.xc (by simpa [Tok.isXc] using hh)⟩
  · have hmid : Event.isMidX e = true := by
      rcases hc with hc | hc
      · rcases toEvent_midX he hc with hmid | ⟨k, hk⟩
        · exact hmid
        · subst hk
          rw [step_buildStart_inside P k htg] at hst
          cases hst
      · subst hc
        simp only [Tok.toEvent?, Option.some.injEq] at he; subst he; rfl
    obtain ⟨s1, s2, s3, s4, s5, s6⟩ := step_sticky hst hmid
    refine ⟨fun hh => ?_, fun hh => ?_, fun hh => ?_⟩
    · rcases Bool.or_eq_true _ _ ▸ hh with a | a
      · exact s1 (hf.cy a)
      · cases t <;> first | cases a | skip
        simp only [Tok.toEvent?, Option.some.injEq] at he
        exact s4 ⟨_, he.symm⟩
    · rcases Bool.or_eq_true _ _ ▸ hh with a | a
      · exact s2 (hf.er a)
      · cases t <;> first | cases a | skip
        simp only [Tok.toEvent?, Option.some.injEq] at he
        exact s5 ⟨_, he.symm⟩
    · rcases Bool.or_eq_true _ _ ▸ hh with a | a
      · exact s3 (hf.xc a)
      · cases t <;> first | cases a | skip
        simp only [Tok.toEvent?, Option.some.injEq] at he
        exact s6 he.symm
  · subst ht; subst he
    obtain ⟨s1, s2, s3, _, _, _⟩ := step_sticky hst rfl
    exact ⟨fun hh => s1 (hf.cy (by simpa [Tok.isCY] using hh)), fun hh => s2 (hf.er (by simpa [Tok.isER] using hh)),
      fun hh => s3 (hf.xc (by simpa [Tok.isXc] using hh))⟩

/-- an accepted token other than `Z` (and the harness ops) keeps a target -/
theorem tstep_target_isSome {P : Program} {ms ms' : MSt} {t : Tok} (h : tstep P ms t = some ms')
    (hc : Tok.isClose t = false ∨ t = .DE) (htg : ms.m.target.isSome = true) : ms'.m.target.isSome = true := by
  rcases hc with hc | hc
  · exact (tstep_inner h (isClose_false hc).1 (isClose_false hc).2).2.2.2 htg
  · subst hc
    have := tstep_ev_inv h (e := .dbEnd) rfl
    rw [(step_dbEnd_frame this).2.2.2.1]; exact htg

theorem trun_sticky {P : Program} : ∀ (toks : List Tok) (ms ms' : MSt) (cy er xc : Bool), trun P ms toks = some ms' →
    (∀ t ∈ toks, Tok.isClose t = false ∨ t = .DE) → ms.m.target.isSome = true → Flags ms.m cy er xc →
    Flags ms'.m (cy || toks.any Tok.isCY) (er || toks.any Tok.isER) (xc || toks.any Tok.isXc)
  | [], ms, ms', cy, er, xc, h, _, _, hf => by
    simp only [trun, Option.some.injEq] at h; subst h
    simpa using hf
  | t :: ts, ms, ms', cy, er, xc, h, hc, htg, hf => by
    simp only [trun] at h
    cases hts : tstep P ms t with
    | none => rw [hts] at h; simp at h
    | some ms1 =>
      rw [hts] at h; simp only [Option.bind_some] at h
      have h1 := tstep_sticky hts (hc t List.mem_cons_self) htg hf
      have h2 := trun_sticky ts ms1 ms' _ _ _ h (fun t' ht' => hc t' (List.mem_cons_of_mem _ ht'))
        (tstep_target_isSome hts (hc t List.mem_cons_self) htg) h1
      simpa [List.any_cons, Bool.or_assoc] using h2

/-! ## 3. the database changes only at `DS k row`, to `row` -/

/-- the events that write the database -/
def Event.writesDBX : Event → Bool
  | .finished _ _ => true
  | .wipe => true
  | .crash => true
  | _ => false

theorem step_db_frame {P : Program} {m m' : Engine.St} {e : Event} (h : step P m e = some m')
    (he : Event.writesDBX e = false) : m'.db = m.db := by
  cases e <;> first
    | (exact Bool.noConfusion he)
    | (simp only [step] at h
       repeat' split at h
       all_goals (first | cases h | skip)
       all_goals rfl)

theorem step_finished_db {P : Program} {m m' : Engine.St} {k : Key} {row : Res} (h : step P m (.finished k row) = some m') :
    m'.db.res k = row ∧ ∀ k', k' ≠ k → m'.db.res k' = m.db.res k' := by
  simp only [step] at h
  split at h
  · rename_i hc
    cases h
    simp only [Bool.and_eq_true, beq_iff_eq] at hc
    obtain ⟨⟨⟨⟨⟨⟨⟨⟨⟨_, _⟩, _⟩, hv⟩, hs⟩, hb⟩, hca⟩, _⟩, _⟩, _⟩ := hc
    constructor
    · show upd m.db.res k _ k = row
      rw [upd_same]
      cases row
      simp only [Res.mk.injEq]
      simp only at hv hs hb hca
      exact ⟨hv.symm, hs.symm, hca.symm, hb.symm, trivial⟩
    · intro k' hk'
      show upd m.db.res k _ k' = _
      rw [upd_other _ _ _ _ hk']
  · cases h

theorem toEvent_noWrite {t : Tok} {e : Event} (h : t.toEvent? = some e) : Event.writesDBX e = false := by
  cases t with
  | S k n =>
    rcases n with _ | _ | n
    · simp only [Tok.toEvent?, Option.some.injEq] at h; subst h; rfl
    · simp only [Tok.toEvent?, Option.some.injEq] at h; subst h; rfl
    · simp [Tok.toEvent?] at h
  | _ => first
    | (simp only [Tok.toEvent?, Option.some.injEq] at h; subst h; rfl)
    | (simp [Tok.toEvent?] at h)

/-- **rows change only at `DS`**: after an accepted token run every database row is the old one or the `row` of a
`DS k row` token of the run -/
theorem trun_db {P : Program} : ∀ (toks : List Tok) (ms ms' : MSt), trun P ms toks = some ms' →
    ∀ k, ms'.m.db.res k = ms.m.db.res k ∨ Tok.DS k (ms'.m.db.res k) ∈ toks
  | [], ms, ms', h, k => by
    simp only [trun, Option.some.injEq] at h; subst h; exact Or.inl rfl
  | t :: ts, ms, ms', h, k => by
    simp only [trun] at h
    cases hts : tstep P ms t with
    | none => rw [hts] at h; simp at h
    | some ms1 =>
      rw [hts] at h; simp only [Option.bind_some] at h
      rcases trun_db ts ms1 ms' h k with e | e
      · rw [e]
        rcases tstep_event hts with ⟨_, hm⟩ | ⟨ev, he | ⟨k0, row, ht, he⟩, hst⟩
        · rw [hm]; exact Or.inl rfl
        · rw [step_db_frame hst (toEvent_noWrite he)]; exact Or.inl rfl
        · subst ht; subst he
          obtain ⟨h1, h2⟩ := step_finished_db hst
          by_cases ek : k = k0
          · subst ek; right; rw [h1]; exact List.mem_cons_self
          · left; exact h2 k ek
      · exact Or.inr (List.mem_cons_of_mem _ e)

/-! ## 4. a `DS k` is preceded by a `C k` -/

theorem step_completed {P : Program} {m m' : Engine.St} {e : Event} (h : step P m e = some m')
    (hmid : Event.isMidX e = true) (k : Key) (hk : (m'.task k).completed = true) :
    (m.task k).completed = true ∨ ∃ v f, e = .complete k v f := by
  cases e with
  | create k0 =>
    simp only [step] at h
    split at h
    · cases h
      by_cases e : k = k0
      · subst e; simp [upd] at hk
      · left; simpa [upd, e] using hk
    · cases h
  | start k0 reqs =>
    simp only [step] at h
    split at h
    · cases h
      by_cases e : k = k0
      · subst e; simp [upd] at hk
      · left; simpa [upd, e] using hk
    · cases h
  | prior k0 v =>
    simp only [step] at h
    split at h
    · cases h
      by_cases e : k = k0
      · subst e; left; simpa [upd] using hk
      · left; simpa [upd, e] using hk
    · cases h
  | provide k0 id key v reqs =>
    simp only [step] at h
    split at h
    · split at h
      · cases h
      · split at h
        · cases h
          by_cases e : k = k0
          · subst e; left; simpa [upd] using hk
          · left; simpa [upd, e] using hk
        · cases h
    · cases h
  | inputsAvail k0 ds =>
    simp only [step] at h
    split at h
    · cases h
      by_cases e : k = k0
      · subst e; left; simpa [upd] using hk
      · left; simpa [upd, e] using hk
    · cases h
  | complete k0 v f =>
    simp only [step] at h
    split at h
    · cases h
      by_cases e : k = k0
      · subst e; right; exact ⟨v, f, rfl⟩
      · left; simpa [upd, e] using hk
    · cases h
  | _ => first
    | (exact Bool.noConfusion hmid)
    | (simp only [step] at h
       repeat' split at h
       all_goals (first | cases h | skip)
       all_goals (left; exact hk))

/-- a `finished k` is accepted only for a task that completed -/
theorem step_finished_completed {P : Program} {m m' : Engine.St} {k : Key} {row : Res}
    (h : step P m (.finished k row) = some m') : (m.task k).completed = true := by
  simp only [step] at h
  split at h
  · rename_i hc
    simp only [Bool.and_eq_true, beq_iff_eq] at hc
    exact hc.1.1.1.1.1.1.1.2
  · cases h

/-- every completed task has printed its `C` token (`acc`: the tokens of the build so far) -/
def CompSeen (acc : List Tok) (m : Engine.St) : Prop :=
  ∀ k, (m.task k).completed = true → ∃ v f, Tok.C k v f ∈ acc

theorem trun_completed {P : Program} : ∀ (toks : List Tok) (ms ms' : MSt) (acc : List Tok), trun P ms toks = some ms' →
    (∀ t ∈ toks, Tok.isClose t = false ∨ t = .DE) → ms.m.target.isSome = true → CompSeen acc ms.m →
    ∀ pre k row post, toks = pre ++ Tok.DS k row :: post → ∃ v f, Tok.C k v f ∈ acc ++ pre
  | [], _, _, _, _, _, _, _, pre, k, row, post, e => by
    cases pre <;> cases e
  | t :: ts, ms, ms', acc, h, hc, htg, hcs, pre, k, row, post, e => by
    simp only [trun] at h
    cases hts : tstep P ms t with
    | none => rw [hts] at h; simp at h
    | some ms1 =>
      rw [hts] at h; simp only [Option.bind_some] at h
      have hct := hc t List.mem_cons_self
      have htg1 := tstep_target_isSome hts hct htg
      -- the invariant after the token
      have hcs1 : CompSeen (acc ++ [t]) ms1.m := by
        intro k' hk'
        rcases tstep_event hts with ⟨_, hm⟩ | ⟨ev, he | ⟨k0, row0, ht, he⟩, hst⟩
        · rw [hm] at hk'
          obtain ⟨v, f, hm'⟩ := hcs k' hk'
          exact ⟨v, f, List.mem_append_left _ hm'⟩
        · have hmid : Event.isMidX ev = true := by
            rcases hct with hct | hct
            · rcases toEvent_midX he hct with hmid | ⟨k1, hk1⟩
              · exact hmid
              · subst hk1
                rw [step_buildStart_inside P k1 htg] at hst
                cases hst
            · subst hct
              simp only [Tok.toEvent?, Option.some.injEq] at he; subst he; rfl
          rcases step_completed hst hmid k' hk' with a | ⟨v, f, a⟩
          · obtain ⟨v, f, hm'⟩ := hcs k' a
            exact ⟨v, f, List.mem_append_left _ hm'⟩
          · subst a
            obtain ⟨f', hf'⟩ := toEvent_complete he
            subst hf'
            exact ⟨v, f', List.mem_append_right _ (List.mem_cons_self)⟩
        · subst ht; subst he
          rcases step_completed hst rfl k' hk' with a | ⟨v, f, a⟩
          · obtain ⟨v, f, hm'⟩ := hcs k' a
            exact ⟨v, f, List.mem_append_left _ hm'⟩
          · cases a
      cases pre with
      | nil =>
        simp only [List.nil_append, List.cons.injEq] at e
        obtain ⟨e1, _⟩ := e
        subst e1
        rcases tstep_event hts with ⟨⟨k0, e0⟩, _⟩ | ⟨ev, he | ⟨k0, row0, ht, he⟩, hst⟩
        · cases e0
        · simp [Tok.toEvent?] at he
        · cases ht; subst he
          obtain ⟨v, f, hm'⟩ := hcs k (step_finished_completed hst)
          exact ⟨v, f, by simpa using hm'⟩
      | cons p pre' =>
        simp only [List.cons_append, List.cons.injEq] at e
        obtain ⟨e1, e2⟩ := e
        subst e1
        obtain ⟨v, f, hm'⟩ := trun_completed ts ms1 ms' (acc ++ [t]) h
          (fun t' ht' => hc t' (List.mem_cons_of_mem _ ht')) htg1 hcs1 pre' k row post e2
        exact ⟨v, f, by simpa [List.append_assoc] using hm'⟩

end LLBuild.Refine
