/-
IM2 — refinement: how the relations move across the recorder (`emit`, `doCancel`) and across monitor
steps that only touch flags.  `Rel`/`Base`/`RelIdle` do not read `trace`, `halted`, `cancelAtEvent`,
`cancelIssued`, `sched`; `buildCancelled` only through `Rel.cancelled`.
-/
import LLBuild.Lemmas.Refine.Basic

namespace LLBuild.Refine
open LLBuild.Engine LLBuild.Engine.DSL LLBuild.EngineImpl

/-- the recorder's fields are not read by `Base` -/
theorem Base.recorder {rules : List RuleSpec} {s : State} {m : Engine.St} {pend : Option Key}
    (hb : Base rules s m pend) (tr : List Tok) (hl : Bool) (ca : Nat) (ci : Bool) (sc : List SchedItem) (bc : Bool) :
    Base rules { s with trace := tr, halted := hl, cancelAtEvent := ca, cancelIssued := ci, sched := sc, buildCancelled := bc } m pend :=
  { hb with }

theorem ScanReqOk.recorder {s : State} {m : Engine.St} {r : RuleScanRequest}
    (hb : ScanReqOk s m r) (tr : List Tok) (hl : Bool) (ca : Nat) (ci : Bool) (sc : List SchedItem) (bc : Bool) :
    ScanReqOk { s with trace := tr, halted := hl, cancelAtEvent := ca, cancelIssued := ci, sched := sc, buildCancelled := bc } m r :=
  { hb with }

theorem TaskOk.recorder {rules : List RuleSpec} {s : State} {m : Engine.St} {h : Hand} {a : Key} {t : TaskInfo}
    (hb : TaskOk rules s m h a t) (tr : List Tok) (hl : Bool) (ca : Nat) (ci : Bool) (sc : List SchedItem) (bc : Bool) :
    TaskOk rules { s with trace := tr, halted := hl, cancelAtEvent := ca, cancelIssued := ci, sched := sc, buildCancelled := bc } m h a t :=
  { hb with }

theorem Rel.recorder {rules : List RuleSpec} {s : State} {ms : MSt} {h : Hand}
    (hr : Rel rules s ms h) (tr : List Tok) (hl : Bool) (ca : Nat) (ci : Bool) (sc : List SchedItem) (bc : Bool)
    (hbc : bc = true → ms.m.cancelled = true ∨ ms.m.errSeen = true) (hec : ms.m.errSeen = true → bc = true) :
    Rel rules { s with trace := tr, halted := hl, cancelAtEvent := ca, cancelIssued := ci, sched := sc, buildCancelled := bc } ms h :=
  { hr with toBase := hr.toBase.recorder tr hl ca ci sc bc, cancelled := hbc, errCancelled := hec,
            scanOk := fun r hm => (hr.scanOk r hm).recorder tr hl ca ci sc bc,
            taskOk := fun a t hl' => (hr.taskOk a t hl').recorder tr hl ca ci sc bc }


/-! ## monitor flags (`cancelled`, `errSeen`, `cycleSeen`) are not read by the relation -/

theorem Base.mflags {rules : List RuleSpec} {s : State} {m : Engine.St} {pend : Option Key}
    (hb : Base rules s m pend) (c e cy : Bool) :
    Base rules s { m with cancelled := c, errSeen := e, cycleSeen := cy } pend :=
  { hb with }

theorem ScanReqOk.mflags {s : State} {m : Engine.St} {r : RuleScanRequest}
    (hb : ScanReqOk s m r) (c e cy : Bool) :
    ScanReqOk s { m with cancelled := c, errSeen := e, cycleSeen := cy } r :=
  { hb with }

theorem TaskOk.mflags {rules : List RuleSpec} {s : State} {m : Engine.St} {h : Hand} {a : Key} {t : TaskInfo}
    (hb : TaskOk rules s m h a t) (c e cy : Bool) :
    TaskOk rules s { m with cancelled := c, errSeen := e, cycleSeen := cy } h a t :=
  { hb with }

theorem Rel.mflags {rules : List RuleSpec} {s : State} {ms : MSt} {h : Hand}
    (hr : Rel rules s ms h) (c e : Bool) (hbc : s.buildCancelled = true → c = true ∨ e = true)
    (hec : e = true → s.buildCancelled = true) :
    Rel rules s ⟨{ ms.m with cancelled := c, errSeen := e, cycleSeen := ms.m.cycleSeen }, ms.pend⟩ h :=
  { hr with toBase := hr.toBase.mflags c e ms.m.cycleSeen, cancelled := hbc, errCancelled := hec,
            scanOk := fun r hm => (hr.scanOk r hm).mflags c e ms.m.cycleSeen,
            taskOk := fun a t hl' => (hr.taskOk a t hl').mflags c e ms.m.cycleSeen }

/-! ## `emit` under `Rel` -/

theorem step_cancel (P : Program) (m : Engine.St) : step P m .cancel = some { m with cancelled := true } := rfl

theorem tstep_X (P : Program) (ms : MSt) : tstep P ms .X = some ⟨{ ms.m with cancelled := true }, ms.pend⟩ := by
  cases ms with
  | mk m pend => exact tstep_reg_any pend (by rfl) (by rfl) (step_cancel P m)

/-- **`emit` under `Rel`.**  If the monitor accepts the token and the relation holds between the engine
state and the monitor state AFTER the token, then it still holds after the recorder ran (which may add
`X` and set `buildCancelled`). -/
theorem Rel.emit_tok {rules : List RuleSpec} {s : State} {ms ms1 : MSt} {h : Hand} {t : Tok}
    (hh : s.halted = false) (hst : tstep (program rules) ms t = some ms1) (hr : Rel rules s ms1 h) :
    ∃ toks ms2, Emits s toks (emit t s) ∧ trun (program rules) ms toks = some ms2 ∧ Rel rules (emit t s) ms2 h ∧
      ms2.pend = ms1.pend := by
  rcases emit_spec t s hh with he | ⟨_, he⟩
  · refine ⟨[t], ms1, ?_, trun_single hst, ?_, rfl⟩
    · rw [he]; simp [Emits]
    · rw [he]
      exact hr.recorder (t :: s.trace) s.halted s.cancelAtEvent s.cancelIssued s.sched s.buildCancelled hr.cancelled hr.errCancelled
  · refine ⟨[t, .X], ⟨{ ms1.m with cancelled := true }, ms1.pend⟩, ?_, ?_, ?_, rfl⟩
    · rw [he]; simp [Emits]
    · simp [trun, hst, tstep_X]
    · rw [he]
      have h1 := hr.mflags true ms1.m.errSeen (fun _ => Or.inl rfl) hr.errCancelled
      exact h1.recorder (.X :: t :: s.trace) s.halted s.cancelAtEvent true s.sched true (fun _ => Or.inl rfl) (fun _ => rfl)

/-- `doCancel` under `Rel` -/
theorem Rel.do_cancel {rules : List RuleSpec} {s : State} {ms : MSt} {h : Hand}
    (hh : s.halted = false) (hr : Rel rules s ms h) :
    ∃ toks ms2, Emits s toks (doCancel s) ∧ trun (program rules) ms toks = some ms2 ∧ Rel rules (doCancel s) ms2 h ∧
      ms2.pend = ms.pend := by
  rcases doCancel_spec s hh with he | ⟨_, he⟩
  · exact ⟨[], ms, by rw [he]; exact Emits.refl s, rfl, by rw [he]; exact hr, rfl⟩
  · refine ⟨[.X], ⟨{ ms.m with cancelled := true }, ms.pend⟩, ?_, ?_, ?_, rfl⟩
    · rw [he]; simp [Emits]
    · simp [trun, tstep_X]
    · rw [he]
      have h1 := hr.mflags true ms.m.errSeen (fun _ => Or.inl rfl) hr.errCancelled
      exact h1.recorder (.X :: s.trace) s.halted s.cancelAtEvent true s.sched true (fun _ => Or.inl rfl) (fun _ => rfl)

end LLBuild.Refine
