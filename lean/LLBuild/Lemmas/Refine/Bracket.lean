/-
IM2 — refinement: the bracket around the work loop.
* prologue of `runBuild`/`build`: `B key` (`buildStart`), `DB`, the early cancellation check, `QC` + `++currentEpoch`
  (`queueCreated`), registration of the requested key; relation `RelPre`; `Rel.entry`: the full relation holds when
  `executeLoop` is entered;
* epilogue: `DI e` (`dbIter`), `freeScanRecords`, `DE` (`dbEnd`), `R v` (`ret`: success-shaped or failure-shaped),
  `Z 0 0` (`tail`): from `RelPost` back to `RelIdle` (`epilogue_close`).
-/
import LLBuild.Lemmas.Refine.Reg

namespace LLBuild.Refine
open LLBuild.Engine LLBuild.Engine.DSL LLBuild.EngineImpl

theorem RelIdle.quiet {rules : List RuleSpec} {s : State} {m : Engine.St} (hr : RelIdle rules s m) : Quiet s :=
  { states := hr.states, noTasks := hr.noTasks, noScanQ := hr.noScanQ, noInputQ := hr.noInputQ, noFinQ := hr.noFinQ,
    noReady := hr.noReady, noFinTasks := hr.noFinTasks, noOutstanding := hr.noOutstanding,
    noScanning := hr.noScanning, noDeferred := hr.noDeferred }

/-- the relation in the prologue of `build` (after `B key`, before `QC`) -/
structure RelPre (rules : List RuleSpec) (key : Key) (st : Bool) (s : State) (m : Engine.St) : Prop extends Base rules s m none, Quiet s where
  target : m.target = some key
  allIdle : ∀ k, m.status k = .idle
  /-- before `QC`: the engine's epoch is the stored iteration -/
  iterEq : st = false → s.store.iteration = s.currentEpoch
  active : s.buildActive = true
  startedEq : m.started = st
  /-- after `QC` (`++currentEpoch`): every result and every stored row is from an earlier epoch -/
  builtLt : st = true → s.currentEpoch ≠ 0 ∧ (∀ k ri, s.ruleInfos.lookup k = some ri → ri.result.builtAt < s.currentEpoch) ∧
    (∀ k row, s.store.rows.lookup k = some row → row.builtAt < s.currentEpoch)
  notReturned : m.returned = false
  noCycle : m.cycleSeen = false
  noErr : m.errSeen = false
  cancelled : s.buildCancelled = true → m.cancelled = true
  validNone : ∀ k, m.validSeen k = none
  noPending : m.pending = []
  noRan : m.ran = []
  noScanned : m.scanned = []
  /-- no task has received anything yet in this build -/
  noSeq : ∀ a, (m.task a).seq = []

/-- `emit` under a relation that does not read the recorder -/
theorem emit_gen {R : State → Engine.St → Prop} {P : Program}
    (hrec : ∀ s m tr, R s m → R { s with trace := tr } m)
    (hcan : ∀ s m tr, R s m → R { s with trace := tr, cancelIssued := true, buildCancelled := true } { m with cancelled := true })
    {s : State} {m m1 : Engine.St} {t : Tok}
    (hh : s.halted = false) (hst : tstep P ⟨m, none⟩ t = some ⟨m1, none⟩) (hr : R s m1) :
    ∃ toks m2, Emits s toks (emit t s) ∧ trun P ⟨m, none⟩ toks = some ⟨m2, none⟩ ∧ R (emit t s) m2 ∧
      (emit t s).halted = false := by
  rcases emit_spec t s hh with he | ⟨_, he⟩
  · refine ⟨[t], m1, ?_, trun_single hst, ?_, by simp [hh]⟩
    · rw [he]; simp [Emits]
    · rw [he]; exact hrec s m1 _ hr
  · refine ⟨[t, .X], { m1 with cancelled := true }, ?_, ?_, ?_, by simp [hh]⟩
    · rw [he]; simp [Emits]
    · simp [trun, hst, tstep_X]
    · rw [he]; exact hcan s m1 _ hr

theorem RelPre.recd {rules : List RuleSpec} {key : Key} {st : Bool} {s : State} {m : Engine.St} (hr : RelPre rules key st s m) (tr : List Tok) :
    RelPre rules key st { s with trace := tr } m :=
  { hr with toBase := hr.toBase.recorder tr s.halted s.cancelAtEvent s.cancelIssued s.sched s.buildCancelled,
            toQuiet := { hr.toQuiet with } }

theorem RelPre.cand {rules : List RuleSpec} {key : Key} {st : Bool} {s : State} {m : Engine.St} (hr : RelPre rules key st s m) (tr : List Tok) :
    RelPre rules key st { s with trace := tr, cancelIssued := true, buildCancelled := true } { m with cancelled := true } :=
  { hr with toBase := (hr.toBase.mflags true m.errSeen m.cycleSeen).recorder tr s.halted s.cancelAtEvent true s.sched true,
            toQuiet := { hr.toQuiet with }, cancelled := fun _ => rfl }


/-- the state `runBuild` starts from: recorder reset, `resetForBuild`, `buildActive` -/
def buildInit (cancelAt : Nat) (sched : List SchedItem) (s : State) : State :=
  { s with trace := [], halted := false, cancelIssued := false, cancelAtEvent := cancelAt, sched := sched,
           buildCancelled := false, buildActive := true }

theorem RelPre.emit_tok {rules : List RuleSpec} {key : Key} {st : Bool} {s : State} {m m1 : Engine.St} {t : Tok}
    (hh : s.halted = false) (hst : tstep (program rules) ⟨m, none⟩ t = some ⟨m1, none⟩) (hr : RelPre rules key st s m1) :
    ∃ toks m2, Emits s toks (EngineImpl.emit t s) ∧ trun (program rules) ⟨m, none⟩ toks = some ⟨m2, none⟩ ∧
      RelPre rules key st (EngineImpl.emit t s) m2 ∧ (EngineImpl.emit t s).halted = false :=
  emit_gen (R := RelPre rules key st) (fun _ _ tr h => h.recd tr) (fun _ _ tr h => h.cand tr) hh hst hr

/-- `B key`: `buildStart` -/
theorem prologue_B {rules : List RuleSpec} {s : State} {m : Engine.St} (hr : RelIdle rules s m)
    (key cancelAt : Nat) (sched : List SchedItem) :
    ∃ toks m1, Emits (buildInit cancelAt sched s) toks (emit (.B key) (buildInit cancelAt sched s)) ∧
      trun (program rules) ⟨m, none⟩ toks = some ⟨m1, none⟩ ∧
      RelPre rules key false (emit (.B key) (buildInit cancelAt sched s)) m1 ∧
      (emit (.B key) (buildInit cancelAt sched s)).halted = false := by
  have hstep : step (program rules) m (.buildStart key) = some
      { m with status := fun _ => .idle, validSeen := fun _ => none, task := fun _ => {}, pending := [],
               target := some key, started := false, cancelled := false, cycleSeen := false,
               errSeen := false, returned := false, ran := [], scanned := [] } := by
    simp [step, hr.target]
  apply RelPre.emit_tok (rules := rules) (key := key) (st := false) (s := buildInit cancelAt sched s) rfl
    (tstep_ev (by rfl) (by rfl) hstep)
  exact
    { rules_eq := hr.rules_eq, env := hr.env, hasDB := hr.hasDB, noResolve := hr.noResolve, noFail := hr.noFail,
      epoch := hr.epoch, reg := hr.reg, keyOk := hr.keyOk, rulesNodup := hr.rulesNodup, sig := hr.sig, res := hr.res, resUnreg := hr.resUnreg,
      db := hr.db, dbBuilt := hr.dbBuilt, dbBuiltLe := hr.dbBuiltLe, dbIter := hr.dbIter, builtLe := hr.builtLe,
      states := hr.states, noTasks := hr.noTasks, noScanQ := hr.noScanQ, noInputQ := hr.noInputQ, noFinQ := hr.noFinQ,
      noReady := hr.noReady, noFinTasks := hr.noFinTasks, noOutstanding := hr.noOutstanding,
      noScanning := hr.noScanning, noDeferred := hr.noDeferred,
      target := rfl, allIdle := fun _ => rfl, iterEq := fun _ => hr.iterEq, active := rfl, startedEq := rfl, builtLt := fun h => (by cases h),
      notReturned := rfl, noCycle := rfl, noErr := rfl, cancelled := fun h => by simp [buildInit] at h,
      validNone := fun _ => rfl, noPending := rfl, noRan := rfl, noScanned := rfl, noSeq := fun _ => rfl }

/-- `DB`: `buildStarted` -/
theorem prologue_DB {rules : List RuleSpec} {key : Key} {st : Bool} {s : State} {m : Engine.St} (hr : RelPre rules key st s m)
    (hh : s.halted = false) :
    ∃ toks m1, Emits s toks (emit .DB s) ∧ trun (program rules) ⟨m, none⟩ toks = some ⟨m1, none⟩ ∧
      RelPre rules key st (emit .DB s) m1 ∧ (emit .DB s).halted = false :=
  RelPre.emit_tok hh (tstep_ev (by rfl) (by rfl) (by rfl)) hr


/-- `Base` only reads these observations of the monitor state -/
theorem Base.congr_m {rules : List RuleSpec} {s : State} {m m' : Engine.St} {pend : Option Key}
    (hb : Base rules s m pend) (henv : m'.env = m.env) (hep : m'.epoch = m.epoch)
    (hreg : ∀ k, m'.registered k = m.registered k) (hsig : ∀ k, m'.sigAt k = m.sigAt k)
    (hmem : ∀ k, m'.mem.res k = m.mem.res k) (hdb : ∀ k, m'.db.res k = m.db.res k) (hit : m'.dbIter = m.dbIter) :
    Base rules s m' pend :=
  { rules_eq := hb.rules_eq, env := henv.trans hb.env, hasDB := hb.hasDB, noResolve := hb.noResolve, noFail := hb.noFail,
    epoch := hep.trans hb.epoch, reg := fun k => (hreg k).trans (hb.reg k), keyOk := hb.keyOk, rulesNodup := hb.rulesNodup,
    sig := fun k ri h => (hsig k).trans (hb.sig k ri h),
    res := fun k ri h => by rw [hmem k]; exact hb.res k ri h,
    resUnreg := fun k h => by rw [hmem k, hdb k]; exact hb.resUnreg k h,
    db := fun k => (hdb k).trans (hb.db k), dbBuilt := hb.dbBuilt, dbBuiltLe := hb.dbBuiltLe,
    dbIter := hit.trans hb.dbIter, builtLe := hb.builtLe }

theorem Quiet.recorder {s : State} (hq : Quiet s) (tr : List Tok) (hl : Bool) (ca : Nat) (ci : Bool) (sc : List SchedItem) (bc ba : Bool) :
    Quiet { s with trace := tr, halted := hl, cancelAtEvent := ca, cancelIssued := ci, sched := sc, buildCancelled := bc, buildActive := ba } :=
  { hq with }

theorem inflight_resetMem (m : Engine.St) (k : Key) : inflight (resetMem m) k = inflight m k := rfl

theorem resetMem_idem (m : Engine.St) (k : Key) :
    (if inflight m k then { (resetMem m).mem.res k with builtAt := 0 } else (resetMem m).mem.res k) = (resetMem m).mem.res k := by
  simp only [resetMem]
  split <;> rfl

theorem RelPost.recd {rules : List RuleSpec} {key : Key} {s : State} {m : Engine.St} {b : Bool}
    (hr : RelPost rules key s m b) (tr : List Tok) : RelPost rules key { s with trace := tr } m b :=
  { hr with toQuiet := { hr.toQuiet with },
            base := hr.base.recorder tr s.halted s.cancelAtEvent s.cancelIssued s.sched s.buildCancelled }

theorem RelPost.cand {rules : List RuleSpec} {key : Key} {s : State} {m : Engine.St} {b : Bool}
    (hr : RelPost rules key s m b) (tr : List Tok) :
    RelPost rules key { s with trace := tr, cancelIssued := true, buildCancelled := true } { m with cancelled := true } b :=
  { hr with toQuiet := { hr.toQuiet with },
            base := (hr.base.mflags true m.errSeen m.cycleSeen).recorder tr s.halted s.cancelAtEvent true s.sched true,
            failed := fun _ => Or.inl rfl }

theorem emit_inactive (t : Tok) (s : State) (hh : s.halted = false) (ha : s.buildActive = false) :
    emit t s = { s with trace := t :: s.trace } := by
  simp [emit, hh, ha]

/-- the monitor after `tail 0 0` -/
def tailSt (m : Engine.St) : Engine.St :=
  { m with target := none, started := false, status := fun _ => .idle,
           mem := { m.mem with res := fun k => if inflight m k then { m.mem.res k with builtAt := 0 } else m.mem.res k } }

theorem step_tail_ok (P : Program) (m : Engine.St) (h1 : m.returned = true)
    (h2 : (!m.started || m.dbIter == m.epoch) = true) (h3 : m.pending = []) :
    step P m (.tail 0 0) = some (tailSt m) := by
  simp [step, h1, h2, h3, tailSt]

/-- the monitor after a failure-shaped `ret 0` -/
def retFailSt (m : Engine.St) : Engine.St :=
  { m with returned := true,
           mem := { m.mem with res := fun k => if inflight m k then { m.mem.res k with builtAt := 0 } else m.mem.res k },
           pendingDropped := m.pendingDropped || !m.pending.isEmpty, pending := [] }

/-- `ret v ; tail 0 0` from a quiescent engine -/
theorem close_steps {rules : List RuleSpec} {key : Key} {s : State} {m : Engine.St} {success : Bool} {v : Val}
    (hr : RelPost rules key s m success)
    (hiter : m.started = false ∨ m.dbIter = m.epoch) (hiterEq : s.store.iteration = s.currentEpoch)
    (hv : success = true → v = (s.rule key).result.value) (hv0 : success = false → v = 0) (P : Program) :
    ∃ m2 m3, step P m (.ret v) = some m2 ∧ step P m2 (.tail 0 0) = some m3 ∧
      ∀ tr, RelIdle rules { s with buildActive := false, trace := tr } m3 := by
  have hit : (!m.started || m.dbIter == m.epoch) = true := by
    rcases hiter with h | h <;> simp [h]
  -- the final monitor state always has the memory `resetMem m`
  have fin : ∀ m3 : Engine.St, m3.env = m.env → m3.epoch = m.epoch → (∀ k, m3.registered k = m.registered k) →
      (∀ k, m3.sigAt k = m.sigAt k) → (∀ k, m3.mem.res k = (resetMem m).mem.res k) → (∀ k, m3.db.res k = m.db.res k) →
      m3.dbIter = m.dbIter → m3.target = none → (∀ k, m3.status k = .idle) →
      ∀ tr, RelIdle rules { s with buildActive := false, trace := tr } m3 := by
    intro m3 h1 h2 h3 h4 h5 h6 h7 h8 h9 tr
    have hb : Base rules s m3 none := hr.base.congr_m h1 h2 h3 h4 h5 h6 h7
    exact
      { toBase := { hb with }, target := h8, allIdle := h9, iterEq := hiterEq, states := hr.states, noTasks := hr.noTasks,
        noScanQ := hr.noScanQ, noInputQ := hr.noInputQ, noFinQ := hr.noFinQ, noReady := hr.noReady,
        noFinTasks := hr.noFinTasks, noOutstanding := hr.noOutstanding, noScanning := hr.noScanning,
        noDeferred := hr.noDeferred, notActive := rfl }
  -- failure-shaped `ret`
  have failRet : (m.cancelled = true ∨ m.cycleSeen = true ∨ m.errSeen = true) → v = 0 →
      (¬ (!m.cycleSeen && !m.errSeen && (isDone m key && v == (m.mem.res key).value && m.pending.isEmpty && m.ran.all (fun k => !inflight m k)) && (!m.cancelled || v != 0)) = true) →
      ∃ m2 m3, step P m (.ret v) = some m2 ∧ step P m2 (.tail 0 0) = some m3 ∧
        ∀ tr, RelIdle rules { s with buildActive := false, trace := tr } m3 := by
    intro hc hv0' hno
    subst hv0'
    have hc' : (m.cancelled || m.cycleSeen || m.errSeen) = true := by
      rcases hc with h | h | h <;> simp [h]
    refine ⟨retFailSt m, tailSt (retFailSt m), ?_, step_tail_ok P _ rfl hit rfl, ?_⟩
    · simp only [step, hr.target, hr.notReturned]
      simp only [Bool.false_eq_true, if_false]
      rw [if_neg hno]
      simp only [hc', beq_self_eq_true, Bool.and_self, if_true, retFailSt, hr.target]
    · apply fin
      · rfl
      · rfl
      · intro k; rfl
      · intro k; rfl
      · intro k; exact resetMem_idem m k
      · intro k; rfl
      · rfl
      · rfl
      · intro k; rfl
  cases hs : success with
  | false =>
    refine failRet (hr.failed hs) (hv0 hs) ?_
    rcases hr.failed hs with h | h | h <;> simp [h, hv0 hs]
  | true =>
    obtain ⟨hreg, hdone, hpend, hran, hcy, her⟩ := hr.ok hs
    by_cases hcv : (!m.cancelled || v != 0) = true
    · -- success-shaped `ret`
      have hval : v = (m.mem.res key).value := by
        rw [hv hs]
        obtain ⟨ri, hl⟩ := Option.isSome_iff_exists.1 hreg
        have := (hr.base.res key ri hl).1
        rw [rule_of_lookup hl, ← this]
        simp only [resetMem]
        split <;> rfl
      have hdry : (isDone m key && v == (m.mem.res key).value && m.pending.isEmpty && m.ran.all (fun k => !inflight m k)) = true := by
        simp only [hdone, hval, hpend, beq_self_eq_true, List.isEmpty_nil, Bool.true_and, List.all_eq_true]
        intro k hk; simp [hran k hk]
      refine ⟨{ m with returned := true }, tailSt { m with returned := true }, ?_, step_tail_ok P _ rfl hit hpend, ?_⟩
      · simp only [step, hr.target, hr.notReturned]
        simp only [Bool.false_eq_true, if_false]
        rw [if_pos]
        simp only [hcy, her, hdry, hcv, Bool.not_false, Bool.and_self]
      · apply fin
        · rfl
        · rfl
        · intro k; rfl
        · intro k; rfl
        · intro k; rfl
        · intro k; rfl
        · rfl
        · rfl
        · intro k; rfl
    · have hcv' : m.cancelled = true ∧ v = 0 := by
        simp at hcv; exact hcv
      exact failRet (Or.inl hcv'.1) hcv'.2 (by simp [hcv'.1, hcv'.2])

theorem RelPost.mdb {rules : List RuleSpec} {key : Key} {s : State} {m : Engine.St} {b : Bool}
    (hr : RelPost rules key s m b) (c : Engine.Store) (ci : Nat) (pd : Bool) :
    RelPost rules key s { m with cdb := c, cdbIter := ci, pendingDropped := pd } b :=
  { hr with base := { hr.base with } }

/-- the three closing events `DE ; R v ; Z 0 0` from a quiescent engine -/
theorem epilogue_close {rules : List RuleSpec} {key : Key} {s : State} {m : Engine.St} {success : Bool} {v : Val}
    (hr : RelPost rules key s m success) (hh : s.halted = false)
    (hiter : m.started = false ∨ m.dbIter = m.epoch) (hiterEq : s.store.iteration = s.currentEpoch)
    (hv : success = true → v = (s.rule key).result.value) (hv0 : success = false → v = 0) :
    ∃ toks m', Emits s toks
        (emit (.Z (emit (.R v) { emit .DE s with buildActive := false }).taskInfos.length 0)
          (emit (.R v) { emit .DE s with buildActive := false })) ∧
      trun (program rules) ⟨m, none⟩ toks = some ⟨m', none⟩ ∧
      RelIdle rules (emit (.Z (emit (.R v) { emit .DE s with buildActive := false }).taskInfos.length 0)
          (emit (.R v) { emit .DE s with buildActive := false })) m' := by
  let R : State → Engine.St → Prop := fun s m =>
    RelPost rules key s m success ∧ (m.started = false ∨ m.dbIter = m.epoch) ∧ s.store.iteration = s.currentEpoch
  have hit : (!m.started || m.dbIter == m.epoch) = true := by
    rcases hiter with h | h <;> simp [h]
  have hstep : step (program rules) m .dbEnd =
      some { m with cdb := m.db, cdbIter := m.dbIter, pendingDropped := m.pendingDropped || !m.pending.isEmpty } := by
    simp [step, hit]
  obtain ⟨toks1, m1, he1, hrun1, ⟨hr1, hiter1, hiterEq1⟩, hh1⟩ :=
    emit_gen (R := R) (P := program rules)
      (fun s m tr h => ⟨h.1.recd tr, h.2.1, h.2.2⟩) (fun s m tr h => ⟨h.1.cand tr, h.2.1, h.2.2⟩)
      hh (tstep_ev (t := .DE) (by rfl) (by rfl) hstep) ⟨hr.mdb _ _ _, hiter, hiterEq⟩
  have hv1 : success = true → v = ((emit .DE s).rule key).result.value := by simpa using hv
  obtain ⟨m2, m3, hs2, hs3, hfin⟩ := close_steps hr1 hiter1 hiterEq1 hv1 hv0 (program rules)
  have hhA : ({ emit .DE s with buildActive := false } : State).halted = false := hh1
  have eR := emit_inactive (.R v) { emit .DE s with buildActive := false } hhA rfl
  have hhB : (emit (.R v) { emit .DE s with buildActive := false }).halted = false := by rw [eR]; exact hh1
  have haB : (emit (.R v) { emit .DE s with buildActive := false }).buildActive = false := by rw [eR]
  have eZ := emit_inactive (.Z (emit (.R v) { emit .DE s with buildActive := false }).taskInfos.length 0) _ hhB haB
  have hlen : (emit (.R v) { emit .DE s with buildActive := false }).taskInfos.length = 0 := by
    rw [eR]; show (emit .DE s).taskInfos.length = 0
    rw [hr1.noTasks]; rfl
  refine ⟨toks1 ++ [.R v, .Z 0 0], m3, ?_, ?_, ?_⟩
  · rw [eZ, hlen, eR]
    unfold Emits at he1 ⊢
    simp [he1]
  · refine trun_append_some hrun1 ?_
    simp [trun, tstep_ev (P := program rules) (t := .R v) (by rfl) (by rfl) hs2,
      tstep_ev (P := program rules) (t := .Z 0 0) (by rfl) (by rfl) hs3]
  · rw [eZ, hlen, eR]
    exact hfin _


/-- a build cancelled before it starts: the prologue relation is already the closing one -/
theorem RelPre.toPost {rules : List RuleSpec} {key : Key} {s : State} {m : Engine.St} (hr : RelPre rules key false s m)
    (hc : s.buildCancelled = true) : RelPost rules key s m false :=
  { toQuiet := hr.toQuiet,
    base := hr.toBase.congr_m rfl rfl (fun _ => rfl) (fun _ => rfl)
      (fun k => by simp [resetMem, inflight, hr.allIdle k]) (fun _ => rfl) rfl,
    active := hr.active, target := hr.target, notReturned := hr.notReturned,
    epochPos := fun h => (by rw [hr.startedEq] at h; cases h),
    ok := fun h => (by cases h), failed := fun _ => Or.inl (hr.cancelled hc) }

theorem lookup_map_snd {α : Type} (f : Key × α → α) : ∀ (l : List (Key × α)) (k : Key),
    (l.map (fun p => (p.1, f p))).lookup k = (l.lookup k).map (fun x => f (k, x))
  | [], k => rfl
  | (k0, y) :: rest, k => by
    simp only [List.map_cons, lookup_cons_ite]
    by_cases h : k = k0
    · subst h; simp
    · simp [h, lookup_map_snd f rest k]

/-- `freeScanRecords` as a key-preserving map -/
theorem freeScanRecords_eq (s : State) :
    freeScanRecords s = { s with ruleInfos := s.ruleInfos.map (fun p => (p.1,
      match p.2.inProgressInfo with
      | .pendingScanRecord _ => { p.2 with inProgressInfo := .freedScanRecord }
      | _ => p.2)) } := by
  unfold freeScanRecords
  congr 1
  apply List.map_congr_left
  intro p _
  cases h : p.2.inProgressInfo <;> simp

theorem freeScanRecords_lookup (s : State) (k : Key) :
    (freeScanRecords s).ruleInfos.lookup k = (s.ruleInfos.lookup k).map (fun ri =>
      match ri.inProgressInfo with
      | .pendingScanRecord _ => { ri with inProgressInfo := .freedScanRecord }
      | _ => ri) := by
  rw [freeScanRecords_eq]
  exact lookup_map_snd (fun p => match p.2.inProgressInfo with
      | .pendingScanRecord _ => { p.2 with inProgressInfo := .freedScanRecord }
      | _ => p.2) s.ruleInfos k


/-- the rewrite of `freeScanRecords` on one rule -/
def freeRec (ri : RuleInfo) : RuleInfo :=
  match ri.inProgressInfo with
  | .pendingScanRecord _ => { ri with inProgressInfo := .freedScanRecord }
  | _ => ri

theorem freeRec_key (ri : RuleInfo) : (freeRec ri).key = ri.key := by unfold freeRec; split <;> rfl
theorem freeRec_signature (ri : RuleInfo) : (freeRec ri).signature = ri.signature := by unfold freeRec; split <;> rfl
theorem freeRec_result (ri : RuleInfo) : (freeRec ri).result = ri.result := by unfold freeRec; split <;> rfl
theorem freeRec_state (ri : RuleInfo) : (freeRec ri).state = ri.state := by unfold freeRec; split <;> rfl

theorem freeScanRecords_lookup' (s : State) (k : Key) :
    (freeScanRecords s).ruleInfos.lookup k = (s.ruleInfos.lookup k).map freeRec := freeScanRecords_lookup s k

theorem freeScanRecords_rule_result (s : State) (k : Key) :
    ((freeScanRecords s).rule k).result = (s.rule k).result := by
  unfold State.rule
  rw [freeScanRecords_lookup']
  cases s.ruleInfos.lookup k with
  | none => rfl
  | some ri => simp [freeRec_result]

theorem Base.freeScanRecords {rules : List RuleSpec} {s : State} {m : Engine.St} {pend : Option Key}
    (hb : Base rules s m pend) : Base rules (freeScanRecords s) m pend := by
  have hl := freeScanRecords_lookup' s
  have hfr : ∀ k ri', (EngineImpl.freeScanRecords s).ruleInfos.lookup k = some ri' →
      ∃ ri, s.ruleInfos.lookup k = some ri ∧ ri' = freeRec ri := by
    intro k ri' h
    rw [hl] at h
    cases h2 : s.ruleInfos.lookup k with
    | none => rw [h2] at h; cases h
    | some ri => rw [h2] at h; simp at h; exact ⟨ri, rfl, h.symm⟩
  rw [freeScanRecords_eq] at hfr ⊢
  refine { rules_eq := hb.rules_eq, env := hb.env, hasDB := hb.hasDB, noResolve := hb.noResolve, noFail := hb.noFail,
           epoch := hb.epoch, reg := ?_, keyOk := ?_, rulesNodup := (by simpa [List.map_map, Function.comp_def] using hb.rulesNodup), sig := ?_, res := ?_, resUnreg := ?_, db := hb.db,
           dbBuilt := hb.dbBuilt, dbBuiltLe := hb.dbBuiltLe, dbIter := hb.dbIter, builtLe := ?_ }
  · intro k
    have := hl k; rw [freeScanRecords_eq] at this
    rw [hb.reg k, this]; cases s.ruleInfos.lookup k <;> rfl
  · intro k ri' h
    obtain ⟨ri, h1, rfl⟩ := hfr k ri' h
    rw [freeRec_key]; exact hb.keyOk k ri h1
  · intro k ri' h
    obtain ⟨ri, h1, rfl⟩ := hfr k ri' h
    rw [freeRec_signature]; exact hb.sig k ri h1
  · intro k ri' h
    obtain ⟨ri, h1, rfl⟩ := hfr k ri' h
    rw [freeRec_result, freeRec_state]; exact hb.res k ri h1
  · intro k h
    have := hl k; rw [freeScanRecords_eq] at this
    rw [this] at h
    cases h2 : s.ruleInfos.lookup k with
    | none => exact hb.resUnreg k h2
    | some ri => rw [h2] at h; cases h
  · intro k ri' h
    obtain ⟨ri, h1, rfl⟩ := hfr k ri' h
    rw [freeRec_result]; exact hb.builtLe k ri h1

theorem RelPost.freeScanRecords {rules : List RuleSpec} {key : Key} {s : State} {m : Engine.St} {b : Bool}
    (hr : RelPost rules key s m b) : RelPost rules key (freeScanRecords s) m b := by
  have hl := freeScanRecords_lookup' s
  have hb := hr.base.freeScanRecords
  rw [freeScanRecords_eq] at hl hb ⊢
  refine { states := ?_, noTasks := hr.noTasks, noScanQ := hr.noScanQ, noInputQ := hr.noInputQ, noFinQ := hr.noFinQ,
           noReady := hr.noReady, noFinTasks := hr.noFinTasks, noOutstanding := hr.noOutstanding,
           noScanning := hr.noScanning, noDeferred := hr.noDeferred, base := hb, active := hr.active,
           target := hr.target, notReturned := hr.notReturned, epochPos := hr.epochPos, ok := ?_, failed := hr.failed }
  · intro k ri' h
    rw [hl] at h
    cases h2 : s.ruleInfos.lookup k with
    | none => rw [h2] at h; cases h
    | some ri =>
      rw [h2] at h; simp at h; subst h
      rw [freeRec_state]; exact hr.states k ri h2
  · intro hs
    obtain ⟨h1, h2⟩ := hr.ok hs
    refine ⟨?_, h2⟩
    unfold Registered at *
    rw [hl]; cases h3 : s.ruleInfos.lookup key with
    | none => rw [h3] at h1; cases h1
    | some _ => rfl

/-- `DI e`: `setCurrentIteration(currentEpoch)` -/
theorem epilogue_DI {rules : List RuleSpec} {key : Key} {s : State} {m : Engine.St} {b : Bool}
    (hr : RelPost rules key s m b) (hh : s.halted = false) (hst : m.started = true) :
    ∃ toks m1, Emits s toks (emit (.DI s.currentEpoch) s) ∧
      trun (program rules) ⟨m, none⟩ toks = some ⟨m1, none⟩ ∧
      RelPost rules key { emit (.DI s.currentEpoch) s with
        store := { (emit (.DI s.currentEpoch) s).store with iteration := (emit (.DI s.currentEpoch) s).currentEpoch } } m1 b ∧
      m1.dbIter = m1.epoch ∧ (emit (.DI s.currentEpoch) s).halted = false := by
  let R : State → Engine.St → Prop := fun s' m' =>
    RelPost rules key { s' with store := { s'.store with iteration := s'.currentEpoch } } m' b ∧ m'.dbIter = m'.epoch
  have hep : m.epoch = s.currentEpoch := hr.base.epoch
  have hstep : step (program rules) m (.dbIter s.currentEpoch) = some { m with dbIter := s.currentEpoch } := by
    simp [step, hst, hep]
  have h0 : R s { m with dbIter := s.currentEpoch } := by
    refine ⟨?_, hep.symm⟩
    exact { toQuiet := { hr.toQuiet with },
            base := { hr.base with dbIter := rfl },
            active := hr.active, target := hr.target, notReturned := hr.notReturned, epochPos := hr.epochPos,
            ok := hr.ok, failed := hr.failed }
  obtain ⟨toks, m1, he, hrun, ⟨h1, h2⟩, hh1⟩ :=
    emit_gen (R := R) (P := program rules)
      (fun s m tr h => ⟨h.1.recd tr, h.2⟩) (fun s m tr h => ⟨h.1.cand tr, h.2⟩)
      hh (tstep_ev (t := .DI s.currentEpoch) (by rfl) (by rfl) hstep) h0
  exact ⟨toks, m1, he, hrun, h1, h2, hh1⟩


theorem Base.register {rules : List RuleSpec} {s : State} {m : Engine.St} {pend : Option Key} {k : Key}
    (hb : Base rules s m pend) (hl : s.ruleInfos.lookup k = none) (hp : pend ≠ some k) :
    Base rules (s.setRule (freshRule s k))
      { m with registered := upd m.registered k true, sigAt := upd m.sigAt k ((program rules).sig m.env k) } pend := by
  have hk : (freshRule s k).key = k := rfl
  have hlk := fresh_lookup (s := s) hk
  refine
    { rules_eq := hb.rules_eq, env := hb.env, hasDB := hb.hasDB, noResolve := hb.noResolve, noFail := hb.noFail,
      epoch := hb.epoch, reg := ?reg, keyOk := ?keyOk, rulesNodup := alSet_keys_nodup _ _ _ hb.rulesNodup, sig := ?sig, res := ?res, resUnreg := ?resUnreg, db := hb.db,
      dbBuilt := hb.dbBuilt, dbBuiltLe := hb.dbBuiltLe, dbIter := hb.dbIter, builtLe := ?builtLe }
  case reg =>
    intro k'; show upd m.registered k true k' = _
    rw [hlk]; by_cases e : k' = k
    · subst e; simp
    · simp [upd, e, hb.reg k']
  case keyOk =>
    intro k' ri h1; rw [hlk] at h1
    by_cases e : k' = k
    · subst e; simp at h1; subst h1; rfl
    · simp [e] at h1; exact hb.keyOk k' ri h1
  case sig =>
    intro k' ri h1; rw [hlk] at h1
    show upd m.sigAt k _ k' = _
    by_cases e : k' = k
    · subst e; simp at h1; subst h1
      simp [freshRule, program, hb.rules_eq, hb.env]
    · simp [e] at h1; simp [upd, e]; exact hb.sig k' ri h1
  case res =>
    intro k' ri h1; rw [hlk] at h1
    show resRel _ _ (m.mem.res k') _
    by_cases e : k' = k
    · subst e; simp at h1; subst h1
      have hp' : (pend == some k') = false := by simpa using hp
      rw [hb.resUnreg k' hl, hb.db k', hp']
      simp [resRel, freshRule]
    · simp [e] at h1; exact hb.res k' ri h1
  case resUnreg =>
    intro k' h1; rw [hlk] at h1
    by_cases e : k' = k
    · subst e; simp at h1
    · simp only [e, if_false] at h1; exact hb.resUnreg k' h1
  case builtLe =>
    intro k' ri h1; rw [hlk] at h1
    by_cases e : k' = k
    · subst e; simp at h1; subst h1
      show ((s.store.rows.lookup k').getD {}).builtAt ≤ s.currentEpoch
      cases hrow : s.store.rows.lookup k' with
      | none => simp
      | some row => simpa using hb.dbBuiltLe k' row hrow
    · simp [e] at h1; exact hb.builtLe k' ri h1

theorem Base.dbGet_ok {rules : List RuleSpec} {s : State} {m : Engine.St} {pend : Option Key} (hb : Base rules s m pend)
    {k : Key} {ri : RuleInfo} (hl : s.ruleInfos.lookup k = some ri) (hp : pend ≠ some k) (P : Program) :
    step P m (.dbGet k (ri.result.builtAt != 0)) = some m := by
  have h1 := hb.reg k
  have h2 := hb.res k ri hl
  have hp' : (pend == some k) = false := by simpa using hp
  rw [hp'] at h2
  have h3 := h2.2.2.2.1 rfl
  simp [step, h1, hl, h3]

theorem RelPre.register {rules : List RuleSpec} {key : Key} {st : Bool} {s : State} {m : Engine.St} {k : Key}
    (hr : RelPre rules key st s m) (hl : s.ruleInfos.lookup k = none) :
    RelPre rules key st (s.setRule (freshRule s k))
      { m with registered := upd m.registered k true, sigAt := upd m.sigAt k ((program rules).sig m.env k) } :=
  { hr with
    toBase := hr.toBase.register hl (by simp),
    builtLt := fun hst => by
      obtain ⟨h0, h1, h2⟩ := hr.builtLt hst
      refine ⟨h0, ?_, h2⟩
      intro k' ri h
      rw [fresh_lookup (s := s) (fr := freshRule s k) rfl] at h
      replace h : (if k' = k then some (freshRule s k) else s.ruleInfos.lookup k') = some ri := h
      by_cases e : k' = k
      · subst e; rw [if_pos rfl] at h; cases h
        show ((s.store.rows.lookup k').getD {}).builtAt < s.currentEpoch
        cases hrow : s.store.rows.lookup k' with
        | none => simpa using Nat.pos_of_ne_zero h0
        | some row => simpa using h2 k' row hrow
      · rw [if_neg e] at h; exact h1 k' ri h,
    toQuiet :=
      { hr.toQuiet with
        states := fun k' ri h => by
          rw [fresh_lookup (s := s) (fr := freshRule s k) rfl] at h
          replace h : (if k' = k then some (freshRule s k) else s.ruleInfos.lookup k') = some ri := h
          by_cases e : k' = k
          · subst e; rw [if_pos rfl] at h; cases h; exact Or.inl rfl
          · rw [if_neg e] at h; exact hr.states k' ri h } }

/-- `getRuleInfoForKey` in the prologue (the requested key, after `QC`) -/
theorem RelPre.getRule {rules : List RuleSpec} {key : Key} {st : Bool} {s : State} {m : Engine.St}
    (hr : RelPre rules key st s m) (hh : s.halted = false) (k : Key) :
    ∃ toks m', Emits s toks (getRuleInfoForKey k s) ∧ trun (program rules) ⟨m, none⟩ toks = some ⟨m', none⟩ ∧
      RelPre rules key st (getRuleInfoForKey k s) m' ∧
      Registered (getRuleInfoForKey k s) k ∧ (getRuleInfoForKey k s).halted = false := by
  cases hl : s.ruleInfos.lookup k with
  | some ri =>
    rw [getRuleInfoForKey_old k s (by rw [hl]; rfl)]
    exact ⟨[], m, Emits.refl s, rfl, hr, by simp [Registered, hl], hh⟩
  | none =>
    rw [getRuleInfoForKey_fresh k s hr.hasDB hl]
    have hreg : m.registered k = false := by rw [hr.reg k, hl]; rfl
    have hstepL : step (program rules) m (.lookup k) =
        some { m with registered := upd m.registered k true, sigAt := upd m.sigAt k ((program rules).sig m.env k) } := by
      simp [step, hreg]
    have hhA : (s.setRule (freshRule s k)).halted = false := hh
    obtain ⟨toks1, m1, he1, hrun1, hr1, hh1⟩ :=
      RelPre.emit_tok hhA (tstep_ev (t := .L k) (by rfl) (by rfl) hstepL) (hr.register hl)
    have hlk1 : (emit (.L k) (s.setRule (freshRule s k))).ruleInfos.lookup k = some (freshRule s k) := by simp [freshRule]
    have hfound : (s.store.rows.lookup k).isSome = ((freshRule s k).result.builtAt != 0) := by
      cases hrow : s.store.rows.lookup k with
      | none => simp [freshRule, hrow]
      | some row => simp [freshRule, hrow, hr.dbBuilt k row hrow]
    have hstepG := hr1.toBase.dbGet_ok hlk1 (by simp) (program rules)
    rw [← hfound] at hstepG
    obtain ⟨toks2, m2, he2, hrun2, hr2, hh2⟩ :=
      RelPre.emit_tok hh1 (tstep_ev (t := .G k (s.store.rows.lookup k).isSome) (by rfl) (by rfl) hstepG) hr1
    refine ⟨toks1 ++ toks2, m2, ?_, trun_append_some hrun1 hrun2, hr2, ?_, hh2⟩
    · have := he1.trans he2
      simpa [Emits, State.setRule] using this
    · simp [Registered, freshRule]


theorem emit_QC (s : State) (hh : s.halted = false) : emit .QC s = { s with trace := .QC :: s.trace } := by
  simp [emit, hh, Tok.isQC]

/-- `QC`, `++currentEpoch`, and `finishedInputRequests.clear()` at the top of `executeTasks` -/
theorem prologue_QC {rules : List RuleSpec} {key : Key} {s : State} {m : Engine.St} (hr : RelPre rules key false s m)
    (hh : s.halted = false) :
    ∃ m1, step (program rules) m .queueCreated = some m1 ∧
      RelPre rules key true
        { emit .QC s with currentEpoch := (emit .QC s).currentEpoch + 1, finishedInputRequests := [] } m1 := by
  refine ⟨{ m with epoch := m.epoch + 1, started := true }, ?_, ?_⟩
  · simp [step, hr.target, hr.startedEq]
  · rw [emit_QC s hh]
    exact
      { rules_eq := hr.rules_eq, env := hr.env, hasDB := hr.hasDB, noResolve := hr.noResolve, noFail := hr.noFail,
        epoch := by show m.epoch + 1 = s.currentEpoch + 1; rw [hr.epoch],
        reg := hr.reg, keyOk := hr.keyOk, rulesNodup := hr.rulesNodup, sig := hr.sig, res := hr.res, resUnreg := hr.resUnreg,
        db := hr.db, dbBuilt := hr.dbBuilt,
        dbBuiltLe := fun k row h => Nat.le_succ_of_le (hr.dbBuiltLe k row h),
        dbIter := hr.dbIter,
        builtLe := fun k ri h => Nat.le_succ_of_le (hr.builtLe k ri h),
        states := hr.states, noTasks := hr.noTasks, noScanQ := hr.noScanQ, noInputQ := hr.noInputQ, noFinQ := rfl,
        noReady := hr.noReady, noFinTasks := hr.noFinTasks, noOutstanding := hr.noOutstanding,
        noScanning := hr.noScanning, noDeferred := hr.noDeferred,
        target := hr.target, allIdle := hr.allIdle, iterEq := fun h => (by cases h), active := hr.active,
        startedEq := rfl,
        builtLt := fun _ => ⟨Nat.succ_ne_zero _, fun k ri h => Nat.lt_succ_of_le (hr.builtLe k ri h),
                             fun k row h => Nat.lt_succ_of_le (hr.dbBuiltLe k row h)⟩,
        notReturned := hr.notReturned, noCycle := hr.noCycle, noErr := hr.noErr, cancelled := hr.cancelled,
        validNone := hr.validNone, noPending := hr.noPending, noRan := hr.noRan, noScanned := hr.noScanned,
        noSeq := hr.noSeq }

theorem Quiet.liveRecords {s : State} (hq : Quiet s) (hn : (s.ruleInfos.map (fun p => p.1)).Nodup) : liveRecords s = [] := by
  unfold LLBuild.Refine.liveRecords
  apply List.filterMap_eq_nil_iff.2
  intro p hp
  have hl := lookup_of_mem_nodup s.ruleInfos p.1 p.2 hn hp
  rcases hq.states p.1 p.2 hl with h | h <;> simp [RuleInfo.isScanning, h]

theorem Quiet.scanCount {s : State} (hq : Quiet s) (hn : (s.ruleInfos.map (fun p => p.1)).Nodup) :
    (s.ruleInfos.filter (fun p => p.2.isScanning)).length = 0 := by
  rw [List.length_eq_zero_iff]
  apply List.filter_eq_nil_iff.2
  intro p hp
  have hl := lookup_of_mem_nodup s.ruleInfos p.1 p.2 hn hp
  rcases hq.states p.1 p.2 hl with h | h <;> simp [RuleInfo.isScanning, h]

/-- **Entry into the work loop**: after `QC`, `++currentEpoch` and the registration of the requested key,
the full relation holds (everything is quiescent, every rule is idle for this epoch). -/
theorem Rel.entry {rules : List RuleSpec} {key : Key} {s : State} {m : Engine.St} (hr : RelPre rules key true s m) :
    Rel rules s ⟨m, none⟩ {} := by
  obtain ⟨hep, hblt, hrlt⟩ := hr.builtLt rfl
  have hlr := hr.toQuiet.liveRecords hr.rulesNodup
  have hout : outstanding s {} = [] := by
    simp [outstanding, unprocessed, processed, pausedAll, requestedByAll, hlr, hr.noInputQ, hr.noTasks, hr.noFinQ]
  have hunp : unprocessed s {} = [] := by
    simp [unprocessed, pausedAll, hlr, hr.noInputQ]
  have hproc : processed s {} = [] := by
    simp [processed, requestedByAll, hr.noTasks, hr.noFinQ]
  have hscan : scanReqs s {} = [] := by
    simp [scanReqs, deferredAll, hlr, hr.noScanQ, hr.noTasks]
  have hstat : ∀ k, statusOf s none k = .idle := by
    intro k
    unfold statusOf
    cases hl : s.ruleInfos.lookup k with
    | none => rfl
    | some ri =>
      rcases hr.states k ri hl with h | h
      · simp [h]
      · have := hblt k ri hl
        simp [h]; omega
  have hnotask : ∀ a, s.taskInfos.lookup a = none := by intro a; rw [hr.noTasks]; rfl
  refine
    { toBase := hr.toBase, active := hr.active, started := hr.startedEq, notReturned := hr.notReturned, epochPos := hep,
      cancelled := fun h => Or.inl (hr.cancelled h), errCancelled := fun h => (by rw [hr.noErr] at h; cases h),
      noCycle := hr.noCycle, targetReg := ?targetReg, status := ?status, pendOk := ?pendOk,
      validIdle := fun k _ => hr.validNone k, scanningOk := ?scanningOk, dntrFresh := ?dntrFresh, inScanned := ?inScanned,
      inRan := ?inRan, ranOk := ?ranOk, scanOne := ?scanOne, scanOk := ?scanOk,
      deferredAtRecord := ?deferredAtRecord, deferredAtTask := ?deferredAtTask, recordLive := ?recordLive,
      scanCount := ?scanCount, recordWaited := ?recordWaited, midScan := ?midScan, taskKeys := ?taskKeys, taskNodup := ?taskNodup,
      taskOk := ?taskOk, reqReg := ?reqReg, reqTask := ?reqTask, dummyOk := ?dummyOk, dummyUnproc := ?dummyUnproc,
      pausedAt := ?pausedAt, requestedAt := ?requestedAt, finDone := ?finDone, pendingOk := ?pendingOk,
      readyOk := ?readyOk, readyNodup := ?readyNodup, finTaskOk := ?finTaskOk, finTaskNodup := ?finTaskNodup,
      deferredOk := ?deferredOk, deferredNodup := ?deferredNodup, computingWhere := ?computingWhere,
      outstandingCount := ?outstandingCount }
  case targetReg => exact ⟨key, hr.target⟩
  case status => intro k; rw [hstat]; exact hr.allIdle k
  case pendOk => intro k h; cases h
  case scanningOk =>
    intro k ri hl h
    rcases hr.states k ri hl with h' | h' <;> rcases h with h | h <;> simp [h'] at h
  case dntrFresh =>
    intro k ri hl h
    rcases hr.states k ri hl with h' | h' <;> simp [h'] at h
  case inScanned => intro k h; rw [hr.allIdle k] at h; cases h
  case inRan => intro k h; rw [hr.allIdle k] at h; rcases h with h | h <;> cases h
  case ranOk => intro k h; rw [hr.noRan] at h; cases h
  case scanOne =>
    intro k ri hl h
    rcases hr.states k ri hl with h' | h' <;> simp [h'] at h
  case scanOk => intro r h; rw [hscan] at h; cases h
  case deferredAtRecord => intro p h; rw [hlr] at h; cases h
  case deferredAtTask => intro p h; rw [hr.noTasks] at h; cases h
  case recordLive =>
    intro k ri hl h
    rcases hr.states k ri hl with h' | h' <;> simp [h'] at h
  case scanCount => rw [hr.toQuiet.scanCount hr.rulesNodup]; exact hr.noScanning
  case recordWaited => intro p h; rw [hlr] at h; cases h
  case midScan =>
    intro k ri hl h
    rcases hr.states k ri hl with h' | h' <;> rcases h with h | h <;> simp [h'] at h
  case taskKeys => intro k; rw [hnotask, hstat]; rfl
  case taskNodup => rw [hr.noTasks]; exact List.nodup_nil
  case taskOk => intro a t h; rw [hnotask] at h; cases h
  case reqReg => intro r h; rw [hout] at h; cases h
  case reqTask => intro r h; rw [hout] at h; cases h
  case dummyOk => intro r h; rw [hunp] at h; cases h
  case dummyUnproc => intro r h; rw [hproc] at h; cases h
  case pausedAt => intro p h; rw [hlr] at h; cases h
  case requestedAt => intro p h; rw [hr.noTasks] at h; cases h
  case finDone => intro r h; simp [hr.noFinQ] at h
  case pendingOk => intro p h; rw [hr.noPending] at h; cases h
  case readyOk => intro a h; rw [hr.noReady] at h; cases h
  case readyNodup => rw [hr.noReady]; exact List.nodup_nil
  case finTaskOk => intro a h; rw [hr.noFinTasks] at h; cases h
  case finTaskNodup => rw [hr.noFinTasks]; exact List.nodup_nil
  case deferredOk => intro a h; rw [hr.noDeferred] at h; cases h
  case deferredNodup => rw [hr.noDeferred]; exact List.nodup_nil
  case computingWhere => intro a t h; rw [hnotask] at h; cases h
  case outstandingCount => simp [hr.noOutstanding, hr.noDeferred, hr.noFinTasks]

end LLBuild.Refine
