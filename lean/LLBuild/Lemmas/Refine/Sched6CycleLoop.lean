/-
C07 "cycles are never reported falsely" (including the EMPTY report, F30) — part 3: THE WORK LOOP.
`workLoopA_cycle`: the induction of `workLoopA_final` (AsyncLoop.lean) with the conclusion `CYB`: for every split
`toks = pre ++ CY ks :: post` of the tokens recorded by the loop, the monitor state reached by `pre` is stuck (`StuckM`:
some rule is blocked, every blocked rule waits for a blocked rule).  `CY` is recorded only at the cycle exit
(`afterWaitA_specY`: there the engine state is `Cyc.Stuck`, `Cyc.stuckM`); every other piece of an iteration records no `CY`
(Sched6CycleClosed.lean) and leads from one `Inv` pair to the next, so the claim is pushed back through it by `CYB.prepend`.
-/
import LLBuild.Lemmas.Refine.Sched6CycleStuck

namespace LLBuild.Refine
open LLBuild.Engine LLBuild.Engine.DSL LLBuild.EngineImpl

theorem noCYB_apN : ∀ (n : Nat) (a : Async) (s : State), NoCYB s (apN n a s).2
  | 0, _, s => NoCYB.refl s
  | n + 1, a, s => (noCYB_apN n a s).trans (noCYB_asyncPoint _ _)

/-- the conclusion about the work loop for a result state `s'` -/
abbrev CPostY (rules : List RuleSpec) (ms : MSt) (s s' : State) : Prop := CYB (program rules) ms s s'

/-- the end of an iteration: next iteration, success, or a reported cycle — the only place where `CY` is recorded -/
theorem afterWaitA_specY {rules : List RuleSpec} {key : Key} {fuel : Nat}
    (ih : ∀ a s ms, Inv rules key s ms → NoMid s → Aux key s {} → s.halted = false →
      (executeLoopA key fuel a s).2.2.halted = false → CPostY rules ms s (executeLoopA key fuel a s).2.2)
    (w : Bool) (a : Async) (s : State) (ms : MSt) (hi : Inv rules key s ms) (hnm : NoMid s) (haux : Aux key s {})
    (hh : s.halted = false)
    (hq : w = false → s.ruleInfosToScan = [] ∧ s.inputRequests = [] ∧
      s.finishedInputRequests = [] ∧ s.readyTaskInfos = [] ∧ s.finishedTaskInfos = [] ∧
      s.numOutstandingUnfinishedTasks = 0)
    (hnh : (afterWaitA key fuel w a s).2.2.halted = false) :
    CPostY rules ms s (afterWaitA key fuel w a s).2.2 := by
  unfold afterWaitA at hnh ⊢
  cases w with
  | true =>
    simp only [if_true] at hnh ⊢
    exact ih a s ms hi hnm haux hh hnh
  | false =>
    simp only [Bool.false_eq_true, if_false] at hnh ⊢
    obtain ⟨q1, q2, q3, q4, q5, hnum⟩ := hq rfl
    have hrc := resolveCycle_noResolve key s hi.rel.noResolve
    by_cases hc : (!s.taskInfos.isEmpty || s.numRulesBeingScanned != 0 || !isComplete s (s.rule key)) = true
    · rw [if_pos hc] at hnh ⊢
      cases hfc : findCycle key s with
      | none =>
        rw [hfc] at hrc; simp only [] at hrc
        rw [hrc] at hnh; simp only [Bool.false_eq_true, if_false] at hnh
        rw [haltMono_cancelA a _ (halt_halted _ _)] at hnh; cases hnh
      | some ks =>
        rw [hfc] at hrc; simp only [] at hrc
        rw [hrc] at hnh ⊢; simp only [Bool.false_eq_true, if_false] at hnh ⊢
        have hst : Cyc.Stuck rules s ms := ⟨hi.rel, hi.pend, hnm, q1, q2, q3, q4, q5, hnum⟩
        have hstuck : StuckM ms.m :=
          Cyc.stuckM hst hi.noMF haux.readyWhenZero hfc (haux.rootNotIdle hi.rel hi.pend q2) hc
        obtain ⟨drain, hed, hnd⟩ := noCYB_cancelRemainingTasksA a (emit (.CY ks) s)
        rcases emit_emits (.CY ks) s hh with e | e
        · exact ⟨[.CY ks] ++ drain, e.trans hed, CYok.head hstuck hnd⟩
        · exact ⟨[.CY ks, .X] ++ drain, e.trans hed, CYok.head hstuck (NoCYL.cons rfl hnd)⟩
    · rw [if_neg hc] at hnh ⊢
      exact CYB.of_noCY (NoCYB.refl s)

/-- the end of an iteration from the result of `finishedTasksLoopA` -/
theorem afterTasksA_specY {rules : List RuleSpec} (hok : RulesOk rules) {key : Key} {fuel : Nat}
    (ih : ∀ a s ms, Inv rules key s ms → NoMid s → Aux key s {} → s.halted = false →
      (executeLoopA key fuel a s).2.2.halted = false → CPostY rules ms s (executeLoopA key fuel a s).2.2)
    (r : Bool × Bool × Async × State) (hr1 : r.1 = false) (ms : MSt) (hi : Inv rules key r.2.2.2 ms)
    (hnm : NoMid r.2.2.2) (haux : Aux key r.2.2.2 {}) (hh : r.2.2.2.halted = false)
    (hq : r.2.1 = false → r.2.2.2.ruleInfosToScan = [] ∧ r.2.2.2.inputRequests = [] ∧
      r.2.2.2.finishedInputRequests = [] ∧ r.2.2.2.readyTaskInfos = [])
    (hnh : (afterTasksA key fuel r).2.2.halted = false) :
    CPostY rules ms r.2.2.2 (afterTasksA key fuel r).2.2 := by
  unfold afterTasksA at hnh ⊢
  simp only [hr1, Bool.false_eq_true, if_false] at hnh ⊢
  obtain ⟨toks6, ms6, he6, hr6, hi6, -, hh6, hnm6, haux6, -⟩ := asyncPoint_inv r.2.2.1 hi hh
  refine CYB.prepend he6 (noCYB_asyncPoint _ _) hr6 ?_
  obtain ⟨f1, f2, f3, f4, f5⟩ := asyncPoint_frame r.2.2.1 r.2.2.2
  by_cases hw : (!r.2.1 && (asyncPoint r.2.2.1 r.2.2.2).2.numOutstandingUnfinishedTasks != 0) = true
  · rw [if_pos hw] at hnh ⊢
    have h7 := afterWaitA_of_result hnh
    have e7 := waitStep_eq h7
    rw [e7] at hnh h7 ⊢
    obtain ⟨toks7, ms7, he7, hr7, hi7, hnm7⟩ :=
      hi6.step (hook_sim rules hok 1 _ ms6 hi6.rel hi6.pend hh6) h7
    refine CYB.prepend he7 (noCYB_hook 1 _) hr7 ?_
    exact afterWaitA_specY ih true _ _ ms7 hi7 (hnm7 (hnm6 hnm)) (hook_aux key 1 hi6.rel hi6.pend hh6 (haux6 haux)) h7
      (fun h => by cases h) hnh
  · rw [if_neg hw] at hnh ⊢
    refine afterWaitA_specY ih _ _ _ ms6 hi6 (hnm6 hnm) (haux6 haux) hh6 ?_ hnh
    intro hw5
    obtain ⟨q1, q2, q3, q4⟩ := hq hw5
    have hnum : (asyncPoint r.2.2.1 r.2.2.2).2.numOutstandingUnfinishedTasks = 0 := by
      rw [hw5] at hw
      simpa using hw
    have q5 : (asyncPoint r.2.2.1 r.2.2.2).2.finishedTaskInfos = [] := by
      have hc := hi6.rel.outstandingCount
      rw [hnum] at hc
      apply List.eq_nil_of_length_eq_zero
      omega
    exact ⟨f1.trans q1, f2.trans q2, f3.trans q3, f4.trans q4, q5, hnum⟩

/-- the statement about the asynchronous work loop: premises of `WorkLoopSpecA`; conclusion: the monitor is stuck at every
`CY` token the loop records -/
def WorkLoopSpecY (rules : List RuleSpec) : Prop :=
  ∀ (key : Key) (fuel : Nat) (a : Async) (s : State) (ms : MSt),
    Rel rules s ms {} → NoMid s → ms.pend = none → ms.m.target = some key → Registered s key → s.halted = false →
    (∀ p ∈ ms.m.pending, isDone ms.m p.1 = false) →
    (∀ a q, delivered (ms.m.task a).seq q = true → q.kind ≠ 2) →
    Aux key s {} →
    (executeLoopA key fuel a s).2.2.halted = false →
    CYB (program rules) ms s (executeLoopA key fuel a s).2.2

/-- **whenever the work loop records `CY ks`, the monitor state reached by the tokens before it is stuck**, for every
schedule of completions and cancellations at item boundaries -/
theorem workLoopA_cycle : ∀ rules, RulesOk rules → WorkLoopSpecY rules := by
  intro rules hok key fuel
  suffices H : ∀ a s ms, Inv rules key s ms → NoMid s → Aux key s {} → s.halted = false →
      (executeLoopA key fuel a s).2.2.halted = false → CPostY rules ms s (executeLoopA key fuel a s).2.2 from
    fun a s ms hr hnm hp ht hreg hh hpf hmf haux hnh => H a s ms ⟨hr, hp, ht, hreg, hpf, hmf⟩ hnm haux hh hnh
  have hS := asyncStepSim
  have hF := asyncStepFrame
  have hA := asyncStepAux
  have hT := asyncStepTerm
  induction fuel with
  | zero =>
    intro a s ms _ _ _ _ hnh
    rw [executeLoopA_zero, halt_halted] at hnh; cases hnh
  | succ fuel ih =>
    intro a s ms hi hnm haux hh hnh
    rw [executeLoopA_succ] at hnh ⊢
    simp only [hh, Bool.false_eq_true, if_false] at hnh ⊢
    -- the item boundary at the top of the loop
    obtain ⟨toksP, msP, heP, hrP, hiP, -, hhP, hnmP', hauxP', -⟩ := asyncPoint_inv a hi hh
    refine CYB.prepend heP (noCYB_asyncPoint a s) hrP ?_
    have hnmP := hnmP' hnm
    have hauxP := hauxP' haux
    generalize asyncPoint a s = p0 at hnh hiP hhP hnmP hauxP ⊢
    obtain ⟨a0, sP⟩ := p0
    simp only [] at hnh hiP hhP hnmP hauxP ⊢
    clear heP hrP hnmP' hauxP' hi hnm haux hh s ms a
    -- `hook 0`
    have hh0 : (hook 0 sP).halted = false := by
      by_cases hc : (hook 0 sP).buildCancelled = true
      · rw [if_pos hc] at hnh; exact (haltMono_cancelA a0).of_result hnh
      · rw [if_neg hc] at hnh
        have h5 := afterTasksA_of_result hnh
        have h4 : (stA4 a0 (hook 0 sP)).2.2.halted = false := (haltMono_finTasksA _ _ _).of_result h5
        have h3 : (stA3 a0 (hook 0 sP)).2.2.halted = false := (haltMono_readyA _ _ _).of_result h4
        have h2 : (stA2 a0 (hook 0 sP)).2.2.halted = false := (haltMono_finInputA _ _ _).of_result h3
        have h1 : (stA1 a0 (hook 0 sP)).2.2.halted = false := (haltMono_inputA _ _ _).of_result h2
        exact (haltMono_scanA _ _ _).of_result h1
    obtain ⟨toks0, ms0, he0, hr0, hi0, hnm0'⟩ := hiP.step (hook_sim rules hok 0 sP msP hiP.rel hiP.pend hhP) hh0
    have hnm0 := hnm0' hnmP
    have haux0 : Aux key (hook 0 sP) {} := hook_aux key 0 hiP.rel hiP.pend hhP hauxP
    refine CYB.prepend he0 (noCYB_hook 0 sP) hr0 ?_
    generalize hook 0 sP = s0 at hnh hh0 hi0 hnm0 haux0 ⊢
    clear he0 hr0 hnm0' hiP hnmP hauxP hhP sP msP
    by_cases hc : s0.buildCancelled = true
    · rw [if_pos hc] at hnh ⊢
      exact CYB.of_noCY (noCYB_cancelRemainingTasksA a0 s0)
    · rw [if_neg hc] at hnh ⊢
      have h5 := afterTasksA_of_result hnh
      have h4 : (stA4 a0 s0).2.2.halted = false := (haltMono_finTasksA _ _ _).of_result h5
      have h3 : (stA3 a0 s0).2.2.halted = false := (haltMono_readyA _ _ _).of_result h4
      have h2 : (stA2 a0 s0).2.2.halted = false := (haltMono_finInputA _ _ _).of_result h3
      have h1 : (stA1 a0 s0).2.2.halted = false := (haltMono_inputA _ _ _).of_result h2
      have IH : ∀ a s ms, Inv rules key s ms → NoMid s → Aux key s {} → s.halted = false →
          (executeLoopA key fuel a s).2.2.halted = false → CPostY rules ms s (executeLoopA key fuel a s).2.2 := ih
      by_cases hw5 : (stA5 a0 s0).2.1 = true
      · -- some loop did work: stage by stage
        have S1 : Sim rules s0 ms0 (stA1 a0 s0).2.2 {} (fun _ => (stA1 a0 s0).2.2.ruleInfosToScan = []) :=
          scanRequestsLoopA_sim hS hF hA hT rules hok loopFuel false a0 s0 ms0 hi0.rel hi0.pend hh0
        have haux1 : Aux key (stA1 a0 s0).2.2 {} :=
          scanRequestsLoopA_aux hS hF hA hT hok key loopFuel false a0 s0 ms0 hi0.rel hi0.pend hh0 h1 haux0
        obtain ⟨toks1, ms1, he1, hr1, hi1, hq1⟩ := hi0.step S1 h1
        have n1 : NoCYB s0 (stA1 a0 s0).2.2 := noCYB_scanRequestsLoopA loopFuel false a0 s0
        have hfresh1 : FreshScanQ (stA1 a0 s0).2.2 := by
          intro r hr; rw [hq1] at hr; cases hr
        have S2 : Sim rules (stA1 a0 s0).2.2 ms1 (stA2 a0 s0).2.2 {} (fun ms' =>
            ((stA2 a0 s0).2.2.inputRequests = [] ∧ NoMid (stA2 a0 s0).2.2 ∧ FreshScanQ (stA2 a0 s0).2.2) ∧
              PendFresh ms'.m) :=
          inputRequestsLoopA_sim hS hF rules hok loopFuel (stA1 a0 s0).1 (stA1 a0 s0).2.1 (stA1 a0 s0).2.2 ms1
            hi1.rel hi1.pend h1 hfresh1 hi1.pendFresh
        have haux2 : Aux key (stA2 a0 s0).2.2 {} :=
          inputRequestsLoopA_aux hS hF hA rules hok loopFuel (stA1 a0 s0).1 (stA1 a0 s0).2.1 (stA1 a0 s0).2.2 ms1 key
            hi1.rel hi1.pend h1 hfresh1 hi1.pendFresh h2 scanRuleAux demandRule_aux haux1
        obtain ⟨toks2, ms2, he2, hr2, hi2, ⟨-, hnm2, -⟩, -⟩ := hi1.step S2 h2
        have n2 : NoCYB (stA1 a0 s0).2.2 (stA2 a0 s0).2.2 := noCYB_inputRequestsLoopA loopFuel _ _ _
        have S3 : Sim rules (stA2 a0 s0).2.2 ms2 (stA3 a0 s0).2.2 {} (fun _ =>
            (stA3 a0 s0).2.2.finishedInputRequests = [] ∧ NoMid (stA3 a0 s0).2.2) :=
          finishedInputsLoopA_sim hS hF hA hT rules hok loopFuel (stA2 a0 s0).1 (stA2 a0 s0).2.1 (stA2 a0 s0).2.2 ms2
            hi2.rel hi2.pend h2 hnm2
        have haux3 : Aux key (stA3 a0 s0).2.2 {} :=
          finishedInputsLoopA_aux hS hF hA hT hok loopFuel (stA2 a0 s0).1 (stA2 a0 s0).2.1 (stA2 a0 s0).2.2 ms2
            hi2.rel hi2.pend h2 hnm2 h3 haux2
        obtain ⟨toks3, ms3, he3, hr3, hi3, -, hnm3⟩ := hi2.step S3 h3
        have n3 : NoCYB (stA2 a0 s0).2.2 (stA3 a0 s0).2.2 := noCYB_finishedInputsLoopA loopFuel _ _ _
        have S4 : Sim rules (stA3 a0 s0).2.2 ms3 (stA4 a0 s0).2.2 {} (fun _ =>
            (stA4 a0 s0).2.2.readyTaskInfos = [] ∧ NoMid (stA4 a0 s0).2.2) :=
          readyTasksLoopA_sim rules hok loopFuel (stA3 a0 s0).1 (stA3 a0 s0).2.1 (stA3 a0 s0).2.2 ms3
            hi3.rel hi3.pend h3 hnm3
        have haux4 : Aux key (stA4 a0 s0).2.2 {} :=
          readyTasksLoopA_aux key loopFuel (stA3 a0 s0).1 (stA3 a0 s0).2.1 (stA3 a0 s0).2.2 ms3
            hi3.rel hi3.pend h3 hnm3 h4 haux3
        obtain ⟨toks4, ms4, he4, hr4, hi4, -, hnm4⟩ := hi3.step S4 h4
        have n4 : NoCYB (stA3 a0 s0).2.2 (stA4 a0 s0).2.2 := noCYB_readyTasksLoopA loopFuel _ _ _
        have S5 : (stA5 a0 s0).1 = false ∧ Sim rules (stA4 a0 s0).2.2 ms4 (stA5 a0 s0).2.2.2 {} (fun _ =>
            (stA5 a0 s0).2.2.2.finishedTaskInfos = [] ∧ NoMid (stA5 a0 s0).2.2.2) :=
          finishedTasksLoopA_sim hS hF rules hok loopFuel (stA4 a0 s0).1 (stA4 a0 s0).2.1 (stA4 a0 s0).2.2 ms4
            hi4.rel hi4.pend h4 hnm4
        have haux5 : Aux key (stA5 a0 s0).2.2.2 {} :=
          finishedTasksLoopA_aux hS hF hA hok loopFuel (stA4 a0 s0).1 (stA4 a0 s0).2.1 (stA4 a0 s0).2.2 ms4
            hi4.rel hi4.pend h4 hnm4 haux4
        obtain ⟨hfail, S5⟩ := S5
        obtain ⟨toks5, ms5, he5, hr5, hi5, -, hnm5⟩ := hi4.step S5 h5
        have n5 : NoCYB (stA4 a0 s0).2.2 (stA5 a0 s0).2.2.2 := noCYB_finishedTasksLoopA loopFuel _ _ _
        refine CYB.prepend (he1.trans (he2.trans (he3.trans (he4.trans he5))))
          (n1.trans (n2.trans (n3.trans (n4.trans n5))))
          (trun_append_some hr1 (trun_append_some hr2 (trun_append_some hr3 (trun_append_some hr4 hr5)))) ?_
        exact afterTasksA_specY hok IH (stA5 a0 s0) hfail ms5 hi5 hnm5 haux5 h5
          (fun h => by rw [hw5] at h; cases h) hnh
      · -- no work: five item boundaries
        have hw5' : (stA5 a0 s0).2.1 = false := by simpa using hw5
        obtain ⟨e, q1, q2, q3, q4, -, hfail⟩ := noworkA_all a0 s0 hw5' h1 h2 h3 h4 h5
        obtain ⟨toks5, ms5, he5, hr5, hi5, -, hh5, hnm5, haux5, -⟩ := apN_inv 5 a0 hi0 hh0
        have hnm5' := hnm5 hnm0
        have haux5' := haux5 haux0
        have n5 : NoCYB s0 (apN 5 a0 s0).2 := noCYB_apN 5 a0 s0
        rw [← e] at he5 hi5 hh5 hnm5' haux5' q1 q2 q3 q4 n5
        refine CYB.prepend he5 n5 hr5 ?_
        exact afterTasksA_specY hok IH (stA5 a0 s0) hfail ms5 hi5 hnm5' haux5' hh5
          (fun _ => ⟨q1, q2, q3, q4⟩) hnh

end LLBuild.Refine
