/-
IM3 — termination / no-stall: `DslTask::issue` and `demandRule` (T1: no halt, T2: the potential `Phi` does not increase).
Local toolbox lemmas are `private` (the shared `TermBasic.lean` was not available when this file was written).
-/
import LLBuild.Lemmas.Refine.Demand
import LLBuild.Lemmas.Refine.Term0

namespace LLBuild.Refine
open LLBuild.Engine LLBuild.Engine.DSL LLBuild.EngineImpl

/-! ## T1: no halt -/

/-- **`issue` never halts** (hypotheses of `Todo_issue`; `ER 2` and `BAD abort` are unreachable) -/
theorem issue_nohalt : ∀ rules, RulesOk rules → ∀ (s : State) (ms : MSt) (h : Hand) (a : Key) (l : List Req),
    h.issuing = none → Rel rules s ms { h with issuing := some (a, l) } → ms.pend = none → s.halted = false →
    (s.rule a).state = .inProgressWaiting →
    (∃ t, s.taskInfos.lookup a = some t ∧ (∀ q ∈ l, q ∉ t.issuedReqs) ∧ (∀ q ∈ t.issuedReqs, q ∈ allReqs (specOf rules a))) →
    l.Nodup → (∀ q ∈ l, q ∈ allReqs (specOf rules a)) →
    a ∉ s.readyTaskInfos →
    (issue a l s).halted = false := by
  intro rules hok s ms h a l _ hr hp hh hw ⟨t, hl, hnew, hta⟩ hnd hall hnr
  obtain ⟨_, _, _, _, _, _, _, _, _, b7, _⟩ := issue_run hok l s ms h a t hr hp hh hw hl hnew hta hnd hall hnr
  exact b7

theorem demandTail_halted (k : Key) (s : State) : (demandTail k s).halted = s.halted := by
  unfold demandTail
  simp only
  split <;> split <;> simp

/-- statement: `demandRule` never halts -/
def DemandRuleNoHalt : Prop :=
  ∀ rules, RulesOk rules → ∀ (s : State) (ms : MSt) (h : Hand) (k : Key),
    h.dec = [] → Rel rules s ms h → ms.pend = none → s.halted = false → h.issuing = none → Registered s k →
    isScanned s (s.rule k) = true →
    (demandRule k s).2.halted = false

/-- the three shapes of `demandRule` on a scanned rule -/
theorem demandRule_cases {rules : List RuleSpec} {s : State} {m : Engine.St} {h : Hand} {k : Key} {ri : RuleInfo}
    (hr : Rel rules s ⟨m, none⟩ h) (hl : s.ruleInfos.lookup k = some ri) (hsc : isScanned s ri = true) :
    (demandRule k s).2 = s ∨
    (ri.state = .doesNotNeedToRun ∧ (demandRule k s).2 = emit (.S k 1) (s.setRule (setComplete s ri))) ∨
    (ri.state = .needsToRun ∧ (demandRule k s).2 =
      demandTail k (issue k (demandFresh s k) (emitAll [.T k, .ST k (demandFresh s k)] (createUpd k ri s)))) := by
  have _ := hr
  have hrule : s.rule k = ri := rule_of_lookup hl
  by_cases h1 : isComplete s ri = true
  · left; unfold demandRule; simp [hrule, h1]
  have h1' : isComplete s ri = false := by simpa using h1
  by_cases h2 : ri.isInProgress = true
  · left; unfold demandRule; simp [hrule, h1', h2]
  have h2' : ri.isInProgress = false := by simpa using h2
  by_cases h3 : ri.state = .doesNotNeedToRun
  · right; left
    refine ⟨h3, ?_⟩
    unfold demandRule; simp [hrule, h1', h2', h3]
  · right; right
    have h3' : (ri.state == .doesNotNeedToRun) = false := by simpa using h3
    have hst : ri.state = .needsToRun := by
      unfold isScanned at hsc
      unfold RuleInfo.isInProgress RuleInfo.isInProgressWaiting RuleInfo.isInProgressComputing at h2'
      cases hs : ri.state <;> simp_all [StateKind.toNat]
    refine ⟨hst, ?_⟩
    rw [demandRule_run_eq k s (by rw [hrule]; exact h1') (by rw [hrule]; exact h2') (by rw [hrule]; exact h3'), hrule]

/-- what the `NeedsToRun` branch knows when `issue` is called (state after `T k ; ST k fresh`) -/
structure DemandMid (rules : List RuleSpec) (s : State) (h : Hand) (k : Key) (ri : RuleInfo) (s1 : State) : Prop where
  same : SameEngine (createUpd k ri s) s1
  rel : ∃ ms1, Rel rules s1 ms1 { h with issuing := some (k, demandFresh s k) } ∧ ms1.pend = none
  halted : s1.halted = false
  waiting : (s1.rule k).state = .inProgressWaiting
  task : s1.taskInfos.lookup k = some { forRuleInfo := k }
  notReady : k ∉ s1.readyTaskInfos
  taskNone : s.taskInfos.lookup k = none
  nodup : (demandFresh s k).Nodup
  sub : ∀ q ∈ demandFresh s k, q ∈ allReqs (specOf rules k)

theorem demandMid {rules : List RuleSpec} {s : State} {m : Engine.St} {h : Hand} {k : Key} {ri : RuleInfo}
    (hr : Rel rules s ⟨m, none⟩ h) (hh : s.halted = false) (hi : h.issuing = none) (hd : h.dec = [])
    (hl : s.ruleInfos.lookup k = some ri) (hst : ri.state = .needsToRun) :
    DemandMid rules s h k ri (emitAll [.T k, .ST k (demandFresh s k)] (createUpd k ri s)) := by
  have hk : ri.key = k := hr.keyOk k ri hl
  have hdec : ∀ r ∈ h.dec, r.taskInfo ≠ some k := by rw [hd]; intro r hr'; cases hr'
  have hstatOf0 : statusOf s none k = .needsRun := by simp [statusOf, hl, hst]
  have htaskNone : s.taskInfos.lookup k = none := by
    have := hr.taskKeys k
    simp only at this
    rw [hstatOf0] at this
    cases h1 : s.taskInfos.lookup k with
    | none => rfl
    | some _ => rw [h1] at this; simp at this
  have hnready : k ∉ s.readyTaskInfos := by
    intro hm
    obtain ⟨t, h1, _⟩ := hr.readyOk k hm
    rw [htaskNone] at h1; cases h1
  have hsame1 := emitAll_same [.T k, .ST k (demandFresh s k)] (createUpd k ri s)
  refine
    { same := hsame1, rel := demand_start hr hh hi hdec hl hst, halted := by rw [emitAll_halted]; exact hh,
      waiting := ?_, task := ?_, notReady := by rw [hsame1.readyTaskInfos]; exact hnready, taskNone := htaskNone,
      nodup := demandFresh_nodup s k,
      sub := by have := demandFresh_subset s k; rw [hr.rules_eq] at this; exact this }
  · rw [rule_same hsame1]; unfold State.rule; rw [createUpd_lookup hk]; simp [startedRule]
  · rw [hsame1.taskInfos, createUpd_task_lookup]; simp

theorem demandRule_nohalt : DemandRuleNoHalt := by
  intro rules hok s ms h k hd hr hp hh hi hreg hsc
  obtain ⟨m, pend⟩ := ms
  simp only at hp; subst hp
  obtain ⟨ri, hl⟩ := Option.isSome_iff_exists.1 hreg
  rw [rule_of_lookup hl] at hsc
  rcases demandRule_cases hr hl hsc with e | ⟨_, e⟩ | ⟨hst, e⟩
  · rw [e]; exact hh
  · rw [e, emit_halted_eq]; exact hh
  · rw [e, demandTail_halted]
    have hm := demandMid hr hh hi hd hl hst
    obtain ⟨ms1, rel1, hpend1⟩ := hm.rel
    exact issue_nohalt rules hok _ ms1 h k _ hi rel1 hpend1 hm.halted hm.waiting
      ⟨_, hm.task, fun q _ hx => (by cases hx), fun q hx => (by cases hx)⟩ hm.nodup hm.sub hm.notReady

/-! ## T2: the potential.  Local toolbox -/

private theorem sumBy_nil {α : Type} (f : α → Nat) : sumBy f [] = 0 := rfl
private theorem sumBy_cons {α : Type} (f : α → Nat) (a : α) (l : List α) : sumBy f (a :: l) = f a + sumBy f l := by
  simp [sumBy]
private theorem sumBy_append {α : Type} (f : α → Nat) (l1 l2 : List α) : sumBy f (l1 ++ l2) = sumBy f l1 + sumBy f l2 := by
  simp [sumBy]

private theorem sumBy_le {α : Type} (f g : α → Nat) : ∀ (l : List α), (∀ x ∈ l, f x ≤ g x) → sumBy f l ≤ sumBy g l
  | [], _ => Nat.le_refl _
  | a :: l, h => by
    rw [sumBy_cons, sumBy_cons]
    have h1 := h a (by simp)
    have h2 := sumBy_le f g l (fun x hx => h x (by simp [hx]))
    omega

private theorem sumBy_congr {α : Type} (f g : α → Nat) (l : List α) (h : ∀ x ∈ l, f x = g x) : sumBy f l = sumBy g l :=
  Nat.le_antisymm (sumBy_le f g l (fun x hx => Nat.le_of_eq (h x hx))) (sumBy_le g f l (fun x hx => Nat.le_of_eq (h x hx).symm))

/-- one summand drops by `c`, the others do not grow -/
private theorem sumBy_drop (f g : Key → Nat) (a : Key) (c : Nat) : ∀ (l : List Key), l.Nodup → a ∈ l →
    (∀ x ∈ l, x ≠ a → f x ≤ g x) → f a + c ≤ g a → sumBy f l + c ≤ sumBy g l
  | [], _, hm, _, _ => by cases hm
  | b :: l, hn, hm, ho, ha => by
    rw [sumBy_cons, sumBy_cons]
    have hn' := List.nodup_cons.1 hn
    by_cases e : b = a
    · subst e
      have h2 := sumBy_le f g l (fun x hx => ho x (by simp [hx]) (fun e => hn'.1 (e ▸ hx)))
      omega
    · have hm' : a ∈ l := by
        rcases List.mem_cons.1 hm with h1 | h1
        · exact absurd h1.symm e
        · exact h1
      have h1 := ho b (by simp) e
      have h2 := sumBy_drop f g a c l hn'.2 hm' (fun x hx => ho x (by simp [hx])) ha
      omega

/-- `Phi` from its eight summands -/
private theorem Phi_mono {rules : List RuleSpec} {U : List Key} {s s' : State} {h h' : Hand} {cR cI : Nat}
    (h1 : sumBy (ruleW rules s') U + cR ≤ sumBy (ruleW rules s) U)
    (h2 : sumBy (inputQW s') (h'.inp ++ s'.inputRequests) ≤ sumBy (inputQW s) (h.inp ++ s.inputRequests) + cI)
    (h3 : (pausedAll s').length = (pausedAll s).length)
    (h4 : (requestedByAll s').length = (requestedByAll s).length)
    (h5 : (h'.fin ++ s'.finishedInputRequests).length = (h.fin ++ s.finishedInputRequests).length)
    (h6 : sumBy (scanQW s') (h'.scan ++ s'.ruleInfosToScan) ≤ sumBy (scanQW s) (h.scan ++ s.ruleInfosToScan))
    (h7 : sumBy (fun r => scanRest s' r + 4) ((liveRecords s').flatMap (fun p => p.2.deferredScanRequests)) ≤
          sumBy (fun r => scanRest s r + 4) ((liveRecords s).flatMap (fun p => p.2.deferredScanRequests)))
    (h8 : sumBy (fun r => scanRest s' r + 2) (s'.taskInfos.flatMap (fun p => p.2.deferredScanRequests)) ≤
          sumBy (fun r => scanRest s r + 2) (s.taskInfos.flatMap (fun p => p.2.deferredScanRequests)))
    (hc : cI ≤ cR) : Phi rules U s' h' + (cR - cI) ≤ Phi rules U s h := by
  unfold Phi
  omega

/-! ### the weights depend on the state through `phase`, `deps0`, the rules' dependency lists and the tasks' `issuedReqs` -/

private theorem phase_congr {s s' : State} (h1 : s'.ruleInfos = s.ruleInfos) (h2 : s'.currentEpoch = s.currentEpoch)
    (h3 : ∀ x, (s'.task x).done = (s.task x).done) (k : Key) : phase s' k = phase s k := by
  unfold phase; rw [h1, h2, h3]

private theorem deps0_congr {s s' : State} (h1 : s'.ruleInfos = s.ruleInfos) (h2 : s'.store = s.store) (k : Key) :
    deps0 s' k = deps0 s k := by
  unfold deps0; rw [h1, h2]

private theorem ruleW_congr {rules : List RuleSpec} {s s' : State} {k : Key} (h1 : phase s' k = phase s k)
    (h2 : deps0 s' k = deps0 s k) (h3 : (s'.task k).issuedReqs.length = (s.task k).issuedReqs.length) :
    ruleW rules s' k = ruleW rules s k := by
  unfold ruleW; rw [h1, h2, h3]

private theorem inputQW_mono {s s' : State} (hp : ∀ x, phase s' x ≤ phase s x) (r : TaskInputRequest) :
    inputQW s' r ≤ inputQW s r := by
  unfold inputQW
  have := hp r.inputRuleInfo
  split <;> split <;> omega

private theorem inputQW_le5 (s : State) (r : TaskInputRequest) : inputQW s r ≤ 5 := by
  unfold inputQW; split <;> omega

private theorem scanRest_mono {s s' : State} {r : RuleScanRequest}
    (hd : (s'.rule r.ruleInfo).result.deps = (s.rule r.ruleInfo).result.deps ∨ (s'.rule r.ruleInfo).result.deps = []) :
    scanRest s' r ≤ scanRest s r := by
  unfold scanRest
  rcases hd with e | e <;> rw [e]
  · exact Nat.le_refl _
  · simp

private theorem scanQW_mono {s s' : State} {r : RuleScanRequest}
    (hd : (s'.rule r.ruleInfo).result.deps = (s.rule r.ruleInfo).result.deps ∨ (s'.rule r.ruleInfo).result.deps = [])
    (hp : ∀ x, phase s' x ≤ phase s x) : scanQW s' r ≤ scanQW s r := by
  unfold scanQW
  have h0 := scanRest_mono hd
  rcases hd with e | e
  · rw [e]
    cases (s.rule r.ruleInfo).result.deps[r.inputIndex]? with
    | none => simpa using h0
    | some d =>
      simp only
      have := hp d.key
      split <;> split <;> (try split) <;> (try split) <;> omega
  · rw [e]
    simp only [List.getElem?_nil]
    omega

private theorem phase_le6 (s : State) (k : Key) : phase s k ≤ 6 := by
  unfold phase
  split
  · exact Nat.le_refl _
  · split <;> (try split) <;> omega

/-! ### `SameEngine` (the recorder) -/

private theorem Phi_same {rules : List RuleSpec} {U : List Key} {s s' : State} (hs : SameEngine s s') (h : Hand) :
    Phi rules U s' h = Phi rules U s h := by
  have ht : ∀ x, s'.task x = s.task x := fun x => by unfold State.task; rw [hs.taskInfos]
  have hp : ∀ x, phase s' x = phase s x := phase_congr hs.ruleInfos hs.currentEpoch (fun x => by rw [ht])
  have hW : ruleW rules s' = ruleW rules s :=
    funext fun k => ruleW_congr (hp k) (deps0_congr hs.ruleInfos hs.store k) (by rw [ht])
  have hI : inputQW s' = inputQW s := funext fun r => by unfold inputQW; rw [hp]
  have hR : ∀ x, s'.rule x = s.rule x := rule_same hs
  have hS : scanRest s' = scanRest s := funext fun r => by unfold scanRest; rw [hR]
  have hQ : scanQW s' = scanQW s := funext fun r => by unfold scanQW; rw [hS, hR]; simp only [hp]
  have hL : liveRecords s' = liveRecords s := by unfold liveRecords; rw [hs.ruleInfos]
  unfold Phi pausedAll requestedByAll
  rw [hW, hI, hQ, hS, hL, hs.taskInfos, hs.inputRequests, hs.finishedInputRequests, hs.ruleInfosToScan]

private theorem ClosedU_same {rules : List RuleSpec} {U : List Key} {s s' : State} (hs : SameEngine s s')
    (hc : ClosedU rules U s) : ClosedU rules U s' :=
  { nodup := hc.nodup
    registered := fun k hk => hc.registered k (by unfold Registered at *; rw [← hs.ruleInfos]; exact hk)
    reqs := hc.reqs, discs := hc.discs
    deps := fun k hk d hd => hc.deps k hk d (by unfold deps0 at *; rw [hs.ruleInfos, hs.store] at hd; exact hd)
    inputs := fun r hr => hc.inputs r (by rw [← hs.inputRequests]; exact hr) }

private theorem TermStep_same {rules : List RuleSpec} {U : List Key} {s s' : State} (hs : SameEngine s s') (h : Hand)
    (hc : ClosedU rules U s) : TermStep rules U s h s' h 0 :=
  ⟨ClosedU_same hs hc, by rw [Phi_same hs]; exact Nat.le_refl _⟩

/-! ### registration -/

private theorem getRule_term {rules : List RuleSpec} {U : List Key} {s : State} {ms : MSt} {h : Hand} (hr : Rel rules s ms h)
    (hc : ClosedU rules U s) {k : Key} (hkU : k ∈ U) : TermStep rules U s h (getRuleInfoForKey k s) h 0 := by
  cases hl : s.ruleInfos.lookup k with
  | some ri =>
    rw [getRuleInfoForKey_old k s (by rw [hl]; rfl)]
    exact ⟨hc, Nat.le_refl _⟩
  | none =>
    rw [getRuleInfoForKey_fresh k s hr.hasDB hl]
    have hsame : SameEngine (s.setRule (freshRule s k))
        (emit (.G k (s.store.rows.lookup k).isSome) (emit (.L k) (s.setRule (freshRule s k)))) :=
      (emit_same _ _).trans (emit_same _ _)
    have hfk : (freshRule s k).key = k := rfl
    have hfs : (freshRule s k).state = .incomplete := rfl
    have hlk : ∀ x, (s.setRule (freshRule s k)).ruleInfos.lookup x = if x = k then some (freshRule s k) else s.ruleInfos.lookup x :=
      fun x => fresh_lookup hfk x
    have hphase : ∀ x, phase (s.setRule (freshRule s k)) x = phase s x := by
      intro x
      unfold phase
      rw [hlk]
      by_cases e : x = k
      · subst e; simp [hl, hfs]
      · simp only [e, if_false]; rfl
    have hdeps : ∀ x, deps0 (s.setRule (freshRule s k)) x = deps0 s x := by
      intro x
      unfold deps0
      rw [hlk]
      by_cases e : x = k
      · subst e; simp [hl, freshRule]
      · simp only [e, if_false]; rfl
    have hscan : ∀ r ∈ scanReqs s h, scanRest (s.setRule (freshRule s k)) r = scanRest s r ∧
        scanQW (s.setRule (freshRule s k)) r = scanQW s r := by
      intro r hm
      have hne : r.ruleInfo ≠ k := registered_ne hl (hr.scanOk r hm).reg
      have hru : (s.setRule (freshRule s k)).rule r.ruleInfo = s.rule r.ruleInfo := fresh_rule_ne hfk hne
      unfold scanQW scanRest
      rw [hru]
      refine ⟨rfl, ?_⟩
      cases (s.rule r.ruleInfo).result.deps[r.inputIndex]? with
      | none => rfl
      | some d => simp only [hphase]
    have hlr := fresh_liveRecords hl hfk hfs
    have hstep : TermStep rules U s h (s.setRule (freshRule s k)) h 0 := by
      refine ⟨?_, ?_⟩
      · exact
          { nodup := hc.nodup
            registered := fun x hx => by
              unfold Registered at hx; rw [hlk] at hx
              by_cases e : x = k
              · rw [e]; exact hkU
              · simp only [e, if_false] at hx; exact hc.registered x hx
            reqs := hc.reqs, discs := hc.discs
            deps := fun x hx d hd => hc.deps x hx d (by rw [hdeps] at hd; exact hd)
            inputs := hc.inputs }
      · have := Phi_mono (rules := rules) (U := U) (s := s) (s' := s.setRule (freshRule s k)) (h := h) (h' := h) (cR := 0) (cI := 0)
          (by
            rw [Nat.add_zero]
            exact Nat.le_of_eq (sumBy_congr _ _ _ (fun x _ => ruleW_congr (hphase x) (hdeps x) rfl)))
          (by
            rw [Nat.add_zero]
            refine Nat.le_of_eq (sumBy_congr _ _ _ (fun r _ => ?_))
            unfold inputQW; rw [hphase])
          (by unfold pausedAll; rw [hlr]) rfl rfl
          (by
            refine Nat.le_of_eq (sumBy_congr _ _ _ (fun r hm => (hscan r ?_).2))
            exact List.mem_append_left _ hm)
          (by
            rw [hlr]
            refine Nat.le_of_eq (sumBy_congr _ _ _ (fun r hm => ?_))
            rw [(hscan r (List.mem_append_right _ (List.mem_append_left _ hm))).1])
          (by
            refine Nat.le_of_eq (sumBy_congr _ _ _ (fun r hm => ?_))
            rw [(hscan r (List.mem_append_right _ (List.mem_append_right _ hm))).1])
          (Nat.le_refl _)
        simpa using this
    have h2 := TermStep_same (rules := rules) (U := U) hsame h hstep.1
    have := hstep.trans h2
    simpa using this

/-! ### one step of `issue` -/

private theorem length_le_of_nodup_subset {α : Type} [DecidableEq α] : ∀ (l l' : List α), l.Nodup → (∀ x ∈ l, x ∈ l') →
    l.length ≤ l'.length
  | [], _, _, _ => Nat.zero_le _
  | a :: l, l', hn, hs => by
    have hn' := List.nodup_cons.1 hn
    have ha : a ∈ l' := hs a (by simp)
    have ih := length_le_of_nodup_subset l (l'.erase a) hn'.2 (fun x hx => by
      have hne : x ≠ a := fun e => hn'.1 (e ▸ hx)
      exact (List.mem_erase_of_ne hne).2 (hs x (by simp [hx])))
    rw [List.length_erase_of_mem ha] at ih
    have : 0 < l'.length := List.length_pos_of_mem ha
    simp only [List.length_cons]; omega

private theorem issuedAfter_nodup (P : Program) (k : Key) : ∀ (seq : Seq), (issuedAfter P k seq).Nodup
  | [] => by simp only [issuedAfter]; exact nodup_eraseDups _
  | (q, v) :: rest => by
    simp only [issuedAfter]
    refine List.nodup_append.2 ⟨issuedAfter_nodup P k rest, nodup_eraseDups _, ?_⟩
    intro a ha b hb e
    subst e
    have := (List.mem_filter.1 (List.mem_eraseDups.1 hb)).2
    simp at this
    exact this ha

/-- the requests the monitor counts as issued are distinct requests of the rule: a bound on the number issued -/
private theorem issued_bound {rules : List RuleSpec} {s : State} {m : Engine.St} {h : Hand} {a : Key} {t : TaskInfo}
    (hb : TaskOk rules s m h a t) : (t.issuedReqs ++ h.toIssue a).length ≤ (allReqs (specOf rules a)).length := by
  rw [← hb.issued, hb.issuedSeq]
  exact length_le_of_nodup_subset _ _ (issuedAfter_nodup _ _ _) (fun x hx => issuedAfter_subset_allReqs rules a _ x hx)

private theorem phase_waiting {s : State} {a : Key} (hw : (s.rule a).state = .inProgressWaiting) : phase s a = 3 := by
  unfold phase
  unfold State.rule at hw
  cases hl : s.ruleInfos.lookup a with
  | none => rw [hl] at hw; simp at hw
  | some ri => rw [hl] at hw; simp at hw; simp [hw]

private theorem ruleW_phase3 {rules : List RuleSpec} {s : State} {a : Key} (hp : phase s a = 3) :
    ruleW rules s a = 3 + 6 * ((allReqs (specOf rules a)).length - (s.task a).issuedReqs.length) +
      6 * (specOf rules a).discs.length := by
  unfold ruleW; rw [hp]; simp

private theorem issueUpd_term {rules : List RuleSpec} {U : List Key} {s : State} {h h' : Hand} {a : Key} {q : Req} {t : TaskInfo}
    (hc : ClosedU rules U s) (hl : s.taskInfos.lookup a = some t) (hfa : t.forRuleInfo = a)
    (hw : (s.rule a).state = .inProgressWaiting) (haU : a ∈ U) (hqU : q.key ∈ U)
    (hlen : t.issuedReqs.length + 1 ≤ (allReqs (specOf rules a)).length)
    (hh : h'.inp = h.inp ∧ h'.fin = h.fin ∧ h'.scan = h.scan) :
    TermStep rules U s h (issueUpd a q t s) h' 0 := by
  obtain ⟨hh1, hh2, hh3⟩ := hh
  have htask : ∀ x, (issueUpd a q t s).task x = if x = a then issuedTask t q else s.task x := by
    intro x; unfold State.task; rw [issueUpd_lookup hfa]; split <;> rfl
  have hta : s.task a = t := task_of_lookup hl
  have hphase : ∀ x, phase (issueUpd a q t s) x = phase s x :=
    phase_congr rfl rfl (fun x => by
      rw [htask]; split
      · rename_i e; rw [e, hta]; rfl
      · rfl)
  have hdeps : ∀ x, deps0 (issueUpd a q t s) x = deps0 s x := deps0_congr rfl rfl
  have hI : inputQW (issueUpd a q t s) = inputQW s := funext fun r => by unfold inputQW; rw [hphase]
  have hS : scanRest (issueUpd a q t s) = scanRest s := rfl
  have hQ : scanQW (issueUpd a q t s) = scanQW s := funext fun r => by
    have hr : (issueUpd a q t s).rule r.ruleInfo = s.rule r.ruleInfo := rfl
    unfold scanQW; rw [hS, hr]; simp only [hphase]
  have hp3 := phase_waiting hw
  refine ⟨?_, ?_⟩
  · exact
      { nodup := hc.nodup, registered := hc.registered, reqs := hc.reqs, discs := hc.discs
        deps := fun x hx d hd => hc.deps x hx d (by rw [hdeps] at hd; exact hd)
        inputs := fun r hr => by
          have : r ∈ s.inputRequests ++ [reqOf a q] := hr
          rcases List.mem_append.1 this with h1 | h1
          · exact hc.inputs r h1
          · simp only [List.mem_singleton] at h1; subst h1; exact hqU }
  · have := Phi_mono (rules := rules) (U := U) (s := s) (s' := issueUpd a q t s) (h := h) (h' := h') (cR := 6) (cI := 5)
      (by
        refine sumBy_drop _ _ a 6 U hc.nodup haU (fun x _ hne => ?_) ?_
        · refine Nat.le_of_eq (ruleW_congr (hphase x) (hdeps x) ?_)
          rw [htask]; simp [hne]
        · rw [ruleW_phase3 (by rw [hphase]; exact hp3), ruleW_phase3 hp3, htask, hta]
          simp only [if_true, issuedTask, List.length_append, List.length_cons, List.length_nil]
          omega)
      (by
        rw [hI, hh1]
        show sumBy (inputQW s) (h.inp ++ (s.inputRequests ++ [reqOf a q])) ≤ _
        rw [← List.append_assoc, sumBy_append, sumBy_cons, sumBy_nil]
        have := inputQW_le5 s (reqOf a q)
        omega)
      rfl
      (by
        show ((s.setTask (issuedTask t q)).taskInfos.flatMap (fun p => p.2.requestedBy)).length = _
        rw [setTask_flatMap (t' := issuedTask t q) (fun t => t.requestedBy) hl (by simpa [issuedTask] using hfa) rfl]; rfl)
      (by rw [hh2]; rfl)
      (by rw [hQ, hh3]; exact Nat.le_refl _)
      (by rw [hS]; exact Nat.le_refl _)
      (by
        rw [hS]
        show sumBy _ ((s.setTask (issuedTask t q)).taskInfos.flatMap (fun p => p.2.deferredScanRequests)) ≤ _
        rw [setTask_flatMap (t' := issuedTask t q) (fun t => t.deferredScanRequests) hl (by simpa [issuedTask] using hfa) rfl]
        exact Nat.le_refl _)
      (by omega)
    omega

private theorem issueStep_term {rules : List RuleSpec} (hok : RulesOk rules) {U : List Key} {s : State} {ms : MSt} {h : Hand}
    {a : Key} {q : Req} {rest : List Req} {t : TaskInfo}
    (hr : Rel rules s ms { h with issuing := some (a, q :: rest) })
    (hw : (s.rule a).state = .inProgressWaiting) (hl : s.taskInfos.lookup a = some t)
    (hqa : q ∈ allReqs (specOf rules a)) (hc : ClosedU rules U s) (hqU : q.key ∈ U) :
    TermStep rules U s { h with issuing := some (a, q :: rest) } (issueStep a q s) { h with issuing := some (a, rest) } 0 := by
  have hb := hr.taskOk a t hl
  have hfa : t.forRuleInfo = a := hb.forRule
  have htask : s.task a = t := task_of_lookup hl
  rw [issueStep_eq a q s (hok.kinds a q hqa) (hok.ids a q hqa) hw (by rw [htask]; exact hfa), htask]
  have hareg : Registered s a := hr.task_registered (by rw [hl]; rfl)
  have h1 := getRule_term hr hc hqU
  have hGsame := getRuleInfoForKey_same q.key s
  have hGrule : (getRuleInfoForKey q.key s).rule a = s.rule a := by
    unfold State.rule
    rw [getRuleInfoForKey_lookup q.key s hr.hasDB]
    split
    · rename_i hc'
      obtain ⟨hc1, hc2⟩ := hc'
      rw [← hc1] at hc2
      simp [Registered, hc2] at hareg
    · rfl
  generalize getRuleInfoForKey q.key s = G at *
  have hlen : t.issuedReqs.length + 1 ≤ (allReqs (specOf rules a)).length := by
    have := issued_bound hb
    simp only [Hand.toIssue, if_true, List.length_append, List.length_cons] at this
    omega
  have h2 := issueUpd_term (rules := rules) (U := U) (s := G) (h := { h with issuing := some (a, q :: rest) })
    (h' := { h with issuing := some (a, rest) }) (a := a) (q := q) (t := t) h1.1 (by rw [hGsame.taskInfos]; exact hl) hfa
    (by rw [hGrule]; exact hw) (hc.registered a hareg) hqU hlen ⟨rfl, rfl, rfl⟩
  have := h1.trans h2
  simpa using this

/-- `issue` with the facts the induction needs -/
private theorem issue_term_run {rules : List RuleSpec} (hok : RulesOk rules) {U : List Key} : ∀ (l : List Req) (s : State)
    (ms : MSt) (h : Hand) (a : Key) (t : TaskInfo),
    Rel rules s ms { h with issuing := some (a, l) } → ms.pend = none → s.halted = false →
    (s.rule a).state = .inProgressWaiting → s.taskInfos.lookup a = some t →
    (∀ q ∈ l, q ∉ t.issuedReqs) → (∀ q ∈ t.issuedReqs, q ∈ allReqs (specOf rules a)) → l.Nodup →
    (∀ q ∈ l, q ∈ allReqs (specOf rules a)) → a ∉ s.readyTaskInfos →
    ClosedU rules U s → (∀ q ∈ l, q.key ∈ U) →
    TermStep rules U s { h with issuing := some (a, l) } (issue a l s) { h with issuing := some (a, []) } 0
  | [], s, _, _, _, _, _, _, _, _, _, _, _, _, _, _, hc, _ => ⟨hc, Nat.le_refl _⟩
  | q :: rest, s, ms, h, a, t, hr, hp, hh, hw, hl, hnew, hta, hnd, hall, hnr, hc, hU => by
    rw [issue_cons]
    have f1 := issueStep_term hok hr hw hl (hall q (by simp)) hc (hU q (by simp))
    obtain ⟨toks1, ms1, a1, a2, a3, a4, a5, a6, a7, a8, a9, a10, a11⟩ :=
      issueStep_run hok hr hp hh hw hl (hnew q (by simp)) (hall q (by simp)) hta hnr
    generalize issueStep a q s = s1 at *
    have hnd' := List.nodup_cons.1 hnd
    have f2 := issue_term_run hok rest s1 ms1 h a (issuedTask t q) a3 a4 a7 (by rw [a8]; exact hw) a9
        (by
          intro q' hq' hm
          rcases List.mem_append.1 hm with hm | hm
          · exact hnew q' (by simp [hq']) hm
          · simp only [List.mem_singleton] at hm; subst hm; exact hnd'.1 hq')
        (by
          intro q' hm
          rcases List.mem_append.1 hm with hm | hm
          · exact hta q' hm
          · simp only [List.mem_singleton] at hm; subst hm; exact hall q' (by simp))
        hnd'.2 (fun q' hq' => hall q' (by simp [hq'])) (by rw [a10]; exact hnr) f1.1 (fun q' hq' => hU q' (by simp [hq']))
    have := f1.trans f2
    simpa using this

/-- **`issue` does not increase the potential** (each request: `−6` from the budget of `a`, `+ inputQW ≤ 5`) -/
theorem issue_term : ∀ rules, RulesOk rules → ∀ (s : State) (ms : MSt) (h : Hand) (a : Key) (l : List Req) (U : List Key),
    h.issuing = none → Rel rules s ms { h with issuing := some (a, l) } → ms.pend = none → s.halted = false →
    (s.rule a).state = .inProgressWaiting →
    (∃ t, s.taskInfos.lookup a = some t ∧ (∀ q ∈ l, q ∉ t.issuedReqs) ∧ (∀ q ∈ t.issuedReqs, q ∈ allReqs (specOf rules a))) →
    l.Nodup → (∀ q ∈ l, q ∈ allReqs (specOf rules a)) →
    a ∉ s.readyTaskInfos →
    ClosedU rules U s → (∀ q ∈ l, q.key ∈ U) →
    TermStep rules U s { h with issuing := some (a, l) } (issue a l s) { h with issuing := some (a, []) } 0 := by
  intro rules hok s ms h a l U _ hr hp hh hw ⟨t, hl, hnew, hta⟩ hnd hall hnr hc hU
  exact issue_term_run hok l s ms h a t hr hp hh hw hl hnew hta hnd hall hnr hc hU

/-! ### `demandRule` -/

/-- replacing the (registered, non-scanning) rule `k` by a non-scanning rule in a later phase, with the same or
no recorded dependencies; `tasks'` = the task list after the step (the same, or with one new empty task) -/
private theorem setRule_term {rules : List RuleSpec} {U : List Key} {s s' : State} {h h' : Hand} {k : Key} {ri new : RuleInfo}
    {c : Nat}
    (hc : ClosedU rules U s) (hl : s.ruleInfos.lookup k = some ri) (hk : new.key = k)
    (ho : ri.isScanning = false) (hn : new.isScanning = false)
    (hrules : s'.ruleInfos = (s.setRule new).ruleInfos) (hepoch : s'.currentEpoch = s.currentEpoch)
    (hstore : s'.store = s.store)
    (htasks : s'.taskInfos = s.taskInfos ∨ (s.taskInfos.lookup k = none ∧ s'.taskInfos = s.taskInfos ++ [(k, { forRuleInfo := k })]))
    (hinp : s'.inputRequests = s.inputRequests) (hfin : s'.finishedInputRequests = s.finishedInputRequests)
    (hscanq : s'.ruleInfosToScan = s.ruleInfosToScan)
    (hdeps : new.result.deps = ri.result.deps ∨ new.result.deps = [])
    (hphase : phase s' k ≤ phase s k)
    (hW : ruleW rules s' k + c ≤ ruleW rules s k)
    (hh : h'.inp = h.inp ∧ h'.fin = h.fin ∧ h'.scan = h.scan) :
    TermStep rules U s h s' h' c := by
  obtain ⟨hh1, hh2, hh3⟩ := hh
  have hlk : ∀ x, s'.ruleInfos.lookup x = if x = k then some new else s.ruleInfos.lookup x := by
    intro x; rw [hrules, setRule_lookup, hk]
  have hrule : ∀ x, s'.rule x = if x = k then new else s.rule x := by
    intro x; unfold State.rule; rw [hlk]; split <;> rfl
  have htask : ∀ x, x ≠ k → s'.task x = s.task x := by
    intro x hx
    unfold State.task
    rcases htasks with e | ⟨_, e⟩
    · rw [e]
    · rw [e, List.lookup_append]
      have : List.lookup x [(k, ({ forRuleInfo := k } : TaskInfo))] = none := by
        have hx' : (x == k) = false := by simpa using hx
        simp [List.lookup, hx']
      rw [this]; simp
  have hphase_ne : ∀ x, x ≠ k → phase s' x = phase s x := by
    intro x hx
    unfold phase
    rw [hlk, hepoch, htask x hx]; simp [hx]
  have hphase_le : ∀ x, phase s' x ≤ phase s x := by
    intro x
    by_cases e : x = k
    · rw [e]; exact hphase
    · exact Nat.le_of_eq (hphase_ne x e)
  have hdeps0 : ∀ x, x ≠ k → deps0 s' x = deps0 s x := by
    intro x hx; unfold deps0; rw [hlk, hstore]; simp [hx]
  have hkU : k ∈ U := hc.registered k (by unfold Registered; rw [hl]; rfl)
  have hrk : s.rule k = ri := rule_of_lookup hl
  have hdeps' : ∀ x, (s'.rule x).result.deps = (s.rule x).result.deps ∨ (s'.rule x).result.deps = [] := by
    intro x
    rw [hrule]
    by_cases e : x = k
    · rw [if_pos e, e, hrk]; exact hdeps
    · rw [if_neg e]; exact Or.inl rfl
  have hlr : liveRecords s' = liveRecords s := by
    have : liveRecords s' = liveRecords (s.setRule new) := by unfold liveRecords; rw [hrules]
    rw [this]; exact setRule_liveRecords_nn hl hk ho hn
  have hreqBy : (requestedByAll s').length = (requestedByAll s).length := by
    unfold requestedByAll
    rcases htasks with e | ⟨_, e⟩ <;> rw [e]
    simp
  have hdefT : s'.taskInfos.flatMap (fun p => p.2.deferredScanRequests) = s.taskInfos.flatMap (fun p => p.2.deferredScanRequests) := by
    rcases htasks with e | ⟨_, e⟩ <;> rw [e]
    simp
  refine ⟨?_, ?_⟩
  · exact
      { nodup := hc.nodup
        registered := fun x hx => by
          unfold Registered at hx; rw [hlk] at hx
          by_cases e : x = k
          · rw [e]; exact hkU
          · simp only [e, if_false] at hx; exact hc.registered x hx
        reqs := hc.reqs, discs := hc.discs
        deps := fun x hx d hd => by
          by_cases e : x = k
          · subst e
            unfold deps0 at hd; rw [hlk] at hd; simp only [if_true] at hd
            rcases hdeps with e2 | e2
            · rw [e2] at hd
              exact hc.deps x hx d (by unfold deps0; rw [hl]; exact hd)
            · rw [e2] at hd; cases hd
          · rw [hdeps0 x e] at hd; exact hc.deps x hx d hd
        inputs := fun r hr => hc.inputs r (by rw [← hinp]; exact hr) }
  · have := Phi_mono (rules := rules) (U := U) (s := s) (s' := s') (h := h) (h' := h') (cR := c) (cI := 0)
      (by
        refine sumBy_drop _ _ k c U hc.nodup hkU (fun x _ hne => ?_) hW
        exact Nat.le_of_eq (ruleW_congr (hphase_ne x hne) (hdeps0 x hne) (by rw [htask x hne])))
      (by
        rw [hh1, hinp, Nat.add_zero]
        exact sumBy_le _ _ _ (fun r _ => inputQW_mono hphase_le r))
      (by unfold pausedAll; rw [hlr]) hreqBy (by rw [hh2, hfin])
      (by
        rw [hh3, hscanq]
        exact sumBy_le _ _ _ (fun r _ => scanQW_mono (hdeps' _) hphase_le))
      (by
        rw [hlr]
        exact sumBy_le _ _ _ (fun r _ => Nat.add_le_add_right (scanRest_mono (hdeps' _)) 4))
      (by
        rw [hdefT]
        exact sumBy_le _ _ _ (fun r _ => Nat.add_le_add_right (scanRest_mono (hdeps' _)) 2))
      (Nat.zero_le _)
    simpa using this

/-- statement: `demandRule` does not increase the potential -/
def DemandRuleTerm : Prop :=
  ∀ rules, RulesOk rules → ∀ (s : State) (ms : MSt) (h : Hand) (k : Key) (U : List Key),
    h.dec = [] → Rel rules s ms h → ms.pend = none → s.halted = false → h.issuing = none → Registered s k →
    isScanned s (s.rule k) = true →
    ClosedU rules U s → k ∈ U →
    TermStep rules U s h (demandRule k s).2 h 0

private theorem phase_state4 {s : State} {k : Key} {ri : RuleInfo} (hl : s.ruleInfos.lookup k = some ri)
    (hst : ri.state = .needsToRun ∨ ri.state = .doesNotNeedToRun) : phase s k = 4 := by
  unfold phase; rw [hl]; rcases hst with e | e <;> simp [e]

private theorem demandTail_term {rules : List RuleSpec} {U : List Key} {s : State} {h h' : Hand} (k : Key)
    (hc : ClosedU rules U s) (hh : h'.inp = h.inp ∧ h'.fin = h.fin ∧ h'.scan = h.scan) :
    TermStep rules U s h (demandTail k s) h' 0 := by
  obtain ⟨hh1, hh2, hh3⟩ := hh
  have hhand : Phi rules U s h' = Phi rules U s h := by unfold Phi; rw [hh1, hh2, hh3]
  obtain ⟨s3, hs3, hsame⟩ : ∃ s3, s3 = (if (s.rule k).result.builtAt != 0 && (s.rule k).signature == (s.rule k).result.sig
        then emit (.PP k (s.rule k).result.value) s else s) ∧ SameEngine s s3 := by
    refine ⟨_, rfl, ?_⟩
    split
    · exact emit_same _ _
    · exact SameEngine.rfl' _
  have htail : demandTail k s = if (s3.task k).waitCount == 0 then { s3 with readyTaskInfos := s3.readyTaskInfos ++ [k] } else s3 := by
    unfold demandTail; rw [hs3]
  have h3 : ClosedU rules U s3 ∧ Phi rules U s3 h' = Phi rules U s h := ⟨ClosedU_same hsame hc, by rw [Phi_same hsame, hhand]⟩
  rw [htail]
  split
  · refine ⟨{ h3.1 with }, ?_⟩
    have : Phi rules U { s3 with readyTaskInfos := s3.readyTaskInfos ++ [k] } h' = Phi rules U s3 h' := rfl
    rw [this, h3.2]; exact Nat.le_refl _
  · exact ⟨h3.1, by rw [h3.2]; exact Nat.le_refl _⟩

theorem demandRule_term : DemandRuleTerm := by
  intro rules hok s ms h k U hd hr hp hh hi hreg hsc hc hkU
  obtain ⟨m, pend⟩ := ms
  simp only at hp; subst hp
  obtain ⟨ri, hl⟩ := Option.isSome_iff_exists.1 hreg
  rw [rule_of_lookup hl] at hsc
  have hk : ri.key = k := hr.keyOk k ri hl
  rcases demandRule_cases hr hl hsc with e | ⟨hst, e⟩ | ⟨hst, e⟩
  · rw [e]; exact ⟨hc, Nat.le_refl _⟩
  · -- `DoesNotNeedToRun → Complete`: phase 4 → 0
    rw [e]
    have ho : ri.isScanning = false := by simp [RuleInfo.isScanning, hst]
    have hp4 := phase_state4 hl (Or.inr hst)
    have hp0 : phase (s.setRule (setComplete s ri)) k = 0 := by
      have hk' : (setComplete s ri).key = k := hk
      have he : (s.setRule (setComplete s ri)).currentEpoch = s.currentEpoch := rfl
      unfold phase
      rw [setRule_lookup, hk', he]
      simp [setComplete]
    have h1 : TermStep rules U s h (s.setRule (setComplete s ri)) h 0 :=
      setRule_term hc hl (new := setComplete s ri) hk ho (by simp [RuleInfo.isScanning, setComplete]) rfl rfl rfl (Or.inl rfl)
        rfl rfl rfl (Or.inl rfl) (by rw [hp0]; exact Nat.zero_le _)
        (by unfold ruleW; rw [hp0, hp4]; simp) ⟨rfl, rfl, rfl⟩
    have h2 := TermStep_same (rules := rules) (U := U) (emit_same (.S k 1) (s.setRule (setComplete s ri))) h h1.1
    have := h1.trans h2
    simpa using this
  · -- `NeedsToRun → InProgressWaiting`: phase 4 → 3, then `issue`
    rw [e]
    have hm := demandMid hr hh hi hd hl hst
    have ho : ri.isScanning = false := by simp [RuleInfo.isScanning, hst]
    have hp4 := phase_state4 hl (Or.inl hst)
    have hti := createUpd_taskInfos (ri := ri) hm.taskNone
    have hp3 : phase (createUpd k ri s) k = 3 := by
      unfold phase
      rw [createUpd_lookup hk]; simp [startedRule]
    have htk : (createUpd k ri s).task k = { forRuleInfo := k } := by
      unfold State.task; rw [createUpd_task_lookup]; simp
    have h1 : TermStep rules U s h (createUpd k ri s) { h with issuing := some (k, demandFresh s k) } 0 :=
      setRule_term hc hl (new := startedRule ri) hk ho (by simp [RuleInfo.isScanning, startedRule]) rfl rfl rfl
        (Or.inr ⟨hm.taskNone, hti⟩) rfl rfl rfl (Or.inr rfl) (by rw [hp3, hp4]; omega)
        (by
          rw [ruleW_phase3 hp3, htk]
          unfold ruleW; rw [hp4]; simp)
        ⟨rfl, rfl, rfl⟩
    have h2 := TermStep_same (rules := rules) (U := U) hm.same { h with issuing := some (k, demandFresh s k) } h1.1
    obtain ⟨ms1, rel1, hpend1⟩ := hm.rel
    have hsubU : ∀ q ∈ demandFresh s k, q.key ∈ U := fun q hq => hc.reqs k hkU q (hm.sub q hq)
    have h3 := issue_term rules hok _ ms1 h k _ U hi rel1 hpend1 hm.halted hm.waiting
      ⟨_, hm.task, fun q _ hx => (by cases hx), fun q hx => (by cases hx)⟩ hm.nodup hm.sub hm.notReady h2.1 hsubU
    have h4 := demandTail_term (rules := rules) (U := U) (h := { h with issuing := some (k, []) }) (h' := h) k h3.1 ⟨rfl, rfl, rfl⟩
    have := ((h1.trans h2).trans h3).trans h4
    simpa using this

/-! ### the same statements in the shapes the other `Term*.lean` files wrote down as hypotheses -/

/-- = `IssueTerm` of `TermFinInput.lean` (the universe quantified first) -/
theorem issue_term_U : ∀ rules, RulesOk rules → ∀ (U : List Key) (s : State) (ms : MSt) (h : Hand) (a : Key) (l : List Req),
    h.issuing = none → Rel rules s ms { h with issuing := some (a, l) } → ms.pend = none → s.halted = false →
    (s.rule a).state = .inProgressWaiting →
    (∃ t, s.taskInfos.lookup a = some t ∧ (∀ q ∈ l, q ∉ t.issuedReqs) ∧ (∀ q ∈ t.issuedReqs, q ∈ allReqs (specOf rules a))) →
    l.Nodup → (∀ q ∈ l, q ∈ allReqs (specOf rules a)) → a ∉ s.readyTaskInfos →
    ClosedU rules U s → (∀ q ∈ l, q.key ∈ U) →
    TermStep rules U s { h with issuing := some (a, l) } (issue a l s) { h with issuing := some (a, []) } 0 :=
  fun rules hok U s ms h a l => issue_term rules hok s ms h a l U

/-- = `TermInput.DemandRuleNoHalt` (with the unused universe hypotheses) -/
theorem demandRule_nohalt_U : ∀ rules, RulesOk rules → ∀ (s : State) (ms : MSt) (h : Hand) (k : Key) (U : List Key),
    h.dec = [] → Rel rules s ms h → ms.pend = none → s.halted = false → h.issuing = none → Registered s k →
    isScanned s (s.rule k) = true → ClosedU rules U s → k ∈ U → (demandRule k s).2.halted = false :=
  fun rules hok s ms h k _ hd hr hp hh hi hreg hsc _ _ => demandRule_nohalt rules hok s ms h k hd hr hp hh hi hreg hsc

end LLBuild.Refine
