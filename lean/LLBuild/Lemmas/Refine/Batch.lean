/-
IM2 — refinement: batched `emit`s.  `cancel` commutes with every monitor event except `ret`/`buildStart`/`wipe`
(`step_cancel_comm`), hence with every token run (`trun_cancel_comm`); `Rel.emit_list`: a function that updates the
engine proper and records several tokens is handled by running the monitor over the tokens and proving `Rel` once,
for the final pair of states.
-/
import LLBuild.Lemmas.Refine.Frame

namespace LLBuild.Refine
open LLBuild.Engine LLBuild.Engine.DSL LLBuild.EngineImpl

/-- the monitor with `cancelled` set -/
def cancelM (m : Engine.St) : Engine.St := { m with cancelled := true }
def cancelMs (ms : MSt) : MSt := ⟨cancelM ms.m, ms.pend⟩

/-- events whose guard and effect do not involve `cancelled` -/
def Event.cancelSafe : Event → Bool
  | .ret _ => false
  | .buildStart _ => false
  | .wipe => false
  | _ => true

section
variable (m : Engine.St)
@[simp] theorem cancelM_env : (cancelM m).env = m.env := rfl
@[simp] theorem cancelM_epoch : (cancelM m).epoch = m.epoch := rfl
@[simp] theorem cancelM_mem : (cancelM m).mem = m.mem := rfl
@[simp] theorem cancelM_db : (cancelM m).db = m.db := rfl
@[simp] theorem cancelM_dbIter : (cancelM m).dbIter = m.dbIter := rfl
@[simp] theorem cancelM_cdb : (cancelM m).cdb = m.cdb := rfl
@[simp] theorem cancelM_cdbIter : (cancelM m).cdbIter = m.cdbIter := rfl
@[simp] theorem cancelM_status : (cancelM m).status = m.status := rfl
@[simp] theorem cancelM_validSeen : (cancelM m).validSeen = m.validSeen := rfl
@[simp] theorem cancelM_task : (cancelM m).task = m.task := rfl
@[simp] theorem cancelM_registered : (cancelM m).registered = m.registered := rfl
@[simp] theorem cancelM_sigAt : (cancelM m).sigAt = m.sigAt := rfl
@[simp] theorem cancelM_pending : (cancelM m).pending = m.pending := rfl
@[simp] theorem cancelM_target : (cancelM m).target = m.target := rfl
@[simp] theorem cancelM_started : (cancelM m).started = m.started := rfl
@[simp] theorem cancelM_cycleSeen : (cancelM m).cycleSeen = m.cycleSeen := rfl
@[simp] theorem cancelM_errSeen : (cancelM m).errSeen = m.errSeen := rfl
@[simp] theorem cancelM_returned : (cancelM m).returned = m.returned := rfl
@[simp] theorem cancelM_ran : (cancelM m).ran = m.ran := rfl
@[simp] theorem cancelM_scanned : (cancelM m).scanned = m.scanned := rfl
@[simp] theorem cancelM_pendingDropped : (cancelM m).pendingDropped = m.pendingDropped := rfl
@[simp] theorem cancelM_demanded (k : Key) : demanded (cancelM m) k = demanded m k := rfl
@[simp] theorem cancelM_depFresh (r : Res) : depFresh (cancelM m) r = depFresh m r := rfl
@[simp] theorem cancelM_isDone (k : Key) : isDone (cancelM m) k = isDone m k := rfl
@[simp] theorem cancelM_isDone' : isDone (cancelM m) = isDone m := rfl
@[simp] theorem cancelM_needsOk (k : Key) (r : Nat) (i : Option Key) : needsOk (cancelM m) k r i = needsOk m k r i := by
  unfold needsOk; split <;> rfl
@[simp] theorem cancelM_priorDue (k : Key) : priorDue (cancelM m) k = priorDue m k := rfl
theorem cancelM_firstNotDone : ∀ (l : List Dep), firstNotDone (cancelM m) l = firstNotDone m l
  | [] => rfl
  | d :: ds => by simp only [firstNotDone, cancelM_isDone, cancelM_firstNotDone ds]
theorem cancelM_waitsFor (a b : Key) : waitsFor (cancelM m) a b = waitsFor m a b := by
  unfold waitsFor
  simp only [cancelM_status, cancelM_task, cancelM_isDone, cancelM_mem, cancelM_firstNotDone]
@[simp] theorem cancelM_lassoOk (root : Key) (ks : List Key) : lassoOk (cancelM m) root ks = lassoOk m root ks := by
  unfold lassoOk
  cases ks with
  | nil => rfl
  | cons h t => simp only [cancelM_waitsFor]
@[simp] theorem cancelM_inflight (k : Key) : inflight (cancelM m) k = inflight m k := rfl
@[simp] theorem cancelM_inflight' : inflight (cancelM m) = inflight m := rfl
end

/-- a `cancel` commutes with every event that does not read `cancelled` -/
theorem step_cancel_comm (P : Program) (m : Engine.St) (e : Event) (he : Event.cancelSafe e = true) :
    step P (cancelM m) e = (step P m e).map cancelM := by
  cases e <;> simp only [Event.cancelSafe, Bool.false_eq_true] at he <;> simp only [step]
  all_goals try simp only [cancelM_env, cancelM_epoch, cancelM_mem, cancelM_db, cancelM_dbIter, cancelM_cdb, cancelM_cdbIter,
    cancelM_status, cancelM_validSeen, cancelM_task, cancelM_registered, cancelM_sigAt, cancelM_pending, cancelM_target,
    cancelM_started, cancelM_cycleSeen, cancelM_errSeen, cancelM_returned, cancelM_ran, cancelM_scanned,
    cancelM_pendingDropped, cancelM_demanded, cancelM_needsOk, cancelM_depFresh, cancelM_isDone,
    cancelM_priorDue, cancelM_lassoOk, cancelM_inflight]
  all_goals try simp only [apply_ite (Option.map cancelM), Option.map_some, Option.map_none]
  all_goals first
    | rfl
    | skip
  case provide =>
    cases List.find? _ _ with
    | none => simp
    | some q => simp only [apply_ite (Option.map cancelM), Option.map_some, Option.map_none]; rfl
  case cycle =>
    cases m.target with
    | none => rfl
    | some root => simp only [apply_ite (Option.map cancelM), Option.map_some, Option.map_none]; rfl


theorem cancelM_idem (m : Engine.St) : cancelM (cancelM m) = cancelM m := rfl
theorem cancelMs_idem (ms : MSt) : cancelMs (cancelMs ms) = cancelMs ms := rfl

/-- tokens after which a `cancel` may be moved -/
def Tok.cancelSafe : Tok → Bool
  | .B _ => false
  | .R _ => false
  | .FUEL => false
  | .BAD _ => false
  | _ => true

theorem tstep_cancel_comm (P : Program) (ms : MSt) (t : Tok) (ht : Tok.cancelSafe t = true) :
    tstep P (cancelMs ms) t = (tstep P ms t).map cancelMs := by
  obtain ⟨m, pend⟩ := ms
  cases pend with
  | none =>
    cases hs : Tok.isS2 t with
    | some k =>
      have := isS2_eq_some hs; subst this
      simp [tstep, Tok.isS2, cancelMs]
    | none =>
      show tstep P ⟨cancelM m, none⟩ t = _
      rw [tstep_none_notS hs, tstep_none_notS hs]
      cases hte : t.toEvent? with
      | none => rfl
      | some e =>
        have hsafe : Event.cancelSafe e = true := by
          cases t with
          | S k st =>
            rcases st with _ | _ | _ | n <;> simp [Tok.toEvent?, Tok.isS2] at hte hs <;> (subst hte; rfl)
          | B _ => simp [Tok.cancelSafe] at ht
          | R _ => simp [Tok.cancelSafe] at ht
          | FUEL => simp [Tok.cancelSafe] at ht
          | BAD _ => simp [Tok.cancelSafe] at ht
          | DS _ _ => simp [Tok.toEvent?] at hte
          | _ => simp only [Tok.toEvent?, Option.some.injEq] at hte <;> (subst hte; rfl)
        simp only [Option.bind_some]
        rw [step_cancel_comm P m e hsafe]
        cases step P m e <;> rfl
  | some k =>
    show tstep P ⟨cancelM m, some k⟩ t = _
    cases t <;> simp only [tstep, Tok.isReg, Tok.toEvent?, Bool.false_eq_true, if_false, if_true, Option.map_none]
    case L a =>
      rw [step_cancel_comm P m _ (by rfl)]; cases step P m (.lookup a) <;> rfl
    case G a f =>
      rw [step_cancel_comm P m _ (by rfl)]; cases step P m (.dbGet a f) <;> rfl
    case X =>
      rw [step_cancel_comm P m _ (by rfl)]; cases step P m .cancel <;> rfl
    case C a v f =>
      rw [step_cancel_comm P m _ (by rfl)]; cases step P m (.complete a v (f != 0)) <;> rfl
    case DS k' row =>
      split
      · rw [step_cancel_comm P m _ (by rfl)]; cases step P m (.finished k row) <;> rfl
      · rfl

theorem trun_cancel_comm (P : Program) : ∀ (toks : List Tok) (ms : MSt), (∀ t ∈ toks, Tok.cancelSafe t = true) →
    trun P (cancelMs ms) toks = (trun P ms toks).map cancelMs
  | [], ms, _ => rfl
  | t :: rest, ms, h => by
    simp only [trun]
    rw [tstep_cancel_comm P ms t (h t (by simp))]
    cases tstep P ms t with
    | none => rfl
    | some ms1 => simpa using trun_cancel_comm P rest ms1 (fun t ht => h t (by simp [ht]))

/-- record a list of tokens -/
def emitAll (toks : List Tok) (s : State) : State := toks.foldl (fun s t => emit t s) s

@[simp] theorem emitAll_nil (s : State) : emitAll [] s = s := rfl
@[simp] theorem emitAll_cons (t : Tok) (toks : List Tok) (s : State) : emitAll (t :: toks) s = emitAll toks (emit t s) := rfl

theorem emitAll_halted (toks : List Tok) (s : State) : (emitAll toks s).halted = s.halted := by
  induction toks generalizing s with
  | nil => rfl
  | cons t rest ih => rw [emitAll_cons, ih, emit_halted_eq]

theorem Rel.cancelled_ms {rules : List RuleSpec} {s : State} {ms : MSt} {h : Hand} (hr : Rel rules s ms h)
    (tr : List Tok) :
    Rel rules { s with trace := tr, cancelIssued := true, buildCancelled := true } (cancelMs ms) h := by
  have h1 := hr.mflags true ms.m.errSeen (fun _ => Or.inl rfl) hr.errCancelled
  exact h1.recorder tr s.halted s.cancelAtEvent true s.sched true (fun _ => Or.inl rfl) (fun _ => rfl)

/-- **Batched `emit`s.**  When a function first updates the engine proper and then records several tokens
(`emit` commutes with such updates), it is enough to run the monitor over the tokens and to show the relation for
the updated engine state against the FINAL monitor state: a cancellation triggered by one of the `emit`s
(`cancelAtEvent`) inserts `X` after that token, and `cancel` commutes with all the later tokens. -/
theorem Rel.emit_list {rules : List RuleSpec} {h : Hand} : ∀ (toks : List Tok) (s : State) (ms ms' : MSt),
    s.halted = false → (∀ t ∈ toks, Tok.cancelSafe t = true) →
    trun (program rules) ms toks = some ms' → Rel rules s ms' h →
    ∃ toks' ms'', Emits s toks' (emitAll toks s) ∧ trun (program rules) ms toks' = some ms'' ∧
      Rel rules (emitAll toks s) ms'' h ∧ (ms'' = ms' ∨ ms'' = cancelMs ms')
  | [], s, ms, ms', _, _, hrun, hr => by
    simp [trun] at hrun; subst hrun
    exact ⟨[], ms, Emits.refl s, rfl, hr, Or.inl rfl⟩
  | t :: rest, s, ms, ms', hh, hsafe, hrun, hr => by
    simp only [trun] at hrun
    cases hts : tstep (program rules) ms t with
    | none => rw [hts] at hrun; simp at hrun
    | some msA =>
      rw [hts] at hrun; simp only [Option.bind_some] at hrun
      have hsafe' : ∀ t ∈ rest, Tok.cancelSafe t = true := fun t ht => hsafe t (by simp [ht])
      rw [emitAll_cons]
      rcases emit_spec t s hh with he | ⟨_, he⟩
      · rw [he]
        have hr1 := hr.recorder (t :: s.trace) s.halted s.cancelAtEvent s.cancelIssued s.sched s.buildCancelled
          hr.cancelled hr.errCancelled
        obtain ⟨toks', ms'', h1, h2, h3, h4⟩ := Rel.emit_list rest { s with trace := t :: s.trace } msA ms' hh hsafe' hrun hr1
        refine ⟨t :: toks', ms'', ?_, ?_, h3, h4⟩
        · unfold Emits at h1 ⊢; rw [h1]; simp
        · simp [trun, hts, h2]
      · rw [he]
        have hr1 := hr.cancelled_ms (.X :: t :: s.trace)
        have hrunC : trun (program rules) (cancelMs msA) rest = some (cancelMs ms') := by
          rw [trun_cancel_comm _ _ _ hsafe', hrun]; rfl
        obtain ⟨toks', ms'', h1, h2, h3, h4⟩ := Rel.emit_list rest { s with trace := .X :: t :: s.trace, cancelIssued := true, buildCancelled := true } (cancelMs msA) (cancelMs ms') hh hsafe' hrunC hr1
        refine ⟨t :: .X :: toks', ms'', ?_, ?_, h3, ?_⟩
        · unfold Emits at h1 ⊢; rw [h1]; simp
        · simp only [trun, hts, Option.bind_some, tstep_X]
          exact h2
        · rcases h4 with h4 | h4
          · exact Or.inr h4
          · exact Or.inr (by rw [h4, cancelMs_idem])

end LLBuild.Refine
