/-
IM2 — refinement, section C of `Todo.lean`: finished inputs (`taskProvideValue`, `decrementTaskWaitCount`,
`finishedInputsLoop`).
* small list / DSL facts (`nodup_eraseDups`, `issuedAfter ⊆ allReqs`, the monitor's `find?` and the client's
  `isSingleUse` pick the same request under `RulesOk.nodup`);
* hand moves: `Rel.taskStep` = ONE task record / ONE monitor task is updated and finished requests of that task leave
  `processed` (`fin → dec`, `dec → ∅`); `Rel.popFin` = the last finished request moves from the queue into the hand;
* `finishedInputStep_sim : Todo_issue → Todo_endIssue → Todo_finishedInputStep`;
* `finishedInputsLoop_sim : Todo_finishedInputStep → Todo_finishedInputsLoop`.
-/
import LLBuild.Lemmas.Refine.Scan
import LLBuild.Lemmas.Refine.Halt

namespace LLBuild.Refine
open LLBuild.Engine LLBuild.Engine.DSL LLBuild.EngineImpl

/-! ## lists -/

theorem nodup_eraseDups_aux {α : Type} [BEq α] [LawfulBEq α] : ∀ (n : Nat) (l : List α), l.length ≤ n → l.eraseDups.Nodup
  | 0, [], _ => by simp
  | 0, _ :: _, h => by simp at h
  | _ + 1, [], _ => by simp
  | n + 1, a :: as, h => by
    rw [List.eraseDups_cons, List.nodup_cons]
    refine ⟨?_, nodup_eraseDups_aux n _ ?_⟩
    · intro hm
      have := (List.mem_filter.1 (List.mem_eraseDups.1 hm)).2
      simp at this
    · have := List.length_filter_le (fun b => !b == a) as
      simp only [List.length_cons] at h; omega

theorem nodup_eraseDups {α : Type} [BEq α] [LawfulBEq α] (l : List α) : l.eraseDups.Nodup :=
  nodup_eraseDups_aux l.length l (Nat.le_refl _)

theorem nodup_map_inj {α β : Type} (f : α → β) : ∀ (l : List α), (l.map f).Nodup → ∀ x ∈ l, ∀ y ∈ l, f x = f y → x = y
  | [], _, x, hx, _, _, _ => by cases hx
  | a :: l, h, x, hx, y, hy, e => by
    simp only [List.map_cons, List.nodup_cons] at h
    rcases List.mem_cons.1 hx with hx1 | hx1 <;> rcases List.mem_cons.1 hy with hy1 | hy1
    · rw [hx1, hy1]
    · subst hx1; exact (h.1 (List.mem_map.2 ⟨y, hy1, e.symm⟩)).elim
    · subst hy1; exact (h.1 (List.mem_map.2 ⟨x, hx1, e⟩)).elim
    · exact nodup_map_inj f l h.2 x hx1 y hy1 e

/-- the first element satisfying `p` is `q` when `q` is the only one -/
theorem find?_unique {α : Type} (p : α → Bool) (q : α) : ∀ (l : List α), q ∈ l → p q = true →
    (∀ x ∈ l, p x = true → x = q) → l.find? p = some q
  | [], h, _, _ => by cases h
  | a :: l, h, hp, hu => by
    rw [List.find?_cons]
    by_cases ha : p a = true
    · rw [ha, hu a (by simp) ha]
    · have ha' : p a = false := by simpa using ha
      rw [ha']
      rcases List.mem_cons.1 h with e | e
      · subst e; rw [hp] at ha'; cases ha'
      · exact find?_unique p q l e hp (fun x hx => hu x (List.mem_cons_of_mem _ hx))

/-! ## the DSL: issued requests -/

theorem nextReqs_subset_allReqs {spec : RuleSpec} {recv : Recv} {q : Req} (h : q ∈ nextReqs spec recv) : q ∈ allReqs spec := by
  unfold nextReqs at h
  unfold allReqs
  rcases List.mem_append.1 h with h | h
  · exact List.mem_append_left _ h
  · apply List.mem_append_right
    obtain ⟨w, hw, hq⟩ := List.mem_flatMap.1 h
    exact List.mem_flatMap.2 ⟨w, (List.mem_filter.1 hw).1, hq⟩

theorem issuedAfter_subset_allReqs (rules : List RuleSpec) (a : Key) : ∀ (seq : Seq) (q : Req),
    q ∈ issuedAfter (program rules) a seq → q ∈ allReqs (specOf rules a)
  | [], q, h => by
    simp only [issuedAfter] at h
    exact nextReqs_subset_allReqs (List.mem_eraseDups.1 h)
  | (q0, v) :: rest, q, h => by
    simp only [issuedAfter] at h
    rcases List.mem_append.1 h with h | h
    · exact issuedAfter_subset_allReqs rules a rest q h
    · exact nextReqs_subset_allReqs (List.mem_filter.1 (List.mem_eraseDups.1 h)).1

/-- `DslTask::newReqs` is the increment of the monitor's `issuedAfter` -/
theorem newReqs_eq (rules : List RuleSpec) (a : Key) (t : TaskInfo) (q : Req) (v : Val) (seq : Seq)
    (hi : t.issuedReqs = issuedAfter (program rules) a seq) (hrecv : t.recv = recvOf ((q, v) :: seq)) :
    issuedAfter (program rules) a ((q, v) :: seq) = t.issuedReqs ++ newReqs (specOf rules a) t := by
  rw [issuedAfter, newReqs, hrecv, hi]
  rfl

theorem newReqs_nodup (spec : RuleSpec) (t : TaskInfo) : (newReqs spec t).Nodup := nodup_eraseDups _

theorem newReqs_fresh {spec : RuleSpec} {t : TaskInfo} {q : Req} (h : q ∈ newReqs spec t) : q ∉ t.issuedReqs := by
  have := (List.mem_filter.1 (List.mem_eraseDups.1 h)).2
  simpa using this

theorem newReqs_subset {spec : RuleSpec} {t : TaskInfo} {q : Req} (h : q ∈ newReqs spec t) : q ∈ allReqs spec :=
  nextReqs_subset_allReqs (List.mem_filter.1 (List.mem_eraseDups.1 h)).1

/-- the matching predicate of `DslTask::provideValue` -/
def matchReq (id key : Nat) (q : Req) : Bool := q.id == id && q.key == key && q.kind != 2

theorem isSingleUse_aux (id key : Nat) (q : Req) : ∀ (l : List Req) (init : Bool), matchReq id key q = true →
    (∀ x ∈ l, matchReq id key x = true → x = q) →
    l.foldl (fun single x => if x.id == id && x.key == key && x.kind != 2 then x.kind == 1 else single) init =
      if q ∈ l then q.kind == 1 else init
  | [], init, _, _ => by simp
  | x :: l, init, hq, hu => by
    rw [List.foldl_cons]
    rw [isSingleUse_aux id key q l _ hq (fun y hy => hu y (List.mem_cons_of_mem _ hy))]
    by_cases hx : matchReq id key x = true
    · have e := hu x (by simp) hx
      subst e
      unfold matchReq at hx
      simp [hx]
    · have hx' : (x.id == id && x.key == key && x.kind != 2) = false := by simpa [matchReq] using hx
      have hne : q ≠ x := by
        intro e; subst e; exact hx hq
      simp only [hx', Bool.false_eq_true, if_false, List.mem_cons, hne, false_or]

theorem isSingleUse_unique (id key : Nat) (q : Req) (l : List Req) (hm : q ∈ l) (hq : matchReq id key q = true)
    (hu : ∀ x ∈ l, matchReq id key x = true → x = q) : isSingleUse l id key = (q.kind == 1) := by
  unfold isSingleUse
  rw [isSingleUse_aux id key q l false hq hu]
  simp [hm]

/-! ## one task record updated in place -/

theorem mem_alSet {α : Type} : ∀ (l : List (Key × α)) (k : Key) (x : α) (p : Key × α), p ∈ alSet l k x → p = (k, x) ∨ p ∈ l
  | [], k, x, p, h => by simp [alSet] at h; exact Or.inl h
  | (k0, y) :: rest, k, x, p, h => by
    simp only [alSet] at h
    by_cases h0 : (k0 == k) = true
    · simp only [h0, if_true, List.mem_cons] at h
      rcases h with h | h
      · exact Or.inl h
      · exact Or.inr (List.mem_cons_of_mem _ h)
    · simp only [h0, Bool.false_eq_true, if_false, List.mem_cons] at h
      rcases h with h | h
      · exact Or.inr (by rw [h]; simp)
      · rcases mem_alSet rest k x p h with e | e
        · exact Or.inl e
        · exact Or.inr (List.mem_cons_of_mem _ e)

theorem setTask_flatMap {β : Type} {s : State} {a : Key} {t t' : TaskInfo} (f : TaskInfo → List β)
    (hl : s.taskInfos.lookup a = some t) (hfor : t'.forRuleInfo = a) (hf : f t' = f t) :
    (s.setTask t').taskInfos.flatMap (fun p => f p.2) = s.taskInfos.flatMap (fun p => f p.2) := by
  obtain ⟨l1, l2, h1, h2, _⟩ := alSet_split s.taskInfos a t t' hl
  simp only [State.setTask, hfor]
  rw [h2, h1]
  simp [List.flatMap_append, List.flatMap_cons, hf]

theorem setTask_same {s : State} {a : Key} {t : TaskInfo} (hl : s.taskInfos.lookup a = some t) (hfor : t.forRuleInfo = a) :
    s.setTask t = s := by
  obtain ⟨l1, l2, h1, h2, _⟩ := alSet_split s.taskInfos a t t hl
  have : alSet s.taskInfos t.forRuleInfo t = s.taskInfos := by rw [hfor, h2, ← h1]
  simp only [State.setTask, this]


theorem mem_ofTask {a : Key} {l : List TaskInputRequest} {x : TaskInputRequest} :
    x ∈ ofTask a l ↔ x ∈ l ∧ x.taskInfo = some a := by
  simp [ofTask, List.mem_filter]

theorem ofTask_append (a : Key) (l1 l2 : List TaskInputRequest) : ofTask a (l1 ++ l2) = ofTask a l1 ++ ofTask a l2 := by
  simp [ofTask, List.filter_append]

theorem ofTask_eq_nil_of {a : Key} {l : List TaskInputRequest} (h : ∀ x ∈ l, x.taskInfo ≠ some a) : ofTask a l = [] := by
  unfold ofTask
  apply List.filter_eq_nil_iff.2
  intro x hx; simpa using h x hx

theorem ofTask_eq_self_of {a : Key} {l : List TaskInputRequest} (h : ∀ x ∈ l, x.taskInfo = some a) : ofTask a l = l := by
  unfold ofTask
  apply List.filter_eq_self.2
  intro x hx; simpa using h x hx

/-- a task whose rule and monitor task are not touched and whose OWN outstanding requests are the same up to order
stays well formed (a weaker hypothesis than `TaskOk.frame`: requests of other tasks may come and go, the hand may
start issuing for another task) -/
theorem TaskOk.frame' {rules : List RuleSpec} {s s' : State} {m m' : Engine.St} {h h' : Hand} {b : Key} {t : TaskInfo}
    (hb : TaskOk rules s m h b t)
    (hrule : s'.rule b = s.rule b) (htask : m'.task b = m.task b)
    (hout : List.Perm (ofTask b (outstanding s' h')) (ofTask b (outstanding s h)))
    (hunp : List.Perm (ofTask b (unprocessed s' h')) (ofTask b (unprocessed s h)))
    (hissue : h'.toIssue b = h.toIssue b) (hmark : h.issuingFor = some b → h'.issuingFor = some b)
    (hdec : (ofTask b h'.dec).length = (ofTask b h.dec).length)
    (hdone : ∀ x, isDone m x = true → isDone m' x = true)
    (hprior : priorDue m' b = priorDue m b) :
    TaskOk rules s' m' h' b t := by
  have hmem : ∀ q, reqOf b q ∈ outstanding s h → reqOf b q ∈ outstanding s' h' := by
    intro q hq
    have : reqOf b q ∈ ofTask b (outstanding s h) := mem_ofTask.2 ⟨hq, rfl⟩
    exact (mem_ofTask.1 (hout.mem_iff.2 this)).1
  refine { forRule := hb.forRule, started := by rw [htask]; exact hb.started,
           issued := by rw [htask, hissue]; exact hb.issued,
           issuedSeq := by rw [htask]; exact hb.issuedSeq, recv := by rw [htask]; exact hb.recv,
           deliveredIssued := by rw [htask]; exact hb.deliveredIssued,
           completed := by rw [htask]; exact hb.completed,
           waitCount := by rw [hb.waitCount, hdec, hout.length_eq],
           outIssued := ?_, issuedOut := ?_, outNodup := ?_, depsPerm := ?_, waiting := ?_, computing := ?_ }
  · intro r hr
    rw [htask]
    exact hb.outIssued r (hout.mem_iff.1 hr)
  · intro q hq
    obtain ⟨h1, h2⟩ := hb.issuedOut q hq
    rw [htask]
    refine ⟨fun x y => hmem q (h1 x y), fun x => ?_⟩
    rcases h2 x with h3 | h3
    · exact Or.inl (hdone _ h3)
    · exact Or.inr (hmem q h3)
  · exact (List.Perm.nodup_iff (List.Perm.filter _ hout)).2 hb.outNodup
  · rw [hrule]
    exact hb.depsPerm.trans (List.Perm.append_left _ (List.Perm.map _ hunp.symm))
  · rw [hrule, htask, hprior]
    intro hw
    obtain ⟨h1, h2⟩ := hb.waiting hw
    refine ⟨?_, h2⟩
    rcases h1 with h1 | h1
    · exact Or.inl h1
    · exact Or.inr (hmark h1)
  · rw [hrule, htask]
    intro hne
    obtain ⟨h1, h2⟩ := hb.computing hne
    exact ⟨h1, List.Perm.eq_nil (h2 ▸ hout)⟩

/-- the engine after the record of task `a` was replaced and the ready queue set -/
def stepState (s : State) (t' : TaskInfo) (ready' : List Key) : State := { s.setTask t' with readyTaskInfos := ready' }

/-- the monitor after its task of `a` was replaced -/
def stepM (m : Engine.St) (a : Key) (tk' : Task) : Engine.St := { m with task := upd m.task a tk' }

/-- a step that replaces the record `t ↦ t'` of the task of rule `a` (same waiters, same completion flag) and lets
the finished requests `gone` of that task leave `processed`; the rest of the hand is the same for everybody else -/
structure TaskStep (s : State) (h h' : Hand) (a : Key) (t t' : TaskInfo) (gone : List TaskInputRequest) : Prop where
  lookup : s.taskInfos.lookup a = some t
  forRule : t'.forRuleInfo = a
  requestedBy : t'.requestedBy = t.requestedBy
  deferred : t'.deferredScanRequests = t.deferredScanRequests
  done : t'.done = t.done
  scan : h'.scan = h.scan
  inp : h'.inp = h.inp
  fin : h.fin = gone ++ h'.fin
  goneTask : ∀ x ∈ gone, x.taskInfo = some a
  decOther : ∀ b, b ≠ a → ofTask b h'.dec = ofTask b h.dec
  issueOther : ∀ b, b ≠ a → h'.toIssue b = h.toIssue b
  markOther : ∀ b, b ≠ a → h.issuingFor = some b → h'.issuingFor = some b

section taskStep
variable {s : State} {h h' : Hand} {a : Key} {t t' : TaskInfo} {gone : List TaskInputRequest} {ready' : List Key}

theorem TaskStep.lookup' (st : TaskStep s h h' a t t' gone) (k : Key) :
    (stepState s t' ready').taskInfos.lookup k = if k = a then some t' else s.taskInfos.lookup k := by
  show (s.setTask t').taskInfos.lookup k = _
  rw [setTask_lookup, st.forRule]

theorem TaskStep.lookup_isSome (st : TaskStep s h h' a t t' gone) (k : Key) :
    ((stepState s t' ready').taskInfos.lookup k).isSome = (s.taskInfos.lookup k).isSome := by
  rw [st.lookup']
  by_cases e : k = a
  · subst e; simp [st.lookup]
  · simp [e]

theorem TaskStep.requestedByAll (st : TaskStep s h h' a t t' gone) :
    requestedByAll (stepState s t' ready') = requestedByAll s :=
  setTask_flatMap (fun t => t.requestedBy) st.lookup st.forRule st.requestedBy

theorem TaskStep.deferredAll (st : TaskStep s h h' a t t' gone) :
    deferredAll (stepState s t' ready') = deferredAll s := by
  unfold Refine.deferredAll
  have := setTask_flatMap (fun t => t.deferredScanRequests) st.lookup st.forRule st.deferred
  show _ ++ (s.setTask t').taskInfos.flatMap _ = _
  rw [this]; rfl

theorem TaskStep.scanReqs (st : TaskStep s h h' a t t' gone) : scanReqs (stepState s t' ready') h' = scanReqs s h := by
  unfold Refine.scanReqs
  rw [st.deferredAll, st.scan]; rfl

theorem TaskStep.unprocessed (st : TaskStep s h h' a t t' gone) : unprocessed (stepState s t' ready') h' = unprocessed s h := by
  unfold Refine.unprocessed
  rw [st.inp]; rfl

theorem TaskStep.processed (st : TaskStep s h h' a t t' gone) : processed s h = gone ++ processed (stepState s t' ready') h' := by
  unfold Refine.processed
  rw [st.requestedByAll, st.fin]
  simp [stepState, State.setTask]

theorem TaskStep.outstanding_perm (st : TaskStep s h h' a t t' gone) :
    List.Perm (outstanding s h) (gone ++ outstanding (stepState s t' ready') h') := by
  unfold outstanding
  rw [st.unprocessed (ready' := ready'), st.processed (ready' := ready')]
  rw [← List.append_assoc, ← List.append_assoc]
  exact List.Perm.append_right _ List.perm_append_comm

theorem TaskStep.outstanding_mem (st : TaskStep s h h' a t t' gone) {x : TaskInputRequest}
    (hx : x ∈ outstanding (stepState s t' ready') h') : x ∈ outstanding s h :=
  (st.outstanding_perm (ready' := ready')).mem_iff.2 (List.mem_append_right _ hx)

/-- the outstanding requests of task `a`: the ones that leave, and the rest -/
theorem TaskStep.ofTask_self (st : TaskStep s h h' a t t' gone) :
    List.Perm (ofTask a (outstanding s h)) (gone ++ ofTask a (outstanding (stepState s t' ready') h')) := by
  have := ofTask_perm (a := a) (st.outstanding_perm (ready' := ready'))
  rw [ofTask_append, ofTask_eq_self_of st.goneTask] at this
  exact this

theorem TaskStep.ofTask_other (st : TaskStep s h h' a t t' gone) {b : Key} (hne : b ≠ a) :
    List.Perm (ofTask b (outstanding (stepState s t' ready') h')) (ofTask b (outstanding s h)) := by
  have := ofTask_perm (a := b) (st.outstanding_perm (ready' := ready'))
  rw [ofTask_append, ofTask_eq_nil_of (a := b) (l := gone) (fun x hx e => hne (by
    have := st.goneTask x hx; rw [this] at e; exact (Option.some.inj e).symm))] at this
  exact this.symm

end taskStep


/-- **One task record / one monitor task updated, finished requests of that task consumed.**  Everything that is
not about task `a` is carried over; the caller proves `TaskOk` for `a` and the two clauses about the ready queue. -/
theorem Rel.taskStep {rules : List RuleSpec} {s : State} {m : Engine.St} {h h' : Hand} {a : Key} {t t' : TaskInfo}
    {gone : List TaskInputRequest} (hr : Rel rules s ⟨m, none⟩ h) (st : TaskStep s h h' a t t' gone)
    (tk' : Task) (ready' : List Key)
    (hta : TaskOk rules (stepState s t' ready') (stepM m a tk') h' a t')
    (hreadyOk : ∀ b ∈ ready', ∃ t2, (stepState s t' ready').taskInfos.lookup b = some t2 ∧
      (s.rule b).state = .inProgressWaiting ∧ t2.waitCount = 0)
    (hreadyNodup : ready'.Nodup) :
    Rel rules (stepState s t' ready') ⟨stepM m a tk', none⟩ h' := by
  have hlk := st.lookup' (ready' := ready')
  have hsome := st.lookup_isSome (ready' := ready')
  have hunp := st.unprocessed (ready' := ready')
  have hmemT : ∀ p ∈ (stepState s t' ready').taskInfos, p = (a, t') ∨ p ∈ s.taskInfos := by
    intro p hp
    have := mem_alSet s.taskInfos t'.forRuleInfo t' p hp
    rw [st.forRule] at this; exact this
  have hat : (a, t) ∈ s.taskInfos := lookup_mem _ _ _ st.lookup
  -- a task found in the new state, by cases
  have htaskCases : ∀ b tb, (stepState s t' ready').taskInfos.lookup b = some tb →
      (b = a ∧ tb = t') ∨ (b ≠ a ∧ s.taskInfos.lookup b = some tb) := by
    intro b tb hl
    rw [hlk] at hl
    by_cases e : b = a
    · simp only [e, if_true, Option.some.injEq] at hl; exact Or.inl ⟨e, hl.symm⟩
    · simp only [e, if_false] at hl; exact Or.inr ⟨e, hl⟩
  refine
    { toBase := { hr.toBase with },
      active := hr.active, started := hr.started, notReturned := hr.notReturned, epochPos := hr.epochPos,
      cancelled := hr.cancelled, errCancelled := hr.errCancelled, noCycle := hr.noCycle, targetReg := hr.targetReg,
      status := hr.status, pendOk := ?pendOk,
      validIdle := hr.validIdle, scanningOk := hr.scanningOk, dntrFresh := hr.dntrFresh, inScanned := hr.inScanned,
      inRan := hr.inRan, ranOk := hr.ranOk, scanOne := ?scanOne, scanOk := ?scanOk,
      deferredAtRecord := hr.deferredAtRecord, deferredAtTask := ?deferredAtTask, recordLive := hr.recordLive,
      scanCount := hr.scanCount, recordWaited := ?recordWaited, midScan := ?midScan, taskKeys := ?taskKeys,
      taskNodup := ?taskNodup,
      taskOk := ?taskOk, reqReg := ?reqReg, reqTask := ?reqTask, dummyOk := ?dummyOk, dummyUnproc := ?dummyUnproc,
      pausedAt := hr.pausedAt, requestedAt := ?requestedAt, finDone := ?finDone, pendingOk := ?pendingOk,
      readyOk := ?readyOk, readyNodup := hreadyNodup, finTaskOk := ?finTaskOk, finTaskNodup := hr.finTaskNodup,
      deferredOk := ?deferredOk, deferredNodup := hr.deferredNodup, computingWhere := ?computingWhere,
      outstandingCount := hr.outstandingCount }
  case pendOk => intro k hp; cases hp
  case scanOne =>
    intro k ri h1 h2
    rw [st.scanReqs]; exact hr.scanOne k ri h1 h2
  case scanOk =>
    intro r hm
    rw [st.scanReqs] at hm
    exact (hr.scanOk r hm).frame (fun _ x => x) rfl rfl (fun _ x => x)
  case deferredAtTask =>
    intro p hp r hrm
    rcases hmemT p hp with e | e
    · subst e
      simp only [st.deferred] at hrm
      exact hr.deferredAtTask (a, t) hat r hrm
    · exact hr.deferredAtTask p e r hrm
  case recordWaited =>
    intro p hp
    have := hr.recordWaited p hp
    rw [← st.scan, ← st.inp] at this
    exact this
  case midScan =>
    intro k ri h1 h2
    have := hr.midScan k ri h1 h2
    rw [← st.scan, ← st.inp] at this
    exact this
  case taskKeys =>
    intro k
    rw [hsome]; exact hr.taskKeys k
  case taskNodup => exact alSet_keys_nodup _ _ _ hr.taskNodup
  case taskOk =>
    intro b tb hl
    rcases htaskCases b tb hl with ⟨e1, e2⟩ | ⟨hne, hl0⟩
    · subst e1; subst e2; exact hta
    · refine (hr.taskOk b tb hl0).frame' rfl ?_ (st.ofTask_other hne) ?_ (st.issueOther b hne) (st.markOther b hne) ?_
        (fun _ x => x) rfl
      · show upd m.task a tk' b = m.task b
        exact upd_other _ _ _ _ hne
      · rw [hunp]
      · rw [st.decOther b hne]
  case reqReg =>
    intro r hm
    exact hr.reqReg r (st.outstanding_mem hm)
  case reqTask =>
    intro r hm b hb
    obtain ⟨h1, h2⟩ := hr.reqTask r (st.outstanding_mem hm) b hb
    exact ⟨by rw [hsome]; exact h1, h2⟩
  case dummyOk =>
    intro r hm hn
    rw [hunp] at hm
    rcases hr.dummyOk r hm hn with h1 | h1 | h1 | ⟨k2, t2, h1, _⟩
    · exact Or.inl h1
    · exact Or.inr (Or.inl h1)
    · exact Or.inr (Or.inr (Or.inl h1))
    · cases h1
  case dummyUnproc =>
    intro r hm
    apply hr.dummyUnproc r
    rw [st.processed (ready' := ready')]
    exact List.mem_append_right _ hm
  case requestedAt =>
    intro p hp r hrm
    rcases hmemT p hp with e | e
    · subst e
      simp only [st.requestedBy] at hrm
      exact hr.requestedAt (a, t) hat r hrm
    · exact hr.requestedAt p e r hrm
  case finDone =>
    intro r hm
    apply hr.finDone r
    rw [st.fin]
    rcases List.mem_append.1 hm with h1 | h1
    · exact List.mem_append_left _ (List.mem_append_right _ h1)
    · exact List.mem_append_right _ h1
  case pendingOk =>
    intro p hp
    rw [hunp, hsome]
    exact hr.pendingOk p hp
  case readyOk => exact hreadyOk
  case finTaskOk =>
    intro b hb
    obtain ⟨tb, h1, h2, h3⟩ := hr.finTaskOk b hb
    by_cases e : b = a
    · subst e
      rw [st.lookup] at h1; cases h1
      exact ⟨t', by rw [hlk]; simp, h2, by rw [st.done]; exact h3⟩
    · exact ⟨tb, by rw [hlk]; simp [e, h1], h2, h3⟩
  case deferredOk =>
    intro b hb
    obtain ⟨tb, h1, h2, h3⟩ := hr.deferredOk b hb
    by_cases e : b = a
    · subst e
      rw [st.lookup] at h1; cases h1
      exact ⟨t', by rw [hlk]; simp, h2, by rw [st.done]; exact h3⟩
    · exact ⟨tb, by rw [hlk]; simp [e, h1], h2, h3⟩
  case computingWhere =>
    intro b tb hl h2
    rcases htaskCases b tb hl with ⟨e1, e2⟩ | ⟨hne, hl0⟩
    · subst e1; subst e2
      rw [st.done]
      exact hr.computingWhere b t st.lookup h2
    · exact hr.computingWhere b tb hl0 h2


/-! ## the task of the finished request -/

theorem stepM_self (m : Engine.St) (a : Key) : stepM m a (m.task a) = m := by
  unfold stepM; rw [upd_self]

theorem stepState_self {s : State} {a : Key} {t : TaskInfo} (hl : s.taskInfos.lookup a = some t) (hfor : t.forRuleInfo = a) :
    stepState s t s.readyTaskInfos = s := by
  unfold stepState; rw [setTask_same hl hfor]

/-- every issued request is one of the rule's requests -/
theorem TaskOk.issued_allReqs {rules : List RuleSpec} {s : State} {m : Engine.St} {h : Hand} {a : Key} {t : TaskInfo}
    (hb : TaskOk rules s m h a t) : ∀ x ∈ t.issuedReqs, x ∈ allReqs (specOf rules a) := by
  intro x hx
  apply issuedAfter_subset_allReqs rules a (m.task a).seq
  rw [← hb.issuedSeq, hb.issued]
  exact List.mem_append_left _ hx

theorem reqOf_taskInfo (a : Key) (q : Req) : (reqOf a q).taskInfo = some a := rfl

theorem ofTask_singleton_self {a : Key} {r : TaskInputRequest} (h : r.taskInfo = some a) : ofTask a [r] = [r] :=
  ofTask_eq_self_of (by intro x hx; rw [List.mem_singleton.1 hx]; exact h)

theorem ofTask_singleton_other {a b : Key} {r : TaskInputRequest} (h : r.taskInfo = some a) (hne : b ≠ a) : ofTask b [r] = [] :=
  ofTask_eq_nil_of (by
    intro x hx e; rw [List.mem_singleton.1 hx, h] at e; exact hne (Option.some.inj e).symm)

/-- the step `fin → dec` (+ `issuing`) of a finished request `r` of task `a` -/
theorem taskStep_deliver {s : State} {a : Key} {t t' : TaskInfo} {r : TaskInputRequest} (iss : Option (Key × List Req))
    (hl : s.taskInfos.lookup a = some t) (hra : r.taskInfo = some a) (hfor : t'.forRuleInfo = a)
    (h1 : t'.requestedBy = t.requestedBy) (h2 : t'.deferredScanRequests = t.deferredScanRequests) (h3 : t'.done = t.done)
    (hiss : ∀ p, iss = some p → p.1 = a) :
    TaskStep s { fin := [r] } { dec := [r], issuing := iss } a t t' [r] :=
  { lookup := hl, forRule := hfor, requestedBy := h1, deferred := h2, done := h3, scan := rfl, inp := rfl, fin := rfl,
    goneTask := by intro x hx; rw [List.mem_singleton.1 hx]; exact hra,
    decOther := by intro b hne; rw [ofTask_singleton_other hra hne]; rfl,
    issueOther := by
      intro b hne
      cases iss with
      | none => rfl
      | some p =>
        obtain ⟨c, l⟩ := p
        have := hiss _ rfl
        simp only at this; subst this
        simp [Hand.toIssue, hne],
    markOther := by intro b _ hm; cases hm }

/-- **`PV`**: the record and the monitor task of `a` after the value `v` of the request `q` was handed over -/
theorem TaskOk.provide {rules : List RuleSpec} (hok : RulesOk rules) {s : State} {m : Engine.St} {a : Key} {t : TaskInfo}
    {r : TaskInputRequest} {q : Req} {v : Val}
    (hta : TaskOk rules s m { fin := [r] } a t) (hl : s.taskInfos.lookup a = some t)
    (hq : q ∈ t.issuedReqs) (hrq : r = reqOf a q) (hk : q.kind ≠ 2) (hwait : (s.rule a).state = .inProgressWaiting)
    (t' : TaskInfo) (ht' : t' = { t with recv := insertRecv q.id (maskVal q v) t.recv })
    (fresh : List Req) (hfresh : fresh = newReqs (specOf rules a) t')
    (tk' : Task) (htk' : tk' = { m.task a with issued := (m.task a).issued ++ fresh, seq := (q, v) :: (m.task a).seq }) :
    TaskOk rules (stepState s t' s.readyTaskInfos) (stepM m a tk') { dec := [r], issuing := some (a, fresh) } a t' := by
  have hra : r.taskInfo = some a := by rw [hrq]; rfl
  have hroo : r.orderOnly = false := by rw [hrq]; simp [reqOf, hk]
  have st : TaskStep s { fin := [r] } { dec := [r], issuing := some (a, fresh) } a t t' [r] :=
    taskStep_deliver _ hl hra (by rw [ht']; exact hta.forRule) (by rw [ht']) (by rw [ht']) (by rw [ht'])
      (by intro p hp; cases hp; rfl)
  have hall := hta.issued_allReqs
  have huniq : ∀ x ∈ t.issuedReqs, x.id = q.id → x = q := fun x hx e =>
    nodup_map_inj (fun q => q.id) _ (hok.nodup a) x (hall x hx) q (hall q hq) e
  have hiss0 : (m.task a).issued = t.issuedReqs := by
    rw [hta.issued]; simp [Hand.toIssue]
  have htk : (stepM m a tk').task a = tk' := upd_same _ _ _
  have hperm := st.ofTask_self (ready' := s.readyTaskInfos)
  have hXsub : ∀ x ∈ ofTask a (outstanding (stepState s t' s.readyTaskInfos) { dec := [r], issuing := some (a, fresh) }),
      x ∈ ofTask a (outstanding s { fin := [r] }) := fun x hx => hperm.mem_iff.2 (List.mem_append_right _ hx)
  have hnd := (List.Perm.nodup_iff (List.Perm.filter (fun r => !r.orderOnly) hperm)).1 hta.outNodup
  simp only [List.singleton_append, List.filter_cons, hroo, Bool.not_false, if_true, List.nodup_cons] at hnd
  have hdel : ∀ x, delivered ((q, v) :: (m.task a).seq) x = ((q == x) || delivered (m.task a).seq x) := by
    intro x; simp [delivered]
  have hIssuedT' : t'.issuedReqs = t.issuedReqs := by rw [ht']
  refine { forRule := by rw [ht']; exact hta.forRule, started := ?started, issued := ?issued, issuedSeq := ?issuedSeq,
           recv := ?recv, deliveredIssued := ?deliveredIssued, completed := ?completed, waitCount := ?waitCount,
           outIssued := ?outIssued, issuedOut := ?issuedOut, outNodup := hnd.2, depsPerm := ?depsPerm,
           waiting := ?waiting, computing := ?computing }
  case started => rw [htk, htk']; exact hta.started
  case issued =>
    rw [htk, htk', hIssuedT']
    simp [Hand.toIssue, hiss0]
  case issuedSeq =>
    rw [htk, htk']
    show (m.task a).issued ++ fresh = _
    rw [newReqs_eq rules a t' q v (m.task a).seq (by rw [hIssuedT', ← hiss0]; exact hta.issuedSeq)
      (by rw [ht']; simp only [recvOf]; rw [hta.recv]), hfresh, hIssuedT', hiss0]
  case recv =>
    rw [htk, htk', ht']; simp only [recvOf]; rw [hta.recv]
  case deliveredIssued =>
    intro x hx
    rw [htk, htk'] at hx
    simp only [hdel, Bool.or_eq_true, beq_iff_eq] at hx
    rw [hIssuedT']
    rcases hx with e | e
    · rw [← e]; exact hq
    · exact hta.deliveredIssued x e
  case completed => rw [htk, htk', ht']; exact hta.completed
  case waitCount =>
    have h0 := hta.waitCount
    have h1 := hperm.length_eq
    have h2 : t'.waitCount = t.waitCount := by rw [ht']
    have h3 : (ofTask a ({ dec := [r], issuing := some (a, fresh) } : Hand).dec).length = 1 := by
      show (ofTask a [r]).length = 1
      rw [ofTask_singleton_self hra]; rfl
    have h4 : (ofTask a ({ fin := [r] } : Hand).dec).length = 0 := rfl
    rw [h2, h0, h1, h3, h4]
    simp only [List.length_append, List.length_cons, List.length_nil]; omega
  case outIssued =>
    intro x hx
    obtain ⟨q', hq', hxq, hund⟩ := hta.outIssued x (hXsub x hx)
    refine ⟨q', by rw [hIssuedT']; exact hq', hxq, fun hk' => ?_⟩
    rw [htk, htk']
    simp only [hdel, Bool.or_eq_false_iff]
    refine ⟨?_, hund hk'⟩
    -- `q' = q` would make `x = r`, which has just left the outstanding requests
    apply Decidable.byContradiction
    intro hne
    have e : q = q' := by simpa using hne
    subst e
    apply hnd.1
    rw [hrq, ← hxq]
    exact List.mem_filter.2 ⟨hx, by rw [hxq]; simp [reqOf, hk]⟩
  case issuedOut =>
    intro q' hq'
    rw [hIssuedT'] at hq'
    obtain ⟨h1, h2⟩ := hta.issuedOut q' hq'
    rw [htk, htk']
    constructor
    · intro hk' hund
      simp only [hdel, Bool.or_eq_false_iff] at hund
      have hin := h1 hk' hund.2
      have hin' : reqOf a q' ∈ ofTask a (outstanding s { fin := [r] }) := mem_ofTask.2 ⟨hin, rfl⟩
      rcases List.mem_append.1 (hperm.mem_iff.1 hin') with e | e
      · -- `reqOf a q' = r = reqOf a q`: same id, hence the same request
        exfalso
        have e1 : reqOf a q' = reqOf a q := by rw [← hrq]; exact List.mem_singleton.1 e
        have e2 : q'.id = q.id := by
          have := congrArg TaskInputRequest.inputID e1
          simpa [reqOf, hk, hk'] using this
        have := huniq q' hq' e2
        rw [this] at hund; simp at hund
      · exact (mem_ofTask.1 e).1
    · intro hk'
      rcases h2 hk' with h3 | h3
      · exact Or.inl h3
      · right
        have hin' : reqOf a q' ∈ ofTask a (outstanding s { fin := [r] }) := mem_ofTask.2 ⟨h3, rfl⟩
        rcases List.mem_append.1 (hperm.mem_iff.1 hin') with e | e
        · exfalso
          have e1 : reqOf a q' = r := List.mem_singleton.1 e
          have := congrArg TaskInputRequest.orderOnly e1
          rw [hroo] at this
          simp [reqOf, hk'] at this
        · exact (mem_ofTask.1 e).1
  case depsPerm =>
    rw [hIssuedT', st.unprocessed]
    exact hta.depsPerm
  case waiting =>
    intro hw
    obtain ⟨_, h2, h3⟩ := hta.waiting hw
    exact ⟨Or.inr rfl, by rw [ht']; exact h2, by rw [ht']; exact h3⟩
  case computing =>
    intro hne
    exact absurd hwait hne


/-- a finished must-follow request needs no delivery: it goes straight from `fin` to `dec` -/
theorem TaskOk.moveOrderOnly {rules : List RuleSpec} {s : State} {m : Engine.St} {a : Key} {t : TaskInfo}
    {r : TaskInputRequest}
    (hta : TaskOk rules s m { fin := [r] } a t) (hl : s.taskInfos.lookup a = some t)
    (hra : r.taskInfo = some a) (hroo : r.orderOnly = true) (hwait : (s.rule a).state = .inProgressWaiting)
    (hdone : isDone m r.inputRuleInfo = true) :
    TaskOk rules s m { dec := [r] } a t := by
  have st : TaskStep s { fin := [r] } { dec := [r] } a t t [r] :=
    taskStep_deliver none hl hra hta.forRule rfl rfl rfl (by intro p hp; cases hp)
  have hperm := st.ofTask_self (ready' := s.readyTaskInfos)
  have hunp := st.unprocessed (ready' := s.readyTaskInfos)
  rw [stepState_self hl hta.forRule] at hperm hunp
  have hXsub : ∀ x ∈ ofTask a (outstanding s { dec := [r] }), x ∈ ofTask a (outstanding s { fin := [r] }) :=
    fun x hx => hperm.mem_iff.2 (List.mem_append_right _ hx)
  have hnd := (List.Perm.nodup_iff (List.Perm.filter (fun r => !r.orderOnly) hperm)).1 hta.outNodup
  simp only [List.singleton_append, List.filter_cons, hroo, Bool.not_true, Bool.false_eq_true, if_false] at hnd
  refine { forRule := hta.forRule, started := hta.started, issued := hta.issued, issuedSeq := hta.issuedSeq,
           recv := hta.recv, deliveredIssued := hta.deliveredIssued, completed := hta.completed, waitCount := ?waitCount,
           outIssued := fun x hx => hta.outIssued x (hXsub x hx), issuedOut := ?issuedOut, outNodup := hnd,
           depsPerm := ?depsPerm, waiting := hta.waiting, computing := fun hne => absurd hwait hne }
  case waitCount =>
    have h0 := hta.waitCount
    have h1 := hperm.length_eq
    have h3 : (ofTask a ({ dec := [r] } : Hand).dec).length = 1 := by
      show (ofTask a [r]).length = 1
      rw [ofTask_singleton_self hra]; rfl
    have h4 : (ofTask a ({ fin := [r] } : Hand).dec).length = 0 := rfl
    rw [h0, h1, h3, h4]
    simp only [List.length_append, List.length_cons, List.length_nil]; omega
  case issuedOut =>
    intro q' hq'
    obtain ⟨h1, h2⟩ := hta.issuedOut q' hq'
    constructor
    · intro hk' hund
      have hin' : reqOf a q' ∈ ofTask a (outstanding s { fin := [r] }) := mem_ofTask.2 ⟨h1 hk' hund, rfl⟩
      rcases List.mem_append.1 (hperm.mem_iff.1 hin') with e | e
      · exfalso
        have e1 : reqOf a q' = r := List.mem_singleton.1 e
        have := congrArg TaskInputRequest.orderOnly e1
        rw [hroo] at this
        simp [reqOf, hk'] at this
      · exact (mem_ofTask.1 e).1
    · intro hk'
      rcases h2 hk' with h3 | h3
      · exact Or.inl h3
      · have hin' : reqOf a q' ∈ ofTask a (outstanding s { fin := [r] }) := mem_ofTask.2 ⟨h3, rfl⟩
        rcases List.mem_append.1 (hperm.mem_iff.1 hin') with e | e
        · left
          have e1 : reqOf a q' = r := List.mem_singleton.1 e
          rw [← e1] at hdone; exact hdone
        · exact Or.inr (mem_ofTask.1 e).1
  case depsPerm =>
    rw [hunp]; exact hta.depsPerm

/-- `decrementTaskWaitCount`: the request in `dec` is no longer counted -/
theorem TaskOk.decrement {rules : List RuleSpec} {s : State} {m : Engine.St} {a : Key} {t : TaskInfo}
    {r : TaskInputRequest} (ready' : List Key)
    (hta : TaskOk rules s m { dec := [r] } a t) (st : TaskStep s { dec := [r] } {} a t { t with waitCount := t.waitCount - 1 } [])
    (hra : r.taskInfo = some a) :
    TaskOk rules (stepState s { t with waitCount := t.waitCount - 1 } ready') m {} a { t with waitCount := t.waitCount - 1 } := by
  have hunp := st.unprocessed (ready' := ready')
  have hout : outstanding (stepState s { t with waitCount := t.waitCount - 1 } ready') {} = outstanding s { dec := [r] } := by
    unfold outstanding
    rw [hunp, st.processed (ready' := ready')]; rfl
  refine { forRule := hta.forRule, started := hta.started, issued := hta.issued, issuedSeq := hta.issuedSeq,
           recv := hta.recv, deliveredIssued := hta.deliveredIssued, completed := hta.completed, waitCount := ?waitCount,
           outIssued := by rw [hout]; exact hta.outIssued, issuedOut := by rw [hout]; exact hta.issuedOut,
           outNodup := by rw [hout]; exact hta.outNodup,
           depsPerm := by rw [hunp]; exact hta.depsPerm, waiting := hta.waiting,
           computing := by rw [hout]; exact hta.computing }
  case waitCount =>
    have h0 := hta.waitCount
    have h3 : (ofTask a ({ dec := [r] } : Hand).dec).length = 1 := by
      show (ofTask a [r]).length = 1
      rw [ofTask_singleton_self hra]; rfl
    rw [hout]
    show t.waitCount - 1 = _ + 0
    rw [h0, h3]; omega

/-! ## the three hand moves under `Rel` -/

/-- the ready queue is unchanged and the wait count of `a` too -/
theorem readyOk_keep {rules : List RuleSpec} {s : State} {ms : MSt} {h h' : Hand} {a : Key} {t t' : TaskInfo}
    {gone : List TaskInputRequest} (hr : Rel rules s ms h) (st : TaskStep s h h' a t t' gone)
    (hwc : t'.waitCount = t.waitCount) :
    ∀ b ∈ s.readyTaskInfos, ∃ t2, (stepState s t' s.readyTaskInfos).taskInfos.lookup b = some t2 ∧
      (s.rule b).state = .inProgressWaiting ∧ t2.waitCount = 0 := by
  intro b hb
  obtain ⟨tb, h1, h2, h3⟩ := hr.readyOk b hb
  rw [st.lookup']
  by_cases e : b = a
  · subst e
    rw [st.lookup] at h1; cases h1
    exact ⟨t', by simp, h2, by rw [hwc]; exact h3⟩
  · exact ⟨tb, by simp [e, h1], h2, h3⟩

/-- the request popped by `finishedInputsLoop` is an issued, undelivered request of its task -/
theorem Rel.finReq {rules : List RuleSpec} {s : State} {ms : MSt} {r : TaskInputRequest} {a : Key}
    (hr : Rel rules s ms { fin := [r] }) (hra : r.taskInfo = some a) :
    ∃ t, s.taskInfos.lookup a = some t ∧ (s.rule a).state = .inProgressWaiting ∧
      ∃ q ∈ t.issuedReqs, r = reqOf a q ∧ (q.kind ≠ 2 → delivered (ms.m.task a).seq q = false) := by
  have hmem : r ∈ outstanding s { fin := [r] } := by
    unfold outstanding processed
    exact List.mem_append_right _ (List.mem_append_left _ (List.mem_append_left _ (List.mem_singleton.2 rfl)))
  obtain ⟨h1, h2⟩ := hr.reqTask r hmem a hra
  obtain ⟨t, ht⟩ := Option.isSome_iff_exists.1 h1
  exact ⟨t, ht, h2, (hr.taskOk a t ht).outIssued r (mem_ofTask.2 ⟨hmem, hra⟩)⟩

theorem Rel.moveOrderOnly {rules : List RuleSpec} {s : State} {m : Engine.St} {r : TaskInputRequest} {a : Key}
    (hr : Rel rules s ⟨m, none⟩ { fin := [r] }) (hra : r.taskInfo = some a) (hroo : r.orderOnly = true) :
    Rel rules s ⟨m, none⟩ { dec := [r] } := by
  obtain ⟨t, hl, hwait, _⟩ := hr.finReq hra
  have hta := hr.taskOk a t hl
  have st : TaskStep s { fin := [r] } { dec := [r] } a t t [r] :=
    taskStep_deliver none hl hra hta.forRule rfl rfl rfl (by intro p hp; cases hp)
  have hdone : isDone m r.inputRuleInfo = true := hr.finDone r (by simp)
  have := hr.taskStep st (m.task a) s.readyTaskInfos
    (by rw [stepState_self hl hta.forRule, stepM_self]; exact hta.moveOrderOnly hl hra hroo hwait hdone)
    (readyOk_keep hr st rfl) hr.readyNodup
  rw [stepState_self hl hta.forRule, stepM_self] at this
  exact this

theorem decrement_eq {s : State} {a : Key} {t : TaskInfo} (hl : s.taskInfos.lookup a = some t) (hfor : t.forRuleInfo = a)
    (hwc : t.waitCount ≠ 0) :
    decrementTaskWaitCount a s =
      stepState s { t with waitCount := t.waitCount - 1 }
        (if t.waitCount - 1 = 0 then s.readyTaskInfos ++ [a] else s.readyTaskInfos) := by
  unfold decrementTaskWaitCount
  have h1 : s.task a = t := task_of_lookup hl
  have h2 : (t.waitCount == 0) = false := by simpa using hwc
  have e : s.modTask a (fun t => { t with waitCount := t.waitCount - 1 }) = s.setTask { t with waitCount := t.waitCount - 1 } := by
    unfold State.modTask; rw [h1]
  simp only [h1, h2, e, Bool.false_eq_true, if_false]
  rw [setTask_task]
  simp only [hfor, if_true]
  by_cases h3 : t.waitCount - 1 = 0
  · have : ((t.waitCount - 1) == 0) = true := by simp [h3]
    simp only [h3, if_true]; rfl
  · have : ((t.waitCount - 1) == 0) = false := by simpa using h3
    simp only [this, h3, if_false, Bool.false_eq_true]; rfl

/-- **`decrementTaskWaitCount`** for the request in `dec` -/
theorem Rel.decrement {rules : List RuleSpec} {s : State} {m : Engine.St} {r : TaskInputRequest} {a : Key} {t : TaskInfo}
    (hr : Rel rules s ⟨m, none⟩ { dec := [r] }) (hra : r.taskInfo = some a)
    (hl : s.taskInfos.lookup a = some t) (hwait : (s.rule a).state = .inProgressWaiting) :
    Rel rules (decrementTaskWaitCount a s) ⟨m, none⟩ {} ∧ (decrementTaskWaitCount a s).trace = s.trace ∧
      (decrementTaskWaitCount a s).halted = s.halted ∧ (decrementTaskWaitCount a s).ruleInfos = s.ruleInfos := by
  have hta := hr.taskOk a t hl
  have hwc : t.waitCount ≠ 0 := by
    have h0 := hta.waitCount
    have h3 : (ofTask a ({ dec := [r] } : Hand).dec).length = 1 := by
      show (ofTask a [r]).length = 1
      rw [ofTask_singleton_self hra]; rfl
    rw [h0, h3]; omega
  rw [decrement_eq hl hta.forRule hwc]
  refine ⟨?_, rfl, rfl, rfl⟩
  have st : TaskStep s { dec := [r] } {} a t { t with waitCount := t.waitCount - 1 } [] :=
    { lookup := hl, forRule := hta.forRule, requestedBy := rfl, deferred := rfl, done := rfl, scan := rfl, inp := rfl,
      fin := rfl, goneTask := (by intro x hx; cases hx),
      decOther := (by intro b hne; rw [ofTask_singleton_other hra hne]; rfl),
      issueOther := fun _ _ => rfl, markOther := fun _ _ x => x }
  -- `a` was not ready: ready tasks have wait count 0
  have hnotReady : a ∉ s.readyTaskInfos := by
    intro hm
    obtain ⟨tb, h1, _, h3⟩ := hr.readyOk a hm
    rw [hl] at h1; cases h1
    exact hwc h3
  have := hr.taskStep st (m.task a) (if t.waitCount - 1 = 0 then s.readyTaskInfos ++ [a] else s.readyTaskInfos)
    (by rw [stepM_self]; exact hta.decrement _ st hra) ?_ ?_
  · rw [stepM_self] at this; exact this
  · intro b hb
    rw [st.lookup']
    have hold : b ∈ s.readyTaskInfos → ∃ t2, (if b = a then some { t with waitCount := t.waitCount - 1 } else s.taskInfos.lookup b) = some t2 ∧
        (s.rule b).state = .inProgressWaiting ∧ t2.waitCount = 0 := by
      intro hb0
      obtain ⟨tb, h1, h2, h3⟩ := hr.readyOk b hb0
      have hne : b ≠ a := by intro e; subst e; exact hnotReady hb0
      exact ⟨tb, by simp [hne, h1], h2, h3⟩
    by_cases h0 : t.waitCount - 1 = 0
    · simp only [h0, if_true, List.mem_append, List.mem_singleton] at hb
      rcases hb with hb | hb
      · exact hold hb
      · subst hb
        exact ⟨{ t with waitCount := t.waitCount - 1 }, by simp, hwait, h0⟩
    · simp only [h0, if_false] at hb
      exact hold hb
  · by_cases h0 : t.waitCount - 1 = 0
    · simp only [h0, if_true]
      rw [List.nodup_append]
      refine ⟨hr.readyNodup, by simp, ?_⟩
      intro x hx y hy
      simp at hy; subst hy
      intro e; subst e; exact hnotReady hx
    · simp only [h0, if_false]; exact hr.readyNodup


theorem statusOf_waiting {s : State} {pend : Option Key} {a : Key} (h : (s.rule a).state = .inProgressWaiting) :
    statusOf s pend a = .running := by
  unfold statusOf
  unfold State.rule at h
  cases hl : s.ruleInfos.lookup a with
  | none => rw [hl] at h; cases h
  | some ri => rw [hl] at h; simp only [Option.getD_some] at h; simp [h]

theorem waiting_of_statusOf {s : State} {pend : Option Key} {a : Key} (h : statusOf s pend a = .running) :
    (s.rule a).state = .inProgressWaiting := by
  unfold statusOf at h
  unfold State.rule
  cases hl : s.ruleInfos.lookup a with
  | none => rw [hl] at h; cases h
  | some ri =>
    rw [hl] at h
    simp only at h
    simp only [Option.getD_some]
    cases hs : ri.state <;> rw [hs] at h <;> simp at h ⊢
    split at h
    · split at h <;> cases h
    · cases h

/-- **the monitor accepts `PV a id key v fresh`** -/
theorem step_provide {rules : List RuleSpec} (hok : RulesOk rules) {s : State} {m : Engine.St} {a : Key} {t : TaskInfo}
    {r : TaskInputRequest} {q : Req} {v : Val}
    (hr : Rel rules s ⟨m, none⟩ { fin := [r] }) (hl : s.taskInfos.lookup a = some t)
    (hq : q ∈ t.issuedReqs) (hrq : r = reqOf a q) (hk : q.kind ≠ 2) (hund : delivered (m.task a).seq q = false)
    (hwait : (s.rule a).state = .inProgressWaiting) (hv : v = (s.rule q.key).result.value)
    (t' : TaskInfo) (ht' : t' = { t with recv := insertRecv q.id (maskVal q v) t.recv })
    (fresh : List Req) (hfresh : fresh = newReqs (specOf rules a) t')
    (tk' : Task) (htk' : tk' = { m.task a with issued := (m.task a).issued ++ fresh, seq := (q, v) :: (m.task a).seq }) :
    step (program rules) m (.provide a q.id q.key v fresh) = some (stepM m a tk') := by
  have hta := hr.taskOk a t hl
  have htaNew := hta.provide hok hl hq hrq hk hwait t' ht' fresh hfresh tk' htk'
  have hall := hta.issued_allReqs
  have hiss0 : (m.task a).issued = t.issuedReqs := by
    rw [hta.issued]; simp [Hand.toIssue]
  have hstat : m.status a = .running := by
    have := hr.status a; simp only at this; rw [this]; exact statusOf_waiting hwait
  have hprior : (m.task a).priorSeen = priorDue m a := by
    rcases (hta.waiting hwait).1 with h1 | h1
    · exact h1
    · cases h1
  have hmem : r ∈ outstanding s { fin := [r] } := by
    unfold outstanding processed
    exact List.mem_append_right _ (List.mem_append_left _ (List.mem_append_left _ (List.mem_singleton.2 rfl)))
  have hkey : r.inputRuleInfo = q.key := by rw [hrq]; rfl
  have hdone : isDone m q.key = true := by
    rw [← hkey]; exact hr.finDone r (by simp)
  have hval : v = (m.mem.res q.key).value := by
    have hreg := (hr.reqReg r hmem).1
    rw [hkey] at hreg
    obtain ⟨ri, hri⟩ := Option.isSome_iff_exists.1 hreg
    rw [hv, rule_of_lookup hri]
    exact ((hr.res q.key ri hri).1).symm
  have hfind : (m.task a).issued.find? (fun q' => q'.key == q.key && q'.id == q.id && q'.kind != 2 && !delivered (m.task a).seq q') = some q := by
    apply find?_unique _ q _ (by rw [hiss0]; exact hq) (by simp [hk, hund])
    intro x hx hp
    rw [hiss0] at hx
    simp only [Bool.and_eq_true, beq_iff_eq] at hp
    exact nodup_map_inj (fun q => q.id) _ (hok.nodup a) x (hall x hx) q (hall q hq) hp.1.1.2
  have hiss : (m.task a).issued ++ fresh = issuedAfter (program rules) a ((q, v) :: (m.task a).seq) := by
    have := htaNew.issuedSeq
    rw [show (stepM m a tk').task a = tk' from upd_same _ _ _, htk'] at this
    exact this
  have hcond : (m.status a == .running && (m.task a).started && (m.task a).priorSeen == priorDue m a) = true := by
    rw [hstat, hta.started, hprior]; simp
  have hcond2 : (isDone m q.key && v == (m.mem.res q.key).value &&
      (m.task a).issued ++ fresh == issuedAfter (program rules) a ((q, v) :: (m.task a).seq)) = true := by
    rw [hdone, ← hval, hiss]; simp
  simp only [step, hcond, if_true, hfind, hcond2]
  rw [htk']; rfl

/-- **`PV`**: the relation after the value was handed to the task (before the recorder runs) -/
theorem Rel.provide {rules : List RuleSpec} (hok : RulesOk rules) {s : State} {m : Engine.St} {a : Key} {t : TaskInfo}
    {r : TaskInputRequest} {q : Req} {v : Val}
    (hr : Rel rules s ⟨m, none⟩ { fin := [r] }) (hl : s.taskInfos.lookup a = some t)
    (hq : q ∈ t.issuedReqs) (hrq : r = reqOf a q) (hk : q.kind ≠ 2)
    (hwait : (s.rule a).state = .inProgressWaiting)
    (t' : TaskInfo) (ht' : t' = { t with recv := insertRecv q.id (maskVal q v) t.recv })
    (fresh : List Req) (hfresh : fresh = newReqs (specOf rules a) t')
    (tk' : Task) (htk' : tk' = { m.task a with issued := (m.task a).issued ++ fresh, seq := (q, v) :: (m.task a).seq }) :
    Rel rules (s.setTask t') ⟨stepM m a tk', none⟩ { dec := [r], issuing := some (a, fresh) } := by
  have hta := hr.taskOk a t hl
  have hra : r.taskInfo = some a := by rw [hrq]; rfl
  have st : TaskStep s { fin := [r] } { dec := [r], issuing := some (a, fresh) } a t t' [r] :=
    taskStep_deliver _ hl hra (by rw [ht']; exact hta.forRule) (by rw [ht']) (by rw [ht']) (by rw [ht'])
      (by intro p hp; cases hp; rfl)
  exact hr.taskStep st tk' s.readyTaskInfos (hta.provide hok hl hq hrq hk hwait t' ht' fresh hfresh tk' htk')
    (readyOk_keep hr st (by rw [ht'])) hr.readyNodup

/-- `DslTask::provideValue` with the single-use flag resolved -/
theorem taskProvideValue_eq {rules : List RuleSpec} (hok : RulesOk rules) {s : State} {m : Engine.St} {h : Hand} {a : Key}
    {t : TaskInfo} {q : Req} (v : Val) (hta : TaskOk rules s m h a t) (hl : s.taskInfos.lookup a = some t)
    (hq : q ∈ t.issuedReqs) (hk : q.kind ≠ 2) :
    taskProvideValue a (reqOf a q).inputID (reqOf a q).inputRuleInfo v s =
      issue a (newReqs (specOf s.rules a) { t with recv := insertRecv q.id (maskVal q v) t.recv })
        (emit (.PV a q.id q.key v (newReqs (specOf s.rules a) { t with recv := insertRecv q.id (maskVal q v) t.recv }))
          (s.setTask { t with recv := insertRecv q.id (maskVal q v) t.recv })) := by
  have hall := hta.issued_allReqs
  have hid : (reqOf a q).inputID = q.id := by simp [reqOf, hk]
  have hkey : (reqOf a q).inputRuleInfo = q.key := rfl
  have hsingle : isSingleUse t.issuedReqs q.id q.key = (q.kind == 1) := by
    apply isSingleUse_unique q.id q.key q _ hq (by simp [matchReq, hk])
    intro x hx hp
    simp only [matchReq, Bool.and_eq_true, beq_iff_eq] at hp
    exact nodup_map_inj (fun q => q.id) _ (hok.nodup a) x (hall x hx) q (hall q hq) hp.1.1
  unfold taskProvideValue
  simp only [task_of_lookup hl, hid, hkey, hsingle]
  rfl

/-! ## what `DslTask::issue` records and registers -/

/-- the tokens `DslTask::issue` can record (`BAD`/`FUEL` are then rejected by the monitor) -/
def Tok.isRegLike : Tok → Bool
  | .L _ => true
  | .G _ _ => true
  | .X => true
  | .ER _ => true
  | .BAD _ => true
  | _ => false

/-- only registration-like tokens are recorded, and only `Incomplete` rules appear -/
structure IssueLike (s s' : State) : Prop where
  toks : ∃ toks, Emits s toks s' ∧ ∀ t ∈ toks, Tok.isRegLike t = true
  noMid : NoMid s → NoMid s'

theorem IssueLike.refl (s : State) : IssueLike s s := ⟨⟨[], Emits.refl s, by simp⟩, id⟩

theorem IssueLike.trans {s1 s2 s3 : State} (a : IssueLike s1 s2) (b : IssueLike s2 s3) : IssueLike s1 s3 := by
  obtain ⟨ta, ha1, ha2⟩ := a.toks
  obtain ⟨tb, hb1, hb2⟩ := b.toks
  refine ⟨⟨ta ++ tb, ha1.trans hb1, ?_⟩, fun x => b.noMid (a.noMid x)⟩
  intro t ht
  rcases List.mem_append.1 ht with h | h
  · exact ha2 t h
  · exact hb2 t h

theorem IssueLike.of_eq {s s' : State} (htr : s'.trace = s.trace) (hri : s'.ruleInfos = s.ruleInfos) : IssueLike s s' :=
  ⟨⟨[], by simp [Emits, htr], by simp⟩, fun h => by unfold NoMid at *; rw [hri]; exact h⟩

theorem IssueLike.emit (t : Tok) (ht : Tok.isRegLike t = true) (s : State) : IssueLike s (emit t s) := by
  refine ⟨?_, fun h => by unfold NoMid at *; rw [emit_ruleInfos]; exact h⟩
  by_cases hh : s.halted = true
  · rw [emit_halted t s hh]; exact ⟨[], Emits.refl s, by simp⟩
  · have hh' : s.halted = false := by simpa using hh
    rcases emit_emits t s hh' with h | h
    · exact ⟨[t], h, by simp [ht]⟩
    · refine ⟨[t, .X], h, ?_⟩
      intro x hx; simp at hx; rcases hx with e | e <;> subst e
      · exact ht
      · rfl

theorem IssueLike.halt (t : Tok) (ht : Tok.isRegLike t = true) (s : State) : IssueLike s (halt t s) := by
  refine ⟨?_, fun h => by unfold NoMid at *; rw [(halt_same t s).ruleInfos]; exact h⟩
  by_cases hh : s.halted = true
  · have : EngineImpl.halt t s = s := by simp [EngineImpl.halt, hh]
    rw [this]; exact ⟨[], Emits.refl s, by simp⟩
  · have hh' : s.halted = false := by simpa using hh
    exact ⟨[t], halt_emits t s hh', by simp [ht]⟩

theorem IssueLike.setRule (s : State) (ri : RuleInfo) (hst : ri.state = .incomplete) : IssueLike s (s.setRule ri) := by
  refine ⟨⟨[], by simp [Emits, State.setRule], by simp⟩, ?_⟩
  intro h k ri' hl
  rw [setRule_lookup] at hl
  by_cases e : k = ri.key
  · simp only [e, if_true, Option.some.injEq] at hl
    subst hl; rw [hst]; simp
  · simp only [e, if_false] at hl
    exact h k ri' hl

theorem IssueLike.getRuleInfoForKey (k : Key) (s : State) : IssueLike s (getRuleInfoForKey k s) := by
  unfold EngineImpl.getRuleInfoForKey
  split
  · exact IssueLike.refl s
  · have e1 := IssueLike.emit (.L k) rfl s
    dsimp only
    split
    · split
      · exact (e1.trans (IssueLike.emit (.G k false) rfl _)).trans (IssueLike.setRule _ _ rfl)
      · exact (e1.trans (IssueLike.emit (.G k true) rfl _)).trans (IssueLike.setRule _ _ rfl)
    · exact e1.trans (IssueLike.setRule _ _ rfl)

theorem IssueLike.addTaskInputRequest (task key inputID : Nat) (oo su : Bool) (s : State) :
    IssueLike s (addTaskInputRequest task key inputID oo su s) := by
  unfold EngineImpl.addTaskInputRequest
  split
  · exact IssueLike.halt _ rfl s
  · exact (IssueLike.getRuleInfoForKey key s).trans (IssueLike.of_eq rfl rfl)

theorem IssueLike.issue (task : Key) : ∀ (l : List Req) (s : State), IssueLike s (issue task l s)
  | [], s => IssueLike.refl s
  | q :: rest, s => by
    rw [EngineImpl.issue]
    refine IssueLike.trans ?_ (IssueLike.issue task rest _)
    refine (IssueLike.of_eq (s := s) (s' := s.modTask task (fun t => { t with issuedReqs := t.issuedReqs ++ [q] })) rfl rfl).trans ?_
    split
    · unfold taskNeedsInput
      split
      · exact (IssueLike.emit (.ER 2) rfl _).trans (IssueLike.of_eq rfl rfl)
      · exact IssueLike.addTaskInputRequest _ _ _ _ _ _
    · split
      · unfold taskNeedsSingleUseInput
        split
        · exact (IssueLike.emit (.ER 2) rfl _).trans (IssueLike.of_eq rfl rfl)
        · exact IssueLike.addTaskInputRequest _ _ _ _ _ _
      · exact IssueLike.addTaskInputRequest _ _ _ _ _ _

/-! ## the monitor over registration-like tokens -/

/-- what registration-like tokens leave alone in the monitor -/
structure MSame (ms ms' : MSt) : Prop where
  pend : ms'.pend = none
  task : ms'.m.task = ms.m.task
  status : ms'.m.status = ms.m.status
  mem : ms'.m.mem = ms.m.mem
  reg : ∀ k, ms.m.registered k = true → ms'.m.sigAt k = ms.m.sigAt k ∧ ms'.m.registered k = true

theorem tstep_regLike {P : Program} {ms ms' : MSt} {t : Tok} (hp : ms.pend = none) (ht : Tok.isRegLike t = true)
    (h : tstep P ms t = some ms') : MSame ms ms' := by
  obtain ⟨m, pend⟩ := ms
  simp only at hp; subst hp
  cases t <;> simp only [Tok.isRegLike, Bool.false_eq_true] at ht
  case L k =>
    simp only [tstep, Tok.isS2, Tok.toEvent?, step] at h
    split at h
    · simp only [Option.map_some, Option.some.injEq] at h
      subst h
      rename_i hreg
      refine ⟨rfl, rfl, rfl, rfl, ?_⟩
      intro k' hk'
      have hk'' : m.registered k' = true := hk'
      have hne : k' ≠ k := by intro e; subst e; simp [hk''] at hreg
      simp [upd, hne, hk'']
    · simp at h
  case G k f =>
    simp only [tstep, Tok.isS2, Tok.toEvent?, step] at h
    split at h
    · simp only [Option.map_some, Option.some.injEq] at h
      subst h
      exact ⟨rfl, rfl, rfl, rfl, fun _ x => ⟨rfl, x⟩⟩
    · simp at h
  case X =>
    simp only [tstep, Tok.isS2, Tok.toEvent?, step, Option.map_some, Option.some.injEq] at h
    subst h
    exact ⟨rfl, rfl, rfl, rfl, fun _ x => ⟨rfl, x⟩⟩
  case ER c =>
    simp only [tstep, Tok.isS2, Tok.toEvent?, step, Option.map_some, Option.some.injEq] at h
    subst h
    exact ⟨rfl, rfl, rfl, rfl, fun _ x => ⟨rfl, x⟩⟩
  case BAD w =>
    simp [tstep, Tok.isS2, Tok.toEvent?] at h

theorem trun_regLike {P : Program} : ∀ (toks : List Tok) (ms ms' : MSt), ms.pend = none →
    (∀ t ∈ toks, Tok.isRegLike t = true) → trun P ms toks = some ms' → MSame ms ms'
  | [], ms, ms', hp, _, h => by
    simp only [trun, Option.some.injEq] at h; subst h
    exact ⟨hp, rfl, rfl, rfl, fun _ x => ⟨rfl, x⟩⟩
  | t :: rest, ms, ms', hp, ht, h => by
    simp only [trun] at h
    cases hts : tstep P ms t with
    | none => rw [hts] at h; simp at h
    | some ms1 =>
      rw [hts] at h; simp only [Option.bind_some] at h
      have a := tstep_regLike hp (ht t (by simp)) hts
      have b := trun_regLike rest ms1 ms' a.pend (fun x hx => ht x (by simp [hx])) h
      exact ⟨b.pend, b.task.trans a.task, b.status.trans a.status, b.mem.trans a.mem,
        fun k hk => ⟨(b.reg k (a.reg k hk).2).1.trans (a.reg k hk).1, (b.reg k (a.reg k hk).2).2⟩⟩


/-! ## `finishedInputStep` -/

theorem Emits.unique {s s' : State} {a b : List Tok} (ha : Emits s a s') (hb : Emits s b s') : a = b := by
  unfold Emits at ha hb
  rw [ha] at hb
  exact List.reverse_inj.1 (List.append_cancel_right hb)

theorem haltMono_decrement (a : Key) : HaltMono (decrementTaskWaitCount a) :=
  haltMono_of (fun hR => rs_decrementTaskWaitCount hR a)

/-- the value case of `finishedInputStep`, with the client's computation made explicit -/
theorem provideStep_sim (hissue : Todo_issue) (hend : Todo_endIssue) {rules : List RuleSpec} (hok : RulesOk rules)
    {s : State} {m : Engine.St} {a : Key} {t : TaskInfo} {q : Req}
    (hr : Rel rules s ⟨m, none⟩ { fin := [reqOf a q] }) (hh : s.halted = false) (hl : s.taskInfos.lookup a = some t)
    (hwait : (s.rule a).state = .inProgressWaiting) (hq : q ∈ t.issuedReqs) (hk : q.kind ≠ 2)
    (hund : delivered (m.task a).seq q = false) (hnm : NoMid s)
    (v : Val) (hv : v = (s.rule q.key).result.value)
    (t' : TaskInfo) (ht' : t' = { t with recv := insertRecv q.id (maskVal q v) t.recv })
    (fresh : List Req) (hfresh : fresh = newReqs (specOf rules a) t') :
    Sim rules s ⟨m, none⟩ (decrementTaskWaitCount a (issue a fresh (emit (.PV a q.id q.key v fresh) (s.setTask t')))) {}
      (fun _ => NoMid (decrementTaskWaitCount a (issue a fresh (emit (.PV a q.id q.key v fresh) (s.setTask t'))))) := by
  intro hfin
  have hta := hr.taskOk a t hl
  have hra : (reqOf a q).taskInfo = some a := rfl
  -- the monitor's `provide`
  obtain ⟨tk', htk'⟩ : ∃ tk' : Task, tk' = { m.task a with issued := (m.task a).issued ++ fresh, seq := (q, v) :: (m.task a).seq } :=
    ⟨_, rfl⟩
  have hrelA := hr.provide hok hl hq rfl hk hwait t' ht' fresh hfresh tk' htk'
  have hstep := step_provide hok hr hl hq rfl hk hund hwait hv t' ht' fresh hfresh tk' htk'
  have htst : tstep (program rules) ⟨m, none⟩ (.PV a q.id q.key v fresh) = some ⟨stepM m a tk', none⟩ :=
    tstep_ev (by rfl) (by rfl) hstep
  obtain ⟨toks1, ms2, hE1, hrun1, hrelB, hms2⟩ := Rel.emit_list [.PV a q.id q.key v fresh] (s.setTask t') ⟨m, none⟩
    ⟨stepM m a tk', none⟩ hh (by intro x hx; simp at hx; subst hx; rfl) (by simp [trun, htst]) hrelA
  simp only [emitAll_cons, emitAll_nil] at hE1 hrelB
  -- what we know of the monitor after `PV` (and a possible `X`)
  have hpend2 : ms2.pend = none := by rcases hms2 with e | e <;> rw [e] <;> rfl
  have htask2 : ms2.m.task a = tk' := by
    rcases hms2 with e | e <;> rw [e] <;> exact upd_same _ _ _
  have hstat2 : ms2.m.status = m.status := by rcases hms2 with e | e <;> rw [e] <;> rfl
  have hmem2 : ms2.m.mem = m.mem := by rcases hms2 with e | e <;> rw [e] <;> rfl
  have hsig2 : ms2.m.sigAt = m.sigAt := by rcases hms2 with e | e <;> rw [e] <;> rfl
  have hreg2 : ms2.m.registered = m.registered := by rcases hms2 with e | e <;> rw [e] <;> rfl
  have htgt2 : ms2.m.target = m.target := by rcases hms2 with e | e <;> rw [e] <;> rfl
  -- `DslTask::issue`
  generalize hsB : emit (.PV a q.id q.key v fresh) (s.setTask t') = sB at *
  have hsBsame : SameEngine (s.setTask t') sB := by rw [← hsB]; exact emit_same _ _
  have hhB : sB.halted = false := by rw [← hsB, emit_halted_eq]; exact hh
  have hruleB : ∀ k, sB.rule k = s.rule k := fun k => rule_same hsBsame k
  have hlB : sB.taskInfos.lookup a = some t' := by
    rw [hsBsame.taskInfos, setTask_lookup]; simp [ht', hta.forRule]
  have hhC : (issue a fresh sB).halted = false := (haltMono_decrement a).of_result hfin
  have hnotready : a ∉ sB.readyTaskInfos := by
    intro hin
    obtain ⟨t2, h1, _, h3⟩ := hrelB.readyOk a hin
    rw [hlB] at h1; cases h1
    have hw := (hrelB.taskOk a t' hlB).waitCount
    have h1 : (ofTask a ([reqOf a q] : List TaskInputRequest)).length = 1 := by simp [ofTask, reqOf]
    have h2 : (ofTask a ({ dec := [reqOf a q], issuing := some (a, fresh) } : Hand).dec).length = 1 := h1
    omega
  have hsim := hissue rules hok sB ms2 { dec := [reqOf a q] } a fresh rfl hrelB hpend2 hhB (by rw [hruleB]; exact hwait)
    ⟨t', hlB, fun x hx => by rw [hfresh] at hx; exact newReqs_fresh hx,
      fun x hx => hta.issued_allReqs x (by rw [ht'] at hx; exact hx)⟩
    (by rw [hfresh]; exact newReqs_nodup _ _) (fun x hx => by rw [hfresh] at hx; exact newReqs_subset hx) hnotready
  obtain ⟨toks2, ms3, hE2, hrun2, hrelC, hpend3, hregBC, htgt3, _⟩ := hsim hhC
  have hlike := IssueLike.issue a fresh sB
  generalize hsC : issue a fresh sB = sC at *
  obtain ⟨toks2', hE2', hregLike⟩ := hlike.toks
  have := Emits.unique hE2' hE2; subst this
  have hsame := trun_regLike toks2' ms2 ms3 hpend2 hregLike hrun2
  -- the callback returns
  have hregA : m.registered a = true := by
    have h1 : (s.taskInfos.lookup a).isSome = true := by rw [hl]; rfl
    have := hr.task_registered h1
    rw [hr.reg a]; exact this
  have hprior0 : (m.task a).priorSeen = priorDue m a := by
    rcases (hta.waiting hwait).1 with h1 | h1
    · exact h1
    · cases h1
  have hprior3 : (ms3.m.task a).priorSeen = priorDue ms3.m a := by
    rw [hsame.task, htask2, htk']
    show (m.task a).priorSeen = _
    rw [hprior0]
    unfold priorDue
    rw [hsame.mem, hmem2, (hsame.reg a (by rw [hreg2]; exact hregA)).1, hsig2]
  have hrelC' := hend rules sC ms3 { dec := [reqOf a q] } a rfl hrelC (fun _ _ _ => hprior3)
  -- `decrementTaskWaitCount`
  obtain ⟨m3, p3⟩ := ms3
  simp only at hpend3; subst hpend3
  have hstat3 : m3.status a = .running := by
    have h1 : m3.status = ms2.m.status := hsame.status
    rw [h1, hstat2]
    have := hr.status a; simp only at this; rw [this]; exact statusOf_waiting hwait
  have hstatC : statusOf sC none a = .running := by
    have := hrelC'.status a; simp only at this; rw [← this]; exact hstat3
  have hwaitC : (sC.rule a).state = .inProgressWaiting := waiting_of_statusOf hstatC
  obtain ⟨tC, hlC⟩ : ∃ tC, sC.taskInfos.lookup a = some tC := by
    have := hrelC'.taskKeys a
    simp only at this
    rw [hstatC] at this
    exact Option.isSome_iff_exists.1 (by rw [this]; rfl)
  obtain ⟨hrelD, htrD, _, hriD⟩ := hrelC'.decrement hra hlC hwaitC
  refine ⟨toks1 ++ toks2', ⟨m3, none⟩, ?_, trun_append_some hrun1 hrun2, hrelD, rfl, ?_, ?_, ?_⟩
  · have h1 : Emits s toks1 sB := by unfold Emits at hE1 ⊢; rw [hE1]; rfl
    have h2 : Emits sC [] (decrementTaskWaitCount a sC) := by unfold Emits; rw [htrD]; rfl
    simpa using (h1.trans hE2).trans h2
  · intro k hk
    have h1 : Registered sB k := by
      unfold Registered at *; rw [hsBsame.ruleInfos]; exact hk
    have h2 := hregBC k h1
    unfold Registered at *; rw [hriD]; exact h2
  · show m3.target = m.target
    have : m3.target = ms2.m.target := htgt3
    rw [this, htgt2]
  · have h1 : NoMid sB := by unfold NoMid at *; rw [hsBsame.ruleInfos]; exact hnm
    have h2 := hlike.noMid h1
    unfold NoMid at *; rw [hriD]; exact h2

/-- **`finishedInputStep` refines the monitor** (given `DslTask::issue` and the end of the callback) -/
theorem finishedInputStep_sim (hissue : Todo_issue) (hend : Todo_endIssue) : Todo_finishedInputStep := by
  intro rules hok s ms r a hr hp hh hra hnm
  obtain ⟨m, pend⟩ := ms
  simp only at hp; subst hp
  obtain ⟨t, hl, hwait, q, hq, hrq, hund⟩ := hr.finReq hra
  have hta := hr.taskOk a t hl
  by_cases hoo : r.orderOnly = true
  · -- a must-follow request: nothing is delivered
    have e : finishedInputStep a r s = decrementTaskWaitCount a s := by simp [finishedInputStep, hoo]
    rw [e]
    intro _
    have h1 := hr.moveOrderOnly hra hoo
    obtain ⟨h2, htr, _, hri⟩ := h1.decrement hra hl hwait
    refine ⟨[], ⟨m, none⟩, by simp [Emits, htr], rfl, h2, rfl, ?_, rfl, ?_⟩
    · intro k hk; unfold Registered at *; rw [hri]; exact hk
    · unfold NoMid at *; rw [hri]; exact hnm
  · have hoo' : r.orderOnly = false := by simpa using hoo
    have hk : q.kind ≠ 2 := by
      intro e; rw [hrq] at hoo'; simp [reqOf, e] at hoo'
    subst hrq
    have e : finishedInputStep a (reqOf a q) s =
        decrementTaskWaitCount a (issue a (newReqs (specOf rules a) { t with recv := insertRecv q.id (maskVal q (s.rule q.key).result.value) t.recv })
          (emit (.PV a q.id q.key (s.rule q.key).result.value
              (newReqs (specOf rules a) { t with recv := insertRecv q.id (maskVal q (s.rule q.key).result.value) t.recv }))
            (s.setTask { t with recv := insertRecv q.id (maskVal q (s.rule q.key).result.value) t.recv }))) := by
      unfold finishedInputStep
      simp only [hoo', Bool.false_eq_true, if_false]
      rw [taskProvideValue_eq hok _ hta hl hq hk, hr.rules_eq]
      rfl
    rw [e]
    exact provideStep_sim hissue hend hok hr hh hl hwait hq hk (hund hk) hnm _ rfl _ rfl _ rfl


/-! ## `finishedInputsLoop` -/

/-- `pop_back` of `finishedInputRequests`: the last request moves into the hand -/
theorem Rel.popFin {rules : List RuleSpec} {s : State} {ms : MSt} {l : List TaskInputRequest} {r : TaskInputRequest}
    (hr : Rel rules s ms {}) (hq : s.finishedInputRequests = l ++ [r]) :
    Rel rules { s with finishedInputRequests := l } ms { fin := [r] } := by
  have hproc : List.Perm (processed { s with finishedInputRequests := l } { fin := [r] }) (processed s {}) := by
    unfold processed
    rw [hq]
    show List.Perm ([r] ++ requestedByAll s ++ l) ([] ++ requestedByAll s ++ (l ++ [r]))
    rw [List.nil_append, ← List.append_assoc, List.append_assoc [r]]
    exact List.perm_append_comm
  have hunp : unprocessed { s with finishedInputRequests := l } { fin := [r] } = unprocessed s {} := rfl
  have hout : List.Perm (outstanding { s with finishedInputRequests := l } { fin := [r] }) (outstanding s {}) := by
    unfold outstanding
    rw [hunp]
    exact List.Perm.append_left _ hproc
  exact
    { toBase := { hr.toBase with },
      active := hr.active, started := hr.started, notReturned := hr.notReturned, epochPos := hr.epochPos,
      cancelled := hr.cancelled, errCancelled := hr.errCancelled, noCycle := hr.noCycle, targetReg := hr.targetReg,
      status := hr.status, pendOk := hr.pendOk,
      validIdle := hr.validIdle, scanningOk := hr.scanningOk, dntrFresh := hr.dntrFresh, inScanned := hr.inScanned,
      inRan := hr.inRan, ranOk := hr.ranOk, scanOne := hr.scanOne,
      scanOk := fun x hx => (hr.scanOk x hx).frame (fun _ y => y) rfl rfl (fun _ y => y),
      deferredAtRecord := hr.deferredAtRecord, deferredAtTask := hr.deferredAtTask, recordLive := hr.recordLive,
      scanCount := hr.scanCount, recordWaited := hr.recordWaited, midScan := hr.midScan, taskKeys := hr.taskKeys,
      taskNodup := hr.taskNodup,
      taskOk := fun a t hl => (hr.taskOk a t hl).frame rfl rfl hout (by rw [hunp]) rfl rfl rfl (fun _ y => y) rfl,
      reqReg := fun x hx => hr.reqReg x (hout.mem_iff.1 hx),
      reqTask := fun x hx => hr.reqTask x (hout.mem_iff.1 hx),
      dummyOk := hr.dummyOk,
      dummyUnproc := fun x hx => hr.dummyUnproc x (hproc.mem_iff.1 hx),
      pausedAt := hr.pausedAt, requestedAt := hr.requestedAt,
      finDone := fun x hx => hr.finDone x (by
        rw [hq]
        rcases List.mem_append.1 hx with h1 | h1
        · exact List.mem_append_right _ (List.mem_append_right _ h1)
        · exact List.mem_append_right _ (List.mem_append_left _ h1)),
      pendingOk := hr.pendingOk,
      readyOk := hr.readyOk, readyNodup := hr.readyNodup, finTaskOk := hr.finTaskOk, finTaskNodup := hr.finTaskNodup,
      deferredOk := hr.deferredOk, deferredNodup := hr.deferredNodup, computingWhere := hr.computingWhere,
      outstandingCount := hr.outstandingCount }

theorem haltMono_finishedInputsLoop (fuel : Nat) (w : Bool) : HaltMono (fun s => (finishedInputsLoop fuel w s).2) :=
  haltMono_of (fun hR => rs_finishedInputsLoop hR fuel w)

/-- **`finishedInputsLoop` refines the monitor** (given its body) -/
theorem finishedInputsLoop_sim (hstep : Todo_finishedInputStep) : Todo_finishedInputsLoop := by
  intro rules hok fuel
  induction fuel with
  | zero =>
    intro w s ms _ _ _ _ hfin
    simp only [finishedInputsLoop] at hfin
    rw [halt_halted] at hfin; cases hfin
  | succ fuel ih =>
    intro w s ms hr hp hh hnm
    rw [finishedInputsLoop_succ]
    cases hgl : s.finishedInputRequests.getLast? with
    | none =>
      simp only
      have he : s.finishedInputRequests = [] := List.getLast?_eq_none_iff.1 hgl
      intro _
      exact ⟨[], ms, Emits.refl s, rfl, hr, hp, fun _ x => x, rfl, he, hnm⟩
    | some request =>
      simp only
      obtain ⟨l, hl⟩ := List.getLast?_eq_some_iff.1 hgl
      have hdl : s.finishedInputRequests.dropLast = l := by rw [hl]; simp
      rw [hdl]
      cases hti : request.taskInfo with
      | none =>
        simp only
        intro hfin
        rw [halt_halted] at hfin; cases hfin
      | some task =>
        simp only
        intro hfin
        have hr0 := hr.popFin hl
        have hh1 : (finishedInputStep task request { s with finishedInputRequests := l }).halted = false :=
          (haltMono_finishedInputsLoop fuel true).of_result hfin
        obtain ⟨toks1, ms1, hE1, hrun1, hrel1, hp1, hreg1, htgt1, hnm1⟩ :=
          hstep rules hok { s with finishedInputRequests := l } ms request task hr0 hp hh hti hnm hh1
        obtain ⟨toks2, ms2, hE2, hrun2, hrel2, hp2, hreg2, htgt2, hpost⟩ :=
          ih true _ ms1 hrel1 hp1 hh1 hnm1 hfin
        have hE1' : Emits s toks1 (finishedInputStep task request { s with finishedInputRequests := l }) := hE1
        exact ⟨toks1 ++ toks2, ms2, hE1'.trans hE2, trun_append_some hrun1 hrun2, hrel2, hp2,
          fun k hk => hreg2 k (hreg1 k hk), htgt2.trans htgt1, hpost⟩

/-- section C of `Todo.lean` from the two statements about `DslTask::issue` -/
theorem finishedInputs_of_issue (hissue : Todo_issue) (hend : Todo_endIssue) :
    Todo_finishedInputStep ∧ Todo_finishedInputsLoop :=
  ⟨finishedInputStep_sim hissue hend, finishedInputsLoop_sim (finishedInputStep_sim hissue hend)⟩


/-! ## the loop-level facts `Aux` (`Spec.lean`) through `finishedInputStep` / `finishedInputsLoop`

Proved on the ENGINE alone: besides `Aux` itself only `TasksKeyed` (every task record sits under its own key:
`TaskOk.forRule`) is needed, because `decrementTaskWaitCount` halts on a zero count and otherwise queues the task
exactly when its count reaches 0.  So no statement about `DslTask::issue` is used (`IssueAux` below is only there
because the callers' statement mentions it). -/

/-- every task record sits under the key of its rule -/
def TasksKeyed (s : State) : Prop := ∀ b t, s.taskInfos.lookup b = some t → t.forRuleInfo = b

theorem Rel.tasksKeyed {rules : List RuleSpec} {s : State} {ms : MSt} {h : Hand} (hr : Rel rules s ms h) : TasksKeyed s :=
  fun b t hl => (hr.taskOk b t hl).forRule

theorem TasksKeyed.task_for {s : State} (hk : TasksKeyed s) (a : Key) : (s.task a).forRuleInfo = a := by
  unfold State.task
  cases hl : s.taskInfos.lookup a with
  | none => rfl
  | some t => exact hk a t hl

/-- what the functions called for the task of rule `a` do to the parts of the engine `Aux` reads: only the record of
`a` changes, the ready queue and the epoch stay, rules are only added (`Incomplete`), input requests only appended -/
structure Grow (a : Key) (s s' : State) : Prop where
  keyed : TasksKeyed s'
  ready : s'.readyTaskInfos = s.readyTaskInfos
  epoch : s'.currentEpoch = s.currentEpoch
  taskOther : ∀ b, b ≠ a → s'.taskInfos.lookup b = s.taskInfos.lookup b
  rulesOld : ∀ k ri, s.ruleInfos.lookup k = some ri → s'.ruleInfos.lookup k = some ri
  rulesNew : ∀ k ri, s'.ruleInfos.lookup k = some ri → s.ruleInfos.lookup k = some ri ∨ ri.state = .incomplete
  inputs : ∀ r ∈ s.inputRequests, r ∈ s'.inputRequests

def GrowC (a : Key) (s s' : State) : Prop := TasksKeyed s → Grow a s s'

theorem GrowC.refl (a : Key) (s : State) : GrowC a s s :=
  fun hk => ⟨hk, rfl, rfl, fun _ _ => rfl, fun _ _ x => x, fun _ _ x => Or.inl x, fun _ x => x⟩

theorem GrowC.trans {a : Key} {s1 s2 s3 : State} (x : GrowC a s1 s2) (y : GrowC a s2 s3) : GrowC a s1 s3 := by
  intro hk
  have g1 := x hk
  have g2 := y g1.keyed
  refine ⟨g2.keyed, g2.ready.trans g1.ready, g2.epoch.trans g1.epoch, fun b hb => (g2.taskOther b hb).trans (g1.taskOther b hb),
    fun k ri h => g2.rulesOld k ri (g1.rulesOld k ri h), ?_, fun r hr => g2.inputs r (g1.inputs r hr)⟩
  intro k ri h
  rcases g2.rulesNew k ri h with h1 | h1
  · exact g1.rulesNew k ri h1
  · exact Or.inr h1

theorem GrowC.of_fields (a : Key) {s s' : State} (ht : s'.taskInfos = s.taskInfos) (hr : s'.ruleInfos = s.ruleInfos)
    (hrd : s'.readyTaskInfos = s.readyTaskInfos) (he : s'.currentEpoch = s.currentEpoch)
    (hi : ∀ r ∈ s.inputRequests, r ∈ s'.inputRequests) : GrowC a s s' := by
  intro hk
  refine ⟨?_, hrd, he, fun _ _ => by rw [ht], fun k ri h => by rw [hr]; exact h, fun k ri h => Or.inl (by rw [← hr]; exact h), hi⟩
  intro b t hl; rw [ht] at hl; exact hk b t hl

theorem GrowC.of_same (a : Key) {s s' : State} (h : SameEngine s s') : GrowC a s s' :=
  GrowC.of_fields a h.taskInfos h.ruleInfos h.readyTaskInfos h.currentEpoch (fun r hr => by rw [h.inputRequests]; exact hr)

theorem GrowC.setTask (a : Key) (s : State) (t' : TaskInfo) (hfor : t'.forRuleInfo = a) : GrowC a s (s.setTask t') := by
  intro hk
  refine ⟨?_, rfl, rfl, ?_, fun _ _ x => x, fun _ _ x => Or.inl x, fun _ x => x⟩
  · intro b t hl
    rw [setTask_lookup, hfor] at hl
    by_cases e : b = a
    · simp only [e, if_true, Option.some.injEq] at hl
      rw [← hl, hfor, e]
    · simp only [e, if_false] at hl
      exact hk b t hl
  · intro b hb
    rw [setTask_lookup, hfor]; simp [hb]

theorem GrowC.modTask (a : Key) (s : State) (f : TaskInfo → TaskInfo) (hf : ∀ t, (f t).forRuleInfo = t.forRuleInfo) :
    GrowC a s (s.modTask a f) := by
  intro hk
  exact GrowC.setTask a s (f (s.task a)) (by rw [hf, hk.task_for]) hk

theorem GrowC.setRuleFresh (a : Key) (s : State) (ri : RuleInfo) (hl : s.ruleInfos.lookup ri.key = none)
    (hst : ri.state = .incomplete) : GrowC a s (s.setRule ri) := by
  intro hk
  refine ⟨hk, rfl, rfl, fun _ _ => rfl, ?_, ?_, fun _ x => x⟩
  · intro k ri0 h
    rw [setRule_lookup]
    by_cases e : k = ri.key
    · rw [e, hl] at h; cases h
    · simp [e, h]
  · intro k ri0 h
    rw [setRule_lookup] at h
    by_cases e : k = ri.key
    · simp only [e, if_true, Option.some.injEq] at h
      right; rw [← h]; exact hst
    · simp only [e, if_false] at h
      exact Or.inl h

theorem GrowC.getRuleInfoForKey (a k : Key) (s : State) : GrowC a s (getRuleInfoForKey k s) := by
  unfold EngineImpl.getRuleInfoForKey
  cases hl : s.ruleInfos.lookup k with
  | some _ => exact GrowC.refl a s
  | none =>
    dsimp only
    have e1 := GrowC.of_same a (emit_same (.L k) s)
    split
    · split
      · exact (e1.trans (GrowC.of_same a (emit_same (.G k false) _))).trans
          (GrowC.setRuleFresh a _ _ (by simp [hl]) rfl)
      · exact (e1.trans (GrowC.of_same a (emit_same (.G k true) _))).trans
          (GrowC.setRuleFresh a _ _ (by simp [hl]) rfl)
    · exact e1.trans (GrowC.setRuleFresh a _ _ (by simp [hl]) rfl)

theorem GrowC.addTaskInputRequest (a key inputID : Nat) (oo su : Bool) (s : State) :
    GrowC a s (addTaskInputRequest a key inputID oo su s) := by
  unfold EngineImpl.addTaskInputRequest
  split
  · exact GrowC.of_same a (halt_same _ s)
  · refine (GrowC.getRuleInfoForKey a key s).trans ?_
    refine GrowC.trans (s2 := { EngineImpl.getRuleInfoForKey key s with inputRequests := (EngineImpl.getRuleInfoForKey key s).inputRequests ++
      [{ taskInfo := some a, inputID := inputID, inputRuleInfo := key, orderOnly := oo, forcePriorValue := false, singleUse := su }] })
      (GrowC.of_fields a rfl rfl rfl rfl (fun r hr => List.mem_append_left _ hr)) ?_
    exact GrowC.modTask a _ _ (fun _ => rfl)

theorem GrowC.issue (a : Key) : ∀ (l : List Req) (s : State), GrowC a s (issue a l s)
  | [], s => GrowC.refl a s
  | q :: rest, s => by
    rw [EngineImpl.issue]
    refine GrowC.trans ?_ (GrowC.issue a rest _)
    refine (GrowC.modTask a s (fun t => { t with issuedReqs := t.issuedReqs ++ [q] }) (fun _ => rfl)).trans ?_
    split
    · unfold taskNeedsInput
      split
      · exact (GrowC.of_same a (emit_same (.ER 2) _)).trans (GrowC.of_fields a rfl rfl rfl rfl (fun _ x => x))
      · exact GrowC.addTaskInputRequest _ _ _ _ _ _
    · split
      · unfold taskNeedsSingleUseInput
        split
        · exact (GrowC.of_same a (emit_same (.ER 2) _)).trans (GrowC.of_fields a rfl rfl rfl rfl (fun _ x => x))
        · exact GrowC.addTaskInputRequest _ _ _ _ _ _
      · exact GrowC.addTaskInputRequest _ _ _ _ _ _

theorem GrowC.taskProvideValue (a : Key) (id : Nat) (key : Key) (v : Val) (s : State) :
    GrowC a s (taskProvideValue a id key v s) := by
  intro hk
  unfold EngineImpl.taskProvideValue
  dsimp only
  have g1 := GrowC.setTask a s { s.task a with recv := insertRecv id (if isSingleUse (s.task a).issuedReqs id key then 0 else v) (s.task a).recv }
    (hk.task_for a)
  exact ((g1.trans (GrowC.of_same a (emit_same _ _))).trans (GrowC.issue a _ _)) hk

/-- `decrementTaskWaitCount` when it does not halt: the task is queued exactly when its count reaches 0 -/
theorem decrement_grow {a : Key} {s : State} (hk : TasksKeyed s) (hfin : (decrementTaskWaitCount a s).halted = false) :
    TasksKeyed (decrementTaskWaitCount a s) ∧
    (∀ b ∈ s.readyTaskInfos, b ∈ (decrementTaskWaitCount a s).readyTaskInfos) ∧
    (∀ b, b ≠ a → (decrementTaskWaitCount a s).taskInfos.lookup b = s.taskInfos.lookup b) ∧
    (∀ t', (decrementTaskWaitCount a s).taskInfos.lookup a = some t' → t'.waitCount = 0 →
      a ∈ (decrementTaskWaitCount a s).readyTaskInfos) ∧
    (decrementTaskWaitCount a s).ruleInfos = s.ruleInfos ∧ (decrementTaskWaitCount a s).inputRequests = s.inputRequests ∧
    (decrementTaskWaitCount a s).currentEpoch = s.currentEpoch := by
  unfold decrementTaskWaitCount at hfin ⊢
  by_cases h0 : ((s.task a).waitCount == 0) = true
  · simp only [h0, if_true] at hfin
    rw [halt_halted] at hfin; cases hfin
  · simp only [h0, Bool.false_eq_true, if_false]
    have hfor : ({ s.task a with waitCount := (s.task a).waitCount - 1 } : TaskInfo).forRuleInfo = a := hk.task_for a
    have g := GrowC.setTask a s { s.task a with waitCount := (s.task a).waitCount - 1 } hfor hk
    have e : s.modTask a (fun t => { t with waitCount := t.waitCount - 1 }) =
        s.setTask { s.task a with waitCount := (s.task a).waitCount - 1 } := rfl
    rw [e]
    have htask : (s.setTask { s.task a with waitCount := (s.task a).waitCount - 1 }).task a =
        { s.task a with waitCount := (s.task a).waitCount - 1 } := by
      rw [setTask_task, hfor]; simp
    have hlook : (s.setTask { s.task a with waitCount := (s.task a).waitCount - 1 }).taskInfos.lookup a =
        some { s.task a with waitCount := (s.task a).waitCount - 1 } := by
      rw [setTask_lookup, hfor]; simp
    rw [htask]
    by_cases h1 : (((s.task a).waitCount - 1) == 0) = true
    · simp only [h1, if_true]
      refine ⟨g.keyed, fun b hb => List.mem_append_left _ hb, g.taskOther, fun _ _ _ => by simp, rfl, rfl, rfl⟩
    · simp only [h1, Bool.false_eq_true, if_false]
      refine ⟨g.keyed, fun b hb => hb, g.taskOther, ?_, rfl, rfl, rfl⟩
      intro t' hl hz
      rw [hlook] at hl
      simp only [Option.some.injEq] at hl
      rw [← hl] at hz
      exact absurd (by simpa using hz) h1

theorem statusOf_grow {s s' : State} {key : Key} (hold : ∀ k ri, s.ruleInfos.lookup k = some ri → s'.ruleInfos.lookup k = some ri)
    (he : s'.currentEpoch = s.currentEpoch) (h : statusOf s none key ≠ .idle) : statusOf s' none key ≠ .idle := by
  cases hl : s.ruleInfos.lookup key with
  | none => exfalso; apply h; unfold statusOf; rw [hl]
  | some ri =>
    have e : statusOf s' none key = statusOf s none key := by
      unfold statusOf; rw [hl, hold key ri hl, he]
    rw [e]; exact h

/-- **`Aux` through the body of `finishedInputsLoop`** (engine-level core) -/
theorem finishedInputStep_aux_core {key a : Key} {r : TaskInputRequest} {s : State} (hk : TasksKeyed s)
    (hfin : (finishedInputStep a r s).halted = false) (haux : Aux key s { fin := [r] }) :
    Aux key (finishedInputStep a r s) {} ∧ TasksKeyed (finishedInputStep a r s) := by
  unfold finishedInputStep at hfin ⊢
  generalize hsC : (if r.orderOnly = true then s
    else taskProvideValue a r.inputID r.inputRuleInfo (s.rule r.inputRuleInfo).result.value s) = sC at *
  have g : Grow a s sC := by
    rw [← hsC]
    split
    · exact GrowC.refl a s hk
    · exact GrowC.taskProvideValue a _ _ _ s hk
  obtain ⟨d1, d2, d3, d4, d5, d6, d7⟩ := decrement_grow g.keyed hfin
  refine ⟨⟨?_, ?_⟩, d1⟩
  · intro b tb hl hw hz
    left
    by_cases e : b = a
    · subst e; exact d4 tb hl hz
    · rw [d3 b e, g.taskOther b e] at hl
      have hw0 : (s.rule b).state = .inProgressWaiting := by
        unfold State.rule at hw ⊢
        rw [d5] at hw
        cases hlr : sC.ruleInfos.lookup b with
        | none => rw [hlr] at hw; cases hw
        | some ri =>
          rw [hlr] at hw
          simp only [Option.getD_some] at hw
          rcases g.rulesNew b ri hlr with h1 | h1
          · rw [h1]; exact hw
          · rw [h1] at hw; cases hw
      rcases haux.readyZero b tb hl hw0 hz with h1 | h1
      · apply d2; rw [g.ready]; exact h1
      · cases h1
  · rcases haux.rootSeen with h1 | ⟨x, hx, hxk⟩
    · left
      exact statusOf_grow (fun k ri h => by rw [d5]; exact g.rulesOld k ri h) (d7.trans g.epoch) h1
    · right
      refine ⟨x, ?_, hxk⟩
      have hx' : x ∈ s.inputRequests := by simpa using hx
      show x ∈ [] ++ _
      rw [List.nil_append, d6]
      exact g.inputs x hx'

/-- the statement about `DslTask::issue` the callers carry (NOT used by the two theorems below) -/
def IssueAux : Prop :=
  ∀ rules, RulesOk rules → ∀ (s : State) (ms : MSt) (h : Hand) (a : Key) (l : List Req),
    h.issuing = none → Rel rules s ms { h with issuing := some (a, l) } → ms.pend = none → s.halted = false →
    (s.rule a).state = .inProgressWaiting →
    (∃ t, s.taskInfos.lookup a = some t ∧ (∀ q ∈ l, q ∉ t.issuedReqs) ∧ (∀ q ∈ t.issuedReqs, q ∈ allReqs (specOf rules a))) →
    l.Nodup → (∀ q ∈ l, q ∈ allReqs (specOf rules a)) → a ∉ s.readyTaskInfos → (issue a l s).halted = false →
    ∀ key, Aux key s { h with issuing := some (a, l) } → Aux key (issue a l s) { h with issuing := some (a, []) }

/-- **`Aux` through the body of `finishedInputsLoop`** -/
theorem finishedInputStep_aux {rules : List RuleSpec} (_hok : RulesOk rules) {key : Key} {s : State} {ms : MSt}
    {r : TaskInputRequest} {a : Key}
    (hr : Rel rules s ms { fin := [r] }) (_hp : ms.pend = none) (_hh : s.halted = false) (_hra : r.taskInfo = some a)
    (_hnm : NoMid s) (hfin : (finishedInputStep a r s).halted = false) (haux : Aux key s { fin := [r] }) :
    Aux key (finishedInputStep a r s) {} :=
  (finishedInputStep_aux_core hr.tasksKeyed hfin haux).1

/-- **`Aux` through `finishedInputsLoop`** (engine-level core) -/
theorem finishedInputsLoop_aux_core {key : Key} : ∀ (fuel : Nat) (w : Bool) (s : State), TasksKeyed s →
    (finishedInputsLoop fuel w s).2.halted = false → Aux key s {} → Aux key (finishedInputsLoop fuel w s).2 {}
  | 0, w, s, _, hfin, _ => by
    simp only [finishedInputsLoop] at hfin
    rw [halt_halted] at hfin; cases hfin
  | fuel + 1, w, s, hk, hfin, haux => by
    rw [finishedInputsLoop_succ] at hfin ⊢
    cases hgl : s.finishedInputRequests.getLast? with
    | none => simp only; exact haux
    | some request =>
      rw [hgl] at hfin
      simp only at hfin ⊢
      cases hti : request.taskInfo with
      | none =>
        rw [hti] at hfin
        simp only at hfin
        rw [halt_halted] at hfin; cases hfin
      | some task =>
        rw [hti] at hfin
        simp only at hfin ⊢
        have hh1 := (haltMono_finishedInputsLoop fuel true).of_result hfin
        have haux0 : Aux key { s with finishedInputRequests := s.finishedInputRequests.dropLast } { fin := [request] } :=
          ⟨haux.readyZero, haux.rootSeen⟩
        obtain ⟨h1, h2⟩ := finishedInputStep_aux_core (key := key) (s := { s with finishedInputRequests := s.finishedInputRequests.dropLast })
          hk hh1 haux0
        exact finishedInputsLoop_aux_core fuel true _ h2 hfin h1

/-- **`Aux` through `finishedInputsLoop`** -/
theorem finishedInputsLoop_aux {rules : List RuleSpec} (_hok : RulesOk rules) {key : Key} {fuel : Nat} {w : Bool} {s : State}
    {ms : MSt} (hr : Rel rules s ms {}) (_hp : ms.pend = none) (_hh : s.halted = false) (_hnm : NoMid s)
    (hfin : (finishedInputsLoop fuel w s).2.halted = false) (_hissue : IssueAux) (haux : Aux key s {}) :
    Aux key (finishedInputsLoop fuel w s).2 {} :=
  finishedInputsLoop_aux_core fuel w s hr.tasksKeyed hfin haux

end LLBuild.Refine
