/-
C07 "cycles are never reported falsely" (including the EMPTY report, F30) — part 2: THE MONITOR STATE AT THE CYCLE EXIT.
When the work loop reports a cycle (`CY ks`, empty list or not) the engine state is `Cyc.Stuck` (Cycle.lean): nothing queued,
nothing computing.  Then, in the monitor state related to it,
* SOME rule is blocked (`someBlocked`): from the branch condition of the cycle exit — a task exists (it is waiting, monitor
  `running`), or a rule is being scanned (`Rel.scanCount`), or the requested key is not complete (it is not idle: `Aux.rootSeen`;
  not done; nothing is computing or between scan verdict and demand);
* EVERY blocked rule waits (monitor's `waitsFor`) for a blocked rule (`blocked_waits`: `Cyc.blocked_has_pred` +
  `Cyc.predGraph_sound`).
`StuckM m` is the conjunction; `CYok P ms toks` says it holds at every `CY` of a token list run from `ms`; `CYB` is its
state-level form (the tokens recorded between two engine states).
-/
import LLBuild.Lemmas.Refine.Sched6CycleClosed

namespace LLBuild.Refine
open LLBuild.Engine LLBuild.Engine.DSL LLBuild.EngineImpl

/-- some rule is blocked, and every blocked rule waits for a blocked rule -/
def StuckM (m : Engine.St) : Prop :=
  (∃ k, Cyc.Blocked m k) ∧ ∀ k, Cyc.Blocked m k → ∃ k', waitsFor m k k' = true ∧ Cyc.Blocked m k'

namespace Cyc

variable {rules : List RuleSpec} {s : State} {ms : MSt}

/-- every blocked rule waits for a blocked rule -/
theorem blocked_waits (hst : Stuck rules s ms) (hmf : NoMFDelivered ms.m) (hrz : ReadyWhenZero s) {pred : Graph}
    (hp : predGraph s = some pred) {k : Key} (hb : Blocked ms.m k) :
    ∃ k', waitsFor ms.m k k' = true ∧ Blocked ms.m k' := by
  have hne := blocked_has_pred hst hrz hp hb
  cases hg : pred.get k with
  | nil => exact absurd hg hne
  | cons y rest =>
    exact ⟨y, predGraph_sound hst hmf hp (x := k) (y := y) (by rw [hg]; exact List.mem_cons_self)⟩

/-- a key whose rule is not complete is not done for the monitor -/
theorem not_done_of_not_complete (hst : Stuck rules s ms) {key : Key} (h : isComplete s (s.rule key) = false) :
    isDone ms.m key = false := by
  unfold isDone
  rw [status_eq hst]
  unfold statusOf
  cases hl : s.ruleInfos.lookup key with
  | none => rfl
  | some ri =>
    rw [rule_of_lookup hl] at h
    simp only [isComplete, Bool.and_eq_false_iff, beq_eq_false_iff_ne, ne_eq] at h
    simp only []
    cases hs : ri.state <;> simp only [] <;> try rfl
    rcases h with h | h
    · exact absurd hs h
    · rw [if_neg h]; rfl

/-- the branch condition of the cycle exit: some rule is blocked -/
theorem someBlocked (hst : Stuck rules s ms) {key : Key} (hroot : ms.m.status key ≠ .idle)
    (hc : (!s.taskInfos.isEmpty || s.numRulesBeingScanned != 0 || !isComplete s (s.rule key)) = true) :
    ∃ k, Blocked ms.m k := by
  simp only [Bool.or_eq_true] at hc
  rcases hc with (h | h) | h
  · -- a task exists: it is waiting
    cases htl : s.taskInfos with
    | nil => rw [htl] at h; cases h
    | cons p rest =>
      refine ⟨p.1, Or.inl (task_running hst ?_)⟩
      rw [htl]
      obtain ⟨k, t⟩ := p
      simp [List.lookup]
  · -- a rule is being scanned
    have hcount := hst.rel.scanCount
    have hne : s.numRulesBeingScanned ≠ 0 := by simpa using h
    rw [hcount] at hne
    have hpos : 0 < (s.ruleInfos.filter (fun p => p.2.isScanning)).length := Nat.pos_of_ne_zero hne
    obtain ⟨p, hp⟩ := List.exists_mem_of_length_pos hpos
    simp only [List.mem_filter] at hp
    obtain ⟨hpm, hsc⟩ := hp
    obtain ⟨k, ri⟩ := p
    have hl : s.ruleInfos.lookup k = some ri := lookup_of_mem_nodup _ k ri hst.rel.rulesNodup hpm
    refine ⟨k, Or.inr (status_scanning_of hst hl ?_)⟩
    simpa [RuleInfo.isScanning] using hsc
  · -- the requested key is not complete
    have hnc : isComplete s (s.rule key) = false := by simpa using h
    exact ⟨key, blocked_of_not_done hst hroot (not_done_of_not_complete hst hnc)⟩

/-- **the monitor state at the cycle exit** -/
theorem stuckM (hst : Stuck rules s ms) (hmf : NoMFDelivered ms.m) (hrz : ReadyWhenZero s) {key : Key} {ks : List Key}
    (hfc : findCycle key s = some ks) (hroot : ms.m.status key ≠ .idle)
    (hc : (!s.taskInfos.isEmpty || s.numRulesBeingScanned != 0 || !isComplete s (s.rule key)) = true) :
    StuckM ms.m := by
  obtain ⟨pred, hp, -⟩ := findCycle_unfold hfc (cycleSearchOk_of_findCycle hfc)
  exact ⟨someBlocked hst hroot hc, fun k hb => blocked_waits hst hmf hrz hp hb⟩

end Cyc

/-! ## `CY` tokens of a token list -/

/-- at every `CY` token of `toks`, run from `ms`, the monitor is stuck -/
def CYok (P : Program) (ms : MSt) (toks : List Tok) : Prop :=
  ∀ pre ks post, toks = pre ++ Tok.CY ks :: post → ∃ msp, trun P ms pre = some msp ∧ StuckM msp.m

theorem NoCYL.not_mem {toks : List Tok} (h : NoCYL toks) {ks : List Key} : Tok.CY ks ∉ toks := by
  intro hm
  have := h _ hm
  cases this

theorem NoCYL.not_split {toks pre post : List Tok} {ks : List Key} (h : NoCYL toks) (e : toks = pre ++ Tok.CY ks :: post) :
    False :=
  h.not_mem (ks := ks) (by rw [e]; simp)

theorem CYok.of_noCY {P : Program} {ms : MSt} {toks : List Tok} (h : NoCYL toks) : CYok P ms toks :=
  fun _ _ _ e => (h.not_split e).elim

theorem CYok.prepend {P : Program} {ms0 ms : MSt} {toks0 toks : List Tok} (hn : NoCYL toks0)
    (hr : trun P ms0 toks0 = some ms) (h : CYok P ms toks) : CYok P ms0 (toks0 ++ toks) := by
  intro pre ks post e
  rcases List.append_eq_append_iff.1 e with ⟨a', e1, e2⟩ | ⟨c', e1, e2⟩
  · obtain ⟨msp, hrun, hst⟩ := h a' ks post e2
    exact ⟨msp, by rw [e1]; exact trun_append_some hr hrun, hst⟩
  · cases c' with
    | nil =>
      simp only [List.append_nil, List.nil_append] at e1 e2
      obtain ⟨msp, hrun, hst⟩ := h [] ks post e2.symm
      simp only [trun, Option.some.injEq] at hrun
      subst hrun
      exact ⟨ms, by rw [← e1]; exact hr, hst⟩
    | cons c cs =>
      simp only [List.cons_append, List.cons.injEq] at e2
      exact (hn.not_split (by rw [e1, ← e2.1])).elim

theorem CYok.append_noCY {P : Program} {ms : MSt} {toks b : List Tok} (h : CYok P ms toks) (hb : NoCYL b) :
    CYok P ms (toks ++ b) := by
  intro pre ks post e
  rcases List.append_eq_append_iff.1 e with ⟨a', _, e2⟩ | ⟨c', e1, e2⟩
  · exact (hb.not_split e2).elim
  · cases c' with
    | nil =>
      simp only [List.nil_append] at e2
      exact (hb.not_split (pre := []) e2.symm).elim
    | cons c cs =>
      simp only [List.cons_append, List.cons.injEq] at e2
      exact h pre ks cs (by rw [e1, ← e2.1])

/-- the cycle exit: the `CY` token first, no other afterwards -/
theorem CYok.head {P : Program} {ms : MSt} {ks : List Key} {rest : List Tok} (hst : StuckM ms.m) (hn : NoCYL rest) :
    CYok P ms (Tok.CY ks :: rest) := by
  intro pre ks' post e
  cases pre with
  | nil => exact ⟨ms, rfl, hst⟩
  | cons t pre' =>
    simp only [List.cons_append, List.cons.injEq] at e
    exact (hn.not_split e.2).elim

/-- the tokens recorded between `s` and `s'`, run from `ms`, find the monitor stuck at every `CY` -/
def CYB (P : Program) (ms : MSt) (s s' : State) : Prop := ∃ toks, Emits s toks s' ∧ CYok P ms toks

theorem CYB.of_noCY {P : Program} {ms : MSt} {s s' : State} (h : NoCYB s s') : CYB P ms s s' := by
  obtain ⟨toks, he, hn⟩ := h
  exact ⟨toks, he, CYok.of_noCY hn⟩

theorem CYB.prepend {P : Program} {ms0 ms : MSt} {s0 s s' : State} {toks0 : List Tok} (he : Emits s0 toks0 s)
    (hn : NoCYB s0 s) (hr : trun P ms0 toks0 = some ms) (h : CYB P ms s s') : CYB P ms0 s0 s' := by
  obtain ⟨toks, he', hc⟩ := h
  exact ⟨toks0 ++ toks, he.trans he', CYok.prepend (hn.toks he) hr hc⟩

theorem CYB.append_noCY {P : Program} {ms : MSt} {s s' s'' : State} (h : CYB P ms s s') (hn : NoCYB s' s'') :
    CYB P ms s s'' := by
  obtain ⟨toks, he, hc⟩ := h
  obtain ⟨b, he', hb⟩ := hn
  exact ⟨toks ++ b, he.trans he', hc.append_noCY hb⟩

/-- whatever list the recorded tokens are -/
theorem CYB.toks {P : Program} {ms : MSt} {s s' : State} (h : CYB P ms s s') {toks : List Tok} (he : Emits s toks s') :
    CYok P ms toks := by
  obtain ⟨a, ea, ha⟩ := h
  rw [Emits.unique he ea]; exact ha

end LLBuild.Refine
