/-
C05 "a cancellation followed by any further engine work ends in a failed result" — part 2: THE WORK LOOP.
`executeLoopA` tests `buildCancelled` only at the top of an iteration and returns `true` only at the end of an iteration that
did no work.  So when it returns `true`:
* at the last loop-top test the flag was down, hence (`CancelInv`, part 1) no `X` had been recorded;
* the last iteration consisted of six item boundaries (`noworkA_all` + the boundary before the wait check) with
  `numOutstandingUnfinishedTasks = 0`, hence (`Rel.outstandingCount`) no parked task: the boundaries completed nothing and
  recorded nothing but (at most one) `X`.
`workLoopA_cancel`: the induction of `workLoopA_final` (AsyncLoop.lean) carrying `CancelInv` next to the loop invariant.
-/
import LLBuild.Lemmas.Refine.Sched5CancelClosed

namespace LLBuild.Refine
open LLBuild.Engine LLBuild.Engine.DSL LLBuild.EngineImpl

/-- `CancelInv` of a state -/
def CGood (s : State) : Prop := CancelInv s.halted s.trace s.buildCancelled

theorem CGood.noX {s : State} (h : CGood s) (hc : s.buildCancelled = false) : Tok.X ∉ s.trace := by
  intro hx
  rw [h hx] at hc
  cases hc

/-- since a state without `X` in its trace, only `X` has been recorded -/
def CTail (s : State) : Prop := ∃ s0 idle, Tok.X ∉ s0.trace ∧ Emits s0 idle s ∧ ∀ t ∈ idle, t = Tok.X

/-- … and no task is parked (so that an item boundary completes nothing) -/
def CIdle (s : State) : Prop := s.pendingDeferred = [] ∧ CTail s

/-- what the work loop guarantees when it returns `true` -/
def CPost (res : Bool × State) : Prop := res.1 = true → CTail res.2

/-! ## item boundaries with no parked task -/

theorem completeKeys_noDeferred : ∀ (ks : List Key) (any : Bool) (s : State), s.pendingDeferred = [] →
    completeKeys ks any s = (any, s)
  | [], _, _, _ => rfl
  | k :: ks, any, s, h => by
    have hk : completeKey k s = (false, s) := by
      unfold completeKey
      rw [h]
      rfl
    rw [completeKeys, hk]
    simp only [Bool.or_false]
    exact completeKeys_noDeferred ks any s h

theorem doCancel_trace (s : State) : (doCancel s).trace = s.trace ∨ (doCancel s).trace = .X :: s.trace := by
  unfold EngineImpl.doCancel
  split
  · exact Or.inl rfl
  · split
    · exact Or.inl rfl
    · exact Or.inr rfl

theorem doCancel_deferred (s : State) : (doCancel s).pendingDeferred = s.pendingDeferred := by
  unfold EngineImpl.doCancel
  split
  · rfl
  · split <;> rfl

theorem CTail.doCancel {s : State} (h : CTail s) : CTail (doCancel s) := by
  obtain ⟨s0, idle, h0, he, hx⟩ := h
  rcases doCancel_trace s with e | e
  · exact ⟨s0, idle, h0, by unfold Emits at he ⊢; rw [e, he], hx⟩
  · refine ⟨s0, idle ++ [.X], h0, ?_, ?_⟩
    · unfold Emits at he ⊢
      rw [e, he]
      simp
    · intro t ht
      rcases List.mem_append.1 ht with h1 | h1
      · exact hx t h1
      · simpa using h1

theorem CIdle.asyncPoint {s : State} (h : CIdle s) (a : Async) : CIdle (asyncPoint a s).2 := by
  cases a with
  | nil => exact h
  | cons it rest =>
    show CIdle (asyncStep it s)
    unfold asyncStep
    rw [completeKeys_noDeferred it.keys false s h.1]
    dsimp only
    split
    · exact ⟨(doCancel_deferred s).trans h.1, h.2.doCancel⟩
    · exact h

theorem CIdle.apN {s : State} (h : CIdle s) : ∀ (n : Nat) (a : Async), CIdle (apN n a s).2
  | 0, _ => h
  | n + 1, a => (CIdle.apN h n a).asyncPoint _

/-- the state at a loop-top test that found the flag down -/
theorem CIdle.start {s : State} (hg : CGood s) (hc : s.buildCancelled = false) (hd : s.pendingDeferred = []) : CIdle s :=
  ⟨hd, s, [], hg.noX hc, Emits.refl s, fun _ h => by cases h⟩

/-! ## the walk -/

theorem CGood.asyncPoint {s : State} (h : CGood s) (a : Async) : CGood (asyncPoint a s).2 :=
  rcA_asyncPoint closedC_cancelInv a s h

theorem CGood.hook {s : State} (h : CGood s) (p : Nat) : CGood (hook p s) := rc_hook closedC_cancelInv p s h

/-- the end of an iteration: next iteration, success (the tail is idle), or a reported cycle (failure) -/
theorem afterWaitA_specC {rules : List RuleSpec} {key : Key} {fuel : Nat}
    (ih : ∀ a s ms, Inv rules key s ms → NoMid s → Aux key s {} → s.halted = false → CGood s →
      (executeLoopA key fuel a s).2.2.halted = false → CPost (pr (executeLoopA key fuel a s)))
    (w : Bool) (a : Async) (s : State) (ms : MSt) (hi : Inv rules key s ms) (hnm : NoMid s) (haux : Aux key s {})
    (hh : s.halted = false) (hg : CGood s) (hq : w = false → CIdle s)
    (hnh : (afterWaitA key fuel w a s).2.2.halted = false) :
    CPost (pr (afterWaitA key fuel w a s)) := by
  unfold afterWaitA at hnh ⊢
  cases w with
  | true =>
    simp only [if_true] at hnh ⊢
    exact ih a s ms hi hnm haux hh hg hnh
  | false =>
    simp only [Bool.false_eq_true, if_false] at hnh ⊢
    have hrc := resolveCycle_noResolve key s hi.rel.noResolve
    by_cases hc : (!s.taskInfos.isEmpty || s.numRulesBeingScanned != 0 || !isComplete s (s.rule key)) = true
    · rw [if_pos hc]
      have h1 : (resolveCycle key s).1 = false := by
        cases hfc : findCycle key s <;> rw [hfc] at hrc <;> simp only [] at hrc <;> rw [hrc]
      rw [h1]
      simp only [Bool.false_eq_true, if_false]
      intro h
      cases h
    · rw [if_neg hc]
      intro _
      exact (hq rfl).2

/-- the end of an iteration from the result of `finishedTasksLoopA`: the item boundary before the wait check, the wait -/
theorem afterTasksA_specC {rules : List RuleSpec} (hok : RulesOk rules) {key : Key} {fuel : Nat}
    (ih : ∀ a s ms, Inv rules key s ms → NoMid s → Aux key s {} → s.halted = false → CGood s →
      (executeLoopA key fuel a s).2.2.halted = false → CPost (pr (executeLoopA key fuel a s)))
    (r : Bool × Bool × Async × State) (hr1 : r.1 = false) (ms : MSt) (hi : Inv rules key r.2.2.2 ms)
    (hnm : NoMid r.2.2.2) (haux : Aux key r.2.2.2 {}) (hh : r.2.2.2.halted = false) (hg : CGood r.2.2.2)
    (hq : r.2.1 = false → r.2.2.2.numOutstandingUnfinishedTasks = 0 → CIdle r.2.2.2)
    (hnh : (afterTasksA key fuel r).2.2.halted = false) :
    CPost (pr (afterTasksA key fuel r)) := by
  unfold afterTasksA at hnh ⊢
  simp only [hr1, Bool.false_eq_true, if_false] at hnh ⊢
  obtain ⟨toks6, ms6, he6, hr6, hi6, her6, hh6, hnm6, haux6, -⟩ := asyncPoint_inv r.2.2.1 hi hh
  have hg6 : CGood (asyncPoint r.2.2.1 r.2.2.2).2 := hg.asyncPoint _
  obtain ⟨f1, f2, f3, f4, f5⟩ := asyncPoint_frame r.2.2.1 r.2.2.2
  by_cases hw : (!r.2.1 && (asyncPoint r.2.2.1 r.2.2.2).2.numOutstandingUnfinishedTasks != 0) = true
  · rw [if_pos hw] at hnh ⊢
    have h7 := afterWaitA_of_result hnh
    have e7 := waitStep_eq h7
    rw [e7] at hnh h7 ⊢
    obtain ⟨toks7, ms7, he7, hr7, hi7, hnm7⟩ :=
      hi6.step (hook_sim rules hok 1 _ ms6 hi6.rel hi6.pend hh6) h7
    exact afterWaitA_specC ih true _ _ ms7 hi7 (hnm7 (hnm6 hnm)) (hook_aux key 1 hi6.rel hi6.pend hh6 (haux6 haux)) h7
      (hg6.hook 1) (fun h => by cases h) hnh
  · rw [if_neg hw] at hnh ⊢
    refine afterWaitA_specC ih _ _ _ ms6 hi6 (hnm6 hnm) (haux6 haux) hh6 hg6 ?_ hnh
    intro hw5
    have hnum : (asyncPoint r.2.2.1 r.2.2.2).2.numOutstandingUnfinishedTasks = 0 := by
      rw [hw5] at hw
      simpa using hw
    exact (hq hw5 (f5.symm.trans hnum)).asyncPoint _

/-- the statement about the asynchronous work loop: premises of `WorkLoopSpecA` + `CancelInv` at entry -/
def WorkLoopSpecC (rules : List RuleSpec) : Prop :=
  ∀ (key : Key) (fuel : Nat) (a : Async) (s : State) (ms : MSt),
    Rel rules s ms {} → NoMid s → ms.pend = none → ms.m.target = some key → Registered s key → s.halted = false →
    (∀ p ∈ ms.m.pending, isDone ms.m p.1 = false) →
    (∀ a q, delivered (ms.m.task a).seq q = true → q.kind ≠ 2) →
    Aux key s {} → CGood s →
    (executeLoopA key fuel a s).2.2.halted = false →
    (executeLoopA key fuel a s).1 = true → CTail (executeLoopA key fuel a s).2.2

/-- **a work loop that returns `true` had recorded no `X` at its last loop-top test, and recorded nothing but `X`
afterwards**, for every schedule of completions and cancellations at item boundaries -/
theorem workLoopA_cancel : ∀ rules, RulesOk rules → WorkLoopSpecC rules := by
  intro rules hok key fuel
  suffices H : ∀ a s ms, Inv rules key s ms → NoMid s → Aux key s {} → s.halted = false → CGood s →
      (executeLoopA key fuel a s).2.2.halted = false → CPost (pr (executeLoopA key fuel a s)) from
    fun a s ms hr hnm hp ht hreg hh hpf hmf haux hg hnh => H a s ms ⟨hr, hp, ht, hreg, hpf, hmf⟩ hnm haux hh hg hnh
  have hS := asyncStepSim
  have hF := asyncStepFrame
  have hA := asyncStepAux
  have hT := asyncStepTerm
  have hC := closedC_cancelInv
  induction fuel with
  | zero =>
    intro a s ms _ _ _ _ _ hnh
    rw [executeLoopA_zero, halt_halted] at hnh; cases hnh
  | succ fuel ih =>
    intro a s ms hi hnm haux hh hg hnh
    rw [executeLoopA_succ] at hnh ⊢
    simp only [hh, Bool.false_eq_true, if_false] at hnh ⊢
    -- the item boundary at the top of the loop
    obtain ⟨toksP, msP, heP, hrP, hiP, -, hhP, hnmP', hauxP', -⟩ := asyncPoint_inv a hi hh
    have hnmP := hnmP' hnm
    have hauxP := hauxP' haux
    have hgP : CGood (asyncPoint a s).2 := hg.asyncPoint a
    generalize asyncPoint a s = p0 at hnh hiP hhP hnmP hauxP hgP ⊢
    obtain ⟨a0, sP⟩ := p0
    simp only [] at hnh hiP hhP hnmP hauxP hgP ⊢
    clear heP hrP hnmP' hauxP' hi hnm haux hh hg s ms a
    -- `hook 0`
    have hh0 : (hook 0 sP).halted = false := by
      by_cases hc : (hook 0 sP).buildCancelled = true
      · rw [if_pos hc] at hnh; exact (haltMono_cancelA a0).of_result hnh
      · rw [if_neg hc] at hnh
        have h5 := afterTasksA_of_result hnh
        have h4 : (stA4 a0 (hook 0 sP)).2.2.halted = false := (haltMono_finTasksA _ _ _).of_result h5
        have h3 : (stA3 a0 (hook 0 sP)).2.2.halted = false := (haltMono_readyA _ _ _).of_result h4
        have h2 : (stA2 a0 (hook 0 sP)).2.2.halted = false := (haltMono_finInputA _ _ _).of_result h3
        have h1 : (stA1 a0 (hook 0 sP)).2.2.halted = false := (haltMono_inputA _ _ _).of_result h2
        exact (haltMono_scanA _ _ _).of_result h1
    obtain ⟨toks0, ms0, he0, hr0, hi0, hnm0'⟩ := hiP.step (hook_sim rules hok 0 sP msP hiP.rel hiP.pend hhP) hh0
    have hnm0 := hnm0' hnmP
    have haux0 : Aux key (hook 0 sP) {} := hook_aux key 0 hiP.rel hiP.pend hhP hauxP
    have hg0 : CGood (hook 0 sP) := hgP.hook 0
    generalize hook 0 sP = s0 at hnh hh0 hi0 hnm0 haux0 hg0 ⊢
    clear he0 hr0 hnm0' hiP hnmP hauxP hhP hgP sP msP
    by_cases hc : s0.buildCancelled = true
    · rw [if_pos hc]
      intro h
      cases h
    · rw [if_neg hc] at hnh ⊢
      have hc' : s0.buildCancelled = false := by simpa using hc
      have h5 := afterTasksA_of_result hnh
      have h4 : (stA4 a0 s0).2.2.halted = false := (haltMono_finTasksA _ _ _).of_result h5
      have h3 : (stA3 a0 s0).2.2.halted = false := (haltMono_readyA _ _ _).of_result h4
      have h2 : (stA2 a0 s0).2.2.halted = false := (haltMono_finInputA _ _ _).of_result h3
      have h1 : (stA1 a0 s0).2.2.halted = false := (haltMono_inputA _ _ _).of_result h2
      have IH : ∀ a s ms, Inv rules key s ms → NoMid s → Aux key s {} → s.halted = false → CGood s →
          (executeLoopA key fuel a s).2.2.halted = false → CPost (pr (executeLoopA key fuel a s)) := ih
      by_cases hw5 : (stA5 a0 s0).2.1 = true
      · -- some loop did work: stage by stage
        have S1 : Sim rules s0 ms0 (stA1 a0 s0).2.2 {} (fun _ => (stA1 a0 s0).2.2.ruleInfosToScan = []) :=
          scanRequestsLoopA_sim hS hF hA hT rules hok loopFuel false a0 s0 ms0 hi0.rel hi0.pend hh0
        have haux1 : Aux key (stA1 a0 s0).2.2 {} :=
          scanRequestsLoopA_aux hS hF hA hT hok key loopFuel false a0 s0 ms0 hi0.rel hi0.pend hh0 h1 haux0
        obtain ⟨toks1, ms1, he1, hr1, hi1, hq1⟩ := hi0.step S1 h1
        have hfresh1 : FreshScanQ (stA1 a0 s0).2.2 := by
          intro r hr; rw [hq1] at hr; cases hr
        have S2 : Sim rules (stA1 a0 s0).2.2 ms1 (stA2 a0 s0).2.2 {} (fun ms' =>
            ((stA2 a0 s0).2.2.inputRequests = [] ∧ NoMid (stA2 a0 s0).2.2 ∧ FreshScanQ (stA2 a0 s0).2.2) ∧
              PendFresh ms'.m) :=
          inputRequestsLoopA_sim hS hF rules hok loopFuel (stA1 a0 s0).1 (stA1 a0 s0).2.1 (stA1 a0 s0).2.2 ms1
            hi1.rel hi1.pend h1 hfresh1 hi1.pendFresh
        have haux2 : Aux key (stA2 a0 s0).2.2 {} :=
          inputRequestsLoopA_aux hS hF hA rules hok loopFuel (stA1 a0 s0).1 (stA1 a0 s0).2.1 (stA1 a0 s0).2.2 ms1 key
            hi1.rel hi1.pend h1 hfresh1 hi1.pendFresh h2 scanRuleAux demandRule_aux haux1
        obtain ⟨toks2, ms2, he2, hr2, hi2, ⟨-, hnm2, -⟩, -⟩ := hi1.step S2 h2
        have S3 : Sim rules (stA2 a0 s0).2.2 ms2 (stA3 a0 s0).2.2 {} (fun _ =>
            (stA3 a0 s0).2.2.finishedInputRequests = [] ∧ NoMid (stA3 a0 s0).2.2) :=
          finishedInputsLoopA_sim hS hF hA hT rules hok loopFuel (stA2 a0 s0).1 (stA2 a0 s0).2.1 (stA2 a0 s0).2.2 ms2
            hi2.rel hi2.pend h2 hnm2
        have haux3 : Aux key (stA3 a0 s0).2.2 {} :=
          finishedInputsLoopA_aux hS hF hA hT hok loopFuel (stA2 a0 s0).1 (stA2 a0 s0).2.1 (stA2 a0 s0).2.2 ms2
            hi2.rel hi2.pend h2 hnm2 h3 haux2
        obtain ⟨toks3, ms3, he3, hr3, hi3, -, hnm3⟩ := hi2.step S3 h3
        have S4 : Sim rules (stA3 a0 s0).2.2 ms3 (stA4 a0 s0).2.2 {} (fun _ =>
            (stA4 a0 s0).2.2.readyTaskInfos = [] ∧ NoMid (stA4 a0 s0).2.2) :=
          readyTasksLoopA_sim rules hok loopFuel (stA3 a0 s0).1 (stA3 a0 s0).2.1 (stA3 a0 s0).2.2 ms3
            hi3.rel hi3.pend h3 hnm3
        have haux4 : Aux key (stA4 a0 s0).2.2 {} :=
          readyTasksLoopA_aux key loopFuel (stA3 a0 s0).1 (stA3 a0 s0).2.1 (stA3 a0 s0).2.2 ms3
            hi3.rel hi3.pend h3 hnm3 h4 haux3
        obtain ⟨toks4, ms4, he4, hr4, hi4, -, hnm4⟩ := hi3.step S4 h4
        have S5 : (stA5 a0 s0).1 = false ∧ Sim rules (stA4 a0 s0).2.2 ms4 (stA5 a0 s0).2.2.2 {} (fun _ =>
            (stA5 a0 s0).2.2.2.finishedTaskInfos = [] ∧ NoMid (stA5 a0 s0).2.2.2) :=
          finishedTasksLoopA_sim hS hF rules hok loopFuel (stA4 a0 s0).1 (stA4 a0 s0).2.1 (stA4 a0 s0).2.2 ms4
            hi4.rel hi4.pend h4 hnm4
        have haux5 : Aux key (stA5 a0 s0).2.2.2 {} :=
          finishedTasksLoopA_aux hS hF hA hok loopFuel (stA4 a0 s0).1 (stA4 a0 s0).2.1 (stA4 a0 s0).2.2 ms4
            hi4.rel hi4.pend h4 hnm4 haux4
        obtain ⟨hfail, S5⟩ := S5
        obtain ⟨toks5, ms5, he5, hr5, hi5, -, hnm5⟩ := hi4.step S5 h5
        have hg5 : CGood (stA5 a0 s0).2.2.2 :=
          rcA_finishedTasksLoopA hC _ _ _ _ (rcA_readyTasksLoopA hC _ _ _ _ (rcA_finishedInputsLoopA hC _ _ _ _
            (rcA_inputRequestsLoopA hC _ _ _ _ (rcA_scanRequestsLoopA hC _ _ _ _ hg0))))
        exact afterTasksA_specC hok IH (stA5 a0 s0) hfail ms5 hi5 hnm5 haux5 h5 hg5
          (fun h => by rw [hw5] at h; cases h) hnh
      · -- no work: five item boundaries
        have hw5' : (stA5 a0 s0).2.1 = false := by simpa using hw5
        obtain ⟨e, -, -, -, -, -, hfail⟩ := noworkA_all a0 s0 hw5' h1 h2 h3 h4 h5
        obtain ⟨toks5, ms5, he5, hr5, hi5, her5, hh5, hnm5, haux5, -⟩ := apN_inv 5 a0 hi0 hh0
        have hnm5' := hnm5 hnm0
        have haux5' := haux5 haux0
        have hg5 : CGood (apN 5 a0 s0).2 :=
          (((((hg0.asyncPoint _).asyncPoint _).asyncPoint _).asyncPoint _).asyncPoint _)
        have hq5 : (apN 5 a0 s0).2.numOutstandingUnfinishedTasks = 0 → CIdle (apN 5 a0 s0).2 := by
          intro hnum
          rw [(apN_frame 5 a0 s0).2.2.2.2] at hnum
          have hcnt := hi0.rel.outstandingCount
          rw [hnum] at hcnt
          have hd : s0.pendingDeferred = [] := by
            apply List.eq_nil_of_length_eq_zero
            omega
          exact (CIdle.start hg0 hc' hd).apN 5 a0
        rw [← e] at hi5 hh5 hnm5' haux5' hg5 hq5
        exact afterTasksA_specC hok IH (stA5 a0 s0) hfail ms5 hi5 hnm5' haux5' hh5 hg5 (fun _ => hq5) hnh

end LLBuild.Refine
