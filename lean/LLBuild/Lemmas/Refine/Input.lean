/-
IM2 — refinement, section B of `Todo.lean`: `processInputRequest`, `inputRequestsLoop`.

* `PendFresh` — a MONITOR invariant that `Rel` lacks (`p ∈ pending → p.1` is not done), with `step_pendFresh` /
  `tstep_pendFresh` / `trun_pendFresh` (every accepted event / token run keeps it) and `Sim.pendFresh`;
* `scanRule` / `demandRule` leave the scan queue alone (up to the fresh request of `scanRule`): `FreshScanQ` is kept;
* `Rel.xfer` — GENERIC transfer of `Rel` across a bookkeeping update (`Xfer`: only request queues, `requestedBy`,
  paused requests, dependencies of a rule in progress and the hand change; the monitor state is the same), which leaves
  to the caller only the clauses that talk about the request queues;
* its four instances: `Rel.popInput` (head of the FIFO into the hand), `Rel.pause` (request parked in the scan record),
  `Rel.dropDummy` (a dummy request is done), `Rel.inputDone` (a task's request recorded as a dependency and queued as
  finished / in `requestedBy`);
* `processInputRequest_sim`, `inputRequestsLoop_sim` (both take `Todo_demandRule` as a hypothesis and the STRENGTHENED
  hypothesis `PendFresh ms.m`).
-/
import LLBuild.Lemmas.Refine.Scan
import LLBuild.Lemmas.Refine.Halt

namespace LLBuild.Refine
open LLBuild.Engine LLBuild.Engine.DSL LLBuild.EngineImpl

/-! ## 0. the monitor invariant `PendFresh` -/

/-- **monitor invariant missing from `Rel`**: a pending discovered dependency is not done yet (`upToDate` and
`finished` take the key out of `pending`; `finished` only adds keys that are not done).  STRENGTHENED hypothesis of the
theorems of this file: see the report at `processInputRequest_sim`. -/
def PendFresh (m : Engine.St) : Prop := ∀ p ∈ m.pending, isDone m p.1 = false

theorem pendFresh_of_eq {m m' : Engine.St} (hp : PendFresh m) (h1 : m'.pending = m.pending) (h2 : m'.status = m.status) :
    PendFresh m' := by
  intro p hm; rw [h1] at hm; unfold isDone; rw [h2]; exact hp p hm

theorem pendFresh_upd_notDone {m m' : Engine.St} {k : Key} {st : Status} (hp : PendFresh m) (h1 : m'.pending = m.pending)
    (h2 : m'.status = upd m.status k st) (hst : st ≠ .done) : PendFresh m' := by
  intro p hm; rw [h1] at hm; unfold isDone; rw [h2]
  by_cases e : p.1 = k
  · simp [upd, e, hst]
  · have := hp p hm; unfold isDone at this; simpa [upd, e] using this

theorem step_pendFresh {P : Program} {m m' : Engine.St} {e : Event} (h : step P m e = some m') (hp : PendFresh m) :
    PendFresh m' := by
  cases e <;> simp only [step] at h
  case buildStart k =>
    split at h
    · cases h; intro p hm; cases hm
    · cases h
  case queueCreated => split at h <;> cases h; exact pendFresh_of_eq hp rfl rfl
  case lookup k => split at h <;> cases h; exact pendFresh_of_eq hp rfl rfl
  case dbGet k f => split at h <;> cases h; exact hp
  case dbBegin => cases h; exact hp
  case dbEnd => split at h <;> cases h; exact pendFresh_of_eq hp rfl rfl
  case scanning k => split at h <;> cases h; exact pendFresh_upd_notDone hp rfl rfl (by decide)
  case valid k v b => split at h <;> cases h; exact pendFresh_of_eq hp rfl rfl
  case needs k r i => split at h <;> cases h; exact pendFresh_upd_notDone hp rfl rfl (by decide)
  case upToDate k =>
    split at h <;> cases h
    intro p hm
    simp only [List.mem_filter, bne_iff_ne, ne_eq] at hm
    have := hp p hm.1
    unfold isDone at this ⊢
    simpa [upd, hm.2] using this
  case create k => split at h <;> cases h; exact pendFresh_upd_notDone hp rfl rfl (by decide)
  case start k reqs => split at h <;> cases h; exact pendFresh_of_eq hp rfl rfl
  case prior k v => split at h <;> cases h; exact pendFresh_of_eq hp rfl rfl
  case provide k id key v reqs =>
    split at h
    · split at h
      · cases h
      · split at h <;> cases h; exact pendFresh_of_eq hp rfl rfl
    · cases h
  case inputsAvail k d => split at h <;> cases h; exact pendFresh_upd_notDone hp rfl rfl (by decide)
  case complete k v f => split at h <;> cases h; exact pendFresh_of_eq hp rfl rfl
  case finished k row =>
    split at h <;> cases h
    intro p hm
    simp only [List.mem_append, List.mem_filter, bne_iff_ne, ne_eq, Bool.and_eq_true, Bool.not_eq_true'] at hm
    unfold isDone
    rcases hm with ⟨h1, h2⟩ | ⟨_, h1, h2⟩
    · have := hp p h1; unfold isDone at this; simpa [upd, h2] using this
    · unfold isDone at h1; simpa [upd, h2] using h1
  case dbIter e => split at h <;> cases h; exact pendFresh_of_eq hp rfl rfl
  case cycle ks =>
    split at h
    · split at h <;> cases h; exact pendFresh_of_eq hp rfl rfl
    · cases h
  case error c => cases h; exact pendFresh_of_eq hp rfl rfl
  case cancel => cases h; exact pendFresh_of_eq hp rfl rfl
  case ret v =>
    split at h
    · cases h
    · split at h
      · cases h
      · split at h
        · cases h; exact pendFresh_of_eq hp rfl rfl
        · split at h <;> cases h
          intro p hm; cases hm
  case tail a b =>
    split at h <;> cases h
    intro p hm; rfl
  case mutate a b => split at h <;> cases h; exact pendFresh_of_eq hp rfl rfl
  case restart => split at h <;> cases h; intro p hm; rfl
  case wipe => split at h <;> cases h; intro p hm; cases hm
  case crash => split at h <;> cases h; intro p hm; cases hm


theorem tstep_pendFresh {P : Program} {ms ms' : MSt} {t : Tok} (h : tstep P ms t = some ms') (hp : PendFresh ms.m) :
    PendFresh ms'.m := by
  obtain ⟨m, pend⟩ := ms
  unfold tstep at h
  cases pend with
  | none =>
    simp only at h
    split at h
    · cases h; exact hp
    · split at h
      · cases h
      · rename_i e _
        cases hst : step P m e with
        | none => rw [hst] at h; cases h
        | some m1 => rw [hst] at h; cases h; exact step_pendFresh hst hp
  | some k =>
    simp only at h
    split at h
    · rename_i k' row
      split at h
      · cases hst : step P m (.finished k row) with
        | none => rw [hst] at h; cases h
        | some m1 => rw [hst] at h; cases h; exact step_pendFresh hst hp
      · cases h
    · split at h
      · split at h
        · cases h
        · rename_i e _
          cases hst : step P m e with
          | none => rw [hst] at h; cases h
          | some m1 => rw [hst] at h; cases h; exact step_pendFresh hst hp
      · cases h

theorem trun_pendFresh {P : Program} : ∀ (toks : List Tok) {ms ms' : MSt}, trun P ms toks = some ms' → PendFresh ms.m →
    PendFresh ms'.m
  | [], ms, ms', h, hp => by simp [trun] at h; subst h; exact hp
  | t :: rest, ms, ms', h, hp => by
    simp only [trun] at h
    cases hts : tstep P ms t with
    | none => rw [hts] at h; cases h
    | some ms1 =>
      rw [hts] at h
      exact trun_pendFresh rest h (tstep_pendFresh hts hp)

/-- every `Sim` keeps the monitor invariant -/
theorem Sim.pendFresh {rules : List RuleSpec} {s s' : State} {ms : MSt} {h' : Hand} {Post : MSt → Prop}
    (h : Sim rules s ms s' h' Post) (hp : PendFresh ms.m) :
    Sim rules s ms s' h' (fun ms' => Post ms' ∧ PendFresh ms'.m) := by
  intro hh
  obtain ⟨toks, ms', h1, h2, h3, h4, h5, h6, h7⟩ := h hh
  exact ⟨toks, ms', h1, h2, h3, h4, h5, h6, h7, trun_pendFresh toks h2 hp⟩

/-! ## 1. the scan queue under `scanRule` / `demandRule` -/

theorem scanRule_scanQ (k : Key) (s : State) :
    (scanRule k s).2.ruleInfosToScan = s.ruleInfosToScan ∨
    (scanRule k s).2.ruleInfosToScan = s.ruleInfosToScan ++ [scanReq0 k] := by
  rw [scanRule_eq]
  dsimp only
  repeat' split
  all_goals first
    | exact Or.inl rfl
    | exact Or.inl (emitAll_same _ _).ruleInfosToScan
    | exact Or.inr (emitAll_same _ _).ruleInfosToScan

theorem FreshScanQ.scanRule {k : Key} {s : State} (h : FreshScanQ s) : FreshScanQ (scanRule k s).2 := by
  intro r hr
  rcases scanRule_scanQ k s with e | e <;> rw [e] at hr
  · exact h r hr
  · rcases List.mem_append.1 hr with h1 | h1
    · exact h r h1
    · simp at h1; subst h1; rfl

theorem halt_ruleInfosToScan (t : Tok) (s : State) : (halt t s).ruleInfosToScan = s.ruleInfosToScan :=
  (halt_same t s).ruleInfosToScan

theorem addTaskInputRequest_scanQ (task key id : Nat) (oo su : Bool) (s : State) :
    (addTaskInputRequest task key id oo su s).ruleInfosToScan = s.ruleInfosToScan := by
  unfold addTaskInputRequest
  split
  · exact halt_ruleInfosToScan _ _
  · exact (getRuleInfoForKey_same key s).ruleInfosToScan

theorem issue_scanQ (task : Key) : ∀ (l : List Req) (s : State), (issue task l s).ruleInfosToScan = s.ruleInfosToScan
  | [], s => rfl
  | q :: rest, s => by
    rw [issue, issue_scanQ task rest]
    split
    · unfold taskNeedsInput; split
      · simp [State.modTask, State.setTask]
      · rw [addTaskInputRequest_scanQ]; rfl
    · split
      · unfold taskNeedsSingleUseInput; split
        · simp [State.modTask, State.setTask]
        · rw [addTaskInputRequest_scanQ]; rfl
      · unfold taskMustFollow; rw [addTaskInputRequest_scanQ]; rfl

theorem demandRule_scanQ (k : Key) (s : State) : (demandRule k s).2.ruleInfosToScan = s.ruleInfosToScan := by
  unfold demandRule
  dsimp only
  split
  · rfl
  · split
    · rfl
    · split
      · simp
      · have h1 : (taskStart k (((emit (.T k) s).setTask { forRuleInfo := k }).modRule k
            (fun ri => { ri with state := .inProgressWaiting, inProgressInfo := .pendingTaskInfo,
                                 result := { ri.result with deps := [] } }))).ruleInfosToScan = s.ruleInfosToScan := by
          unfold taskStart
          rw [issue_scanQ]
          simp [State.modRule, State.setRule, State.setTask]
        split <;> split <;> simp [h1]

/-! ## 2. bookkeeping updates: the generic transfer of `Rel` -/

/-- what may change in a `RuleInfo` without the relation noticing (bookkeeping updates: the dependency list of a
rule in progress, the contents of a live scan record) -/
structure RuleSim (ri ri' : RuleInfo) : Prop where
  key : ri'.key = ri.key
  signature : ri'.signature = ri.signature
  state : ri'.state = ri.state
  value : ri'.result.value = ri.result.value
  sig : ri'.result.sig = ri.result.sig
  computedAt : ri'.result.computedAt = ri.result.computedAt
  builtAt : ri'.result.builtAt = ri.result.builtAt
  deps : StateKind.inProgress ri.state = false → ri'.result.deps = ri.result.deps
  record : ∀ r, ri.inProgressInfo = .pendingScanRecord r → ∃ r', ri'.inProgressInfo = .pendingScanRecord r'

theorem RuleSim.refl (ri : RuleInfo) : RuleSim ri ri :=
  ⟨rfl, rfl, rfl, rfl, rfl, rfl, rfl, fun _ => rfl, fun r h => ⟨r, h⟩⟩

/-- a bookkeeping update of the engine: queues of input requests, `requestedBy`, paused requests, recorded
dependencies of rules in progress, and the hand may change; everything the monitor sees stays -/
structure Xfer (s s' : State) (h h' : Hand) : Prop where
  rules : s'.rules = s.rules
  env : s'.env = s.env
  store : s'.store = s.store
  hasDB : s'.hasDB = s.hasDB
  scanQ : s'.ruleInfosToScan = s.ruleInfosToScan
  ready : s'.readyTaskInfos = s.readyTaskInfos
  finTasks : s'.finishedTaskInfos = s.finishedTaskInfos
  deferred : s'.pendingDeferred = s.pendingDeferred
  numOut : s'.numOutstandingUnfinishedTasks = s.numOutstandingUnfinishedTasks
  numScanned : s'.numRulesBeingScanned = s.numRulesBeingScanned
  epoch : s'.currentEpoch = s.currentEpoch
  cancelled : s'.buildCancelled = s.buildCancelled
  noResolve : s'.shouldResolveCycle = s.shouldResolveCycle
  active : s'.buildActive = s.buildActive
  hscan : h'.scan = h.scan
  ruleNone : ∀ k, s.ruleInfos.lookup k = none → s'.ruleInfos.lookup k = none
  ruleSome : ∀ k ri, s.ruleInfos.lookup k = some ri → ∃ ri', s'.ruleInfos.lookup k = some ri' ∧ RuleSim ri ri'
  rulesNodup : (s'.ruleInfos.map (fun p => p.1)).Nodup
  scanCount : (s'.ruleInfos.filter (fun p => p.2.isScanning)).length = (s.ruleInfos.filter (fun p => p.2.isScanning)).length
  deferredAll : deferredAll s' = deferredAll s
  taskSome : ∀ a t', s'.taskInfos.lookup a = some t' →
    ∃ t, s.taskInfos.lookup a = some t ∧ t' = { t with requestedBy := t'.requestedBy }
  taskIsSome : ∀ a, (s'.taskInfos.lookup a).isSome = (s.taskInfos.lookup a).isSome
  taskNodup : (s'.taskInfos.map (fun p => p.1)).Nodup

namespace Xfer
variable {s s' : State} {h h' : Hand} (x : Xfer s s' h h')
include x

theorem ruleBack {k : Key} {ri' : RuleInfo} (hl : s'.ruleInfos.lookup k = some ri') :
    ∃ ri, s.ruleInfos.lookup k = some ri ∧ RuleSim ri ri' := by
  cases h0 : s.ruleInfos.lookup k with
  | none => rw [x.ruleNone k h0] at hl; cases hl
  | some ri =>
    obtain ⟨ri'', h1, h2⟩ := x.ruleSome k ri h0
    rw [h1] at hl; cases hl
    exact ⟨ri, rfl, h2⟩

theorem registered (k : Key) : Registered s' k ↔ Registered s k := by
  unfold Registered
  cases h0 : s.ruleInfos.lookup k with
  | none => rw [x.ruleNone k h0]
  | some ri => obtain ⟨ri', h1, _⟩ := x.ruleSome k ri h0; rw [h1]; simp

theorem rule_state (k : Key) : (s'.rule k).state = (s.rule k).state := by
  unfold State.rule
  cases h0 : s.ruleInfos.lookup k with
  | none => rw [x.ruleNone k h0]
  | some ri => obtain ⟨ri', h1, h2⟩ := x.ruleSome k ri h0; rw [h1]; exact h2.state

theorem rule_deps (k : Key) (hs : StateKind.inProgress (s.rule k).state = false) :
    (s'.rule k).result.deps = (s.rule k).result.deps := by
  unfold State.rule at hs ⊢
  cases h0 : s.ruleInfos.lookup k with
  | none => rw [x.ruleNone k h0]
  | some ri =>
    obtain ⟨ri', h1, h2⟩ := x.ruleSome k ri h0
    rw [h0] at hs
    rw [h1]; exact h2.deps hs

theorem statusOf_eq (pend : Option Key) (k : Key) : statusOf s' pend k = statusOf s pend k := by
  unfold statusOf
  cases h0 : s.ruleInfos.lookup k with
  | none => rw [x.ruleNone k h0]
  | some ri =>
    obtain ⟨ri', h1, h2⟩ := x.ruleSome k ri h0
    rw [h1]
    simp only [h2.state, h2.builtAt, x.epoch]

theorem scanReqs_eq : scanReqs s' h' = scanReqs s h := by
  unfold scanReqs; rw [x.hscan, x.scanQ, x.deferredAll]

theorem taskFwd {a : Key} {t : TaskInfo} (hl : s.taskInfos.lookup a = some t) :
    ∃ t', s'.taskInfos.lookup a = some t' ∧ t' = { t with requestedBy := t'.requestedBy } := by
  have h1 := x.taskIsSome a
  rw [hl] at h1
  obtain ⟨t', ht'⟩ := Option.isSome_iff_exists.1 h1
  obtain ⟨t0, h2, h3⟩ := x.taskSome a t' ht'
  rw [hl] at h2; cases h2
  exact ⟨t', ht', h3⟩

end Xfer

/-- **bookkeeping updates keep the relation**, given the clauses that talk about the request queues and the hand -/
theorem Rel.xfer {rules : List RuleSpec} {s s' : State} {ms : MSt} {h h' : Hand}
    (hr : Rel rules s ms h) (hp : ms.pend = none) (x : Xfer s s' h h')
    (deferredAtRecord : ∀ p ∈ liveRecords s', ∀ r ∈ p.2.deferredScanRequests, r.inputRuleInfo = some p.1)
    (deferredAtTask : ∀ p ∈ s'.taskInfos, ∀ r ∈ p.2.deferredScanRequests, r.inputRuleInfo = some p.1)
    (recordWaited : ∀ p ∈ liveRecords s', p.2.pausedInputRequests ≠ [] ∨ p.2.deferredScanRequests ≠ [] ∨
      (∃ r ∈ h'.scan ++ s'.ruleInfosToScan, r.inputRuleInfo = some p.1) ∨ (∃ r ∈ h'.inp ++ s'.inputRequests, r.inputRuleInfo = p.1))
    (midScan : ∀ k ri, s'.ruleInfos.lookup k = some ri → (ri.state = .needsToRun ∨ ri.state = .doesNotNeedToRun) →
      (∃ r ∈ h'.scan ++ s'.ruleInfosToScan, r.inputRuleInfo = some k) ∨ (∃ r ∈ h'.inp ++ s'.inputRequests, r.inputRuleInfo = k))
    (taskOk : ∀ a t, s'.taskInfos.lookup a = some t → TaskOk rules s' ms.m h' a t)
    (outSub : ∀ r ∈ outstanding s' h', r ∈ outstanding s h)
    (unpSub : ∀ r ∈ unprocessed s' h', r ∈ unprocessed s h)
    (dummyUnproc : ∀ r ∈ processed s' h', r.taskInfo ≠ none)
    (pausedAt : ∀ p ∈ liveRecords s', ∀ r ∈ p.2.pausedInputRequests, r.inputRuleInfo = p.1)
    (requestedAt : ∀ p ∈ s'.taskInfos, ∀ r ∈ p.2.requestedBy, r.inputRuleInfo = p.1)
    (finDone : ∀ r ∈ h'.fin ++ s'.finishedInputRequests, isDone ms.m r.inputRuleInfo = true)
    (pendingOk : ∀ p ∈ ms.m.pending,
      (∃ r ∈ unprocessed s' h', r.taskInfo = none ∧ r.inputRuleInfo = p.1) ∨ (s'.taskInfos.lookup p.1).isSome = true) :
    Rel rules s' ms h' := by
  refine
    { rules_eq := ?rules_eq, env := ?env, hasDB := ?hasDB, noResolve := ?noResolve, noFail := ?noFail,
      epoch := ?epoch, reg := ?reg, keyOk := ?keyOk, rulesNodup := x.rulesNodup, sig := ?sig, res := ?res,
      resUnreg := ?resUnreg, db := ?db, dbBuilt := ?dbBuilt, dbBuiltLe := ?dbBuiltLe, dbIter := ?dbIter,
      builtLe := ?builtLe,
      active := ?active, started := hr.started, notReturned := hr.notReturned, epochPos := ?epochPos,
      cancelled := ?cancelled, errCancelled := ?errCancelled, noCycle := hr.noCycle, targetReg := hr.targetReg,
      status := ?status, pendOk := ?pendOk,
      validIdle := hr.validIdle, scanningOk := ?scanningOk, dntrFresh := ?dntrFresh, inScanned := hr.inScanned,
      inRan := hr.inRan, ranOk := hr.ranOk, scanOne := ?scanOne, scanOk := ?scanOk,
      deferredAtRecord := deferredAtRecord, deferredAtTask := deferredAtTask, recordLive := ?recordLive,
      scanCount := ?scanCount, recordWaited := recordWaited, midScan := midScan, taskKeys := ?taskKeys,
      taskNodup := x.taskNodup,
      taskOk := taskOk, reqReg := ?reqReg, reqTask := ?reqTask, dummyOk := ?dummyOk, dummyUnproc := dummyUnproc,
      pausedAt := pausedAt, requestedAt := requestedAt, finDone := finDone, pendingOk := pendingOk,
      readyOk := ?readyOk, readyNodup := ?readyNodup, finTaskOk := ?finTaskOk, finTaskNodup := ?finTaskNodup,
      deferredOk := ?deferredOk, deferredNodup := ?deferredNodup, computingWhere := ?computingWhere,
      outstandingCount := ?outstandingCount }
  case rules_eq => rw [x.rules]; exact hr.rules_eq
  case env => rw [x.env]; exact hr.env
  case hasDB => rw [x.hasDB]; exact hr.hasDB
  case noResolve => rw [x.noResolve]; exact hr.noResolve
  case noFail => rw [x.store]; exact hr.noFail
  case epoch => rw [x.epoch]; exact hr.epoch
  case reg =>
    intro k
    rw [hr.reg k]
    have := x.registered k
    unfold Registered at this
    cases h1 : (s'.ruleInfos.lookup k).isSome <;> cases h2 : (s.ruleInfos.lookup k).isSome <;> simp_all
  case keyOk =>
    intro k ri' hl
    obtain ⟨ri, h1, h2⟩ := x.ruleBack hl
    rw [h2.key]; exact hr.keyOk k ri h1
  case sig =>
    intro k ri' hl
    obtain ⟨ri, h1, h2⟩ := x.ruleBack hl
    rw [h2.signature]; exact hr.sig k ri h1
  case res =>
    intro k ri' hl
    obtain ⟨ri, h1, h2⟩ := x.ruleBack hl
    have h0 := hr.res k ri h1
    unfold resRel at h0 ⊢
    rw [h2.state, h2.value, h2.sig, h2.computedAt, h2.builtAt]
    obtain ⟨a1, a2, a3, a4, a5⟩ := h0
    refine ⟨a1, a2, a3, a4, ?_⟩
    intro b1 b2 b3
    rw [h2.deps b2]; exact a5 b1 b2 b3
  case resUnreg =>
    intro k hl
    apply hr.resUnreg k
    cases h0 : s.ruleInfos.lookup k with
    | none => rfl
    | some ri => obtain ⟨ri', h1, _⟩ := x.ruleSome k ri h0; rw [h1] at hl; cases hl
  case db => rw [x.store]; exact hr.db
  case dbBuilt => rw [x.store]; exact hr.dbBuilt
  case dbBuiltLe => rw [x.store, x.epoch]; exact hr.dbBuiltLe
  case dbIter => rw [x.store]; exact hr.dbIter
  case builtLe =>
    intro k ri' hl
    obtain ⟨ri, h1, h2⟩ := x.ruleBack hl
    rw [h2.builtAt, x.epoch]; exact hr.builtLe k ri h1
  case active => rw [x.active]; exact hr.active
  case epochPos => rw [x.epoch]; exact hr.epochPos
  case cancelled => rw [x.cancelled]; exact hr.cancelled
  case errCancelled => rw [x.cancelled]; exact hr.errCancelled
  case status => intro k; rw [x.statusOf_eq]; exact hr.status k
  case pendOk => intro k hk; rw [hp] at hk; cases hk
  case scanningOk =>
    intro k ri' hl hs
    obtain ⟨ri, h1, h2⟩ := x.ruleBack hl
    rw [h2.state] at hs
    obtain ⟨a1, a2, a3⟩ := hr.scanningOk k ri h1 hs
    exact ⟨a1, by rw [h2.builtAt]; exact a2, by rw [h2.signature, h2.sig]; exact a3⟩
  case dntrFresh =>
    intro k ri' hl hs
    obtain ⟨ri, h1, h2⟩ := x.ruleBack hl
    rw [h2.state] at hs
    exact hr.dntrFresh k ri h1 hs
  case scanOne =>
    intro k ri' hl hs
    obtain ⟨ri, h1, h2⟩ := x.ruleBack hl
    rw [h2.state] at hs
    rw [x.scanReqs_eq]; exact hr.scanOne k ri h1 hs
  case scanOk =>
    intro r hm
    rw [x.scanReqs_eq] at hm
    have h0 := hr.scanOk r hm
    have hnp : StateKind.inProgress (s.rule r.ruleInfo).state = false := by rw [h0.scanning]; rfl
    exact
      { reg := (x.registered _).2 h0.reg,
        scanning := by rw [x.rule_state]; exact h0.scanning,
        inBounds := by rw [x.rule_deps _ hnp]; exact h0.inBounds,
        prefixFresh := h0.prefixFresh,
        cached := fun i hi => by
          obtain ⟨c1, c2⟩ := h0.cached i hi
          exact ⟨(x.registered _).2 c1, by rw [x.rule_deps _ hnp]; exact c2⟩ }
  case recordLive =>
    intro k ri' hl hs
    obtain ⟨ri, h1, h2⟩ := x.ruleBack hl
    rw [h2.state] at hs
    obtain ⟨r, hrr⟩ := hr.recordLive k ri h1 hs
    exact h2.record r hrr
  case scanCount => rw [x.numScanned, x.scanCount]; exact hr.scanCount
  case taskKeys => intro k; rw [x.taskIsSome, x.statusOf_eq]; exact hr.taskKeys k
  case reqReg =>
    intro r hm
    obtain ⟨a1, a2⟩ := hr.reqReg r (outSub r hm)
    exact ⟨(x.registered _).2 a1, a2⟩
  case reqTask =>
    intro r hm a ha
    obtain ⟨a1, a2⟩ := hr.reqTask r (outSub r hm) a ha
    exact ⟨by rw [x.taskIsSome]; exact a1, by rw [x.rule_state]; exact a2⟩
  case dummyOk =>
    intro r hm hn
    rcases hr.dummyOk r (unpSub r hm) hn with h1 | h1 | h1 | ⟨k, t, h1, _⟩
    · exact Or.inl h1
    · exact Or.inr (Or.inl h1)
    · exact Or.inr (Or.inr (Or.inl h1))
    · rw [hp] at h1; cases h1
  case readyOk =>
    intro a ha
    rw [x.ready] at ha
    obtain ⟨t, h1, h2, h3⟩ := hr.readyOk a ha
    obtain ⟨t', h4, h5⟩ := x.taskFwd h1
    exact ⟨t', h4, by rw [x.rule_state]; exact h2, by rw [h5]; exact h3⟩
  case readyNodup => rw [x.ready]; exact hr.readyNodup
  case finTaskOk =>
    intro a ha
    rw [x.finTasks] at ha
    obtain ⟨t, h1, h2, h3⟩ := hr.finTaskOk a ha
    obtain ⟨t', h4, h5⟩ := x.taskFwd h1
    exact ⟨t', h4, by rw [x.rule_state]; exact h2, by rw [h5]; exact h3⟩
  case finTaskNodup => rw [x.finTasks]; exact hr.finTaskNodup
  case deferredOk =>
    intro a ha
    rw [x.deferred] at ha
    obtain ⟨t, h1, h2, h3⟩ := hr.deferredOk a ha
    obtain ⟨t', h4, h5⟩ := x.taskFwd h1
    exact ⟨t', h4, by rw [x.rule_state]; exact h2, by rw [h5]; exact h3⟩
  case deferredNodup => rw [x.deferred]; exact hr.deferredNodup
  case computingWhere =>
    intro a t' hl hs
    obtain ⟨t, h1, h2⟩ := x.taskSome a t' hl
    rw [x.rule_state] at hs
    rw [x.deferred, x.finTasks, h2]
    exact hr.computingWhere a t h1 hs
  case outstandingCount => rw [x.numOut, x.deferred, x.finTasks]; exact hr.outstandingCount

/-! ## 3. tools for the instances -/

theorem mem_ofTask {a : Key} {l : List TaskInputRequest} {r : TaskInputRequest} :
    r ∈ ofTask a l ↔ r ∈ l ∧ r.taskInfo = some a := by simp [ofTask]

theorem ofTask_cons_self {a : Key} {l : List TaskInputRequest} {r : TaskInputRequest} (h : r.taskInfo = some a) :
    ofTask a (r :: l) = r :: ofTask a l := by simp [ofTask, h]

theorem ofTask_cons_other {a : Key} {l : List TaskInputRequest} {r : TaskInputRequest} (h : r.taskInfo ≠ some a) :
    ofTask a (r :: l) = ofTask a l := by
  have : (r.taskInfo == some a) = false := by simpa using h
  simp [ofTask, this]

theorem ofTask_append (a : Key) (l1 l2 : List TaskInputRequest) : ofTask a (l1 ++ l2) = ofTask a l1 ++ ofTask a l2 := by
  simp [ofTask]

/-- a task whose own rule keeps its state, with the same monitor: its outstanding requests may be permuted and the
recorded dependencies may move (the caller shows `depsPerm`) -/
theorem TaskOk.reframe {rules : List RuleSpec} {s s' : State} {m : Engine.St} {h h' : Hand} {a : Key} {t : TaskInfo}
    (hb : TaskOk rules s m h a t)
    (hstate : (s'.rule a).state = (s.rule a).state)
    (hout : List.Perm (ofTask a (outstanding s' h')) (ofTask a (outstanding s h)))
    (hdeps : List.Perm (t.issuedReqs.map Req.toDep) ((s'.rule a).result.deps ++ (ofTask a (unprocessed s' h')).map depOf))
    (hissue : h'.toIssue a = h.toIssue a) (hmark : h'.issuingFor = h.issuingFor) (hdec : h'.dec = h.dec) :
    TaskOk rules s' m h' a t := by
  have hmem : ∀ q : Req, reqOf a q ∈ outstanding s h → reqOf a q ∈ outstanding s' h' := by
    intro q hq
    have : reqOf a q ∈ ofTask a (outstanding s h) := mem_ofTask.2 ⟨hq, rfl⟩
    exact (mem_ofTask.1 (hout.mem_iff.2 this)).1
  refine { forRule := hb.forRule, started := hb.started,
           issued := by rw [hissue]; exact hb.issued,
           issuedSeq := hb.issuedSeq, recv := hb.recv,
           deliveredIssued := hb.deliveredIssued,
           completed := hb.completed,
           waitCount := by rw [hb.waitCount, hdec, hout.length_eq],
           outIssued := ?_, issuedOut := ?_, outNodup := ?_, depsPerm := hdeps, waiting := ?_, computing := ?_ }
  · intro r hr
    exact hb.outIssued r (hout.mem_iff.1 hr)
  · intro q hq
    obtain ⟨h1, h2⟩ := hb.issuedOut q hq
    refine ⟨fun x y => hmem q (h1 x y), fun x => ?_⟩
    rcases h2 x with h3 | h3
    · exact Or.inl h3
    · exact Or.inr (hmem q h3)
  · exact (List.Perm.nodup_iff (List.Perm.filter _ hout)).2 hb.outNodup
  · rw [hstate, hmark]; exact hb.waiting
  · rw [hstate]
    intro hne
    obtain ⟨h1, h2⟩ := hb.computing hne
    exact ⟨h1, List.Perm.eq_nil (h2 ▸ hout)⟩

/-- `TaskOk` does not read `requestedBy` -/
theorem TaskOk.requestedBy {rules : List RuleSpec} {s : State} {m : Engine.St} {h : Hand} {a : Key} {t : TaskInfo}
    (hb : TaskOk rules s m h a t) (rb : List TaskInputRequest) : TaskOk rules s m h a { t with requestedBy := rb } :=
  { hb with }

/-! ## live records around one rule -/

theorem liveOf_key {q : Key × RuleInfo} {p : Key × RuleScanRecord} (h : liveOf q = some p) : p.1 = q.1 := by
  unfold liveOf at h
  split at h
  · cases hg : q.2.getPendingScanRecord with
    | none => rw [hg] at h; cases h
    | some r => rw [hg] at h; simp at h; rw [← h]
  · cases h

theorem filterMap_liveOf_key {l : List (Key × RuleInfo)} {p : Key × RuleScanRecord} (h : p ∈ l.filterMap liveOf) :
    p.1 ∈ l.map (fun q => q.1) := by
  obtain ⟨q, hq, hp⟩ := List.mem_filterMap.1 h
  rw [liveOf_key hp]
  exact List.mem_map.2 ⟨q, hq, rfl⟩

/-- the live records before and after the entry of `k` is replaced -/
theorem liveRecords_split {s : State} {k : Key} {old : RuleInfo} (hnd : (s.ruleInfos.map (fun p => p.1)).Nodup)
    (hl : s.ruleInfos.lookup k = some old) (new : RuleInfo) (hk : new.key = k) :
    ∃ a b, liveRecords s = a ++ (liveOf (k, old)).toList ++ b ∧
      liveRecords (s.setRule new) = a ++ (liveOf (k, new)).toList ++ b ∧
      (∀ p ∈ a, p.1 ≠ k) ∧ (∀ p ∈ b, p.1 ≠ k) := by
  obtain ⟨l1, l2, h1, h2⟩ := rules_split hl new hk
  rw [h1] at hnd
  simp only [List.map_append, List.map_cons] at hnd
  have hn1 : k ∉ l1.map (fun p => p.1) := by
    intro hm
    have := (List.nodup_append.1 hnd).2.2 k hm k (by simp)
    exact this rfl
  have hn2 : k ∉ l2.map (fun p => p.1) := by
    have := (List.nodup_append.1 hnd).2.1
    exact (List.nodup_cons.1 this).1
  refine ⟨l1.filterMap liveOf, l2.filterMap liveOf, ?_, ?_, ?_, ?_⟩
  · rw [liveRecords_eq, h1]
    simp only [List.filterMap_append, List.filterMap_cons]
    cases liveOf (k, old) <;> simp
  · rw [liveRecords_eq, h2]
    simp only [List.filterMap_append, List.filterMap_cons]
    cases liveOf (k, new) <;> simp
  · intro p hp e; exact hn1 (e ▸ filterMap_liveOf_key hp)
  · intro p hp e; exact hn2 (e ▸ filterMap_liveOf_key hp)

/-- a live record belongs to a rule that is scanning -/
theorem liveRecords_mem {s : State} (hnd : (s.ruleInfos.map (fun p => p.1)).Nodup) {p : Key × RuleScanRecord}
    (hp : p ∈ liveRecords s) : ∃ ri, s.ruleInfos.lookup p.1 = some ri ∧ ri.state = .isScanning := by
  rw [liveRecords_eq] at hp
  obtain ⟨q, hq, hp'⟩ := List.mem_filterMap.1 hp
  have hk := liveOf_key hp'
  refine ⟨q.2, ?_, ?_⟩
  · rw [hk]; exact lookup_of_mem_nodup _ _ _ hnd hq
  · unfold liveOf at hp'
    split at hp'
    · rename_i hs; simpa [RuleInfo.isScanning] using hs
    · cases hp'

theorem setRule_scanCount_same {s : State} {k : Key} {old new : RuleInfo} (hl : s.ruleInfos.lookup k = some old)
    (hk : new.key = k) (hn : new.isScanning = old.isScanning) :
    ((s.setRule new).ruleInfos.filter (fun p => p.2.isScanning)).length = (s.ruleInfos.filter (fun p => p.2.isScanning)).length := by
  obtain ⟨l1, l2, h1, h2⟩ := rules_split hl new hk
  rw [h1, h2]; simp only [List.filter_append, List.filter_cons, hn, List.length_append]
  split <;> simp

/-- rule lookups after a `RuleSim` replacement -/
theorem setRule_ruleNone {s : State} {k : Key} {old : RuleInfo} (hl : s.ruleInfos.lookup k = some old) (new : RuleInfo)
    (hk : new.key = k) : ∀ k', s.ruleInfos.lookup k' = none → (s.setRule new).ruleInfos.lookup k' = none := by
  intro k' h0
  rw [setRule_lookup, hk]
  by_cases e : k' = k
  · subst e; rw [hl] at h0; cases h0
  · simp [e, h0]

theorem setRule_ruleSome {s : State} {k : Key} {old new : RuleInfo} (hl : s.ruleInfos.lookup k = some old)
    (hk : new.key = k) (hsim : RuleSim old new) :
    ∀ k' ri, s.ruleInfos.lookup k' = some ri → ∃ ri', (s.setRule new).ruleInfos.lookup k' = some ri' ∧ RuleSim ri ri' := by
  intro k' ri h0
  rw [setRule_lookup, hk]
  by_cases e : k' = k
  · subst e; rw [hl] at h0; cases h0
    exact ⟨new, by simp, hsim⟩
  · exact ⟨ri, by simp [e, h0], RuleSim.refl ri⟩

/-- a key that is done for the monitor, or has a task, is past scanning -/
theorem Rel.pastScan {rules : List RuleSpec} {s : State} {ms : MSt} {h : Hand} (hr : Rel rules s ms h) {k : Key}
    (hk : isDone ms.m k = true ∨ (s.taskInfos.lookup k).isSome = true) {ri : RuleInfo}
    (hl : s.ruleInfos.lookup k = some ri) :
    ri.state ≠ .isScanning ∧ ri.state ≠ .needsToRun ∧ ri.state ≠ .doesNotNeedToRun := by
  have hst : statusOf s ms.pend k = .done ∨ statusOf s ms.pend k = .running ∨ statusOf s ms.pend k = .computing := by
    rcases hk with h1 | h1
    · left; rw [← hr.status k]; unfold isDone at h1; simpa using h1
    · right
      have := hr.taskKeys k
      rw [h1] at this
      simpa using this.symm
  unfold statusOf at hst
  rw [hl] at hst
  simp only at hst
  refine ⟨?_, ?_, ?_⟩ <;> intro e <;> rw [e] at hst <;> simp at hst

/-! ## 4. instance: pop the head of the input FIFO into the hand -/

theorem Rel.popInput {rules : List RuleSpec} {s : State} {ms : MSt} {r : TaskInputRequest} {rest : List TaskInputRequest}
    (hr : Rel rules s ms {}) (hp : ms.pend = none) (hq : s.inputRequests = r :: rest) :
    Rel rules { s with inputRequests := rest } ms { inp := [r] } := by
  have hinp : ({ inp := [r] } : Hand).inp ++ rest = ({} : Hand).inp ++ s.inputRequests := by rw [hq]; rfl
  have hunp : unprocessed { s with inputRequests := rest } { inp := [r] } = unprocessed s {} := by
    show (({ inp := [r] } : Hand).inp ++ rest) ++ pausedAll s = _
    rw [hinp]; rfl
  have hout : outstanding { s with inputRequests := rest } { inp := [r] } = outstanding s {} := by
    unfold outstanding; rw [hunp]; rfl
  have x : Xfer s { s with inputRequests := rest } {} { inp := [r] } :=
    { rules := rfl, env := rfl, store := rfl, hasDB := rfl, scanQ := rfl, ready := rfl, finTasks := rfl, deferred := rfl,
      numOut := rfl, numScanned := rfl, epoch := rfl, cancelled := rfl, noResolve := rfl, active := rfl, hscan := rfl,
      ruleNone := fun _ h => h, ruleSome := fun _ ri h => ⟨ri, h, RuleSim.refl ri⟩, rulesNodup := hr.rulesNodup,
      scanCount := rfl, deferredAll := rfl, taskSome := fun _ t' h => ⟨t', h, rfl⟩, taskIsSome := fun _ => rfl,
      taskNodup := hr.taskNodup }
  refine hr.xfer hp x hr.deferredAtRecord hr.deferredAtTask ?_ ?_ ?_ ?_ ?_ hr.dummyUnproc hr.pausedAt hr.requestedAt
    hr.finDone ?_
  · intro p hp'
    have := hr.recordWaited p hp'
    show _ ∨ _ ∨ _ ∨ (∃ r0 ∈ ({ inp := [r] } : Hand).inp ++ rest, r0.inputRuleInfo = p.1)
    rw [hinp]; exact this
  · intro k ri hl hs
    have := hr.midScan k ri hl hs
    show _ ∨ (∃ r0 ∈ ({ inp := [r] } : Hand).inp ++ rest, r0.inputRuleInfo = k)
    rw [hinp]; exact this
  · intro a t hl
    exact (hr.taskOk a t hl).reframe rfl (by rw [hout]) (by rw [hunp]; exact (hr.taskOk a t hl).depsPerm) rfl rfl rfl
  · intro r0 h0; rw [hout] at h0; exact h0
  · intro r0 h0; rw [hunp] at h0; exact h0
  · intro p hp'
    rw [hunp]; exact hr.pendingOk p hp'

/-! ## 5. instance: a dummy request is done (dropped from the hand) -/

theorem unprocessed_hand (s : State) (r : TaskInputRequest) :
    unprocessed s { inp := [r] } = r :: unprocessed s {} := rfl

theorem outstanding_hand (s : State) (r : TaskInputRequest) :
    outstanding s { inp := [r] } = r :: outstanding s {} := rfl

theorem Xfer.refl_state (s : State) (h h' : Hand) (hs : h'.scan = h.scan)
    (h1 : (s.ruleInfos.map (fun p => p.1)).Nodup) (h2 : (s.taskInfos.map (fun p => p.1)).Nodup) : Xfer s s h h' :=
  { rules := rfl, env := rfl, store := rfl, hasDB := rfl, scanQ := rfl, ready := rfl, finTasks := rfl, deferred := rfl,
    numOut := rfl, numScanned := rfl, epoch := rfl, cancelled := rfl, noResolve := rfl, active := rfl, hscan := hs,
    ruleNone := fun _ h => h, ruleSome := fun _ ri h => ⟨ri, h, RuleSim.refl ri⟩, rulesNodup := h1,
    scanCount := rfl, deferredAll := rfl, taskSome := fun _ t' h => ⟨t', h, rfl⟩, taskIsSome := fun _ => rfl,
    taskNodup := h2 }

theorem Rel.dropDummy {rules : List RuleSpec} {s : State} {ms : MSt} {r : TaskInputRequest}
    (hr : Rel rules s ms { inp := [r] }) (hp : ms.pend = none) (hd : r.taskInfo = none)
    (hk : isDone ms.m r.inputRuleInfo = true ∨ (s.taskInfos.lookup r.inputRuleInfo).isSome = true)
    (hpf : PendFresh ms.m) : Rel rules s ms {} := by
  have hda : ∀ a, r.taskInfo ≠ some a := by intro a; rw [hd]; simp
  have x : Xfer s s { inp := [r] } {} := Xfer.refl_state s _ _ rfl hr.rulesNodup hr.taskNodup
  -- the request in hand was the only witness of nothing: its key is past scanning
  have hpast : ∀ ri, s.ruleInfos.lookup r.inputRuleInfo = some ri →
      ri.state ≠ .isScanning ∧ ri.state ≠ .needsToRun ∧ ri.state ≠ .doesNotNeedToRun := fun ri hl => hr.pastScan hk hl
  have hinp : ∀ (P : TaskInputRequest → Prop), (∃ r0 ∈ ({ inp := [r] } : Hand).inp ++ s.inputRequests, P r0) →
      P r ∨ ∃ r0 ∈ ({} : Hand).inp ++ s.inputRequests, P r0 := by
    intro P ⟨r0, h1, h2⟩
    rcases List.mem_cons.1 h1 with e | e
    · subst e; exact Or.inl h2
    · exact Or.inr ⟨r0, e, h2⟩
  refine hr.xfer hp x hr.deferredAtRecord hr.deferredAtTask ?_ ?_ ?_ ?_ ?_ hr.dummyUnproc hr.pausedAt hr.requestedAt
    hr.finDone ?_
  · intro p hp'
    rcases hr.recordWaited p hp' with h1 | h1 | h1 | h1
    · exact Or.inl h1
    · exact Or.inr (Or.inl h1)
    · exact Or.inr (Or.inr (Or.inl h1))
    · rcases hinp _ h1 with e | e
      · obtain ⟨ri, hl, hs⟩ := liveRecords_mem hr.rulesNodup hp'
        rw [← e] at hl
        exact absurd hs (hpast ri hl).1
      · exact Or.inr (Or.inr (Or.inr e))
  · intro k ri hl hs
    rcases hr.midScan k ri hl hs with h1 | h1
    · exact Or.inl h1
    · rcases hinp _ h1 with e | e
      · rw [← e] at hl
        rcases hs with hs | hs
        · exact absurd hs (hpast ri hl).2.1
        · exact absurd hs (hpast ri hl).2.2
      · exact Or.inr e
  · intro a t hl
    have h0 := hr.taskOk a t hl
    refine h0.reframe rfl ?_ ?_ rfl rfl rfl
    · rw [outstanding_hand, ofTask_cons_other (hda a)]
    · have := h0.depsPerm
      rw [unprocessed_hand, ofTask_cons_other (hda a)] at this
      exact this
  · intro r0 h0; rw [outstanding_hand]; exact List.mem_cons_of_mem _ h0
  · intro r0 h0; rw [unprocessed_hand]; exact List.mem_cons_of_mem _ h0
  · intro p hp'
    rcases hr.pendingOk p hp' with ⟨r0, h1, h2, h3⟩ | h1
    · rw [unprocessed_hand] at h1
      rcases List.mem_cons.1 h1 with e | e
      · subst e
        rcases hk with hk | hk
        · have := hpf p hp'; rw [← h3, hk] at this; cases this
        · right; rw [← h3]; exact hk
      · exact Or.inl ⟨r0, e, h2, h3⟩
    · exact Or.inr h1

/-! ## 6. instance: the request is parked in the scan record of its (scanning) input -/

theorem Rel.pause {rules : List RuleSpec} {s : State} {ms : MSt} {r : TaskInputRequest} {ri : RuleInfo} {rec : RuleScanRecord}
    (hr : Rel rules s ms { inp := [r] }) (hp : ms.pend = none)
    (hl : s.ruleInfos.lookup r.inputRuleInfo = some ri) (hs : ri.state = .isScanning)
    (hrec : ri.inProgressInfo = .pendingScanRecord rec) :
    Rel rules (s.setRule { ri with inProgressInfo :=
      InProgressInfo.pendingScanRecord ({ rec with pausedInputRequests := rec.pausedInputRequests ++ [r] }) }) ms {} := by
  generalize hrec' : ({ rec with pausedInputRequests := rec.pausedInputRequests ++ [r] } : RuleScanRecord) = rec'
  generalize hri' : ({ ri with inProgressInfo := .pendingScanRecord rec' } : RuleInfo) = ri'
  have hkey : ri.key = r.inputRuleInfo := hr.keyOk _ ri hl
  have hkey' : ri'.key = r.inputRuleInfo := by rw [← hri']; exact hkey
  have hstate' : ri'.state = .isScanning := by rw [← hri']; exact hs
  have hres' : ri'.result = ri.result := by rw [← hri']
  have hsim : RuleSim ri ri' := by
    rw [← hri']; exact ⟨rfl, rfl, rfl, rfl, rfl, rfl, rfl, fun _ => rfl, fun _ _ => ⟨rec', rfl⟩⟩
  have hlo : liveOf (r.inputRuleInfo, ri) = some (r.inputRuleInfo, rec) := by
    simp [liveOf, RuleInfo.isScanning, hs, RuleInfo.getPendingScanRecord, hrec]
  have hln : liveOf (r.inputRuleInfo, ri') = some (r.inputRuleInfo, rec') := by
    rw [← hri']; simp [liveOf, RuleInfo.isScanning, hs, RuleInfo.getPendingScanRecord]
  obtain ⟨A, B, hA, hB, hnA, hnB⟩ := liveRecords_split hr.rulesNodup hl ri' hkey'
  rw [hlo] at hA; rw [hln] at hB
  simp only [Option.toList] at hA hB
  have hdefer : rec'.deferredScanRequests = rec.deferredScanRequests := by rw [← hrec']
  have hpaused : rec'.pausedInputRequests = rec.pausedInputRequests ++ [r] := by rw [← hrec']
  have hdef : deferredAll (s.setRule ri') = deferredAll s := by
    unfold deferredAll
    rw [hA, hB]
    simp [List.flatMap_append, hdefer, State.setRule]
  have hpa : pausedAll s = A.flatMap (fun p => p.2.pausedInputRequests) ++ rec.pausedInputRequests ++
      B.flatMap (fun p => p.2.pausedInputRequests) := by
    unfold pausedAll; rw [hA]; simp [List.flatMap_append]
  have hpa' : pausedAll (s.setRule ri') = A.flatMap (fun p => p.2.pausedInputRequests) ++ (rec.pausedInputRequests ++ [r]) ++
      B.flatMap (fun p => p.2.pausedInputRequests) := by
    unfold pausedAll; rw [hB]; simp [List.flatMap_append, hpaused]
  have hunp : List.Perm (unprocessed (s.setRule ri') {}) (unprocessed s { inp := [r] }) := by
    rw [unprocessed_hand]
    unfold unprocessed
    rw [hpa, hpa']
    apply List.perm_iff_count.2
    intro x
    simp only [List.count_append, List.count_cons, List.count_nil, State.setRule]
    omega
  have hout : List.Perm (outstanding (s.setRule ri') {}) (outstanding s { inp := [r] }) :=
    List.Perm.append hunp (List.Perm.refl _)
  have x : Xfer s (s.setRule ri') { inp := [r] } {} :=
    { rules := rfl, env := rfl, store := rfl, hasDB := rfl, scanQ := rfl, ready := rfl, finTasks := rfl, deferred := rfl,
      numOut := rfl, numScanned := rfl, epoch := rfl, cancelled := rfl, noResolve := rfl, active := rfl, hscan := rfl,
      ruleNone := setRule_ruleNone hl ri' hkey', ruleSome := setRule_ruleSome hl hkey' hsim,
      rulesNodup := setRule_rulesNodup _ hr.rulesNodup,
      scanCount := setRule_scanCount_same hl hkey' (by simp [RuleInfo.isScanning, hs, hstate']),
      deferredAll := hdef, taskSome := fun _ t' h => ⟨t', h, rfl⟩, taskIsSome := fun _ => rfl,
      taskNodup := hr.taskNodup }
  have hold : ∀ p, p ∈ A ∨ p ∈ B → p ∈ liveRecords s := by
    intro p hp'; rw [hA]; rcases hp' with h1 | h1 <;> simp [h1]
  have hrecS : (r.inputRuleInfo, rec) ∈ liveRecords s := by rw [hA]; simp
  have hnew : ∀ p ∈ liveRecords (s.setRule ri'), (p ∈ A ∨ p ∈ B) ∧ p.1 ≠ r.inputRuleInfo ∨ p = (r.inputRuleInfo, rec') := by
    intro p hp'
    rw [hB] at hp'
    simp only [List.mem_append, List.mem_singleton] at hp'
    rcases hp' with (h1 | h1) | h1
    · exact Or.inl ⟨Or.inl h1, hnA p h1⟩
    · exact Or.inr h1
    · exact Or.inl ⟨Or.inr h1, hnB p h1⟩
  refine hr.xfer hp x ?_ hr.deferredAtTask ?_ ?_ ?_ ?_ ?_ hr.dummyUnproc ?_ hr.requestedAt hr.finDone ?_
  · intro p hp' r0 h0
    rcases hnew p hp' with ⟨h1, _⟩ | h1
    · exact hr.deferredAtRecord p (hold p h1) r0 h0
    · subst h1; rw [hdefer] at h0
      exact hr.deferredAtRecord _ hrecS r0 h0
  · intro p hp'
    rcases hnew p hp' with ⟨h1, hne⟩ | h1
    · rcases hr.recordWaited p (hold p h1) with h2 | h2 | h2 | ⟨r0, h2, h3⟩
      · exact Or.inl h2
      · exact Or.inr (Or.inl h2)
      · exact Or.inr (Or.inr (Or.inl h2))
      · rcases List.mem_cons.1 h2 with e | e
        · subst e; exact absurd h3.symm (fun e => hne e)
        · exact Or.inr (Or.inr (Or.inr ⟨r0, e, h3⟩))
    · subst h1; left; rw [hpaused]; simp
  · intro k ri0 hl0 hs0
    rw [setRule_lookup, hkey'] at hl0
    by_cases e : k = r.inputRuleInfo
    · subst e
      simp only [if_true, Option.some.injEq] at hl0
      rw [← hl0, hstate'] at hs0
      rcases hs0 with hs0 | hs0 <;> cases hs0
    · simp only [e, if_false] at hl0
      rcases hr.midScan k ri0 hl0 hs0 with h1 | ⟨r0, h2, h3⟩
      · exact Or.inl h1
      · rcases List.mem_cons.1 h2 with e' | e'
        · subst e'; exact absurd h3.symm e
        · exact Or.inr ⟨r0, e', h3⟩
  · intro a t hl0
    have h0 := hr.taskOk a t hl0
    have hres : ((s.setRule ri').rule a).result = (s.rule a).result := by
      rw [setRule_rule, hkey']
      by_cases e : a = r.inputRuleInfo
      · subst e; simp only [if_true]; rw [hres', rule_of_lookup hl]
      · simp [e]
    refine h0.reframe (x.rule_state a) (ofTask_perm hout) ?_ rfl rfl rfl
    rw [hres]
    exact h0.depsPerm.trans (List.Perm.append_left _ (List.Perm.map _ (ofTask_perm hunp).symm))
  · intro r0 h0; exact hout.mem_iff.1 h0
  · intro r0 h0; exact hunp.mem_iff.1 h0
  · intro p hp' r0 h0
    rcases hnew p hp' with ⟨h1, _⟩ | h1
    · exact hr.pausedAt p (hold p h1) r0 h0
    · subst h1; rw [hpaused] at h0
      rcases List.mem_append.1 h0 with h2 | h2
      · exact hr.pausedAt _ hrecS r0 h2
      · simp at h2; subst h2; rfl
  · intro p hp'
    rcases hr.pendingOk p hp' with ⟨r0, h1, h2⟩ | h1
    · exact Or.inl ⟨r0, hunp.mem_iff.2 h1, h2⟩
    · exact Or.inr h1

/-! ## 7. instance: a task's request is recorded as a dependency and queued (finished / `requestedBy`) -/

/-- the engine after `processInputRequest` recorded the dependency (`ria'` = the requesting rule with the dependency
appended) and queued the request: as finished (`tk = none`) or at the task of the input (`tk = some t`) -/
def inputDoneState (ria' : RuleInfo) (r : TaskInputRequest) (tk : Option TaskInfo) (s : State) : State :=
  match tk with
  | none => { s.setRule ria' with finishedInputRequests := s.finishedInputRequests ++ [r] }
  | some t => (s.setRule ria').setTask { t with requestedBy := t.requestedBy ++ [r] }

section inputDone
variable (ria' : RuleInfo) (r : TaskInputRequest) (tk : Option TaskInfo) (s : State)

theorem inputDone_ruleInfos : (inputDoneState ria' r tk s).ruleInfos = (s.setRule ria').ruleInfos := by cases tk <;> rfl
theorem inputDone_rules : (inputDoneState ria' r tk s).rules = s.rules := by cases tk <;> rfl
theorem inputDone_env : (inputDoneState ria' r tk s).env = s.env := by cases tk <;> rfl
theorem inputDone_store : (inputDoneState ria' r tk s).store = s.store := by cases tk <;> rfl
theorem inputDone_hasDB : (inputDoneState ria' r tk s).hasDB = s.hasDB := by cases tk <;> rfl
theorem inputDone_scanQ : (inputDoneState ria' r tk s).ruleInfosToScan = s.ruleInfosToScan := by cases tk <;> rfl
theorem inputDone_inputRequests : (inputDoneState ria' r tk s).inputRequests = s.inputRequests := by cases tk <;> rfl
theorem inputDone_ready : (inputDoneState ria' r tk s).readyTaskInfos = s.readyTaskInfos := by cases tk <;> rfl
theorem inputDone_finTasks : (inputDoneState ria' r tk s).finishedTaskInfos = s.finishedTaskInfos := by cases tk <;> rfl
theorem inputDone_deferred : (inputDoneState ria' r tk s).pendingDeferred = s.pendingDeferred := by cases tk <;> rfl
theorem inputDone_numOut : (inputDoneState ria' r tk s).numOutstandingUnfinishedTasks = s.numOutstandingUnfinishedTasks := by
  cases tk <;> rfl
theorem inputDone_numScanned : (inputDoneState ria' r tk s).numRulesBeingScanned = s.numRulesBeingScanned := by cases tk <;> rfl
theorem inputDone_epoch : (inputDoneState ria' r tk s).currentEpoch = s.currentEpoch := by cases tk <;> rfl
theorem inputDone_cancelled : (inputDoneState ria' r tk s).buildCancelled = s.buildCancelled := by cases tk <;> rfl
theorem inputDone_noResolve : (inputDoneState ria' r tk s).shouldResolveCycle = s.shouldResolveCycle := by cases tk <;> rfl
theorem inputDone_active : (inputDoneState ria' r tk s).buildActive = s.buildActive := by cases tk <;> rfl
theorem inputDone_trace : (inputDoneState ria' r tk s).trace = s.trace := by cases tk <;> rfl
theorem inputDone_halted : (inputDoneState ria' r tk s).halted = s.halted := by cases tk <;> rfl

end inputDone

/-- the task list when `requestedBy` of the task of `k` gets one more request -/
theorem tasks_split {s : State} {k : Key} {t : TaskInfo} (hl : s.taskInfos.lookup k = some t) (t' : TaskInfo)
    (hk : t'.forRuleInfo = k) :
    ∃ l1 l2, s.taskInfos = l1 ++ (k, t) :: l2 ∧ (s.setTask t').taskInfos = l1 ++ (k, t') :: l2 := by
  obtain ⟨l1, l2, h1, h2, _⟩ := alSet_split s.taskInfos k t t' hl
  exact ⟨l1, l2, h1, by simp [State.setTask, hk, h2]⟩

theorem Rel.inputDone {rules : List RuleSpec} {s : State} {ms : MSt} {r : TaskInputRequest} {a : Key} {ria : RuleInfo}
    (hr : Rel rules s ms { inp := [r] }) (hp : ms.pend = none)
    (hta : r.taskInfo = some a) (hla : s.ruleInfos.lookup a = some ria) (tk : Option TaskInfo)
    (hcase : match tk with
      | none => isDone ms.m r.inputRuleInfo = true
      | some t => s.taskInfos.lookup r.inputRuleInfo = some t) :
    Rel rules (inputDoneState { ria with result := { ria.result with deps := ria.result.deps ++ [depOf r] } } r tk s) ms {} := by
  generalize hria' : ({ ria with result := { ria.result with deps := ria.result.deps ++ [depOf r] } } : RuleInfo) = ria'
  have hrm : r ∈ outstanding s { inp := [r] } := by rw [outstanding_hand]; exact List.mem_cons_self
  have hwait : ria.state = .inProgressWaiting := by
    have := (hr.reqTask r hrm a hta).2
    rwa [rule_of_lookup hla] at this
  have hkey : ria.key = a := hr.keyOk a ria hla
  have hkey' : ria'.key = a := by rw [← hria']; exact hkey
  have hstate' : ria'.state = .inProgressWaiting := by rw [← hria']; exact hwait
  have hdeps' : ria'.result.deps = ria.result.deps ++ [depOf r] := by rw [← hria']
  have hsim : RuleSim ria ria' := by
    rw [← hria']
    exact ⟨rfl, rfl, rfl, rfl, rfl, rfl, rfl, fun h => (by rw [hwait] at h; cases h), fun r0 h => ⟨r0, h⟩⟩
  have hk : isDone ms.m r.inputRuleInfo = true ∨ (s.taskInfos.lookup r.inputRuleInfo).isSome = true := by
    cases tk with
    | none => exact Or.inl hcase
    | some t => right; simp only at hcase; rw [hcase]; rfl
  have hpast : ∀ ri, s.ruleInfos.lookup r.inputRuleInfo = some ri →
      ri.state ≠ .isScanning ∧ ri.state ≠ .needsToRun ∧ ri.state ≠ .doesNotNeedToRun := fun ri hl => hr.pastScan hk hl
  generalize hS' : inputDoneState ria' r tk s = S'
  have eR : S'.ruleInfos = (s.setRule ria').ruleInfos := by rw [← hS']; exact inputDone_ruleInfos _ _ _ _
  have eI : S'.inputRequests = s.inputRequests := by rw [← hS']; exact inputDone_inputRequests _ _ _ _
  have eQ : S'.ruleInfosToScan = s.ruleInfosToScan := by rw [← hS']; exact inputDone_scanQ _ _ _ _
  have hlive : liveRecords S' = liveRecords s := by
    have : liveRecords S' = liveRecords (s.setRule ria') := by unfold liveRecords; rw [eR]
    rw [this]
    exact setRule_liveRecords_nn hla hkey' (by simp [RuleInfo.isScanning, hwait]) (by simp [RuleInfo.isScanning, hstate'])
  have hlookR : ∀ k', S'.ruleInfos.lookup k' = if k' = a then some ria' else s.ruleInfos.lookup k' := by
    intro k'; rw [eR, setRule_lookup, hkey']
  have hruleA : S'.rule a = ria' := by unfold State.rule; rw [hlookR]; simp
  have hruleNe : ∀ k', k' ≠ a → S'.rule k' = s.rule k' := by
    intro k' hne; unfold State.rule; rw [hlookR]; simp [hne]
  -- the task side
  have hT : (∀ a0 t0', S'.taskInfos.lookup a0 = some t0' →
        ∃ t0, s.taskInfos.lookup a0 = some t0 ∧ t0' = { t0 with requestedBy := t0'.requestedBy }) ∧
      (∀ a0, (S'.taskInfos.lookup a0).isSome = (s.taskInfos.lookup a0).isSome) ∧
      (S'.taskInfos.map (fun p => p.1)).Nodup ∧
      (∀ p ∈ S'.taskInfos, ∃ p0 ∈ s.taskInfos, p.1 = p0.1 ∧ p.2.deferredScanRequests = p0.2.deferredScanRequests ∧
        ∀ r0 ∈ p.2.requestedBy, r0 ∈ p0.2.requestedBy ∨ (r0 = r ∧ p.1 = r.inputRuleInfo)) ∧
      S'.taskInfos.flatMap (fun p => p.2.deferredScanRequests) = s.taskInfos.flatMap (fun p => p.2.deferredScanRequests) ∧
      List.Perm (processed S' {}) (r :: processed s {}) ∧
      (∀ r0 ∈ ({} : Hand).fin ++ S'.finishedInputRequests, isDone ms.m r0.inputRuleInfo = true) := by
    cases tk with
    | none =>
      simp only at hcase
      have eT : S'.taskInfos = s.taskInfos := by rw [← hS']; rfl
      have eF : S'.finishedInputRequests = s.finishedInputRequests ++ [r] := by rw [← hS']; rfl
      refine ⟨fun a0 t0' h0 => ⟨t0', by rw [← eT]; exact h0, rfl⟩, fun a0 => by rw [eT], by rw [eT]; exact hr.taskNodup,
        fun p hp' => ⟨p, by rw [← eT]; exact hp', rfl, rfl, fun r0 h0 => Or.inl h0⟩, by rw [eT], ?_, ?_⟩
      · unfold processed requestedByAll
        rw [eT, eF]
        apply List.perm_iff_count.2
        intro x
        simp only [List.count_append, List.count_cons, List.count_nil]
        omega
      · intro r0 h0
        rw [eF] at h0
        simp only [List.mem_append, List.mem_singleton] at h0
        rcases h0 with h0 | h0 | h0
        · cases h0
        · exact hr.finDone r0 (List.mem_append_right _ h0)
        · subst h0; exact hcase
    | some t =>
      simp only at hcase
      have hfor : t.forRuleInfo = r.inputRuleInfo := (hr.taskOk _ t hcase).forRule
      generalize ht' : ({ t with requestedBy := t.requestedBy ++ [r] } : TaskInfo) = t'
      have hfor' : t'.forRuleInfo = r.inputRuleInfo := by rw [← ht']; exact hfor
      have eT : S'.taskInfos = (s.setTask t').taskInfos := by rw [← hS', ← ht']; rfl
      have eF : S'.finishedInputRequests = s.finishedInputRequests := by rw [← hS']; rfl
      have hlookT : ∀ a0, S'.taskInfos.lookup a0 = if a0 = r.inputRuleInfo then some t' else s.taskInfos.lookup a0 := by
        intro a0; rw [eT, setTask_lookup, hfor']
      obtain ⟨l1, l2, h1, h2⟩ := tasks_split hcase t' hfor'
      rw [← eT] at h2
      have hmem : ∀ p ∈ S'.taskInfos, p ∈ s.taskInfos ∨ p = (r.inputRuleInfo, t') := by
        intro p hp'
        rw [h2] at hp'; rw [h1]
        simp only [List.mem_append, List.mem_cons] at hp' ⊢
        rcases hp' with h0 | h0 | h0
        · exact Or.inl (Or.inl h0)
        · exact Or.inr h0
        · exact Or.inl (Or.inr (Or.inr h0))
      have hin : (r.inputRuleInfo, t) ∈ s.taskInfos := by rw [h1]; simp
      refine ⟨?_, ?_, ?_, ?_, ?_, ?_, ?_⟩
      · intro a0 t0' h0
        rw [hlookT] at h0
        by_cases e : a0 = r.inputRuleInfo
        · subst e
          simp only [if_true, Option.some.injEq] at h0
          exact ⟨t, hcase, by rw [← h0, ← ht']⟩
        · simp only [e, if_false] at h0
          exact ⟨t0', h0, rfl⟩
      · intro a0
        rw [hlookT]
        by_cases e : a0 = r.inputRuleInfo
        · subst e; simp [hcase]
        · simp [e]
      · rw [eT]; exact alSet_keys_nodup _ _ _ hr.taskNodup
      · intro p hp'
        rcases hmem p hp' with h0 | h0
        · exact ⟨p, h0, rfl, rfl, fun r0 h3 => Or.inl h3⟩
        · subst h0
          refine ⟨_, hin, rfl, by rw [← ht'], ?_⟩
          intro r0 h3
          rw [← ht'] at h3
          simp only [List.mem_append, List.mem_singleton] at h3
          rcases h3 with h3 | h3
          · exact Or.inl h3
          · exact Or.inr ⟨h3, rfl⟩
      · rw [h1, h2]; simp [List.flatMap_append, ← ht']
      · unfold processed requestedByAll
        rw [eF, h1, h2]
        apply List.perm_iff_count.2
        intro x
        simp only [List.flatMap_append, List.flatMap_cons, ← ht', List.count_append, List.count_cons, List.count_nil]
        omega
      · intro r0 h0; rw [eF] at h0; exact hr.finDone r0 h0
  obtain ⟨hT1, hT2, hT3, hT4, hT5, hT6, hT7⟩ := hT
  have hpaused : pausedAll S' = pausedAll s := by unfold pausedAll; rw [hlive]
  have hunp0 : unprocessed S' {} = unprocessed s {} := by unfold unprocessed; rw [eI, hpaused]
  have hout : List.Perm (outstanding S' {}) (outstanding s { inp := [r] }) := by
    rw [outstanding_hand]
    unfold outstanding
    rw [hunp0]
    exact (List.Perm.append_left _ hT6).trans List.perm_middle
  have x : Xfer s S' { inp := [r] } {} :=
    { rules := by rw [← hS']; exact inputDone_rules _ _ _ _, env := by rw [← hS']; exact inputDone_env _ _ _ _,
      store := by rw [← hS']; exact inputDone_store _ _ _ _, hasDB := by rw [← hS']; exact inputDone_hasDB _ _ _ _,
      scanQ := eQ, ready := by rw [← hS']; exact inputDone_ready _ _ _ _,
      finTasks := by rw [← hS']; exact inputDone_finTasks _ _ _ _,
      deferred := by rw [← hS']; exact inputDone_deferred _ _ _ _,
      numOut := by rw [← hS']; exact inputDone_numOut _ _ _ _,
      numScanned := by rw [← hS']; exact inputDone_numScanned _ _ _ _,
      epoch := by rw [← hS']; exact inputDone_epoch _ _ _ _,
      cancelled := by rw [← hS']; exact inputDone_cancelled _ _ _ _,
      noResolve := by rw [← hS']; exact inputDone_noResolve _ _ _ _,
      active := by rw [← hS']; exact inputDone_active _ _ _ _, hscan := rfl,
      ruleNone := by rw [eR]; exact setRule_ruleNone hla ria' hkey',
      ruleSome := by rw [eR]; exact setRule_ruleSome hla hkey' hsim,
      rulesNodup := by rw [eR]; exact setRule_rulesNodup _ hr.rulesNodup,
      scanCount := by
        rw [eR]; exact setRule_scanCount_same hla hkey' (by simp [RuleInfo.isScanning, hwait, hstate']),
      deferredAll := by unfold deferredAll; rw [hlive, hT5],
      taskSome := hT1, taskIsSome := hT2, taskNodup := hT3 }
  have hinp : ∀ (P : TaskInputRequest → Prop), (∃ r0 ∈ ({ inp := [r] } : Hand).inp ++ s.inputRequests, P r0) →
      P r ∨ ∃ r0 ∈ ({} : Hand).inp ++ S'.inputRequests, P r0 := by
    intro P ⟨r0, h1, h2⟩
    rw [eI]
    rcases List.mem_cons.1 h1 with e | e
    · subst e; exact Or.inl h2
    · exact Or.inr ⟨r0, e, h2⟩
  refine hr.xfer hp x ?_ ?_ ?_ ?_ ?_ ?_ ?_ ?_ ?_ ?_ hT7 ?_
  · rw [hlive]; exact hr.deferredAtRecord
  · intro p hp' r0 h0
    obtain ⟨p0, h1, h2, h3, _⟩ := hT4 p hp'
    rw [h3] at h0; rw [h2]
    exact hr.deferredAtTask p0 h1 r0 h0
  · intro p hp'
    rw [hlive] at hp'
    rw [eQ]
    rcases hr.recordWaited p hp' with h1 | h1 | h1 | h1
    · exact Or.inl h1
    · exact Or.inr (Or.inl h1)
    · exact Or.inr (Or.inr (Or.inl h1))
    · rcases hinp _ h1 with e | e
      · obtain ⟨ri, hl, hs⟩ := liveRecords_mem hr.rulesNodup hp'
        rw [← e] at hl
        exact absurd hs (hpast ri hl).1
      · exact Or.inr (Or.inr (Or.inr e))
  · intro k ri' hl' hs
    obtain ⟨ri, hl, hsm⟩ := x.ruleBack hl'
    rw [hsm.state] at hs
    rw [eQ]
    rcases hr.midScan k ri hl hs with h1 | h1
    · exact Or.inl h1
    · rcases hinp _ h1 with e | e
      · rw [← e] at hl
        rcases hs with hs | hs
        · exact absurd hs (hpast ri hl).2.1
        · exact absurd hs (hpast ri hl).2.2
      · exact Or.inr e
  · intro a0 t0' hl0
    obtain ⟨t0, h1, h2⟩ := hT1 a0 t0' hl0
    have h0 := hr.taskOk a0 t0 h1
    rw [h2]
    apply TaskOk.requestedBy
    refine h0.reframe (x.rule_state a0) (ofTask_perm hout) ?_ rfl rfl rfl
    have hd := h0.depsPerm
    rw [hunp0]
    rw [unprocessed_hand] at hd
    by_cases e : a0 = a
    · subst e
      rw [ofTask_cons_self hta, rule_of_lookup hla] at hd
      rw [hruleA, hdeps']
      simpa using hd
    · have hne : r.taskInfo ≠ some a0 := by rw [hta]; intro e'; exact e (Option.some.inj e').symm
      rw [ofTask_cons_other hne] at hd
      rw [hruleNe a0 e]; exact hd
  · intro r0 h0; exact hout.mem_iff.1 h0
  · intro r0 h0; rw [hunp0] at h0; rw [unprocessed_hand]; exact List.mem_cons_of_mem _ h0
  · intro r0 h0
    rcases List.mem_cons.1 (hT6.mem_iff.1 h0) with e | e
    · subst e; rw [hta]; simp
    · exact hr.dummyUnproc r0 e
  · rw [hlive]; exact hr.pausedAt
  · intro p hp' r0 h0
    obtain ⟨p0, h1, h2, _, h4⟩ := hT4 p hp'
    rcases h4 r0 h0 with h5 | ⟨h5, h6⟩
    · rw [h2]; exact hr.requestedAt p0 h1 r0 h5
    · rw [h5, h6]
  · intro p hp'
    rcases hr.pendingOk p hp' with ⟨r0, h1, h2, h3⟩ | h1
    · rw [unprocessed_hand] at h1
      rcases List.mem_cons.1 h1 with e | e
      · subst e; rw [hta] at h2; cases h2
      · exact Or.inl ⟨r0, by rw [hunp0]; exact e, h2, h3⟩
    · exact Or.inr (by rw [hT2]; exact h1)

/-! ## 8. `processInputRequest` -/

/-- the part of `processInputRequest` after `demandRule` -/
def inputTail (r : TaskInputRequest) (avail : Bool) (s : State) : State :=
  match r.taskInfo with
  | none => s
  | some task =>
    let s3 := s.modRule (s.task task).forRuleInfo (fun ri =>
      { ri with result := { ri.result with deps := ri.result.deps ++ [depOf r] } })
    if avail then { s3 with finishedInputRequests := s3.finishedInputRequests ++ [r] }
    else s3.modTask r.inputRuleInfo (fun t => { t with requestedBy := t.requestedBy ++ [r] })

theorem processInputRequest_eq (r : TaskInputRequest) (s : State) :
    processInputRequest r s =
      if (scanRule r.inputRuleInfo s).1 = false then
        modScanRecord r.inputRuleInfo (fun rc => { rc with pausedInputRequests := rc.pausedInputRequests ++ [r] })
          (scanRule r.inputRuleInfo s).2
      else inputTail r (demandRule r.inputRuleInfo (scanRule r.inputRuleInfo s).2).1
        (demandRule r.inputRuleInfo (scanRule r.inputRuleInfo s).2).2 := by
  rcases h1 : scanRule r.inputRuleInfo s with ⟨b1, s1⟩
  rcases h2 : demandRule r.inputRuleInfo s1 with ⟨b2, s2⟩
  simp only [processInputRequest, h1, h2, inputTail]
  cases b1 <;> cases b2 <;> cases r.taskInfo <;> rfl

theorem inputTail_halted (r : TaskInputRequest) (b : Bool) (s : State) : (inputTail r b s).halted = s.halted := by
  unfold inputTail; cases r.taskInfo <;> cases b <;> rfl
theorem inputTail_trace (r : TaskInputRequest) (b : Bool) (s : State) : (inputTail r b s).trace = s.trace := by
  unfold inputTail; cases r.taskInfo <;> cases b <;> rfl
theorem inputTail_scanQ (r : TaskInputRequest) (b : Bool) (s : State) :
    (inputTail r b s).ruleInfosToScan = s.ruleInfosToScan := by
  unfold inputTail; cases r.taskInfo <;> cases b <;> rfl

theorem lookup_of_state {s : State} {k : Key} (h : (s.rule k).state ≠ .incomplete) :
    ∃ ri, s.ruleInfos.lookup k = some ri := by
  cases hl : s.ruleInfos.lookup k with
  | none => unfold State.rule at h; rw [hl] at h; exact absurd rfl h
  | some ri => exact ⟨ri, rfl⟩

theorem registered_setRule {s : State} {ri : RuleInfo} {k : Key} (h : Registered s k) : Registered (s.setRule ri) k := by
  unfold Registered at *
  rw [setRule_lookup]; split <;> simp [h]

/-- the monitor's guard `demanded` for the key of the request in hand -/
theorem demanded_of_hand {rules : List RuleSpec} {s : State} {ms : MSt} {r : TaskInputRequest}
    (hr : Rel rules s ms { inp := [r] }) (hp : ms.pend = none) :
    ms.m.status r.inputRuleInfo = .idle → demanded ms.m r.inputRuleInfo = true := by
  intro hidle
  have hrm : r ∈ outstanding s { inp := [r] } := by rw [outstanding_hand]; exact List.mem_cons_self
  have hru : r ∈ unprocessed s { inp := [r] } := by rw [unprocessed_hand]; exact List.mem_cons_self
  unfold demanded
  simp only [Bool.or_eq_true]
  cases hti : r.taskInfo with
  | none =>
    rcases hr.dummyOk r hru hti with h1 | h1 | ⟨p, h1, h2⟩ | ⟨k, t, h1, _⟩
    · exact absurd hidle h1
    · exact Or.inl (Or.inl (Or.inl (by simp [h1])))
    · exact Or.inl (Or.inl (Or.inr (List.any_eq_true.2 ⟨p, h1, by simp [h2]⟩)))
    · rw [hp] at h1; cases h1
  | some a =>
    obtain ⟨hts, hst⟩ := hr.reqTask r hrm a hti
    obtain ⟨t, ht⟩ := Option.isSome_iff_exists.1 hts
    have tok := hr.taskOk a t ht
    obtain ⟨q, hq, hrq, _⟩ := tok.outIssued r (mem_ofTask.2 ⟨hrm, hti⟩)
    obtain ⟨ria, hla⟩ := lookup_of_state (s := s) (k := a) (by rw [hst]; decide)
    have hstat : ms.m.status a = .running := by
      rw [hr.status a]
      unfold statusOf
      rw [hla]
      rw [rule_of_lookup hla] at hst
      simp [hst]
    have hran : a ∈ ms.m.ran := hr.inRan a (Or.inl hstat)
    have hqm : q ∈ (ms.m.task a).issued := by rw [tok.issued]; exact List.mem_append_left _ hq
    have hqk : q.key = r.inputRuleInfo := by rw [hrq]; rfl
    refine Or.inr (List.any_eq_true.2 ⟨a, hran, ?_⟩)
    simp only [hstat, beq_self_eq_true, Bool.true_and]
    exact List.any_eq_true.2 ⟨q, hqm, by simp [hqk]⟩

/-- the tail of `processInputRequest` (after `demandRule`) under the relation -/
theorem inputTail_rel {rules : List RuleSpec} {s : State} {ms : MSt} {r : TaskInputRequest} {b : Bool}
    (hr : Rel rules s ms { inp := [r] }) (hp : ms.pend = none) (hpf : PendFresh ms.m)
    (hb1 : b = true → isDone ms.m r.inputRuleInfo = true)
    (hb2 : b = false → (s.taskInfos.lookup r.inputRuleInfo).isSome = true) :
    Rel rules (inputTail r b s) ms {} ∧ RegMono s (inputTail r b s) := by
  have hrm : r ∈ outstanding s { inp := [r] } := by rw [outstanding_hand]; exact List.mem_cons_self
  have hk : isDone ms.m r.inputRuleInfo = true ∨ (s.taskInfos.lookup r.inputRuleInfo).isSome = true := by
    cases b
    · exact Or.inr (hb2 rfl)
    · exact Or.inl (hb1 rfl)
  cases hti : r.taskInfo with
  | none =>
    have e : inputTail r b s = s := by unfold inputTail; rw [hti]
    rw [e]
    exact ⟨hr.dropDummy hp hti hk hpf, fun _ h => h⟩
  | some a =>
    obtain ⟨hts, hst⟩ := hr.reqTask r hrm a hti
    obtain ⟨ta, hta⟩ := Option.isSome_iff_exists.1 hts
    have hfor : (s.task a).forRuleInfo = a := by rw [task_of_lookup hta]; exact (hr.taskOk a ta hta).forRule
    obtain ⟨ria, hla⟩ := lookup_of_state (s := s) (k := a) (by rw [hst]; decide)
    generalize hria' : ({ ria with result := { ria.result with deps := ria.result.deps ++ [depOf r] } } : RuleInfo) = ria'
    have hkey' : ria'.key = a := by rw [← hria']; exact hr.keyOk a ria hla
    have e : ∃ tk : Option TaskInfo, inputTail r b s = inputDoneState ria' r tk s ∧
        (match tk with
          | none => isDone ms.m r.inputRuleInfo = true
          | some t => s.taskInfos.lookup r.inputRuleInfo = some t) := by
      cases b with
      | true =>
        refine ⟨none, ?_, hb1 rfl⟩
        unfold inputTail
        rw [hti]
        simp only [if_true, hfor, State.modRule, rule_of_lookup hla, hria']
        rfl
      | false =>
        obtain ⟨tk, htk⟩ := Option.isSome_iff_exists.1 (hb2 rfl)
        refine ⟨some tk, ?_, htk⟩
        unfold inputTail
        rw [hti]
        simp only [Bool.false_eq_true, if_false, hfor, State.modRule, rule_of_lookup hla, hria']
        have : (s.setRule ria').task r.inputRuleInfo = tk := by
          unfold State.task; rw [show (s.setRule ria').taskInfos = s.taskInfos from rfl, htk]; rfl
        unfold State.modTask
        rw [this]
        rfl
    obtain ⟨tk, e1, e2⟩ := e
    rw [e1, ← hria']
    refine ⟨hr.inputDone hp hti hla tk e2, ?_⟩
    intro k' hk'
    unfold Registered
    rw [inputDone_ruleInfos]
    exact registered_setRule hk'

/-- **`processInputRequest` refines the monitor** (`Todo_processInputRequest` with one more hypothesis).
-- STRENGTHENED: `PendFresh ms.m` (and returned in the post).  `Rel` alone is not inductive here: for a DUMMY request whose
key is already complete, `Rel.pendingOk` of the result needs "no pending entry for a done key" when the dummy in hand
was the only witness for that entry; `Rel` has no clause saying so (`pending = [(k, v)]`, `k` complete, its dummy in
hand satisfies every clause of `Rel`).  The fact is an invariant of the monitor alone (`step_pendFresh`), so callers
get it back from every `Sim` by `trun_pendFresh` / `Sim.pendFresh`. -/
theorem processInputRequest_sim (hdemand : Todo_demandRule) :
    ∀ rules, RulesOk rules → ∀ (s : State) (ms : MSt) (r : TaskInputRequest),
      Rel rules s ms { inp := [r] } → ms.pend = none → s.halted = false → FreshScanQ s →
      PendFresh ms.m →
      Sim rules s ms (processInputRequest r s) {}
        (fun ms' => FreshScanQ (processInputRequest r s) ∧ PendFresh ms'.m) := by
  intro rules hok s ms r hr hp hh hfq hpf
  rw [processInputRequest_eq]
  have hrm : r ∈ outstanding s { inp := [r] } := by rw [outstanding_hand]; exact List.mem_cons_self
  have hreg : Registered s r.inputRuleInfo := (hr.reqReg r hrm).1
  have hin : InHand { inp := [r] } s r.inputRuleInfo := Or.inr ⟨r, List.mem_cons_self, rfl⟩
  have hsr := scanRule_sim rules hok s ms { inp := [r] } r.inputRuleInfo hr hp hh hreg hin (demanded_of_hand hr hp)
  have hfq1 : FreshScanQ (scanRule r.inputRuleInfo s).2 := hfq.scanRule
  generalize scanRule r.inputRuleInfo s = p1 at hsr hfq1 ⊢
  obtain ⟨b1, s1⟩ := p1
  simp only at hsr hfq1 ⊢
  cases b1 with
  | false =>
    simp only [if_true]
    intro hfin
    have hh1 : s1.halted = false := by
      cases hx : s1.halted with
      | false => rfl
      | true => rw [rs_modScanRecord closed_halted _ _ s1 hx] at hfin; cases hfin
    obtain ⟨toks1, ms1, he1, hrun1, hrel1, hp1, hreg1, htgt1, _, _, hsc1⟩ := hsr hh1
    have hs1 := hsc1 rfl
    obtain ⟨ri1, hl1⟩ := Option.isSome_iff_exists.1 (hreg1 _ hreg)
    rw [rule_of_lookup hl1] at hs1
    obtain ⟨rc, hrc⟩ := hrel1.recordLive _ ri1 hl1 hs1
    have e : modScanRecord r.inputRuleInfo (fun rc => { rc with pausedInputRequests := rc.pausedInputRequests ++ [r] }) s1 =
        s1.setRule { ri1 with inProgressInfo :=
          InProgressInfo.pendingScanRecord ({ rc with pausedInputRequests := rc.pausedInputRequests ++ [r] }) } := by
      unfold modScanRecord
      rw [rule_of_lookup hl1]
      simp only [RuleInfo.getPendingScanRecord, hrc, State.modRule, rule_of_lookup hl1]
    rw [e]
    refine ⟨toks1, ms1, he1, hrun1, hrel1.pause hp1 hl1 hs1 hrc, hp1, ?_, htgt1, hfq1, trun_pendFresh _ hrun1 hpf⟩
    intro k' hk'; exact registered_setRule (hreg1 k' hk')
  | true =>
    simp only [Bool.true_eq_false, if_false]
    intro hfin
    rw [inputTail_halted] at hfin
    have hh1 : s1.halted = false := (haltMono_all.2.1 r.inputRuleInfo).of_result hfin
    obtain ⟨toks1, ms1, he1, hrun1, hrel1, hp1, hreg1, htgt1, _, hsc1, _⟩ := hsr hh1
    have hd := hdemand rules hok s1 ms1 { inp := [r] } r.inputRuleInfo rfl hrel1 hp1 hh1 rfl (hreg1 _ hreg) (hsc1 rfl)
    have hfq2 : FreshScanQ (demandRule r.inputRuleInfo s1).2 := by
      intro x hx; rw [demandRule_scanQ] at hx; exact hfq1 x hx
    obtain ⟨toks2, ms2, he2, hrun2, hrel2, hp2, hreg2, htgt2, hb1, hb2, _⟩ := hd hfin
    have hpf2 := trun_pendFresh _ hrun2 (trun_pendFresh _ hrun1 hpf)
    obtain ⟨hrel3, hreg3⟩ := inputTail_rel hrel2 hp2 hpf2 hb1 hb2
    refine ⟨toks1 ++ toks2, ms2, ?_, trun_append_some hrun1 hrun2, hrel3, hp2, ?_, htgt2.trans htgt1, ?_, hpf2⟩
    · have := he1.trans he2
      unfold Emits at this ⊢
      rw [inputTail_trace]; exact this
    · exact fun k' hk' => hreg3 k' (hreg2 k' (hreg1 k' hk'))
    · intro x hx; rw [inputTail_scanQ] at hx; exact hfq2 x hx

/-! ## 9. `inputRequestsLoop` -/

/-- no scan verdict is left once the input queue is drained and the scan queue is fresh -/
theorem noMid_of_drained {rules : List RuleSpec} {s : State} {ms : MSt} (hr : Rel rules s ms {})
    (hq : s.inputRequests = []) (hfq : FreshScanQ s) : NoMid s := by
  have key : ∀ k ri, s.ruleInfos.lookup k = some ri → ¬ (ri.state = .needsToRun ∨ ri.state = .doesNotNeedToRun) := by
    intro k ri hl hs
    rcases hr.midScan k ri hl hs with ⟨x, hx, hx2⟩ | ⟨x, hx, _⟩
    · have hx' : x ∈ s.ruleInfosToScan := hx
      rw [hfq x hx'] at hx2; cases hx2
    · have hx' : x ∈ s.inputRequests := hx
      rw [hq] at hx'; cases hx'
  intro k ri hl
  exact ⟨fun e => key k ri hl (Or.inl e), fun e => key k ri hl (Or.inr e)⟩

/-- **`inputRequestsLoop` refines the monitor** (`Todo_inputRequestsLoop` with one more hypothesis).
-- STRENGTHENED: `PendFresh ms.m` (monitor invariant, returned in the post): see `processInputRequest_sim`. -/
theorem inputRequestsLoop_sim (hdemand : Todo_demandRule) :
    ∀ rules, RulesOk rules → ∀ (fuel : Nat) (w : Bool) (s : State) (ms : MSt),
      Rel rules s ms {} → ms.pend = none → s.halted = false → FreshScanQ s →
      PendFresh ms.m →
      Sim rules s ms (inputRequestsLoop fuel w s).2 {} (fun ms' =>
        ((inputRequestsLoop fuel w s).2.inputRequests = [] ∧ NoMid (inputRequestsLoop fuel w s).2 ∧
          FreshScanQ (inputRequestsLoop fuel w s).2) ∧ PendFresh ms'.m) := by
  intro rules hok fuel
  induction fuel with
  | zero =>
    intro w s ms _ _ _ _ _ hfin
    rw [inputRequestsLoop] at hfin
    simp only at hfin
    rw [halt_halted] at hfin; cases hfin
  | succ fuel ih =>
    intro w s ms hr hp hh hfq hpf
    rw [inputRequestsLoop]
    cases hq : s.inputRequests with
    | nil =>
      simp only
      intro _
      exact ⟨[], ms, Emits.refl s, rfl, hr, hp, fun _ x => x, rfl, ⟨hq, noMid_of_drained hr hq hfq, hfq⟩, hpf⟩
    | cons r rest =>
      simp only
      have hr0 := hr.popInput hp hq
      have hpi := processInputRequest_sim hdemand rules hok { s with inputRequests := rest } ms r hr0 hp hh hfq hpf
      generalize processInputRequest r { s with inputRequests := rest } = s1 at hpi ⊢
      intro hfin
      have hh1 : s1.halted = false :=
        (haltMono_of (fun hR => rs_inputRequestsLoop hR fuel true)).of_result hfin
      obtain ⟨toks1, ms1, he1, hrun1, hrel1, hp1, hreg1, htgt1, hfq1, hpf1⟩ := hpi hh1
      obtain ⟨toks2, ms2, he2, hrun2, hrel2, hp2, hreg2, htgt2, hpost, hpf2⟩ := ih true s1 ms1 hrel1 hp1 hh1 hfq1 hpf1 hfin
      have he1' : Emits s toks1 s1 := he1
      exact ⟨toks1 ++ toks2, ms2, he1'.trans he2, trun_append_some hrun1 hrun2, hrel2, hp2,
        fun k hk => hreg2 k (hreg1 k hk), htgt2.trans htgt1, hpost, hpf2⟩

/-- the statements of `Todo.lean` follow when the monitor invariant is at hand -/
theorem processInputRequest_of_pendFresh (hdemand : Todo_demandRule) :
    ∀ rules, RulesOk rules → ∀ (s : State) (ms : MSt) (r : TaskInputRequest),
      Rel rules s ms { inp := [r] } → ms.pend = none → s.halted = false → FreshScanQ s → PendFresh ms.m →
      Sim rules s ms (processInputRequest r s) {} (fun _ => FreshScanQ (processInputRequest r s)) :=
  fun rules hok s ms r hr hp hh hfq hpf =>
    (processInputRequest_sim hdemand rules hok s ms r hr hp hh hfq hpf).mono (fun _ h => h.1)

theorem inputRequestsLoop_of_pendFresh (hdemand : Todo_demandRule) :
    ∀ rules, RulesOk rules → ∀ (fuel : Nat) (w : Bool) (s : State) (ms : MSt),
      Rel rules s ms {} → ms.pend = none → s.halted = false → FreshScanQ s → PendFresh ms.m →
      Sim rules s ms (inputRequestsLoop fuel w s).2 {} (fun _ =>
        (inputRequestsLoop fuel w s).2.inputRequests = [] ∧ NoMid (inputRequestsLoop fuel w s).2 ∧
        FreshScanQ (inputRequestsLoop fuel w s).2) :=
  fun rules hok fuel w s ms hr hp hh hfq hpf =>
    (inputRequestsLoop_sim hdemand rules hok fuel w s ms hr hp hh hfq hpf).mono (fun _ h => h.1)

/-! ## 10. the loop-level facts `Aux` (wave 2) -/

/-- `scanRule` keeps `Aux` (proved elsewhere) -/
def ScanRuleAux : Prop :=
  ∀ rules, RulesOk rules → ∀ (s : State) (ms : MSt) (h : Hand) (k : Key),
    Rel rules s ms h → ms.pend = none → s.halted = false → Registered s k → (scanRule k s).2.halted = false →
    ∀ key, Aux key s h → Aux key (scanRule k s).2 h

/-- `demandRule` keeps `Aux` (proved elsewhere) -/
def DemandRuleAuxI : Prop :=
  ∀ rules, RulesOk rules → ∀ (s : State) (ms : MSt) (h : Hand) (k : Key),
    h.dec = [] → Rel rules s ms h → ms.pend = none → s.halted = false → h.issuing = none → Registered s k →
    isScanned s (s.rule k) = true → (demandRule k s).2.halted = false →
    ∀ key, Aux key s h → Aux key (demandRule k s).2 h

theorem waiting_iff_running (s : State) (pend : Option Key) (a : Key) :
    (s.rule a).state = .inProgressWaiting ↔ statusOf s pend a = .running := by
  unfold statusOf State.rule
  cases hl : s.ruleInfos.lookup a with
  | none => simp
  | some ri =>
    simp only [Option.getD_some]
    cases hs : ri.state <;> simp
    split
    · split <;> simp
    · simp

/-- `Aux` across a bookkeeping update with the SAME monitor state: rule states are read off the monitor on both
sides -/
theorem aux_transfer {rules : List RuleSpec} {key : Key} {s s' : State} {ms : MSt} {h h' : Hand}
    (hr : Rel rules s ms h) (hr' : Rel rules s' ms h') (hp : ms.pend = none) (haux : Aux key s h)
    (hready : s'.readyTaskInfos = s.readyTaskInfos) (hissue : h'.issuingFor = h.issuingFor)
    (htask : ∀ a t', s'.taskInfos.lookup a = some t' → ∃ t, s.taskInfos.lookup a = some t ∧ t'.waitCount = t.waitCount)
    (hroot : (∃ r ∈ h.inp ++ s.inputRequests, r.inputRuleInfo = key) →
      ms.m.status key ≠ .idle ∨ ∃ r ∈ h'.inp ++ s'.inputRequests, r.inputRuleInfo = key) :
    Aux key s' h' := by
  have hst : ∀ k, statusOf s' none k = statusOf s none k := by
    intro k
    have h1 := hr.status k
    have h2 := hr'.status k
    rw [hp] at h1 h2
    rw [← h1, ← h2]
  constructor
  · intro a t' hl hw hz
    obtain ⟨t, h1, h2⟩ := htask a t' hl
    have hw' : (s.rule a).state = .inProgressWaiting :=
      (waiting_iff_running s none a).2 (by rw [← hst]; exact (waiting_iff_running s' none a).1 hw)
    rw [hready, hissue]
    exact haux.readyZero a t h1 hw' (by rw [← h2]; exact hz)
  · rcases haux.rootSeen with h1 | h1
    · left; rw [hst]; exact h1
    · rcases hroot h1 with h2 | h2
      · left
        have := hr'.status key
        rw [hp] at this
        rw [← this]; exact h2
      · exact Or.inr h2

theorem inputTail_inputRequests (r : TaskInputRequest) (b : Bool) (s : State) :
    (inputTail r b s).inputRequests = s.inputRequests := by
  unfold inputTail; cases r.taskInfo <;> cases b <;> rfl
theorem inputTail_ready (r : TaskInputRequest) (b : Bool) (s : State) :
    (inputTail r b s).readyTaskInfos = s.readyTaskInfos := by
  unfold inputTail; cases r.taskInfo <;> cases b <;> rfl

/-- the tail of `processInputRequest` for a task's request, in normal form -/
theorem inputTail_shape {rules : List RuleSpec} {s : State} {ms : MSt} {r : TaskInputRequest} {b : Bool} {a : Key}
    (hr : Rel rules s ms { inp := [r] }) (hti : r.taskInfo = some a)
    (hb2 : b = false → (s.taskInfos.lookup r.inputRuleInfo).isSome = true) :
    ∃ (ria' : RuleInfo) (tk : Option TaskInfo), inputTail r b s = inputDoneState ria' r tk s ∧
      ∀ t, tk = some t → s.taskInfos.lookup r.inputRuleInfo = some t ∧ t.forRuleInfo = r.inputRuleInfo := by
  have hrm : r ∈ outstanding s { inp := [r] } := by rw [outstanding_hand]; exact List.mem_cons_self
  obtain ⟨hts, hst⟩ := hr.reqTask r hrm a hti
  obtain ⟨ta, hta⟩ := Option.isSome_iff_exists.1 hts
  have hfor : (s.task a).forRuleInfo = a := by rw [task_of_lookup hta]; exact (hr.taskOk a ta hta).forRule
  obtain ⟨ria, hla⟩ := lookup_of_state (s := s) (k := a) (by rw [hst]; decide)
  generalize hria' : ({ ria with result := { ria.result with deps := ria.result.deps ++ [depOf r] } } : RuleInfo) = ria'
  cases b with
  | true =>
    refine ⟨ria', none, ?_, fun t ht => by cases ht⟩
    unfold inputTail
    rw [hti]
    simp only [if_true, hfor, State.modRule, rule_of_lookup hla, hria']
    rfl
  | false =>
    obtain ⟨tk, htk⟩ := Option.isSome_iff_exists.1 (hb2 rfl)
    refine ⟨ria', some tk, ?_, fun t ht => by cases ht; exact ⟨htk, (hr.taskOk _ tk htk).forRule⟩⟩
    unfold inputTail
    rw [hti]
    simp only [Bool.false_eq_true, if_false, hfor, State.modRule, rule_of_lookup hla, hria']
    have : (s.setRule ria').task r.inputRuleInfo = tk := by
      unfold State.task; rw [show (s.setRule ria').taskInfos = s.taskInfos from rfl, htk]; rfl
    unfold State.modTask
    rw [this]
    rfl

theorem inputDone_taskLookup (ria' : RuleInfo) (r : TaskInputRequest) (tk : Option TaskInfo) (s : State)
    (hk : ∀ t, tk = some t → s.taskInfos.lookup r.inputRuleInfo = some t ∧ t.forRuleInfo = r.inputRuleInfo) :
    ∀ a0 t0', (inputDoneState ria' r tk s).taskInfos.lookup a0 = some t0' →
      ∃ t0, s.taskInfos.lookup a0 = some t0 ∧ t0'.waitCount = t0.waitCount := by
  intro a0 t0' h0
  cases tk with
  | none => exact ⟨t0', h0, rfl⟩
  | some t =>
    obtain ⟨hl, hfor⟩ := hk t rfl
    have h0' : ((s.setRule ria').setTask { t with requestedBy := t.requestedBy ++ [r] }).taskInfos.lookup a0 = some t0' := h0
    rw [setTask_lookup] at h0'
    simp only [hfor] at h0'
    by_cases e : a0 = r.inputRuleInfo
    · subst e
      simp only [if_true, Option.some.injEq] at h0'
      exact ⟨t, hl, by rw [← h0']⟩
    · simp only [e, if_false] at h0'
      exact ⟨t0', h0', rfl⟩

/-- a key that is done for the monitor, or has a task, is not idle -/
theorem Rel.notIdle_of_done_or_task {rules : List RuleSpec} {s : State} {ms : MSt} {h : Hand} (hr : Rel rules s ms h)
    {k : Key} (hk : isDone ms.m k = true ∨ (s.taskInfos.lookup k).isSome = true) : ms.m.status k ≠ .idle := by
  rcases hk with h1 | h1
  · unfold isDone at h1
    have : ms.m.status k = .done := by simpa using h1
    rw [this]; decide
  · have := hr.taskKeys k
    rw [h1, ← hr.status k] at this
    intro e; rw [e] at this; simp at this

/-- the tail of `processInputRequest` keeps `Aux` -/
theorem inputTail_aux {rules : List RuleSpec} {key : Key} {s : State} {ms : MSt} {r : TaskInputRequest} {b : Bool}
    (hr : Rel rules s ms { inp := [r] }) (hp : ms.pend = none) (hpf : PendFresh ms.m)
    (hb1 : b = true → isDone ms.m r.inputRuleInfo = true)
    (hb2 : b = false → (s.taskInfos.lookup r.inputRuleInfo).isSome = true)
    (haux : Aux key s { inp := [r] }) : Aux key (inputTail r b s) {} := by
  have hr' := (inputTail_rel hr hp hpf hb1 hb2).1
  have hk : isDone ms.m r.inputRuleInfo = true ∨ (s.taskInfos.lookup r.inputRuleInfo).isSome = true := by
    cases b
    · exact Or.inr (hb2 rfl)
    · exact Or.inl (hb1 rfl)
  refine aux_transfer hr hr' hp haux (inputTail_ready r b s) rfl ?_ ?_
  · cases hti : r.taskInfo with
    | none =>
      have e : inputTail r b s = s := by unfold inputTail; rw [hti]
      rw [e]; exact fun a t' h0 => ⟨t', h0, rfl⟩
    | some a =>
      obtain ⟨ria', tk, e1, e2⟩ := inputTail_shape hr hti hb2
      rw [e1]; exact inputDone_taskLookup ria' r tk s e2
  · rintro ⟨r0, h1, h2⟩
    rw [inputTail_inputRequests]
    rcases List.mem_cons.1 h1 with e | e
    · subst e; left; rw [← h2]; exact hr.notIdle_of_done_or_task hk
    · exact Or.inr ⟨r0, e, h2⟩

/-- **`processInputRequest` keeps `Aux`** -/
theorem processInputRequest_aux (hdemand : Todo_demandRule) (hsa : ScanRuleAux) (hda : DemandRuleAuxI) :
    ∀ rules, RulesOk rules → ∀ (s : State) (ms : MSt) (r : TaskInputRequest) (key : Key),
      Rel rules s ms { inp := [r] } → ms.pend = none → s.halted = false → FreshScanQ s → PendFresh ms.m →
      (processInputRequest r s).halted = false →
      Aux key s { inp := [r] } → Aux key (processInputRequest r s) {} := by
  intro rules hok s ms r key hr hp hh _ hpf hfin haux
  rw [processInputRequest_eq] at hfin ⊢
  have hrm : r ∈ outstanding s { inp := [r] } := by rw [outstanding_hand]; exact List.mem_cons_self
  have hreg : Registered s r.inputRuleInfo := (hr.reqReg r hrm).1
  have hin : InHand { inp := [r] } s r.inputRuleInfo := Or.inr ⟨r, List.mem_cons_self, rfl⟩
  have hsr := scanRule_sim rules hok s ms { inp := [r] } r.inputRuleInfo hr hp hh hreg hin (demanded_of_hand hr hp)
  have hsa1 := hsa rules hok s ms { inp := [r] } r.inputRuleInfo hr hp hh hreg
  generalize scanRule r.inputRuleInfo s = p1 at hsr hsa1 hfin ⊢
  obtain ⟨b1, s1⟩ := p1
  simp only at hsr hsa1 hfin ⊢
  cases b1 with
  | false =>
    simp only [if_true] at hfin ⊢
    have hh1 : s1.halted = false := by
      cases hx : s1.halted with
      | false => rfl
      | true => rw [rs_modScanRecord closed_halted _ _ s1 hx] at hfin; cases hfin
    have haux1 := hsa1 hh1 key haux
    obtain ⟨toks1, ms1, _, _, hrel1, hp1, hreg1, _, _, _, hsc1⟩ := hsr hh1
    have hs1 := hsc1 rfl
    obtain ⟨ri1, hl1⟩ := Option.isSome_iff_exists.1 (hreg1 _ hreg)
    rw [rule_of_lookup hl1] at hs1
    obtain ⟨rc, hrc⟩ := hrel1.recordLive _ ri1 hl1 hs1
    have e : modScanRecord r.inputRuleInfo (fun rc => { rc with pausedInputRequests := rc.pausedInputRequests ++ [r] }) s1 =
        s1.setRule { ri1 with inProgressInfo :=
          InProgressInfo.pendingScanRecord ({ rc with pausedInputRequests := rc.pausedInputRequests ++ [r] }) } := by
      unfold modScanRecord
      rw [rule_of_lookup hl1]
      simp only [RuleInfo.getPendingScanRecord, hrc, State.modRule, rule_of_lookup hl1]
    rw [e]
    refine aux_transfer hrel1 (hrel1.pause hp1 hl1 hs1 hrc) hp1 haux1 rfl rfl (fun a t' h0 => ⟨t', h0, rfl⟩) ?_
    rintro ⟨r0, h1, h2⟩
    rcases List.mem_cons.1 h1 with e' | e'
    · subst e'
      left
      have := hrel1.status r0.inputRuleInfo
      rw [hp1] at this
      rw [← h2, this]
      unfold statusOf
      rw [hl1]
      simp [hs1]
    · exact Or.inr ⟨r0, e', h2⟩
  | true =>
    simp only [Bool.true_eq_false, if_false] at hfin ⊢
    rw [inputTail_halted] at hfin
    have hh1 : s1.halted = false := (haltMono_all.2.1 r.inputRuleInfo).of_result hfin
    have haux1 := hsa1 hh1 key haux
    obtain ⟨toks1, ms1, _, hrun1, hrel1, hp1, hreg1, _, _, hsc1, _⟩ := hsr hh1
    have hd := hdemand rules hok s1 ms1 { inp := [r] } r.inputRuleInfo rfl hrel1 hp1 hh1 rfl (hreg1 _ hreg) (hsc1 rfl)
    have haux2 := hda rules hok s1 ms1 { inp := [r] } r.inputRuleInfo rfl hrel1 hp1 hh1 rfl (hreg1 _ hreg) (hsc1 rfl)
      hfin key haux1
    obtain ⟨toks2, ms2, _, hrun2, hrel2, hp2, _, _, hb1, hb2, _⟩ := hd hfin
    have hpf2 := trun_pendFresh _ hrun2 (trun_pendFresh _ hrun1 hpf)
    exact inputTail_aux hrel2 hp2 hpf2 hb1 hb2 haux2

/-- **`inputRequestsLoop` keeps `Aux`** -/
theorem inputRequestsLoop_aux (hdemand : Todo_demandRule) :
    ∀ rules, RulesOk rules → ∀ (fuel : Nat) (w : Bool) (s : State) (ms : MSt) (key : Key),
      Rel rules s ms {} → ms.pend = none → s.halted = false → FreshScanQ s → PendFresh ms.m →
      (inputRequestsLoop fuel w s).2.halted = false → ScanRuleAux → DemandRuleAuxI →
      Aux key s {} → Aux key (inputRequestsLoop fuel w s).2 {} := by
  intro rules hok fuel
  induction fuel with
  | zero =>
    intro w s ms key _ _ _ _ _ hfin
    rw [inputRequestsLoop] at hfin
    simp only at hfin
    rw [halt_halted] at hfin; cases hfin
  | succ fuel ih =>
    intro w s ms key hr hp hh hfq hpf hfin hsa hda haux
    rw [inputRequestsLoop] at hfin ⊢
    cases hq : s.inputRequests with
    | nil => simp only; exact haux
    | cons r rest =>
      rw [hq] at hfin
      simp only at hfin ⊢
      have hr0 := hr.popInput hp hq
      have haux0 : Aux key { s with inputRequests := rest } { inp := [r] } := by
        refine ⟨haux.readyZero, ?_⟩
        rcases haux.rootSeen with h1 | ⟨r0, h1, h2⟩
        · exact Or.inl h1
        · refine Or.inr ⟨r0, ?_, h2⟩
          have h1' : r0 ∈ s.inputRequests := h1
          rw [hq] at h1'; exact h1'
      have hpi := processInputRequest_sim hdemand rules hok { s with inputRequests := rest } ms r hr0 hp hh hfq hpf
      have hpa := processInputRequest_aux hdemand hsa hda rules hok { s with inputRequests := rest } ms r key hr0 hp hh hfq hpf
      generalize processInputRequest r { s with inputRequests := rest } = s1 at hpi hpa hfin ⊢
      have hh1 : s1.halted = false :=
        (haltMono_of (fun hR => rs_inputRequestsLoop hR fuel true)).of_result hfin
      obtain ⟨toks1, ms1, _, _, hrel1, hp1, _, _, hfq1, hpf1⟩ := hpi hh1
      exact ih true s1 ms1 key hrel1 hp1 hh1 hfq1 hpf1 hfin hsa hda (hpa hh1 haux0)

end LLBuild.Refine
