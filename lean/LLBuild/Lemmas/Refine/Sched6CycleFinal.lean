/-
C07 "cycles are never reported falsely" (including the EMPTY report, known finding F30) — part 4: ONE BUILD.
**`runBuildA_CY_blocked`**: whenever a build of the concrete engine model (any hook schedule, any `cancelAtEvent`, any asynchronous
schedule of completions / `cancelBuild()` at the item boundaries) that does not halt prints `CY ks` — EMPTY LIST OR NOT —, then
in the monitor state reached by the tokens printed before it SOME rule is blocked (its task collects inputs, or it is being
scanned) and EVERY blocked rule waits (the monitor's `waitsFor`) for a blocked rule.  For the empty report the monitor's own
guard (`ks.isEmpty && isDone root`) knows nothing of this; it is a fact about the ENGINE state at the cycle exit (`Cyc.Stuck`),
carried up by the walk of Final3.lean §1 (`executeTasksA_sim`, `buildWorkA_sim`, `buildPreA_sim`, `runBuildA_sim`) with
`WorkLoopSpecY` (Sched6CycleLoop.lean); the prologue / epilogue of `build` record no `CY` (Sched6CycleClosed.lean).
-/
import LLBuild.Lemmas.Refine.Sched6CycleLoop
import LLBuild.Lemmas.Refine.Gen

namespace LLBuild.Refine
open LLBuild.Engine LLBuild.Engine.DSL LLBuild.EngineImpl

/-- a rule that is waiting: its task collects inputs, or it is being scanned -/
def BlockedM (m : Engine.St) (k : Key) : Prop := m.status k = .running ∨ m.status k = .scanning

/-- the same notion as the nodes of the wait-for graph of Cycle.lean -/
theorem blockedM_iff (m : Engine.St) (k : Key) : BlockedM m k ↔ Cyc.Blocked m k := Iff.rfl

theorem executeTasksA_cy {rules : List RuleSpec} (hloop : WorkLoopSpecY rules) {key : Key} (a : Async) {s : State}
    {m : Engine.St} (hr : RelPre rules key true s m) (hfin : s.finishedInputRequests = []) (hh : s.halted = false)
    (hnh : (executeTasksA key a s).2.2.halted = false) :
    CYB (program rules) ⟨m, none⟩ s (executeTasksA key a s).2.2 := by
  have hs0 : ({ s with finishedInputRequests := [] } : State) = s := by
    cases s; simp at hfin; simp [hfin]
  unfold executeTasksA at hnh ⊢
  simp only [hs0] at hnh ⊢
  obtain ⟨toks1, m1, he1, hrun1, hr1, hreg1, hh1⟩ := hr.getRule hh key
  have hrel := Rel.entry hr1
  have hrel2 := hrel.pushDummy { taskInfo := none, inputID := 0, inputRuleInfo := key } rfl hreg1 rfl
    (Or.inr (Or.inl hr1.target))
  have hnm : NoMid (pushInput { taskInfo := none, inputID := 0, inputRuleInfo := key } (getRuleInfoForKey key s)) := by
    intro k ri hl
    rcases hr1.states k ri hl with e | e <;> rw [e] <;> exact ⟨by decide, by decide⟩
  have haux : Aux key (pushInput { taskInfo := none, inputID := 0, inputRuleInfo := key } (getRuleInfoForKey key s)) {} :=
    { readyZero := fun a t hl => (by
        have : (getRuleInfoForKey key s).taskInfos.lookup a = some t := hl
        rw [hr1.noTasks] at this; cases this),
      rootSeen := Or.inr ⟨{ taskInfo := none, inputID := 0, inputRuleInfo := key }, by simp [pushInput], rfl⟩ }
  have hcy := hloop key loopFuel a _ _ hrel2 hnm rfl hr1.target hreg1 hh1
      (fun p hp => by rw [hr1.noPending] at hp; cases hp)
      (fun a q hd => by rw [hr1.noSeq a] at hd; simp [delivered] at hd)
      haux hnh
  have he1' : Emits s toks1 (pushInput { taskInfo := none, inputID := 0, inputRuleInfo := key } (getRuleInfoForKey key s)) :=
    he1
  have hn1 : NoCYB s (pushInput { taskInfo := none, inputID := 0, inputRuleInfo := key } (getRuleInfoForKey key s)) := by
    obtain ⟨b, eb, hb⟩ := noCYB_getRuleInfoForKey key s
    exact ⟨b, eb, hb⟩
  exact CYB.prepend he1' hn1 hrun1 hcy

theorem buildWorkA_cy {rules : List RuleSpec} (hloop : WorkLoopSpecY rules) {key : Key} (a : Async) {s : State}
    {m : Engine.St} (hr : RelPre rules key false s m) (hh : s.halted = false)
    (hnh : (buildWorkA key a s).2.halted = false) :
    CYB (program rules) ⟨m, none⟩ s (buildWorkA key a s).2 := by
  rw [buildWorkA_halted] at hnh
  obtain ⟨m2, hstep2, hr2⟩ := prologue_QC hr hh
  have hsQ : ({ emit .QC s with currentEpoch := (emit .QC s).currentEpoch + 1 } : State) =
      { emit .QC s with currentEpoch := (emit .QC s).currentEpoch + 1, finishedInputRequests := [] } := by
    have : (emit .QC s).finishedInputRequests = [] := by simp [hr.noFinQ]
    rw [← this]
  unfold buildWorkA
  rw [hsQ] at hnh ⊢
  have heQ : Emits s [.QC]
      { emit .QC s with currentEpoch := (emit .QC s).currentEpoch + 1, finishedInputRequests := [] } := by
    rw [emit_QC _ hh]; simp [Emits]
  have hhQ : ({ emit .QC s with currentEpoch := (emit .QC s).currentEpoch + 1, finishedInputRequests := [] } : State).halted = false := by
    show (emit .QC s).halted = false
    simp [hh]
  have hcy := executeTasksA_cy hloop a hr2 rfl hhQ hnh
  have hrunQ : trun (program rules) ⟨m, none⟩ [.QC] = some ⟨m2, none⟩ :=
    trun_single (tstep_ev (by rfl) (by rfl) hstep2)
  have hnQ : NoCYB s
      { emit .QC s with currentEpoch := (emit .QC s).currentEpoch + 1, finishedInputRequests := [] } :=
    ⟨[.QC], heQ, NoCYL.cons rfl NoCYL.nil⟩
  exact (CYB.prepend heQ hnQ hrunQ hcy).append_noCY
    (noCYB_buildTail key
      ((executeTasksA key a { emit .QC s with currentEpoch := (emit .QC s).currentEpoch + 1, finishedInputRequests := [] }).1,
       (executeTasksA key a { emit .QC s with currentEpoch := (emit .QC s).currentEpoch + 1, finishedInputRequests := [] }).2.2))

theorem buildPreA_cy {rules : List RuleSpec} (hloop : WorkLoopSpecY rules) {key : Key} (a : Async) {s : State}
    {m : Engine.St} (hr : RelPre rules key false s m) (hh : s.halted = false)
    (hnh : (buildPreA key a s).2.halted = false) :
    CYB (program rules) ⟨m, none⟩ s (buildPreA key a s).2 := by
  unfold buildPreA at hnh ⊢
  simp only [hr.hasDB, if_true] at hnh ⊢
  obtain ⟨toks1, m1, he1, hrun1, hr1, hh1⟩ := prologue_DB hr hh
  have hn1 : NoCYB s (emit .DB s) := NoCYB.emit .DB s rfl
  by_cases hc : (emit .DB s).buildCancelled = true
  · simp only [hc, if_true] at hnh ⊢
    exact CYB.of_noCY hn1
  · simp only [hc, Bool.false_eq_true, if_false] at hnh ⊢
    exact CYB.prepend he1 hn1 hrun1 (buildWorkA_cy hloop a hr1 hh1 hnh)

/-- `DE ; R v ; Z` records no `CY` -/
theorem noCYB_close (v : Val) (s : State) :
    NoCYB s (emit (.Z (emit (.R v) { emit .DE s with buildActive := false }).taskInfos.length 0)
      (emit (.R v) { emit .DE s with buildActive := false })) :=
  ((NoCYB.emit .DE s rfl).trans
    ((NoCYB.emit (.R v) { emit .DE s with buildActive := false } rfl).of_trace_eq rfl)).trans
    (NoCYB.emit _ _ rfl)

/-- the statement for one build, modulo the work loop -/
theorem runBuildA_cy_of {rules : List RuleSpec} (hloop : WorkLoopSpecY rules) (hloopA : WorkLoopSpecA rules) {s : State}
    {m : Engine.St} (hr : RelIdle rules s m) (key cancelAt : Nat) (sched : List SchedItem) (a : Async)
    (hnh : (runBuildA key cancelAt sched a s).halted = false) :
    CYok (program rules) ⟨m, none⟩ (runBuildA key cancelAt sched a s).trace.reverse := by
  obtain ⟨toks1, m1, he1, hrun1, hr1, hh1⟩ := prologue_B hr key cancelAt sched
  have hn1 : NoCYB (buildInit cancelAt sched s) (emit (.B key) (buildInit cancelAt sched s)) :=
    NoCYB.emit (.B key) (buildInit cancelAt sched s) rfl
  have hnhP : (buildPreA key a (emit (.B key) (buildInit cancelAt sched s))).2.halted = false := by
    rw [← runBuildA_pre_halted]; exact hnh
  have hcy := buildPreA_cy hloop a hr1 hh1 hnhP
  obtain ⟨toks2, m2, b, he2, hrun2, hp⟩ := buildPreA_sim hloopA a hr1 hh1 hnhP
  have hdb : (buildPreA key a (emit (.B key) (buildInit cancelAt sched s))).2.hasDB = true := hp.post.base.hasDB
  rw [runBuildA_eq key cancelAt sched a s hdb]
  have hall : CYB (program rules) ⟨m, none⟩ (buildInit cancelAt sched s)
      (closeBuild (buildPreA key a (emit (.B key) (buildInit cancelAt sched s))).1
        (buildPreA key a (emit (.B key) (buildInit cancelAt sched s))).2) :=
    (CYB.prepend he1 hn1 hrun1 hcy).append_noCY (noCYB_close _ _)
  obtain ⟨toks, he, hc⟩ := hall
  have htr : (closeBuild (buildPreA key a (emit (.B key) (buildInit cancelAt sched s))).1
      (buildPreA key a (emit (.B key) (buildInit cancelAt sched s))).2).trace.reverse = toks := by
    unfold Emits at he
    rw [he]
    simp [buildInit]
  rw [htr]
  exact hc

/-- **C07, cycles are never reported falsely — including the empty report (F30)**: whenever `CY ks` is printed (empty list
or not), in the monitor state reached by the tokens before it SOME rule is blocked, and EVERY blocked rule waits (monitor's
`waitsFor`) for a blocked rule. -/
theorem runBuildA_CY_blocked {rules : List RuleSpec} (hok : RulesOk rules) {s : State} {m : Engine.St}
    (hr : RelIdle rules s m) (key cancelAt : Nat) (sched : List SchedItem) (a : Async)
    (hnh : (runBuildA key cancelAt sched a s).halted = false)
    {pre post : List Tok} {ks : List Key}
    (htr : (runBuildA key cancelAt sched a s).trace.reverse = pre ++ Tok.CY ks :: post) :
    ∃ msp, trun (program rules) ⟨m, none⟩ pre = some msp ∧
      (∃ k, BlockedM msp.m k) ∧
      (∀ k, BlockedM msp.m k → ∃ k', waitsFor msp.m k k' = true ∧ BlockedM msp.m k') := by
  obtain ⟨msp, hrun, hst⟩ :=
    runBuildA_cy_of (workLoopA_cycle rules hok) (workLoopA_final rules hok) hr key cancelAt sched a hnh pre ks post htr
  exact ⟨msp, hrun, hst.1, hst.2⟩

/-! ## non-vacuity: the EMPTY report (F30) and a non-empty one, on the model -/

/-- input `5`; `3` requests `5` and then discovers the dependency `1`; `1` and `2` request each other -/
def cy6Rules : List RuleSpec :=
  [{ key := 5 }, { key := 3, kind := 1, statics := [⟨5, 7, 0⟩], discs := [(⟨0, 7, 0, 0⟩, 1)] },
   { key := 1, kind := 1, statics := [⟨2, 7, 0⟩] }, { key := 2, kind := 1, statics := [⟨1, 8, 0⟩] }]

theorem cy6Rules_ok : RulesOk cy6Rules := RulesOk.of_check (by decide)

/-- the build of `3` from a fresh engine: `3` completes, its discovered dependency `1` starts the cycle `1 ⇄ 2`; the search from
the (complete) requested key finds nothing: `… DS 3 … ; … ST 2 [1] ; CY [] ; DI 1 ; DE ; R 0 ; Z 0 0` -/
def cy6T0 : List Tok := (runBuildA 3 0 [] [] (opProgram cy6Rules {})).trace.reverse

/-- the build of `1`: `… ST 1 [2] ; … ST 2 [1] ; CY [1, 2, 1] ; DI 1 ; DE ; R 0 ; Z 0 0` -/
def cy6T1 : List Tok := (runBuildA 1 0 [] [] (opProgram cy6Rules {})).trace.reverse

/-- is the token `CY ks`? (`Tok` has no `DecidableEq` here) -/
def Tok.isCY6of (ks : List Key) : Tok → Bool
  | .CY l => l == ks
  | _ => false

theorem Tok.eq_of_isCY6of {ks : List Key} {t : Tok} (h : Tok.isCY6of ks t = true) : t = .CY ks := by
  cases t <;> first | cases h | skip
  simp only [Tok.isCY6of, beq_iff_eq] at h
  rw [h]

/-- a list splits at a position whose token is `CY ks` -/
theorem split_at_CY6 {toks : List Tok} {n : Nat} {ks : List Key} (h : (toks[n]?).map (Tok.isCY6of ks) = some true) :
    toks = toks.take n ++ Tok.CY ks :: toks.drop (n + 1) := by
  cases hg : toks[n]? with
  | none => rw [hg] at h; cases h
  | some t =>
    rw [hg] at h
    simp only [Option.map_some, Option.some.injEq] at h
    obtain ⟨hn, ht⟩ := List.getElem?_eq_some_iff.1 hg
    have : toks.drop n = Tok.CY ks :: toks.drop (n + 1) := by
      rw [List.drop_eq_getElem_cons hn, ht, Tok.eq_of_isCY6of h]
    rw [← this, List.take_append_drop]

set_option maxRecDepth 8000 in
theorem cy6T0_facts : (runBuildA 3 0 [] [] (opProgram cy6Rules {})).halted = false ∧
    (cy6T0[36]?).map (Tok.isCY6of []) = some true := by decide

set_option maxRecDepth 8000 in
theorem cy6T1_facts : (runBuildA 1 0 [] [] (opProgram cy6Rules {})).halted = false ∧
    (cy6T1[15]?).map (Tok.isCY6of [1, 2, 1]) = some true := by decide

/-- the theorem applies to the EMPTY report of F30 -/
example : ∃ msp, trun (program cy6Rules) ⟨{}, none⟩ (cy6T0.take 36) = some msp ∧
      (∃ k, BlockedM msp.m k) ∧
      (∀ k, BlockedM msp.m k → ∃ k', waitsFor msp.m k k' = true ∧ BlockedM msp.m k') :=
  runBuildA_CY_blocked cy6Rules_ok (RelIdle.init cy6Rules) 3 0 [] [] cy6T0_facts.1 (split_at_CY6 cy6T0_facts.2)

/-- … and to a non-empty report -/
example : ∃ msp, trun (program cy6Rules) ⟨{}, none⟩ (cy6T1.take 15) = some msp ∧
      (∃ k, BlockedM msp.m k) ∧
      (∀ k, BlockedM msp.m k → ∃ k', waitsFor msp.m k k' = true ∧ BlockedM msp.m k') :=
  runBuildA_CY_blocked cy6Rules_ok (RelIdle.init cy6Rules) 1 0 [] [] cy6T1_facts.1 (split_at_CY6 cy6T1_facts.2)

end LLBuild.Refine
