/-
IM5 — process death in the middle of a build (C04): the EVENTS OF A POSSIBLY CUT TOKEN TRACE.
`Model.toEvents` rejects a trace that ends inside a write window `S k 2 ; L/G/X/C … ‖ DS k row` (the completion without
its database write).  A killed process leaves exactly such traces.  `evOfToks` is the token monitor's own reading of the
tokens (`tstep`, Defs.lean), in both phases: a cut inside the window keeps the registrations already reported and drops
the completion — the text driver's rule for `KILL` inside `splitAtWrite` ("the process died before the write: the
completion never took effect").
* `trun_evOfToks`: an accepted token run (ending in ANY phase) is an accepted event run of `evOfToks`;
* `trun_prefix`: a prefix of an accepted token run is accepted (`trun` is a fold);
* `toEvents_evOfToks`: on traces `toEvents` understands, `evOfToks none` IS `toEvents`.
Core Lean only.
-/
import LLBuild.Lemmas.Refine.Basic

namespace LLBuild.Refine
open LLBuild.Engine LLBuild.Engine.DSL LLBuild.EngineImpl

/-- the events of a token trace that may have been cut anywhere (phase = the `pend` of `tstep`) -/
def evOfToks : Option Key → List Tok → Option (List Event)
  | _, [] => some []
  | none, t :: ts =>
    match Tok.isS2 t with
    | some k => evOfToks (some k) ts
    | none =>
      match t.toEvent? with
      | none => none
      | some e => (evOfToks none ts).map (fun b => e :: b)
  | some k, t :: ts =>
    match t with
    | .DS k' row => if k = k' then (evOfToks none ts).map (fun b => Event.finished k row :: b) else none
    | _ =>
      if Tok.isReg t then
        match t.toEvent? with
        | none => none
        | some e => (evOfToks (some k) ts).map (fun b => e :: b)
      else none

@[simp] theorem evOfToks_nil (ph : Option Key) : evOfToks ph [] = some [] := by
  cases ph <;> rfl

/-- **an accepted token run is an accepted event run**, whatever the phase it starts and ends in -/
theorem trun_evOfToks {P : Program} : ∀ (toks : List Tok) (ms ms' : MSt),
    trun P ms toks = some ms' → ∃ evs, evOfToks ms.pend toks = some evs ∧ run P ms.m evs = some ms'.m
  | [], ms, ms', h => by
    simp only [trun, Option.some.injEq] at h
    subst h
    exact ⟨[], by simp, rfl⟩
  | t :: ts, ms, ms', h => by
    simp only [trun] at h
    cases hts : tstep P ms t with
    | none => rw [hts] at h; simp at h
    | some ms1 =>
      rw [hts] at h; simp only [Option.bind_some] at h
      obtain ⟨evs, he, hr⟩ := trun_evOfToks ts ms1 ms' h
      obtain ⟨m, pend⟩ := ms
      cases pend with
      | none =>
        cases hS : Tok.isS2 t with
        | some k =>
          have ht := isS2_eq_some hS; subst ht
          rw [tstep_S2] at hts
          simp only [Option.some.injEq] at hts; subst hts
          exact ⟨evs, by simpa [evOfToks, Tok.isS2] using he, hr⟩
        | none =>
          rw [tstep_none_notS hS] at hts
          cases hte : t.toEvent? with
          | none => rw [hte] at hts; simp at hts
          | some e =>
            rw [hte] at hts; simp only [Option.bind_some] at hts
            cases hst : step P m e with
            | none => rw [hst] at hts; simp at hts
            | some m1 =>
              rw [hst] at hts; simp only [Option.map_some, Option.some.injEq] at hts; subst hts
              refine ⟨e :: evs, ?_, ?_⟩
              · show evOfToks none (t :: ts) = _
                simp only [evOfToks, hS, hte]
                simp only at he
                rw [he]; rfl
              · simp only [run, hst, Option.bind_some]; exact hr
      | some k =>
        unfold tstep at hts
        simp only at hts
        cases t with
        | DS k' row =>
          simp only at hts
          split at hts
          · rename_i hk
            subst hk
            cases hst : step P m (.finished k row) with
            | none => rw [hst] at hts; simp at hts
            | some m2 =>
              rw [hst] at hts; simp only [Option.map_some, Option.some.injEq] at hts; subst hts
              refine ⟨Event.finished k row :: evs, ?_, ?_⟩
              · show evOfToks (some k) (Tok.DS k row :: ts) = _
                simp only [evOfToks, if_true]
                simp only at he
                rw [he]; rfl
              · simp only [run, hst, Option.bind_some]; exact hr
          · simp at hts
        | L a =>
          simp only [Tok.isReg, Tok.toEvent?, if_true] at hts
          cases hst : step P m (.lookup a) with
          | none => rw [hst] at hts; simp at hts
          | some m1 =>
            rw [hst] at hts; simp only [Option.map_some, Option.some.injEq] at hts; subst hts
            refine ⟨Event.lookup a :: evs, ?_, ?_⟩
            · show evOfToks (some k) (Tok.L a :: ts) = _
              simp only [evOfToks, Tok.isReg, Tok.toEvent?, if_true]
              simp only at he
              rw [he]; rfl
            · simp only [run, hst, Option.bind_some]; exact hr
        | G a f =>
          simp only [Tok.isReg, Tok.toEvent?, if_true] at hts
          cases hst : step P m (.dbGet a f) with
          | none => rw [hst] at hts; simp at hts
          | some m1 =>
            rw [hst] at hts; simp only [Option.map_some, Option.some.injEq] at hts; subst hts
            refine ⟨Event.dbGet a f :: evs, ?_, ?_⟩
            · show evOfToks (some k) (Tok.G a f :: ts) = _
              simp only [evOfToks, Tok.isReg, Tok.toEvent?, if_true]
              simp only at he
              rw [he]; rfl
            · simp only [run, hst, Option.bind_some]; exact hr
        | X =>
          simp only [Tok.isReg, Tok.toEvent?, if_true] at hts
          cases hst : step P m .cancel with
          | none => rw [hst] at hts; simp at hts
          | some m1 =>
            rw [hst] at hts; simp only [Option.map_some, Option.some.injEq] at hts; subst hts
            refine ⟨Event.cancel :: evs, ?_, ?_⟩
            · show evOfToks (some k) (Tok.X :: ts) = _
              simp only [evOfToks, Tok.isReg, Tok.toEvent?, if_true]
              simp only at he
              rw [he]; rfl
            · simp only [run, hst, Option.bind_some]; exact hr
        | C a v f =>
          simp only [Tok.isReg, Tok.toEvent?, if_true] at hts
          cases hst : step P m (.complete a v (f != 0)) with
          | none => rw [hst] at hts; simp at hts
          | some m1 =>
            rw [hst] at hts; simp only [Option.map_some, Option.some.injEq] at hts; subst hts
            refine ⟨Event.complete a v (f != 0) :: evs, ?_, ?_⟩
            · show evOfToks (some k) (Tok.C a v f :: ts) = _
              simp only [evOfToks, Tok.isReg, Tok.toEvent?, if_true]
              simp only at he
              rw [he]; rfl
            · simp only [run, hst, Option.bind_some]; exact hr
        | _ => simp [Tok.isReg] at hts

/-- **prefix closure**: a prefix of an accepted token run is accepted -/
theorem trun_prefix {P : Program} {ms ms' : MSt} {p q : List Tok} (h : trun P ms (p ++ q) = some ms') :
    ∃ msp, trun P ms p = some msp ∧ trun P msp q = some ms' := by
  rw [trun_append] at h
  cases hp : trun P ms p with
  | none => rw [hp] at h; simp at h
  | some msp => rw [hp] at h; exact ⟨msp, rfl, by simpa using h⟩

/-! ## agreement with `toEvents` on complete traces -/

/-- the shape of a write window -/
theorem splitAtWrite_spec (k : Key) : ∀ (rest acc r : List Tok) (row : Res) (rest' : List Tok),
    splitAtWrite k acc rest = some (r, row, rest') →
    ∃ regs, r = acc ++ regs ∧ rest = regs ++ Tok.DS k row :: rest' ∧ ∀ t ∈ regs, Tok.isReg t = true
  | [], acc, r, row, rest', h => by simp [splitAtWrite] at h
  | t :: rest, acc, r, row, rest', h => by
    cases t with
    | L a =>
      simp only [splitAtWrite] at h
      obtain ⟨regs, h1, h2, h3⟩ := splitAtWrite_spec k rest _ r row rest' h
      refine ⟨.L a :: regs, by simp [h1], by simp [h2], ?_⟩
      intro t ht; rcases List.mem_cons.1 ht with e | e
      · subst e; rfl
      · exact h3 t e
    | G a f =>
      simp only [splitAtWrite] at h
      obtain ⟨regs, h1, h2, h3⟩ := splitAtWrite_spec k rest _ r row rest' h
      refine ⟨.G a f :: regs, by simp [h1], by simp [h2], ?_⟩
      intro t ht; rcases List.mem_cons.1 ht with e | e
      · subst e; rfl
      · exact h3 t e
    | X =>
      simp only [splitAtWrite] at h
      obtain ⟨regs, h1, h2, h3⟩ := splitAtWrite_spec k rest _ r row rest' h
      refine ⟨.X :: regs, by simp [h1], by simp [h2], ?_⟩
      intro t ht; rcases List.mem_cons.1 ht with e | e
      · subst e; rfl
      · exact h3 t e
    | C a v f =>
      simp only [splitAtWrite] at h
      obtain ⟨regs, h1, h2, h3⟩ := splitAtWrite_spec k rest _ r row rest' h
      refine ⟨.C a v f :: regs, by simp [h1], by simp [h2], ?_⟩
      intro t ht; rcases List.mem_cons.1 ht with e | e
      · subst e; rfl
      · exact h3 t e
    | DS k' row' =>
      simp only [splitAtWrite] at h
      split at h
      · rename_i hk
        have hk' : k = k' := by simpa using hk
        subst hk'
        simp only [Option.some.injEq, Prod.mk.injEq] at h
        obtain ⟨h1, h2, h3⟩ := h
        subst h1; subst h2; subst h3
        exact ⟨[], by simp, by simp, by simp⟩
      · simp at h
    | _ => simp [splitAtWrite] at h

/-- inside a window: registrations, then the write -/
theorem evOfToks_window (k : Key) (row : Res) (rest' : List Tok) : ∀ (regs : List Tok),
    (∀ t ∈ regs, Tok.isReg t = true) →
    evOfToks (some k) (regs ++ Tok.DS k row :: rest') =
      (regs.mapM Tok.toEvent?).bind (fun a => (evOfToks none rest').bind (fun b => some (a ++ Event.finished k row :: b)))
  | [], _ => by
    simp only [List.nil_append, evOfToks, if_true, List.mapM_nil]
    cases evOfToks none rest' <;> rfl
  | t :: regs, h => by
    have ih := evOfToks_window k row rest' regs (fun t ht => h t (List.mem_cons_of_mem _ ht))
    have ht : Tok.isReg t = true := h t List.mem_cons_self
    have hstep : ∀ e, t.toEvent? = some e →
        evOfToks (some k) (t :: (regs ++ Tok.DS k row :: rest')) =
          (evOfToks (some k) (regs ++ Tok.DS k row :: rest')).map (fun b => e :: b) := by
      intro e he
      cases t <;> simp_all [evOfToks, Tok.isReg, Tok.toEvent?]
    cases hte : t.toEvent? with
    | none => cases t <;> simp_all [Tok.isReg, Tok.toEvent?]
    | some e =>
      rw [List.cons_append, hstep e hte, ih, List.mapM_cons, hte]
      cases regs.mapM Tok.toEvent? with
      | none => rfl
      | some a =>
        cases evOfToks none rest' with
        | none => rfl
        | some b => rfl

theorem toEventsAux_evOfToks : ∀ (fuel : Nat) (toks : List Tok) (evs : List Event),
    toEventsAux fuel toks = some evs → evOfToks none toks = some evs
  | 0, [], evs, h => by simpa [toEventsAux] using h
  | 0, _ :: _, _, h => by simp [toEventsAux] at h
  | _ + 1, [], evs, h => by simpa [toEventsAux] using h
  | fuel + 1, t :: rest, evs, h => by
    cases hS : Tok.isS2 t with
    | some k =>
      have ht := isS2_eq_some hS; subst ht
      simp only [toEventsAux] at h
      cases hsp : splitAtWrite k [] rest with
      | none => rw [hsp] at h; simp at h
      | some r =>
        obtain ⟨regs0, row, rest'⟩ := r
        rw [hsp] at h
        simp only [] at h
        obtain ⟨regs, h1, h2, h3⟩ := splitAtWrite_spec k rest [] regs0 row rest' hsp
        simp only [List.nil_append] at h1; subst h1
        show evOfToks none (Tok.S k 2 :: rest) = _
        simp only [evOfToks, Tok.isS2]
        rw [h2, evOfToks_window k row rest' regs0 h3]
        cases hm : regs0.mapM Tok.toEvent? with
        | none => rw [hm] at h; simp at h
        | some a =>
          rw [hm] at h
          cases hb : toEventsAux fuel rest' with
          | none => rw [hb] at h; simp at h
          | some b =>
            rw [hb] at h
            simp only [Option.bind_eq_bind, Option.bind_some, Option.some.injEq] at h
            have := toEventsAux_evOfToks fuel rest' b hb
            simp [this, h]
    | none =>
      rw [toEventsAux_notS hS] at h
      cases hte : t.toEvent? with
      | none => rw [hte] at h; simp at h
      | some e =>
        rw [hte] at h; simp only [Option.bind_some] at h
        cases hb : toEventsAux fuel rest with
        | none => rw [hb] at h; simp at h
        | some b =>
          rw [hb] at h; simp only [Option.bind_some, Option.some.injEq] at h
          have := toEventsAux_evOfToks fuel rest b hb
          show evOfToks none (t :: rest) = _
          simp only [evOfToks, hS, hte, this, Option.map_some, h]

/-- **`evOfToks none` extends `toEvents`**: on every trace `toEvents` understands they agree -/
theorem toEvents_evOfToks {toks : List Tok} {evs : List Event} (h : toEvents toks = some evs) :
    evOfToks none toks = some evs :=
  toEventsAux_evOfToks toks.length toks evs h

/-- … in particular on every token run the monitor accepts from and to the outside of a write window -/
theorem trun_evOfToks_toEvents {P : Program} {toks : List Tok} {m m' : Engine.St}
    (h : trun P ⟨m, none⟩ toks = some ⟨m', none⟩) : evOfToks none toks = toEvents toks := by
  obtain ⟨evs, h1, _⟩ := trun_toEvents h
  rw [h1]; exact toEvents_evOfToks h1

/-- a trace cut inside a write window: `toEvents` rejects it, `evOfToks` keeps the registrations -/
example : toEvents [.S 1 2, .L 2] = none ∧ evOfToks none [.S 1 2, .L 2] = some [.lookup 2] := by
  constructor <;> rfl

end LLBuild.Refine
