/-
IM2 — refinement, side conditions (section H of `Todo.lean`):
* `haltMono_all : Todo_haltMono`        once halted, always halted, for every engine function;
* `halted_iff_bad : Todo_halted_iff_bad`  `halted = false ↔ NoBad trace` for `runBuild`;
* `isPerm_iff : Todo_isPerm`            `Engine.isPerm` is `List.Perm`.

The first two are instances of ONE statement about the recorder.  The engine functions touch the two recorder
fields `halted` / `trace` only through `emit t` (with a token `t` that is not `FUEL` / `BAD _`), `doCancel` and
`halt t` (with `t` one of `FUEL` / `BAD _`).  So every predicate `R` on `(halted, trace)` that is closed under
these three operations (`Closed R`) is preserved by every engine function (`theorem rs_…`).  Instances:
`R h _ := h = true` (`closed_halted`) and `R h tr := (h = true ↔ ∃ t ∈ tr, t.isBad)` (`closed_inv`).
Core Lean only.
-/
import LLBuild.Lemmas.Refine.Todo

namespace LLBuild.Refine
open LLBuild.Engine LLBuild.Engine.DSL LLBuild.EngineImpl

/-! ## `isPerm` -/

theorem isPerm_iff_aux {α : Type} [DecidableEq α] : ∀ (l1 l2 : List α), isPerm l1 l2 = true ↔ List.Perm l1 l2
  | [], l2 => by
    cases l2 with
    | nil => simp [isPerm]
    | cons a l => simp [isPerm]
  | x :: xs, l2 => by
    rw [isPerm, Bool.and_eq_true, isPerm_iff_aux xs (l2.erase x), List.cons_perm_iff_perm_erase]
    simp

theorem isPerm_iff : Todo_isPerm := fun l1 l2 => isPerm_iff_aux l1 l2

/-! ## Predicates on the recorder that every engine function preserves -/

/-- a predicate on `(halted, trace)` closed under the three recorder operations, as the engine uses them -/
structure Closed (R : Bool → List Tok → Prop) : Prop where
  emit : ∀ (t : Tok) (s : State), Tok.isBad t = false → R s.halted s.trace → R (emit t s).halted (emit t s).trace
  halt : ∀ (t : Tok) (s : State), Tok.isBad t = true → R s.halted s.trace → R (halt t s).halted (halt t s).trace
  doCancel : ∀ (s : State), R s.halted s.trace → R (doCancel s).halted (doCancel s).trace

theorem closed_halted : Closed (fun h _ => h = true) where
  emit := fun t s _ h => by rw [emit_halted_eq]; exact h
  halt := fun t s _ _ => halt_halted t s
  doCancel := fun s h => by rw [doCancel_halted_eq]; exact h

/-- `halted` ⇔ a `FUEL` / `BAD _` token was recorded -/
def BadInv (h : Bool) (tr : List Tok) : Prop := h = true ↔ ∃ t ∈ tr, Tok.isBad t = true

theorem closed_inv : Closed BadInv where
  emit := fun t s ht h => by
    by_cases hh : s.halted = true
    · rw [emit_halted t s hh]; exact h
    · have hh' : s.halted = false := by simpa using hh
      have hX : Tok.isBad .X = false := rfl
      unfold BadInv at h ⊢
      rw [emit_halted_eq]
      rcases emit_spec t s hh' with e | ⟨_, e⟩ <;> rw [e] <;> simp only [List.mem_cons] <;> constructor
      · intro a; obtain ⟨x, hx, hb⟩ := h.1 a; exact ⟨x, Or.inr hx, hb⟩
      · rintro ⟨x, hx | hx, hb⟩
        · subst hx; rw [ht] at hb; cases hb
        · exact h.2 ⟨x, hx, hb⟩
      · intro a; obtain ⟨x, hx, hb⟩ := h.1 a; exact ⟨x, Or.inr (Or.inr hx), hb⟩
      · rintro ⟨x, hx | hx | hx, hb⟩
        · subst hx; rw [hX] at hb; cases hb
        · subst hx; rw [ht] at hb; cases hb
        · exact h.2 ⟨x, hx, hb⟩
  halt := fun t s ht h => by
    by_cases hh : s.halted = true
    · have : halt t s = s := by simp [EngineImpl.halt, hh]
      rw [this]; exact h
    · have hh' : s.halted = false := by simpa using hh
      rw [halt_spec t s hh']
      exact ⟨fun _ => ⟨t, List.mem_cons_self, ht⟩, fun _ => rfl⟩
  doCancel := fun s h => by
    by_cases hh : s.halted = true
    · have e : (doCancel s).trace = s.trace := by
        unfold EngineImpl.doCancel; by_cases hc : s.cancelIssued = true <;> simp [hc, hh]
      rw [doCancel_halted_eq, e]; exact h
    · have hh' : s.halted = false := by simpa using hh
      unfold BadInv at h ⊢
      rw [doCancel_halted_eq]
      rcases doCancel_spec s hh' with e | ⟨_, e⟩ <;> rw [e]
      · exact h
      · simp only [List.mem_cons]; constructor
        · intro a; obtain ⟨x, hx, hb⟩ := h.1 a; exact ⟨x, Or.inr hx, hb⟩
        · rintro ⟨x, hx | hx, hb⟩
          · subst hx; cases hb
          · exact h.2 ⟨x, hx, hb⟩

section Preserve
variable {R : Bool → List Tok → Prop} (hR : Closed R)

local notation "⟪" s "⟫" => R (State.halted s) (State.trace s)

/-! ### leaves -/

theorem of_eq_pair {α : Type} {p : α × State} {a : α} {s1 : State} (e : p = (a, s1)) (h : ⟪p.2⟫) : ⟪s1⟫ := by
  subst e; exact h

theorem rs_setRule (s : State) (ri : RuleInfo) (h : ⟪s⟫) : ⟪s.setRule ri⟫ := h
theorem rs_setTask (s : State) (t : TaskInfo) (h : ⟪s⟫) : ⟪s.setTask t⟫ := h
theorem rs_modRule (s : State) (k : Key) (f : RuleInfo → RuleInfo) (h : ⟪s⟫) : ⟪s.modRule k f⟫ := h
theorem rs_modTask (s : State) (k : Key) (f : TaskInfo → TaskInfo) (h : ⟪s⟫) : ⟪s.modTask k f⟫ := h

include hR

theorem rs_modScanRecord (k : Key) (f : RuleScanRecord → RuleScanRecord) (s : State) (h : ⟪s⟫) :
    ⟪modScanRecord k f s⟫ := by
  unfold modScanRecord
  split
  · exact h
  · exact hR.halt _ _ rfl h

theorem rs_getRuleInfoForKey (k : Key) (s : State) (h : ⟪s⟫) : ⟪getRuleInfoForKey k s⟫ := by
  unfold getRuleInfoForKey
  split
  · exact h
  · dsimp only
    split
    · split
      · exact hR.emit _ _ rfl (hR.emit _ _ rfl h)
      · exact hR.emit _ _ rfl (hR.emit _ _ rfl h)
    · exact hR.emit _ _ rfl h

theorem rs_addTaskInputRequest (task key inputID : Nat) (oo su : Bool) (s : State) (h : ⟪s⟫) :
    ⟪addTaskInputRequest task key inputID oo su s⟫ := by
  unfold addTaskInputRequest
  split
  · exact hR.halt _ _ rfl h
  · exact rs_getRuleInfoForKey hR _ _ h

theorem rs_taskNeedsInput (task key inputID : Nat) (s : State) (h : ⟪s⟫) : ⟪taskNeedsInput task key inputID s⟫ := by
  unfold taskNeedsInput
  split
  · exact hR.emit _ _ rfl h
  · exact rs_addTaskInputRequest hR _ _ _ _ _ _ h

theorem rs_taskNeedsSingleUseInput (task key inputID : Nat) (s : State) (h : ⟪s⟫) :
    ⟪taskNeedsSingleUseInput task key inputID s⟫ := by
  unfold taskNeedsSingleUseInput
  split
  · exact hR.emit _ _ rfl h
  · exact rs_addTaskInputRequest hR _ _ _ _ _ _ h

theorem rs_taskMustFollow (task key : Nat) (s : State) (h : ⟪s⟫) : ⟪taskMustFollow task key s⟫ :=
  rs_addTaskInputRequest hR _ _ _ _ _ _ h

theorem rs_taskDiscoveredDependency (task key : Nat) (s : State) (h : ⟪s⟫) : ⟪taskDiscoveredDependency task key s⟫ := by
  unfold taskDiscoveredDependency
  split
  · exact hR.emit _ _ rfl h
  · exact h

theorem rs_taskIsComplete (task : Key) (v : Val) (fc : Bool) (s : State) (h : ⟪s⟫) : ⟪taskIsComplete task v fc s⟫ := by
  unfold taskIsComplete
  dsimp only
  split
  · exact hR.emit _ _ rfl h
  · exact h

theorem rs_issue (task : Key) : ∀ (l : List Req) (s : State), ⟪s⟫ → ⟪issue task l s⟫
  | [], s, h => h
  | q :: rest, s, h => by
    rw [issue]
    apply rs_issue task rest
    split
    · exact rs_taskNeedsInput hR _ _ _ _ h
    · split
      · exact rs_taskNeedsSingleUseInput hR _ _ _ _ h
      · exact rs_taskMustFollow hR _ _ _ h

theorem rs_taskStart (task : Key) (s : State) (h : ⟪s⟫) : ⟪taskStart task s⟫ :=
  rs_issue hR _ _ _ (hR.emit _ _ rfl h)

theorem rs_taskProvideValue (task : Key) (id : Nat) (key : Key) (v : Val) (s : State) (h : ⟪s⟫) :
    ⟪taskProvideValue task id key v s⟫ :=
  rs_issue hR _ _ _ (hR.emit _ _ rfl h)

theorem rs_taskComplete (task : Key) (s : State) (h : ⟪s⟫) : ⟪taskComplete task s⟫ :=
  rs_taskIsComplete hR _ _ _ _ (hR.emit _ _ rfl h)

theorem rs_reportDiscovered (task : Key) : ∀ (l : List Key) (s : State), ⟪s⟫ → ⟪reportDiscovered task l s⟫
  | [], s, h => h
  | d :: ds, s, h => by
    rw [reportDiscovered]
    exact rs_reportDiscovered task ds _ (rs_taskDiscoveredDependency hR _ _ _ h)

theorem rs_taskInputsAvailable (task : Key) (s : State) (h : ⟪s⟫) : ⟪taskInputsAvailable task s⟫ := by
  unfold taskInputsAvailable
  dsimp only
  have h1 := rs_reportDiscovered hR task (discKeys (specOf s.rules task) (s.task task).recv) _
    (hR.emit (.IA task (discKeys (specOf s.rules task) (s.task task).recv)) s rfl h)
  split
  · exact rs_taskComplete hR _ _ h1
  · exact h1

omit hR in
theorem rs_destroyTask (task : Key) (s : State) (h : ⟪s⟫) : ⟪destroyTask task s⟫ := h

theorem rs_completeKey (k : Key) (s : State) (h : ⟪s⟫) : ⟪(completeKey k s).2⟫ := by
  unfold completeKey
  split
  · exact rs_taskComplete hR _ _ h
  · exact h

theorem rs_completeSmallest (s : State) (h : ⟪s⟫) : ⟪(completeSmallest s).2⟫ := by
  unfold completeSmallest
  split
  · exact h
  · exact rs_completeKey hR _ _ h

theorem rs_completeKeys : ∀ (l : List Key) (any : Bool) (s : State), ⟪s⟫ → ⟪(completeKeys l any s).2⟫
  | [], any, s, h => h
  | k :: ks, any, s, h => by
    rw [completeKeys]
    exact rs_completeKeys ks _ _ (rs_completeKey hR k s h)

theorem rs_hook (point : Nat) (s : State) (h : ⟪s⟫) : ⟪hook point s⟫ := by
  unfold hook
  split
  · exact rs_completeSmallest hR _ h
  · split
    next any s1 heq =>
      have h1 : ⟪s1⟫ := by
        refine of_eq_pair heq ?_
        split
        · exact h
        · split
          next any2 s2 heq2 =>
            have h2 : ⟪s2⟫ := of_eq_pair heq2 (rs_completeKeys hR _ _ _ h)
            dsimp only
            split
            · exact hR.doCancel _ h2
            · exact h2
      split
      · exact rs_completeSmallest hR _ h1
      · exact h1

/-! ### scanning and demanding -/

theorem rs_scanRule (k : Key) (s : State) (h : ⟪s⟫) : ⟪(scanRule k s).2⟫ := by
  unfold scanRule
  dsimp only
  repeat' split
  all_goals first
    | exact h
    | exact hR.emit _ _ rfl h
    | exact hR.emit _ _ rfl (hR.emit _ _ rfl h)
    | exact hR.emit _ _ rfl (hR.emit _ _ rfl (hR.emit _ _ rfl h))

theorem rs_demandRule (k : Key) (s : State) (h : ⟪s⟫) : ⟪(demandRule k s).2⟫ := by
  unfold demandRule
  dsimp only
  split
  · exact h
  · split
    · exact h
    · split
      · exact hR.emit _ _ rfl h
      · have h1 := rs_taskStart hR k _ (rs_modRule ((emit (.T k) s).setTask { forRuleInfo := k }) k
          (fun ri => { ri with state := .inProgressWaiting, inProgressInfo := .pendingTaskInfo,
                               result := { ri.result with deps := [] } }) (hR.emit (.T k) s rfl h))
        split <;> split <;> first | exact h1 | exact hR.emit _ _ rfl h1

theorem rs_finishScanRequest (k : Key) (st : StateKind) (s : State) (h : ⟪s⟫) : ⟪finishScanRequest k st s⟫ := by
  unfold finishScanRequest
  split
  · exact hR.halt _ _ rfl h
  · exact h

theorem rs_scanLoop : ∀ (fuel : Nat) (r : RuleScanRequest) (s : State), ⟪s⟫ → ⟪scanLoop fuel r s⟫
  | 0, r, s, h => by rw [scanLoop]; exact hR.halt _ _ rfl h
  | fuel + 1, r, s, h => by
    rw [scanLoop]
    dsimp only
    split
    · exact hR.halt _ _ rfl h
    · next request input s1 heq =>
      have h1 : ⟪s1⟫ := by
        split at heq
        · cases heq; exact h
        · split at heq
          · cases heq
          · cases heq; exact rs_getRuleInfoForKey hR _ _ h
      have h2 := rs_scanRule hR input s1 h1
      split
      · exact rs_modScanRecord hR _ _ _ h2
      · have h3 := rs_demandRule hR input _ h2
        split
        · exact h3
        · split
          · exact hR.emit _ _ rfl (rs_finishScanRequest hR _ _ _ h3)
          · split
            · exact rs_scanLoop fuel _ _ h3
            · exact rs_finishScanRequest hR _ _ _ h3

theorem rs_processRuleScanRequest (r : RuleScanRequest) (s : State) (h : ⟪s⟫) : ⟪processRuleScanRequest r s⟫ := by
  unfold processRuleScanRequest
  split
  · exact h
  · exact rs_scanLoop hR _ _ _ h

theorem rs_decrementTaskWaitCount (task : Key) (s : State) (h : ⟪s⟫) : ⟪decrementTaskWaitCount task s⟫ := by
  unfold decrementTaskWaitCount
  split
  · exact hR.halt _ _ rfl h
  · dsimp only
    split <;> exact h

theorem rs_processInputRequest (r : TaskInputRequest) (s : State) (h : ⟪s⟫) : ⟪processInputRequest r s⟫ := by
  unfold processInputRequest
  dsimp only
  have h2 := rs_scanRule hR r.inputRuleInfo s h
  split
  · exact rs_modScanRecord hR _ _ _ h2
  · have h3 := rs_demandRule hR r.inputRuleInfo _ h2
    split
    · exact h3
    · split <;> exact h3

theorem rs_finishedInputStep (task : Key) (r : TaskInputRequest) (s : State) (h : ⟪s⟫) : ⟪finishedInputStep task r s⟫ := by
  unfold finishedInputStep
  apply rs_decrementTaskWaitCount hR
  split
  · exact h
  · exact rs_taskProvideValue hR _ _ _ _ _ h

theorem rs_readyStep (task : Key) (s : State) (h : ⟪s⟫) : ⟪readyStep task s⟫ := by
  unfold readyStep
  exact rs_taskInputsAvailable hR task _ (rs_modRule s _ _ h)

theorem rs_pushDiscovered : ∀ (l : List Dep) (s : State), ⟪s⟫ → ⟪pushDiscovered l s⟫
  | [], s, h => h
  | d :: ds, s, h => by
    rw [pushDiscovered]
    exact rs_pushDiscovered ds _ (rs_getRuleInfoForKey hR d.key s h)

theorem rs_setRuleResult (k : Key) (res : Res) (s : State) (h : ⟪s⟫) : ⟪(setRuleResult k res s).2⟫ := by
  unfold setRuleResult
  dsimp only
  split <;> exact hR.emit _ _ rfl h

theorem rs_finishedTaskWrite (task : Key) (s : State) (h : ⟪s⟫) : ⟪(finishedTaskWrite task s).2⟫ := by
  unfold finishedTaskWrite
  dsimp only
  have h1 : ⟪emit (.S (s.task task).forRuleInfo 2)
      (s.modRule (s.task task).forRuleInfo (fun ri => setComplete s { ri with inProgressInfo := .null }))⟫ :=
    hR.emit _ _ rfl h
  have h2 := rs_pushDiscovered hR (s.task task).discoveredDependencies _
    (rs_modRule _ (s.task task).forRuleInfo
      (fun ri => { ri with result := { ri.result with deps := ri.result.deps ++ (s.task task).discoveredDependencies } }) h1)
  split
  · exact rs_setRuleResult hR _ _ _ h2
  · exact h2

/-! ### cancellation, cycles -/

theorem rs_drainLoop : ∀ (fuel : Nat) (s : State), ⟪s⟫ → ⟪drainLoop fuel s⟫
  | 0, s, h => by rw [drainLoop]; exact hR.halt _ _ rfl h
  | fuel + 1, s, h => by
    rw [drainLoop]
    dsimp only
    have h1 := rs_hook hR 2 s h
    split
    · exact h
    · split
      · exact hR.halt _ _ rfl h1
      · exact rs_drainLoop fuel _ h1

omit hR in
theorem rs_cancelTasks : ∀ (l : List (Key × TaskInfo)) (s : State), ⟪s⟫ → ⟪cancelTasks l s⟫
  | [], s, h => h
  | (_, t) :: rest, s, h => by
    rw [cancelTasks]
    exact rs_cancelTasks rest _ h

omit hR in
theorem rs_destroyTasks : ∀ (l : List (Key × TaskInfo)) (s : State), ⟪s⟫ → ⟪destroyTasks l s⟫
  | [], s, h => h
  | (k, _) :: rest, s, h => by
    rw [destroyTasks]
    exact rs_destroyTasks rest _ h

theorem rs_cancelRemainingTasks (s : State) (h : ⟪s⟫) : ⟪cancelRemainingTasks s⟫ := by
  unfold cancelRemainingTasks
  dsimp only
  apply rs_destroyTasks
  exact rs_cancelTasks _ _ (rs_drainLoop hR _ _ h)

theorem rs_breakCycleLoop : ∀ (l : List Key) (s : State), ⟪s⟫ → ⟪(breakCycleLoop l s).2⟫
  | [], s, h => h
  | k :: rest, s, h => by
    rw [breakCycleLoop.eq_def]
    dsimp only
    split
    · split
      · exact h
      · exact hR.emit _ _ rfl (rs_finishScanRequest hR _ _ _ h)
    · split
      · split
        · exact rs_breakCycleLoop _ s h
        · split
          · exact rs_breakCycleLoop _ s h
          · split <;> exact h
      · exact rs_breakCycleLoop rest s h

theorem rs_resolveCycle (key : Key) (s : State) (h : ⟪s⟫) : ⟪(resolveCycle key s).2⟫ := by
  unfold resolveCycle
  split
  · exact hR.halt _ _ rfl h
  · next cycleList _ =>
    have h1 : ⟪(breakCycle cycleList s).2⟫ := rs_breakCycleLoop hR _ s h
    dsimp only
    split
    · exact h1
    · exact hR.emit _ _ rfl h1

/-! ### the work loops -/

theorem rs_scanRequestsLoop : ∀ (fuel : Nat) (w : Bool) (s : State), ⟪s⟫ → ⟪(scanRequestsLoop fuel w s).2⟫
  | 0, w, s, h => by rw [scanRequestsLoop]; exact hR.halt _ _ rfl h
  | fuel + 1, w, s, h => by
    rw [scanRequestsLoop]
    split
    · exact h
    · exact rs_scanRequestsLoop fuel _ _ (rs_processRuleScanRequest hR _ _ h)

theorem rs_inputRequestsLoop : ∀ (fuel : Nat) (w : Bool) (s : State), ⟪s⟫ → ⟪(inputRequestsLoop fuel w s).2⟫
  | 0, w, s, h => by rw [inputRequestsLoop]; exact hR.halt _ _ rfl h
  | fuel + 1, w, s, h => by
    rw [inputRequestsLoop]
    split
    · exact h
    · exact rs_inputRequestsLoop fuel _ _ (rs_processInputRequest hR _ _ h)

theorem rs_finishedInputsLoop : ∀ (fuel : Nat) (w : Bool) (s : State), ⟪s⟫ → ⟪(finishedInputsLoop fuel w s).2⟫
  | 0, w, s, h => by rw [finishedInputsLoop]; exact hR.halt _ _ rfl h
  | fuel + 1, w, s, h => by
    rw [finishedInputsLoop_succ]
    split
    · exact h
    · split
      · exact hR.halt _ _ rfl h
      · exact rs_finishedInputsLoop fuel _ _ (rs_finishedInputStep hR _ _ _ h)

theorem rs_readyTasksLoop : ∀ (fuel : Nat) (w : Bool) (s : State), ⟪s⟫ → ⟪(readyTasksLoop fuel w s).2⟫
  | 0, w, s, h => by rw [readyTasksLoop]; exact hR.halt _ _ rfl h
  | fuel + 1, w, s, h => by
    rw [readyTasksLoop_succ]
    split
    · exact h
    · exact rs_readyTasksLoop fuel _ _ (rs_readyStep hR _ _ h)

theorem rs_finishedTasksLoop : ∀ (fuel : Nat) (w : Bool) (s : State), ⟪s⟫ → ⟪(finishedTasksLoop fuel w s).2.2⟫
  | 0, w, s, h => by rw [finishedTasksLoop]; exact hR.halt _ _ rfl h
  | fuel + 1, w, s, h => by
    rw [finishedTasksLoop_succ]
    split
    · exact h
    · next task _ =>
      dsimp only
      have h1 := rs_finishedTaskWrite hR task { s with finishedTaskInfos := s.finishedTaskInfos.dropLast } h
      split
      · exact rs_cancelRemainingTasks hR _ (hR.emit _ _ rfl h1)
      · exact rs_finishedTasksLoop fuel _ _ h1

theorem rs_executeLoop (key : Key) : ∀ (fuel : Nat) (s : State), ⟪s⟫ → ⟪(executeLoop key fuel s).2⟫
  | 0, s, h => hR.halt .FUEL s rfl h
  | fuel + 1, s, h => by
    show R (if s.halted then (false, s) else _).2.halted (if s.halted then (false, s) else _).2.trace
    split
    · exact h
    · have h0 := rs_hook hR 0 s h
      generalize hook 0 s = s0 at h0 ⊢
      dsimp only
      split
      · exact rs_cancelRemainingTasks hR _ h0
      · have h1 := rs_scanRequestsLoop hR loopFuel false s0 h0
        generalize scanRequestsLoop loopFuel false s0 = r1 at h1 ⊢
        obtain ⟨w1, s1⟩ := r1
        dsimp only at h1 ⊢
        have h2 := rs_inputRequestsLoop hR loopFuel w1 s1 h1
        generalize inputRequestsLoop loopFuel w1 s1 = r2 at h2 ⊢
        obtain ⟨w2, s2⟩ := r2
        dsimp only at h2 ⊢
        have h3 := rs_finishedInputsLoop hR loopFuel w2 s2 h2
        generalize finishedInputsLoop loopFuel w2 s2 = r3 at h3 ⊢
        obtain ⟨w3, s3⟩ := r3
        dsimp only at h3 ⊢
        have h4 := rs_readyTasksLoop hR loopFuel w3 s3 h3
        generalize readyTasksLoop loopFuel w3 s3 = r4 at h4 ⊢
        obtain ⟨w4, s4⟩ := r4
        dsimp only at h4 ⊢
        have h5 := rs_finishedTasksLoop hR loopFuel w4 s4 h4
        generalize finishedTasksLoop loopFuel w4 s4 = r5 at h5 ⊢
        obtain ⟨f5, w5, s5⟩ := r5
        dsimp only at h5 ⊢
        split
        · exact h5
        · have h6 : ⟪(if (!w5 && s5.numOutstandingUnfinishedTasks != 0) = true then
              (true, if (hook 1 s5).finishedTaskInfos.isEmpty = true then halt (Tok.BAD "stall") (hook 1 s5) else hook 1 s5)
              else (w5, s5)).2⟫ := by
            split
            · dsimp only
              split
              · exact hR.halt _ _ rfl (rs_hook hR 1 s5 h5)
              · exact rs_hook hR 1 s5 h5
            · exact h5
          generalize (if (!w5 && s5.numOutstandingUnfinishedTasks != 0) = true then
              (true, if (hook 1 s5).finishedTaskInfos.isEmpty = true then halt (Tok.BAD "stall") (hook 1 s5) else hook 1 s5)
              else (w5, s5)) = r6 at h6 ⊢
          obtain ⟨w6, s6⟩ := r6
          dsimp only at h6 ⊢
          split
          · exact rs_executeLoop key fuel s6 h6
          · split
            · have h7 := rs_resolveCycle hR key s6 h6
              generalize resolveCycle key s6 = r7 at h7 ⊢
              obtain ⟨w7, s7⟩ := r7
              dsimp only at h7 ⊢
              split
              · exact rs_executeLoop key fuel s7 h7
              · exact rs_cancelRemainingTasks hR _ h7
            · exact h6

theorem rs_executeTasks (key : Key) (s : State) (h : ⟪s⟫) : ⟪(executeTasks key s).2⟫ := by
  unfold executeTasks
  exact rs_executeLoop hR key _ _
    (rs_getRuleInfoForKey hR key { s with finishedInputRequests := [] } h)

/-! ### `build`, `runBuild` -/

theorem rs_build (key : Key) (s : State) (h : ⟪s⟫) : ⟪(build key s).2⟫ := by
  unfold build
  have h0 : ⟪(if s.hasDB = true then emit .DB s else s)⟫ := by
    split
    · exact hR.emit _ _ rfl h
    · exact h
  generalize (if s.hasDB = true then emit .DB s else s) = s0 at h0 ⊢
  have hfin : ∀ x : State, ⟪x⟫ → ⟪(if x.hasDB = true then emit .DE x else x)⟫ := by
    intro x hx
    split
    · exact hR.emit _ _ rfl hx
    · exact hx
  dsimp only
  split
  · exact hfin _ h0
  · have h1 := rs_executeTasks hR key { emit .QC s0 with currentEpoch := (emit .QC s0).currentEpoch + 1 }
      (hR.emit .QC s0 rfl h0)
    generalize executeTasks key { emit .QC s0 with currentEpoch := (emit .QC s0).currentEpoch + 1 } = r1 at h1 ⊢
    obtain ⟨ok, s1⟩ := r1
    dsimp only at h1 ⊢
    generalize hs2 : (if s1.hasDB = true then _ else s1) = s2
    have h2 : ⟪s2⟫ := by
      rw [← hs2]
      split
      · exact hR.emit _ _ rfl h1
      · exact h1
    split
    · exact hfin (freeScanRecords s2) h2
    · exact hfin (freeScanRecords (getRuleInfoForKey key s2)) (rs_getRuleInfoForKey hR key s2 h2)

/-- `runBuild` from a state whose recorder has been reset: only the reset state has to satisfy `R` -/
theorem rs_runBuild (key cancelAt : Nat) (sched : List SchedItem) (s : State) (h : R false []) :
    ⟪runBuild key cancelAt sched s⟫ := by
  unfold runBuild
  dsimp only
  apply hR.emit _ _ rfl
  apply hR.emit _ _ rfl
  apply rs_build hR
  apply hR.emit _ _ rfl
  exact h

end Preserve

/-! ## The two side conditions -/

/-- `HaltMono` from the generic preservation statement -/
theorem haltMono_of {f : State → State}
    (hf : ∀ {R : Bool → List Tok → Prop}, Closed R → ∀ s, R s.halted s.trace → R (f s).halted (f s).trace) :
    HaltMono f := fun s h => hf closed_halted s h

theorem haltMono_all : Todo_haltMono :=
  ⟨fun k => haltMono_of (fun hR => rs_scanRule hR k),
   fun k => haltMono_of (fun hR => rs_demandRule hR k),
   fun k st => haltMono_of (fun hR => rs_finishScanRequest hR k st),
   fun fuel r => haltMono_of (fun hR => rs_scanLoop hR fuel r),
   fun r => haltMono_of (fun hR => rs_processRuleScanRequest hR r),
   fun a l => haltMono_of (fun hR => rs_issue hR a l),
   fun r => haltMono_of (fun hR => rs_processInputRequest hR r),
   fun a r => haltMono_of (fun hR => rs_finishedInputStep hR a r),
   fun a => haltMono_of (fun hR => rs_readyStep hR a),
   fun a => haltMono_of (fun hR => rs_taskComplete hR a),
   fun p => haltMono_of (fun hR => rs_hook hR p),
   fun a => haltMono_of (fun hR => rs_finishedTaskWrite hR a),
   haltMono_of (fun hR => rs_cancelRemainingTasks hR),
   fun fuel w => haltMono_of (fun hR => rs_scanRequestsLoop hR fuel w),
   fun fuel w => haltMono_of (fun hR => rs_inputRequestsLoop hR fuel w),
   fun fuel w => haltMono_of (fun hR => rs_finishedInputsLoop hR fuel w),
   fun fuel w => haltMono_of (fun hR => rs_readyTasksLoop hR fuel w),
   fun fuel w => haltMono_of (fun hR => rs_finishedTasksLoop hR fuel w),
   fun key fuel => haltMono_of (fun hR => rs_executeLoop hR key fuel)⟩

/-- the invariant at the end of a build: halted ⇔ a `FUEL` / `BAD _` token is in the trace -/
theorem runBuild_badInv (key cancelAt : Nat) (sched : List SchedItem) (s : State) :
    BadInv (runBuild key cancelAt sched s).halted (runBuild key cancelAt sched s).trace :=
  rs_runBuild closed_inv key cancelAt sched s (by simp [BadInv])

theorem halted_iff_bad : Todo_halted_iff_bad := by
  intro key cancelAt sched s
  have h := runBuild_badInv key cancelAt sched s
  unfold BadInv at h
  unfold NoBad
  constructor
  · intro hh t ht
    cases hb : Tok.isBad t with
    | false => rfl
    | true => rw [h.2 ⟨t, ht, hb⟩] at hh; cases hh
  · intro hn
    cases hh : (runBuild key cancelAt sched s).halted with
    | false => rfl
    | true =>
      obtain ⟨t, ht, hb⟩ := h.1 hh
      rw [hn t ht] at hb; cases hb

/-! ## Examples (the statements are not vacuous) -/

/-- a one-rule program builds without halting … -/
example : (runBuild 1 0 [] { rules := [{ key := 1 }] }).halted = false := by decide
/-- … so its trace has no `FUEL` / `BAD _` -/
example : NoBad (runBuild 1 0 [] { rules := [{ key := 1 }] }).trace :=
  (halted_iff_bad 1 0 [] { rules := [{ key := 1 }] }).1 (by decide)
/-- the other direction: a halting step leaves a bad token -/
example : BadInv (halt .FUEL {}).halted (halt .FUEL {}).trace := closed_inv.halt .FUEL {} rfl (by simp [BadInv])
example : (halt .FUEL {}).halted = true ∧ ¬ NoBad (halt .FUEL {}).trace :=
  ⟨rfl, fun h => by have := h .FUEL (by simp [halt]); cases this⟩
/-- `isPerm` on dependency lists in different orders -/
example : List.Perm [(⟨1, false, false⟩ : Dep), ⟨2, true, false⟩] [⟨2, true, false⟩, ⟨1, false, false⟩] :=
  (isPerm_iff _ _).1 (by decide)
example : ¬ List.Perm [(⟨1, false, false⟩ : Dep)] [⟨1, true, false⟩] :=
  fun h => by have := (isPerm_iff _ _).2 h; revert this; decide

end LLBuild.Refine
